package main

// Glue stream of C03: generated closed deterministic JavaScript programs are
// minified through the public API with every flag subset and executed in Node
// next to the original; the probe traces (calls, Object.is-exact argument
// rendering, valueOf/toString callbacks, exception classes) must be identical.

import (
	"encoding/json"
	"fmt"
	"os"
	"os/exec"
	"path/filepath"
	"regexp"
	"strings"
	"time"

	"github.com/evanw/esbuild/pkg/api"
	. "github.com/evanw/esbuild/verifharness/hlib"
)

const runnerJS = `
const fs = require('fs');
const input = JSON.parse(fs.readFileSync(process.argv[2], 'utf8'));
function render(v, d) {
  switch (typeof v) {
    case 'number': return Object.is(v, -0) ? 'n:-0' : 'n:' + String(v);
    case 'string': return 's:' + JSON.stringify(v);
    case 'bigint': return 'b:' + String(v);
    case 'boolean': return String(v);
    case 'undefined': return 'undefined';
    case 'symbol': return 'sym';
    case 'function': return 'fn';
    default:
      if (v === null) return 'null';
      if (d > 3) return '...';
      if (v && v.__probe !== undefined) return 'obj#' + v.__probe;
      if (Array.isArray(v)) { let s = []; for (let i = 0; i < v.length; i++) s.push(i in v ? render(v[i], d + 1) : 'hole'); return '[' + s.join(',') + ']'; }
      if (v instanceof RegExp) return 're';
      if (v instanceof Error) return 'err:' + v.constructor.name;
      return '{' + Reflect.ownKeys(v).map(k => (typeof k === 'symbol' ? 'sym' : JSON.stringify(k)) + ':' + render(v[k], d + 1)).join(',') + '}';
  }
}
const out = [];
for (const code of input) {
  const log = [];
  let ticks = 0;
  const $ = (id, v) => { log.push('$' + id + '=' + render(v, 0)); return v; };
  const $o = (id, prim) => ({ __probe: id, valueOf() { log.push('v' + id); return prim; }, toString() { log.push('t' + id); return String(prim); } });
  const $t = () => { if (++ticks > 2000) throw new RangeError('tick budget'); };
  const pureFn = (x) => x;
  const cons = { log() {}, warn() {}, error() {} };
  const DEF = { obj: { prop: 7 } };
  try {
    const f = new Function('$', '$o', '$t', 'pureFn', 'console', 'sym', 'DEF_N', 'DEF_S', 'DEF_T', 'DEF_U', 'DEF', code);
    f($, $o, $t, pureFn, cons, Symbol.iterator, 42, 'str', true, undefined, DEF);
    log.push('end');
  } catch (e) {
    log.push('throw=' + ((e instanceof Error) ? e.constructor.name : render(e, 0)));
  }
  out.push(log.join('|'));
}
fs.writeFileSync(process.argv[3], JSON.stringify(out));
`

// ---------------------------------------------------------------------------
// program generator

type genOpts struct {
	dropLabels bool // render without the DROPME: blocks (the baseline after the requested substitution)
	names      bool // observe function .name (only meaningful with keep-names)
}

type gen struct {
	r        *Rng
	probe    int
	vars     []string // assignable locals in scope
	consts   []string // const locals in scope
	inFn     bool
	depthCap int
	avoidA   bool // known finding A reproduces: no non-primitive computed keys in object literals
	avoidB   bool // known finding B reproduces: no (+-1) ** (NaN | +-Infinity)
	avoidI   bool // known finding I reproduces: no radix bigint literals (0x0n ...)
	avoidH   bool // known finding H reproduces: no template literal as the direct right operand of +
	tmp      int
	loopVar  int
	noF0     bool // inside f0's own body: no recursion
}

var numLits = []string{"0", "-0", "1", "-1", "2", "3", "0.5", "1.5", "-1.5", "NaN", "Infinity", "-Infinity", "255", "256", "2147483647", "2147483648", "-2147483648", "-2147483649",
	"4294967295", "4294967296", "4294967297", "9007199254740992", "9007199254740993", "5e-324", "0.1", "0.2", "1e21", "1e-7", "31", "32", "33", "1e300", "-1e300", "1.7976931348623157e308", "123456789", "0/0", "1/0", "-1/0", "10", "100"}
var strLits = []string{`""`, `"a"`, `"b"`, `"1e3"`, `" 12 "`, `"0x10"`, `"-0"`, `"0"`, `"1"`, `"-1"`, `"abc"`, `"\ud800"`, `"\udc00a"`, `"￿"`, `"undefined"`, `"null"`, `"true"`, `"u"`, `"object"`, `"x"`, `"number"`, `"2147483648"`, `"-2147483648"`, `"4294967296"`, `"01"`, `"1.0"`, `"NaN"`, `"Infinity"`, `" "`, `"\n"`, `"12"`, `"function"`, `"[object Object]"`, `"é"`, `"😀"`, `"a,b"`}
var otherLits = []string{"true", "false", "null", "undefined", "void 0", "0n", "1n", "-1n", "10n", "[]", "{}", "[1,2]", "[0]", "[[]]", "[,1]", "({valueOf(){return 1}})", "[\"a\"]", "({toString(){return \"k\"}})"}

func (g *gen) lit() string {
	if !g.avoidI && g.r.Chance(3) {
		return []string{"0x0n", "0x1n", "0b0n", "0o7n"}[g.r.Intn(4)]
	}
	switch g.r.Intn(10) {
	case 0, 1, 2, 3:
		return numLits[g.r.Intn(len(numLits))]
	case 4, 5, 6:
		return strLits[g.r.Intn(len(strLits))]
	default:
		return otherLits[g.r.Intn(len(otherLits))]
	}
}

func (g *gen) primLit() string {
	switch g.r.Intn(8) {
	case 0, 1, 2:
		return numLits[g.r.Intn(len(numLits))]
	case 3, 4, 5:
		return strLits[g.r.Intn(len(strLits))]
	default:
		return otherLits[g.r.Intn(10)]
	}
}

// a left operand of the form (...) + ("string literal") or ... + "" + (...)
var nestedStringAdd = regexp.MustCompile(`\+ \("[^"]*"\)$|\+ "" \+ \(`)

// an operand whose evaluation has no observable effect (literal or plain variable
// holding a primitive-or-logged object is NOT ok: only literals)
func (g *gen) pureLeaf() string { return g.primLit() }

func (g *gen) nextProbe() int { g.probe++; return g.probe }

func (g *gen) leaf() string {
	switch g.r.Intn(16) {
	case 0, 1, 2:
		return g.lit()
	case 3, 4, 5:
		return fmt.Sprintf("$(%d, %s)", g.nextProbe(), g.lit())
	case 6:
		return fmt.Sprintf("$o(%d, %s)", g.nextProbe(), g.primLit())
	case 7, 8, 9:
		if len(g.vars) > 0 {
			return g.vars[g.r.Intn(len(g.vars))]
		}
		return g.lit()
	case 10:
		if len(g.consts) > 0 {
			return g.consts[g.r.Intn(len(g.consts))]
		}
		return g.lit()
	case 11:
		return []string{"o.x", "o.y", "o.z", "o[\"x\"]", "nul?.x", "o?.x", "und?.[0]", "nul?.x.y", "o?.y?.z"}[g.r.Intn(9)]
	case 12:
		return []string{"typeof undeclaredGlobal", "typeof a", "typeof o", "typeof nul", "typeof undeclaredGlobal === \"undefined\"", "typeof undeclaredGlobal != \"undefined\"", "typeof undeclaredGlobal > \"u\""}[g.r.Intn(7)]
	case 13:
		return []string{"DEF_N", "DEF_S", "DEF_T", "DEF_U", "DEF.obj.prop", "typeof DEF_N", "sym"}[g.r.Intn(7)]
	case 14:
		return fmt.Sprintf("pureFn(%s)", g.lit())
	default:
		return fmt.Sprintf("$(%d, %s)", g.nextProbe(), g.primLit())
	}
}

var binOps = []string{"+", "-", "*", "/", "%", "**", "<", "<=", ">", ">=", "==", "!=", "===", "!==", "<<", ">>", ">>>", "&", "|", "^", "in", "instanceof"}
var commonBinOps = []string{"+", "-", "*", "<", ">", "==", "!=", "===", "!==", ">>>", "&", "|"}
var assignOps = []string{"=", "+=", "-=", "*=", "/=", "%=", "**=", "<<=", ">>=", ">>>=", "|=", "&=", "^=", "||=", "&&=", "??="}

func (g *gen) target() string {
	if len(g.vars) > 0 && g.r.Chance(75) {
		return g.vars[g.r.Intn(len(g.vars))]
	}
	return []string{"o.x", "o.y", "o[\"w\"]"}[g.r.Intn(3)]
}

func isPowBad(l, rr string) bool {
	base := l == "1" || l == "-1"
	ex := rr == "NaN" || rr == "Infinity" || rr == "-Infinity" || rr == "0/0" || rr == "1/0" || rr == "-1/0"
	return base && ex
}

func (g *gen) expr(d int) string {
	if d <= 0 || g.r.Chance(12) {
		return g.leaf()
	}
	switch g.r.Intn(26) {
	case 0, 1, 2, 3, 4:
		op := binOps[g.r.Intn(len(binOps))]
		if g.r.Chance(50) {
			op = commonBinOps[g.r.Intn(len(commonBinOps))]
		}
		l, rr := g.expr(d-1), g.expr(d-1)
		if g.avoidH && op == "+" && (strings.HasPrefix(rr, "`") || nestedStringAdd.MatchString(l)) {
			// known finding H: (x + "s") + R is re-associated to x + ("s" + R), which
			// delays ToPrimitive(x) past the evaluation of R: keep R free of effects
			rr = g.pureLeaf()
		}
		return fmt.Sprintf("(%s) %s (%s)", l, op, rr)
	case 5, 6:
		op := []string{"&&", "||", "??"}[g.r.Intn(3)]
		return fmt.Sprintf("(%s) %s (%s)", g.expr(d-1), op, g.expr(d-1))
	case 7, 8:
		return fmt.Sprintf("(%s) ? (%s) : (%s)", g.expr(d-1), g.expr(d-1), g.expr(d-1))
	case 9, 10:
		op := []string{"-", "+", "~", "!", "void ", "typeof ", "!", "!!", "-"}[g.r.Intn(9)]
		return fmt.Sprintf("%s(%s)", op, g.expr(d-1))
	case 11:
		return fmt.Sprintf("((%s), (%s))", g.expr(d-1), g.expr(d-1))
	case 12, 13:
		return fmt.Sprintf("(%s %s (%s))", g.target(), assignOps[g.r.Intn(len(assignOps))], g.expr(d-1))
	case 14:
		t := g.target()
		return []string{"++" + t, "--" + t, t + "++", t + "--"}[g.r.Intn(4)]
	case 15:
		return fmt.Sprintf("`x${%s}y${%s}`", g.expr(d-1), g.expr(d-1))
	case 16:
		if g.r.Bool() {
			return fmt.Sprintf("[(%s), ...[(%s)], (%s)]", g.expr(d-1), g.expr(d-1), g.expr(d-1))
		}
		return fmt.Sprintf("[(%s), (%s)]", g.expr(d-1), g.expr(d-1))
	case 17:
		key := g.expr(d - 1)
		if g.avoidA {
			key = fmt.Sprintf("$(%d, %s)", g.nextProbe(), g.primLit())
			if g.r.Bool() {
				key = g.primLit()
			}
		}
		switch g.r.Intn(3) {
		case 0:
			return fmt.Sprintf("({k: (%s), [%s]: (%s)})", g.expr(d-1), key, g.expr(d-1))
		case 1:
			return fmt.Sprintf("({[%s]: (%s), ...(%s)})", key, g.expr(d-1), g.expr(d-1))
		default:
			return fmt.Sprintf("({k: (%s), m: (%s)})", g.expr(d-1), g.expr(d-1))
		}
	case 18:
		if g.noF0 {
			return g.leaf()
		}
		return fmt.Sprintf("f0((%s), (%s))", g.expr(d-1), g.expr(d-1))
	case 19:
		return fmt.Sprintf("(%s) == null ? (%s) : (%s)", g.leaf(), g.expr(d-1), g.expr(d-1))
	case 20:
		v := "a"
		if len(g.vars) > 0 {
			v = g.vars[g.r.Intn(len(g.vars))]
		}
		switch g.r.Intn(5) {
		case 0:
			return fmt.Sprintf("%s != null ? %s : (%s)", v, v, g.expr(d-1))
		case 1:
			return fmt.Sprintf("%s ? %s : (%s)", v, v, g.expr(d-1))
		case 2:
			return fmt.Sprintf("%s ? (%s) : %s", v, g.expr(d-1), v)
		case 3:
			return fmt.Sprintf("%s == null ? void 0 : %s.x", v, v)
		default:
			return fmt.Sprintf("%s === null || %s === void 0 ? (%s) : %s", v, v, g.expr(d-1), v)
		}
	case 21:
		// same-branch shapes for MangleIfExpr
		e1 := g.expr(d - 1)
		switch g.r.Intn(8) {
		case 5:
			return fmt.Sprintf("(%s) ? (%s) : ((%s) ? (%s) : (%s))", g.expr(d-1), e1, g.expr(d-1), e1, g.expr(d-1))
		case 6:
			return fmt.Sprintf("(%s) ? (%s) : ((%s) && (%s))", g.expr(d-1), e1, g.expr(d-1), e1)
		case 7:
			return fmt.Sprintf("(%s) ? ((%s), (%s)) : (%s)", g.expr(d-1), g.expr(d-1), e1, e1)
		case 0:
			return fmt.Sprintf("(%s) ? (%s) : (%s)", g.expr(d-1), e1, e1)
		case 1:
			return fmt.Sprintf("(%s) ? ((%s) ? (%s) : (%s)) : (%s)", g.expr(d-1), g.expr(d-1), g.expr(d-1), e1, e1)
		case 2:
			return fmt.Sprintf("(%s) ? (%s) : ((%s), (%s))", g.expr(d-1), e1, g.expr(d-1), e1)
		case 3:
			return fmt.Sprintf("(%s) ? ((%s) || (%s)) : (%s)", g.expr(d-1), g.expr(d-1), e1, e1)
		default:
			if g.noF0 {
				return g.leaf()
			}
			return fmt.Sprintf("(%s) ? f0((%s), (%s)) : f0((%s), (%s))", g.expr(d-1), g.expr(d-1), e1, g.expr(d-1), e1)
		}
	case 22:
		return fmt.Sprintf("(%s) ? true : false", g.expr(d-1))
	case 23:
		op := []string{"===", "!==", "==", "!="}[g.r.Intn(4)]
		return fmt.Sprintf("((%s) >>> (%s)) %s 0", g.expr(d-1), g.expr(d-1), op)
	case 24:
		return fmt.Sprintf("!((%s) %s (%s))", g.expr(d-1), []string{"==", "!=", "===", "!==", "<", ">=", ","}[g.r.Intn(7)], g.expr(d-1))
	default:
		l, rr := g.expr(d-1), g.expr(d-1)
		if g.avoidH {
			rr = g.pureLeaf()
		}
		return fmt.Sprintf("(%s) + \"\" + (%s)", l, rr)
	}
}

// post-filter: the generator never emits the known-bad pow family textually as
// "(1) ** (NaN)"; nested forms are evaluated at run time, not folded
func (g *gen) exprTop(d int) string {
	for {
		e := g.expr(d)
		if g.avoidB && containsBadPow(e) {
			continue
		}
		return e
	}
}

func containsBadPow(e string) bool {
	for _, b := range []string{"(1)", "(-1)", "(-(1))"} {
		for _, x := range []string{"(NaN)", "(Infinity)", "(-Infinity)", "(0/0)", "(1/0)", "(-1/0)", "(-(Infinity))"} {
			if strings.Contains(e, b+" ** "+x) {
				return true
			}
		}
	}
	return false
}

type sb struct {
	strings.Builder
	ind int
}

func (s *sb) line(format string, a ...interface{}) {
	s.WriteString(strings.Repeat(" ", s.ind))
	fmt.Fprintf(&s.Builder, format, a...)
	s.WriteString("\n")
}

func (g *gen) cond() string {
	if g.r.Chance(22) {
		// constant truthiness with side effects (mangleIf must keep the effects)
		k := []string{"0", "1", "\"\"", "\"a\"", "null", "NaN", "[]", "-0", "0n", "void 0", "true", "false"}[g.r.Intn(12)]
		p := fmt.Sprintf("$(%d, %s)", g.nextProbe(), g.lit())
		switch g.r.Intn(7) {
		case 0:
			return fmt.Sprintf("(%s, %s)", p, k)
		case 1:
			return fmt.Sprintf("void %s", p)
		case 2:
			return fmt.Sprintf("!void %s", p)
		case 3:
			return fmt.Sprintf("%s && %s", p, []string{"0", "\"\"", "null", "false", "NaN"}[g.r.Intn(5)])
		case 4:
			return fmt.Sprintf("%s || %s", p, []string{"1", "\"a\"", "[]", "true", "{}"}[g.r.Intn(5)])
		case 5:
			return fmt.Sprintf("!(%s, %s)", p, k)
		default:
			return fmt.Sprintf("(%s, !%s)", p, k)
		}
	}
	if g.r.Chance(30) {
		return []string{"true", "false", "0", "1", "\"\"", "null", "!0", "!1", "NaN", "[]", "void 0", "-0", "0n", "\"0\"", "function(){}", "()=>{}", "/re/"}[g.r.Intn(17)]
	}
	return g.exprTop(2)
}

// statements; o = opts; depth d; inLoop tells whether break/continue are legal
func (g *gen) stmts(s *sb, o genOpts, d int, inLoop bool, n int) {
	for i := 0; i < n; i++ {
		g.stmt(s, o, d, inLoop)
	}
}

func (g *gen) jump(inLoop bool) string {
	opts := []string{}
	if g.inFn {
		opts = append(opts, fmt.Sprintf("return $(%d, %s);", g.nextProbe(), g.lit()), "return;", fmt.Sprintf("return %s;", g.exprTop(1)))
	}
	if inLoop {
		opts = append(opts, "break;", "continue;")
	}
	opts = append(opts, fmt.Sprintf("throw $(%d, %s);", g.nextProbe(), g.primLit()))
	return opts[g.r.Intn(len(opts))]
}

func (g *gen) stmt(s *sb, o genOpts, d int, inLoop bool) {
	k := g.r.Intn(30)
	if d <= 0 && k >= 8 {
		k = g.r.Intn(8)
	}
	switch k {
	case 0, 1, 2:
		s.line("$(%d, %s);", g.nextProbe(), g.exprTop(3))
	case 3, 4:
		if g.r.Chance(50) {
			// unused comparison / equality / template with a typed literal on one side
			l := []string{"\"a\"", "1", "1n", "typeof a", "`t${a}`", "\"\"", "0", "null", "void 0", "true"}[g.r.Intn(10)]
			rr := g.leaf()
			if g.r.Chance(45) {
				rr = "ob" // an object whose conversions are logged
			}
			op := []string{"<", ">", "<=", ">=", "==", "!=", "===", "!==", "+", "in"}[g.r.Intn(10)]
			if g.r.Bool() {
				l, rr = rr, l
			}
			s.line("(%s) %s (%s);", l, op, rr)
			return
		}
		s.line("%s;", g.exprTop(3)) // unused expression statement
	case 5:
		s.line("%s %s (%s);", g.target(), assignOps[g.r.Intn(len(assignOps))], g.exprTop(2))
	case 6:
		// single-use temporaries
		g.tmp++
		t1, t2 := fmt.Sprintf("t%d", g.tmp), fmt.Sprintf("u%d", g.tmp)
		kw := []string{"let", "const", "var"}[g.r.Intn(3)]
		s.line("{")
		s.ind += 2
		s.line("%s %s = %s;", kw, t1, g.exprTop(2))
		s.line("%s %s = %s;", kw, t2, g.exprTop(2))
		switch g.r.Intn(4) {
		case 0:
			s.line("$(%d, (%s) %s (%s));", g.nextProbe(), t2, binOps[g.r.Intn(20)], t1)
		case 1:
			s.line("$(%d, (%s) %s (%s));", g.nextProbe(), t1, binOps[g.r.Intn(20)], t2)
		case 2:
			if g.noF0 {
				s.line("$(%d, [%s, %s]);", g.nextProbe(), t1, t2)
			} else {
				s.line("$(%d, f0(%s, %s));", g.nextProbe(), t1, t2)
			}
		default:
			s.line("$(%d, (%s) ? %s : %s);", g.nextProbe(), g.exprTop(1), t1, t2)
		}
		s.ind -= 2
		s.line("}")
	case 7:
		s.line("try { %s; } catch (e) { $(%d, e instanceof Error ? e.constructor === TypeError ? \"TypeError\" : e.constructor === RangeError ? \"RangeError\" : \"Error\" : e); }", g.exprTop(3), g.nextProbe())
	case 8, 9, 10, 11:
		// if / else with optional jumps
		s.line("if (%s) {", g.cond())
		s.ind += 2
		g.stmts(s, o, d-1, inLoop, g.r.Range(0, 2))
		if g.r.Chance(35) {
			s.line("%s", g.jump(inLoop))
		}
		s.ind -= 2
		if g.r.Chance(55) {
			s.line("} else {")
			s.ind += 2
			g.stmts(s, o, d-1, inLoop, g.r.Range(0, 2))
			if g.r.Chance(30) {
				s.line("%s", g.jump(inLoop))
			}
			s.ind -= 2
		}
		s.line("}")
	case 12:
		// brace-less if forms
		if g.r.Bool() {
			s.line("if (%s) $(%d, %s); else $(%d, %s);", g.cond(), g.nextProbe(), g.exprTop(1), g.nextProbe(), g.exprTop(1))
		} else {
			s.line("if (%s) %s", g.cond(), g.jump(inLoop))
			s.line("$(%d, %s);", g.nextProbe(), g.exprTop(1))
		}
	case 13, 14:
		g.loopVar++
		iv := fmt.Sprintf("i%d", g.loopVar)
		switch g.r.Intn(5) {
		case 0:
			s.line("for (var %s = 0; %s < %d; %s++) {", iv, iv, g.r.Range(0, 3), iv)
		case 1:
			s.line("for (let %s = %d; %s > 0; %s--) {", iv, g.r.Range(0, 3), iv, iv)
		case 2:
			s.line("var %s = 0; while (%s++ < %d) {", iv, iv, g.r.Range(0, 3))
		case 3:
			s.line("for (const %s of [%s, %s]) {", iv, g.lit(), g.lit())
		default:
			s.line("for (var %s in {p: 1, q: 2}) {", iv)
		}
		s.ind += 2
		s.line("$t();")
		if g.r.Chance(50) {
			s.line("$(%d, %s);", g.nextProbe(), iv)
		}
		g.stmts(s, o, d-1, true, g.r.Range(1, 3))
		s.ind -= 2
		s.line("}")
	case 15:
		g.loopVar++
		iv := fmt.Sprintf("i%d", g.loopVar)
		s.line("var %s = 0; do {", iv)
		s.ind += 2
		s.line("$t();")
		g.stmts(s, o, d-1, true, g.r.Range(1, 2))
		s.ind -= 2
		s.line("} while (++%s < %d && (%s));", iv, g.r.Range(1, 3), g.cond())
	case 16, 17:
		s.line("switch (%s) {", g.exprTop(2))
		s.ind += 2
		nc := g.r.Range(1, 4)
		hasDefault := false
		for c := 0; c < nc; c++ {
			if !hasDefault && g.r.Chance(15) {
				hasDefault = true
				s.line("default:")
			} else {
				s.line("case %s:", g.exprTop(1))
			}
			s.ind += 2
			g.stmts(s, o, d-1, inLoop, g.r.Range(0, 2))
			if g.r.Chance(60) {
				s.line("break;")
			}
			s.ind -= 2
		}
		s.ind -= 2
		s.line("}")
	case 18:
		s.line("try {")
		s.ind += 2
		g.stmts(s, o, d-1, inLoop, g.r.Range(1, 3))
		if g.r.Chance(40) {
			s.line("throw %s;", g.exprTop(1))
		}
		s.ind -= 2
		s.line("} catch (e) {")
		s.ind += 2
		s.line("$(%d, e instanceof Error ? \"E\" : e);", g.nextProbe())
		s.ind -= 2
		if g.r.Chance(30) {
			s.line("} finally {")
			s.ind += 2
			s.line("$(%d, %s);", g.nextProbe(), g.exprTop(1))
			s.ind -= 2
		}
		s.line("}")
	case 19:
		g.tmp++
		lbl := fmt.Sprintf("L%d", g.tmp)
		s.line("%s: {", lbl)
		s.ind += 2
		g.stmts(s, o, d-1, inLoop, g.r.Range(0, 2))
		s.line("if (%s) break %s;", g.cond(), lbl)
		g.stmts(s, o, d-1, inLoop, g.r.Range(1, 2))
		s.ind -= 2
		s.line("}")
	case 20:
		// droppable label: omitted from the baseline when drop-labels is requested
		id := g.nextProbe()
		e := g.exprTop(1)
		if !o.dropLabels {
			s.line("DROPME: { $(%d, %s); }", id, e)
		}
	case 21:
		s.line("debugger;")
		s.line("console.log(%s);", g.lit())
	case 22:
		g.tmp++
		fn := fmt.Sprintf("g%d", g.tmp)
		saveV, saveF := g.vars, g.inFn
		g.vars = append(append([]string{}, g.vars...), "p")
		g.inFn = true
		if g.r.Bool() {
			s.line("function %s(p) {", fn)
		} else {
			s.line("var %s = (p) => {", fn)
		}
		s.ind += 2
		g.stmts(s, o, d-1, false, g.r.Range(1, 3))
		if g.r.Chance(50) {
			// "if (a) return b; return c;" shapes (merged into one return by mangleStmts)
			c := g.cond()
			if g.r.Chance(40) {
				c = "!(" + c + ")"
			}
			s.line("if (%s) return %s;", c, g.exprTop(1))
			if g.r.Chance(30) {
				s.line("if (%s) return %s;", g.cond(), g.exprTop(1))
			}
			s.line("return %s;", g.exprTop(1))
		} else if g.r.Chance(70) {
			s.line("return %s;", g.exprTop(2))
		}
		s.ind -= 2
		s.line("};")
		g.vars, g.inFn = saveV, saveF
		s.line("$(%d, %s(%s));", g.nextProbe(), fn, g.exprTop(1))
		if o.names {
			s.line("$(%d, %s.name);", g.nextProbe(), fn)
		}
	case 23:
		// expression-bodied arrow / identity / empty functions (inlining candidates)
		g.tmp++
		fn := fmt.Sprintf("h%d", g.tmp)
		switch g.r.Intn(3) {
		case 0:
			s.line("function %s(x) { return x; }", fn)
		case 1:
			s.line("function %s() {}", fn)
		default:
			s.line("const %s = (x) => (%s);", fn, g.exprTop(1))
		}
		s.line("$(%d, %s(%s));", g.nextProbe(), fn, g.exprTop(2))
		s.line("%s(%s);", fn, g.exprTop(2))
	case 24:
		s.line("if (%s) { if (%s) { $(%d, %s); } }", g.cond(), g.cond(), g.nextProbe(), g.lit())
	case 25:
		s.line("if (%s) { $(%d, 1); } else if (%s) { $(%d, 2); } else { $(%d, 3); }", g.cond(), g.nextProbe(), g.cond(), g.nextProbe(), g.nextProbe())
	case 26:
		g.tmp++
		v := fmt.Sprintf("w%d", g.tmp)
		s.line("var %s = %s;", v, g.exprTop(2))
		g.vars = append(g.vars, v)
	case 27:
		if !g.inFn {
			s.line("$(%d, %s);", g.nextProbe(), g.exprTop(3))
			return
		}
		s.line("if (%s) return $(%d, %s); else return $(%d, %s);", g.cond(), g.nextProbe(), g.lit(), g.nextProbe(), g.lit())
	case 28:
		s.line("(%s) && $(%d, %s);", g.exprTop(2), g.nextProbe(), g.lit())
		s.line("(%s) || $(%d, %s);", g.exprTop(2), g.nextProbe(), g.lit())
		{
			v := g.target()
			armL := gapArms[g.r.Intn(len(gapArms))]
			l := []string{v + " || " + armL, v + " && " + armL, "(" + g.cond() + ") ? " + armL + " : " + v, "!!" + v, v + " ?? " + armL}[g.r.Intn(5)]
			op := []string{"??", "??", "||", "&&"}[g.r.Intn(4)]
			s.line("(%s) %s $(%d, %s);", l, op, g.nextProbe(), g.lit())
		}
	default:
		s.line("$(%d, [%s, %s]);", g.nextProbe(), g.exprTop(2), g.exprTop(2))
	}
}

type program struct {
	seed  uint64
	kind  string
	texts map[genOpts]string
}

// The same PRNG stream renders the program under the different option sets, so
// that variants differ only in the option-dependent statements.
func genProgram(seed uint64, o genOpts, avoidA, avoidB, avoidH, avoidI bool) string {
	r := NewRng(seed)
	g := &gen{r: r, avoidA: avoidA, avoidB: avoidB, avoidH: avoidH, avoidI: avoidI}
	s := &sb{}
	strict := r.Chance(25)
	s.line("(function() {")
	s.ind += 2
	if strict {
		s.line("\"use strict\";")
	}
	s.line("var a = %s, b = %s, c = %s;", g.lit(), g.lit(), g.primLit())
	s.line("var nul = null, und, ob = $o(900, %s);", g.primLit())
	s.line("const K1 = %s, K2 = %s;", g.primLit(), g.primLit())
	s.line("var o = {x: %s, y: {z: %s}, w: %s};", g.lit(), g.lit(), g.primLit())
	g.vars = []string{"a", "b", "c"}
	g.consts = []string{"K1", "K2"}
	// helper function with parameters
	g.inFn = true
	g.vars = []string{"a", "b", "c", "p", "q", "ob"}
	s.line("function f0(p, q) {")
	s.ind += 2
	g.noF0 = true
	g.stmts(s, o, 1, false, r.Range(0, 2))
	s.line("return %s;", g.exprTop(2))
	g.noF0 = false
	s.ind -= 2
	s.line("}")
	g.vars = []string{"a", "b", "c", "ob"}
	g.stmts(s, o, 3, false, r.Range(3, 8))
	s.line("$(%d, [a, b, c, o.x, o.w]);", g.nextProbe())
	s.ind -= 2
	s.line("})();")
	return s.String()
}

// top-level programs: unused expression statements and unused variable
// initialisers at module scope, where bundling (tree shaking) removes whatever
// ExprCanBeRemovedIfUnused / StmtsCanBeRemovedIfUnused accept
func genTopLevel(seed uint64, avoidA, avoidB, avoidH, avoidL bool) string {
	r := NewRng(seed)
	g := &gen{r: r, avoidA: avoidA, avoidB: avoidB, avoidH: avoidH, avoidI: true, noF0: true}
	s := &sb{}
	s.line("var ob = $o(900, %s), a = %s, b = %s, c = $o(901, %s);", g.primLit(), g.lit(), g.lit(), g.primLit())
	s.line("var o = {x: %s, y: {z: %s}, w: %s}, nul = null, und;", g.lit(), g.lit(), g.primLit())
	s.line("const K1 = %s, K2 = %s;", g.primLit(), g.primLit())
	g.vars = []string{"a", "b", "c", "ob"}
	g.consts = []string{"K1", "K2"}
	typed := []string{"\"a\"", "1", "1n", "typeof a", "`t${a}`", "\"\"", "0", "null", "void 0", "true", "-1", "`s`", "typeof undeclaredGlobal"}
	ops := []string{"<", ">", "<=", ">=", "==", "!=", "===", "!==", "&&", "||", "??", ","}
	n := r.Range(8, 16)
	for i := 0; i < n; i++ {
		l := typed[r.Intn(len(typed))]
		rr := []string{"ob", "c", "a", "b", "K1", "nul", "und", "o", "undeclaredGlobal2"}[r.Intn(9)]
		if r.Chance(30) {
			rr = typed[r.Intn(len(typed))]
		}
		if r.Bool() {
			l, rr = rr, l
		}
		e := fmt.Sprintf("(%s) %s (%s)", l, ops[r.Intn(len(ops))], rr)
		switch r.Intn(8) {
		case 0:
			e = fmt.Sprintf("!(%s)", e)
		case 1:
			e = fmt.Sprintf("(%s) ? (%s) : (%s)", e, typed[r.Intn(len(typed))], rr)
		case 2:
			e = fmt.Sprintf("[(%s), %s]", e, l)
		case 3:
			e = fmt.Sprintf("({k: (%s), [%s]: 1})", e, typed[r.Intn(4)])
		case 4:
			e = fmt.Sprintf("`x${%s}`", e)
		case 5:
			e = fmt.Sprintf("typeof (%s)", e)
		}
		if strings.Contains(e, "undeclaredGlobal2") {
			e = fmt.Sprintf("typeof undeclaredGlobal2 %s \"undefined\" && undeclaredGlobal2", []string{"!==", "!=", "<"}[r.Intn(3)])
			if r.Chance(30) {
				e = "typeof undeclaredGlobal2 === \"undefined\" || undeclaredGlobal2"
			}
		}
		if r.Chance(40) {
			g.tmp++
			s.line("var unused%d = (%s);", g.tmp, e)
		} else {
			s.line("%s;", e)
		}
		if r.Chance(25) {
			s.line("$(%d, %s);", g.nextProbe(), g.exprTop(1))
		}
	}
	if !avoidL {
		// hoisted redeclarations: block-level functions and same-named var in sibling
		// or nested blocks, var redeclared in a nested block / if / for / switch
		// (tree shaking must keep the later assignment; known finding L)
		k := r.Range(2, 5)
		for i := 0; i < k; i++ {
			g.tmp++
			nm := fmt.Sprintf("rd%d", g.tmp)
			first := []string{
				fmt.Sprintf("var %s = %s;", nm, g.primLit()),
				fmt.Sprintf("function %s() {}", nm),
				fmt.Sprintf("{ function %s() {} }", nm),
				fmt.Sprintf("if (a) { function %s() {} }", nm),
				fmt.Sprintf("var %s;", nm),
			}[r.Intn(5)]
			second := []string{
				fmt.Sprintf("{ var %s = %s; }", nm, g.primLit()),
				fmt.Sprintf("{ { var %s = %s; } }", nm, g.primLit()),
				fmt.Sprintf("if (%s) { var %s = %s; }", []string{"1", "b", "!a", "0"}[r.Intn(4)], nm, g.primLit()),
				fmt.Sprintf("for (var %s = %s; false;) ;", nm, g.primLit()),
				fmt.Sprintf("switch (1) { case 1: var %s = %s; }", nm, g.primLit()),
				fmt.Sprintf("try { var %s = %s; } catch (e) {}", nm, g.primLit()),
				fmt.Sprintf("{ let q%d = 1; { var %s = %s; } }", g.tmp, nm, g.primLit()),
				fmt.Sprintf("L%d: { var %s = %s; }", g.tmp, nm, g.primLit()),
			}[r.Intn(8)]
			if r.Chance(20) {
				first, second = second, first
			}
			s.line("%s", first)
			if r.Chance(30) {
				s.line("$(%d, typeof %s);", g.nextProbe(), nm)
			}
			s.line("%s", second)
			s.line("$(%d, [typeof %s, typeof %s === \"function\" ? \"fn\" : %s]);", g.nextProbe(), nm, nm, nm)
		}
	}
	s.line("$(%d, [a, b]);", g.nextProbe())
	return s.String()
}

// statement skeletons: small functions built from if/return/throw/loop/switch
// skeletons over two parameters, each called on a grid of truthy/falsy
// arguments; no operation in them can throw by accident
func genSkeleton(seed uint64, avoidM, avoidN, avoidO bool) string {
	r := NewRng(seed)
	s := &sb{}
	id := 0
	probe := func() string { id++; return fmt.Sprintf("$(%d, %s)", id, []string{"\"x\"", "1", "0", "\"\"", "null", "true", "-0", "NaN", "\"y\""}[r.Intn(9)]) }
	val := func() string {
		switch r.Intn(6) {
		case 0, 1, 2:
			return probe()
		case 3:
			return []string{"p", "q", "!p", "p && q", "p || q", "p ?? q", "p ? 1 : q ? 1 : 2", "p ? \"a\" : (q, \"a\")", "p ? q ? 1 : 2 : 2", "p ? q || 3 : 3", "p ? 4 : q && 4", "p ? true : false", "p ? false : true", "p ? p : q", "p ? q : p", "p != null ? p : q"}[r.Intn(16)]
		default:
			return []string{"1", "\"a\"", "null", "void 0", "false", "0", "\"b\"", "2"}[r.Intn(8)]
		}
	}
	cond := func() string {
		c := []string{"p", "q", "!p", "!q", "p && q", "!(p || q)", "p == null", "p != null", "p > 1", "!(p > 1)", "p === q", "p !== q", "!p && !q", "typeof p === \"string\"", "p ? q : !q", "!!p"}[r.Intn(16)]
		if r.Chance(15) {
			c = fmt.Sprintf("(%s, %s)", probe(), c)
		}
		return c
	}
	var simple func(d int) string
	simple = func(d int) string {
		switch r.Intn(12) {
		case 0, 1:
			return fmt.Sprintf("if (%s) return %s;", cond(), val())
		case 2:
			return fmt.Sprintf("if (%s) return %s; else return %s;", cond(), val(), val())
		case 3:
			return fmt.Sprintf("if (%s) throw %s;", cond(), val())
		case 4:
			return fmt.Sprintf("if (%s) { %s; return %s; }", cond(), probe(), val())
		case 5:
			return fmt.Sprintf("if (%s) { %s; } else { %s; }", cond(), probe(), probe())
		case 6:
			return fmt.Sprintf("if (%s) %s;", cond(), probe())
		case 7:
			return probe() + ";"
		case 8:
			return fmt.Sprintf("if (%s) return;", cond())
		case 9:
			if d > 0 {
				return fmt.Sprintf("if (%s) { %s } else { %s }", cond(), simple(d-1), simple(d-1))
			}
			return fmt.Sprintf("if (%s) { %s; } else return %s;", cond(), probe(), val())
		case 10:
			return fmt.Sprintf("if (%s) { if (%s) return %s; } else throw %s;", cond(), cond(), val(), val())
		default:
			return fmt.Sprintf("if (%s) { %s; throw %s; }", cond(), probe(), val())
		}
	}
	nf := r.Range(5, 9)
	for f := 0; f < nf; f++ {
		s.line("function sk%d(p, q) {", f)
		s.ind += 2
		switch r.Intn(6) {
		case 0:
			// loop skeleton
			s.line("for (var i = 0; i < 3; i++) {")
			s.ind += 2
			s.line("$t();")
			s.line("if (%s) %s", cond(), []string{"break;", "continue;", "return " + val() + ";"}[r.Intn(3)])
			s.line("%s", simple(0))
			s.line("if (i == 1 && %s) %s", cond(), []string{"break;", "continue;"}[r.Intn(2)])
			s.line("%s;", probe())
			s.ind -= 2
			s.line("}")
			s.line("return %s;", val())
		case 1:
			// switch skeleton
			s.line("switch (%s) {", []string{"p", "q", "p && q", "typeof p"}[r.Intn(4)])
			s.ind += 2
			s.line("case 1: %s; %s", probe(), []string{"break;", "return " + val() + ";", ""}[r.Intn(3)])
			s.line("case \"a\": %s", simple(0))
			if r.Bool() {
				s.line("default: %s; %s", probe(), []string{"break;", "return " + val() + ";", ""}[r.Intn(3)])
			}
			s.line("case null: %s", []string{"break;", "return " + val() + ";", "throw " + val() + ";"}[r.Intn(3)])
			s.ind -= 2
			s.line("}")
			s.line("return %s;", val())
		default:
			n := r.Range(1, 4)
			for k := 0; k < n; k++ {
				s.line("%s", simple(1))
			}
			switch r.Intn(4) {
			case 0:
				s.line("return %s;", val())
			case 1:
				s.line("throw %s;", val())
			case 2:
				s.line("return %s ? %s : %s;", cond(), val(), val())
			}
		}
		s.ind -= 2
		s.line("}")
	}
	extra := 0
	if !avoidM {
		// empty functions whose parameter defaults have effects (the call must stay)
		id++
		s.line("function em%d(a = %s, b) {}", nf, probe())
		s.line("function skm%d(p, q) { em%d(); em%d(p); em%d(void 0, q); return %s; }", nf, nf, nf, nf, val())
		extra++
	}
	if !avoidO {
		// hoisted declarations after a jump inside a switch case
		s.line("function sko%d(p, q) { \"use strict\"; switch (p) { case 0: %s; break; var hv; case 1: %s; return hv; function hf() { return 5; } } hv = q; return [hv, typeof hf]; }", nf+extra, probe(), probe())
		extra++
	}
	if !avoidN {
		// statically decided switches, including cases that cannot be decided (0x1n vs 1n)
		tests := []string{"1n", "0x1n", "1", "\"a\"", "0", "-0", "null", "true"}
		cases := []string{"5n", "0x1n", "1n", "3n", "1", "\"a\"", "0", "-0", "null", "true", "\"1\"", "0b1n"}
		var sb2 strings.Builder
		fmt.Fprintf(&sb2, "function skn%d(p, q) { switch (%s) {", nf+extra, tests[r.Intn(len(tests))])
		nc := r.Range(2, 5)
		for c := 0; c < nc; c++ {
			fmt.Fprintf(&sb2, " case %s:", cases[r.Intn(len(cases))])
			if r.Chance(65) {
				fmt.Fprintf(&sb2, " %s;", probe())
				if r.Chance(70) {
					sb2.WriteString(" break;")
				}
			}
		}
		fmt.Fprintf(&sb2, " default: %s; } return %s; }", probe(), val())
		s.line("%s", sb2.String())
		extra++
	}
	args := []string{"0, 0", "1, 0", "0, 1", "1, 1", "null, \"a\"", "\"a\", null", "2, 2", "void 0, 1", "\"\", \"\""}
	if extra > 0 {
		names := []string{}
		k := nf
		if !avoidM {
			names = append(names, fmt.Sprintf("skm%d", k))
			k++
		}
		if !avoidO {
			names = append(names, fmt.Sprintf("sko%d", k))
			k++
		}
		if !avoidN {
			names = append(names, fmt.Sprintf("skn%d", k))
			k++
		}
		for _, nm := range names {
			for _, a := range args[:5] {
				id++
				s.line("try { $(%d, %s(%s)); } catch (e) { $(%d, [\"thrown\", e instanceof Error ? e.constructor.name : e]); }", id, nm, a, id)
			}
		}
	}
	for f := 0; f < nf; f++ {
		for _, a := range args {
			id++
			s.line("try { $(%d, sk%d(%s)); } catch (e) { $(%d, [\"thrown\", e]); }", id, f, a, id)
		}
	}
	return "(function() {\n" + s.String() + "})();\n"
}

// nullish/falsy gap programs: functions whose bodies are statement-position
// ?? || && ?: and comma expressions (also the same expressions in value and in
// condition position) whose left operands mix a parameter with literal arms,
// and whose right operands are probe calls; every function is called on the
// whole boundary grid, so an operand simplified "as a boolean" where its value
// matters (or the converse) changes which probes run
var gapGrid = []string{"null", "undefined", "0", "-0", "NaN", "\"\"", "false", "0n", "[]", "{}", "1", "\"a\"", "true"}
var gapArms = []string{"null", "void 0", "undefined", "0", "-0", "NaN", "\"\"", "false", "0n", "1", "\"a\"", "true", "[]"}

func genGap(seed uint64) string {
	r := NewRng(seed)
	s := &sb{}
	id := 0
	probe := func() string {
		id++
		return fmt.Sprintf("$(%d, %s)", id, []string{"\"r\"", "1", "0", "null", "\"\"", "void 0", "true", "NaN"}[r.Intn(8)])
	}
	arm := func() string { return gapArms[r.Intn(len(gapArms))] }
	var left func(d int) string
	left = func(d int) string {
		x := []string{"p", "p", "p", "q"}[r.Intn(4)]
		if d > 0 && r.Chance(25) {
			x = "(" + left(d-1) + ")"
		}
		switch r.Intn(14) {
		case 0, 1:
			return fmt.Sprintf("%s || %s", x, arm())
		case 2, 3:
			return fmt.Sprintf("%s && %s", x, arm())
		case 4:
			return fmt.Sprintf("q ? %s : %s", arm(), x)
		case 5:
			return fmt.Sprintf("q ? %s : %s", x, arm())
		case 6:
			return fmt.Sprintf("%s ? %s : %s", x, arm(), arm())
		case 7:
			return "!!" + x
		case 8:
			return fmt.Sprintf("%s ?? %s", x, arm())
		case 9:
			return fmt.Sprintf("(%s, %s)", probe(), x)
		case 10:
			return fmt.Sprintf("%s || q", x)
		case 11:
			return fmt.Sprintf("%s && q", x)
		case 12:
			return fmt.Sprintf("%s == null ? %s : %s", x, arm(), x)
		default:
			return fmt.Sprintf("(%s >>> 0) %s 0", x, []string{"===", "!==", "==", "!="}[r.Intn(4)])
		}
	}
	right := func() string {
		switch r.Intn(5) {
		case 0, 1, 2:
			return probe()
		case 3:
			return fmt.Sprintf("(%s, %s)", probe(), arm())
		default:
			return fmt.Sprintf("((%s) %s %s)", left(0), []string{"??", "||", "&&"}[r.Intn(3)], probe())
		}
	}
	expr := func() string {
		switch r.Intn(8) {
		case 0, 1, 2:
			return fmt.Sprintf("(%s) ?? (%s)", left(1), right())
		case 3:
			return fmt.Sprintf("(%s) || (%s)", left(1), right())
		case 4:
			return fmt.Sprintf("(%s) && (%s)", left(1), right())
		case 5:
			return fmt.Sprintf("(%s) ? (%s) : (%s)", left(1), right(), right())
		case 6:
			return fmt.Sprintf("(%s), (%s)", left(1), right())
		default:
			return fmt.Sprintf("(((%s) ?? %s)) %s (%s)", left(1), arm(), []string{"??", "||", "&&"}[r.Intn(3)], right())
		}
	}
	nf := r.Range(4, 7)
	for f := 0; f < nf; f++ {
		s.line("function gap%d(p, q) {", f)
		s.ind += 2
		n := r.Range(3, 7)
		for k := 0; k < n; k++ {
			e := expr()
			switch r.Intn(10) {
			case 0, 1, 2, 3, 4, 5:
				s.line("%s;", e) // unused (statement position)
			case 6:
				id++
				s.line("$(%d, (%s));", id, e) // value position
			case 7:
				id++
				s.line("if (%s) $(%d, \"then\"); else $(%d, \"else\");", e, id, id) // boolean context
			case 8:
				s.line("void (%s);", e)
			default:
				s.line("!(%s);", e)
			}
		}
		if r.Bool() {
			s.line("return %s;", expr())
		}
		s.ind -= 2
		s.line("}")
	}
	for f := 0; f < nf; f++ {
		for _, a := range gapGrid {
			id++
			q := []string{"0", "1", "null", "\"\"", "{}"}[r.Intn(5)]
			s.line("try { $(%d, gap%d(%s, %s)); } catch (e) { $(%d, [\"thrown\", e instanceof Error ? \"E\" : e]); }", id, f, a, q, id)
		}
	}
	return "(function() {\n" + s.String() + "})();\n"
}

// optional-chain programs: the shapes that minification turns into optional
// chains ("a != null && a.b.c" => "a?.b.c", "a == null ? void 0 : a.b" => "a?.b"),
// also over parenthesized chains "(a.q?.y).z" whose outer links are not part of the
// chain (finding J), and calls marked pure inside optional chains, whose
// arguments are only evaluated when the chain does not short-circuit (finding K);
// run over null / undefined / objects with null links, logging getters and methods
func genChain(seed uint64) string {
	r := NewRng(seed)
	s := &sb{}
	id := 0
	probe := func() string {
		id++
		return fmt.Sprintf("$(%d, %s)", id, []string{"\"q\"", "\"y\"", "1", "null", "\"z\""}[r.Intn(5)])
	}
	// links over an expression; paren wraps the chain so far in parentheses
	var chain func(base string, n int) string
	chain = func(base string, n int) string {
		e := base
		for i := 0; i < n; i++ {
			opt := ""
			if r.Chance(25) {
				opt = "?."
			}
			switch r.Intn(7) {
			case 0, 1, 2:
				nm := []string{"q", "y", "z"}[r.Intn(3)]
				if opt == "" {
					e += "." + nm
				} else {
					e += "?." + nm
				}
			case 3:
				e += opt + "[" + probe() + "]"
			case 4:
				if opt == "" {
					e += ".m(" + probe() + ")"
				} else {
					e += "?.m(" + probe() + ")"
				}
			case 5:
				e = "(" + e + ")"
			default:
				nm := []string{"q", "y"}[r.Intn(2)]
				e += "." + nm
			}
		}
		return e
	}
	guard := func() (string, bool) { // text, true when the guard is "non-null"
		switch r.Intn(4) {
		case 0:
			return "p != null", true
		case 1:
			return "null != p", true
		case 2:
			return "p == null", false
		default:
			return "null == p", false
		}
	}
	// most statements get their own try/catch so that a throwing link does not hide the rest
	stmt := func(format string, a ...interface{}) {
		text := fmt.Sprintf(format, a...)
		if r.Chance(70) {
			id++
			s.line("try { %s } catch (e) { $(%d, [\"thrown\", e instanceof Error ? e.constructor.name : e]); }", text, id)
		} else {
			s.line("%s", text)
		}
	}
	nf := r.Range(4, 7)
	pureFn := make([]bool, nf)
	for f := 0; f < nf; f++ {
		pureFn[f] = f%3 == 2
		s.line("function ch%d(p) {", f)
		s.ind += 2
		n := r.Range(3, 6)
		for k := 0; k < n; k++ {
			if pureFn[f] {
				// calls marked pure: the callee is the identity function pf
				t := []string{"p?.pf", "p?.q?.pf", "p?.q?.y?.pf", "(p?.q)?.pf"}[r.Intn(4)]
				args := []string{probe(), probe() + ", 1", "1, " + probe(), "1, \"a\"", "p", ""}[r.Intn(6)]
				call := fmt.Sprintf("/* @__PURE__ */ %s(%s)", t, args)
				if strings.HasSuffix(t, "?.pf") && r.Chance(30) {
					call = fmt.Sprintf("/* @__PURE__ */ %s?.(%s)", t, args)
				}
				switch r.Intn(6) {
				case 0:
					id++
					stmt("$(%d, %s);", id, call) // used
				case 1:
					stmt("void %s;", call)
				case 2:
					stmt("%s, %s;", probe(), call)
				default:
					stmt("%s;", call)
				}
				continue
			}
			g, nonNull := guard()
			c := chain("p", r.Range(1, 4))
			switch r.Intn(8) {
			case 0, 1, 2:
				if nonNull {
					stmt("%s && %s;", g, c)
				} else {
					stmt("%s || %s;", g, c)
				}
			case 3:
				id++
				if nonNull {
					stmt("$(%d, %s ? %s : void 0);", id, g, c)
				} else {
					stmt("$(%d, %s ? void 0 : %s);", id, g, c)
				}
			case 4:
				id++
				if nonNull {
					stmt("$(%d, %s ? p : %s);", id, g, probe())
				} else {
					stmt("$(%d, %s ? %s : p);", id, g, probe())
				}
			case 5:
				id++
				if nonNull {
					stmt("$(%d, %s && %s);", id, g, c)
				} else {
					stmt("$(%d, %s || %s);", id, g, c)
				}
			case 6:
				if nonNull {
					stmt("if (%s) %s;", g, c)
				} else {
					stmt("if (!(%s)) %s;", g, c)
				}
			default:
				stmt("%s;", chain("p", r.Range(1, 4)))
			}
		}
		s.ind -= 2
		s.line("}")
	}
	// the objects: links that are null at different depths; getters and methods log
	id++
	base := id
	s.line("var pf = pureFn;")
	s.line("function mkm(k, v) { return function(x) { $(%d, k); return v; }; }", base)
	s.line("var o1 = {q: null, y: void 0, pf: pf, m: mkm(\"m1\", null)};")
	s.line("var o2 = {q: {y: null, q: 0, pf: pf, m: mkm(\"m2q\", void 0)}, y: {q: null}, z: 0, pf: pf, m: mkm(\"m2\", {y: null})};")
	s.line("var o3 = {q: {y: {z: 1, q: {y: 2}, pf: pf, m: mkm(\"m3y\", {q: 1})}, q: {q: null}, pf: pf, m: mkm(\"m3q\", {y: {z: 3}})}, y: {y: {y: 1}}, z: {q: 1}, pf: pf, m: mkm(\"m3\", {q: {y: 4}, y: {z: 5}})};")
	s.line("var o4 = {get q() { $(%d, \"get q\"); return o3.q; }, get y() { $(%d, \"get y\"); return null; }, z: void 0, m: mkm(\"m4\", o3)};", base, base)
	for f := 0; f < nf; f++ {
		grid := []string{"null", "undefined", "o1", "o2", "o3", "o4", "0", "\"\""}
		if pureFn[f] {
			grid = []string{"null", "undefined", "o1", "o2", "o3"}
		}
		for _, a := range grid {
			id++
			s.line("try { $(%d, ch%d(%s)); } catch (e) { $(%d, [\"thrown\", e instanceof Error ? e.constructor.name : e]); }", id, f, a, id)
		}
	}
	return "(function() {\n" + s.String() + "})();\n"
}

// numeric-type programs: BigInt and Number run-time values flowing through
// arithmetic / bitwise / update sub-expressions under unary - and ~, compared
// with === / !== against numbers, converted by Number(), typeof'd: a wrong static
// type (number vs number-or-bigint) changes the outcome
func genNumTypes(seed uint64) string {
	r := NewRng(seed)
	s := &sb{}
	id := 0
	bin := []string{"|", "&", "^", "*", "-", "<<", ">>", "%", "/", "**", "+"}
	inner := func() string {
		switch r.Intn(6) {
		case 0:
			return []string{"p++", "++p", "p--", "--q"}[r.Intn(4)]
		case 1:
			return fmt.Sprintf("p %s= q", bin[r.Intn(len(bin))])
		case 2:
			return fmt.Sprintf("c ? p : p %s q", bin[r.Intn(len(bin))])
		default:
			return fmt.Sprintf("p %s q", bin[r.Intn(len(bin))])
		}
	}
	wrapped := func() string {
		u := []string{"-", "~", "-", "~", "+", "- -", "~~", "-~"}[r.Intn(8)]
		return fmt.Sprintf("%s(%s)", u, inner())
	}
	nf := r.Range(4, 7)
	for f := 0; f < nf; f++ {
		s.line("function nt%d(p, q, c) {", f)
		s.ind += 2
		n := r.Range(3, 6)
		for k := 0; k < n; k++ {
			id++
			w := wrapped()
			lit := []string{"0", "-1", "1", "-0", "NaN", "0n", "-1n", "\"0\"", "null"}[r.Intn(9)]
			switch r.Intn(9) {
			case 0, 1:
				s.line("$(%d, %s %s %s);", id, w, []string{"===", "!==", "==", "!="}[r.Intn(4)], lit)
			case 2:
				s.line("$(%d, %s %s %s);", id, lit, []string{"===", "!=="}[r.Intn(2)], w)
			case 3:
				s.line("$(%d, Number(%s));", id, w)
			case 4:
				s.line("$(%d, typeof (%s));", id, w)
			case 5:
				s.line("if (%s %s %s) $(%d, \"t\"); else $(%d, \"f\");", w, []string{"===", "!=="}[r.Intn(2)], lit, id, id)
			case 6:
				s.line("$(%d, [%s, %s === %s]);", id, w, w, wrapped())
			case 7:
				s.line("%s %s %s;", w, []string{"<", ">=", "==", "==="}[r.Intn(4)], lit) // unused comparison
			default:
				s.line("$(%d, (%s) + \"\" + typeof (%s));", id, w, w)
			}
		}
		s.line("return [p, q];")
		s.ind -= 2
		s.line("}")
	}
	args := []string{"0n, 0n, 0", "1n, 2n, 1", "-1n, 1n, 0", "0, 0, 1", "1, 2, 0", "-1, 1, 1", "0n, 0, 0", "5, 3n, 1", "\"2\", 1, 0", "3n, 3n, 1", "0.5, 2, 0", "null, 1n, 1"}
	for f := 0; f < nf; f++ {
		for _, a := range args {
			id++
			s.line("try { $(%d, nt%d(%s)); } catch (e) { $(%d, [\"thrown\", e instanceof Error ? e.constructor.name : e]); }", id, f, a, id)
		}
	}
	return "(function() {\n" + s.String() + "})();\n"
}

// constant-folding tables: many literal-literal operations per program
func genFoldTable(seed uint64, avoidB bool, viaConst bool) string {
	r := NewRng(seed)
	s := &sb{}
	s.line("(function() {")
	s.ind += 2
	lits := func() string {
		switch r.Intn(10) {
		case 0, 1, 2, 3, 4:
			return numLits[r.Intn(len(numLits))]
		case 5, 6, 7:
			return strLits[r.Intn(len(strLits))]
		default:
			return otherLits[r.Intn(11)]
		}
	}
	id := 0
	for i := 0; i < 40; i++ {
		op := binOps[r.Intn(20)]
		if r.Chance(15) {
			op = []string{"&&", "||", "??"}[r.Intn(3)]
		}
		l, rr := lits(), lits()
		if avoidB && op == "**" && isPowBad(l, rr) {
			continue
		}
		id++
		if viaConst {
			s.line("{ const k%d = %s; const j%d = %s; try { $(%d, k%d %s j%d); } catch (e) { $(%d, \"T\"); } }", id, l, id, rr, id, id, op, id, id)
		} else {
			s.line("try { $(%d, (%s) %s (%s)); } catch (e) { $(%d, \"T\"); }", id, l, op, rr, id)
		}
		if r.Chance(25) {
			id++
			u := []string{"-", "+", "~", "!", "typeof ", "void "}[r.Intn(6)]
			s.line("try { $(%d, %s(%s)); } catch (e) { $(%d, \"T\"); }", id, u, l, id)
		}
		if r.Chance(20) {
			id++
			s.line("if ((%s) %s (%s)) $(%d, 1); else $(%d, 0);", l, []string{"==", "!=", "===", "!==", "<", ">", "&&", "||"}[r.Intn(8)], rr, id, id)
		}
		if r.Chance(20) {
			id++
			s.line("$(%d, `a${%s}b${%s}`);", id, lits2(r), lits2(r))
		}
	}
	// truthiness / negation / nullishness tables over the special values
	special := []string{"NaN", "0/0", "-0", "0", "\"\"", "0n", "null", "undefined", "void 0", "Infinity", "\"0\"", "1", "-1", "[]", "{}", "1n", "\" \"", "false", "true", "-0/1", "0 * -1", "\"a\""}
	for i := 0; i < 14; i++ {
		l := special[r.Intn(len(special))]
		id++
		switch r.Intn(9) {
		case 0:
			s.line("$(%d, !(%s));", id, l)
		case 1:
			s.line("$(%d, !!(%s));", id, l)
		case 2:
			s.line("if (%s) $(%d, 1); else $(%d, 0);", l, id, id)
		case 3:
			s.line("if (!(%s)) $(%d, 1); else $(%d, 0);", l, id, id)
		case 4:
			s.line("$(%d, (%s) ? \"y\" : \"n\");", id, l)
		case 5:
			s.line("$(%d, (%s) ?? \"dflt\");", id, l)
		case 6:
			s.line("$(%d, (%s) && $(%d, \"rhs\"));", id, l, id)
		case 7:
			s.line("$(%d, (%s) || $(%d, \"rhs\"));", id, l, id)
		default:
			s.line("$(%d, [typeof (%s), (%s) == null, (%s) === (%s), (%s) == (%s)]);", id, l, l, l, special[r.Intn(len(special))], l, special[r.Intn(len(special))])
		}
	}
	s.ind -= 2
	s.line("})();")
	return s.String()
}

func lits2(r *Rng) string {
	if r.Bool() {
		return numLits[r.Intn(len(numLits))]
	}
	return append(strLits, "true", "null", "undefined", "1n")[r.Intn(len(strLits)+4)]
}

// TypeScript enum programs: constant expressions folded by the TS path; the
// baseline is the same expressions as plain JavaScript
var enumNums = []string{"0", "1", "-1", "2", "3", "0.5", "-0.5", "NaN", "Infinity", "-Infinity", "255", "2147483647", "2147483648", "4294967295", "4294967296", "4294967297", "5e-324", "1e21", "31", "32", "33", "-2147483649", "9007199254740993", "1.5", "10", "1e300", "0.1"}

func genEnum(seed uint64, avoidB bool) (ts string, js string) {
	r := NewRng(seed)
	var tsb, jsb, uses strings.Builder
	tsb.WriteString("enum E {\n")
	jsb.WriteString("(function() {\n")
	var exprs []string
	n := r.Range(4, 12)
	for i := 0; i < n; i++ {
		var e string
		for {
			l, rr := enumNums[r.Intn(len(enumNums))], enumNums[r.Intn(len(enumNums))]
			op := []string{"+", "-", "*", "/", "%", "**", "<<", ">>", ">>>", "&", "|", "^"}[r.Intn(12)]
			if op == "**" {
				// finite results of ** are implementation-approximated: the random
				// stream keeps to the exact special cases and to exactly
				// representable powers (accuracy is measured by known finding G)
				if r.Bool() {
					l = []string{"0", "-0", "1", "-1", "NaN", "Infinity", "-Infinity", "2", "-2", "0.5", "3"}[r.Intn(11)]
					rr = []string{"0", "-0", "1", "-1", "NaN", "Infinity", "-Infinity", "2", "3", "-3", "0.5", "1.5", "4294967297", "9007199254740993", "1e21"}[r.Intn(15)]
					if (l == "2" || l == "-2" || l == "0.5" || l == "3") && (rr == "0.5" || rr == "1.5" || rr == "-3" && l == "3") {
						rr = "2"
					}
				} else {
					l = []string{"2", "-2", "0.5", "3", "10", "-3", "4"}[r.Intn(7)]
					rr = []string{"0", "1", "2", "3", "5", "10", "31", "32"}[r.Intn(8)]
				}
			}
			if avoidB && op == "**" && isPowBad(l, rr) {
				continue
			}
			e = fmt.Sprintf("(%s) %s (%s)", l, op, rr)
			if r.Chance(30) {
				e = fmt.Sprintf("%s(%s)", []string{"-", "+", "~"}[r.Intn(3)], e)
			}
			if r.Chance(25) && len(exprs) > 0 {
				k := r.Intn(len(exprs))
				op2 := []string{"+", "-", "*", "|", "&", "^", "<<", ">>>"}[r.Intn(8)]
				e = fmt.Sprintf("(%s) %s M%d", e, op2, k)
			}
			if r.Chance(10) {
				e = fmt.Sprintf("\"s\" + (%s)", []string{"1", "-1", "2147483647", "NaN", "Infinity", "-Infinity", "0"}[r.Intn(7)])
			}
			break
		}
		exprs = append(exprs, e)
		fmt.Fprintf(&tsb, "  M%d = %s,\n", i, e)
		fmt.Fprintf(&jsb, "  const M%d = %s;\n", i, e)
		fmt.Fprintf(&uses, "$(%d, E.M%d);\n", i+1, i)
		fmt.Fprintf(&jsb, "  $(%d, M%d);\n", i+1, i)
	}
	tsb.WriteString("}\n")
	tsb.WriteString(uses.String())
	jsb.WriteString("})();\n")
	return tsb.String(), jsb.String()
}

// ---------------------------------------------------------------------------

type variant struct {
	prog    int
	desc    string
	code    string
	base    int // index into codes of the baseline
	codeIdx int
}

type glueJob struct {
	kind   string
	source string // what esbuild sees
	loader api.Loader
	base   string // what Node executes as the reference
	seed   uint64
	opts   genOpts
}

func flagDesc(ws, id, sx bool) string {
	return fmt.Sprintf("ws=%v,id=%v,syntax=%v", ws, id, sx)
}

var defines = map[string]string{"DEF_N": "42", "DEF_S": "\"str\"", "DEF_T": "true", "DEF_U": "undefined", "DEF.obj.prop": "7"}

func transformVariant(src string, loader api.Loader, ws, id, sx bool, r *Rng, o genOpts, forceOpts int) (string, string, bool) {
	desc := flagDesc(ws, id, sx)
	useDefine := forceOpts&1 != 0
	usePure := forceOpts&2 != 0
	useDrop := forceOpts&4 != 0
	bundle := forceOpts&8 != 0
	var def map[string]string
	if useDefine {
		def = defines
		desc += ",define"
	}
	var pure []string
	if usePure {
		pure = []string{"pureFn"}
		desc += ",pure:pureFn"
	}
	var drop api.Drop
	if useDrop {
		drop = api.DropConsole | api.DropDebugger
		desc += ",drop:console+debugger"
	}
	var dropLabels []string
	if o.dropLabels {
		dropLabels = []string{"DROPME"}
		desc += ",drop-labels:DROPME"
	}
	if o.names {
		desc += ",keep-names"
	}
	if bundle {
		desc += ",bundle"
		format := []api.Format{api.FormatIIFE, api.FormatESModule, api.FormatCommonJS}[r.Intn(3)]
		desc += fmt.Sprintf(",format=%d", format)
		res := api.Build(api.BuildOptions{
			Stdin:             &api.StdinOptions{Contents: src, Loader: loader, Sourcefile: "in.js"},
			Bundle:            true,
			Write:             false,
			Format:            format,
			MinifyWhitespace:  ws,
			MinifyIdentifiers: id,
			MinifySyntax:      sx,
			Define:            def,
			Pure:              pure,
			Drop:              drop,
			DropLabels:        dropLabels,
			KeepNames:         o.names,
			LogLevel:          api.LogLevelSilent,
		})
		if len(res.Errors) > 0 {
			return "", desc + " error: " + res.Errors[0].Text, false
		}
		if len(res.OutputFiles) != 1 {
			return "", desc + " error: output count", false
		}
		return string(res.OutputFiles[0].Contents), desc, true
	}
	var format api.Format
	if forceOpts&16 != 0 {
		// not bundled but format=iife: tree shaking of top-level statements is on
		format = api.FormatIIFE
		desc += ",format=iife"
	}
	res := api.Transform(src, api.TransformOptions{
		Loader:            loader,
		Format:            format,
		MinifyWhitespace:  ws,
		MinifyIdentifiers: id,
		MinifySyntax:      sx,
		Define:            def,
		Pure:              pure,
		Drop:              drop,
		DropLabels:        dropLabels,
		KeepNames:         o.names,
		LogLevel:          api.LogLevelSilent,
	})
	if len(res.Errors) > 0 {
		return "", desc + " error: " + res.Errors[0].Text, false
	}
	return string(res.Code), desc, true
}

func runNode(dir string, codes []string) ([]string, error) {
	in := filepath.Join(dir, "in.json")
	out := filepath.Join(dir, "out.json")
	data, _ := json.Marshal(codes)
	if err := os.WriteFile(in, data, 0o644); err != nil {
		return nil, err
	}
	runner := filepath.Join(dir, "runner.js")
	if err := os.WriteFile(runner, []byte(runnerJS), 0o644); err != nil {
		return nil, err
	}
	cmd := exec.Command("node", "--stack-size=2000", runner, in, out)
	done := make(chan error, 1)
	var outb []byte
	go func() {
		var err error
		outb, err = cmd.CombinedOutput()
		done <- err
	}()
	select {
	case err := <-done:
		if err != nil {
			return nil, fmt.Errorf("node failed: %v: %s", err, string(outb))
		}
	case <-time.After(240 * time.Second):
		if cmd.Process != nil {
			cmd.Process.Kill()
		}
		return nil, fmt.Errorf("node timed out")
	}
	res, err := os.ReadFile(out)
	if err != nil {
		return nil, err
	}
	var traces []string
	if err := json.Unmarshal(res, &traces); err != nil {
		return nil, err
	}
	if len(traces) != len(codes) {
		return nil, fmt.Errorf("trace count %d != %d", len(traces), len(codes))
	}
	return traces, nil
}

type known struct {
	id, what, source, base string
	loader                 api.Loader
	sx                     bool
	iife                   bool // format=iife (tree shaking of top-level statements is on)
}

// The two findings of DESIGN section 7 for C03, replayed on every run. When one
// reproduces it is reported under its own failure kind (matched by
// known_findings.json) and the random stream avoids that family, so that any
// OTHER failing input is still reported.
var knownInputs = []known{
	{"A", "known-A-unused-object-computed-key-uses-string-addition", "var k = sym; ({[k]: 1}); $(1, 1);", "var k = sym; ({[k]: 1}); $(1, 1);", api.LoaderJS, true, false},
	{"B", "known-B-pow-special-cases-fold-to-1", "enum E { A = 1 ** (0/0) }\n$(1, E.A);", "$(1, 1 ** (0/0));", api.LoaderTS, false, false},
	{"H", "known-H-string-addition-reassociation-reorders-toprimitive", "var ob = $o(900, 1);\n$(1, ob + \"\" + `x${$(2, \"t\")}`);", "var ob = $o(900, 1);\n$(1, ob + \"\" + `x${$(2, \"t\")}`);", api.LoaderJS, false, false},
	{"I", "known-I-single-use-substitution-into-short-circuit-past-radix-bigint", "(function() {\n  function fn() { $(1, \"called\"); return 7; }\n  function t() { let x = fn(); return 0x0n && x; }\n  $(2, t());\n})();", "(function() {\n  function fn() { $(1, \"called\"); return 7; }\n  function t() { let x = fn(); return 0x0n && x; }\n  $(2, t());\n})();", api.LoaderJS, true, false},
	{"H2", "known-H2-string-addition-reassociation-drops-empty-string-conversion", "var ob = $o(900, 1);\n$(1, ob + \"\" + ($(2, \"t\") + \"\" + 1));", "var ob = $o(900, 1);\n$(1, ob + \"\" + ($(2, \"t\") + \"\" + 1));", api.LoaderJS, false, false},
	{"J", "known-J-optional-chain-insertion-extends-parenthesized-chain", "(function() {\n  function t(a) { a != null && (a.q?.y).z; return 1; }\n  try { $(1, t({q: null})); } catch (e) { $(2, e instanceof TypeError ? \"TypeError\" : \"other\"); }\n})();", "(function() {\n  function t(a) { a != null && (a.q?.y).z; return 1; }\n  try { $(1, t({q: null})); } catch (e) { $(2, e instanceof TypeError ? \"TypeError\" : \"other\"); }\n})();", api.LoaderJS, true, false},
	{"K", "known-K-pure-optional-call-unwrapped-evaluates-arguments", "(function() {\n  function t(a) { /* @__PURE__ */ a?.($(1, \"x\")); return 1; }\n  $(2, t(null));\n})();", "(function() {\n  function t(a) { /* @__PURE__ */ a?.($(1, \"x\")); return 1; }\n  $(2, t(null));\n})();", api.LoaderJS, true, false},
	{"L", "known-L-nested-var-redeclaration-dropped-by-tree-shaking", "var x1 = 1;\n{ var x1 = \"d18\"; }\n$(1, typeof x1);\n{ function x2() {} }\n{ { var x2 = \"d18\"; } }\n$(2, typeof x2);", "var x1 = 1;\n{ var x1 = \"d18\"; }\n$(1, typeof x1);\n{ function x2() {} }\n{ { var x2 = \"d18\"; } }\n$(2, typeof x2);", api.LoaderJS, true, true},
	{"M", "known-M-empty-function-call-with-default-argument-dropped", "(function() {\n  function f(a = $(1, \"default\")) {}\n  f();\n  $(2, \"after\");\n})();", "(function() {\n  function f(a = $(1, \"default\")) {}\n  f();\n  $(2, \"after\");\n})();", api.LoaderJS, true, false},
	{"N", "known-N-switch-with-undecided-bigint-case-takes-default", "(function() {\n  switch (1n) { case 5n: $(1, \"a\"); break; case 0x1n: case 3n: $(2, \"b\"); break; default: $(3, \"d\"); }\n})();", "(function() {\n  switch (1n) { case 5n: $(1, \"a\"); break; case 0x1n: case 3n: $(2, \"b\"); break; default: $(3, \"d\"); }\n})();", api.LoaderJS, true, false},
	{"O", "known-O-switch-case-var-after-break-lost", "(function() {\n  \"use strict\";\n  function f(y) { switch (y) { case 0: $(1, \"a\"); break; var x; } x = 1; return x; }\n  try { $(2, f(0)); } catch (e) { $(3, e instanceof ReferenceError ? \"ReferenceError\" : \"other\"); }\n})();", "(function() {\n  \"use strict\";\n  function f(y) { switch (y) { case 0: $(1, \"a\"); break; var x; } x = 1; return x; }\n  try { $(2, f(0)); } catch (e) { $(3, e instanceof ReferenceError ? \"ReferenceError\" : \"other\"); }\n})();", api.LoaderJS, true, false},
	{"P", "known-P-values-look-the-same-ignores-typeof-identifier-mark", "(function() {\n  function t(a) { return a ? typeof undeclaredP : typeof (0, undeclaredP); }\n  try { $(1, t(0)); } catch (e) { $(2, e instanceof ReferenceError ? \"ReferenceError\" : \"other\"); }\n})();", "(function() {\n  function t(a) { return a ? typeof undeclaredP : typeof (0, undeclaredP); }\n  try { $(1, t(0)); } catch (e) { $(2, e instanceof ReferenceError ? \"ReferenceError\" : \"other\"); }\n})();", api.LoaderJS, true, false},
	{"G", "known-G-pow-finite-result-not-within-rounding-error", "enum E { A = 1e300 ** 0.1 }\n$(1, E.A);", "$(1, 1e300 ** 0.1);", api.LoaderTS, false, false},
}

func runGlue(r *Rng, n int, tier string, st *Stats) {
	dir, err := os.MkdirTemp("", "verif-c03-")
	if err != nil {
		panic(err)
	}
	defer os.RemoveAll(dir)

	// ---- known findings first
	avoid := map[string]bool{}
	{
		var codes []string
		var ok []bool
		for _, k := range knownInputs {
			opts := api.TransformOptions{Loader: k.loader, MinifySyntax: k.sx, LogLevel: api.LogLevelSilent}
			if k.iife {
				opts.Format = api.FormatIIFE
			}
			res := api.Transform(k.source, opts)
			codes = append(codes, k.base, string(res.Code))
			ok = append(ok, len(res.Errors) == 0)
		}
		traces, err := runNode(dir, codes)
		if err != nil {
			st.Fail("glue-node-failed", "known findings", err.Error(), "node runs")
			return
		}
		for i, k := range knownInputs {
			st.Note("glue-known-"+k.id, k.source, true)
			if !ok[i] || traces[2*i] != traces[2*i+1] {
				avoid[k.id] = true
				st.Fail(k.what, map[string]interface{}{"scenario": "known-" + k.id, "source": k.source, "minify_syntax": k.sx, "output": codes[2*i+1]}, traces[2*i+1], traces[2*i])
			}
		}
	}
	if os.Getenv("C03_NO_AVOID") != "" {
		// debugging aid: generate the known-bad families too
		for k := range avoid {
			if strings.Contains(os.Getenv("C03_NO_AVOID"), k) {
				delete(avoid, k)
			}
		}
	}
	st.Extra["avoid_known_A"] = avoid["A"]
	st.Extra["avoid_known_B"] = avoid["B"]
	st.Extra["avoid_known_H"] = avoid["H"]
	st.Extra["avoid_known_I"] = avoid["I"]
	st.Extra["avoid_known_H2"] = avoid["H2"]
	st.Extra["avoid_known_J"] = avoid["J"]
	st.Extra["avoid_known_K"] = avoid["K"]
	st.Extra["avoid_known_L"] = avoid["L"]
	st.Extra["avoid_known_MNO"] = fmt.Sprint(avoid["M"], avoid["N"], avoid["O"])
	if avoid["H2"] {
		avoid["H"] = true // same family: the generator avoids both shapes
	}

	nprog := n / 4
	if nprog < 20 {
		nprog = 20
	}
	var jobs []glueJob
	for i := 0; i < nprog; i++ {
		seed := r.U64()
		switch {
		case i%20 == 2:
			jobs = append(jobs, glueJob{kind: "chain", seed: seed, source: genChain(seed), loader: api.LoaderJS})
		case i%10 == 3:
			jobs = append(jobs, glueJob{kind: "num-types", seed: seed, source: genNumTypes(seed), loader: api.LoaderJS})
		case i%10 == 4:
			jobs = append(jobs, glueJob{kind: "gap", seed: seed, source: genGap(seed), loader: api.LoaderJS})
		case i%10 == 5:
			jobs = append(jobs, glueJob{kind: "skeleton", seed: seed, source: genSkeleton(seed, avoid["M"], avoid["N"], avoid["O"]), loader: api.LoaderJS})
		case i%10 == 6:
			jobs = append(jobs, glueJob{kind: "top-level", seed: seed, source: genTopLevel(seed, avoid["A"], avoid["B"], avoid["H"], avoid["L"]), loader: api.LoaderJS})
		case i%10 == 7:
			jobs = append(jobs, glueJob{kind: "fold-table", seed: seed, source: genFoldTable(seed, avoid["B"], false), loader: api.LoaderJS})
		case i%10 == 8:
			jobs = append(jobs, glueJob{kind: "fold-table-const", seed: seed, source: genFoldTable(seed, avoid["B"], true), loader: api.LoaderJS})
		case i%10 == 9:
			ts, js := genEnum(seed, avoid["B"])
			jobs = append(jobs, glueJob{kind: "ts-enum", seed: seed, source: ts, base: js, loader: api.LoaderTS})
		default:
			o := genOpts{dropLabels: r.Chance(30), names: r.Chance(20)}
			jobs = append(jobs, glueJob{kind: "program", seed: seed, opts: o, source: genProgram(seed, genOpts{names: o.names}, avoid["A"], avoid["B"], avoid["H"], avoid["I"]), base: genProgram(seed, o, avoid["A"], avoid["B"], avoid["H"], avoid["I"]), loader: api.LoaderJS})
		}
	}

	if d := os.Getenv("C03_DUMP"); d != "" {
		// debugging aid: write the generated programs
		os.MkdirAll(d, 0o755)
		for i, job := range jobs {
			os.WriteFile(filepath.Join(d, fmt.Sprintf("p%03d-%s.txt", i, job.kind)), []byte(job.source), 0o644)
		}
	}
	var codes []string
	var variants []variant
	for pi, job := range jobs {
		base := job.base
		if base == "" {
			base = job.source
		}
		baseIdx := len(codes)
		codes = append(codes, base)
		for mask := 0; mask < 8; mask++ {
			ws, id, sx := mask&1 != 0, mask&2 != 0, mask&4 != 0
			force := 0
			if job.kind == "program" {
				force = r.Intn(16)
				if r.Chance(40) {
					force &= 7 // bundling is slower: fewer
				}
				if force&8 == 0 && r.Chance(15) {
					force |= 16
				}
			} else if job.kind == "top-level" {
				switch r.Intn(5) {
				case 0, 1:
					force = 8 // bundle: tree shaking of top-level statements
				case 2, 3:
					force = 16 // transform with format=iife: tree shaking without bundling
				}
			} else if r.Chance(20) {
				force = 8
			}
			code, desc, ok := transformVariant(job.source, job.loader, ws, id, sx, r, job.opts, force)
			st.Note("glue-"+job.kind, fmt.Sprintf("%d/%s", job.seed, desc), true)
			if !ok {
				st.Fail("glue-transform-error", map[string]interface{}{"kind": job.kind, "options": desc, "source": job.source}, desc, "no error")
				continue
			}
			variants = append(variants, variant{prog: pi, desc: desc, code: code, base: baseIdx, codeIdx: len(codes)})
			codes = append(codes, code)
		}
	}
	traces, err := runNode(dir, codes)
	if err != nil {
		st.Fail("glue-node-failed", fmt.Sprintf("%d programs", len(jobs)), err.Error(), "node runs")
		return
	}
	probes, throws := 0, 0
	for _, job := range jobs {
		_ = job
	}
	for _, v := range variants {
		bt, vt := traces[v.base], traces[v.codeIdx]
		probes += strings.Count(bt, "|")
		if strings.Contains(bt, "throw=") {
			throws++
		}
		if bt == vt {
			continue
		}
		// re-run the failing pair alone twice before reporting (determinism)
		again, err := runNode(dir, []string{codes[v.base], v.code, codes[v.base], v.code})
		if err != nil || again[0] != bt || again[2] != bt || again[1] != vt || again[3] != vt {
			st.Fail("glue-nondeterministic-oracle", map[string]interface{}{"source": jobs[v.prog].source, "options": v.desc}, fmt.Sprint(again), bt)
			continue
		}
		job := jobs[v.prog]
		st.Fail("glue-trace-mismatch", map[string]interface{}{"kind": job.kind, "options": v.desc, "source": job.source, "reference_program": codes[v.base], "output": v.code, "first_difference": firstDiff(bt, vt)}, clipN(vt, 1500), clipN(bt, 1500))
	}
	st.Histogram["glue-probe-events"] += probes
	st.Histogram["glue-variants-with-throw"] += throws
	st.Histogram["glue-programs"] += len(jobs)
	if len(variants) > 0 {
		v := variants[len(variants)/2]
		st.Sample(map[string]interface{}{"glue_kind": jobs[v.prog].kind, "options": v.desc, "trace_prefix": clipN(traces[v.base], 160)})
	}
}

func firstDiff(a, b string) string {
	as, bs := strings.Split(a, "|"), strings.Split(b, "|")
	for i := 0; i < len(as) || i < len(bs); i++ {
		x, y := "<end>", "<end>"
		if i < len(as) {
			x = as[i]
		}
		if i < len(bs) {
			y = bs[i]
		}
		if x != y {
			return fmt.Sprintf("event %d: reference %s, minified %s", i, clipN(x, 200), clipN(y, 200))
		}
	}
	return ""
}

func clipN(s string, n int) string {
	if len(s) > n {
		return s[:n] + "..."
	}
	return s
}
