package main

import (
	"fmt"
	"math"

	"github.com/evanw/esbuild/internal/js_ast"
	"github.com/evanw/esbuild/internal/logger"
	. "github.com/evanw/esbuild/verifharness/hlib"
)

var powGrid = []float64{0, math.Copysign(0, -1), 1, -1, 2, -2, 0.5, -0.5, 1.5, -1.5, 3, -3, 4, 1e300, -1e300, 5e-324, 9007199254740991, 9007199254740992, 9007199254740993, -9007199254740991,
	math.Inf(1), math.Inf(-1), math.NaN(), 1 - 1.1102230246251565e-16, 1 + 2.220446049250313e-16, -(1 - 1.1102230246251565e-16), 4294967297, -4294967297, 1e21, 0.1, 2147483649}

func numericCases(r *Rng, n int, tier string, cf *CoqFile, st *Stats) {
	// --- FoldBinaryOperator on two number literals: integer / shift / comparison operators
	ops := []js_ast.OpCode{js_ast.BinOpShl, js_ast.BinOpShr, js_ast.BinOpUShr, js_ast.BinOpBitwiseAnd, js_ast.BinOpBitwiseOr, js_ast.BinOpBitwiseXor,
		js_ast.BinOpLt, js_ast.BinOpGt, js_ast.BinOpLe, js_ast.BinOpGe, js_ast.BinOpLooseEq, js_ast.BinOpStrictEq, js_ast.BinOpLooseNe, js_ast.BinOpStrictNe,
		js_ast.BinOpIn, js_ast.BinOpInstanceof, js_ast.BinOpComma, js_ast.BinOpAssign}
	var items []string
	for i := 0; i < n; i++ {
		op := ops[r.Intn(len(ops))]
		if r.Chance(50) {
			op = ops[r.Intn(6)]
		}
		a, b := randFloat(r), randFloat(r)
		if r.Chance(20) {
			b = a
		}
		if r.Chance(10) {
			b = -a
		}
		res := js_ast.FoldBinaryOperator(logger.Loc{}, &js_ast.EBinary{Op: op, Left: enum(a), Right: enum(b)})
		kind, payload := 0, "0"
		switch v := res.Data.(type) {
		case *js_ast.ENumber:
			kind, payload = 1, fbits(v.Value)
		case *js_ast.EBoolean:
			kind = 2
			if v.Value {
				payload = "1"
			}
		}
		items = append(items, fmt.Sprintf("(%s, %s, %s, %d, %s)", binopName[op], fbits(a), fbits(b), kind, payload))
		st.Note("fold-num-num", fmt.Sprint(op, fbits(a), fbits(b)), kind != 0)
	}
	cf.AddCases("fold_cases", "binop * Z * Z * Z * Z", "check_fold_nn", items)

	// --- BinOpPow (math.Pow): special cases
	knownB := func(x, y float64) bool {
		return (x == 1 && (y != y || math.IsInf(y, 0))) || (x == -1 && math.IsInf(y, 0))
	}
	var pw, pws []string
	pairs := [][2]float64{}
	for _, x := range powGrid {
		for _, y := range powGrid {
			pairs = append(pairs, [2]float64{x, y})
		}
	}
	for i := 0; i < n/2; i++ {
		pairs = append(pairs, [2]float64{randFloat(r), randFloat(r)})
	}
	badB := 0
	for _, p := range pairs {
		x, y := p[0], p[1]
		res := js_ast.FoldBinaryOperator(logger.Loc{}, &js_ast.EBinary{Op: js_ast.BinOpPow, Left: enum(x), Right: enum(y)})
		v, ok := res.Data.(*js_ast.ENumber)
		if !ok {
			st.Fail("fold-pow-not-folded", fmt.Sprint(x, y), "no fold", "number")
			continue
		}
		it := fmt.Sprintf("(%s, %s, %s)", fbits(x), fbits(y), fbits(v.Value))
		pw = append(pw, it)
		if knownB(x, y) {
			// known finding B (replayed through api.Transform by the glue stream):
			// expected NaN; counted, not fed to the specification-side checker
			if v.Value == v.Value {
				badB++
			} else {
				pws = append(pws, it)
			}
		} else {
			pws = append(pws, it)
		}
		st.Note("fold-pow", fmt.Sprint(fbits(x), fbits(y)), true)
	}
	st.Histogram["fold-pow-known-B-family-still-wrong"] += badB
	cf.AddCases("pow_cases", "Z * Z * Z", "check_pow", pw)
	cf.AddCases("pow_spec_cases", "Z * Z * Z", "check_pow_spec", pws)

	// --- StringToEquivalentNumberValue
	items = nil
	strs := []string{"", "-", "0", "-0", "1", "-1", "00", "01", "10", "2147483647", "2147483648", "-2147483648", "-2147483649", "4294967296", "4294967297", "99999999999", "12345678901234567890",
		"1e3", " 12 ", "0x10", "+1", "1.0", "--1", "-01", "9", "123", "-123", "2147483646", "-2147483647", "6442450945", "-4294967295", "８"}
	for i := 0; i < n/2; i++ {
		k := r.Range(1, 12)
		b := make([]byte, k)
		for j := range b {
			b[j] = byte('0' + r.Intn(10))
		}
		if r.Chance(30) {
			b[0] = '-'
		}
		if r.Chance(8) {
			b[r.Intn(k)] = " a.e+"[r.Intn(5)]
		}
		strs = append(strs, string(b))
	}
	for _, s := range strs {
		u := utf16(s)
		f, ok := js_ast.StringToEquivalentNumberValue(u)
		res := "None"
		if ok {
			res = "(Some " + CZ(int64(f)) + ")"
			if f != math.Trunc(f) || math.Abs(f) > 2147483648 {
				st.Fail("string-to-number-not-int32", s, f, "an int32")
			}
		}
		items = append(items, fmt.Sprintf("(%s, %s)", CU16(u), res))
		st.Note("string-to-number", s, ok)
	}
	cf.AddCases("sten_cases", "list Z * option Z", "check_sten", items)

	// --- TryToStringOnNumberSafely
	items = nil
	fl := append([]float64{}, floatGrid...)
	for i := 0; i < n/2; i++ {
		fl = append(fl, randFloat(r))
	}
	for _, f := range fl {
		s, ok := js_ast.TryToStringOnNumberSafely(f, 10)
		res := "None"
		if ok {
			res = "(Some " + CBytes([]byte(s)) + ")"
		}
		items = append(items, fmt.Sprintf("(%s, %s)", fbits(f), res))
		st.Note("number-to-string", fbits(f), ok)
	}
	cf.AddCases("tostr_cases", "Z * option (list Z)", "check_tostr", items)
}
