package main

// Statement-level mangling (mangleStmts / mangleIf of the parser) by translation
// validation: generated function bodies are parsed twice by js_parser.Parse,
// without and with MinifySyntax; both bodies are serialised as terms of
// C03.Stmt.stmt and the Coq check computes and compares their normal forms
// (C03/Stmt.v: check_mangle_stmts; C03/StmtProofs.v proves that equal normal forms
// mean equal executions).

import (
	"fmt"
	"os"
	"path/filepath"
	"strconv"
	"strings"

	"github.com/evanw/esbuild/internal/ast"
	"github.com/evanw/esbuild/internal/config"
	"github.com/evanw/esbuild/internal/js_ast"
	"github.com/evanw/esbuild/internal/js_parser"
	"github.com/evanw/esbuild/internal/logger"
	"github.com/evanw/esbuild/internal/test"
	. "github.com/evanw/esbuild/verifharness/hlib"
)

type sgen struct {
	r     *Rng
	calls int // every call site has its own global: no two arms ever look the same
	vars  int
	lets  int
	nlab  int
	open  []int // labels of the enclosing labelled blocks
}

func (g *sgen) call() string {
	g.calls++
	if g.r.Chance(25) {
		return fmt.Sprintf("g%d(v%d)", g.calls, 1+g.r.Intn(3))
	}
	return fmt.Sprintf("g%d()", g.calls)
}

func (g *sgen) local() string { return fmt.Sprintf("v%d", 1+g.r.Intn(3)) }

func (g *sgen) test() string {
	switch g.r.Intn(9) {
	case 0, 1, 2:
		return g.local()
	case 3, 4:
		return g.call()
	case 5:
		return "!" + g.local()
	case 6:
		return g.local() + " && " + g.call()
	case 7:
		return g.call() + " || " + g.local()
	default:
		return "!" + g.call()
	}
}

func (g *sgen) value() string {
	switch g.r.Intn(6) {
	case 0, 1, 2:
		return g.call()
	case 3:
		return g.local() + " ? " + g.call() + " : " + g.call()
	case 4:
		return "(" + g.call() + ", " + g.call() + ")"
	default:
		return "void " + g.call()
	}
}

func (g *sgen) loop() string {
	switch g.r.Intn(4) {
	case 0:
		return fmt.Sprintf("while (%s) %s;", g.call(), g.call())
	case 1:
		return fmt.Sprintf("for (%s; %s; %s) %s;", g.call(), g.call(), g.call(), g.call())
	case 2:
		return fmt.Sprintf("for (; %s; ) { %s; }", g.call(), g.call())
	default:
		return fmt.Sprintf("do %s; while (%s);", g.call(), g.call())
	}
}

func (g *sgen) stmt(d int) string {
	k := g.r.Intn(23)
	if d <= 0 && (k == 4 || k == 5 || k == 6 || k == 7 || k == 8 || k == 13 || k == 20) {
		k = 0
	}
	switch k {
	case 0, 1, 2, 3:
		return g.call() + ";"
	case 4, 5, 6:
		return fmt.Sprintf("if (%s) %s", g.test(), g.body(d-1))
	case 7, 8:
		return fmt.Sprintf("if (%s) %s else %s", g.test(), g.body(d-1), g.body(d-1))
	case 9:
		return "return;"
	case 10, 11:
		return "return " + g.value() + ";"
	case 12:
		return "throw " + g.value() + ";"
	case 13:
		return "{ " + g.stmts(d-1, g.r.Range(0, 3)) + " }"
	case 14, 15:
		g.vars++
		if g.r.Chance(25) {
			return fmt.Sprintf("var v%d;", 3+g.vars)
		}
		if g.r.Chance(30) {
			g.vars++
			return fmt.Sprintf("var v%d = %s, v%d = %s;", 2+g.vars, g.call(), 3+g.vars, g.call())
		}
		return fmt.Sprintf("var v%d = %s;", 3+g.vars, g.call())
	case 16:
		g.lets++
		return fmt.Sprintf("%s w%d = %s;", []string{"let", "const"}[g.r.Intn(2)], g.lets, g.call())
	case 17:
		return g.loop()
	case 18:
		return ";"
	case 20:
		// a labelled block; "break L" inside completes it
		g.nlab++
		l := g.nlab
		g.open = append(g.open, l)
		// the block starts with a call: a labelled block that does nothing (only dead code after
		// "break L") as the arm of an if is outside the normal form (equal arms that are not jumps)
		body := g.call() + "; " + g.stmts(d-1, g.r.Range(1, 4))
		g.open = g.open[:len(g.open)-1]
		return fmt.Sprintf("L%d: { %s }", l, body)
	case 21, 22:
		if len(g.open) > 0 {
			l := g.open[g.r.Intn(len(g.open))]
			if g.r.Chance(60) {
				return fmt.Sprintf("if (%s) break L%d;", g.test(), l)
			}
			return fmt.Sprintf("break L%d;", l)
		}
		return g.call() + ";"
	default:
		return g.call() + ";"
	}
}

// the body of an if: a lexical declaration needs a block
func (g *sgen) body(d int) string {
	s := g.stmt(d)
	if !strings.Contains(s, "g") {
		// an if with an empty body is dropped together with a pure test: the normal form only
		// identifies equal arms that are jumps
		s = g.call() + ";"
	}
	if strings.HasPrefix(s, "let ") || strings.HasPrefix(s, "const ") {
		return "{ " + s + " }"
	}
	return s
}

// the statement sequences the mangler merges: equal jumps under consecutive ifs, an if
// that returns / throws followed by a return / throw, a bare "if (a) return;" before more statements
func (g *sgen) pattern() string {
	jump := func() string {
		switch g.r.Intn(5) {
		case 0:
			return "return;"
		case 1:
			return "return " + g.local() + ";"
		case 2:
			return "throw " + g.local() + ";"
		case 3:
			if len(g.open) > 0 {
				return fmt.Sprintf("break L%d;", g.open[g.r.Intn(len(g.open))])
			}
			return "return;"
		default:
			return "return void 0;"
		}
	}
	switch g.r.Intn(6) {
	case 0:
		j := jump()
		s := fmt.Sprintf("if (%s) %s if (%s) %s", g.test(), j, g.test(), j)
		if g.r.Bool() {
			s += fmt.Sprintf(" if (%s) %s", g.test(), j)
		}
		return s
	case 1:
		return fmt.Sprintf("if (%s) return %s; return %s;", g.test(), g.value(), g.value())
	case 2:
		return fmt.Sprintf("if (%s) return %s; else if (%s) return %s; else return %s;", g.test(), g.value(), g.test(), g.value(), g.value())
	case 3:
		return fmt.Sprintf("if (%s) throw %s; %s; throw %s;", g.test(), g.value(), g.call(), g.value())
	case 4:
		return fmt.Sprintf("if (%s) return; %s; %s;", g.test(), g.call(), g.call())
	default:
		return fmt.Sprintf("if (%s) return %s; if (%s) return; %s; return %s;", g.test(), g.value(), g.test(), g.call(), g.value())
	}
}

func (g *sgen) stmts(d int, n int) string {
	var parts []string
	for i := 0; i < n; i++ {
		parts = append(parts, g.stmt(d))
	}
	if g.r.Chance(35) {
		parts = append(parts, g.pattern())
	}
	return strings.Join(parts, " ")
}

// ---------------------------------------------------------------------------

type sconv struct {
	symbols []ast.Symbol
	loops   map[string]int
	bad     string
}

func nameID(name string) uint32 {
	if len(name) >= 2 {
		if n, err := strconv.Atoi(name[1:]); err == nil {
			switch name[0] {
			case 'v':
				return uint32(n)
			case 'w':
				return uint32(100 + n)
			case 'g':
				return uint32(1000 + n)
			case 'L':
				return uint32(n)
			}
		}
	}
	return 9999
}

func (c *sconv) refID(r ast.Ref) uint32 { return nameID(c.symbols[r.InnerIndex].OriginalName) }

func (c *sconv) expr(e js_ast.Expr) (s string) {
	defer func() {
		if x := recover(); x != nil {
			c.bad = fmt.Sprint(x)
			s = "ENull"
		}
	}()
	return coqExpr(e)
}

func (c *sconv) optExpr(e js_ast.Expr) string {
	if e.Data == nil {
		return "None"
	}
	return "(Some " + c.expr(e) + ")"
}

func flattenBody(s js_ast.Stmt) []js_ast.Stmt {
	if b, ok := s.Data.(*js_ast.SBlock); ok {
		var out []js_ast.Stmt
		for _, x := range b.Stmts {
			out = append(out, flattenBody(x)...)
		}
		return out
	}
	return []js_ast.Stmt{s}
}

// a loop is opaque: it is identified by its test, update and body
func (c *sconv) loopID(test, update js_ast.Expr, body js_ast.Stmt, kind string) int {
	sig := kind + "|" + c.optExpr(test) + "|" + c.optExpr(update) + "|" + c.stmts(flattenBody(body))
	if id, ok := c.loops[sig]; ok {
		return id
	}
	id := len(c.loops) + 1
	c.loops[sig] = id
	return id
}

func (c *sconv) local(s *js_ast.SLocal) string {
	var ds []string
	for _, d := range s.Decls {
		id, ok := d.Binding.Data.(*js_ast.BIdentifier)
		if !ok {
			c.bad = "destructuring"
			continue
		}
		ds = append(ds, fmt.Sprintf("(%d, %s)", c.refID(id.Ref), c.optExpr(d.ValueOrNil)))
	}
	return fmt.Sprintf("(SLocal %d [%s])", int(s.Kind), strings.Join(ds, "; "))
}

func (c *sconv) stmt(x js_ast.Stmt) string {
	switch s := x.Data.(type) {
	case nil:
		return "SEmpty"
	case *js_ast.SEmpty:
		return "SEmpty"
	case *js_ast.SExpr:
		return "(SExpr " + c.expr(s.Value) + ")"
	case *js_ast.SIf:
		return fmt.Sprintf("(SIf %s %s %s)", c.expr(s.Test), c.stmt(s.Yes), c.stmt(s.NoOrNil))
	case *js_ast.SReturn:
		return "(SReturn " + c.optExpr(s.ValueOrNil) + ")"
	case *js_ast.SThrow:
		return "(SThrow " + c.expr(s.Value) + ")"
	case *js_ast.SBlock:
		return "(SBlock " + c.stmts(s.Stmts) + ")"
	case *js_ast.SLocal:
		return c.local(s)
	case *js_ast.SLabel:
		return fmt.Sprintf("(SLabel %d %s)", c.refID(s.Name.Ref), c.stmt(s.Stmt))
	case *js_ast.SBreak:
		if s.Label == nil {
			return "(SBreak None)"
		}
		return fmt.Sprintf("(SBreak (Some %d))", c.refID(s.Label.Ref))
	case *js_ast.SContinue:
		if s.Label == nil {
			return "(SContinue None)"
		}
		return fmt.Sprintf("(SContinue (Some %d))", c.refID(s.Label.Ref))
	case *js_ast.SWhile:
		return fmt.Sprintf("(SLoop %d None)", c.loopID(s.Test, js_ast.Expr{}, s.Body, "for"))
	case *js_ast.SDoWhile:
		return fmt.Sprintf("(SLoop %d None)", c.loopID(s.Test, js_ast.Expr{}, s.Body, "do"))
	case *js_ast.SFor:
		id := c.loopID(s.TestOrNil, s.UpdateOrNil, s.Body, "for")
		switch i := s.InitOrNil.Data.(type) {
		case nil:
			return fmt.Sprintf("(SLoop %d None)", id)
		case *js_ast.SExpr:
			return fmt.Sprintf("(SLoop %d (Some %s))", id, c.expr(i.Value))
		case *js_ast.SLocal:
			// "for (var x = a; ...)" is "var x = a; for (; ...)"
			return fmt.Sprintf("(SBlock [%s; SLoop %d None])", c.local(i), id)
		}
	}
	c.bad = fmt.Sprintf("unmodelled statement %T", x.Data)
	return "SEmpty"
}

func (c *sconv) stmts(l []js_ast.Stmt) string {
	var parts []string
	for _, s := range l {
		parts = append(parts, c.stmt(s))
	}
	return "[" + strings.Join(parts, "; ") + "]"
}

// the body of the single top-level function of the source, parsed with or without MinifySyntax
func parseBody(src string, minify bool) ([]js_ast.Stmt, []ast.Symbol, bool) {
	log := logger.NewDeferLog(logger.DeferLogNoVerboseOrDebug, nil)
	opts := config.Options{MinifySyntax: minify}
	tree, ok := js_parser.Parse(log, test.SourceForTest(src), js_parser.OptionsFromConfig(&opts))
	if !ok || log.HasErrors() {
		return nil, nil, false
	}
	for _, part := range tree.Parts {
		for _, s := range part.Stmts {
			if fn, ok := s.Data.(*js_ast.SFunction); ok {
				return fn.Fn.Body.Block.Stmts, tree.Symbols, true
			}
		}
	}
	return nil, nil, false
}

func stmtCases(r *Rng, n int, tier string, cf *CoqFile, st *Stats) {
	nt := n / 2
	if nt < 100 {
		nt = 100
	}
	var items []string
	var srcs []string
	defer func() {
		if d := os.Getenv("C03_DUMP"); d != "" {
			os.MkdirAll(d, 0o755)
			os.WriteFile(filepath.Join(d, "ms-sources.txt"), []byte(strings.Join(srcs, "\n")), 0o644)
		}
	}()
	for i := 0; i < nt; i++ {
		g := &sgen{r: r}
		src := "function f(v1, v2, v3) { " + g.stmts(2, r.Range(1, 6)) + " }"
		in, symIn, ok1 := parseBody(src, false)
		out, symOut, ok2 := parseBody(src, true)
		if !ok1 || !ok2 {
			st.Fail("stmt-parse-error", src, "parse error", "parses")
			continue
		}
		loops := map[string]int{}
		ci := &sconv{symbols: symIn, loops: loops}
		refIDHook = ci.refID
		sIn := ci.stmts(in)
		co := &sconv{symbols: symOut, loops: loops}
		refIDHook = co.refID
		sOut := co.stmts(out)
		refIDHook = nil
		if ci.bad != "" || co.bad != "" {
			st.Fail("stmt-unmodelled", src, ci.bad+co.bad, "modelled statements only")
			continue
		}
		items = append(items, fmt.Sprintf("(%s, %s)", sIn, sOut))
		srcs = append(srcs, src)
		st.Note("stmt-mangle", src, sIn != sOut)
		if i < 3 {
			st.Extra[fmt.Sprintf("stmt_sample_%d", i)] = src
		}
	}
	cf.AddCases("ms_cases", "list stmt * list stmt", "check_mangle_stmts_cases", items)
}
