package main

import (
	. "github.com/evanw/esbuild/verifharness/hlib"
)

func extraCases(r *Rng, n int, tier string, cf *CoqFile, st *Stats) {}
