package main

// Expression-tree correspondence: random js_ast.Expr trees over the
// constructors the helpers inspect, serialised as Coq terms of C03.Tree.expr;
// each case carries the input and the result observed on the real helper.

import (
	"fmt"
	"math"
	"strings"

	"github.com/evanw/esbuild/internal/ast"
	"github.com/evanw/esbuild/internal/compat"
	"github.com/evanw/esbuild/internal/js_ast"
	"github.com/evanw/esbuild/internal/logger"
	. "github.com/evanw/esbuild/verifharness/hlib"
)

var unopName = map[js_ast.OpCode]string{
	js_ast.UnOpPos: "UPos", js_ast.UnOpNeg: "UNeg", js_ast.UnOpCpl: "UCpl", js_ast.UnOpNot: "UNot", js_ast.UnOpVoid: "UVoid",
	js_ast.UnOpTypeof: "UTypeof", js_ast.UnOpDelete: "UDelete", js_ast.UnOpPreDec: "UPreDec", js_ast.UnOpPreInc: "UPreInc",
	js_ast.UnOpPostDec: "UPostDec", js_ast.UnOpPostInc: "UPostInc",
}
var binopName = map[js_ast.OpCode]string{
	js_ast.BinOpAdd: "BAdd", js_ast.BinOpSub: "BSub", js_ast.BinOpMul: "BMul", js_ast.BinOpDiv: "BDiv", js_ast.BinOpRem: "BRem", js_ast.BinOpPow: "BPow",
	js_ast.BinOpLt: "BLt", js_ast.BinOpLe: "BLe", js_ast.BinOpGt: "BGt", js_ast.BinOpGe: "BGe", js_ast.BinOpIn: "BIn", js_ast.BinOpInstanceof: "BInstanceof",
	js_ast.BinOpShl: "BShl", js_ast.BinOpShr: "BShr", js_ast.BinOpUShr: "BUShr", js_ast.BinOpLooseEq: "BLooseEq", js_ast.BinOpLooseNe: "BLooseNe",
	js_ast.BinOpStrictEq: "BStrictEq", js_ast.BinOpStrictNe: "BStrictNe", js_ast.BinOpNullishCoalescing: "BNullish", js_ast.BinOpLogicalOr: "BLogOr",
	js_ast.BinOpLogicalAnd: "BLogAnd", js_ast.BinOpBitwiseOr: "BBitOr", js_ast.BinOpBitwiseAnd: "BBitAnd", js_ast.BinOpBitwiseXor: "BBitXor", js_ast.BinOpComma: "BComma",
	js_ast.BinOpAssign: "BAssign", js_ast.BinOpAddAssign: "BAddAssign", js_ast.BinOpSubAssign: "BSubAssign", js_ast.BinOpMulAssign: "BMulAssign",
	js_ast.BinOpDivAssign: "BDivAssign", js_ast.BinOpRemAssign: "BRemAssign", js_ast.BinOpPowAssign: "BPowAssign", js_ast.BinOpShlAssign: "BShlAssign",
	js_ast.BinOpShrAssign: "BShrAssign", js_ast.BinOpUShrAssign: "BUShrAssign", js_ast.BinOpBitwiseOrAssign: "BBitOrAssign", js_ast.BinOpBitwiseAndAssign: "BBitAndAssign",
	js_ast.BinOpBitwiseXorAssign: "BBitXorAssign", js_ast.BinOpNullishCoalescingAssign: "BNullishAssign", js_ast.BinOpLogicalOrAssign: "BLogOrAssign", js_ast.BinOpLogicalAndAssign: "BLogAndAssign",
}
var allUnops, allBinops []js_ast.OpCode

func init() {
	for op := js_ast.UnOpPos; op <= js_ast.UnOpPostInc; op++ {
		if _, ok := unopName[op]; ok {
			allUnops = append(allUnops, op)
		}
	}
	for op := js_ast.BinOpAdd; op <= js_ast.BinOpLogicalAndAssign; op++ {
		if _, ok := binopName[op]; ok {
			allBinops = append(allBinops, op)
		}
	}
}

func cstr(s string) string {
	u := make([]uint16, 0, len(s))
	for _, c := range s {
		if c > 0xFFFF {
			c -= 0x10000
			u = append(u, uint16(0xD800+(c>>10)), uint16(0xDC00+(c&0x3FF)))
		} else {
			u = append(u, uint16(c))
		}
	}
	return CU16(u)
}

func coqExprs(es []js_ast.Expr) string {
	var parts []string
	for _, e := range es {
		parts = append(parts, coqExpr(e))
	}
	return "[" + strings.Join(parts, "; ") + "]"
}

var refIDHook func(ast.Ref) uint32

// unsupported node kinds panic: the generator only produces modelled kinds
func coqExpr(x js_ast.Expr) string {
	switch e := x.Data.(type) {
	case nil:
		panic("nil expression")
	case *js_ast.ENull:
		return "ENull"
	case *js_ast.EUndefined:
		return "EUndefined"
	case *js_ast.EMissing:
		return "EMissing"
	case *js_ast.EThis:
		return "EThis"
	case *js_ast.EBoolean:
		return "(EBool " + CBool(e.Value) + ")"
	case *js_ast.ENumber:
		return "(ENumB " + fbits(e.Value) + ")"
	case *js_ast.EBigInt:
		return "(EBig " + CBytes([]byte(e.Value)) + ")"
	case *js_ast.EString:
		return "(EStr " + CU16(e.Value) + ")"
	case *js_ast.ERegExp:
		return "(ERegExp " + CBytes([]byte(e.Value)) + ")"
	case *js_ast.EFunction:
		return "(EFunc 0)"
	case *js_ast.EArrow:
		return "(EArrow 0)"
	case *js_ast.EIdentifier:
		if refIDHook != nil {
			// statement cases: identifiers are numbered by name (two parses of the same source); the
			// side-effect annotations of the node are not part of what is compared
			return fmt.Sprintf("(EId %d false false)", refIDHook(e.Ref))
		}
		return fmt.Sprintf("(EId %d %s %s)", e.Ref.InnerIndex, CBool(e.CanBeRemovedIfUnused), CBool(e.MustKeepDueToWithStmt))
	case *js_ast.EDot:
		return fmt.Sprintf("(EDot %s %s %d %s %s)", coqExpr(e.Target), cstr(e.Name), e.OptionalChain, CBool(e.CanBeRemovedIfUnused), CBool(e.IsSymbolInstance))
	case *js_ast.EIndex:
		return fmt.Sprintf("(EIndex %s %s %d)", coqExpr(e.Target), coqExpr(e.Index), e.OptionalChain)
	case *js_ast.ECall:
		return fmt.Sprintf("(ECall %s %s %d %s)", coqExpr(e.Target), coqExprs(e.Args), e.OptionalChain, CBool(e.CanBeUnwrappedIfUnused))
	case *js_ast.ENew:
		return fmt.Sprintf("(ENew %s %s %s)", coqExpr(e.Target), coqExprs(e.Args), CBool(e.CanBeUnwrappedIfUnused))
	case *js_ast.EUnary:
		return fmt.Sprintf("(EUn %s %s %s)", unopName[e.Op], coqExpr(e.Value), CBool(e.WasOriginallyTypeofIdentifier))
	case *js_ast.EBinary:
		return fmt.Sprintf("(EBin %s %s %s)", binopName[e.Op], coqExpr(e.Left), coqExpr(e.Right))
	case *js_ast.EIf:
		return fmt.Sprintf("(EIf %s %s %s)", coqExpr(e.Test), coqExpr(e.Yes), coqExpr(e.No))
	case *js_ast.ETemplate:
		if e.TagOrNil.Data != nil {
			panic("tagged template")
		}
		var parts []string
		for _, p := range e.Parts {
			parts = append(parts, fmt.Sprintf("(%s, %s)", coqExpr(p.Value), CU16(p.TailCooked)))
		}
		return fmt.Sprintf("(ETemplate %s [%s])", CU16(e.HeadCooked), strings.Join(parts, "; "))
	case *js_ast.EArray:
		return "(EArray " + coqExprs(e.Items) + ")"
	case *js_ast.ESpread:
		return "(ESpread " + coqExpr(e.Value) + ")"
	case *js_ast.EObject:
		var parts []string
		for _, p := range e.Properties {
			kind := 2
			if p.Kind == js_ast.PropertyField {
				kind = 0
			} else if p.Kind == js_ast.PropertySpread {
				kind = 1
			}
			key := "ENull"
			if p.Key.Data != nil {
				key = coqExpr(p.Key)
			}
			parts = append(parts, fmt.Sprintf("(%d, %s, %s, %s)", kind, CBool(p.Flags.Has(js_ast.PropertyIsComputed)), key, coqExpr(p.ValueOrNil)))
		}
		return "(EObject [" + strings.Join(parts, "; ") + "])"
	case *js_ast.EAnnotation:
		return fmt.Sprintf("(EAnnot %s %s)", coqExpr(e.Value), CBool(e.Flags.Has(js_ast.CanBeRemovedIfUnusedFlag)))
	case *js_ast.EInlinedEnum:
		return "(EInlinedEnum " + coqExpr(e.Value) + ")"
	}
	panic(fmt.Sprintf("unmodelled expression kind %T", x.Data))
}

func coqOptExpr(x js_ast.Expr) string {
	if x.Data == nil {
		return "None"
	}
	return "(Some " + coqExpr(x) + ")"
}

// ---------------------------------------------------------------------------

type tgen struct{ r *Rng }

var treeNums = []float64{0, math.Copysign(0, -1), 1, -1, 2, math.NaN(), math.Inf(1), math.Inf(-1), 0.5, 255, 2147483648, 4294967296, 1e21, 5e-324}
var treeStrs = []string{"", "a", "b", "undefined", "u", "0", "1", "object", "x", "<lone>"}
var treeBigs = []string{"0", "1", "10", "0x0", "0b1", "00", "0x1", "123"}

func mk(d js_ast.E) js_ast.Expr { return js_ast.Expr{Data: d} }

func (g *tgen) ident() js_ast.Expr {
	idx := uint32(1 + g.r.Intn(4))
	if g.r.Chance(35) {
		idx = uint32(1000 + g.r.Intn(3))
	}
	return mk(&js_ast.EIdentifier{Ref: ast.Ref{InnerIndex: idx}, CanBeRemovedIfUnused: g.r.Chance(10), MustKeepDueToWithStmt: g.r.Chance(5)})
}

func utf16(s string) []uint16 {
	var u []uint16
	for _, c := range s {
		if c == 0xFFFD && false {
			continue
		}
		u = append(u, uint16(c))
	}
	return u
}

func (g *tgen) str() js_ast.Expr {
	s := treeStrs[g.r.Intn(len(treeStrs))]
	if s == "<lone>" {
		return mk(&js_ast.EString{Value: []uint16{0xD800}})
	}
	return mk(&js_ast.EString{Value: utf16(s)})
}

func (g *tgen) lit() js_ast.Expr {
	switch g.r.Intn(12) {
	case 0:
		return mk(js_ast.ENullShared)
	case 1:
		return mk(js_ast.EUndefinedShared)
	case 2, 3:
		return mk(&js_ast.EBoolean{Value: g.r.Bool()})
	case 4, 5, 6:
		return mk(&js_ast.ENumber{Value: treeNums[g.r.Intn(len(treeNums))]})
	case 7:
		return mk(&js_ast.EBigInt{Value: treeBigs[g.r.Intn(len(treeBigs))]})
	case 8, 9:
		return g.str()
	case 10:
		switch g.r.Intn(4) {
		case 0:
			return mk(&js_ast.ERegExp{Value: "/x/"})
		case 1:
			return mk(&js_ast.EFunction{Fn: js_ast.Fn{Args: []js_ast.Arg{{}}}})
		case 2:
			return mk(&js_ast.EArrow{Args: []js_ast.Arg{{}}})
		default:
			return mk(js_ast.EThisShared)
		}
	default:
		return mk(&js_ast.EInlinedEnum{Value: mk(&js_ast.ENumber{Value: treeNums[g.r.Intn(len(treeNums))]})})
	}
}

// optional-chain flavour of a chain-capable node (mostly none)
func (g *tgen) oc() js_ast.OptionalChain {
	switch g.r.Intn(10) {
	case 0:
		return js_ast.OptionalChainStart
	case 1:
		return js_ast.OptionalChainContinue
	}
	return js_ast.OptionalChainNone
}

// a chain of 1..d property / index / call links over base; a link without a
// chain flag over a link with one is the end of a parenthesized chain "(a?.b).c"
func (g *tgen) chainOver(base js_ast.Expr, d int) js_ast.Expr {
	e := base
	n := 1 + g.r.Intn(d)
	for i := 0; i < n; i++ {
		oc := js_ast.OptionalChainNone
		switch g.r.Intn(6) {
		case 0:
			oc = js_ast.OptionalChainStart
		case 1:
			oc = js_ast.OptionalChainContinue
		}
		switch g.r.Intn(5) {
		case 0, 1:
			e = mk(&js_ast.EDot{Target: e, Name: []string{"q", "y", "z"}[g.r.Intn(3)], OptionalChain: oc, CanBeRemovedIfUnused: g.r.Chance(10)})
		case 2:
			e = mk(&js_ast.EIndex{Target: e, Index: g.leaf(), OptionalChain: oc})
		default:
			var args []js_ast.Expr
			if g.r.Bool() {
				args = append(args, g.leaf())
			}
			e = mk(&js_ast.ECall{Target: e, Args: args, OptionalChain: oc, CanBeUnwrappedIfUnused: g.r.Chance(20)})
		}
	}
	return e
}

// "a != null", "null != a", "a == null", "null == a" over a clone of id
func (g *tgen) nullCheck(id js_ast.Expr, ne bool) js_ast.Expr {
	op := js_ast.BinOpLooseEq
	if ne {
		op = js_ast.BinOpLooseNe
	}
	if g.r.Chance(10) {
		op = []js_ast.OpCode{js_ast.BinOpStrictEq, js_ast.BinOpStrictNe}[g.r.Intn(2)] // near miss
	}
	if g.r.Chance(30) {
		return mk(&js_ast.EBinary{Op: op, Left: mk(js_ast.ENullShared), Right: clone(id)})
	}
	return mk(&js_ast.EBinary{Op: op, Left: clone(id), Right: mk(js_ast.ENullShared)})
}

// the shapes of the optional-chain insertion of SimplifyUnusedExpr:
// "a != null && a.b.c", "a == null || a.b()", also over parenthesized chains
func (g *tgen) guardedChain() js_ast.Expr {
	id := g.ident()
	if g.r.Chance(85) {
		id.Data.(*js_ast.EIdentifier).MustKeepDueToWithStmt = false
	}
	and := g.r.Bool()
	op := js_ast.BinOpLogicalOr
	if and {
		op = js_ast.BinOpLogicalAnd
	}
	if g.r.Chance(8) {
		and = !and // near miss: "a == null && a.b"
	}
	base := clone(id)
	if g.r.Chance(10) {
		base = g.ident()
	}
	return mk(&js_ast.EBinary{Op: op, Left: g.nullCheck(id, and), Right: g.chainOver(base, 3)})
}

// a call marked pure that is an optional call or continues an optional chain
func (g *tgen) pureChainCall() js_ast.Expr {
	var args []js_ast.Expr
	for i, n := 0, g.r.Intn(3); i < n; i++ {
		switch g.r.Intn(4) {
		case 0:
			args = append(args, g.probeCall())
		case 1:
			args = append(args, g.ident())
		case 2:
			args = append(args, g.expr(1))
		default:
			args = append(args, g.lit())
		}
	}
	t := g.ident()
	oc := js_ast.OptionalChainStart
	if g.r.Chance(40) {
		t = g.chainOver(t, 2)
		if g.r.Bool() {
			oc = js_ast.OptionalChainContinue
		}
	}
	return mk(&js_ast.ECall{Target: t, Args: args, OptionalChain: oc, CanBeUnwrappedIfUnused: g.r.Chance(90)})
}

func (g *tgen) probeCall() js_ast.Expr {
	return mk(&js_ast.ECall{Target: mk(&js_ast.EIdentifier{Ref: ast.Ref{InnerIndex: uint32(1000 + g.r.Intn(3))}})})
}

func (g *tgen) leaf() js_ast.Expr {
	switch g.r.Intn(8) {
	case 0, 1, 2:
		return g.lit()
	case 3, 4:
		return g.ident()
	case 5:
		return g.probeCall()
	case 6:
		if g.r.Bool() {
			return mk(&js_ast.EArray{})
		}
		return mk(&js_ast.EObject{})
	default:
		return g.lit()
	}
}

func (g *tgen) binop() js_ast.OpCode {
	switch g.r.Intn(10) {
	case 0, 1, 2:
		return []js_ast.OpCode{js_ast.BinOpLogicalAnd, js_ast.BinOpLogicalOr, js_ast.BinOpNullishCoalescing}[g.r.Intn(3)]
	case 3, 4:
		return []js_ast.OpCode{js_ast.BinOpStrictEq, js_ast.BinOpStrictNe, js_ast.BinOpLooseEq, js_ast.BinOpLooseNe}[g.r.Intn(4)]
	case 5:
		return js_ast.BinOpComma
	case 6:
		return []js_ast.OpCode{js_ast.BinOpAdd, js_ast.BinOpUShr, js_ast.BinOpLt, js_ast.BinOpGt}[g.r.Intn(4)]
	default:
		return allBinops[g.r.Intn(len(allBinops))]
	}
}

func (g *tgen) expr(d int) js_ast.Expr {
	if d <= 0 || g.r.Chance(15) {
		return g.leaf()
	}
	switch g.r.Intn(27) {
	case 0, 1, 2, 3, 4:
		return mk(&js_ast.EBinary{Op: g.binop(), Left: g.expr(d - 1), Right: g.expr(d - 1)})
	case 5, 6, 7:
		op := allUnops[g.r.Intn(len(allUnops))]
		if g.r.Chance(50) {
			op = []js_ast.OpCode{js_ast.UnOpNot, js_ast.UnOpNot, js_ast.UnOpVoid, js_ast.UnOpTypeof, js_ast.UnOpNeg}[g.r.Intn(5)]
		}
		v := g.expr(d - 1)
		was := false
		if op == js_ast.UnOpTypeof {
			if g.r.Chance(60) {
				v = g.ident()
			}
			if _, ok := v.Data.(*js_ast.EIdentifier); ok {
				was = g.r.Chance(85)
			}
		}
		return mk(&js_ast.EUnary{Op: op, Value: v, WasOriginallyTypeofIdentifier: was})
	case 8, 9, 10:
		return mk(&js_ast.EIf{Test: g.expr(d - 1), Yes: g.expr(d - 1), No: g.expr(d - 1)})
	case 11:
		t := g.expr(d - 1)
		return mk(&js_ast.EDot{Target: t, Name: []string{"x", "y", "constructor"}[g.r.Intn(3)], OptionalChain: g.oc(), CanBeRemovedIfUnused: g.r.Chance(15), IsSymbolInstance: g.r.Chance(10)})
	case 12:
		return mk(&js_ast.EIndex{Target: g.expr(d - 1), Index: g.expr(d - 1), OptionalChain: g.oc()})
	case 13, 14:
		n := g.r.Intn(3)
		var args []js_ast.Expr
		for i := 0; i < n; i++ {
			a := g.expr(d - 1)
			if g.r.Chance(12) {
				a = mk(&js_ast.ESpread{Value: a})
			}
			args = append(args, a)
		}
		t := g.ident()
		if g.r.Chance(30) {
			t = mk(&js_ast.EDot{Target: g.ident(), Name: "m", OptionalChain: g.oc()})
		}
		if g.r.Chance(20) {
			return mk(&js_ast.ENew{Target: t, Args: args, CanBeUnwrappedIfUnused: g.r.Chance(40)})
		}
		return mk(&js_ast.ECall{Target: t, Args: args, OptionalChain: g.oc(), CanBeUnwrappedIfUnused: g.r.Chance(30)})
	case 15:
		n := g.r.Range(0, 3)
		t := &js_ast.ETemplate{HeadCooked: utf16([]string{"", "h"}[g.r.Intn(2)])}
		for i := 0; i < n; i++ {
			t.Parts = append(t.Parts, js_ast.TemplatePart{Value: g.expr(d - 1), TailCooked: utf16([]string{"", "t"}[g.r.Intn(2)])})
		}
		return mk(t)
	case 16:
		n := g.r.Range(0, 3)
		a := &js_ast.EArray{}
		for i := 0; i < n; i++ {
			it := g.expr(d - 1)
			switch g.r.Intn(8) {
			case 0:
				it = mk(&js_ast.ESpread{Value: it})
			case 1:
				it = mk(&js_ast.ESpread{Value: mk(&js_ast.EArray{Items: []js_ast.Expr{g.expr(d - 1)}})})
			case 2:
				it = mk(js_ast.EMissingShared)
			}
			a.Items = append(a.Items, it)
		}
		return mk(a)
	case 17:
		n := g.r.Range(0, 3)
		o := &js_ast.EObject{}
		for i := 0; i < n; i++ {
			p := js_ast.Property{Kind: js_ast.PropertyField, Key: g.str(), ValueOrNil: g.expr(d - 1)}
			switch g.r.Intn(6) {
			case 0:
				p.Kind = js_ast.PropertySpread
				p.Key = js_ast.Expr{}
			case 1, 2:
				p.Flags |= js_ast.PropertyIsComputed
				if g.r.Bool() {
					p.Key = g.expr(d - 1)
				}
			}
			o.Properties = append(o.Properties, p)
		}
		return mk(o)
	case 18:
		var flags js_ast.AnnotationFlags
		if g.r.Bool() {
			flags = js_ast.CanBeRemovedIfUnusedFlag
		}
		return mk(&js_ast.EAnnotation{Value: g.expr(d - 1), Flags: flags})
	case 19:
		// guarded global reference shapes
		id := mk(&js_ast.EIdentifier{Ref: ast.Ref{InnerIndex: 1000}})
		ty := mk(&js_ast.EUnary{Op: js_ast.UnOpTypeof, Value: mk(&js_ast.EIdentifier{Ref: ast.Ref{InnerIndex: uint32(1000 + g.r.Intn(2))}}), WasOriginallyTypeofIdentifier: g.r.Chance(90)})
		s := mk(&js_ast.EString{Value: utf16([]string{"undefined", "u", "object"}[g.r.Intn(3)])})
		op := []js_ast.OpCode{js_ast.BinOpStrictEq, js_ast.BinOpStrictNe, js_ast.BinOpLooseEq, js_ast.BinOpLooseNe, js_ast.BinOpLt, js_ast.BinOpGt, js_ast.BinOpLe, js_ast.BinOpGe}[g.r.Intn(8)]
		guard := mk(&js_ast.EBinary{Op: op, Left: ty, Right: s})
		if g.r.Chance(30) {
			guard = mk(&js_ast.EBinary{Op: op, Left: s, Right: ty})
		}
		switch g.r.Intn(4) {
		case 0:
			return mk(&js_ast.EIf{Test: guard, Yes: id, No: g.lit()})
		case 1:
			return mk(&js_ast.EIf{Test: guard, Yes: g.lit(), No: id})
		case 2:
			return mk(&js_ast.EBinary{Op: js_ast.BinOpLogicalAnd, Left: guard, Right: id})
		default:
			return mk(&js_ast.EBinary{Op: js_ast.BinOpLogicalOr, Left: guard, Right: id})
		}
	case 20:
		// "a != null && a.b()" shapes
		id := mk(&js_ast.EIdentifier{Ref: ast.Ref{InnerIndex: uint32(1 + g.r.Intn(2))}})
		id2 := mk(&js_ast.EIdentifier{Ref: ast.Ref{InnerIndex: uint32(1 + g.r.Intn(2))}})
		var chain js_ast.Expr = mk(&js_ast.EDot{Target: id2, Name: "b"})
		if g.r.Bool() {
			chain = mk(&js_ast.ECall{Target: chain})
		}
		if g.r.Bool() {
			chain = mk(&js_ast.EIndex{Target: chain, Index: g.lit()})
		}
		op, lop := js_ast.BinOpLooseNe, js_ast.BinOpLogicalAnd
		if g.r.Bool() {
			op, lop = js_ast.BinOpLooseEq, js_ast.BinOpLogicalOr
		}
		if g.r.Chance(15) {
			lop = js_ast.BinOpLogicalAnd
		}
		test := mk(&js_ast.EBinary{Op: op, Left: id, Right: mk(js_ast.ENullShared)})
		if g.r.Chance(30) {
			test = mk(&js_ast.EBinary{Op: op, Left: mk(js_ast.ENullShared), Right: id})
		}
		if g.r.Bool() {
			y, n := chain, mk(js_ast.EUndefinedShared)
			if g.r.Chance(30) {
				n = g.lit()
			}
			if g.r.Chance(30) {
				y = clone(id)
			}
			if op == js_ast.BinOpLooseEq {
				y, n = n, y
			}
			return mk(&js_ast.EIf{Test: test, Yes: y, No: n})
		}
		return mk(&js_ast.EBinary{Op: lop, Left: test, Right: chain})
	case 21:
		// comparisons with a typed operand (ExprCanBeRemovedIfUnused, SimplifyUnusedExpr)
		typed := func() js_ast.Expr {
			switch g.r.Intn(6) {
			case 0:
				return g.str()
			case 1:
				return mk(&js_ast.ENumber{Value: treeNums[g.r.Intn(len(treeNums))]})
			case 2:
				return mk(&js_ast.EBigInt{Value: treeBigs[g.r.Intn(len(treeBigs))]})
			case 3:
				return mk(&js_ast.EUnary{Op: js_ast.UnOpTypeof, Value: g.ident(), WasOriginallyTypeofIdentifier: true})
			case 4:
				return mk(&js_ast.ETemplate{Parts: []js_ast.TemplatePart{{Value: g.lit()}}})
			default:
				return mk(&js_ast.EUnary{Op: js_ast.UnOpNeg, Value: g.lit()})
			}
		}
		other := func() js_ast.Expr {
			switch g.r.Intn(4) {
			case 0:
				return typed()
			case 1:
				return g.ident()
			case 2:
				return g.lit()
			default:
				return g.expr(d - 1)
			}
		}
		op := []js_ast.OpCode{js_ast.BinOpLt, js_ast.BinOpGt, js_ast.BinOpLe, js_ast.BinOpGe, js_ast.BinOpLooseEq, js_ast.BinOpLooseNe, js_ast.BinOpStrictEq, js_ast.BinOpAdd}[g.r.Intn(8)]
		l, rr := typed(), other()
		if g.r.Bool() {
			l, rr = rr, l
		}
		return mk(&js_ast.EBinary{Op: op, Left: l, Right: rr})
	case 22:
		return g.logicalWithBooleanLeft(d)
	case 23, 24:
		return g.typeShape(1)
	default:
		// boolean-context shapes
		switch g.r.Intn(4) {
		case 0:
			return mk(&js_ast.EUnary{Op: js_ast.UnOpNot, Value: mk(&js_ast.EUnary{Op: js_ast.UnOpNot, Value: g.expr(d - 1)})})
		case 1:
			op := []js_ast.OpCode{js_ast.BinOpStrictEq, js_ast.BinOpStrictNe, js_ast.BinOpLooseEq, js_ast.BinOpLooseNe}[g.r.Intn(4)]
			l := mk(&js_ast.EBinary{Op: js_ast.BinOpUShr, Left: g.expr(d - 1), Right: g.expr(d - 1)})
			if g.r.Chance(30) {
				l = mk(&js_ast.EIf{Test: g.expr(d - 1), Yes: l, No: clone(l)})
			}
			return mk(&js_ast.EBinary{Op: op, Left: l, Right: mk(&js_ast.ENumber{Value: []float64{0, math.Copysign(0, -1), 1}[g.r.Intn(3)]})})
		case 2:
			return mk(&js_ast.EIf{Test: g.expr(d - 1), Yes: g.lit(), No: g.expr(d - 1)})
		default:
			return mk(&js_ast.EIf{Test: g.expr(d - 1), Yes: g.expr(d - 1), No: g.lit()})
		}
	}
}

// an operand of each static type class of KnownPrimitiveType
func (g *tgen) typedOperand(d int) js_ast.Expr {
	arith := []js_ast.OpCode{js_ast.BinOpSub, js_ast.BinOpMul, js_ast.BinOpDiv, js_ast.BinOpRem, js_ast.BinOpPow, js_ast.BinOpShl, js_ast.BinOpShr,
		js_ast.BinOpUShr, js_ast.BinOpBitwiseOr, js_ast.BinOpBitwiseAnd, js_ast.BinOpBitwiseXor, js_ast.BinOpSubAssign, js_ast.BinOpMulAssign,
		js_ast.BinOpBitwiseOrAssign, js_ast.BinOpShlAssign, js_ast.BinOpAddAssign, js_ast.BinOpAdd}
	switch g.r.Intn(14) {
	case 0:
		return mk(js_ast.ENullShared)
	case 1:
		return mk(js_ast.EUndefinedShared)
	case 2:
		return mk(&js_ast.EBoolean{Value: g.r.Bool()})
	case 3:
		return mk(&js_ast.ENumber{Value: treeNums[g.r.Intn(len(treeNums))]})
	case 4:
		return mk(&js_ast.EBigInt{Value: treeBigs[g.r.Intn(len(treeBigs))]})
	case 5:
		return g.str()
	case 6, 7, 8:
		// number or bigint (Mixed)
		if g.r.Chance(25) {
			return mk(&js_ast.EUnary{Op: []js_ast.OpCode{js_ast.UnOpPreInc, js_ast.UnOpPostDec, js_ast.UnOpPreDec, js_ast.UnOpPostInc}[g.r.Intn(4)], Value: g.ident()})
		}
		return mk(&js_ast.EBinary{Op: arith[g.r.Intn(len(arith))], Left: g.ident(), Right: g.ident()})
	case 9:
		return g.ident() // Unknown
	case 10:
		return mk(&js_ast.EUnary{Op: []js_ast.OpCode{js_ast.UnOpPos, js_ast.UnOpNeg, js_ast.UnOpCpl, js_ast.UnOpNot, js_ast.UnOpVoid, js_ast.UnOpTypeof}[g.r.Intn(6)], Value: g.ident()})
	case 11:
		return mk(&js_ast.EIf{Test: g.ident(), Yes: g.typedOperandLeaf(), No: g.typedOperandLeaf()})
	case 12:
		return mk(&js_ast.ETemplate{Parts: []js_ast.TemplatePart{{Value: g.ident()}}})
	default:
		if d > 0 {
			return g.typeShape(d - 1)
		}
		return g.probeCall()
	}
}

func (g *tgen) typedOperandLeaf() js_ast.Expr {
	switch g.r.Intn(6) {
	case 0:
		return mk(&js_ast.ENumber{Value: 1})
	case 1:
		return mk(&js_ast.EBigInt{Value: "1"})
	case 2:
		return g.str()
	case 3:
		return mk(&js_ast.EBinary{Op: js_ast.BinOpMul, Left: g.ident(), Right: g.ident()})
	case 4:
		return mk(js_ast.ENullShared)
	default:
		return g.ident()
	}
}

// every operator whose result type KnownPrimitiveType derives from operand types
func (g *tgen) typeShape(d int) js_ast.Expr {
	switch g.r.Intn(8) {
	case 0, 1, 2:
		op := []js_ast.OpCode{js_ast.UnOpNeg, js_ast.UnOpCpl, js_ast.UnOpNeg, js_ast.UnOpCpl, js_ast.UnOpPos, js_ast.UnOpNot, js_ast.UnOpVoid}[g.r.Intn(7)]
		return mk(&js_ast.EUnary{Op: op, Value: g.typedOperand(d)})
	case 3, 4:
		op := []js_ast.OpCode{js_ast.BinOpAdd, js_ast.BinOpAdd, js_ast.BinOpAddAssign, js_ast.BinOpNullishCoalescing, js_ast.BinOpLogicalOr, js_ast.BinOpLogicalAnd, js_ast.BinOpComma, js_ast.BinOpAssign}[g.r.Intn(8)]
		return mk(&js_ast.EBinary{Op: op, Left: g.typedOperand(d), Right: g.typedOperand(d)})
	case 5:
		return mk(&js_ast.EIf{Test: g.ident(), Yes: g.typedOperand(d), No: g.typedOperand(d)})
	case 6:
		// clients of the type: strict equality that may be loosened, comparisons that may be removed
		op := []js_ast.OpCode{js_ast.BinOpStrictEq, js_ast.BinOpStrictNe, js_ast.BinOpLooseEq, js_ast.BinOpLt, js_ast.BinOpGe}[g.r.Intn(5)]
		return mk(&js_ast.EBinary{Op: op, Left: g.typeShape(0), Right: g.typedOperand(0)})
	default:
		return mk(&js_ast.EAnnotation{Value: g.typedOperand(d)})
	}
}

// literal arms on the nullish/falsy gap
func (g *tgen) gapLit() js_ast.Expr {
	switch g.r.Intn(12) {
	case 0, 1:
		return mk(js_ast.ENullShared)
	case 2, 3:
		return mk(js_ast.EUndefinedShared)
	case 4:
		return mk(&js_ast.ENumber{Value: 0})
	case 5:
		return mk(&js_ast.ENumber{Value: math.NaN()})
	case 6:
		return mk(&js_ast.EString{})
	case 7:
		return mk(&js_ast.EBoolean{Value: false})
	case 8:
		return mk(&js_ast.EBigInt{Value: "0"})
	case 9:
		return mk(&js_ast.EBoolean{Value: true})
	case 10:
		return mk(&js_ast.ENumber{Value: 1})
	default:
		return mk(&js_ast.EString{Value: utf16("a")})
	}
}

// (x || lit) op f(), (x && lit) op f(), (c ? lit : y) op f(), !!x op f(), ... for
// op in && || ??: SimplifyUnusedExpr may simplify the left operand as a boolean
// only for && and ||
func (g *tgen) logicalWithBooleanLeft(d int) js_ast.Expr {
	x := g.ident()
	if g.r.Chance(30) {
		x = g.probeCall()
	}
	var left js_ast.Expr
	switch g.r.Intn(9) {
	case 0, 1:
		left = mk(&js_ast.EBinary{Op: js_ast.BinOpLogicalOr, Left: x, Right: g.gapLit()})
	case 2, 3:
		left = mk(&js_ast.EBinary{Op: js_ast.BinOpLogicalAnd, Left: x, Right: g.gapLit()})
	case 4:
		left = mk(&js_ast.EIf{Test: g.ident(), Yes: g.gapLit(), No: x})
	case 5:
		left = mk(&js_ast.EIf{Test: g.ident(), Yes: x, No: g.gapLit()})
	case 6:
		left = mk(&js_ast.EUnary{Op: js_ast.UnOpNot, Value: mk(&js_ast.EUnary{Op: js_ast.UnOpNot, Value: x})})
	case 7:
		left = mk(&js_ast.EBinary{Op: []js_ast.OpCode{js_ast.BinOpStrictNe, js_ast.BinOpLooseEq}[g.r.Intn(2)],
			Left: mk(&js_ast.EBinary{Op: js_ast.BinOpUShr, Left: x, Right: g.ident()}), Right: mk(&js_ast.ENumber{Value: 0})})
	default:
		left = mk(&js_ast.EIf{Test: g.ident(), Yes: g.gapLit(), No: g.gapLit()})
	}
	if g.r.Chance(20) {
		// one more level: ((x || lit) && lit2)
		op := []js_ast.OpCode{js_ast.BinOpLogicalOr, js_ast.BinOpLogicalAnd}[g.r.Intn(2)]
		left = mk(&js_ast.EBinary{Op: op, Left: left, Right: g.gapLit()})
	}
	var right js_ast.Expr
	switch g.r.Intn(4) {
	case 0, 1:
		right = g.probeCall()
	case 2:
		right = mk(&js_ast.EIdentifier{Ref: ast.Ref{InnerIndex: uint32(1000 + g.r.Intn(3))}})
	default:
		right = g.expr(d - 1)
	}
	op := []js_ast.OpCode{js_ast.BinOpNullishCoalescing, js_ast.BinOpNullishCoalescing, js_ast.BinOpLogicalOr, js_ast.BinOpLogicalAnd}[g.r.Intn(4)]
	return mk(&js_ast.EBinary{Op: op, Left: left, Right: right})
}

func cloneList(es []js_ast.Expr) []js_ast.Expr {
	var out []js_ast.Expr
	for _, e := range es {
		out = append(out, clone(e))
	}
	return out
}

func clone(x js_ast.Expr) js_ast.Expr {
	switch e := x.Data.(type) {
	case *js_ast.EIdentifier:
		c := *e
		return mk(&c)
	case *js_ast.EDot:
		c := *e
		c.Target = clone(e.Target)
		return mk(&c)
	case *js_ast.EIndex:
		c := *e
		c.Target, c.Index = clone(e.Target), clone(e.Index)
		return mk(&c)
	case *js_ast.ECall:
		c := *e
		c.Target, c.Args = clone(e.Target), cloneList(e.Args)
		return mk(&c)
	case *js_ast.ENew:
		c := *e
		c.Target, c.Args = clone(e.Target), cloneList(e.Args)
		return mk(&c)
	case *js_ast.EUnary:
		c := *e
		c.Value = clone(e.Value)
		return mk(&c)
	case *js_ast.EBinary:
		c := *e
		c.Left, c.Right = clone(e.Left), clone(e.Right)
		return mk(&c)
	case *js_ast.EIf:
		c := *e
		c.Test, c.Yes, c.No = clone(e.Test), clone(e.Yes), clone(e.No)
		return mk(&c)
	case *js_ast.ETemplate:
		c := *e
		c.Parts = nil
		for _, p := range e.Parts {
			p.Value = clone(p.Value)
			c.Parts = append(c.Parts, p)
		}
		return mk(&c)
	case *js_ast.EArray:
		c := *e
		c.Items = cloneList(e.Items)
		return mk(&c)
	case *js_ast.ESpread:
		return mk(&js_ast.ESpread{Value: clone(e.Value)})
	case *js_ast.EObject:
		c := *e
		c.Properties = nil
		for _, p := range e.Properties {
			if p.Key.Data != nil {
				p.Key = clone(p.Key)
			}
			p.ValueOrNil = clone(p.ValueOrNil)
			c.Properties = append(c.Properties, p)
		}
		return mk(&c)
	case *js_ast.EAnnotation:
		c := *e
		c.Value = clone(e.Value)
		return mk(&c)
	case *js_ast.EInlinedEnum:
		c := *e
		c.Value = clone(e.Value)
		return mk(&c)
	case *js_ast.ENumber:
		c := *e
		return mk(&c)
	case *js_ast.EString:
		c := *e
		return mk(&c)
	case *js_ast.EBoolean:
		c := *e
		return mk(&c)
	case *js_ast.EBigInt:
		c := *e
		return mk(&c)
	}
	return x // shared immutable singletons and opaque literals
}

// flips the mark of the first typeof found (in evaluation order)
func flipTypeofMark(x js_ast.Expr) bool {
	switch e := x.Data.(type) {
	case *js_ast.EUnary:
		if e.Op == js_ast.UnOpTypeof {
			e.WasOriginallyTypeofIdentifier = !e.WasOriginallyTypeofIdentifier
			return true
		}
		return flipTypeofMark(e.Value)
	case *js_ast.EBinary:
		return flipTypeofMark(e.Left) || flipTypeofMark(e.Right)
	case *js_ast.EIf:
		return flipTypeofMark(e.Test) || flipTypeofMark(e.Yes) || flipTypeofMark(e.No)
	case *js_ast.EDot:
		return flipTypeofMark(e.Target)
	case *js_ast.EIndex:
		return flipTypeofMark(e.Target) || flipTypeofMark(e.Index)
	case *js_ast.ECall:
		if flipTypeofMark(e.Target) {
			return true
		}
		for _, a := range e.Args {
			if flipTypeofMark(a) {
				return true
			}
		}
	}
	return false
}

func nontrivial(x js_ast.Expr) bool {
	switch x.Data.(type) {
	case *js_ast.EBinary, *js_ast.EUnary, *js_ast.EIf, *js_ast.ECall, *js_ast.EArray, *js_ast.EObject, *js_ast.ETemplate, *js_ast.EDot, *js_ast.EIndex, *js_ast.EAnnotation:
		return true
	}
	return false
}

func extraCases(r *Rng, n int, tier string, cf *CoqFile, st *Stats) {
	g := &tgen{r: r}
	ctx := js_ast.MakeHelperContext(func(ref ast.Ref) bool { return ref.InnerIndex >= 1000 })
	nt := n / 4
	if tier == "thorough" {
		nt = n / 8
	}

	// --- KnownPrimitiveType, ToBooleanWithSideEffects, ToNullOrUndefinedWithSideEffects,
	//     MaybeSimplifyNot, ExprCanBeRemovedIfUnused on the same trees
	var kt, tb, tn, sn, cr []string
	for i := 0; i < nt; i++ {
		e := g.expr(r.Range(1, 3))
		if i%2 == 0 {
			e = g.typeShape(2) // every operator x operand type class
		}
		s := coqExpr(e)
		kt = append(kt, fmt.Sprintf("(%s, %d)", s, js_ast.KnownPrimitiveType(e.Data)))
		b, se, ok := js_ast.ToBooleanWithSideEffects(e.Data)
		tb = append(tb, fmt.Sprintf("(%s, %s, %s, %s)", s, CBool(b), CBool(se == js_ast.NoSideEffects), CBool(ok)))
		b, se, ok = js_ast.ToNullOrUndefinedWithSideEffects(e.Data)
		tn = append(tn, fmt.Sprintf("(%s, %s, %s, %s)", s, CBool(b), CBool(se == js_ast.NoSideEffects), CBool(ok)))
		cr = append(cr, fmt.Sprintf("(%s, %s)", s, CBool(ctx.ExprCanBeRemovedIfUnused(e))))
		if res, ok := js_ast.MaybeSimplifyNot(e); ok {
			sn = append(sn, fmt.Sprintf("(%s, Some %s)", s, coqExpr(res)))
		} else {
			sn = append(sn, fmt.Sprintf("(%s, None)", s))
		}
		st.Note("tree-helpers", s, nontrivial(e))
	}
	cf.AddCases("kt_cases", "expr * Z", "check_known_type", kt)
	cf.AddCases("tb_cases", "expr * bool * bool * bool", "check_to_boolean", tb)
	cf.AddCases("tn_cases", "expr * bool * bool * bool", "check_to_nullish", tn)
	cf.AddCases("cr_cases", "expr * bool", "check_can_be_removed", cr)
	cf.AddCases("sn_cases", "expr * option expr", "check_simplify_not", sn)

	// --- CheckEqualityIfNoSideEffects / ValuesLookTheSame
	var ce []string
	for i := 0; i < nt; i++ {
		var a, b js_ast.Expr
		switch r.Intn(4) {
		case 0:
			a, b = g.lit(), g.lit()
		case 1:
			a = g.expr(2)
			if r.Chance(30) {
				a = mk(&js_ast.EUnary{Op: js_ast.UnOpTypeof, Value: g.ident(), WasOriginallyTypeofIdentifier: r.Bool()})
				if r.Bool() {
					a = mk(&js_ast.EIf{Test: g.ident(), Yes: a, No: g.lit()})
				}
			}
			b = clone(a)
			if r.Chance(35) {
				flipTypeofMark(b) // same shape, different typeof-identifier mark
			}
		case 2:
			a, b = g.expr(2), g.expr(2)
		default:
			a, b = g.leaf(), g.leaf()
		}
		strict := r.Bool()
		kind := js_ast.LooseEquality
		if strict {
			kind = js_ast.StrictEquality
		}
		eq, ok := js_ast.CheckEqualityIfNoSideEffects(a.Data, b.Data, kind)
		same := js_ast.ValuesLookTheSame(a.Data, b.Data)
		ce = append(ce, fmt.Sprintf("(%s, %s, %s, %s, %s, %s)", coqExpr(a), coqExpr(b), CBool(strict), CBool(eq), CBool(ok), CBool(same)))
		st.Note("tree-equality", coqExpr(a)+coqExpr(b), ok || same)
	}
	cf.AddCases("ce_cases", "expr * expr * bool * bool * bool * bool", "check_equality_cases", ce)

	// --- JoinWithLeftAssociativeOp
	var jl []string
	for i := 0; i < nt/2; i++ {
		op := []js_ast.OpCode{js_ast.BinOpLogicalAnd, js_ast.BinOpLogicalOr, js_ast.BinOpNullishCoalescing}[r.Intn(3)]
		a, b := g.expr(2), g.expr(3)
		if r.Chance(40) {
			b = mk(&js_ast.EBinary{Op: op, Left: g.expr(2), Right: mk(&js_ast.EBinary{Op: op, Left: g.expr(1), Right: g.expr(1)})})
		}
		if r.Chance(30) {
			a = mk(&js_ast.EBinary{Op: js_ast.BinOpComma, Left: g.expr(1), Right: a})
		}
		sa, sb2 := coqExpr(a), coqExpr(b)
		res := js_ast.JoinWithLeftAssociativeOp(op, a, b)
		jl = append(jl, fmt.Sprintf("(%s, %s, %s, %s)", binopName[op], sa, sb2, coqExpr(res)))
		st.Note("tree-join", sa+sb2, true)
	}
	cf.AddCases("jl_cases", "binop * expr * expr * expr", "check_join_left", jl)

	// --- SimplifyBooleanExpr
	var sbn []string
	for i := 0; i < nt; i++ {
		e := g.expr(r.Range(1, 3))
		s := coqExpr(e)
		res := ctx.SimplifyBooleanExpr(e)
		sbn = append(sbn, fmt.Sprintf("(%s, %s)", s, coqExpr(res)))
		st.Note("tree-simplify-boolean", s, s != coqExpr(res))
	}
	cf.AddCases("sb_cases", "expr * expr", "check_simplify_boolean", sbn)

	// --- SimplifyUnusedExpr
	var su []string
	for i := 0; i < nt; i++ {
		e := g.expr(r.Range(1, 3))
		if i%3 == 0 {
			e = g.logicalWithBooleanLeft(2)
			switch r.Intn(5) {
			case 0:
				e = mk(&js_ast.EBinary{Op: js_ast.BinOpComma, Left: e, Right: g.logicalWithBooleanLeft(1)})
			case 1:
				e = mk(&js_ast.EIf{Test: g.ident(), Yes: e, No: g.lit()})
			case 2:
				e = mk(&js_ast.EUnary{Op: js_ast.UnOpVoid, Value: e})
			}
		}
		if i%7 == 1 || i%7 == 2 {
			// optional-chain insertion (incl. parenthesized chains: finding J) and
			// pure calls inside optional chains (finding K)
			if i%7 == 1 {
				e = g.guardedChain()
			} else {
				e = g.pureChainCall()
			}
			switch r.Intn(6) {
			case 0:
				e = mk(&js_ast.EBinary{Op: js_ast.BinOpComma, Left: g.probeCall(), Right: e})
			case 1:
				e = mk(&js_ast.EUnary{Op: js_ast.UnOpVoid, Value: e})
			case 2:
				e = mk(&js_ast.EIf{Test: g.ident(), Yes: e, No: g.lit()})
			}
		}
		s := coqExpr(e)
		noOC := r.Chance(25)
		var unsupported compat.JSFeature
		if noOC {
			unsupported = compat.OptionalChain
		}
		res := ctx.SimplifyUnusedExpr(e, unsupported)
		su = append(su, fmt.Sprintf("(%s, %s, %s)", s, CBool(noOC), coqOptExpr(res)))
		st.Note("tree-simplify-unused", s, res.Data == nil || s != coqExpr(res))
	}
	cf.AddCases("su_cases", "expr * bool * option expr", "check_simplify_unused", su)

	// --- MangleIfExpr
	var mi []string
	for i := 0; i < nt; i++ {
		test, yes, no := g.expr(2), g.expr(2), g.expr(2)
		switch r.Intn(15) {
		case 11, 12:
			// "a != null ? a.b.c : undefined" => "a?.b.c" (incl. parenthesized chains)
			id := g.ident()
			ne := r.Bool()
			test = g.nullCheck(id, ne)
			nonNull, null := g.chainOver(clone(id), 3), mk(js_ast.EUndefinedShared)
			if r.Chance(10) {
				null = g.lit()
			}
			if ne {
				yes, no = nonNull, null
			} else {
				yes, no = null, nonNull
			}
		case 13:
			// "a != null ? a : b" => "a ?? b"
			id := g.ident()
			ne := r.Bool()
			test = g.nullCheck(id, ne)
			if ne {
				yes, no = clone(id), g.expr(1)
			} else {
				yes, no = g.expr(1), clone(id)
			}
		case 0:
			no = clone(yes)
		case 1:
			yes = mk(&js_ast.EIf{Test: g.expr(1), Yes: g.expr(1), No: clone(no)})
		case 2:
			no = mk(&js_ast.EIf{Test: g.expr(1), Yes: clone(yes), No: g.expr(1)})
		case 3:
			no = mk(&js_ast.EBinary{Op: js_ast.BinOpComma, Left: g.expr(1), Right: clone(yes)})
		case 4:
			yes = mk(&js_ast.EBinary{Op: js_ast.BinOpComma, Left: g.expr(1), Right: clone(no)})
		case 5:
			yes = mk(&js_ast.EBinary{Op: js_ast.BinOpLogicalOr, Left: g.expr(1), Right: clone(no)})
		case 6:
			no = mk(&js_ast.EBinary{Op: js_ast.BinOpLogicalAnd, Left: g.expr(1), Right: clone(yes)})
		case 7:
			// calls with a common target
			t := g.ident()
			tail := g.expr(1)
			a0, b0 := g.expr(1), g.expr(1)
			if r.Chance(25) {
				a0, b0 = mk(&js_ast.ESpread{Value: a0}), mk(&js_ast.ESpread{Value: b0})
			} else if r.Chance(10) {
				a0 = mk(&js_ast.ESpread{Value: a0})
			}
			yes = mk(&js_ast.ECall{Target: t, Args: []js_ast.Expr{a0, tail}})
			no = mk(&js_ast.ECall{Target: clone(t), Args: []js_ast.Expr{b0, clone(tail)}})
			if r.Chance(60) {
				test = g.ident()
			}
		case 8:
			id := g.ident()
			test = id
			if r.Bool() {
				yes = clone(id)
			} else {
				no = clone(id)
			}
		case 9:
			yes, no = mk(&js_ast.EBoolean{Value: r.Bool()}), mk(&js_ast.EBoolean{Value: r.Bool()})
		case 10:
			test = mk(&js_ast.EUnary{Op: js_ast.UnOpNot, Value: test})
		}
		var unsupported compat.JSFeature
		noN, noOC := r.Chance(20), r.Chance(20)
		if noN {
			unsupported |= compat.NullishCoalescing
		}
		if noOC {
			unsupported |= compat.OptionalChain
		}
		st1, sy, sn2 := coqExpr(test), coqExpr(yes), coqExpr(no)
		res := ctx.MangleIfExpr(logger.Loc{}, &js_ast.EIf{Test: test, Yes: yes, No: no}, unsupported)
		mi = append(mi, fmt.Sprintf("(%s, %s, %s, %s, %s, %s)", st1, sy, sn2, CBool(noN), CBool(noOC), coqExpr(res)))
		_, isIf := res.Data.(*js_ast.EIf)
		st.Note("tree-mangle-if", st1+sy+sn2, !isIf)
	}
	cf.AddCases("mi_cases", "expr * expr * expr * bool * bool * expr", "check_mangle_if", mi)

	numericCases(r, n, tier, cf, st)
}
