package main

// C09: incremental rebuilds and watch mode are equivalent to clean builds.
//
// Streams (all randomness from the one seed):
//   fscache  cache.FSCache.ReadFile driven through a scripted fs.FS with random
//            read/edit/mod-key histories            -> check_fscache (Cache.v)
//   si       cache.SourceIndexCache.Get             -> check_si
//   opteq    cache.JSCache/CSSCache/JSONCache with one option field toggled at a
//            time: observed hit/miss vs the T3 inventory (check_opteq) and the
//            property's predicate "cached AST prints like a direct parse"
//   watchfs  a real fs.RealFS with watch data on a real directory: recorded
//            watch states vs Watch.v (check_watch), predicates after an edit
//   glue     real-directory edit histories: ctx.Rebuild() vs fresh api.Build
//            after every step, and the verif watch accessors vs "fresh result
//            changed"
import (
	"fmt"
	"os"
	"path/filepath"
	"strconv"
	"time"

	. "github.com/evanw/esbuild/verifharness/hlib"
)

func main() { Main("c09", runC09) }

// Wall-clock budget of one harness run: after it the streams stop generating
// new cases/histories, finish the one in progress and write their cases and
// stats normally (how many ran is recorded in the stats). VERIF_C09_BUDGET_S
// overrides the default (quick 240 s, thorough 420 s).
var runStart = time.Now()
var runBudget = 240 * time.Second

// fraction f of the budget is used up
func budgetSpent(f float64) bool {
	return time.Since(runStart) > time.Duration(float64(runBudget)*f)
}

func runC09(seed uint64, n int, tier string, outDir string) []*Stats {
	runStart = time.Now()
	if tier == "thorough" {
		runBudget = 420 * time.Second
	}
	if s := os.Getenv("VERIF_C09_BUDGET_S"); s != "" {
		if v, err := strconv.Atoi(s); err == nil && v > 0 {
			runBudget = time.Duration(v) * time.Second
		}
	}
	tmp, err := os.MkdirTemp("", "verif-c09-")
	if err != nil {
		panic(err)
	}
	defer os.RemoveAll(tmp)

	cf := NewCoqFile("From V Require Import Common.Base C09.Cache C09.Harness.\nRequire Import Coq.Strings.String.\nOpen Scope string_scope.\nOpen Scope Z_scope.")
	var all []*Stats

	all = append(all, streamFSCache(seed, n, cf))
	all = append(all, streamSI(seed, n, cf))
	all = append(all, streamJSONRead(seed, n, cf))
	all = append(all, streamOptEq(seed, n, cf))
	all = append(all, streamWatchFS(seed, n, tmp, cf))
	all = append(all, extraStreams(seed, n, tier, tmp, cf)...)

	if err := os.WriteFile(filepath.Join(outDir, "c09_cases.v"), []byte(cf.String()), 0o644); err != nil {
		panic(err)
	}
	return all
}

func must(err error) {
	if err != nil {
		panic(fmt.Sprintf("c09 harness: %v", err))
	}
}
