package main

// opteq stream: the option comparison of the real AST caches, one flattened
// option field toggled at a time.
//   * correspondence: "was the second lookup a hit?" is compared in Coq with
//     what translator T3's inventory predicts (check_opteq), and the set of
//     toggled fields must cover the inventory (check_opteq_complete);
//   * the property's predicate: the AST the cache returns must print like a
//     direct parse with the second options; a difference is a stale AST.

import (
	"fmt"
	"regexp"
	"strings"

	"github.com/evanw/esbuild/internal/ast"
	"github.com/evanw/esbuild/internal/cache"
	"github.com/evanw/esbuild/internal/compat"
	"github.com/evanw/esbuild/internal/config"
	"github.com/evanw/esbuild/internal/css_ast"
	"github.com/evanw/esbuild/internal/css_parser"
	"github.com/evanw/esbuild/internal/css_printer"
	"github.com/evanw/esbuild/internal/js_ast"
	"github.com/evanw/esbuild/internal/js_lexer"
	"github.com/evanw/esbuild/internal/js_parser"
	"github.com/evanw/esbuild/internal/js_printer"
	"github.com/evanw/esbuild/internal/logger"
	"github.com/evanw/esbuild/internal/renamer"
	. "github.com/evanw/esbuild/verifharness/hlib"
)

func mkSource(path, contents string) logger.Source {
	return logger.Source{Index: 0, KeyPath: logger.Path{Text: path, Namespace: "file"}, PrettyPaths: logger.PrettyPaths{Abs: path, Rel: path}, Contents: contents, IdentifierName: "x"}
}

func printJS(tree js_ast.AST, ok bool, msgs []logger.Msg) string {
	var sb strings.Builder
	for _, m := range msgs {
		fmt.Fprintf(&sb, "[%d] %s\n", m.Kind, m.Data.Text)
	}
	if !ok {
		return sb.String() + "<parse failed>"
	}
	symbols := ast.NewSymbolMap(1)
	symbols.SymbolsForSource[0] = tree.Symbols
	r := renamer.NewNoOpRenamer(symbols)
	func() {
		defer func() {
			if e := recover(); e != nil {
				fmt.Fprintf(&sb, "<printer panic %v>", e)
			}
		}()
		sb.Write(js_printer.Print(tree, symbols, r, js_printer.Options{}).JS)
	}()
	// import records are part of the AST the bundler consumes
	for _, rec := range tree.ImportRecords {
		fmt.Fprintf(&sb, "\n//import %q kind=%d flags=%d", rec.Path.Text, rec.Kind, rec.Flags)
	}
	return sb.String()
}

type jsToggle struct {
	name string
	base func(o *config.Options) // optional extra base setup
	set  func(o *config.Options)
}

func baseJSConfig() config.Options {
	d := config.ProcessDefines(nil)
	inj := mkSource("/inj.js", "export let a = 1")
	inj.Index = 7
	return config.Options{
		Defines:             &d,
		OmitRuntimeForTests: true,
		JSX:                 config.JSXOptions{Parse: true, Factory: config.DefineExpr{Parts: []string{"h"}}, Fragment: config.DefineExpr{Parts: []string{"F"}}},
		TS:                  config.TSOptions{Parse: true},
		InjectedFiles:       []config.InjectedFile{{Source: inj, Exports: []config.InjectableExport{{Alias: "a", Loc: logger.Loc{Start: 11}}}}},
		TSAlwaysStrict:      &config.TSAlwaysStrict{Name: "strict", Source: mkSource("/tsconfig.json", "{}"), Value: true},
		MangleProps:         regexp.MustCompile("_$"),
		ReserveProps:        regexp.MustCompile("^__"),
		DropLabels:          []string{"DEV"},
		Mode:                config.ModeBundle,
		TreeShaking:         true,
	}
}

func jsToggles() []jsToggle {
	src2 := mkSource("/pkg.json", "{\"type\":\"module\"}")
	return []jsToggle{
		{"injectedFiles[].Exports[].Alias", nil, func(o *config.Options) {
			f := o.InjectedFiles[0]
			f.Exports = []config.InjectableExport{{Alias: "b", Loc: f.Exports[0].Loc}}
			o.InjectedFiles = []config.InjectedFile{f}
		}},
		{"injectedFiles[].Exports[].Loc", nil, func(o *config.Options) {
			f := o.InjectedFiles[0]
			f.Exports = []config.InjectableExport{{Alias: "a", Loc: logger.Loc{Start: 12}}}
			o.InjectedFiles = []config.InjectedFile{f}
		}},
		{"injectedFiles[].DefineName", nil, func(o *config.Options) {
			f := o.InjectedFiles[0]
			f.DefineName = "process.env.X"
			o.InjectedFiles = []config.InjectedFile{f}
		}},
		{"injectedFiles[].Source", nil, func(o *config.Options) {
			f := o.InjectedFiles[0]
			f.Source.Contents = "export let a = 2"
			o.InjectedFiles = []config.InjectedFile{f}
		}},
		{"injectedFiles[].IsCopyLoader", nil, func(o *config.Options) {
			f := o.InjectedFiles[0]
			f.IsCopyLoader = true
			o.InjectedFiles = []config.InjectedFile{f}
		}},
		{"jsx.Factory.Constant", nil, func(o *config.Options) { o.JSX.Factory.Constant = &js_ast.ENumber{Value: 1} }},
		{"jsx.Factory.Parts", nil, func(o *config.Options) { o.JSX.Factory.Parts = []string{"React", "createElement"} }},
		{"jsx.Factory.InjectedDefineIndex", nil, func(o *config.Options) { o.JSX.Factory.InjectedDefineIndex = ast.MakeIndex32(0) }},
		{"jsx.Fragment.Constant", func(o *config.Options) {
			o.JSX.Fragment = config.DefineExpr{Constant: &js_ast.EString{Value: []uint16{'f'}}}
		},
			func(o *config.Options) {
				o.JSX.Fragment = config.DefineExpr{Constant: &js_ast.EString{Value: []uint16{'g'}}}
			}},
		{"jsx.Fragment.Parts", nil, func(o *config.Options) { o.JSX.Fragment.Parts = []string{"React", "Fragment"} }},
		{"jsx.Fragment.InjectedDefineIndex", nil, func(o *config.Options) { o.JSX.Fragment.InjectedDefineIndex = ast.MakeIndex32(0) }},
		{"jsx.Parse", nil, func(o *config.Options) { o.JSX.Parse = false }},
		{"jsx.Preserve", nil, func(o *config.Options) { o.JSX.Preserve = true }},
		{"jsx.AutomaticRuntime", nil, func(o *config.Options) { o.JSX.AutomaticRuntime = true }},
		{"jsx.ImportSource", func(o *config.Options) { o.JSX.AutomaticRuntime = true }, func(o *config.Options) { o.JSX.ImportSource = "preact" }},
		{"jsx.Development", func(o *config.Options) { o.JSX.AutomaticRuntime = true }, func(o *config.Options) { o.JSX.Development = true }},
		{"jsx.SideEffects", nil, func(o *config.Options) { o.JSX.SideEffects = true }},
		{"tsAlwaysStrict.Name", nil, func(o *config.Options) { c := *o.TSAlwaysStrict; c.Name = "alwaysStrict"; o.TSAlwaysStrict = &c }},
		{"tsAlwaysStrict.Source", nil, func(o *config.Options) {
			c := *o.TSAlwaysStrict
			c.Source = mkSource("/other/tsconfig.json", "{}")
			o.TSAlwaysStrict = &c
		}},
		{"tsAlwaysStrict.Range", nil, func(o *config.Options) {
			c := *o.TSAlwaysStrict
			c.Range = logger.Range{Loc: logger.Loc{Start: 1}, Len: 1}
			o.TSAlwaysStrict = &c
		}},
		{"tsAlwaysStrict.Value", nil, func(o *config.Options) { c := *o.TSAlwaysStrict; c.Value = false; o.TSAlwaysStrict = &c }},
		// presence (nil <-> non-nil) of the pointer-typed and slice-typed fields, both directions
		{"tsAlwaysStrict.Value", nil, func(o *config.Options) { o.TSAlwaysStrict = nil }},
		{"tsAlwaysStrict.Value", func(o *config.Options) { o.TSAlwaysStrict = nil },
			func(o *config.Options) {
				o.TSAlwaysStrict = &config.TSAlwaysStrict{Name: "strict", Source: mkSource("/tsconfig.json", "{}"), Value: true}
			}},
		{"tsAlwaysStrict.Name", func(o *config.Options) { o.TSAlwaysStrict = nil },
			func(o *config.Options) {
				o.TSAlwaysStrict = &config.TSAlwaysStrict{Name: "alwaysStrict", Source: mkSource("/tsconfig.json", "{}"), Value: false}
			}},
		{"mangleProps", nil, func(o *config.Options) { o.MangleProps = nil }},
		{"mangleProps", func(o *config.Options) { o.MangleProps = nil }, func(o *config.Options) { o.MangleProps = regexp.MustCompile("_$") }},
		{"reserveProps", nil, func(o *config.Options) { o.ReserveProps = nil }},
		{"reserveProps", func(o *config.Options) { o.ReserveProps = nil }, func(o *config.Options) { o.ReserveProps = regexp.MustCompile("^__") }},
		{"dropLabels", nil, func(o *config.Options) { o.DropLabels = nil }},
		{"dropLabels", func(o *config.Options) { o.DropLabels = nil }, func(o *config.Options) { o.DropLabels = []string{"DEV"} }},
		{"injectedFiles[].Source", nil, func(o *config.Options) { o.InjectedFiles = nil }},
		{"injectedFiles[].Exports[].Alias", nil, func(o *config.Options) {
			f := o.InjectedFiles[0]
			f.Exports = nil
			o.InjectedFiles = []config.InjectedFile{f}
		}},
		{"jsx.Fragment.Constant", nil, func(o *config.Options) {
			o.JSX.Fragment = config.DefineExpr{Constant: &js_ast.EString{Value: []uint16{'g'}}}
		}},
		{"jsx.Factory.Parts", nil, func(o *config.Options) { o.JSX.Factory.Parts = nil }},
		{"mangleProps", nil, func(o *config.Options) { o.MangleProps = regexp.MustCompile("^_") }},
		{"reserveProps", nil, func(o *config.Options) { o.ReserveProps = regexp.MustCompile("^keep") }},
		{"dropLabels", nil, func(o *config.Options) { o.DropLabels = []string{"TEST"} }},
		{"defines", nil, func(o *config.Options) { d := config.ProcessDefines(nil); o.Defines = &d }},
		{"originalTargetEnv", nil, func(o *config.Options) { o.OriginalTargetEnv = "\"es2015\"" }},
		{"moduleTypeData", nil, func(o *config.Options) {
			o.ModuleTypeData = js_ast.ModuleTypeData{Type: js_ast.ModuleESM_PackageJSON, Source: &src2}
		}},
		{"unsupportedJSFeatures", nil, func(o *config.Options) {
			o.UnsupportedJSFeatures = compat.ClassField | compat.NullishCoalescing | compat.OptionalChain
		}},
		{"unsupportedJSFeatureOverrides", nil, func(o *config.Options) { o.UnsupportedJSFeatureOverrides = compat.ClassField }},
		{"unsupportedJSFeatureOverridesMask", nil, func(o *config.Options) { o.UnsupportedJSFeatureOverridesMask = compat.ClassField }},
		{"ts.Config.ExperimentalDecorators", nil, func(o *config.Options) { o.TS.Config.ExperimentalDecorators = config.True }},
		{"ts.Config.ImportsNotUsedAsValues", nil, func(o *config.Options) { o.TS.Config.ImportsNotUsedAsValues = config.TSImportsNotUsedAsValues_Preserve }},
		{"ts.Config.PreserveValueImports", nil, func(o *config.Options) { o.TS.Config.PreserveValueImports = config.True }},
		{"ts.Config.Target", nil, func(o *config.Options) { o.TS.Config.Target = config.TSTargetBelowES2022 }},
		{"ts.Config.UseDefineForClassFields", nil, func(o *config.Options) { o.TS.Config.UseDefineForClassFields = config.False }},
		{"ts.Config.VerbatimModuleSyntax", nil, func(o *config.Options) { o.TS.Config.VerbatimModuleSyntax = config.True }},
		{"ts.Parse", nil, func(o *config.Options) { o.TS.Parse = false }},
		{"ts.NoAmbiguousLessThan", nil, func(o *config.Options) { o.TS.NoAmbiguousLessThan = true }},
		{"mode", nil, func(o *config.Options) { o.Mode = config.ModePassThrough }},
		{"platform", nil, func(o *config.Options) { o.Platform = config.PlatformNode }},
		{"outputFormat", nil, func(o *config.Options) { o.OutputFormat = config.FormatCommonJS }},
		{"logPathStyle", nil, func(o *config.Options) { o.LogPathStyle = logger.AbsPath }},
		{"codePathStyle", nil, func(o *config.Options) { o.CodePathStyle = logger.AbsPath }},
		{"asciiOnly", nil, func(o *config.Options) { o.ASCIIOnly = true }},
		{"keepNames", nil, func(o *config.Options) { o.KeepNames = true }},
		{"minifySyntax", nil, func(o *config.Options) { o.MinifySyntax = true }},
		{"minifyIdentifiers", nil, func(o *config.Options) { o.MinifyIdentifiers = true }},
		{"minifyWhitespace", nil, func(o *config.Options) { o.MinifyWhitespace = true }},
		{"omitRuntimeForTests", nil, func(o *config.Options) { o.OmitRuntimeForTests = false }},
		{"omitJSXRuntimeForTests", nil, func(o *config.Options) { o.OmitJSXRuntimeForTests = true }},
		{"ignoreDCEAnnotations", nil, func(o *config.Options) { o.IgnoreDCEAnnotations = true }},
		{"treeShaking", nil, func(o *config.Options) { o.TreeShaking = false }},
		{"dropDebugger", nil, func(o *config.Options) { o.DropDebugger = true }},
		{"mangleQuoted", nil, func(o *config.Options) { o.MangleQuoted = true }},
	}
}

var jsCorpus = []string{
	"export let x = 1\n",
	"let k = 1; export const el = <div id=\"a\" key=\"k\">{k}<></><span/></div>;\n",
	"<div {...p} key=\"1\"/>; <b/>;\n",
	"export class C { x: number; y = 1; static s = 2; declare z: string; #p_ = 1; foo_ = 2 }\nexport enum E { A = 1, B }\n",
	"import {T, v} from './t'; import unused from './u'; export const r = v ?? a?.b; DEV: console.log(1); debugger; if (true) f(); o.prop_ = o['quoted_']; export type Q = T\n",
	"export function f() { return /* @__PURE__ */ g() } /* @__PURE__ */ g(); let s = 'π'; this; typeof require; import.meta.url\n",
	"console.log(typeof this, 010); var o_ = { a_: 1 }; delete o_.a_;\n", // a sloppy-mode script: strictness is visible
}

func streamOptEq(seed uint64, n int, cf *CoqFile) *Stats {
	st := NewStats("c09/opteq", seed)
	var items []string
	var names []string
	for ti, tg := range jsToggles() {
		names = append(names, tg.name)
		// an index without a matching injected define is not a state the API can
		// produce (the parser would index out of range): only observe hit/miss
		hitOnly := strings.HasSuffix(tg.name, ".InjectedDefineIndex")
		for ci, code := range jsCorpus {
			if hitOnly && ci > 0 {
				break
			}
			o1 := baseJSConfig()
			if tg.base != nil {
				tg.base(&o1)
			}
			o2 := baseJSConfig()
			if tg.base != nil {
				tg.base(&o2)
			}
			tg.set(&o2)
			src := mkSource("/src/x.tsx", code)
			caches := cache.MakeCacheSet()
			log1 := logger.NewDeferLog(logger.DeferLogAll, nil)
			ast1, _ := caches.JSCache.Parse(log1, src, js_parser.OptionsFromConfig(&o1))
			log1.Done()
			log2 := logger.NewDeferLog(logger.DeferLogAll, nil)
			ast2, ok2 := caches.JSCache.Parse(log2, src, js_parser.OptionsFromConfig(&o2))
			msgs2 := log2.Done()
			hit := len(ast1.Parts) > 0 && len(ast2.Parts) > 0 && &ast1.Parts[0] == &ast2.Parts[0]
			if ci == 0 {
				items = append(items, fmt.Sprintf("(0, %q, %s)", tg.name, CBool(hit)))
			}
			if hitOnly {
				st.Note("js-field:"+tg.name, fmt.Sprintf("%d/%d", ti, ci), !hit)
				continue
			}
			// the property's predicate: the cached answer prints like a direct parse
			logD := logger.NewDeferLog(logger.DeferLogAll, nil)
			astD, okD := js_parser.Parse(logD, src, js_parser.OptionsFromConfig(&o2))
			msgsD := logD.Done()
			got, want := printJS(ast2, ok2, msgs2), printJS(astD, okD, msgsD)
			st.Note("js-field:"+tg.name, fmt.Sprintf("%d/%d", ti, ci), !hit || got != want)
			if got != want {
				what := "JSCache.Parse returns a stale AST: Options.Equal ignores an option field that changes the parse"
				if strings.HasPrefix(tg.name, "jsx.") {
					what = "known-C-jscache-returns-stale-ast-for-uncompared-jsx-field"
				}
				st.Fail(what, map[string]interface{}{"scenario": "jscache-option-field-toggle", "field": tg.name, "toggle_number": ti, "source": code, "cache_hit": hit}, got, want)
				break // one failing source per field is enough
			}
		}
	}
	cf.AddCases("opteq_js", "Z * string * bool", "check_opteq", items)
	cf.AddCases("opteq_js_complete", "Z * list string", "check_opteq_complete", []string{fmt.Sprintf("(0, %s)", coqStrList(names))})

	// CSS
	items = nil
	names = nil
	cssBase := func() (config.Loader, config.Options) {
		return config.LoaderCSS, config.Options{CSSPrefixData: map[css_ast.D]compat.CSSPrefix{css_ast.DAppearance: compat.WebkitPrefix}}
	}
	type cssToggle struct {
		name string
		set  func(l *config.Loader, o *config.Options)
	}
	cssToggles := []cssToggle{
		{"cssPrefixData", func(l *config.Loader, o *config.Options) {
			o.CSSPrefixData = map[css_ast.D]compat.CSSPrefix{css_ast.DAppearance: compat.WebkitPrefix | compat.MozPrefix}
		}},
		{"originalTargetEnv", func(l *config.Loader, o *config.Options) { o.OriginalTargetEnv = "\"chrome50\"" }},
		{"unsupportedCSSFeatures", func(l *config.Loader, o *config.Options) { o.UnsupportedCSSFeatures = compat.Nesting | compat.HexRGBA }},
		{"minifySyntax", func(l *config.Loader, o *config.Options) { o.MinifySyntax = true }},
		{"minifyWhitespace", func(l *config.Loader, o *config.Options) { o.MinifyWhitespace = true }},
		{"minifyIdentifiers", func(l *config.Loader, o *config.Options) { o.MinifyIdentifiers = true }},
		{"symbolMode", func(l *config.Loader, o *config.Options) { *l = config.LoaderLocalCSS }},
	}
	cssCorpus := []string{
		".a { appearance: none; color: #ff000080; margin: 0px 0px 0px 0px }\n.b { .c & { color: red } }\n@keyframes k { from { top: 0 } }\n.d { animation: k 1s }\n",
	}
	printCSS := func(tree css_ast.AST, msgs []logger.Msg) string {
		var sb strings.Builder
		for _, m := range msgs {
			fmt.Fprintf(&sb, "[%d] %s\n", m.Kind, m.Data.Text)
		}
		symbols := ast.NewSymbolMap(1)
		symbols.SymbolsForSource[0] = tree.Symbols
		sb.Write(css_printer.Print(tree, symbols, css_printer.Options{}).CSS)
		return sb.String()
	}
	for _, tg := range cssToggles {
		names = append(names, tg.name)
		for _, code := range cssCorpus {
			l1, o1 := cssBase()
			l2, o2 := cssBase()
			tg.set(&l2, &o2)
			src := mkSource("/src/x.css", code)
			caches := cache.MakeCacheSet()
			log1 := logger.NewDeferLog(logger.DeferLogAll, nil)
			ast1 := caches.CSSCache.Parse(log1, src, css_parser.OptionsFromConfig(l1, &o1))
			log1.Done()
			log2 := logger.NewDeferLog(logger.DeferLogAll, nil)
			ast2 := caches.CSSCache.Parse(log2, src, css_parser.OptionsFromConfig(l2, &o2))
			msgs2 := log2.Done()
			hit := len(ast1.Rules) > 0 && len(ast2.Rules) > 0 && &ast1.Rules[0] == &ast2.Rules[0]
			items = append(items, fmt.Sprintf("(1, %q, %s)", tg.name, CBool(hit)))
			logD := logger.NewDeferLog(logger.DeferLogAll, nil)
			astD := css_parser.Parse(logD, src, css_parser.OptionsFromConfig(l2, &o2))
			msgsD := logD.Done()
			got, want := printCSS(ast2, msgs2), printCSS(astD, msgsD)
			st.Note("css-field:"+tg.name, "0", !hit || got != want)
			if got != want {
				st.Fail("CSSCache.Parse returns a stale AST: Options.Equal ignores an option field that changes the parse",
					map[string]interface{}{"scenario": "csscache-option-field-toggle", "field": tg.name, "source": code, "cache_hit": hit}, got, want)
			}
		}
	}
	cf.AddCases("opteq_css", "Z * string * bool", "check_opteq", items)
	cf.AddCases("opteq_css_complete", "Z * list string", "check_opteq_complete", []string{fmt.Sprintf("(1, %s)", coqStrList(names))})

	// JSON
	items = nil
	names = nil
	type jsonToggle struct {
		name string
		set  func(o *js_parser.JSONOptions)
	}
	jsonToggles := []jsonToggle{
		{"UnsupportedJSFeatures", func(o *js_parser.JSONOptions) { o.UnsupportedJSFeatures = compat.ObjectExtensions }},
		{"Flavor", func(o *js_parser.JSONOptions) { o.Flavor = js_lexer.TSConfigJSON }},
		{"ErrorSuffix", func(o *js_parser.JSONOptions) { o.ErrorSuffix = " in tsconfig" }},
		{"IsForDefine", func(o *js_parser.JSONOptions) { o.IsForDefine = true }},
	}
	for _, tg := range jsonToggles {
		names = append(names, tg.name)
		code := "{ \"a\": [1, 2,], // c\n \"b\": 0x10 }\n"
		var o1, o2 js_parser.JSONOptions
		tg.set(&o2)
		src := mkSource("/src/x.json", code)
		caches := cache.MakeCacheSet()
		log1 := logger.NewDeferLog(logger.DeferLogAll, nil)
		e1, _ := caches.JSONCache.Parse(log1, src, o1)
		log1.Done()
		log2 := logger.NewDeferLog(logger.DeferLogAll, nil)
		e2, ok2 := caches.JSONCache.Parse(log2, src, o2)
		m2 := log2.Done()
		logD := logger.NewDeferLog(logger.DeferLogAll, nil)
		eD, okD := js_parser.ParseJSON(logD, src, o2)
		mD := logD.Done()
		render := func(e js_ast.Expr, ok bool, ms []logger.Msg) string {
			s := fmt.Sprintf("ok=%v type=%T", ok, e.Data)
			for _, m := range ms {
				s += "\n" + m.Data.Text
			}
			return s
		}
		got, want := render(e2, ok2, m2), render(eD, okD, mD)
		// a hit returns the very expression node the first call stored
		wasHit := e1.Data != nil && e1.Data == e2.Data
		items = append(items, fmt.Sprintf("(2, %q, %s)", tg.name, CBool(wasHit)))
		st.Note("json-field:"+tg.name, "0", true)
		if got != want {
			st.Fail("JSONCache.Parse returns a stale result: the option comparison ignores a field that changes the parse",
				map[string]interface{}{"scenario": "jsoncache-option-field-toggle", "field": tg.name, "source": code}, got, want)
		}
	}
	cf.AddCases("opteq_json", "Z * string * bool", "check_opteq", items)
	cf.AddCases("opteq_json_complete", "Z * list string", "check_opteq_complete", []string{fmt.Sprintf("(2, %s)", coqStrList(names))})

	st.Finish("one case = one option field toggled between two cache lookups of one source (x each corpus source for JS); non-trivial = the lookup missed or the cached answer differs from a direct parse; distinct by field and source")
	return st
}

func coqStrList(xs []string) string {
	q := make([]string, len(xs))
	for i, x := range xs {
		q[i] = fmt.Sprintf("%q", x)
	}
	return "[" + strings.Join(q, "; ") + "]"
}
