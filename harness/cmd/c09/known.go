package main

// Deterministic replays of the specific failing inputs of the recorded C09
// findings (all of C, D, E, F, G, G2 are fixed in /repo; their failing inputs stay
// here as must-pass directed replays: a revert of a fix is a VIOLATION with that input). Each scenario evaluates the property's
// own predicate (rebuild == fresh build; watch predicates report the edit) on a
// minimal tree and reports a failure under its own kind and scenario name.

import (
	"fmt"
	"os"
	"path/filepath"
	"strings"
	"time"

	"github.com/evanw/esbuild/pkg/api"
	. "github.com/evanw/esbuild/verifharness/hlib"
)

type scenario struct {
	name    string
	what    string
	files   map[string]string
	opts    func(root, out string) api.BuildOptions
	edit    map[string]string // path -> new contents ("" = delete)
	links   map[string]string // symlinks of the initial tree: path -> target
	relink  map[string]string // symlinks replaced by the edit
	warmups int               // additional rebuilds of the unedited tree before the edit (cache hits)
	watch   bool
	comment string
}

func writeTree(root string, files map[string]string, mt time.Time) {
	for p, c := range files {
		abs := filepath.Join(root, filepath.FromSlash(p))
		if c == "" {
			os.Remove(abs)
			continue
		}
		must(os.MkdirAll(filepath.Dir(abs), 0o755))
		must(os.WriteFile(abs, []byte(c), 0o644))
		must(os.Chtimes(abs, mt, mt))
	}
}

func knownScenarios() []scenario {
	base := func(entries ...string) func(root, out string) api.BuildOptions {
		return func(root, out string) api.BuildOptions {
			return api.BuildOptions{AbsWorkingDir: root, EntryPoints: entries, Bundle: true, Outdir: out, LogLevel: api.LogLevelSilent, Write: false}
		}
	}
	return []scenario{
		{
			name: "tsconfig-jsx-react-to-react-jsx",
			what: "regression-C-rebuild-stale-after-tsconfig-jsx-mode-edit",
			files: map[string]string{
				"tsconfig.json": "{ \"compilerOptions\": { \"jsx\": \"react\" } }\n",
				"app.jsx":       "console.log(<div/>);\n",
			},
			opts:    base("app.jsx"),
			edit:    map[string]string{"tsconfig.json": "{ \"compilerOptions\": { \"jsx\": \"react-jsx\" } }\n"},
			comment: "js_parser.Options.Equal compares only jsx.Parse/Factory/Fragment",
		},
		{
			name: "entry-point-deleted-after-first-build",
			what: "regression-D-rebuild-diagnostic-differs-entry-point-prefix",
			files: map[string]string{
				"src/a.js": "console.log(1);\n",
				"src/b.js": "console.log(2);\n",
			},
			opts:    base("src/a.js", "src/b.js"),
			edit:    map[string]string{"src/b.js": ""},
			comment: "bundler addEntryPoints rewrites the caller's entry point slice in place; a context reuses the slice",
		},
		{
			name: "metafile-css-stub-revisited",
			what: "regression-E-rebuild-metafile-duplicate-css-input",
			files: map[string]string{
				"a.js":  "import \"./s.css\";\nconsole.log(1);\n",
				"s.css": "@import \"./t.css\";\n.a { color: red }\n",
				"t.css": ".t { margin: 0 }\n",
			},
			opts: func(root, out string) api.BuildOptions {
				o := base("a.js")(root, out)
				o.Metafile = true
				return o
			},
			edit:    map[string]string{"a.js": "import \"./s.css\";\nimport \"./b.js\";\nconsole.log(1);\n", "b.js": "console.log(2);\n"},
			comment: "the JS stub for a CSS file keeps its source index on a context; when a newer file has a higher index the scan loop visits the stub and emits a second metafile entry",
		},
		{
			name: "tsconfig-strict-added",
			what: "rebuild-stale-after-tsconfig-strict-presence-edit",
			files: map[string]string{
				"tsconfig.json": "{ \"compilerOptions\": { } }\n",
				"app.ts":        "console.log(typeof this);\nvar o: any = { a: 1 };\ndelete o.a;\n",
			},
			opts: func(root, out string) api.BuildOptions {
				o := base("app.ts")(root, out)
				o.Format = api.FormatCommonJS
				return o
			},
			edit:    map[string]string{"tsconfig.json": "{ \"compilerOptions\": { \"strict\": true } }\n"},
			comment: "tsAlwaysStrict goes from nil to non-nil: the cache key must tell them apart (directed regression replay, passes on HEAD)",
		},
		{
			name: "tsconfig-alwaysstrict-removed",
			what: "rebuild-stale-after-tsconfig-strict-presence-edit",
			files: map[string]string{
				"tsconfig.json": "{ \"compilerOptions\": { \"alwaysStrict\": true } }\n",
				"app.ts":        "console.log(typeof this);\nvar o: any = { a: 1 };\ndelete o.a;\n",
			},
			opts: func(root, out string) api.BuildOptions {
				o := base("app.ts")(root, out)
				o.Format = api.FormatCommonJS
				return o
			},
			edit:    map[string]string{"tsconfig.json": "{ \"compilerOptions\": { } }\n"},
			comment: "tsAlwaysStrict goes from non-nil to nil (directed regression replay, passes on HEAD)",
		},
		{
			name: "watch-record-of-directory-overwritten-by-file-read",
			what: "regression-F-watch-misses-shadowing-file-after-directory-record-overwritten",
			files: map[string]string{
				"src/a.js": "import \"./b\";\n//# sourceMappingURL=../src\n",
				"src/b.js": "console.log(\"js\");\n",
			},
			opts: func(root, out string) api.BuildOptions {
				o := base("src/a.js")(root, out)
				o.Sourcemap = api.SourceMapLinked
				return o
			},
			edit:    map[string]string{"src/b.ts": "console.log(\"ts\");\n"},
			watch:   true,
			comment: "realFS.ReadFile on a path that ReadDirectory recorded replaces the directory's watch record by stateFileMissing",
		},
		{
			name: "watch-symlink-retargeted",
			what: "regression-G-watch-misses-symlink-change",
			files: map[string]string{
				"src/a.js": "import \"./link\";\n",
				"src/x.js": "console.log(\"x\");\n",
				"src/y.js": "console.log(\"y\");\n",
			},
			links:   map[string]string{"src/link.js": "x.js"},
			opts:    base("src/a.js"),
			relink:  map[string]string{"src/link.js": "y.js"},
			watch:   true,
			comment: "the target of a symlink is obtained by Entry.Symlink (lstat + EvalSymlinks) which leaves no watch record; the directory entry stays present and the old target stays unchanged",
		},
		{
			name: "watch-dangling-symlink-target-created",
			what: "regression-G-watch-misses-symlink-change",
			files: map[string]string{
				"src/a.js": "import \"./link\";\n",
				"src/y.js": "console.log(\"y\");\n",
			},
			links:   map[string]string{"src/link.js": "x.js"},
			opts:    base("src/a.js"),
			edit:    map[string]string{"src/x.js": "console.log(\"x\");\n"},
			watch:   true,
			comment: "same root cause as the re-pointed symlink: realFS.kind resolves the link with lstat/EvalSymlinks and records nothing, so the appearance of the missing target of a dangling symlink is not watched (the directory entry link.js was and stays present; x.js itself was never looked up)",
		},
	}
}

func streamKnown(seed uint64, tmp string) *Stats {
	st := NewStats("c09/known", seed)
	old := time.Now().Add(-48 * time.Hour).Truncate(time.Second)
	for i, sc := range knownScenarios() {
		dir := filepath.Join(tmp, fmt.Sprintf("k%d", i))
		root := filepath.Join(dir, "proj")
		must(os.MkdirAll(root, 0o755))
		if rp, err := filepath.EvalSymlinks(root); err == nil {
			root = rp
		}
		writeTree(root, sc.files, old)
		for p, t := range sc.links {
			must(os.Symlink(t, filepath.Join(root, filepath.FromSlash(p))))
		}
		opts := sc.opts(root, filepath.Join(dir, "out"))
		ctx, cerr := api.Context(opts)
		if cerr != nil {
			panic(fmt.Sprint(cerr.Errors))
		}
		if sc.watch {
			api.VerifWatchManual(ctx)
		}
		first, _ := canon(ctx.Rebuild())
		for i := 0; i < sc.warmups; i++ {
			ctx.Rebuild()
		}
		fresh0, _ := canon(api.Build(opts))
		writeTree(root, sc.edit, old.Add(time.Hour))
		for p, t := range sc.relink {
			abs := filepath.Join(root, filepath.FromSlash(p))
			os.Remove(abs)
			must(os.Symlink(t, abs))
		}
		var dirty []string
		if sc.watch {
			dirty = api.VerifDirtyPaths(ctx)
		}
		rb, rbc := canon(ctx.Rebuild())
		fr, frc := canon(api.Build(opts))
		ctx.Dispose()
		os.RemoveAll(dir)
		in := map[string]interface{}{"scenario": sc.name, "files": sc.files, "edit": sc.edit, "symlinks": sc.links, "symlinks_after_edit": sc.relink, "entry_points": opts.EntryPoints, "metafile": opts.Metafile, "mechanism": sc.comment}
		st.Note("known-scenario", sc.name, true)
		if first != fresh0 {
			st.Fail(whatRebuild, in, "first build on the context differs from api.Build", "equal")
			continue
		}
		if sc.watch {
			st.Histogram[fmt.Sprintf("watch-scenario %s: fresh changed=%v dirty=%d", sc.name, fr != fresh0, len(dirty))]++
			if fr != fresh0 && len(dirty) == 0 {
				st.Fail(sc.what, in, "dirty paths: []", "at least one dirty path: the fresh build result changed")
			}
			continue
		}
		if fr == fresh0 {
			st.Histogram["insensitive-scenario:"+sc.name]++ // the edit does not change the fresh result: the replay proves nothing
		}
		if rb != fr {
			g, e := firstDiff(rbc, frc)
			st.Fail(sc.what, in, g, e)
		}
	}
	cssLayerScenario(st, tmp)
	st.Finish("one case = the deterministic replay of one recorded finding's failing input (all non-trivial)")
	return st
}

var _ = strings.Contains

// CSS entry points whose "@layer" lists come from shared (cached) files: the
// bundle of one entry point must not depend on which other entry points are
// built with it, on a context across rebuilds or in one build.  (The linker
// merges adjacent layer-only entries by appending to a list that may be a
// cached css_ast.AST's own slice; seeded change C08-3 removed the clone.)
func cssLayerScenario(st *Stats, tmp string) {
	dir := filepath.Join(tmp, "klayers")
	root := filepath.Join(dir, "proj")
	must(os.MkdirAll(root, 0o755))
	if rp, err := filepath.EvalSymlinks(root); err == nil {
		root = rp
	}
	old := time.Now().Add(-48 * time.Hour).Truncate(time.Second)
	files := map[string]string{
		// three @layer statements: the parser's list has spare capacity (len 3, cap 4)
		"l1.css": "@layer a1; @layer a2; @layer a3;\n",
		"l2.css": "@layer b1;\n",
		"l3.css": "@layer c1;\n",
		// an earlier copy of a file imported twice is replaced by its layers only; adjacent layer-only entries are merged
		"ea.css": "@import \"./l1.css\";\n@import \"./l2.css\";\n@import \"./l1.css\";\n@import \"./l2.css\";\n.a { color: red }\n",
		"eb.css": "@import \"./l1.css\";\n@import \"./l3.css\";\n@import \"./l1.css\";\n@import \"./l3.css\";\n.b { color: blue }\n",
	}
	writeTree(root, files, old)
	mk := func(entries ...string) api.BuildOptions {
		return api.BuildOptions{AbsWorkingDir: root, EntryPoints: entries, Bundle: true, Outdir: filepath.Join(dir, "out"), LogLevel: api.LogLevelSilent, Write: false}
	}
	outOf := func(r api.BuildResult, name string) string {
		for _, f := range r.OutputFiles {
			if filepath.Base(f.Path) == name {
				return string(f.Contents)
			}
		}
		return fmt.Sprintf("<no %s; errors %v>", name, r.Errors)
	}
	aloneA := outOf(api.Build(mk("ea.css")), "ea.css")
	aloneB := outOf(api.Build(mk("eb.css")), "eb.css")
	in := map[string]interface{}{"scenario": "css-layer-lists-shared-by-entry-points", "files": files}
	ctx, cerr := api.Context(mk("ea.css", "eb.css"))
	if cerr != nil {
		panic(fmt.Sprint(cerr.Errors))
	}
	defer ctx.Dispose()
	defer os.RemoveAll(dir)
	for round := 0; round < 3; round++ {
		r := ctx.Rebuild()
		st.Note("known-scenario", fmt.Sprintf("css-layers-%d", round), true)
		if a := outOf(r, "ea.css"); a != aloneA {
			in["round"] = round
			st.Fail("regression-css-layer-list-contaminated-across-entry-points", in, a, aloneA)
			return
		}
		if b := outOf(r, "eb.css"); b != aloneB {
			in["round"] = round
			st.Fail("regression-css-layer-list-contaminated-across-entry-points", in, b, aloneB)
			return
		}
		// an edit that keeps the shared files untouched (cache hits) but changes an entry
		files["ea.css"] += fmt.Sprintf(".a%d { color: red }\n", round)
		writeTree(root, map[string]string{"ea.css": files["ea.css"]}, old.Add(time.Duration(round+1)*time.Hour))
		aloneA = outOf(api.Build(mk("ea.css")), "ea.css")
	}
}
