package main

// watchfs stream: a real fs.RealFS with watch data on a real directory.
// A random sequence of ReadDirectory / Get / SortedKeys / ReadFile / ModKey
// calls is made; the recorded watch states (verif accessor) are compared with
// Watch.v; then the tree is edited and the predicates returned by WatchData()
// are evaluated and compared with the model's dirty set (check_watch).
// The property's own predicate is also evaluated in Go: if every predicate is
// clean then every observation must answer the same on the edited tree
// (whenever the log keeps directory paths and file paths apart).

import (
	"fmt"
	"os"
	"path/filepath"
	"sort"
	"strconv"
	"strings"
	"syscall"
	"time"

	"github.com/evanw/esbuild/internal/fs"
	. "github.com/evanw/esbuild/verifharness/hlib"
)

func cName(s string) string { return CBytes([]byte(s)) }

func cNames(xs []string) string {
	q := make([]string, len(xs))
	for i, x := range xs {
		q[i] = cName(x)
	}
	return "[" + strings.Join(q, "; ") + "]"
}

type wfsWorld struct {
	root    string
	paths   []string // absolute paths, index = id
	linkIDs map[string]int
}

// identifier of a resolved path (what EvalSymlinks returned): the id of a path
// of interest, or a fresh number
func (w *wfsWorld) pathID(p string) int {
	for i, q := range w.paths {
		if q == p {
			return i
		}
	}
	if w.linkIDs == nil {
		w.linkIDs = map[string]int{}
	}
	if id, ok := w.linkIDs[p]; ok {
		return id
	}
	id := 100 + len(w.linkIDs)
	w.linkIDs[p] = id
	return id
}

func (w *wfsWorld) cOptPath(p string, ok bool) string {
	if !ok || p == "" {
		return "None"
	}
	return fmt.Sprintf("(Some %d)", w.pathID(p))
}

// what realFS.kind would answer for every entry name of interest in the two
// directories: (dir id, name, kind, is symlink, EvalSymlinks result)
func (w *wfsWorld) kinds(names []string) string {
	var items []string
	for _, d := range []int{0, 1} {
		for _, n := range names {
			entry := filepath.Join(w.paths[d], n)
			kind, islink := 0, false
			ev, everr := filepath.EvalSymlinks(entry)
			if st, err := os.Lstat(entry); err == nil {
				if st.Mode()&os.ModeSymlink != 0 {
					islink = true
					if everr == nil {
						if st2, err2 := os.Lstat(ev); err2 == nil {
							if st2.IsDir() {
								kind = 1
							} else {
								kind = 2
							}
						}
					}
				} else if st.IsDir() {
					kind = 1
				} else {
					kind = 2
				}
			}
			items = append(items, fmt.Sprintf("(%d, %s, %d, %s, %s)", d, cName(n), kind, CBool(islink), w.cOptPath(ev, everr == nil)))
		}
	}
	return "[" + strings.Join(items, "; ") + "]"
}

func contentsID(s string) int {
	if s == "" {
		return 0
	}
	id, err := strconv.Atoi(strings.TrimPrefix(s, "c"))
	if err != nil {
		return -7
	}
	return id
}

func encKey(k fs.ModKey) string {
	a, b, c, d, e, f := fs.VerifModKeyParts(k)
	if a == 0 && b == 0 && c == 0 && d == 0 && e == 0 && f == 0 {
		return "[]"
	}
	return fmt.Sprintf("[%d;%d;%d;%d;%d;%d]", a, b, c, d, e, f)
}

// snapshot of what the file system answers for every path of interest
type pathAns struct {
	dirOK   bool
	listing []string
	readOK  bool
	content int
	statOK  bool
	isfile  bool
}

func (w *wfsWorld) snapshot(plain fs.FS) (string, []pathAns) {
	var items []string
	var raw []pathAns
	for id, p := range w.paths {
		dir := "None"
		var names []string
		var pa pathAns
		if ents, err := os.ReadDir(p); err == nil {
			pa.dirOK = true
			for _, e := range ents {
				names = append(names, e.Name())
			}
			dir = "(Some " + cNames(names) + ")"
		}
		rd := "[1;2]"
		readOK := false
		if b, err := os.ReadFile(p); err == nil {
			rd = fmt.Sprintf("[0;%d]", contentsID(string(b)))
			readOK = true
			pa.content = contentsID(string(b))
		}
		mk := "[2;2]"
		if k, err := plain.ModKey(p); err == nil {
			mk = "0 :: " + encKey(k)
			pa.statOK = true
		} else if err == fs.VerifModKeyUnusable {
			mk = "[1]"
			pa.statOK = true
		}
		isfile := false
		if st, err := os.Stat(p); err == nil && !st.IsDir() {
			isfile = true
		}
		items = append(items, fmt.Sprintf("(%d, %s, %s, %s, %s)", id, dir, rd, mk, CBool(isfile)))
		pa.listing, pa.readOK, pa.isfile = names, readOK, isfile
		raw = append(raw, pa)
	}
	return "[" + strings.Join(items, "; ") + "]", raw
}

func streamWatchFS(seed uint64, n int, tmp string, cf *CoqFile) *Stats {
	st := NewStats("c09/watchfs", seed)
	r := NewRng(seed ^ 0xC0977)
	plain, _ := fs.RealFS(fs.RealFSOptions{AbsWorkingDir: tmp})
	var items []string
	count := 40 + n/4
	old := time.Now().Add(-72 * time.Hour).Truncate(time.Second)
	ran := 0
	for c := 0; c < count && !budgetSpent(0.30); c++ {
		ran++
		root := filepath.Join(tmp, fmt.Sprintf("w%d", c))
		must(os.MkdirAll(filepath.Join(root, "d0"), 0o755))
		if rp, err := filepath.EvalSymlinks(root); err == nil {
			root = rp
		}
		w := &wfsWorld{root: root}
		// paths of interest: two directories (one may be missing), files in them, a missing file
		rel := []string{"d0", "d1", "d0/a.js", "d0/B.js", "d0/gone.js", "d1/x.js", "d0/sub"}
		for _, p := range rel {
			w.paths = append(w.paths, filepath.Join(root, filepath.FromSlash(p)))
		}
		nextC := 1
		tick := 0
		write := func(p string, fresh bool) {
			// the edit script may already have turned this path (or its parent)
			// into something else: make the operation applicable first
			if st, err := os.Lstat(p); err == nil && st.IsDir() {
				os.RemoveAll(p)
			}
			if st, err := os.Lstat(filepath.Dir(p)); err == nil && !st.IsDir() {
				os.Remove(filepath.Dir(p))
			}
			must(os.MkdirAll(filepath.Dir(p), 0o755))
			must(os.WriteFile(p, []byte(fmt.Sprintf("c%d", nextC)), 0o644))
			nextC++
			if !fresh {
				tick++
				t := old.Add(time.Duration(tick) * time.Millisecond)
				must(os.Chtimes(p, t, t))
			}
		}
		write(w.paths[2], r.Chance(15))
		if r.Chance(80) {
			write(w.paths[3], r.Chance(15))
		}
		if r.Chance(50) {
			write(w.paths[5], false)
		}
		if r.Chance(40) {
			must(os.MkdirAll(w.paths[6], 0o755))
		}
		if r.Chance(30) {
			write(filepath.Join(root, "d0", "other.txt"), false)
		}
		// symlinks: one to an existing file (or to B.js), one possibly dangling
		relink := func(name, target string) {
			p := filepath.Join(root, "d0", name)
			os.RemoveAll(p)
			must(os.Symlink(target, p))
		}
		if r.Chance(60) {
			relink("lnk.js", r.Pick([]string{"a.js", "B.js"}))
		}
		if r.Chance(40) {
			relink("dang.js", "nothere.js")
		}

		rfs, err := fs.RealFS(fs.RealFSOptions{AbsWorkingDir: root, WantWatchData: true})
		must(err)
		w1, raw1 := w.snapshot(plain)

		// the log
		dirEntries := map[int]fs.DirEntries{}
		var logItems []string
		var logDesc []string
		type obsRec struct {
			kind int
			id   int
			name string
		}
		var obsLog []obsRec
		names := []string{"a.js", "A.JS", "B.js", "b.js", "gone.js", "new.ts", "sub", "x.js", "lnk.js", "dang.js"}
		baseNames := []string{"a.js", "B.js", "gone.js", "new.ts", "sub", "x.js", "lnk.js", "dang.js", "nothere.js", "other.txt", "unrelated.md"}
		k1 := w.kinds(baseNames)
		dirIDs := []int{0, 1}
		fileIDs := []int{2, 3, 4, 5}
		mixed := r.Chance(25) // also use directory paths as files and file paths as directories
		doReadDir := func(id int) {
			if _, ok := dirEntries[id]; !ok {
				ents, _, _ := rfs.ReadDirectory(w.paths[id])
				dirEntries[id] = ents
			} else {
				rfs.ReadDirectory(w.paths[id])
			}
			logItems = append(logItems, fmt.Sprintf("(0, %d, [])", id))
			logDesc = append(logDesc, "ReadDirectory "+rel[id])
			obsLog = append(obsLog, obsRec{0, id, ""})
		}
		nops := r.Range(2, 12)
		for i := 0; i < nops; i++ {
			switch r.Intn(9) {
			case 0, 1:
				id := dirIDs[r.Intn(2)]
				if mixed && r.Chance(30) {
					id = fileIDs[r.Intn(len(fileIDs))]
				}
				doReadDir(id)
			case 2, 3, 4:
				id := dirIDs[r.Intn(2)]
				if _, ok := dirEntries[id]; !ok {
					doReadDir(id)
				}
				nm := names[r.Intn(len(names))]
				if r.Chance(30) {
					nm = r.Pick([]string{"lnk.js", "dang.js"})
				}
				entry, _ := dirEntries[id].Get(nm)
				logItems = append(logItems, fmt.Sprintf("(1, %d, %s)", id, cName(nm)))
				logDesc = append(logDesc, "Get "+rel[id]+" "+nm)
				obsLog = append(obsLog, obsRec{1, id, nm})
				if entry != nil && r.Chance(60) {
					// Entry.Kind / Entry.Symlink (realFS.kind): records the target of a symlink entry only
					entry.Kind(rfs)
					entry.Symlink(rfs)
					base := nm
					if ents, err := os.ReadDir(w.paths[id]); err == nil {
						for _, e := range ents {
							if strings.EqualFold(e.Name(), nm) {
								base = e.Name()
							}
						}
					}
					logItems = append(logItems, fmt.Sprintf("(5, %d, %s)", id, cName(base)))
					logDesc = append(logDesc, "Kind "+rel[id]+" "+base)
				}
			case 5:
				id := dirIDs[r.Intn(2)]
				if _, ok := dirEntries[id]; !ok {
					doReadDir(id)
				}
				dirEntries[id].SortedKeys()
				logItems = append(logItems, fmt.Sprintf("(2, %d, [])", id))
				logDesc = append(logDesc, "SortedKeys "+rel[id])
				obsLog = append(obsLog, obsRec{2, id, ""})
			case 6, 7:
				id := fileIDs[r.Intn(len(fileIDs))]
				if mixed && r.Chance(30) {
					id = dirIDs[r.Intn(2)]
				}
				if r.Chance(70) { // the FSCache shape: ModKey then ReadFile
					rfs.ModKey(w.paths[id])
					logItems = append(logItems, fmt.Sprintf("(4, %d, [])", id))
					logDesc = append(logDesc, "ModKey "+rel[id])
					obsLog = append(obsLog, obsRec{4, id, ""})
				}
				rfs.ReadFile(w.paths[id])
				logItems = append(logItems, fmt.Sprintf("(3, %d, [])", id))
				logDesc = append(logDesc, "ReadFile "+rel[id])
				obsLog = append(obsLog, obsRec{3, id, ""})
			case 8:
				id := fileIDs[r.Intn(len(fileIDs))]
				rfs.ModKey(w.paths[id])
				logItems = append(logItems, fmt.Sprintf("(4, %d, [])", id))
				logDesc = append(logDesc, "ModKey "+rel[id])
				obsLog = append(obsLog, obsRec{4, id, ""})
			}
		}

		// recorded states before WatchData()
		idOf := map[string]int{}
		for i, p := range w.paths {
			idOf[p] = i
		}
		var obsItems []string
		recLinks := fs.VerifWatchSymlinks(rfs)
		for _, e := range fs.VerifWatchStates(rfs) {
			id, ok := idOf[e.Path]
			if !ok {
				panic("unexpected watched path " + e.Path)
			}
			var keys []string
			for k := range e.WasPresent {
				keys = append(keys, k)
			}
			sort.Strings(keys)
			var pres []string
			for _, k := range keys {
				pres = append(pres, fmt.Sprintf("(%s, %s)", cName(k), CBool(e.WasPresent[k])))
			}
			all := "None"
			if e.HasAll {
				all = "(Some " + cNames(e.AllEntries) + ")"
			}
			var lnames []string
			for k := range recLinks[e.Path] {
				lnames = append(lnames, k)
			}
			sort.Strings(lnames)
			var links []string
			for _, k := range lnames {
				links = append(links, fmt.Sprintf("(%s, %s)", cName(k), w.cOptPath(recLinks[e.Path][k], true)))
			}
			obsItems = append(obsItems, fmt.Sprintf("(%d, %d, %s, %d, [%s], %s, [%s])", id, e.State, encKey(e.ModKey), contentsID(e.FileContents), strings.Join(pres, "; "), all, strings.Join(links, "; ")))
		}
		wd := rfs.WatchData()

		// the edit
		var editDesc []string
		for e := r.Range(0, 2); e > 0; e-- {
			switch r.Intn(13) {
			case 9:
				relink("lnk.js", r.Pick([]string{"a.js", "B.js", "gone.js"}))
				editDesc = append(editDesc, "re-point (or create) symlink d0/lnk.js")
			case 10:
				write(filepath.Join(root, "d0", "nothere.js"), false)
				editDesc = append(editDesc, "create d0/nothere.js (target of the dangling symlink)")
			case 11:
				os.Remove(filepath.Join(root, "d0", "lnk.js"))
				write(filepath.Join(root, "d0", "lnk.js"), false)
				editDesc = append(editDesc, "replace d0/lnk.js by a plain file")
			case 12:
				relink("dang.js", r.Pick([]string{"nothere.js", "a.js"}))
				editDesc = append(editDesc, "re-point (or create) symlink d0/dang.js")
			case 0, 1:
				write(w.paths[2], r.Chance(20))
				editDesc = append(editDesc, "rewrite d0/a.js")
			case 2:
				os.Remove(w.paths[3])
				editDesc = append(editDesc, "delete d0/B.js")
			case 3:
				write(w.paths[4], false)
				editDesc = append(editDesc, "create d0/gone.js (looked for, was missing)")
			case 4:
				write(filepath.Join(root, "d0", "new.ts"), false)
				editDesc = append(editDesc, "create d0/new.ts")
			case 5:
				write(w.paths[5], false)
				editDesc = append(editDesc, "create or rewrite d1/x.js (d1 may have been missing)")
			case 6:
				os.RemoveAll(w.paths[1])
				editDesc = append(editDesc, "remove directory d1")
			case 7:
				write(filepath.Join(root, "d0", "unrelated.md"), false)
				editDesc = append(editDesc, "create d0/unrelated.md")
			case 8:
				os.RemoveAll(w.paths[2])
				must(os.MkdirAll(w.paths[2], 0o755))
				editDesc = append(editDesc, "replace file d0/a.js by a directory")
			}
		}
		w2, raw2 := w.snapshot(plain)
		k2 := w.kinds(baseNames)
		var dirty []int64
		for p, fn := range wd.Paths {
			if fn() != "" {
				dirty = append(dirty, int64(idOf[p]))
			}
		}
		sort.Slice(dirty, func(i, j int) bool { return dirty[i] < dirty[j] })

		item := fmt.Sprintf("(%s,\n  %s,\n  [%s],\n  [%s],\n  %s,\n  %s,\n  %s)", w1, k1, strings.Join(logItems, "; "), strings.Join(obsItems, "; "), w2, k2, CZList(dirty))
		items = append(items, item)
		st.Note("watchfs-case", fmt.Sprint(c), len(editDesc) > 0)
		if c < 2 {
			st.Sample(map[string]interface{}{"watchfs_log": logDesc, "edit": editDesc, "dirty_path_ids": dirty})
		}

		// the property's predicate (Go side): predicates clean => same answers,
		// for logs that keep directory and file paths apart
		if !mixed && len(dirty) == 0 {
			for _, o := range obsLog {
				a1, a2 := answerOf(raw1[o.id], o.kind, o.name), answerOf(raw2[o.id], o.kind, o.name)
				if a1 != a2 {
					st.Fail("watch predicates are all clean but a recorded observation answers differently on the edited tree",
						map[string]interface{}{"log": logDesc, "edit": editDesc, "observation": logDescFor(o.kind, rel[o.id], o.name)}, a2, a1)
					break
				}
			}
		}
		os.RemoveAll(root)
	}
	st.Extra["cases_planned"], st.Extra["cases_run"] = count, ran
	cf.AddCases("watch", "watch_case", "check_watch", items)
	st.Finish("one case = a random log of ReadDirectory/Get/SortedKeys/ReadFile/ModKey calls on a real directory through fs.RealFS with watch data, then 0-2 edits; non-trivial = at least one edit; distinct by case number")
	return st
}

func logDescFor(kind int, p, name string) string {
	return []string{"ReadDirectory", "Get", "SortedKeys", "ReadFile", "ModKey"}[kind] + " " + p + " " + name
}

func answerOf(a pathAns, kind int, name string) string {
	switch kind {
	case 0:
		return fmt.Sprint(a.dirOK)
	case 1:
		if !a.dirOK {
			return "unreadable"
		}
		for _, n := range a.listing {
			if strings.ToLower(n) == strings.ToLower(name) {
				return "present"
			}
		}
		return "absent"
	case 2:
		if !a.dirOK {
			return "unreadable"
		}
		l := append([]string{}, a.listing...)
		sort.Strings(l)
		return strings.Join(l, "|")
	case 3:
		if !a.readOK {
			return "error"
		}
		return fmt.Sprintf("contents %d", a.content)
	default:
		return fmt.Sprintf("stat ok %v", a.statOK)
	}
}

var _ = syscall.ENOENT
