package main

// The "probe" layer of the generated project: data modules whose cached ASTs
// are shared by every rebuild of a context (JSON and text lazy-export modules,
// a TypeScript file of enums and const enums, a CSS module with local names),
// imported in every style (default, named properties, namespace, through a
// re-exporting module) from three importers whose import sets change between
// rebuilds while the data files stay untouched (cache hits).
//
// The importers make up a separate entry point (src/probe.js) without JSX, so
// the bundle can be executed: it prints one line "PROBE <json>" whose expected
// value follows from the project model alone. The executor compares every
// rebuild byte-wise with a fresh build and also runs the rebuilt bundle in
// node and compares the printed line with the expected one.

import (
	"fmt"
	"os"
	"os/exec"
	"path/filepath"
	"strings"
	"time"

	"github.com/evanw/esbuild/pkg/api"
	. "github.com/evanw/esbuild/verifharness/hlib"
)

type probeMod struct {
	name                                                          string // p0 (the entry, probe.js), p1 (p1.js), p2 (p2.ts)
	jsonDefault, jsonNamed, jsonNS, jsonReexp, text, enum, cssmod bool
	json2Named                                                    bool // named import from the second JSON file only (no default import anywhere in this module)
}

type probeData struct {
	k     int
	label string
	items []int
	note  string
	enumA int
	e2tag string
}

func (d probeData) jsonText() string {
	its := make([]string, len(d.items))
	for i, x := range d.items {
		its[i] = fmt.Sprint(x)
	}
	return fmt.Sprintf("{ \"k\": %d, \"items\": [%s], \"label\": %q, \"nested\": { \"x\": 7 }, \"default\": \"dflt\" }\n", d.k, strings.Join(its, ", "), d.label)
}

func (d probeData) itemsJSON() string {
	its := make([]string, len(d.items))
	for i, x := range d.items {
		its[i] = fmt.Sprint(x)
	}
	return "[" + strings.Join(its, ",") + "]"
}

// source text of an importer and, in the same order, the JSON text its report
// object must serialise to
func (m *probeMod) render(d probeData, ts bool) (string, string) {
	var imp, fields, expect []string
	add := func(field, expr, val string) {
		fields = append(fields, field+": "+expr)
		expect = append(expect, fmt.Sprintf("%q:%s", field, val))
	}
	q := func(s string) string { return fmt.Sprintf("%q", s) }
	if m.jsonDefault {
		imp = append(imp, "import dataD from \"./d.json\";")
		add("dk", "dataD.k", fmt.Sprint(d.k))
		add("dlabel", "dataD.label", q(d.label))
		add("ditems", "dataD.items", d.itemsJSON())
		add("dkeys", "Object.keys(dataD).join()", q("k,items,label,nested,default"))
	}
	if m.jsonNamed {
		imp = append(imp, "import { items, label as lbl } from \"./d.json\";")
		add("items", "items", d.itemsJSON())
		add("lbl", "lbl", q(d.label))
	}
	if m.jsonNS {
		imp = append(imp, "import * as dns from \"./d.json\";")
		add("nsLabel", "dns.label", q(d.label))
		add("nsK", "dns.default.k", fmt.Sprint(d.k))
		add("nsNested", "dns.nested.x", "7")
	}
	if m.jsonReexp {
		imp = append(imp, "import { reItems, reData, nested as reNested, k as reK } from \"./redata\";")
		add("reItems", "reItems", d.itemsJSON())
		add("reDataLabel", "reData.label", q(d.label))
		add("reNestedX", "reNested.x", "7")
		add("reK", "reK", fmt.Sprint(d.k))
	}
	if m.json2Named {
		imp = append(imp, "import { tag, list } from \"./e.json\";")
		add("tag", "tag", q(d.e2tag))
		add("list0", "list[0]", "10")
	}
	if m.text {
		imp = append(imp, "import note from \"./note.txt\";")
		add("note", "note", q(d.note))
	}
	if m.enum {
		imp = append(imp, "import { Color, CE, shade } from \"./enums\";")
		add("en", "Color.Green + CE.B", fmt.Sprint(d.enumA+1+11))
		add("colorName", fmt.Sprintf("Color[%d]", d.enumA), q("Red"))
		add("shade", "shade(Color.Blue)", fmt.Sprint((d.enumA+2)*2))
	}
	if m.cssmod {
		imp = append(imp, "import styles from \"./local.module.css\";")
		add("css", "typeof styles.box + \"/\" + (styles.title.indexOf(styles.box) >= 0)", q("string/true"))
	}
	typ := ""
	if ts {
		typ = ": Record<string, unknown>"
	}
	src := strings.Join(imp, "\n") + "\nexport const report_" + m.name + typ + " = { " + strings.Join(fields, ", ") + " };\n"
	return src, "{" + strings.Join(expect, ",") + "}"
}

type probeLayer struct {
	mods    [3]*probeMod
	data    probeData
	enabled bool
}

func newProbeLayer(r *Rng) *probeLayer {
	pl := &probeLayer{data: probeData{k: 1, label: "abc", items: []int{1, 2, 3}, note: "plain text note", enumA: 1, e2tag: "second"}}
	for i := range pl.mods {
		pl.mods[i] = &probeMod{name: fmt.Sprintf("p%d", i), jsonDefault: r.Chance(45), jsonNamed: r.Chance(30), jsonNS: r.Chance(20),
			jsonReexp: r.Chance(20), text: r.Chance(30), enum: r.Chance(40), cssmod: r.Chance(25), json2Named: r.Chance(25)}
	}
	return pl
}

// files of the layer and the expected PROBE line
func (pl *probeLayer) render(files map[string]string) string {
	d := pl.data
	files["src/d.json"] = d.jsonText()
	files["src/e.json"] = fmt.Sprintf("{ \"tag\": %q, \"list\": [10, 20], \"unused\": { \"deep\": true } }\n", d.e2tag)
	files["src/note.txt"] = d.note
	files["src/redata.js"] = "export { items as reItems, default as reData, nested, k } from \"./d.json\";\n"
	files["src/enums.ts"] = fmt.Sprintf("export enum Color { Red = %d, Green, Blue }\nexport const enum CE { A = 10, B }\nexport function shade(c: Color): number { return c * 2 + CE.A - 10; }\n", d.enumA)
	files["src/local.module.css"] = ".box { color: red }\n.title { composes: box; font-weight: bold }\n"
	s1, e1 := pl.mods[1].render(d, false)
	s2, e2 := pl.mods[2].render(d, true)
	s0, e0 := pl.mods[0].render(d, false)
	files["src/p1.js"] = s1
	files["src/p2.ts"] = s2
	files["src/probe.js"] = "import { report_p1 } from \"./p1\";\nimport { report_p2 } from \"./p2\";\n" + s0 +
		"console.log(\"PROBE \" + JSON.stringify({ p0: report_p0, p1: report_p1, p2: report_p2 }));\n"
	return fmt.Sprintf("PROBE {\"p0\":%s,\"p1\":%s,\"p2\":%s}", e0, e1, e2)
}

// an edit of the import sets (the data files stay untouched)
func (pl *probeLayer) flip(r *Rng) string {
	var done []string
	for n := r.Range(1, 3); n > 0; n-- {
		m := pl.mods[r.Intn(3)]
		var f *bool
		var nm string
		switch r.Intn(9) {
		case 0, 1:
			f, nm = &m.jsonDefault, "json default import"
		case 2, 3:
			f, nm = &m.jsonNamed, "json named imports"
		case 4:
			f, nm = &m.jsonNS, "json namespace import"
		case 5:
			f, nm = &m.jsonReexp, "json through re-export"
		case 6:
			f, nm = &m.text, "text import"
			if r.Bool() {
				f, nm = &m.json2Named, "second json named imports"
			}
		case 7:
			f, nm = &m.enum, "enum imports"
		default:
			f, nm = &m.cssmod, "css module import"
		}
		*f = !*f
		done = append(done, fmt.Sprintf("%s %s=%v", m.name, nm, *f))
	}
	return "probe imports: " + strings.Join(done, "; ")
}

// ---- running the rebuilt bundle ----

const whatProbe = "the rebuilt bundle, executed in node, does not print the values the project defines"

// writes the output files below dir and runs the probe entry; returns the
// PROBE line (or a description of what went wrong) and whether node ran
func runProbe(dir string, outdir string, format string, files []api.OutputFile) (string, bool) {
	os.RemoveAll(dir)
	var entry string
	for _, f := range files {
		rel, err := filepath.Rel(outdir, f.Path)
		if err != nil || strings.HasPrefix(rel, "..") {
			return "", false
		}
		abs := filepath.Join(dir, rel)
		if os.MkdirAll(filepath.Dir(abs), 0o755) != nil || os.WriteFile(abs, f.Contents, 0o644) != nil {
			return "", false
		}
		if filepath.Base(rel) == "probe.js" {
			entry = abs
		}
	}
	if entry == "" {
		return "", false
	}
	typ := "commonjs"
	if format == "esm" {
		typ = "module"
	}
	if os.WriteFile(filepath.Join(dir, "package.json"), []byte(fmt.Sprintf("{ \"type\": %q }\n", typ)), 0o644) != nil {
		return "", false
	}
	cmd := exec.Command("node", entry)
	cmd.Dir = dir
	done := make(chan struct{})
	var out []byte
	var err error
	go func() { out, err = cmd.CombinedOutput(); close(done) }()
	select {
	case <-done:
	case <-time.After(60 * time.Second):
		cmd.Process.Kill()
		return "", false // an overloaded machine is not a finding
	}
	for _, line := range strings.Split(string(out), "\n") {
		if strings.HasPrefix(line, "PROBE ") {
			return line, true
		}
	}
	text := string(out)
	if len(text) > 1200 {
		text = text[:1200]
	}
	return fmt.Sprintf("no PROBE line (node error: %v): %s", err, text), true
}
