package main

// Glue stream: real-directory edit histories. After every edit the context's
// Rebuild() must return byte-for-byte what a fresh api.Build of the current
// tree returns (outputs, metafile, diagnostics), and in watch mode an edit
// that changes the fresh result must be reported dirty by the watch data of
// the previous build.

import (
	"encoding/json"
	"fmt"
	"os"
	"path/filepath"
	"sort"
	"strings"
	"time"

	"github.com/evanw/esbuild/pkg/api"
	. "github.com/evanw/esbuild/verifharness/hlib"
)

// ---------------------------------------------------------------- tree model

type module struct {
	dir, name, ext string
	val            int
	imports        []string // specifiers of other generated modules (named import v)
	bare           []string // side-effect-only imports
	pkg            bool     // import pkg from "pkg"
	css            bool     // import "./s.css"
	json           bool     // import data from "./d.json"
	lib            bool     // import {u} from "@lib/util"
	classField     bool
	sideEffect     bool
	dyn            string // dynamic import specifier
	broken         bool   // syntax error present
	link           bool   // import through the symlink "./link"
	legacy         bool   // bare import of the sloppy-mode TypeScript script "./legacy"
}

func (m *module) rel() string { return m.dir + "/" + m.name + m.ext }
func (m *module) isJSX() bool { return m.ext == ".jsx" || m.ext == ".tsx" }
func (m *module) isTS() bool  { return m.ext == ".ts" || m.ext == ".tsx" }

func ident(spec string) string {
	r := strings.NewReplacer("./", "", "../", "up_", "/", "_", "@", "", "-", "_", ".", "_")
	return "v_" + r.Replace(spec)
}

func (m *module) render() string {
	var sb strings.Builder
	var terms []string
	if m.isJSX() {
		sb.WriteString("import React from \"react\";\n")
	}
	for _, s := range m.imports {
		fmt.Fprintf(&sb, "import { v as %s } from %q;\n", ident(s), s)
		terms = append(terms, ident(s))
	}
	for _, s := range m.bare {
		fmt.Fprintf(&sb, "import %q;\n", s)
	}
	if m.pkg {
		sb.WriteString("import pkg from \"pkg\";\n")
		terms = append(terms, "pkg.name.length")
	}
	if m.css {
		sb.WriteString("import \"./s.css\";\n")
	}
	if m.json {
		sb.WriteString("import data from \"./d.json\";\n")
		terms = append(terms, "data.k")
	}
	if m.lib {
		sb.WriteString("import { u } from \"@lib/util\";\n")
		terms = append(terms, "u")
	}
	if m.legacy {
		sb.WriteString("import \"./legacy\";\n")
	}
	if m.link {
		sb.WriteString("import { v as v_link } from \"./link\";\n")
		terms = append(terms, "v_link")
	}
	if m.classField {
		if m.isTS() {
			fmt.Fprintf(&sb, "export class K_%s { x: number; y = %d; static s = 2; declare z: string }\n", m.name, m.val%7)
		} else {
			fmt.Fprintf(&sb, "export class K_%s { x; y = %d; static s = 2 }\n", m.name, m.val%7)
		}
	}
	if m.isJSX() {
		fmt.Fprintf(&sb, "export const el = <div id=%q key=\"k\"><><span>{%d}</span></></div>;\n", m.name, m.val)
	}
	if m.isTS() {
		fmt.Fprintf(&sb, "export type T_%s = { a: number };\nenum E_%s { A = %d, B }\n", m.name, m.name, m.val%5)
		terms = append(terms, "E_"+m.name+".B")
	}
	if m.sideEffect {
		fmt.Fprintf(&sb, "console.log(\"loaded %s\");\n", m.name)
	}
	if m.dyn != "" {
		fmt.Fprintf(&sb, "export const lazy = () => import(%q);\n", m.dyn)
	}
	expr := fmt.Sprintf("%d", m.val)
	for _, t := range terms {
		expr += " + " + t
	}
	if m.isTS() {
		fmt.Fprintf(&sb, "export const v: number = %s;\n", expr)
	} else {
		fmt.Fprintf(&sb, "export const v = %s;\n", expr)
	}
	fmt.Fprintf(&sb, "export default %q;\n", m.name)
	if m.broken {
		sb.WriteString("export const = ;\n")
	}
	return sb.String()
}

type tsconfig struct {
	jsx          string // "", react, react-jsx, react-jsxdev, preserve
	importSource string // "", preact
	factory      string // "", h
	useDefine    int    // 0 absent, 1 true, 2 false
	target       string // "", ES2020, ESNext
	libDir       string // paths target: lib or lib2
	verbatim     bool
	strict       int // 0 absent, 1 true, 2 false
	alwaysStrict int // 0 absent, 1 true, 2 false
	present      bool
	brokenJSON   bool
}

func (t *tsconfig) render() string {
	if t.brokenJSON {
		return "{ \"compilerOptions\": { \"jsx\": \n"
	}
	co := map[string]interface{}{"baseUrl": ".", "paths": map[string][]string{"@lib/*": {"./src/" + t.libDir + "/*"}}}
	if t.jsx != "" {
		co["jsx"] = t.jsx
	}
	if t.importSource != "" {
		co["jsxImportSource"] = t.importSource
	}
	if t.factory != "" {
		co["jsxFactory"] = t.factory
	}
	if t.useDefine == 1 {
		co["useDefineForClassFields"] = true
	} else if t.useDefine == 2 {
		co["useDefineForClassFields"] = false
	}
	if t.target != "" {
		co["target"] = t.target
	}
	if t.verbatim {
		co["verbatimModuleSyntax"] = true
	}
	if t.strict != 0 {
		co["strict"] = t.strict == 1
	}
	if t.alwaysStrict != 0 {
		co["alwaysStrict"] = t.alwaysStrict == 1
	}
	b, _ := json.MarshalIndent(map[string]interface{}{"compilerOptions": co}, "", "  ")
	return string(b) + "\n"
}

type pkgjson struct {
	typ         string // "", module, commonjs
	sideEffects int    // 0 absent, 1 false, 2 true
	main        string // "", ./main.js, ./alt.js
	exports     int    // 0 none, 1 string ./esm.mjs, 2 conditional, 3 ./alt.js
	name        string
}

func (p *pkgjson) render() string {
	m := map[string]interface{}{"name": p.name, "version": "1.0.0"}
	if p.typ != "" {
		m["type"] = p.typ
	}
	if p.sideEffects == 1 {
		m["sideEffects"] = false
	} else if p.sideEffects == 2 {
		m["sideEffects"] = true
	}
	if p.main != "" {
		m["main"] = p.main
	}
	switch p.exports {
	case 1:
		m["exports"] = "./esm.mjs"
	case 2:
		m["exports"] = map[string]interface{}{".": map[string]string{"import": "./esm.mjs", "require": "./main.js", "default": "./alt.js"}}
	case 3:
		m["exports"] = map[string]string{".": "./alt.js"}
	}
	b, _ := json.MarshalIndent(m, "", "  ")
	return string(b) + "\n"
}

// the desired state of the project directory
type tree struct {
	files map[string]string // rel path -> contents
	links map[string]string // rel path -> target (relative to the link's directory)
}

func newTree() *tree { return &tree{files: map[string]string{}, links: map[string]string{}} }
func (t *tree) clone() *tree {
	c := newTree()
	for k, v := range t.files {
		c.files[k] = v
	}
	for k, v := range t.links {
		c.links[k] = v
	}
	return c
}

type project struct {
	mods        []*module
	ts          tsconfig
	root        pkgjson
	pkg         pkgjson
	nearPkg     bool              // src/node_modules/pkg exists (nearer node_modules)
	extra       map[string]string // raw extra files (shadowing files, file<->dir swaps ...)
	removed     map[string]bool   // generated files deleted by an edit
	linkTo      string            // target of src/link.js ("" = no link)
	cssColor    string
	jsonK       int
	libVal      int
	subAsFile   bool // "./sub" is src/sub.js instead of src/sub/index.js
	qAsDir      bool // "./q.js" is the directory src/q.js/ (with index.js) instead of the file src/q.js
	entries     []string
	probe       *probeLayer
	probeExpect string // set by render()
}

func (p *project) render() *tree {
	t := newTree()
	for _, m := range p.mods {
		t.files[m.rel()] = m.render()
	}
	if p.ts.present {
		t.files["tsconfig.json"] = p.ts.render()
	}
	t.files["package.json"] = p.root.render()
	t.files["node_modules/pkg/package.json"] = p.pkg.render()
	t.files["node_modules/pkg/main.js"] = "module.exports = { name: \"main\" };\n"
	t.files["node_modules/pkg/alt.js"] = "module.exports = { name: \"alternate\" };\n"
	t.files["node_modules/pkg/esm.mjs"] = "console.log(\"pkg esm evaluated\");\nexport default { name: \"esm-build\" };\n"
	if p.nearPkg {
		t.files["src/node_modules/pkg/package.json"] = "{ \"name\": \"pkg\", \"main\": \"./near.js\" }\n"
		t.files["src/node_modules/pkg/near.js"] = "module.exports = { name: \"nearer-pkg\" };\n"
	}
	for _, lib := range []string{"react", "preact"} {
		t.files["node_modules/"+lib+"/package.json"] = fmt.Sprintf("{ \"name\": %q, \"main\": \"./index.js\" }\n", lib)
		t.files["node_modules/"+lib+"/index.js"] = fmt.Sprintf("export function createElement(t, p, ...c) { return [%q, t, p, c]; }\nexport const Fragment = %q;\nexport default { createElement, Fragment };\n", lib, lib+"-F")
		t.files["node_modules/"+lib+"/jsx-runtime.js"] = fmt.Sprintf("export function jsx(t, p, k) { return [%q, t, p, k]; }\nexport const jsxs = jsx;\nexport const Fragment = %q;\n", lib, lib+"-F")
		t.files["node_modules/"+lib+"/jsx-dev-runtime.js"] = fmt.Sprintf("export function jsxDEV(t, p, k, s, src, self) { return [%q, t, p, k, src]; }\nexport const Fragment = %q;\n", lib, lib+"-F")
	}
	t.files["src/s.css"] = fmt.Sprintf("@import \"./t.css\";\n.a { color: %s }\n", p.cssColor)
	t.files["src/t.css"] = ".t { margin: 0px }\n"
	p.probe.data.k = p.jsonK
	p.probeExpect = p.probe.render(t.files)
	// a TypeScript file without import/export: sloppy unless tsconfig strict/alwaysStrict says otherwise
	t.files["src/legacy.ts"] = fmt.Sprintf("console.log(\"legacy\", typeof this, %d);\nvar legacyObj: any = { a: 1 };\ndelete legacyObj.a;\n", p.libVal)
	t.files["src/lib/util.ts"] = fmt.Sprintf("export const u: number = %d;\n", p.libVal)
	t.files["src/lib2/util.ts"] = fmt.Sprintf("export const u: number = %d;\nconsole.log(\"lib2\");\n", p.libVal+1000)
	if p.subAsFile {
		t.files["src/sub.js"] = "export const v = 7001;\n"
	} else {
		t.files["src/sub/index.js"] = "export const v = 7002;\n"
	}
	if p.qAsDir {
		t.files["src/q.js/index.js"] = "export const v = 8002;\n"
	} else {
		t.files["src/q.js"] = "export const v = 8001;\n"
	}
	for k, v := range p.extra {
		t.files[k] = v
	}
	for k := range p.removed {
		delete(t.files, k)
	}
	if p.linkTo != "" {
		t.links["src/link.js"] = p.linkTo
	}
	return t
}

// ---------------------------------------------------------------- disk ops

type op struct {
	Kind    string `json:"op"` // write, remove, rename, symlink, mkdir
	Path    string `json:"path"`
	To      string `json:"to,omitempty"`
	Content string `json:"content,omitempty"`
	// mtime policy for writes: offset in ns from the history's base time
	// (always in the past, strictly increasing), or Fresh = leave "now"
	MtimeNs int64 `json:"mtime_ns,omitempty"`
	Fresh   bool  `json:"fresh_mtime,omitempty"`
	Replace bool  `json:"replace_inode,omitempty"` // write to a temp file and rename over (new inode)
}

type step struct {
	Desc string `json:"edit"`
	Ops  []op   `json:"ops"`
	// the line the probe entry must print when the bundle of this step is run
	ProbeExpect string `json:"probe_expect,omitempty"`
	// files whose cached JSX AST may be stale because of the known defect
	// (tsconfig jsx-mode edit while the file's contents stayed the same)
	jsxMode bool
}

type clock struct {
	ns   int64
	last map[string]int64 // last mtime offset given to each path
}

func (c *clock) tick(r *Rng) int64 {
	switch r.Intn(5) {
	case 0:
		c.ns += 1000 // same second, nanoseconds differ
	case 1:
		c.ns += int64(1+r.Intn(900)) * 1000 * 1000
	case 2:
		c.ns += 1000 * 1000 * 1000
	case 3:
		c.ns += int64(1+r.Intn(5000)) * 1000
	default:
		c.ns += int64(2+r.Intn(3600)) * 1000 * 1000 * 1000
	}
	return c.ns
}

// diff two desired states into concrete operations
func diffTrees(old, new *tree, r *Rng, ck *clock) []op {
	var ops []op
	var paths []string
	seen := map[string]bool{}
	for k := range old.files {
		seen[k] = true
		paths = append(paths, k)
	}
	for k := range new.files {
		if !seen[k] {
			seen[k] = true
			paths = append(paths, k)
		}
	}
	for k := range old.links {
		if !seen[k] {
			seen[k] = true
			paths = append(paths, k)
		}
	}
	for k := range new.links {
		if !seen[k] {
			seen[k] = true
			paths = append(paths, k)
		}
	}
	sort.Strings(paths)
	// removals first (a file may become a directory)
	for _, p := range paths {
		_, inNewF := new.files[p]
		_, inNewL := new.links[p]
		_, inOldF := old.files[p]
		oldL, inOldL := old.links[p]
		if (inOldF && !inNewF) || (inOldL && (!inNewL || new.links[p] != oldL)) {
			ops = append(ops, op{Kind: "remove", Path: p})
		}
	}
	for _, p := range paths {
		nc, inNewF := new.files[p]
		oc, inOldF := old.files[p]
		if inNewF && (!inOldF || nc != oc) {
			o := op{Kind: "write", Path: p, Content: nc}
			prev, hasPrev := ck.last[p]
			switch {
			case r.Chance(12):
				o.Fresh = true
				delete(ck.last, p)
			case inOldF && hasPrev && r.Chance(40):
				// the file's own mtime advances by less than a second (often by
				// nanoseconds only): size, inode and seconds may all stay the same
				o.MtimeNs = prev + int64(1+r.Intn(999))*int64([]int{1, 1000, 1000 * 1000}[r.Intn(3)])
				if o.MtimeNs > ck.ns {
					ck.ns = o.MtimeNs
				}
				ck.last[p] = o.MtimeNs
			default:
				o.MtimeNs = ck.tick(r)
				ck.last[p] = o.MtimeNs
			}
			o.Replace = inOldF && r.Chance(20)
			ops = append(ops, o)
		}
		if nl, ok := new.links[p]; ok {
			if ol, ok2 := old.links[p]; !ok2 || ol != nl {
				ops = append(ops, op{Kind: "symlink", Path: p, To: nl})
			}
		}
	}
	return ops
}

func pruneEmptyDirs(root, dir string) {
	for dir != root && strings.HasPrefix(dir, root) {
		ents, err := os.ReadDir(dir)
		if err != nil || len(ents) > 0 {
			return
		}
		os.Remove(dir)
		dir = filepath.Dir(dir)
	}
}

// number of operations of the harness's own edit scripts that the OS refused
// (reported in the evidence; never a panic: both builds see the same tree anyway)
var opsRefused int

func soft(err error) bool {
	if err != nil {
		opsRefused++
		return false
	}
	return true
}

// make path p free for a new file/symlink: a directory there is removed, and a
// regular file standing where a parent directory is needed is removed
func makeRoom(root, abs string) {
	if st, err := os.Lstat(abs); err == nil && st.IsDir() {
		os.RemoveAll(abs)
	}
	for dir := filepath.Dir(abs); dir != root && strings.HasPrefix(dir, root); dir = filepath.Dir(dir) {
		if st, err := os.Lstat(dir); err == nil && !st.IsDir() {
			os.Remove(dir)
		}
	}
	soft(os.MkdirAll(filepath.Dir(abs), 0o755))
}

func applyOps(root string, base time.Time, ops []op) {
	for _, o := range ops {
		abs := filepath.Join(root, filepath.FromSlash(o.Path))
		switch o.Kind {
		case "remove":
			if _, err := os.Lstat(abs); err == nil {
				soft(os.RemoveAll(abs))
			}
			pruneEmptyDirs(root, filepath.Dir(abs))
		case "rename":
			to := filepath.Join(root, filepath.FromSlash(o.To))
			if _, err := os.Lstat(abs); err != nil {
				continue // the source is gone: the following write creates the target
			}
			makeRoom(root, to)
			soft(os.Rename(abs, to))
			pruneEmptyDirs(root, filepath.Dir(abs))
		case "symlink":
			makeRoom(root, abs)
			os.Remove(abs)
			soft(os.Symlink(o.To, abs))
		case "write":
			makeRoom(root, abs)
			if st, err := os.Lstat(abs); err == nil && st.Mode()&os.ModeSymlink != 0 {
				os.Remove(abs) // never write through a symlink into another file
			}
			target := abs
			if o.Replace {
				target = abs + ".tmp~"
			}
			if !soft(os.WriteFile(target, []byte(o.Content), 0o644)) {
				continue
			}
			if !o.Fresh {
				t := base.Add(time.Duration(o.MtimeNs))
				soft(os.Chtimes(target, t, t))
			}
			if o.Replace {
				soft(os.Rename(target, abs))
			}
		}
	}
}

// ---------------------------------------------------------------- generator

type buildCfg struct {
	Bundle    bool     `json:"bundle"`
	Format    string   `json:"format"`
	Splitting bool     `json:"splitting"`
	Minify    bool     `json:"minify"`
	Sourcemap string   `json:"sourcemap"`
	Platform  string   `json:"platform"`
	Metafile  bool     `json:"metafile"`
	Write     bool     `json:"write"`
	Watch     bool     `json:"watch"`
	Entries   []string `json:"entries"`
}

func (c buildCfg) options(root, outdir string) api.BuildOptions {
	o := api.BuildOptions{
		AbsWorkingDir: root,
		EntryPoints:   c.Entries,
		Bundle:        c.Bundle,
		Outdir:        outdir,
		LogLevel:      api.LogLevelSilent,
		Metafile:      c.Metafile,
		Splitting:     c.Splitting,
		Write:         false,
	}
	switch c.Format {
	case "esm":
		o.Format = api.FormatESModule
	case "cjs":
		o.Format = api.FormatCommonJS
	case "iife":
		o.Format = api.FormatIIFE
	}
	switch c.Platform {
	case "node":
		o.Platform = api.PlatformNode
	case "neutral":
		o.Platform = api.PlatformNeutral
		o.MainFields = []string{"main"}
	}
	switch c.Sourcemap {
	case "linked":
		o.Sourcemap = api.SourceMapLinked
	case "inline":
		o.Sourcemap = api.SourceMapInline
	case "external":
		o.Sourcemap = api.SourceMapExternal
	}
	if c.Minify {
		o.MinifyWhitespace, o.MinifyIdentifiers, o.MinifySyntax = true, true, true
	}
	return o
}

type history struct {
	Cfg   buildCfg `json:"options"`
	Steps []step   `json:"steps"` // Steps[0] creates the initial tree
}

var exts = []string{".js", ".ts", ".jsx", ".tsx"}

func genProject(r *Rng) *project {
	p := &project{extra: map[string]string{}, removed: map[string]bool{}, cssColor: "red", jsonK: 1, libVal: 5, probe: newProbeLayer(r)}
	p.root = pkgjson{name: "app", typ: r.Pick([]string{"", "", "module", "commonjs"}), sideEffects: r.Intn(3)}
	p.pkg = pkgjson{name: "pkg", main: r.Pick([]string{"./main.js", "./alt.js"}), exports: r.Intn(4), sideEffects: r.Intn(2)}
	p.ts = tsconfig{present: r.Chance(85), jsx: r.Pick([]string{"", "react", "react-jsx", "react-jsxdev", "preserve"}), libDir: "lib", useDefine: r.Intn(3), strict: r.Intn(3), alwaysStrict: []int{0, 0, 1, 2}[r.Intn(4)], target: r.Pick([]string{"", "", "ES2020", "ESNext"})}
	if r.Chance(25) {
		p.ts.importSource = "preact"
	}
	n := r.Range(3, 6)
	for i := 0; i < n; i++ {
		m := &module{dir: "src", name: fmt.Sprintf("m%d", i), ext: exts[r.Intn(len(exts))], val: 10 + r.Intn(90),
			classField: r.Chance(50), sideEffect: r.Chance(40), pkg: r.Chance(30), css: r.Chance(20), json: r.Chance(25), lib: r.Chance(35)}
		// imports only of higher-numbered modules (acyclic), without extension so that shadowing works
		for j := i + 1; j < n; j++ {
			if r.Chance(45) {
				m.imports = append(m.imports, fmt.Sprintf("./m%d", j))
			} else if r.Chance(15) {
				m.bare = append(m.bare, fmt.Sprintf("./m%d", j))
			}
		}
		if r.Chance(20) {
			m.imports = append(m.imports, "./sub")
		}
		p.mods = append(p.mods, m)
	}
	// make sure at least one JSX and one TS module exist and are reachable from m0
	p.mods[n-1].ext = r.Pick([]string{".jsx", ".tsx"})
	p.mods[n-2].ext = r.Pick([]string{".ts", ".tsx"})
	m0 := p.mods[0]
	m0.imports = nil
	m0.bare = nil
	for j := 1; j < n; j++ {
		if j >= n-2 || r.Chance(60) {
			m0.imports = append(m0.imports, fmt.Sprintf("./m%d", j))
		}
	}
	m0.sideEffect = true
	m0.legacy = r.Chance(50)
	p.entries = []string{"src/m0" + m0.ext}
	return p
}

func genHistory(r *Rng, nsteps int) (*history, *project) {
	p := genProject(r)
	h := &history{}
	cfg := buildCfg{Bundle: r.Chance(90), Format: r.Pick([]string{"esm", "esm", "cjs", "iife"}), Minify: r.Chance(30),
		Sourcemap: r.Pick([]string{"", "", "linked", "inline", "external"}), Platform: r.Pick([]string{"browser", "browser", "node", "neutral"}),
		Metafile: r.Chance(40), Write: r.Chance(35), Watch: r.Chance(70)}
	if cfg.Bundle && cfg.Format == "esm" && r.Chance(50) {
		cfg.Splitting = true
		p.mods[0].dyn = "./m" + fmt.Sprint(len(p.mods)-1)
		p.mods[1].dyn = "./m" + fmt.Sprint(len(p.mods)-1)
	}
	cfg.Entries = append([]string{}, p.entries...)
	if cfg.Splitting || !cfg.Bundle || r.Chance(30) {
		cfg.Entries = append(cfg.Entries, p.mods[1].rel())
	}
	if cfg.Bundle {
		cfg.Entries = append(cfg.Entries, "src/probe.js")
	}
	h.Cfg = cfg
	ck := &clock{last: map[string]int64{}}
	cur := newTree()
	emit := func(desc string, extraOps []op, jsxMode bool) {
		nt := p.render()
		ops := append(extraOps, diffTrees(cur, nt, r, ck)...)
		h.Steps = append(h.Steps, step{Desc: desc, Ops: ops, jsxMode: jsxMode, ProbeExpect: p.probeExpect})
		cur = nt
	}
	emit("initial tree", nil, false)
	for s := 0; s < nsteps; s++ {
		desc, extraOps, jsxMode := p.randomEdit(r, cur)
		if extraOps != nil {
			// raw operations (rename) were applied to the model tree by the edit itself
			for _, o := range extraOps {
				if o.Kind == "rename" {
					if c, ok := cur.files[o.Path]; ok {
						delete(cur.files, o.Path)
						cur.files[o.To] = c
					}
				}
			}
		}
		emit(desc, extraOps, jsxMode)
	}
	return h, p
}

func (p *project) modByRel(rel string) *module {
	for _, m := range p.mods {
		if m.rel() == rel {
			return m
		}
	}
	return nil
}

// one random edit of the project; returns a description, optional raw ops to
// perform before the diff (renames keep the inode), and whether the edit is a
// tsconfig jsx-mode edit (the known defect's trigger)
func (p *project) randomEdit(r *Rng, cur *tree) (string, []op, bool) {
	live := []*module{}
	for _, m := range p.mods {
		if !p.removed[m.rel()] {
			live = append(live, m)
		}
	}
	pickLive := func() *module { return live[r.Intn(len(live))] }
	removedKeys := func() []string {
		var ks []string
		for k := range p.removed {
			ks = append(ks, k)
		}
		sort.Strings(ks)
		return ks
	}
	// pending breakage is repaired with priority so that most steps build successfully
	if r.Chance(45) {
		for _, m := range live {
			if m.broken {
				m.broken = false
				return "repair syntax error in " + m.rel(), nil, false
			}
		}
		if p.ts.brokenJSON {
			p.ts.brokenJSON = false
			return "tsconfig brokenJSON=false", nil, true
		}
		if ks := removedKeys(); len(ks) > 0 {
			delete(p.removed, ks[0])
			return "restore " + ks[0], nil, false
		}
	}
	for {
		switch r.Intn(31) {
		case 0, 1, 2: // content edit (length may change)
			m := pickLive()
			m.val += 1 + r.Intn(500)
			return "content edit " + m.rel(), nil, false
		case 3, 4: // same-length content edit
			m := pickLive()
			old := m.val
			if m.val%10 == 9 {
				m.val--
			} else {
				m.val++
			}
			if len(fmt.Sprint(old)) != len(fmt.Sprint(m.val)) {
				m.val = old
				continue
			}
			return "same-length content edit " + m.rel(), nil, false
		case 5: // create a module and import it
			nm := &module{dir: "src", name: fmt.Sprintf("n%d", len(p.mods)), ext: exts[r.Intn(len(exts))], val: 300 + r.Intn(100), sideEffect: r.Bool(), classField: r.Bool()}
			p.mods = append(p.mods, nm)
			im := pickLive()
			im.imports = append(im.imports, "./"+nm.name)
			return "create " + nm.rel() + " imported from " + im.rel(), nil, false
		case 6: // delete a module (importers keep the import: resolution error), or restore one
			if ks := removedKeys(); len(ks) > 0 {
				delete(p.removed, ks[0])
				return "restore " + ks[0], nil, false
			}
			if len(live) < 3 {
				continue
			}
			m := live[1+r.Intn(len(live)-1)]
			p.removed[m.rel()] = true
			return "delete " + m.rel(), nil, false
		case 7: // rename a module (same inode), importers updated or not
			if len(live) < 3 {
				continue
			}
			m := live[1+r.Intn(len(live)-1)]
			isEntry := false
			for _, e := range p.entries {
				if e == m.rel() {
					isEntry = true
				}
			}
			if isEntry || m.name == "m1" {
				continue
			}
			old := m.rel()
			oldName := m.name
			m.name = fmt.Sprintf("r%d_%s", r.Intn(1000), strings.TrimLeft(oldName, "r0123456789_"))
			update := r.Chance(70)
			if update {
				for _, o := range p.mods {
					for i, s := range o.imports {
						if s == "./"+oldName {
							o.imports[i] = "./" + m.name
						}
					}
					for i, s := range o.bare {
						if s == "./"+oldName {
							o.bare[i] = "./" + m.name
						}
					}
					if o.dyn == "./"+oldName {
						o.dyn = "./" + m.name
					}
				}
			}
			// note: the rendered contents of the renamed module contain its name, so the diff rewrites it too
			return fmt.Sprintf("rename %s -> %s (importers updated: %v)", old, m.rel(), update), []op{{Kind: "rename", Path: old, To: m.rel()}}, false
		case 8: // root package.json type
			p.root.typ = r.Pick([]string{"", "module", "commonjs"})
			return "package.json type=" + p.root.typ, nil, false
		case 9: // root package.json sideEffects
			p.root.sideEffects = (p.root.sideEffects + 1 + r.Intn(2)) % 3
			return fmt.Sprintf("package.json sideEffects=%d", p.root.sideEffects), nil, false
		case 10: // dependency exports / main / sideEffects / type
			switch r.Intn(4) {
			case 0:
				p.pkg.exports = (p.pkg.exports + 1 + r.Intn(3)) % 4
			case 1:
				if p.pkg.main == "./main.js" {
					p.pkg.main = "./alt.js"
				} else {
					p.pkg.main = "./main.js"
				}
			case 2:
				p.pkg.sideEffects = (p.pkg.sideEffects + 1) % 3
			case 3:
				p.pkg.typ = r.Pick([]string{"", "module", "commonjs"})
			}
			// make sure some module uses the package
			pickLive().pkg = true
			return "node_modules/pkg/package.json " + strings.ReplaceAll(p.pkg.render(), "\n", " "), nil, false
		case 11, 12: // tsconfig jsx mode (known defect C when JSX files keep their contents)
			if !p.ts.present {
				p.ts.present = true
			}
			old := p.ts
			switch r.Intn(3) {
			case 0, 1:
				p.ts.jsx = r.Pick([]string{"", "react", "react-jsx", "react-jsxdev", "preserve"})
			case 2:
				if p.ts.importSource == "" {
					p.ts.importSource = "preact"
				} else {
					p.ts.importSource = ""
				}
			}
			if old == p.ts {
				continue
			}
			return "tsconfig jsx-mode: jsx=" + p.ts.jsx + " jsxImportSource=" + p.ts.importSource, nil, true
		case 13: // tsconfig jsxFactory (compared by Options.Equal)
			if p.ts.factory == "" {
				p.ts.factory = "h"
			} else {
				p.ts.factory = ""
			}
			p.ts.present = true
			return "tsconfig jsxFactory=" + p.ts.factory, nil, false
		case 14: // tsconfig paths / useDefineForClassFields / target / verbatimModuleSyntax
			p.ts.present = true
			switch r.Intn(4) {
			case 0:
				if p.ts.libDir == "lib" {
					p.ts.libDir = "lib2"
				} else {
					p.ts.libDir = "lib"
				}
				pickLive().lib = true
				return "tsconfig paths @lib/* -> src/" + p.ts.libDir, nil, false
			case 1:
				p.ts.useDefine = (p.ts.useDefine + 1 + r.Intn(2)) % 3
				for _, m := range live {
					if m.isTS() {
						m.classField = true
					}
				}
				return fmt.Sprintf("tsconfig useDefineForClassFields=%d", p.ts.useDefine), nil, false
			case 2:
				p.ts.target = r.Pick([]string{"", "ES2020", "ESNext", "ES2022"})
				return "tsconfig target=" + p.ts.target, nil, false
			default:
				p.ts.verbatim = !p.ts.verbatim
				return fmt.Sprintf("tsconfig verbatimModuleSyntax=%v", p.ts.verbatim), nil, false
			}
		case 15: // tsconfig deleted / recreated / syntax error in it
			switch r.Intn(3) {
			case 0:
				p.ts.present = !p.ts.present
				return fmt.Sprintf("tsconfig present=%v", p.ts.present), nil, p.ts.jsx != "" || p.ts.importSource != ""
			default:
				p.ts.present = true
				p.ts.brokenJSON = !p.ts.brokenJSON
				return fmt.Sprintf("tsconfig brokenJSON=%v", p.ts.brokenJSON), nil, p.ts.jsx != "" || p.ts.importSource != ""
			}
		case 16: // shadowing: x.ts before x.js (or removal of the shadow)
			var cands []*module
			for _, m := range live {
				if m.ext != ".tsx" && m != p.mods[0] {
					cands = append(cands, m)
				}
			}
			if len(cands) == 0 {
				continue
			}
			m := cands[r.Intn(len(cands))]
			sh := m.dir + "/" + m.name + ".tsx" // .tsx is first in the default resolve order
			if _, ok := p.extra[sh]; ok {
				delete(p.extra, sh)
				return "remove shadowing file " + sh, nil, false
			}
			p.extra[sh] = fmt.Sprintf("export const v: number = %d;\nexport default \"shadow\";\nexport const el = null;\nexport class K_%s {}\nexport const lazy = 0;\n", 9000+r.Intn(100), m.name)
			return "add shadowing file " + sh + " (resolved before " + m.rel() + ")", nil, false
		case 17: // nearer node_modules
			p.nearPkg = !p.nearPkg
			pickLive().pkg = true
			return fmt.Sprintf("nearer node_modules src/node_modules/pkg present=%v", p.nearPkg), nil, false
		case 18: // file <-> directory
			m := pickLive()
			spec := "./sub"
			if r.Bool() {
				spec = "./q.js"
				p.qAsDir = !p.qAsDir
			} else {
				p.subAsFile = !p.subAsFile
			}
			has := false
			for _, s := range m.imports {
				if s == spec {
					has = true
				}
			}
			if !has {
				m.imports = append(m.imports, spec)
			}
			if spec == "./q.js" {
				return fmt.Sprintf("src/q.js is a directory with index.js: %v, else a file", p.qAsDir), nil, false
			}
			return fmt.Sprintf("./sub is a file (sub.js): %v, else directory sub/index.js", p.subAsFile), nil, false
		case 19, 20: // syntax error introduced / repaired
			for _, m := range live {
				if m.broken {
					m.broken = false
					return "repair syntax error in " + m.rel(), nil, false
				}
			}
			m := pickLive()
			m.broken = true
			return "introduce syntax error in " + m.rel(), nil, false
		case 21: // css / json / lib contents
			switch r.Intn(3) {
			case 0:
				p.cssColor = r.Pick([]string{"red", "blue", "#ff0000", "rgb(1, 2, 3)"})
				pickLive().css = true
				return "css color " + p.cssColor, nil, false
			case 1:
				p.jsonK += 1 + r.Intn(9)
				pickLive().json = true
				return fmt.Sprintf("json k=%d", p.jsonK), nil, false
			default:
				p.libVal += 1 + r.Intn(9)
				pickLive().lib = true
				return fmt.Sprintf("lib util u=%d", p.libVal), nil, false
			}
		case 22: // symlink created / retargeted / removed
			if p.linkTo != "" && r.Chance(30) {
				p.linkTo = ""
				for _, m := range p.mods {
					m.link = false
				}
				return "remove symlink src/link.js and its imports", nil, false
			}
			var cands []*module
			for _, m := range live[1:] {
				if m.ext == ".js" || m.ext == ".jsx" {
					cands = append(cands, m)
				}
			}
			if len(cands) == 0 {
				continue
			}
			t := cands[r.Intn(len(cands))]
			if p.linkTo == t.name+t.ext {
				continue
			}
			p.linkTo = t.name + t.ext
			p.mods[0].link = true
			return "symlink src/link.js -> " + p.linkTo, nil, false
		case 26, 27, 28, 29, 30: // the data importers change, the data files stay untouched (cache hits)
			return p.probe.flip(r), nil, false
		case 24, 25: // tsconfig strict / alwaysStrict: absent <-> true <-> false (presence and value)
			p.ts.present = true
			p.mods[0].legacy = true
			if r.Bool() {
				p.ts.strict = (p.ts.strict + 1 + r.Intn(2)) % 3
			} else {
				p.ts.alwaysStrict = (p.ts.alwaysStrict + 1 + r.Intn(2)) % 3
			}
			return fmt.Sprintf("tsconfig strict=%d alwaysStrict=%d (0 absent, 1 true, 2 false)", p.ts.strict, p.ts.alwaysStrict), nil, false
		case 23: // toggle structural flags of a module (imports added/removed)
			m := pickLive()
			switch r.Intn(4) {
			case 0:
				m.sideEffect = !m.sideEffect
			case 1:
				m.classField = !m.classField
			case 2:
				m.pkg = !m.pkg
			case 3:
				m.json = !m.json
			}
			return "restructure " + m.rel(), nil, false
		}
	}
}
