package main

import (
	"encoding/json"
	"fmt"
	"os"
	"path/filepath"
	"sort"
	"strings"
	"time"

	"github.com/evanw/esbuild/pkg/api"
	. "github.com/evanw/esbuild/verifharness/hlib"
)

const (
	whatRebuild  = "ctx.Rebuild() differs from a fresh api.Build of the current tree"
	whatWatch    = "watch mode: an edit changes the fresh build result but no watch predicate reports a change"
	whatTick     = "watch mode: predicates report a dirty path but the watcher's scan never returns it"
	whatDisk     = "ctx.Rebuild() with write=true leaves an output directory that differs from the returned output files"
	whatSpurious = "watch mode: the watch data installed by the build that just finished reports a change on the unedited tree"
	whatRepeat   = "a second ctx.Rebuild() without any edit differs from the fresh build"
)

type canonMsg struct {
	ID, Plugin, Text string
	Loc              *api.Location
	Notes            []api.Note
}

func canonMsgs(ms []api.Message) []canonMsg {
	out := make([]canonMsg, len(ms))
	for i, m := range ms {
		out[i] = canonMsg{m.ID, m.PluginName, m.Text, m.Location, m.Notes}
	}
	return out
}

type canonOut struct {
	Path, Contents string
}

type canonResult struct {
	Errors, Warnings []canonMsg
	Outputs          []canonOut
	Metafile         string
}

func canon(r api.BuildResult) (string, canonResult) {
	c := canonResult{Errors: canonMsgs(r.Errors), Warnings: canonMsgs(r.Warnings), Metafile: r.Metafile}
	for _, o := range r.OutputFiles {
		c.Outputs = append(c.Outputs, canonOut{o.Path, string(o.Contents)})
	}
	b, _ := json.Marshal(c)
	return string(b), c
}

// a short human-readable account of the first difference
func firstDiff(a, b canonResult) (string, string) {
	short := func(s string) string {
		if len(s) > 1500 {
			return s[:1500] + "..."
		}
		return s
	}
	ja, _ := json.Marshal(a.Errors)
	jb, _ := json.Marshal(b.Errors)
	if string(ja) != string(jb) {
		return "errors: " + short(string(ja)), "errors: " + short(string(jb))
	}
	ja, _ = json.Marshal(a.Warnings)
	jb, _ = json.Marshal(b.Warnings)
	if string(ja) != string(jb) {
		return "warnings: " + short(string(ja)), "warnings: " + short(string(jb))
	}
	window := func(label, x, y string) (string, string) {
		i := 0
		for i < len(x) && i < len(y) && x[i] == y[i] {
			i++
		}
		lo := i - 300
		if lo < 0 {
			lo = 0
		}
		cut := func(z string) string {
			hi := i + 600
			if hi > len(z) {
				hi = len(z)
			}
			return fmt.Sprintf("%s (first difference at byte %d of %d) ...%s...", label, i, len(z), z[lo:hi])
		}
		return cut(x), cut(y)
	}
	if len(a.Outputs) != len(b.Outputs) {
		return fmt.Sprintf("%d output files", len(a.Outputs)), fmt.Sprintf("%d output files", len(b.Outputs))
	}
	for i := range a.Outputs {
		if a.Outputs[i].Path != b.Outputs[i].Path {
			return "output path " + a.Outputs[i].Path, "output path " + b.Outputs[i].Path
		}
		if a.Outputs[i] != b.Outputs[i] {
			return window(a.Outputs[i].Path, a.Outputs[i].Contents, b.Outputs[i].Contents)
		}
	}
	return window("metafile", a.Metafile, b.Metafile)
}

type glueFailure struct {
	what   string
	stepNo int
	got    string
	expect string
	detail map[string]interface{}
}

type execStats struct {
	steps, rebuildChecks, watchChecks, watchChanged, dirtySeen, diskChecks, errorBuilds, cures, flakes, probeRuns int
	kinds                                                                                                         map[string]int
}

func readOutdir(outdir string) map[string]string {
	m := map[string]string{}
	filepath.Walk(outdir, func(p string, info os.FileInfo, err error) error {
		if err == nil && !info.IsDir() {
			b, _ := os.ReadFile(p)
			m[p] = string(b)
		}
		return nil
	})
	return m
}

// runHistory executes the history in dir and evaluates the property's
// predicates after every step. It returns the failures found (known-defect
// failures are labelled by their own "what").
func runHistory(h *history, dir string, es *execStats) []glueFailure {
	root := filepath.Join(dir, "proj")
	outdir := filepath.Join(dir, "out")
	must(os.MkdirAll(root, 0o755))
	if rp, err := filepath.EvalSymlinks(root); err == nil {
		root = rp
	}
	base := time.Now().Add(-30 * 24 * time.Hour).Truncate(time.Second)
	var fails []glueFailure

	applyOps(root, base, h.Steps[0].Ops)

	opts := h.Cfg.options(root, outdir)
	ctxOpts := opts
	ctxOpts.Write = h.Cfg.Write
	ctx, cerr := api.Context(ctxOpts)
	if cerr != nil {
		return []glueFailure{{what: "api.Context failed on valid options", stepNo: 0, got: fmt.Sprint(cerr.Errors)}}
	}
	defer ctx.Dispose()
	if h.Cfg.Watch {
		api.VerifWatchManual(ctx)
	}

	var prevFresh string

	var lastRB api.BuildResult
	compare := func(stepNo int) (ok bool, got, expect string, gc, ec canonResult) {
		rb := ctx.Rebuild()
		lastRB = rb
		fr := api.Build(opts)
		gs, gcr := canon(rb)
		fs, fcr := canon(fr)
		es.rebuildChecks++
		if len(fr.Errors) > 0 {
			es.errorBuilds++
			t := fr.Errors[0].Text
			if len(t) > 60 {
				t = t[:60]
			}
			es.kinds[t]++
		}
		if gs != fs {
			// rule out a nondeterministic fresh build before blaming the context
			fr2 := api.Build(opts)
			fs2, _ := canon(fr2)
			if fs2 != fs {
				es.flakes++
				return true, gs, fs, gcr, fcr
			}
		}
		if h.Cfg.Write && len(rb.Errors) == 0 {
			es.diskChecks++
			onDisk := readOutdir(outdir)
			want := map[string]string{}
			for _, o := range rb.OutputFiles {
				want[o.Path] = string(o.Contents)
			}
			if !mapsEqual(onDisk, want) {
				fails = append(fails, glueFailure{what: whatDisk, stepNo: stepNo, got: fmt.Sprint(keysOf(onDisk)), expect: fmt.Sprint(keysOf(want))})
			}
		}
		prevFresh = fs
		return gs == fs, gs, fs, gcr, fcr
	}

	for k := 0; k < len(h.Steps); k++ {
		es.steps++
		var dirty, watched []string
		beforeFresh := prevFresh
		if k > 0 {
			applyOps(root, base, h.Steps[k].Ops)
			if h.Cfg.Watch {
				dirty = api.VerifDirtyPaths(ctx)
				watched = api.VerifWatchedPaths(ctx)
				if len(dirty) > 0 {
					// the watcher's own scan must find a dirty path within two full cycles
					found := ""
					for t := 0; t < 64 && found == ""; t++ {
						found = api.VerifWatcherTick(ctx)
					}
					if found == "" {
						fails = append(fails, glueFailure{what: whatTick, stepNo: k, got: "64 scan iterations returned no path", expect: fmt.Sprint(dirty)})
					}
				}
			}
		}
		ok, got, expect, gc, ec := compare(k)
		if h.Cfg.Watch {
			// the watch data installed by the build that just finished describes
			// the tree as it is now: nothing was edited, nothing may be dirty
			// (otherwise watch mode rebuilds forever, or is looking at stale data)
			if spurious := api.VerifDirtyPaths(ctx); len(spurious) > 0 {
				fails = append(fails, glueFailure{what: whatSpurious, stepNo: k, got: fmt.Sprint(relTo(root, spurious)), expect: "no dirty path: the tree was not edited since the build finished"})
			}
		}
		if k > 0 && h.Cfg.Watch {
			es.watchChecks++
			if len(dirty) > 0 {
				es.dirtySeen++
			}
			if prevFresh != beforeFresh {
				es.watchChanged++
				if len(dirty) == 0 {
					fails = append(fails, glueFailure{what: whatWatch, stepNo: k, got: "dirty paths: []", expect: "at least one dirty path (fresh build result changed)",
						detail: map[string]interface{}{"watched_paths_of_previous_build": relTo(root, watched)}})
				}
			}
		}
		if ok && h.Cfg.Bundle && len(lastRB.Errors) == 0 && h.Steps[k].ProbeExpect != "" {
			// run the rebuilt bundle: the data-layer values must be the ones the project defines
			if line, ran := runProbe(filepath.Join(dir, "run"), outdir, h.Cfg.Format, lastRB.OutputFiles); ran {
				es.probeRuns++
				if line != h.Steps[k].ProbeExpect {
					fails = append(fails, glueFailure{what: whatProbe, stepNo: k, got: line, expect: h.Steps[k].ProbeExpect})
				}
			}
		}
		if !ok {
			g, e := firstDiff(gc, ec)
			_ = got
			_ = expect
			fails = append(fails, glueFailure{what: whatRebuild, stepNo: k, got: g, expect: e})
			if len(fails) > 0 && fails[len(fails)-1].what == whatRebuild {
				return fails // the context is in an unknown state from here on
			}
		} else if k%4 == 3 {
			// no matter how many rebuilds preceded it
			rb := ctx.Rebuild()
			gs, gcr := canon(rb)
			var ecr canonResult
			json.Unmarshal([]byte(prevFresh), &ecr)
			if gs != prevFresh {
				g, e := firstDiff(gcr, ecr)
				fails = append(fails, glueFailure{what: whatRepeat, stepNo: k, got: g, expect: e})
				return fails
			}
		}
	}
	return fails
}

func mapsEqual(a, b map[string]string) bool {
	if len(a) != len(b) {
		return false
	}
	for k, v := range a {
		if w, ok := b[k]; !ok || w != v {
			return false
		}
	}
	return true
}

func keysOf(m map[string]string) []string {
	var ks []string
	for k := range m {
		ks = append(ks, k)
	}
	sort.Strings(ks)
	return ks
}

func streamGlue(seed uint64, n int, tier string, tmp string) *Stats {
	st := NewStats("c09/glue", seed)
	r := NewRng(seed ^ 0xC0961)
	nHist := n / 16
	if nHist < 12 {
		nHist = 12
	}
	es := &execStats{kinds: map[string]int{}}
	ranHist := 0
	for i := 0; i < nHist && !budgetSpent(1.0); i++ {
		ranHist++
		h, _ := genHistory(r, r.Range(6, 14))
		dir := filepath.Join(tmp, fmt.Sprintf("g%d", i))
		fails := runHistory(h, dir, es)
		os.RemoveAll(dir)
		key := fmt.Sprintf("%d", i)
		for _, s := range h.Steps[1:] {
			kind := strings.SplitN(s.Desc, " ", 2)[0]
			if strings.HasPrefix(s.Desc, "same-length") || strings.HasPrefix(s.Desc, "tsconfig jsx-mode") || strings.HasPrefix(s.Desc, "node_modules/pkg") {
				kind = strings.Join(strings.SplitN(s.Desc, " ", 3)[:2], " ")
			}
			st.Note("edit:"+kind, key+":"+s.Desc, true)
		}
		if i < 2 {
			var descs []string
			for _, s := range h.Steps {
				descs = append(descs, s.Desc)
			}
			st.Sample(map[string]interface{}{"glue_history_options": h.Cfg, "edits": descs})
		}
		var again []glueFailure
		if len(fails) > 0 {
			// re-run the whole history in a new directory before reporting
			dir2 := filepath.Join(tmp, fmt.Sprintf("g%d-replay", i))
			es2 := &execStats{kinds: map[string]int{}}
			again = runHistory(h, dir2, es2)
			os.RemoveAll(dir2)
		}
		for _, f := range fails {
			confirmed := false
			for _, g := range again {
				if g.what == f.what && g.stepNo == f.stepNo {
					confirmed = true
				}
			}
			if !confirmed {
				st.Histogram["unconfirmed:"+f.what]++
				continue
			}
			in := map[string]interface{}{"options": h.Cfg, "failing_step": f.stepNo, "failing_edit": h.Steps[f.stepNo].Desc, "history": h.Steps[:f.stepNo+1]}
			if f.detail != nil {
				in["detail"] = f.detail
			}
			st.Fail(f.what, in, f.got, f.expect)
		}
	}
	st.Extra["histories_planned"], st.Extra["histories_run"] = nHist, ranHist
	st.Extra["stopped_by_wall_clock_budget"] = ranHist < nHist
	st.Extra["steps"] = es.steps
	st.Extra["first_error_of_failing_builds"] = es.kinds
	st.Extra["bundles_executed_in_node"] = es.probeRuns
	st.Extra["edit_script_ops_refused_by_os"] = opsRefused
	st.Extra["rebuild_vs_fresh_checks"] = es.rebuildChecks
	st.Extra["watch_checks"] = es.watchChecks
	st.Extra["watch_checks_where_fresh_result_changed"] = es.watchChanged
	st.Extra["watch_steps_with_dirty_paths"] = es.dirtySeen
	st.Extra["disk_checks"] = es.diskChecks
	st.Extra["steps_with_build_errors"] = es.errorBuilds
	st.Extra["nondeterministic_fresh_builds"] = es.flakes
	st.Finish("one case = one edit step of a random real-directory edit history (rebuild on a context vs fresh api.Build, byte equality of outputs, metafile and diagnostics; watch predicates of the previous build vs 'fresh result changed'); all steps are non-trivial (each changes the tree); distinct by history number and edit description")
	return st
}

func relTo(root string, ps []string) []string {
	out := make([]string, len(ps))
	for i, p := range ps {
		if rel, err := filepath.Rel(root, p); err == nil {
			out[i] = rel
		} else {
			out[i] = p
		}
	}
	return out
}
