package main

import (
	"fmt"
	"strconv"
	"strings"
	"syscall"

	"github.com/evanw/esbuild/internal/cache"
	"github.com/evanw/esbuild/internal/fs"
	"github.com/evanw/esbuild/internal/logger"
	. "github.com/evanw/esbuild/verifharness/hlib"
)

// scriptFS answers ModKey and ReadFile from a script; everything else is the
// (empty) mock FS. fs.FS has an unexported method, so the interface can only be
// satisfied by embedding an existing implementation.
type scriptFS struct {
	fs.FS
	mk         func(path string) (fs.ModKey, error)
	rd         func(path string) (string, error)
	readCalled bool
}

func (s *scriptFS) ModKey(p string) (fs.ModKey, error) { return s.mk(p) }
func (s *scriptFS) ReadFile(p string) (string, error, error) {
	s.readCalled = true
	c, err := s.rd(p)
	return c, err, err
}

// the scripted world: per path a status, a key and contents
type simFile struct {
	exists   bool
	contents int           // contents id; the text is "c<id>"
	key      [6]int64      // inode,size,sec,nsec,mode,uid
	unusable bool          // ModKey answers modKeyUnusable
	readErr  syscall.Errno // if != 0 ReadFile fails with it although the file exists
}

func encMK(f *simFile) (string, fs.ModKey, error) {
	if !f.exists {
		return "[2;2]", fs.ModKey{}, syscall.ENOENT
	}
	if f.unusable {
		return "[1]", fs.ModKey{}, fs.VerifModKeyUnusable
	}
	k := f.key
	return fmt.Sprintf("[0;%d;%d;%d;%d;%d;%d]", k[0], k[1], k[2], k[3], k[4], k[5]),
		fs.VerifMakeModKey(uint64(k[0]), k[1], k[2], k[3], uint32(k[4]), uint32(k[5])), nil
}

func encRD(f *simFile) (string, string, error) {
	if !f.exists {
		return "[1;2]", "", syscall.ENOENT
	}
	if f.readErr != 0 {
		return fmt.Sprintf("[1;%d]", int(f.readErr)), "", f.readErr
	}
	return fmt.Sprintf("[0;%d]", f.contents), "c" + strconv.Itoa(f.contents), nil
}

func encResult(contents string, err error) string {
	if err != nil {
		if en, ok := err.(syscall.Errno); ok {
			return fmt.Sprintf("[1;%d]", int(en))
		}
		return "[1;-7]"
	}
	id, e := strconv.Atoi(strings.TrimPrefix(contents, "c"))
	if e != nil || !strings.HasPrefix(contents, "c") {
		return "[0;-7]"
	}
	return fmt.Sprintf("[0;%d]", id)
}

func streamFSCache(seed uint64, n int, cf *CoqFile) *Stats {
	st := NewStats("c09/fscache", seed)
	r := NewRng(seed ^ 0xC09F5)
	var items []string
	nHist := n / 4
	if nHist < 40 {
		nHist = 40
	}
	nextContents := 1
	ran := 0
	for h := 0; h < nHist && !budgetSpent(0.10); h++ {
		ran++
		npaths := r.Range(1, 4)
		files := make([]*simFile, npaths)
		for i := range files {
			files[i] = &simFile{exists: r.Chance(85), contents: nextContents, key: [6]int64{int64(100 + i), int64(r.Intn(3)), 1000, int64(r.Intn(3)), 420, 0}, unusable: r.Chance(15)}
			nextContents++
		}
		cur := -1
		sfs := &scriptFS{FS: fs.MockFS(map[string]string{}, fs.MockUnix, "/")}
		sfs.mk = func(p string) (fs.ModKey, error) { _, k, e := encMK(files[cur]); return k, e }
		sfs.rd = func(p string) (string, error) { _, c, e := encRD(files[cur]); return c, e }
		caches := cache.MakeCacheSet()
		steps := r.Range(2, 14)
		var stepStrs []string
		sound := true // does the history satisfy "mod key changes when contents change"?
		type seenKey struct {
			p int
			k [6]int64
		}
		seen := map[seenKey]int{} // usable key -> contents read successfully under it
		kinds := ""
		for s := 0; s < steps; s++ {
			// edits between accesses
			for e := r.Intn(3); e > 0; e-- {
				f := files[r.Intn(npaths)]
				switch r.Intn(10) {
				case 0, 1: // content edit, size and mtime change
					f.exists, f.contents = true, nextContents
					nextContents++
					f.key[1] = int64(r.Intn(5))
					f.key[2]++
					kinds += "E"
				case 2, 3: // same-length edit: only mtime nsec advances
					f.exists, f.contents = true, nextContents
					nextContents++
					f.key[3]++
					kinds += "e"
				case 4: // touch: key changes, contents stay
					f.key[3] += 2
					kinds += "t"
				case 5: // delete / recreate by rename: new inode
					if f.exists {
						f.exists = false
					} else {
						f.exists, f.contents = true, nextContents
						nextContents++
						f.key[0] += 10
					}
					kinds += "d"
				case 6: // too-new mtime <-> usable
					f.unusable = !f.unusable
					kinds += "u"
				case 7: // unreadable although stat works
					if f.readErr == 0 {
						f.readErr = syscall.EACCES
					} else {
						f.readErr = 0
					}
					kinds += "a"
				case 8: // edit without any change of the key (violates the property's assumption)
					if r.Chance(40) {
						f.contents = nextContents
						nextContents++
						kinds += "X"
					}
				case 9: // edit while the key is unusable
					f.contents = nextContents
					nextContents++
					f.key[2]++
					kinds += "E"
				}
			}
			cur = r.Intn(npaths)
			f := files[cur]
			mkS, _, mkErr := encMK(f)
			rdS, want, wantErr := encRD(f)
			sfs.readCalled = false
			got, gotErr, _ := caches.FSCache.ReadFile(sfs, fmt.Sprintf("/p%d", cur))
			obs := encResult(got, gotErr)
			stepStrs = append(stepStrs, fmt.Sprintf("(%d, %s, %s, %s, %s)", cur, mkS, rdS, obs, CBool(sfs.readCalled)))
			// the property's own predicate, when its assumption holds for this history
			if mkErr == nil {
				sk := seenKey{cur, f.key}
				if c, ok := seen[sk]; ok && (wantErr != nil || c != f.contents) {
					sound = false
				}
				if wantErr == nil {
					if _, ok := seen[sk]; !ok {
						seen[sk] = f.contents
					}
				}
			}
			if sound && (got != want || (gotErr == nil) != (wantErr == nil) || (gotErr != nil && gotErr != wantErr)) {
				st.Fail("FSCache.ReadFile differs from fs.ReadFile although mod keys advanced normally",
					map[string]interface{}{"history": append([]string{}, stepStrs...)}, obs, rdS)
			}
		}
		item := "[" + strings.Join(stepStrs, "; ") + "]"
		items = append(items, item)
		st.Note("fscache-history", item, strings.ContainsAny(kinds, "Eetdua"))
		if h < 2 {
			st.Sample(map[string]interface{}{"fscache_history": stepStrs, "edits": kinds})
		}
	}
	st.Extra["histories_planned"], st.Extra["histories_run"] = nHist, ran
	cf.AddCases("fscache", "list fs_step", "check_fscache", items)
	st.Finish("one case = one random history of FSCache.ReadFile calls on a fresh cache with edits (content, same-length, touch, delete/recreate, unusable key, unreadable) between them; non-trivial = at least one edit happened; distinct by full history")
	return st
}

func streamSI(seed uint64, n int, cf *CoqFile) *Stats {
	st := NewStats("c09/si", seed)
	r := NewRng(seed ^ 0xC0951)
	var items []string
	for h := 0; h < 30+n/20; h++ {
		caches := cache.MakeCacheSet()
		first := int64(caches.SourceIndexCache.LenHint()) - 16 // nextSourceIndex
		nk := r.Range(1, 12)
		var keys, obs []int64
		for i := 0; i < nk; i++ {
			p := r.Intn(5)
			kind := r.Intn(2)
			idx := caches.SourceIndexCache.Get(logger.Path{Text: fmt.Sprintf("/f%d", p), Namespace: "file"}, cache.SourceIndexKind(kind))
			keys = append(keys, int64(p*2+kind))
			obs = append(obs, int64(idx))
		}
		item := fmt.Sprintf("(%d, %s, %s)", first, CZList(keys), CZList(obs))
		items = append(items, item)
		st.Note("si-history", item, nk > 2)
	}
	cf.AddCases("si", "Z * list Z * list Z", "check_si", items)
	st.Finish("one case = a random sequence of SourceIndexCache.Get keys on a fresh cache set; non-trivial = more than two calls")
	return st
}
