package main

// jsonread stream: the resolver's cached read of package.json / tsconfig.json,
// i.e. cache.FSCache.ReadFile followed by cache.JSONCache.Parse on the same
// cache set, driven through a scripted fs.FS with random edit histories.
// Compared in Coq with the cache-set model (check_jsonread: FSCache_ReadFile +
// memo_parse step by step, and run_cached3 on the read_json program).

import (
	"fmt"
	"strings"
	"syscall"

	"github.com/evanw/esbuild/internal/cache"
	"github.com/evanw/esbuild/internal/fs"
	"github.com/evanw/esbuild/internal/js_ast"
	"github.com/evanw/esbuild/internal/js_lexer"
	"github.com/evanw/esbuild/internal/js_parser"
	"github.com/evanw/esbuild/internal/logger"
	. "github.com/evanw/esbuild/verifharness/hlib"
)

func streamJSONRead(seed uint64, n int, cf *CoqFile) *Stats {
	st := NewStats("c09/jsonread", seed)
	r := NewRng(seed ^ 0xC09A5)
	var items []string
	nHist := 30 + n/8
	ran := 0
	nextContents := 1
	for h := 0; h < nHist && !budgetSpent(0.15); h++ {
		ran++
		npaths := r.Range(1, 3)
		files := make([]*simFile, npaths)
		for i := range files {
			files[i] = &simFile{exists: r.Chance(90), contents: nextContents, key: [6]int64{int64(200 + i), 8, 2000, int64(r.Intn(3)), 420, 0}, unusable: r.Chance(15)}
			nextContents++
		}
		cur := -1
		sfs := &scriptFS{FS: fs.MockFS(map[string]string{}, fs.MockUnix, "/")}
		sfs.mk = func(p string) (fs.ModKey, error) { _, k, e := encMK(files[cur]); return k, e }
		sfs.rd = func(p string) (string, error) {
			f := files[cur]
			if !f.exists {
				return "", syscall.ENOENT
			}
			if f.readErr != 0 {
				return "", f.readErr
			}
			return fmt.Sprintf("{\"v\": %d}", f.contents), nil
		}
		caches := cache.MakeCacheSet()
		seenExpr := map[js_ast.E]bool{}
		var stepStrs []string
		sound := true
		type sk struct {
			p int
			k [6]int64
		}
		seen := map[sk]int{}
		edits := 0
		for s := r.Range(2, 12); s > 0; s-- {
			for e := r.Intn(3); e > 0; e-- {
				f := files[r.Intn(npaths)]
				edits++
				switch r.Intn(7) {
				case 0, 1: // content edit, mtime advances
					f.exists, f.contents = true, nextContents
					nextContents++
					f.key[3]++
				case 2: // touch
					f.key[2]++
				case 3: // delete / recreate
					if f.exists {
						f.exists = false
					} else {
						f.exists, f.contents = true, nextContents
						nextContents++
						f.key[0] += 10
					}
				case 4:
					f.unusable = !f.unusable
				case 5: // restore earlier contents under a new key (same source, new mod key: JSON cache hit after a file cache miss)
					if f.contents > 1 {
						f.contents--
					}
					f.key[2]++
				case 6: // edit without a key change (outside the property's assumption)
					if r.Chance(30) {
						f.contents = nextContents
						nextContents++
					}
				}
			}
			cur = r.Intn(npaths)
			f := files[cur]
			opt := 0
			opts := js_parser.JSONOptions{}
			if r.Chance(25) {
				opt = 1
				opts.Flavor = js_lexer.TSConfigJSON
			}
			mkS, _, mkErr := encMK(f)
			rdS := "[1;2]"
			if f.exists && f.readErr == 0 {
				rdS = fmt.Sprintf("[0;%d]", f.contents)
			} else if f.exists {
				rdS = fmt.Sprintf("[1;%d]", int(f.readErr))
			}
			path := fmt.Sprintf("/proj/p%d/package.json", cur)
			sfs.readCalled = false
			contents, err, _ := caches.FSCache.ReadFile(sfs, path)
			obs, hit := int64(-1), false
			if err == nil {
				src := logger.Source{KeyPath: logger.Path{Text: path, Namespace: "file"}, PrettyPaths: logger.PrettyPaths{Abs: path, Rel: path}, Contents: contents}
				log := logger.NewDeferLog(logger.DeferLogAll, nil)
				expr, ok := caches.JSONCache.Parse(log, src, opts)
				log.Done()
				obs = -7
				if obj, isObj := expr.Data.(*js_ast.EObject); ok && isObj && len(obj.Properties) == 1 {
					if num, isNum := obj.Properties[0].ValueOrNil.Data.(*js_ast.ENumber); isNum {
						obs = int64(num.Value)
					}
				}
				hit = seenExpr[expr.Data]
				seenExpr[expr.Data] = true
			}
			stepStrs = append(stepStrs, fmt.Sprintf("(%d, %s, %s, %d, %s, %s, %s)", cur, mkS, rdS, opt, CZ(obs), CBool(sfs.readCalled), CBool(hit)))
			// the property's predicate when mod keys advance normally: the value read is the file's current value
			if mkErr == nil {
				k := sk{cur, f.key}
				if c, ok := seen[k]; ok && (!f.exists || c != f.contents) {
					sound = false
				}
				if f.exists && f.readErr == 0 {
					if _, ok := seen[k]; !ok {
						seen[k] = f.contents
					}
				}
			}
			want := int64(-1)
			if f.exists && f.readErr == 0 {
				want = int64(f.contents)
			}
			if sound && obs != want {
				st.Fail("the resolver's cached JSON read (FSCache + JSONCache) differs from parsing the file's current contents although mod keys advanced normally",
					map[string]interface{}{"history": append([]string{}, stepStrs...)}, obs, want)
			}
		}
		item := "[" + strings.Join(stepStrs, "; ") + "]"
		items = append(items, item)
		st.Note("jsonread-history", item, edits > 0)
		if h < 2 {
			st.Sample(map[string]interface{}{"jsonread_history": stepStrs})
		}
	}
	st.Extra["histories_planned"], st.Extra["histories_run"] = nHist, ran
	cf.AddCases("jsonread", "list json_step", "check_jsonread", items)
	st.Finish("one case = one random history of package.json-style reads (FSCache.ReadFile then JSONCache.Parse on one cache set) with edits between them; non-trivial = at least one edit; distinct by full history")
	return st
}
