package main

import (
	. "github.com/evanw/esbuild/verifharness/hlib"
)

func extraStreams(seed uint64, n int, tier string, tmp string, cf *CoqFile) []*Stats {
	return []*Stats{streamKnown(seed, tmp), streamGlue(seed, n, tier, tmp)}
}
