package main

// Relocation with the option axes that may legitimately put absolute paths
// somewhere: AbsPaths log / metafile (diagnostics, metafile keys), outbase
// given vs derived, absWorkingDir given vs inherited from the process.  The
// same project with the same options at two absolute locations must give the
// same relative names ([hash] included), contents and metafile once the
// project root itself is replaced by a placeholder: absolute paths may appear
// in diagnostics (log) and metafile keys (metafile) only, and must never
// reach a hash.

import (
	"fmt"
	"os"
	"path/filepath"
	"strings"

	"github.com/evanw/esbuild/pkg/api"
	. "github.com/evanw/esbuild/verifharness/hlib"
)

type relocCfg struct {
	Name       string `json:"name"`
	AbsPaths   string `json:"abs_paths"`
	Outbase    bool   `json:"outbase_given"`
	InheritCwd bool   `json:"abs_working_dir_inherited"`
	Variant    int    `json:"variant"`
}

func runRelocation(r *Rng, st *Stats, tmp string, tier string) {
	projects := []*project{scenarioSiblings(r), genProject(r, false)}
	if tier == "thorough" {
		projects = append(projects, genProject(r, false), scenarioSiblings(r))
	}
	cfgs := []relocCfg{
		{"abs-log", "log", true, false, 0}, {"abs-log-minify", "log", true, false, 1},
		{"abs-metafile", "metafile", true, false, 0}, {"abs-log+metafile", "log+metafile", false, false, 1},
		{"plain-derived-outbase", "", false, false, 0}, {"inherit-cwd", "", true, true, 0}, {"inherit-cwd-abs-log", "log", false, true, 1},
	}
	prevWd, _ := os.Getwd()
	defer os.Chdir(prevWd)
	for pi, p := range projects {
		rootA := filepath.Join(tmp, fmt.Sprintf("reloc%d", pi), "proj")
		rootB := filepath.Join(tmp, fmt.Sprintf("reloc-other-place/much/deeper/%d", pi), "x", "proj")
		writeProject(rootA, p)
		writeProject(rootB, p)
		for _, cfg := range cfgs {
			build := func(root string) string {
				o := buildOptions(root, p, variants[cfg.Variant], schedule{Procs: 16, Location: "A"})
				for _, part := range strings.Split(cfg.AbsPaths, "+") {
					switch part {
					case "log":
						o.AbsPaths |= api.LogAbsPath
					case "metafile":
						o.AbsPaths |= api.MetafileAbsPath
					}
				}
				if !cfg.Outbase {
					o.Outbase = ""
				}
				if cfg.InheritCwd {
					if err := os.Chdir(root); err != nil {
						panic(err)
					}
					o.AbsWorkingDir = ""
				}
				return strings.ReplaceAll(canonical(api.Build(o)), root, "<ROOT>")
			}
			a, b := build(rootA), build(rootB)
			st.Note("relocate/"+p.Kind+"/"+cfg.Name, fmt.Sprint(pi, cfg), true)
			st.Histogram["relocate:outputs>0"] += b2i(!strings.Contains(a, "== outputs (0)"))
			if a == b {
				continue
			}
			a2 := build(rootA) // rule out plain nondeterminism at one location
			if a2 != a {
				continue
			}
			section, want, got := firstDiff(a, b)
			st.Fail("build-depends-on-absolute-location", map[string]interface{}{
				"scenario": "relocation-with-path-options/" + cfg.Name, "project": p, "options": variants[cfg.Variant], "path_options": cfg,
				"location_a": "<tmp>/relocN/proj", "location_b": "<tmp>/reloc-other-place/much/deeper/N/x/proj", "differs_in": section,
			}, got, want)
		}
	}
}
