package main

// Correspondence for the scan phase (model coq/C08/Scanner.v): the real
// bundler.ScanBundle on an in-memory file tree, with an on-load plugin that
// delays files by seeded amounts so that parse results arrive in varying
// order; the observed allocation of source indices, the SourceIndex of every
// import record and the entry point indices go to the Coq checker, which must
// find a schedule of the model that produces exactly this layout.

import (
	"fmt"
	"regexp"
	"runtime"
	"strings"
	"time"

	"github.com/evanw/esbuild/internal/bundler"
	"github.com/evanw/esbuild/internal/cache"
	"github.com/evanw/esbuild/internal/config"
	"github.com/evanw/esbuild/internal/fs"
	"github.com/evanw/esbuild/internal/logger"
	. "github.com/evanw/esbuild/verifharness/hlib"
)

func scanCase(r *Rng, st *Stats) (string, bool) {
	n := r.Range(2, 10)
	imports := make([][]int, n+1) // files 1..n
	files := map[string]string{}
	for f := 1; f <= n; f++ {
		var sb strings.Builder
		k := r.Intn(4)
		for j := 0; j < k; j++ {
			c := r.Range(1, n)
			if c == f && r.Chance(70) {
				continue
			}
			imports[f] = append(imports[f], c)
			if r.Bool() {
				fmt.Fprintf(&sb, "import './f%d.js'\n", c)
			} else {
				fmt.Fprintf(&sb, "import * as ns%d_%d from './f%d.js'; console.log(ns%d_%d)\n", j, c, c, j, c)
			}
		}
		fmt.Fprintf(&sb, "console.log(%d)\n", f)
		files[fmt.Sprintf("/f%d.js", f)] = sb.String()
	}
	ne := r.Range(1, 3)
	if ne > n {
		ne = n
	}
	var entries []int
	var eps []bundler.EntryPoint
	seen := map[int]bool{}
	for len(entries) < ne {
		e := r.Range(1, n)
		if seen[e] {
			continue
		}
		seen[e] = true
		entries = append(entries, e)
		eps = append(eps, bundler.EntryPoint{InputPath: fmt.Sprintf("/f%d.js", e)})
	}
	delays := make([]time.Duration, n+1)
	for f := range delays {
		if r.Chance(60) {
			delays[f] = time.Duration(r.Intn(1500)) * time.Microsecond
		}
	}
	procs := []int{1, 2, 16}[r.Intn(3)]
	prev := runtime.GOMAXPROCS(procs)
	defer runtime.GOMAXPROCS(prev)
	opts := config.Options{
		Mode: config.ModeBundle, OutputFormat: config.FormatESModule, AbsOutputDir: "/out", TreeShaking: true,
		ExtensionOrder: []string{".js"},
		Plugins: []config.Plugin{{Name: "delay", OnLoad: []config.OnLoad{{Name: "delay", Filter: regexp.MustCompile(".*"), Namespace: "file",
			Callback: func(a config.OnLoadArgs) config.OnLoadResult {
				var f int
				if _, err := fmt.Sscanf(a.Path.Text, "/f%d.js", &f); err == nil && f >= 1 && f <= n {
					time.Sleep(delays[f])
				}
				return config.OnLoadResult{}
			}}}}},
	}
	log := logger.NewDeferLog(logger.DeferLogNoVerboseOrDebug, nil)
	b := bundler.ScanBundle(config.BuildCall, log, fs.MockFS(files, fs.MockUnix, "/"), cache.MakeCacheSet(), eps, opts, nil)
	for _, m := range log.Done() {
		if m.Kind == logger.Error {
			return "", false
		}
	}
	layout, eidx := bundler.VerifScanLayout(&b)
	fileOf := func(path string) int64 {
		var f int
		if _, err := fmt.Sscanf(path, "/f%d.js", &f); err == nil {
			return int64(f)
		}
		if path == "<runtime>" {
			return 0
		}
		return -1
	}
	var alloc []int64
	var recs []string
	for _, lf := range layout {
		alloc = append(alloc, fileOf(lf.KeyPath))
		if fileOf(lf.KeyPath) == 0 {
			recs = append(recs, "[]") // the runtime's own records are not part of the model
		} else {
			recs = append(recs, CZList(lf.Records))
		}
	}
	var g []string
	for f := 1; f <= n; f++ {
		cs := make([]int64, len(imports[f]))
		for i, c := range imports[f] {
			cs[i] = int64(c)
		}
		g = append(g, fmt.Sprintf("(%d,%s)", f, CZList(cs)))
	}
	ez := make([]int64, len(entries))
	for i, e := range entries {
		ez[i] = int64(e)
	}
	ei := make([]int64, len(eidx))
	for i, e := range eidx {
		ei[i] = int64(e)
	}
	st.Note("scan", fmt.Sprint(g, ez, delays, procs), n > 2)
	st.Histogram[fmt.Sprintf("scan:alloc-is-identity=%v", isSortedAlloc(alloc))]++
	return fmt.Sprintf("(%s,%s,%s,%s,%s)", CList(g), CZList(ez), CZList(alloc), CList(recs), CZList(ei)), true
}

func isSortedAlloc(a []int64) bool {
	for i := 1; i < len(a); i++ {
		if a[i] < a[i-1] {
			return false
		}
	}
	return true
}
