package main

// Generator of multi-file projects for the determinism exploration: many
// modules (ESM, CommonJS, TypeScript), several entry points, shared modules
// (shared chunks under splitting), dynamic imports, CSS with @import and
// url() assets, CSS modules, JSON/text/file/dataurl loaders, the same
// top-level names in every file (renaming), equal use counts (frequency ties
// in the minifier), properties to mangle, warnings and (optionally) errors
// spread over several files.

import (
	"fmt"
	"sort"
	"strings"

	. "github.com/evanw/esbuild/verifharness/hlib"
)

type project struct {
	Kind    string            `json:"kind"`
	Files   map[string]string `json:"files"`
	Entries []string          `json:"entries"`
	Errors  bool              `json:"has_errors"`
}

func (p *project) sortedPaths() []string {
	var ps []string
	for k := range p.Files {
		ps = append(ps, k)
	}
	sort.Strings(ps)
	return ps
}

type modInfo struct {
	path string // relative to the project root, e.g. src/a/m3.js
	kind string // esm | cjs | ts
}

func relImport(from, to string) string {
	// both are paths below the project root with '/' separators
	fd := strings.Split(from, "/")
	td := strings.Split(to, "/")
	fd = fd[:len(fd)-1]
	i := 0
	for i < len(fd) && i < len(td)-1 && fd[i] == td[i] {
		i++
	}
	out := strings.Repeat("../", len(fd)-i) + strings.Join(td[i:], "/")
	if !strings.HasPrefix(out, ".") {
		out = "./" + out
	}
	return out
}

var warnSnippets = []string{
	"if (helper(1) === -0) console.log('negzero');",
	"if (typeof helper === 'fn') console.log('typo');",
	"console.log({ dup: 1, dup: 2 });",
	"switch (helper(2)) { case 1: break; case 1: break; }",
	"console.log(helper(3) == NaN);",
}

const errSnippet = "const never = 1; function reassign() { never = 2 } console.log(reassign);"

var cssWarnSnippets = []string{
	".late { color: red }\n@import './nope-after-rule.css';",
	".w { color: #12345 }",
	".w2 { colour: red; colr: blue }",
	"@charset \"latin1\";",
}

func genProject(r *Rng, withErrors bool) *project {
	p := &project{Kind: "graph", Files: map[string]string{}, Errors: withErrors}
	nMods := r.Range(8, 22)
	nEntries := r.Range(2, 5)
	dirs := []string{"src", "src/a", "src/b", "src/a/deep"}

	// assets and data
	nAssets := r.Range(2, 4)
	var assets, texts, jsons, cssFiles, cssMods []string
	for i := 0; i < nAssets; i++ {
		d := dirs[r.Intn(len(dirs))]
		name := fmt.Sprintf("%s/logo%d.png", d, i%2) // colliding base names in different dirs
		if _, ok := p.Files[name]; ok {
			name = fmt.Sprintf("%s/pic%d.png", d, i)
		}
		p.Files[name] = fmt.Sprintf("\x89PNG-fake-%d-%d", i, r.Intn(1000))
		assets = append(assets, name)
	}
	for i := 0; i < 2; i++ {
		name := fmt.Sprintf("%s/note%d.txt", dirs[r.Intn(len(dirs))], i)
		p.Files[name] = fmt.Sprintf("text %d with `backtick` and ${x} %d", i, r.Intn(100))
		texts = append(texts, name)
		name = fmt.Sprintf("%s/data%d.json", dirs[r.Intn(len(dirs))], i)
		p.Files[name] = fmt.Sprintf("{\"name\": \"d%d\", \"list\": [1, 2, %d], \"nested\": {\"_deep_\": true, \"k%d\": null}}", i, r.Intn(9), i)
		jsons = append(jsons, name)
	}
	svg := "src/icon.svg"
	p.Files[svg] = "<svg xmlns='http://www.w3.org/2000/svg'><rect width='1' height='1'/></svg>"

	// css
	nCSS := r.Range(2, 5)
	for i := 0; i < nCSS; i++ {
		cssFiles = append(cssFiles, fmt.Sprintf("%s/style%d.css", dirs[r.Intn(len(dirs))], i))
	}
	for i, name := range cssFiles {
		var sb strings.Builder
		for j := i + 1; j < nCSS; j++ {
			if r.Chance(45) {
				fmt.Fprintf(&sb, "@import %q;\n", relImport(name, cssFiles[j]))
			}
		}
		fmt.Fprintf(&sb, ".box%d { color: #ff0000; background: url(%s); margin: 0px 0px 0px 0px }\n", i, relImport(name, assets[r.Intn(len(assets))]))
		fmt.Fprintf(&sb, ".shared { color: rgb(%d, 0, 0) }\n.shared { padding: %dpx }\n", i, i)
		fmt.Fprintf(&sb, "@media (min-width: %d00px) { .box%d { display: none } }\n", i+1, i)
		if r.Chance(35) {
			fmt.Fprintf(&sb, ".icon%d { background: url(%s) }\n", i, relImport(name, svg))
		}
		if r.Chance(40) {
			sb.WriteString(cssWarnSnippets[r.Intn(len(cssWarnSnippets))] + "\n")
		}
		p.Files[name] = sb.String()
	}
	nCM := r.Range(1, 3)
	for i := 0; i < nCM; i++ {
		name := fmt.Sprintf("%s/comp%d.module.css", dirs[r.Intn(len(dirs))], i)
		cssMods = append(cssMods, name)
	}
	for i, name := range cssMods {
		var sb strings.Builder
		fmt.Fprintf(&sb, ".title { color: blue }\n.button { composes: title; border: %dpx solid }\n", i+1)
		fmt.Fprintf(&sb, ".title:hover, .extra%d { color: green }\n@keyframes spin { from { opacity: 0 } to { opacity: 1 } }\n.anim { animation: spin 1s }\n", i)
		if i+1 < len(cssMods) && r.Bool() {
			fmt.Fprintf(&sb, ".other { composes: title from %q }\n", relImport(name, cssMods[i+1]))
		}
		p.Files[name] = sb.String()
	}

	// modules
	mods := make([]modInfo, nMods)
	for i := range mods {
		d := dirs[r.Intn(len(dirs))]
		kind, ext := "esm", "js"
		switch {
		case r.Chance(15):
			kind = "cjs"
		case r.Chance(18):
			kind, ext = "ts", "ts"
		}
		base := fmt.Sprintf("m%d", i)
		if r.Chance(25) {
			base = []string{"util", "index", "lib"}[r.Intn(3)] // colliding base names
		}
		path := fmt.Sprintf("%s/%s.%s", d, base, ext)
		for p.Files[path] != "" || containsMod(mods[:i], strings.TrimSuffix(path, "."+ext)) {
			path = fmt.Sprintf("%s/%s_%d.%s", d, base, i, ext)
		}
		mods[i] = modInfo{path: path, kind: kind}
	}
	errBudget := 0
	if withErrors {
		errBudget = r.Range(2, 4)
	}
	for i, m := range mods {
		var sb strings.Builder
		var deps []int
		for j := i + 1; j < nMods; j++ {
			if r.Chance(100 * 3 / (nMods - i + 2)) {
				deps = append(deps, j)
			}
		}
		if i > 2 && r.Chance(12) {
			deps = append(deps, r.Intn(i)) // a cycle
		}
		uses := []string{}
		if m.kind == "cjs" {
			for _, j := range deps {
				fmt.Fprintf(&sb, "const dep%d = require(%q);\n", j, relImport(m.path, mods[j].path))
				uses = append(uses, fmt.Sprintf("dep%d.value", j))
			}
			if r.Chance(40) {
				fmt.Fprintf(&sb, "const data = require(%q);\n", relImport(m.path, jsons[r.Intn(len(jsons))]))
				uses = append(uses, "data.list.length")
			}
		} else {
			for _, j := range deps {
				spec := relImport(m.path, mods[j].path)
				if mods[j].kind == "ts" {
					spec = strings.TrimSuffix(spec, ".ts")
				}
				switch r.Intn(5) {
				case 0:
					fmt.Fprintf(&sb, "import * as ns%d from %q;\n", j, spec)
					uses = append(uses, fmt.Sprintf("ns%d.value", j), fmt.Sprintf("ns%d.helper(1)", j))
				case 1:
					fmt.Fprintf(&sb, "import def%d, { value as value%d } from %q;\n", j, j, spec)
					uses = append(uses, fmt.Sprintf("value%d", j), fmt.Sprintf("typeof def%d", j))
				case 2:
					fmt.Fprintf(&sb, "const lazy%d = () => import(%q);\n", j, spec)
					uses = append(uses, fmt.Sprintf("lazy%d", j))
				case 3:
					fmt.Fprintf(&sb, "export { helper as helper%d, value as reexp%d } from %q;\nimport { value as value%d } from %q;\n", j, j, spec, j, spec)
					uses = append(uses, fmt.Sprintf("value%d", j))
				default:
					fmt.Fprintf(&sb, "import { value as value%d, helper as helper%d, Thing as Thing%d } from %q;\n", j, j, j, spec)
					uses = append(uses, fmt.Sprintf("value%d", j), fmt.Sprintf("helper%d(2)", j), fmt.Sprintf("new Thing%d()", j))
				}
			}
			if errBudget > 0 && len(deps) > 0 && r.Chance(50) {
				j := deps[r.Intn(len(deps))]
				if mods[j].kind == "esm" {
					fmt.Fprintf(&sb, "import { doesNotExist%d } from %q;\n", i, relImport(m.path, mods[j].path))
					uses = append(uses, fmt.Sprintf("doesNotExist%d", i))
					errBudget--
				}
			}
			if errBudget > 0 && r.Chance(40) {
				fmt.Fprintf(&sb, "import './missing-file-%d.js';\n", i)
				errBudget--
			}
			if errBudget > 0 && r.Chance(30) {
				sb.WriteString(errSnippet + "\n")
				errBudget--
			}
			if r.Chance(35) {
				fmt.Fprintf(&sb, "import data from %q;\n", relImport(m.path, jsons[r.Intn(len(jsons))]))
				uses = append(uses, "data.name")
			}
			if r.Chance(35) {
				fmt.Fprintf(&sb, "import assetUrl from %q;\n", relImport(m.path, assets[r.Intn(len(assets))]))
				uses = append(uses, "assetUrl")
			}
			if r.Chance(25) {
				fmt.Fprintf(&sb, "import noteText from %q;\n", relImport(m.path, texts[r.Intn(len(texts))]))
				uses = append(uses, "noteText")
			}
			if r.Chance(20) {
				fmt.Fprintf(&sb, "import iconData from %q;\n", relImport(m.path, svg))
				uses = append(uses, "iconData")
			}
			if r.Chance(35) {
				fmt.Fprintf(&sb, "import %q;\n", relImport(m.path, cssFiles[r.Intn(len(cssFiles))]))
			}
			if r.Chance(30) {
				fmt.Fprintf(&sb, "import styles from %q;\n", relImport(m.path, cssMods[r.Intn(len(cssMods))]))
				uses = append(uses, "styles.title", "styles.button")
			}
		}
		// the same top-level names in every module, with equal use counts
		nLocals := r.Range(2, 6)
		for k := 0; k < nLocals; k++ {
			fmt.Fprintf(&sb, "function local%d(arg) { return arg + %d; }\n", k, k+i)
		}
		fmt.Fprintf(&sb, "function helper(x) { return %s; }\n", sumOf(nLocals, "x"))
		if m.kind == "ts" {
			fmt.Fprintf(&sb, "enum Color { Red, Green = 'g%d', Blue = 4 }\nnamespace NS { export const q%d: number = Color.Blue; }\n", i, i)
			fmt.Fprintf(&sb, "interface Shape { _area_: number }\nconst shape: Shape = { _area_: NS.q%d };\n", i)
			uses = append(uses, "Color.Red", "shape._area_")
		}
		fmt.Fprintf(&sb, "class Thing { constructor() { this._count_ = %d; this._mod%d_ = 1; } get _size_() { return this._count_ + this._mod%d_; } static _make_() { return new Thing(); } }\n", i, i%5, i%5)
		fmt.Fprintf(&sb, "const obj = { _foo_: %d, _bar%d_: 2, 'quoted_': 3, _keep_: 4, [\"_computed_\"]: 5 };\n", i, i%4)
		uses = append(uses, "obj._foo_", fmt.Sprintf("obj._bar%d_", i%4), "Thing._make_()._size_", "'_count_' in obj")
		if r.Chance(45) {
			sb.WriteString(warnSnippets[r.Intn(len(warnSnippets))] + "\n")
		}
		if r.Chance(20) {
			sb.WriteString(warnSnippets[r.Intn(len(warnSnippets))] + "\n")
		}
		valueExpr := "helper(1)"
		if len(uses) > 0 {
			valueExpr = "[" + strings.Join(uses, ", ") + "]"
		}
		if m.kind == "cjs" {
			fmt.Fprintf(&sb, "exports.value = %s;\nexports.helper = helper;\nexports.Thing = Thing;\nexports.default = function () { return obj; };\n", valueExpr)
		} else {
			fmt.Fprintf(&sb, "export const value = %s;\nexport { helper, Thing };\nexport default function () { return obj; }\n", valueExpr)
		}
		fmt.Fprintf(&sb, "console.log(%q, value);\n", m.path)
		p.Files[m.path] = sb.String()
	}

	// entry points: import overlapping subsets of the modules
	for e := 0; e < nEntries; e++ {
		name := fmt.Sprintf("src/entry%d.js", e)
		if e == 1 && r.Bool() {
			name = "src/a/entry1.js"
		}
		var sb strings.Builder
		var uses []string
		count := 0
		for j := 0; j < nMods; j++ {
			if r.Chance(30) || (j == e) {
				spec := relImport(name, mods[j].path)
				if mods[j].kind == "ts" {
					spec = strings.TrimSuffix(spec, ".ts")
				}
				if r.Chance(25) {
					fmt.Fprintf(&sb, "import(%q).then(m => console.log(m.value));\n", spec)
				} else {
					fmt.Fprintf(&sb, "import { value as v%d, helper as h%d } from %q;\n", j, j, spec)
					uses = append(uses, fmt.Sprintf("v%d", j), fmt.Sprintf("h%d(1)", j))
				}
				count++
			}
		}
		if r.Chance(60) {
			fmt.Fprintf(&sb, "import %q;\n", relImport(name, cssFiles[r.Intn(len(cssFiles))]))
		}
		if r.Chance(40) {
			fmt.Fprintf(&sb, "import styles from %q;\n", relImport(name, cssMods[r.Intn(len(cssMods))]))
			uses = append(uses, "styles.anim")
		}
		fmt.Fprintf(&sb, "function helper(x) { return x * %d; }\nconst state = { _foo_: helper(%d), _entry%d_: true };\n", e+2, e, e)
		uses = append(uses, "state._foo_", fmt.Sprintf("state._entry%d_", e))
		if r.Chance(40) {
			sb.WriteString(warnSnippets[r.Intn(len(warnSnippets))] + "\n")
		}
		fmt.Fprintf(&sb, "console.log(%q, %s);\nexport const entryValue%d = helper(%d);\n", name, strings.Join(uses, ", "), e, e)
		p.Files[name] = sb.String()
		p.Entries = append(p.Entries, name)
	}
	if r.Chance(30) {
		p.Entries = append(p.Entries, cssFiles[0]) // a CSS entry point
	}
	return p
}

func containsMod(ms []modInfo, path string) bool {
	for _, m := range ms {
		if strings.TrimSuffix(strings.TrimSuffix(m.path, ".js"), ".ts") == path {
			return true
		}
	}
	return false
}

func sumOf(n int, arg string) string {
	var parts []string
	for k := 0; k < n; k++ {
		parts = append(parts, fmt.Sprintf("local%d(%s)", k, arg))
	}
	return strings.Join(parts, " + ")
}

// Small fixed-shape scenarios aimed at one mechanism each.
func scenarioMissingEntries(r *Rng) *project {
	p := &project{Kind: "missing-entry-points", Files: map[string]string{}, Errors: true}
	p.Files["src/ok.js"] = "console.log('ok')\n"
	k := r.Range(2, 4)
	p.Entries = []string{"src/ok.js"}
	for i := 0; i < k; i++ {
		p.Entries = append(p.Entries, fmt.Sprintf("src/absent%d.js", i))
	}
	return p
}

// Several entry points reach the same independent leaf modules through
// different intermediate files: the leaves end up side by side in shared
// chunks (equal distance from the entry points, no import relation among
// them) and their arrival-order source indices depend on which intermediate
// file finished loading first.  Their relative order in the output must come
// from the stable (DFS) index only.
func scenarioSiblings(r *Rng) *project {
	p := &project{Kind: "shared-chunk-siblings", Files: map[string]string{}}
	nLeaves := r.Range(5, 9)
	nEntries := r.Range(2, 3)
	nParents := r.Range(2, 4)
	for l := 0; l < nLeaves; l++ {
		p.Files[fmt.Sprintf("src/leaf%d.js", l)] = fmt.Sprintf(
			"function helper(x) { return x + %d }\nexport const value%d = helper(%d);\nexport const obj%d = { _foo_: %d, _leaf%d_: 1 };\nconsole.log('leaf%d', value%d);\n", l, l, l, l, l, l, l, l)
		p.Files[fmt.Sprintf("src/leaf%d.css", l)] = fmt.Sprintf(".leaf%d { color: rgb(%d, 0, 0) }\n", l, l)
	}
	for e := 0; e < nEntries; e++ {
		var esb strings.Builder
		for k := 0; k < nParents; k++ {
			name := fmt.Sprintf("src/e%dparent%d.js", e, k)
			var sb strings.Builder
			var uses []string
			for _, l := range randPerm(r, nLeaves) {
				if r.Chance(70) {
					fmt.Fprintf(&sb, "import { value%d, obj%d } from './leaf%d.js';\n", l, l, l)
					uses = append(uses, fmt.Sprintf("value%d", l), fmt.Sprintf("obj%d._foo_", l))
					if r.Chance(50) {
						fmt.Fprintf(&sb, "import './leaf%d.css';\n", l)
					}
				}
			}
			fmt.Fprintf(&sb, "export const parent%d = [%s];\n", k, strings.Join(uses, ", "))
			p.Files[name] = sb.String()
			fmt.Fprintf(&esb, "import { parent%d } from './e%dparent%d.js';\n", k, e, k)
		}
		fmt.Fprintf(&esb, "console.log('entry%d'", e)
		for k := 0; k < nParents; k++ {
			fmt.Fprintf(&esb, ", parent%d", k)
		}
		esb.WriteString(");\n")
		name := fmt.Sprintf("src/entry%d.js", e)
		p.Files[name] = esb.String()
		p.Entries = append(p.Entries, name)
	}
	return p
}

// The same failing import reached from several importers that are parsed in
// parallel: the diagnostics (text, location, line text, notes) must not
// depend on which importer's parse result arrived first.
func scenarioSharedFailingImport(r *Rng) *project {
	p := &project{Kind: "shared-failing-import", Files: map[string]string{}, Errors: true}
	p.Files["src/shared/data.xyz"] = "no loader for this"
	p.Files["src/shared/bad.json"] = "{\"a\": 1,, }"
	p.Files["src/shared/broken.js"] = "export const x = ;\n"
	p.Files["src/shared/bad.css"] = ".a { color: red; } @import 'late.css'; .b { colr: }}\n"
	p.Files["src/shared/dir/inner.txt"] = "a directory"
	p.Files["src/shared/ok.js"] = "export const ok = 1; export function f() {}\n"
	kinds := []string{
		"import './shared/data.xyz';",
		"import bad from './shared/bad.json'; console.log(bad);",
		"import { x } from './shared/broken.js'; console.log(x);",
		"import './shared/bad.css';",
		"import './shared/dir';",
		"import './shared/missing-file.js';",
		"import { nope } from './shared/ok.js'; console.log(nope);",
		"import attr from './shared/ok.js' with { type: 'nonsense' }; console.log(attr);",
		"import other from './shared/data.xyz' with { mode: 'x' }; console.log(other);",
	}
	nEntries := r.Range(2, 4)
	for e := 0; e < nEntries; e++ {
		var esb strings.Builder
		nParents := r.Range(2, 4)
		for k := 0; k < nParents; k++ {
			name := fmt.Sprintf("src/e%dimporter%d.js", e, k)
			var sb strings.Builder
			for pad := r.Intn(4); pad > 0; pad-- {
				sb.WriteString("// padding so that locations differ\n")
			}
			for _, ki := range randPerm(r, len(kinds)) {
				if r.Chance(55) {
					sb.WriteString(strings.Repeat(" ", r.Intn(3)) + kinds[ki] + "\n")
				}
			}
			fmt.Fprintf(&sb, "export const importer%d = %d;\n", k, k)
			p.Files[name] = sb.String()
			fmt.Fprintf(&esb, "import { importer%d } from './e%dimporter%d.js'; console.log(importer%d);\n", k, e, k, k)
		}
		if r.Bool() {
			esb.WriteString(kinds[r.Intn(len(kinds))] + "\n")
		}
		name := fmt.Sprintf("src/entry%d.js", e)
		p.Files[name] = esb.String()
		p.Entries = append(p.Entries, name)
	}
	return p
}

// Multi-entry CSS (and CSS-from-JS) projects that are bundled WITHOUT code
// splitting, so every entry point is linked on its own goroutine while all
// linkers share the parsed ASTs: shared files imported several times per
// entry point, "@layer a, b, c;" statements with 1..15 names (slices with and
// without spare capacity), per-entry layer statements, @import conditions.
// Besides the usual comparison across schedules, each entry point's output
// must equal the output of a build of that entry point alone.
func scenarioCSSLayers(r *Rng) *project {
	p := &project{Kind: "css-shared-layers", Files: map[string]string{}}
	nShared := r.Range(1, 3)
	spare := []int{3, 5, 6, 7, 9, 11, 13, 15}
	anyCount := []int{3, 5, 6, 7, 9, 11, 13, 15, 1, 2, 4, 8}
	conds := []string{"", "", "", " screen", " layer(lib)", " supports(display: grid)", " (min-width: 600px)"}
	var shared []string
	for s := 0; s < nShared; s++ {
		k := anyCount[r.Intn(len(anyCount))]
		if s == 0 && r.Chance(80) {
			k = spare[r.Intn(len(spare))] // a name list whose slice has spare capacity
		}
		var names []string
		for i := 0; i < k; i++ {
			names = append(names, fmt.Sprintf("s%dl%d", s, i))
		}
		name := fmt.Sprintf("src/shared%d.css", s)
		var sb strings.Builder
		fmt.Fprintf(&sb, "@layer %s;\n", strings.Join(names, ", "))
		if s > 0 && r.Bool() {
			fmt.Fprintf(&sb, "@import \"./shared0.css\";\n@layer post%d, post%db, post%dc;\n", s, s, s)
		}
		if r.Chance(70) {
			fmt.Fprintf(&sb, "html { box-sizing: border-box }\n@layer %s { .s%d { margin: %dpx } }\n", names[0], s, s)
		}
		p.Files[name] = sb.String()
		shared = append(shared, name)
	}
	nPages := r.Range(4, 12)
	cond := conds[r.Intn(len(conds))] // one condition for the core shape of this project
	for i := 0; i < nPages; i++ {
		// core shape: the page imports shared0 and then its own widget; the widget
		// declares its own layer(s) and imports shared0 again under the same condition
		widget := fmt.Sprintf("src/widget%d.css", i)
		var wb strings.Builder
		fmt.Fprintf(&wb, "@layer widget%d", i)
		for j := r.Intn(3); j > 0; j-- {
			fmt.Fprintf(&wb, ", widget%dx%d", i, j)
		}
		wb.WriteString(";\n")
		fmt.Fprintf(&wb, "@import \"./shared0.css\"%s;\n", cond)
		for _, s := range shared[1:] {
			if r.Chance(50) {
				fmt.Fprintf(&wb, "@import \"./%s\"%s;\n", strings.TrimPrefix(s, "src/"), conds[r.Intn(len(conds))])
			}
		}
		fmt.Fprintf(&wb, "@layer widget%d { .widget%d { color: rgb(%d, 0, 0) } }\n", i, i, i)
		p.Files[widget] = wb.String()

		page := fmt.Sprintf("src/page%d.css", i)
		var pb strings.Builder
		for _, s := range shared[1:] {
			if r.Chance(40) {
				fmt.Fprintf(&pb, "@import \"./%s\"%s;\n", strings.TrimPrefix(s, "src/"), conds[r.Intn(len(conds))])
			}
		}
		fmt.Fprintf(&pb, "@import \"./shared0.css\"%s;\n", cond)
		fmt.Fprintf(&pb, "@import \"./widget%d.css\"%s;\n", i, cond)
		if r.Chance(25) {
			fmt.Fprintf(&pb, "@import \"./widget%d.css\"%s;\n", (i+1)%nPages, cond) // a neighbour's widget as well
		}
		if r.Chance(30) {
			fmt.Fprintf(&pb, "@import \"./shared0.css\"%s;\n", cond)
		}
		fmt.Fprintf(&pb, ".page%d { color: blue; inset: %dpx }\n", i, i)
		p.Files[page] = pb.String()
		if r.Chance(30) {
			js := fmt.Sprintf("src/page%d.js", i)
			p.Files[js] = fmt.Sprintf("import './page%d.css'\nconsole.log('page%d')\n", i, i)
			p.Entries = append(p.Entries, js)
		} else {
			p.Entries = append(p.Entries, page)
		}
	}
	return p
}
