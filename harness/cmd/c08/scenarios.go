package main

// Fixed-shape scenarios: option maps whose validation diagnostics must not
// depend on Go's map iteration order (finding C08-G2).

import (
	"os"

	"github.com/evanw/esbuild/pkg/api"
	. "github.com/evanw/esbuild/verifharness/hlib"
)

type optScenario struct {
	name string
	desc map[string]interface{}
	mk   func() api.BuildOptions
}

var optScenarios = []optScenario{
	{"mangle-cache", map[string]interface{}{"MangleProps": "_$", "MangleCache": map[string]int{"a_": 1, "b_": 2, "c_": 3}}, func() api.BuildOptions {
		return api.BuildOptions{Outdir: "out", MangleProps: "_$", MangleCache: map[string]interface{}{"a_": 1, "b_": 2, "c_": 3}}
	}},
	{"loaders", map[string]interface{}{"Loader": map[string]string{"x": "js", "y": "js", "z": "js"}}, func() api.BuildOptions {
		return api.BuildOptions{Outdir: "out", Loader: map[string]api.Loader{"x": api.LoaderJS, "y": api.LoaderJS, "z": api.LoaderJS}}
	}},
	{"alias", map[string]interface{}{"Bundle": true, "Alias": map[string]string{"./a": "x", "./b": "y", "./c": "z"}}, func() api.BuildOptions {
		return api.BuildOptions{Outdir: "out", Bundle: true, Alias: map[string]string{"./a": "x", "./b": "y", "./c": "z"}}
	}},
	{"out-extension", map[string]interface{}{"OutExtension": map[string]string{".ts": ".a", ".tsx": ".b", ".mjs": ".c"}}, func() api.BuildOptions {
		return api.BuildOptions{Outdir: "out", OutExtension: map[string]string{".ts": ".a", ".tsx": ".b", ".mjs": ".c"}}
	}},
	{"banner", map[string]interface{}{"Banner": map[string]string{"ts": "a", "tsx": "b", "html": "c"}}, func() api.BuildOptions {
		return api.BuildOptions{Outdir: "out", Banner: map[string]string{"ts": "a", "tsx": "b", "html": "c"}}
	}},
	{"supported", map[string]interface{}{"Supported": map[string]bool{"nope1": true, "nope2": false, "nope3": true}}, func() api.BuildOptions {
		return api.BuildOptions{Outdir: "out", Supported: map[string]bool{"nope1": true, "nope2": false, "nope3": true}}
	}},
	{"file-and-copy-loader-without-output-path", map[string]interface{}{"Loader": map[string]string{".png": "file", ".txt": "copy"}, "Outdir": ""}, func() api.BuildOptions {
		return api.BuildOptions{Loader: map[string]api.Loader{".png": api.LoaderFile, ".txt": api.LoaderCopy}}
	}},
	// unresolvable injected paths are resolved by one goroutine each (finding C08-G3)
	{"missing-inject-paths", map[string]interface{}{"Bundle": true, "Inject": []string{"./absentA.js", "./absentB.js", "./absentC.js"}}, func() api.BuildOptions {
		return api.BuildOptions{Outdir: "out", Bundle: true, Inject: []string{"./absentA.js", "./absentB.js", "./absentC.js"}}
	}},
	// valid option maps with several entries: the OUTPUT must not depend on their iteration order either
	{"valid-maps", map[string]interface{}{"Define": 4, "Loader": 3, "Supported": 3, "Banner": 2, "Footer": 2, "LogOverride": 3, "Alias": 2}, func() api.BuildOptions {
		return api.BuildOptions{Outdir: "out", Bundle: true, Metafile: true,
			Define: map[string]string{"a.x": "1", "b.x": "2", "process.env.NODE_ENV": "\"p\"", "c.y.x": "3", "GLOBAL_FLAG": "true",
				"CONFIG_A": "{\"a\": [1, 2]}", "CONFIG_B": "[1, {\"b\": 2}]", "CONFIG_C": "{\"c\": null}", "CONFIG_D": "[4]"},
			Loader:       map[string]api.Loader{".js": api.LoaderJS, ".txt": api.LoaderText, ".data": api.LoaderBase64},
			Supported:    map[string]bool{"arrow": false, "bigint": true, "nesting": false, "template-literal": false},
			Banner:       map[string]string{"js": "/*b*/", "css": "/*c*/"},
			Footer:       map[string]string{"js": "/*fb*/", "css": "/*fc*/"},
			LogOverride:  map[string]api.LogLevel{"equals-negative-zero": api.LogLevelError, "duplicate-case": api.LogLevelSilent, "impossible-typeof": api.LogLevelInfo},
			Alias:        map[string]string{"pkg-a": "./in2.js", "pkg-b": "./in2.js"},
			OutExtension: map[string]string{".js": ".mjs", ".css": ".CSS"},
		}
	}},
}

func runOptionScenarios(st *Stats, tmp string, reps int) {
	dir := tmp + "/optscen"
	os.MkdirAll(dir, 0o755)
	os.WriteFile(dir+"/in.js", []byte("import a from 'pkg-a'; import b from 'pkg-b';\nif (a === -0) console.log(a.x, b.x, c.y.x, GLOBAL_FLAG, CONFIG_A, CONFIG_B.length, CONFIG_C.c, CONFIG_D, process.env.NODE_ENV, `t${a}`, () => 1, 1n);\nswitch (a) { case 1: case 1: }\nif (typeof a === 'nul') console.log(1)\n"), 0o644)
	os.WriteFile(dir+"/in2.js", []byte("export default { x: 1 }\n"), 0o644)
	for _, sc := range optScenarios {
		var first string
		var firstSet bool
		failed := false
		for i := 0; i < reps; i++ {
			o := sc.mk()
			o.AbsWorkingDir = dir
			o.EntryPoints = []string{"in.js"}
			o.LogLevel = api.LogLevelSilent
			out := canonical(api.Build(o))
			st.Note("options/"+sc.name, sc.name, true)
			if !firstSet {
				first, firstSet = out, true
				continue
			}
			if out != first && !failed {
				failed = true
				section, want, got := firstDiff(first, out)
				st.Fail("nondeterministic-build", map[string]interface{}{
					"scenario": scenarioFamily(sc.name) + "/" + sc.name, "entry": "in.js", "options": sc.desc,
					"differs_in": section, "repetition": i,
				}, got, want)
			}
		}
	}
}

func scenarioFamily(name string) string {
	if name == "missing-inject-paths" {
		return "parallel-locationless-errors"
	}
	return "option-validation-error-order"
}
