package main

import (
	. "github.com/evanw/esbuild/verifharness/hlib"
)

func runGlue(r *Rng, st *Stats, n int, tier string) {}
