package main

// Determinism exploration through the public API: the same project built
// repeatedly in-process under GOMAXPROCS 1/2/16, with a plugin whose
// OnResolve/OnLoad callbacks sleep for seeded durations (permutes the order in
// which files arrive, hence the arrival-order source indices), concurrently
// with sibling builds of other projects, and from a copy at another absolute
// path.  Everything api.Build returns must be byte-identical.

import (
	"encoding/json"
	"fmt"
	"hash/fnv"
	"os"
	"path/filepath"
	"runtime"
	"strings"
	"sync"
	"time"

	"github.com/evanw/esbuild/pkg/api"
	. "github.com/evanw/esbuild/verifharness/hlib"
)

type variant struct {
	Name      string `json:"name"`
	Bundle    bool   `json:"bundle"`
	Splitting bool   `json:"splitting"`
	Minify    bool   `json:"minify"`
	MinifyIDs bool   `json:"minify_identifiers"`
	Mangle    bool   `json:"mangle_props"`
	Metafile  bool   `json:"metafile"`
	Sourcemap string `json:"sourcemap"`
	Format    string `json:"format"`
	Hashes    bool   `json:"hashed_names"`
	Legal     string `json:"legal_comments"`
}

var variants = []variant{
	{Name: "split-esm-meta-map", Bundle: true, Splitting: true, Metafile: true, Sourcemap: "linked", Format: "esm", Hashes: true},
	{Name: "split-esm-minify-mangle", Bundle: true, Splitting: true, Minify: true, Mangle: true, Metafile: true, Format: "esm", Hashes: true},
	{Name: "multi-entry-cjs-mangle", Bundle: true, MinifyIDs: true, Mangle: true, Metafile: true, Sourcemap: "external", Format: "cjs"},
	{Name: "multi-entry-iife-minify", Bundle: true, Minify: true, Mangle: true, Sourcemap: "inline", Format: "iife", Hashes: true},
	{Name: "multi-entry-esm-plain", Bundle: true, Metafile: true, Format: "esm", Legal: "linked"},
	{Name: "no-bundle-mangle", Minify: true, Mangle: true, Metafile: true, Format: "esm"},
	{Name: "multi-entry-esm-minify", Bundle: true, Minify: true, Metafile: true, Format: "esm"},
}

type schedule struct {
	Procs    int    `json:"gomaxprocs"`
	Seed     uint64 `json:"delay_seed"` // 0 = no delays
	MaxUs    int    `json:"max_delay_us"`
	Location string `json:"location"` // "A" or "B" (copy at another absolute path)
	Siblings int    `json:"concurrent_builds"`
}

func delayFor(s schedule, what, path string) time.Duration {
	if s.Seed == 0 || s.MaxUs == 0 {
		return 0
	}
	h := fnv.New64a()
	fmt.Fprintf(h, "%d|%s|%s", s.Seed, what, path)
	v := h.Sum64()
	v ^= v >> 29
	v *= 0xBF58476D1CE4E5B9
	v ^= v >> 32
	if v%100 < 45 {
		return 0
	}
	return time.Duration((v>>8)%uint64(s.MaxUs)) * time.Microsecond
}

func relTo(root, p string) string {
	if rel, err := filepath.Rel(root, p); err == nil {
		return filepath.ToSlash(rel)
	}
	return p
}

func buildOptions(root string, p *project, v variant, s schedule) api.BuildOptions {
	o := api.BuildOptions{
		AbsWorkingDir: root,
		Outdir:        "out",
		Outbase:       "src",
		Bundle:        v.Bundle,
		Splitting:     v.Splitting,
		Metafile:      v.Metafile,
		Write:         false,
		LogLevel:      api.LogLevelSilent,
		LogLimit:      0,
		Loader:        map[string]api.Loader{".png": api.LoaderFile, ".txt": api.LoaderText, ".svg": api.LoaderDataURL},
	}
	for _, e := range p.Entries {
		o.EntryPoints = append(o.EntryPoints, e)
	}
	if !v.Bundle {
		// without bundling only the script entry points make sense
		o.EntryPoints = nil
		for _, e := range p.sortedPaths() {
			if strings.HasSuffix(e, ".js") || strings.HasSuffix(e, ".ts") || (strings.HasSuffix(e, ".css") && !strings.HasSuffix(e, ".module.css")) {
				o.EntryPoints = append(o.EntryPoints, e)
			}
		}
	}
	switch v.Format {
	case "esm":
		o.Format = api.FormatESModule
	case "cjs":
		o.Format = api.FormatCommonJS
	case "iife":
		o.Format = api.FormatIIFE
	}
	switch v.Sourcemap {
	case "linked":
		o.Sourcemap = api.SourceMapLinked
	case "external":
		o.Sourcemap = api.SourceMapExternal
	case "inline":
		o.Sourcemap = api.SourceMapInline
	}
	if v.Legal == "linked" {
		o.LegalComments = api.LegalCommentsLinked
	}
	if v.Minify {
		o.MinifyWhitespace, o.MinifyIdentifiers, o.MinifySyntax = true, true, true
	}
	if v.MinifyIDs {
		o.MinifyIdentifiers = true
	}
	if v.Mangle {
		o.MangleProps = "_$"
		o.MangleCache = map[string]interface{}{"_keep_": false, "_foo_": "zz", "_unused_": "q"}
	}
	if v.Hashes {
		o.EntryNames = "[dir]/[name]-[hash]"
		o.ChunkNames = "chunks/[name]-[hash]"
		o.AssetNames = "assets/[name]-[hash]"
	}
	o.Plugins = []api.Plugin{{Name: "delay", Setup: func(b api.PluginBuild) {
		b.OnResolve(api.OnResolveOptions{Filter: ".*"}, func(a api.OnResolveArgs) (api.OnResolveResult, error) {
			if d := delayFor(s, "resolve", a.Path+"<"+relTo(root, a.Importer)); d > 0 {
				time.Sleep(d)
			}
			return api.OnResolveResult{}, nil
		})
		b.OnLoad(api.OnLoadOptions{Filter: ".*"}, func(a api.OnLoadArgs) (api.OnLoadResult, error) {
			if d := delayFor(s, "load", relTo(root, a.Path)); d > 0 {
				time.Sleep(d)
			}
			return api.OnLoadResult{}, nil
		})
	}}}
	return o
}

func fmtLoc(l *api.Location) string {
	if l == nil {
		return "-"
	}
	return fmt.Sprintf("%s|%s|%d:%d+%d|%q|%q", l.File, l.Namespace, l.Line, l.Column, l.Length, l.LineText, l.Suggestion)
}

func fmtMsgs(sb *strings.Builder, title string, msgs []api.Message) {
	fmt.Fprintf(sb, "== %s (%d)\n", title, len(msgs))
	for _, m := range msgs {
		fmt.Fprintf(sb, "[%s] plugin=%q %q @ %s\n", m.ID, m.PluginName, m.Text, fmtLoc(m.Location))
		for _, n := range m.Notes {
			fmt.Fprintf(sb, "    note %q @ %s\n", n.Text, fmtLoc(n.Location))
		}
	}
}

// canonical text of everything a build returns (order preserved)
func canonical(res api.BuildResult) string {
	var sb strings.Builder
	fmtMsgs(&sb, "errors", res.Errors)
	fmtMsgs(&sb, "warnings", res.Warnings)
	fmt.Fprintf(&sb, "== outputs (%d)\n", len(res.OutputFiles))
	for _, f := range res.OutputFiles {
		fmt.Fprintf(&sb, "-- file %s hash=%s bytes=%d\n", f.Path, f.Hash, len(f.Contents))
	}
	fmt.Fprintf(&sb, "== metafile\n%s\n", strings.ReplaceAll(res.Metafile, "},", "},\n"))
	mc, _ := json.Marshal(res.MangleCache)
	fmt.Fprintf(&sb, "== mangle cache\n%s\n", mc)
	for _, f := range res.OutputFiles {
		fmt.Fprintf(&sb, "== contents of %s\n%s\n", f.Path, f.Contents)
	}
	return sb.String()
}

func firstDiff(a, b string) (string, string, string) {
	la, lb := strings.Split(a, "\n"), strings.Split(b, "\n")
	section := ""
	for i := 0; i < len(la) || i < len(lb); i++ {
		var x, y string
		if i < len(la) {
			x = la[i]
		} else {
			x = "<end>"
		}
		if i < len(lb) {
			y = lb[i]
		} else {
			y = "<end>"
		}
		if strings.HasPrefix(x, "== ") {
			section = x
		}
		if x != y {
			ctx := func(l []string) string {
				lo, hi := i-1, i+3
				if lo < 0 {
					lo = 0
				}
				if hi > len(l) {
					hi = len(l)
				}
				if lo > hi {
					lo = hi
				}
				t := strings.Join(l[lo:hi], "\n")
				if len(t) > 1200 {
					t = t[:1200] + "..."
				}
				return t
			}
			return section, ctx(la), ctx(lb)
		}
	}
	return "", "", ""
}

type job struct {
	proj    int
	variant int
	sched   schedule
	out     string
}

func writeProject(root string, p *project) {
	for rel, content := range p.Files {
		full := filepath.Join(root, filepath.FromSlash(rel))
		if err := os.MkdirAll(filepath.Dir(full), 0o755); err != nil {
			panic(err)
		}
		if err := os.WriteFile(full, []byte(content), 0o644); err != nil {
			panic(err)
		}
	}
}

func runGlue(r *Rng, st *Stats, n int, tier string) {
	tmp, err := os.MkdirTemp("", "verif-c08-")
	if err != nil {
		panic(err)
	}
	defer os.RemoveAll(tmp)
	prevProcs := runtime.GOMAXPROCS(0)
	defer runtime.GOMAXPROCS(prevProcs)

	// first: nothing else has been built in this process yet
	runInterference(r, st, tmp, tier)

	runRelocation(r, st, tmp, tier)

	runOptionScenarios(st, tmp, 40)

	nProj := n / 60
	if nProj < 6 {
		nProj = 6
	}
	reps := 24
	if tier == "thorough" {
		reps = 40
	}
	var projects []*project
	for i := 0; i < nProj; i++ {
		switch {
		case i%6 == 4:
			projects = append(projects, genProject(r, true))
		default:
			projects = append(projects, genProject(r, false))
		}
	}
	projects = append(projects, scenarioMissingEntries(r))
	nSib := 2
	if tier == "thorough" {
		nSib = 6
	}
	for i := 0; i < nSib; i++ {
		projects = append(projects, scenarioSiblings(r))
	}
	for i := 0; i < nSib; i++ {
		projects = append(projects, scenarioSharedFailingImport(r))
	}
	nCSS := 3
	if tier == "thorough" {
		nCSS = 8
	}
	for i := 0; i < nCSS; i++ {
		projects = append(projects, scenarioCSSLayers(r))
	}
	// the minimal replay of finding C08-G4
	projects = append(projects, &project{Kind: "shared-failing-import", Errors: true, Entries: []string{"src/a.js", "src/b.js"}, Files: map[string]string{
		"src/a.js": "import './data.xyz'\n", "src/b.js": "\n\nimport   './data.xyz'\n", "src/data.xyz": "x"}})
	rootsA := make([]string, len(projects))
	rootsB := make([]string, len(projects))
	for i, p := range projects {
		rootsA[i] = filepath.Join(tmp, fmt.Sprintf("p%d", i), "proj")
		rootsB[i] = filepath.Join(tmp, fmt.Sprintf("elsewhere/deeper/copy-of-p%d", i), "nested", "proj")
		writeProject(rootsA[i], p)
		writeProject(rootsB[i], p)
	}
	// two variants per project
	projVariants := make([][]int, len(projects))
	for i := range projects {
		a := r.Intn(len(variants))
		b := (a + 1 + r.Intn(len(variants)-1)) % len(variants)
		if projects[i].Kind == "shared-chunk-siblings" {
			a, b = 0, 1 // the splitting variants
		}
		if projects[i].Kind == "shared-failing-import" {
			a, b = 0, 4 // bundling variants
		}
		if projects[i].Kind == "css-shared-layers" {
			a, b = 4, 6 // several entry points, no splitting, no cross-entry naming state
		}
		projVariants[i] = []int{a, b}
	}

	run := func(j *job) {
		root := rootsA[j.proj]
		if j.sched.Location == "B" {
			root = rootsB[j.proj]
		}
		res := api.Build(buildOptions(root, projects[j.proj], variants[j.variant], j.sched))
		out := canonical(res)
		// absolute paths are normalised (only the project root itself)
		j.out = strings.ReplaceAll(out, root, "<ROOT>")
	}
	runPool := func(jobs []*job, procs, width int) {
		runtime.GOMAXPROCS(procs)
		ch := make(chan *job)
		var wg sync.WaitGroup
		for w := 0; w < width; w++ {
			wg.Add(1)
			go func() {
				defer wg.Done()
				for j := range ch {
					run(j)
				}
			}()
		}
		for _, j := range jobs {
			ch <- j
		}
		close(ch)
		wg.Wait()
	}

	// reference builds: no delays, 16 procs, one at a time
	refs := map[[2]int]*job{}
	var refJobs []*job
	for i := range projects {
		for _, v := range projVariants[i] {
			j := &job{proj: i, variant: v, sched: schedule{Procs: 16, Location: "A", Siblings: 1}}
			refs[[2]int{i, v}] = j
			refJobs = append(refJobs, j)
		}
	}
	runPool(refJobs, 16, 1)
	// each entry point linked alone must give the same files as in the multi-entry build
	for i, p := range projects {
		if p.Kind != "css-shared-layers" {
			continue
		}
		for _, v := range projVariants[i] {
			checkEntriesAlone(st, rootsA[i], p, variants[v])
		}
	}
	if dump := os.Getenv("VERIF_C08_DUMP"); dump != "" {
		os.MkdirAll(dump, 0o755)
		for _, j := range refJobs {
			os.WriteFile(filepath.Join(dump, fmt.Sprintf("p%d-%s.txt", j.proj, variants[j.variant].Name)), []byte(j.out), 0o644)
		}
		for i, p := range projects {
			writeProject(filepath.Join(dump, fmt.Sprintf("p%d", i)), p)
		}
	}

	// explored schedules, grouped by GOMAXPROCS phase
	phases := map[int][]*job{}
	procsCycle := []int{1, 2, 16}
	for i := range projects {
		for _, v := range projVariants[i] {
			for k := 0; k < reps; k++ {
				s := schedule{Procs: procsCycle[k%3], Seed: r.U64() | 1, MaxUs: []int{300, 1500, 4000}[r.Intn(3)], Location: "A", Siblings: 4}
				if k%8 == 7 {
					s.Location = "B"
				}
				if k%6 == 5 {
					s.Seed = 0 // plain repetition: map iteration and scheduler only
				}
				phases[s.Procs] = append(phases[s.Procs], &job{proj: i, variant: v, sched: s})
			}
		}
	}
	reported := map[string]bool{}
	for _, procs := range procsCycle {
		jobs := phases[procs]
		// shuffle so that sibling builds of different projects overlap
		for i := len(jobs) - 1; i > 0; i-- {
			k := r.Intn(i + 1)
			jobs[i], jobs[k] = jobs[k], jobs[i]
		}
		runPool(jobs, procs, 4)
		for _, j := range jobs {
			ref := refs[[2]int{j.proj, j.variant}]
			p, v := projects[j.proj], variants[j.variant]
			key := fmt.Sprintf("p%d/%s/%d/%d/%s", j.proj, v.Name, j.sched.Procs, j.sched.Seed, j.sched.Location)
			st.Note("build/"+p.Kind+"/"+v.Name, key, true)
			if j.out == ref.out {
				continue
			}
			// confirm by rebuilding the reference configuration (rules out a one-off)
			again := &job{proj: j.proj, variant: j.variant, sched: j.sched}
			run(again)
			section, want, got := firstDiff(ref.out, j.out)
			what := "nondeterministic-build"
			if j.sched.Location == "B" && again.out == j.out {
				// a pure location dependence? three plain builds at A and at B each
				isLoc := true
				var firstB string
				for k := 0; k < 3 && isLoc; k++ {
					pa := &job{proj: j.proj, variant: j.variant, sched: schedule{Procs: 16, Location: "A", Siblings: 1}}
					pb := &job{proj: j.proj, variant: j.variant, sched: schedule{Procs: 16, Location: "B", Siblings: 1}}
					run(pa)
					run(pb)
					if k == 0 {
						firstB = pb.out
					}
					isLoc = pa.out == ref.out && pb.out == firstB && pb.out != ref.out
				}
				if isLoc {
					what = "build-depends-on-absolute-location"
				}
			}
			diffKind := "general"
			if stripImporterLocated(ref.out) == stripImporterLocated(j.out) {
				diffKind = "only-importer-located-message-location"
			}
			rk := fmt.Sprintf("%s|%d|%s|%s|%s", what, j.proj, v.Name, section, diffKind)
			if reported[rk] {
				st.Histogram["FAIL-repeat:"+what]++
				continue
			}
			reported[rk] = true
			st.Fail(what, map[string]interface{}{
				"scenario": p.Kind, "project": p, "options": v, "schedule_reference": ref.sched, "schedule_other": j.sched,
				"differs_in": section, "same_schedule_rebuilt_equals_other": again.out == j.out, "difference_kind": diffKind,
			}, got, want)
		}
	}
	st.Sample(map[string]interface{}{"projects": len(projects), "reps_per_project_variant": reps, "files_in_first_project": len(projects[0].Files),
		"entries_first": projects[0].Entries, "variants_first": []string{variants[projVariants[0][0]].Name, variants[projVariants[0][1]].Name},
		"reference_output_bytes_first": len(refs[[2]int{0, projVariants[0][0]}].out)})
	// non-vacuity of the generator: record what the reference builds contained
	for i := range projects {
		for _, v := range projVariants[i] {
			out := refs[[2]int{i, v}].out
			st.Histogram["ref:errors>0"] += b2i(!strings.Contains(out, "== errors (0)"))
			st.Histogram["ref:warnings>0"] += b2i(!strings.Contains(out, "== warnings (0)"))
			st.Histogram["ref:outputs>0"] += b2i(!strings.Contains(out, "== outputs (0)"))
			st.Histogram["ref:chunks"] += b2i(strings.Contains(out, "/chunks/") || strings.Contains(out, "chunk-"))
		}
	}
}

func b2i(b bool) int {
	if b {
		return 1
	}
	return 0
}

// removes the diagnostics that parseFile locates at "the import that reached
// the file first" (no-loader, do-not-know-how-to-load, unsupported import
// attribute, on-load plugin messages) together with their notes: if two
// results are equal after that, they differ only in where those messages point
func stripImporterLocated(out string) string {
	var sb strings.Builder
	skipNotes := false
	for _, line := range strings.Split(out, "\n") {
		if strings.HasPrefix(line, "    note ") && skipNotes {
			continue
		}
		skipNotes = false
		if strings.HasPrefix(line, "[") && (strings.Contains(line, "\"No loader is configured for ") || strings.Contains(line, "\"Do not know how to load path") ||
			strings.Contains(line, "\"Importing with ") || !strings.Contains(line, "plugin=\"\"")) {
			skipNotes = true
			continue
		}
		sb.WriteString(line)
		sb.WriteByte('\n')
	}
	return sb.String()
}

// Without code splitting the entry points are linked independently: the files
// produced for one entry point in a multi-entry build must be byte-identical
// to the files of a build of that entry point alone.  (Checked several times:
// a race between the per-entry linkers shows up here even when it happens to
// be the same in the reference build and in the compared build.)
func checkEntriesAlone(st *Stats, root string, p *project, v variant) {
	filesOf := func(entries []string) map[string]string {
		q := *p
		q.Entries = entries
		res := api.Build(buildOptions(root, &q, v, schedule{Procs: 16, Location: "A"}))
		m := map[string]string{}
		for _, f := range res.OutputFiles {
			m[strings.ReplaceAll(f.Path, root, "<ROOT>")] = string(f.Contents)
		}
		return m
	}
	alone := map[string]string{}
	for _, e := range p.Entries {
		for path, c := range filesOf([]string{e}) {
			alone[path] = c
		}
	}
	prev := runtime.GOMAXPROCS(0)
	defer runtime.GOMAXPROCS(prev)
	for rep := 0; rep < 6; rep++ {
		runtime.GOMAXPROCS([]int{16, 4, 2, 1, 8, 3}[rep])
		all := filesOf(p.Entries)
		st.Note("entries-alone/"+v.Name, fmt.Sprint(root, rep), true)
		for path, want := range alone {
			got, ok := all[path]
			if ok && got == want {
				continue
			}
			_, w, g := firstDiff(want, got)
			st.Fail("entry-output-depends-on-other-entry-points", map[string]interface{}{
				"scenario": p.Kind, "project": p, "options": v, "output_file": path, "gomaxprocs": []int{16, 4, 2, 1, 8, 3}[rep],
				"note": "the multi-entry build (no code splitting) and the build of this entry point alone give different bytes for this file",
			}, g, w)
			return
		}
	}
}
