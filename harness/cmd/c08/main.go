package main

// C08: builds are deterministic.
//  * correspondence: the real Less functions (hooks where unexported), real
//    sort.Sort/sort.Stable over them, findReachableFiles and helpers.Serializer
//    against the Coq models (cases evaluated by vm_compute);
//  * glue (main detector): schedule exploration through api.Build (glue.go).

import (
	"fmt"
	"os"
	"strings"
	"sync"
	"time"

	"github.com/evanw/esbuild/internal/ast"
	"github.com/evanw/esbuild/internal/bundler"
	"github.com/evanw/esbuild/internal/graph"
	"github.com/evanw/esbuild/internal/helpers"
	"github.com/evanw/esbuild/internal/js_ast"
	"github.com/evanw/esbuild/internal/js_parser"
	"github.com/evanw/esbuild/internal/linker"
	"github.com/evanw/esbuild/internal/logger"
	"github.com/evanw/esbuild/internal/renamer"
	"github.com/evanw/esbuild/internal/resolver"
	"github.com/evanw/esbuild/pkg/api"
	. "github.com/evanw/esbuild/verifharness/hlib"
)

func main() {
	maybeRunChild()
	Main("c08", runC08)
}

var u32grid = []uint32{0, 1, 2, 3, 7, 255, 256, 65535, 65536, 1<<31 - 1, 1 << 31, 1<<32 - 2, 1<<32 - 1}

func randU32(r *Rng) uint32 {
	switch r.Intn(4) {
	case 0:
		return u32grid[r.Intn(len(u32grid))]
	case 1:
		return uint32(r.U64())
	default:
		return uint32(r.Intn(4)) // small range: many ties
	}
}

func cstr(s string) string { return CBytes([]byte(s)) }

func randStr(r *Rng) string {
	alpha := []string{"a", "b", "*", "/", ".", "A", "\x00", "\x7f", "\x80", "\xff", "z"}
	n := r.Intn(6)
	var sb strings.Builder
	for i := 0; i < n; i++ {
		if r.Chance(75) {
			sb.WriteString(alpha[r.Intn(4)])
		} else {
			sb.WriteString(alpha[r.Intn(len(alpha))])
		}
	}
	return sb.String()
}

func zl(xs ...uint32) string {
	v := make([]int64, len(xs))
	for i, x := range xs {
		v[i] = int64(x)
	}
	return CZList(v)
}

type msgT struct {
	hasLoc         bool
	abs, rel, text string
	line, col      int
	kind           int
}

func randMsg(r *Rng) msgT {
	files := []string{"", "a.js", "b.js", "src/a.js", "a.js\x00"}
	m := msgT{hasLoc: r.Chance(80), abs: "/p/" + files[r.Intn(len(files))], rel: files[r.Intn(len(files))],
		line: r.Intn(3), col: r.Intn(3), kind: r.Intn(6), text: randStr(r)}
	if r.Chance(50) {
		m.abs = "/p/" + m.rel
	}
	if r.Chance(10) {
		m.line = r.Intn(1 << 20)
	}
	return m
}
func (m msgT) goMsg() logger.Msg {
	g := logger.Msg{Kind: logger.MsgKind(m.kind), Data: logger.MsgData{Text: m.text}}
	if m.hasLoc {
		g.Data.Location = &logger.MsgLocation{File: logger.PrettyPaths{Abs: m.abs, Rel: m.rel}, Line: m.line, Column: m.col}
	}
	return g
}
func (m msgT) coq() string {
	return fmt.Sprintf("(%s,%s,%s,[%d;%d;%d],%s)", CBool(m.hasLoc), cstr(m.abs), cstr(m.rel), m.line, m.col, m.kind, cstr(m.text))
}

// a strict weak order check on three concrete elements of the real Less
func swoTriple(less func(i, j int) bool) string {
	for i := 0; i < 3; i++ {
		if less(i, i) {
			return "reflexive"
		}
		for j := 0; j < 3; j++ {
			if less(i, j) && less(j, i) {
				return "symmetric"
			}
			for k := 0; k < 3; k++ {
				if less(i, j) && less(j, k) && !less(i, k) {
					return "not transitive"
				}
				if !less(i, j) && !less(j, k) && less(i, k) {
					return "incomparability not transitive"
				}
			}
		}
	}
	return ""
}

func runC08(seed uint64, n int, tier string, outDir string) []*Stats {
	r := NewRng(seed)
	cf := NewCoqFile("From V Require Import Common.Base C08.SortPerm C08.Comparators C08.Dfs C08.Serializer C08.Scanner C08.Harness.")
	st := NewStats("c08", seed)

	// ---------------- numeric comparators ----------------
	var items []string
	for i := 0; i < n; i++ {
		id := r.Intn(7)
		var a, b [4]uint32
		for k := 0; k < 4; k++ {
			a[k], b[k] = randU32(r), randU32(r)
			if r.Chance(35) {
				b[k] = a[k]
			}
		}
		var res bool
		var fa, fb string
		switch id {
		case 0:
			res = linker.VerifStableRefLess(linker.VerifStableRef{StableSourceIndex: a[0], Ref: ast.Ref{SourceIndex: a[1], InnerIndex: a[2]}},
				linker.VerifStableRef{StableSourceIndex: b[0], Ref: ast.Ref{SourceIndex: b[1], InnerIndex: b[2]}})
			fa, fb = zl(a[0], a[1], a[2]), zl(b[0], b[1], b[2])
		case 1:
			res = linker.VerifChunkOrderLess(linker.VerifChunkOrder{SourceIndex: a[0], Distance: a[1], TieBreaker: a[2]},
				linker.VerifChunkOrder{SourceIndex: b[0], Distance: b[1], TieBreaker: b[2]})
			fa, fb = zl(a[0], a[1], a[2]), zl(b[0], b[1], b[2])
		case 2:
			res = linker.VerifCrossChunkImportLess(a[0], b[0])
			fa, fb = zl(a[0]), zl(b[0])
		case 3:
			arr := renamer.StableSymbolCountArray{
				{StableSourceIndex: a[0], Ref: ast.Ref{SourceIndex: a[1], InnerIndex: a[2]}, Count: a[3]},
				{StableSourceIndex: b[0], Ref: ast.Ref{SourceIndex: b[1], InnerIndex: b[2]}, Count: b[3]}}
			res = arr.Less(0, 1)
			fa, fb = zl(a[0], a[1], a[2], a[3]), zl(b[0], b[1], b[2], b[3])
		case 4:
			res = renamer.VerifSlotAndCountLess(a[0], a[1], b[0], b[1])
			fa, fb = zl(a[0], a[1]), zl(b[0], b[1])
		case 5:
			ca, cb := int32(a[0]), int32(b[0])
			ia, ib := byte(a[1]), byte(b[1])
			res = ast.VerifCharAndCountLess(ca, ia, cb, ib)
			fa, fb = CZList([]int64{int64(ca), int64(ia)}), CZList([]int64{int64(cb), int64(ib)})
		default:
			res = js_parser.VerifScopeMemberLess(ast.Ref{SourceIndex: a[0], InnerIndex: a[1]}, ast.Ref{SourceIndex: b[0], InnerIndex: b[1]})
			fa, fb = zl(a[0], a[1]), zl(b[0], b[1])
		}
		items = append(items, fmt.Sprintf("(%d,%s,%s,%s)", id, fa, fb, CBool(res)))
		st.Note(fmt.Sprintf("less-num-%d", id), fa+fb, fa != fb)
	}
	cf.AddCases("num_less_cases", "Z * list Z * list Z * bool", "check_num_less", items)

	// ---------------- string comparators ----------------
	items = nil
	for i := 0; i < n; i++ {
		id := r.Intn(3)
		sa, sb := randStr(r), randStr(r)
		if r.Chance(25) {
			sb = sa
		}
		za, zb := r.Intn(3), r.Intn(3)
		var res bool
		switch id {
		case 0:
			res = linker.VerifCrossChunkImportItemLess(sa, ast.Ref{InnerIndex: uint32(za)}, sb, ast.Ref{InnerIndex: uint32(zb)})
		case 1:
			res = api.VerifMetafileLess(sa, za, sb, zb)
		default:
			res = resolver.VerifExpansionKeysLess(sa, sb)
		}
		items = append(items, fmt.Sprintf("(%d,(%s,%d),(%s,%d),%s)", id, cstr(sa), za, cstr(sb), zb, CBool(res)))
		st.Note(fmt.Sprintf("less-str-%d", id), sa+"|"+sb, sa != sb)
	}
	cf.AddCases("str_less_cases", "Z * (list Z * Z) * (list Z * Z) * bool", "check_str_less", items)

	// ---------------- messages ----------------
	items = nil
	for i := 0; i < n; i++ {
		a, b := randMsg(r), randMsg(r)
		switch r.Intn(6) { // near-ties: copy a prefix of the key
		case 0:
			b = a
		case 1:
			b = a
			b.text = randStr(r)
		case 2:
			b = a
			b.kind = r.Intn(6)
		case 3:
			b = a
			b.col = r.Intn(3)
			b.rel = a.rel + "x"
		}
		res := logger.SortableMsgs{a.goMsg(), b.goMsg()}.Less(0, 1)
		items = append(items, fmt.Sprintf("(%s,%s,%s)", a.coq(), b.coq(), CBool(res)))
		st.Note("less-msg", a.coq()+b.coq(), a != b)
		// the property's predicate on the real code: strict weak order on triples
		c := randMsg(r)
		ms := logger.SortableMsgs{a.goMsg(), b.goMsg(), c.goMsg()}
		if why := swoTriple(ms.Less); why != "" {
			st.Fail("comparator-not-strict-weak-order", map[string]interface{}{"comparator": "SortableMsgs", "a": a.coq(), "b": b.coq(), "c": c.coq()}, why, "strict weak order")
		}
	}
	cf.AddCases("msg_less_cases", "(bool * list Z * list Z * list Z * list Z) * (bool * list Z * list Z * list Z * list Z) * bool", "check_msg_less", items)

	// ---------------- real sorts vs model sort ----------------
	items = nil
	ns := n / 6
	if ns < 20 {
		ns = 20
	}
	for i := 0; i < ns; i++ {
		id := []int{0, 1, 4}[r.Intn(3)]
		k := r.Range(0, 9)
		// a bijection source index -> stable index
		stableOf := randPerm(r, 12)
		var in, out []string
		switch id {
		case 0:
			seen := map[[2]uint32]bool{}
			var arr []linker.VerifStableRef
			for len(arr) < k {
				src, inner := uint32(r.Intn(12)), uint32(r.Intn(4))
				if seen[[2]uint32{src, inner}] {
					continue
				}
				seen[[2]uint32{src, inner}] = true
				arr = append(arr, linker.VerifStableRef{StableSourceIndex: uint32(stableOf[src]), Ref: ast.Ref{SourceIndex: src, InnerIndex: inner}})
			}
			for _, x := range arr {
				in = append(in, zl(x.StableSourceIndex, x.Ref.SourceIndex, x.Ref.InnerIndex))
			}
			res := linker.VerifSortStableRefs(arr)
			for _, x := range res {
				out = append(out, zl(x.StableSourceIndex, x.Ref.SourceIndex, x.Ref.InnerIndex))
			}
			if why := checkSortedDistinct(len(res), func(i, j int) bool { return linker.VerifStableRefLess(res[i], res[j]) }); why != "" {
				st.Fail("sort-result-not-canonical", map[string]interface{}{"comparator": "stableRefArray", "input": in}, out, why)
			}
		case 1:
			var arr []linker.VerifChunkOrder
			srcs := randPerm(r, 12)
			for j := 0; j < k; j++ {
				arr = append(arr, linker.VerifChunkOrder{SourceIndex: uint32(srcs[j]), Distance: uint32(r.Intn(3)), TieBreaker: uint32(stableOf[srcs[j]])})
			}
			for _, x := range arr {
				in = append(in, zl(x.SourceIndex, x.Distance, x.TieBreaker))
			}
			res := linker.VerifSortChunkOrder(arr)
			for _, x := range res {
				out = append(out, zl(x.SourceIndex, x.Distance, x.TieBreaker))
			}
			if why := checkSortedDistinct(len(res), func(i, j int) bool { return linker.VerifChunkOrderLess(res[i], res[j]) }); why != "" {
				st.Fail("sort-result-not-canonical", map[string]interface{}{"comparator": "chunkOrderArray", "input": in}, out, why)
			}
		default:
			slots := randPerm(r, 12)[:k]
			var ss, cs []uint32
			cnt := map[uint32]uint32{}
			for _, s := range slots {
				c := uint32(r.Intn(3))
				ss, cs = append(ss, uint32(s)), append(cs, c)
				cnt[uint32(s)] = c
				in = append(in, zl(uint32(s), c))
			}
			res := renamer.VerifSortSlotAndCount(ss, cs)
			for _, s := range res {
				out = append(out, zl(s, cnt[s]))
			}
		}
		items = append(items, fmt.Sprintf("(%d,%s,%s)", id, CList(in), CList(out)))
		st.Note(fmt.Sprintf("sort-%d", id), strings.Join(in, ""), k > 1)
	}
	cf.AddCases("num_sort_cases", "Z * list (list Z) * list (list Z)", "check_num_sort", items)

	items = nil
	for i := 0; i < ns; i++ {
		k := r.Range(0, 7)
		var keys []string
		for j := 0; j < k; j++ {
			s := randStr(r)
			if r.Bool() {
				s += "/"
			} else if !strings.Contains(s, "*") {
				s += "*"
			}
			keys = append(keys, s)
		}
		res := resolver.VerifSortExpansionKeys(keys)
		var in, out []string
		for _, s := range keys {
			in = append(in, cstr(s))
		}
		for _, s := range res {
			out = append(out, cstr(s))
		}
		items = append(items, fmt.Sprintf("(%s,%s)", CList(in), CList(out)))
		st.Note("sort-expansion-keys", strings.Join(keys, "|"), k > 1)
	}
	cf.AddCases("ek_sort_cases", "list (list Z) * list (list Z)", "check_ek_sort", items)

	// ---------------- findReachableFiles ----------------
	items = nil
	for i := 0; i < ns; i++ {
		items = append(items, dfsCase(r, st))
	}
	cf.AddCases("dfs_cases", "list (Z * list (Z * Z)) * list Z * list Z", "check_dfs", items)

	// ---------------- helpers.Serializer under real goroutines ----------------
	items = nil
	nser := ns / 2
	for i := 0; i < nser; i++ {
		items = append(items, serializerCase(r, st))
	}
	cf.AddCases("ser_cases", "Z * list (Z * Z)", "check_ser", items)

	// ---------------- the scan phase under reordered parse results ----------------
	items = nil
	for i := 0; i < ns/2; i++ {
		if it, ok := scanCase(r, st); ok {
			items = append(items, it)
		}
	}
	cf.AddCases("scan_cases", "list (Z * list Z) * list Z * list Z * list (list Z) * list Z", "check_scan", items)

	if err := os.WriteFile(outDir+"/c08_cases.v", []byte(cf.String()), 0o644); err != nil {
		panic(err)
	}

	// ---------------- glue: schedule exploration through api.Build ----------------
	runGlue(r, st, n, tier)

	st.Finish("distinct canonical case exercising a non-identity branch (distinct operands for Less; >= 2 elements for sorts; >= 2 files for graphs; >= 2 workers for the serializer; for builds: a distinct (project, options, schedule) whose result was compared byte-wise with the reference build)")
	return []*Stats{st}
}

// after sorting elements with pairwise distinct keys, every earlier element
// must be Less than every later one (the canonical order is unique)
func checkSortedDistinct(n int, less func(i, j int) bool) string {
	for i := 0; i < n; i++ {
		for j := i + 1; j < n; j++ {
			if !less(i, j) || less(j, i) {
				return fmt.Sprintf("elements %d and %d of the result are not strictly ordered", i, j)
			}
		}
	}
	return ""
}

// ---- findReachableFiles: files with optional CSS source index and import records
func dfsCase(r *Rng, st *Stats) string {
	nf := r.Range(1, 9)
	files := make([]graph.InputFile, nf)
	var fileTerms []string
	for i := 0; i < nf; i++ {
		nrec := r.Intn(4)
		var recs []ast.ImportRecord
		var recTerms []string
		for k := 0; k < nrec; k++ {
			rec := ast.ImportRecord{}
			s, c := int64(-1), int64(-1)
			if r.Chance(70) {
				s = int64(r.Intn(nf))
				rec.SourceIndex = ast.MakeIndex32(uint32(s))
			}
			if r.Chance(30) {
				c = int64(r.Intn(nf))
				rec.CopySourceIndex = ast.MakeIndex32(uint32(c))
			}
			recs = append(recs, rec)
			recTerms = append(recTerms, fmt.Sprintf("(%s,%s)", CZ(s), CZ(c)))
		}
		css := int64(-1)
		if r.Chance(60) {
			repr := &graph.JSRepr{AST: js_ast.AST{ImportRecords: recs}}
			if r.Chance(25) {
				css = int64(r.Intn(nf))
				repr.CSSSourceIndex = ast.MakeIndex32(uint32(css))
			}
			files[i].Repr = repr
		} else {
			repr := &graph.CSSRepr{}
			repr.AST.ImportRecords = recs
			files[i].Repr = repr
		}
		fileTerms = append(fileTerms, fmt.Sprintf("(%s,%s)", CZ(css), CList(recTerms)))
	}
	ne := r.Range(0, 3)
	var eps []graph.EntryPoint
	var epz []int64
	for k := 0; k < ne; k++ {
		e := r.Intn(nf)
		eps = append(eps, graph.EntryPoint{SourceIndex: uint32(e)})
		epz = append(epz, int64(e))
	}
	order := bundler.VerifFindReachableFiles(files, eps)
	oz := make([]int64, len(order))
	for i, o := range order {
		oz[i] = int64(o)
	}
	st.Note("dfs", fmt.Sprint(fileTerms, epz), nf > 1)
	return fmt.Sprintf("(%s,%s,%s)", CList(fileTerms), CZList(epz), CZList(oz))
}

// ---- Serializer: n workers started in random order with random delays; the
// recorded event log (0 = Enter returned, 1 = critical work, 2 = about to Leave)
func serializerCase(r *Rng, st *Stats) string {
	n := r.Range(1, 8)
	ser := helpers.MakeSerializer(n)
	var mu sync.Mutex
	var events [][2]int
	var crit []int
	rec := func(kind, i int) {
		mu.Lock()
		events = append(events, [2]int{kind, i})
		mu.Unlock()
	}
	var wg sync.WaitGroup
	delays := make([][2]time.Duration, n)
	for i := range delays {
		delays[i] = [2]time.Duration{time.Duration(r.Intn(300)) * time.Microsecond, time.Duration(r.Intn(100)) * time.Microsecond}
	}
	for _, i := range randPerm(r, n) {
		wg.Add(1)
		go func(i int) {
			defer wg.Done()
			time.Sleep(delays[i][0])
			ser.Enter(i)
			rec(0, i)
			crit = append(crit, i) // unsynchronised on purpose: the serializer is the only protection
			time.Sleep(delays[i][1])
			rec(1, i)
			rec(2, i)
			ser.Leave(i)
		}(i)
	}
	wg.Wait()
	ok := len(crit) == n
	for i := 0; ok && i < n; i++ {
		ok = crit[i] == i
	}
	if !ok {
		st.Fail("serializer-order", map[string]interface{}{"workers": n, "delays_us": fmt.Sprint(delays)}, fmt.Sprint(crit), "0..n-1 in index order")
	}
	var ev []string
	for _, e := range events {
		ev = append(ev, fmt.Sprintf("(%d,%d)", e[0], e[1]))
	}
	st.Note("serializer", fmt.Sprint(n, delays), n > 1)
	return fmt.Sprintf("(%d,%s)", n, CList(ev))
}

func randPerm(r *Rng, n int) []int {
	p := make([]int, n)
	for i := range p {
		p[i] = i
	}
	for i := n - 1; i > 0; i-- {
		j := r.Intn(i + 1)
		p[i], p[j] = p[j], p[i]
	}
	return p
}
