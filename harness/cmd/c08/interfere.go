package main

// Cross-build interference: "regardless of other builds running concurrently
// in the same process".  A victim project whose programs USE the globals,
// labels, properties, packages and syntax that options can name is built
// before, during and after interfering builds and transforms whose options
// differ from the victim's in every family that could leak through
// process-wide state (define, pure, drop, drop-labels, inject, alias, loaders,
// target/engines/supported, jsx, mangle-props/cache, tsconfig raw, platform,
// main fields/conditions, log settings, ...).  Every victim result must be
// byte-identical to its reference, and the reference must be identical to the
// victim built in a FRESH process (so that state leaked before the reference
// was taken is noticed as well).  A difference is confirmed, and blamed on one
// interferer, by replaying "interferer then victim" in a fresh child process.

import (
	"bytes"
	"encoding/json"
	"fmt"
	"os"
	"os/exec"
	"path/filepath"
	"runtime"
	"strings"
	"sync"

	"github.com/evanw/esbuild/pkg/api"
	. "github.com/evanw/esbuild/verifharness/hlib"
)

const childEnv = "VERIF_C08_CHILD"

var victimFiles = map[string]string{
	"src/main.js": `/*! legal comment of main */
import { helper, C, E } from "./util";
import txt from "./note.txt";
import a from "pkg-a";
import { View } from "./view.jsx";
import data from "./data.json";
console.log("top-level call whose result is unused");
console.log(helper(1), txt, a, View, data.k, new C(2).y, E.B);
console.info("info call");
Object.freeze({ frozen: 1 });
Object.keys(data);
Math.random();
JSON.stringify(data);
/* @__PURE__ */ helper(5);
const area = Math.PI * 2, big = Number.MAX_SAFE_INTEGER, sym = Symbol.iterator;
if (typeof window !== "undefined") console.log("browser", window.location.href);
if (typeof DEBUG_FLAG !== "undefined" && DEBUG_FLAG) console.log("debug flag");
if (process.env.NODE_ENV !== "production") console.log("dev build", process.env.OTHER);
DEV: { console.log("labelled block"); }
TEST: for (const k of [1]) { console.warn("labelled loop", k); }
debugger;
const obj = { _foo_: 1, "_quoted_": 2, plain: 3, _bar_: { _baz_: 4 } };
class K { static s = 1; #p = 2; q = 3; m() { return this.#p ?? obj?._foo_; } static { K.s++; } }
const tpl = ` + "`t${area}`" + `, exp = 2 ** 10, bigint = 10n, spread = { ...obj };
async function* gen() { for await (const v of [1]) yield v; }
function named() { return arguments.length }
export const out = [area, big, sym, obj._foo_, obj["_quoted_"], obj._bar_._baz_, new K().m(), tpl, exp, bigint, spread, gen, named.name, globalThis.foo?.bar, undefined, NaN, Infinity];
`,
	"src/util.ts": `export function helper(x: number): number { return x + 1 }
export class C { x = 1; declare z: number; constructor(public y: number) {} }
export enum E { A, B = "b" }
export type T = number;
import type { T as U } from "./util";
console.log("util side effect");
Object.freeze(C);
`,
	"src/view.jsx": `export const View = (props) => <div class="x" {...props}><>frag</><span key="k">{props.a}</span></div>;
console.log("view side effect");
`,
	"src/note.txt":  "note text",
	"src/data.json": `{"k": [1, 2], "_foo_": true}`,
	"src/style.css": `.a { color: #ff0000; inset: 0; & .b { color: rgb(0 0 0 / 50%) } }
@media (width >= 600px) { .a { user-select: none } }
`,
	"node_modules/pkg-a/package.json": `{"name": "pkg-a", "main": "./main.js", "module": "./esm.js", "browser": "./browser.js",
 "exports": {".": {"worker": "./worker.js", "import": "./esm.js", "default": "./main.js"}}, "sideEffects": false}`,
	"node_modules/pkg-a/main.js":    "module.exports = 'pkg-a main'; console.log('pkg-a main');\n",
	"node_modules/pkg-a/esm.js":     "export default 'pkg-a esm'; console.log('pkg-a esm');\n",
	"node_modules/pkg-a/browser.js": "export default 'pkg-a browser'; console.log('pkg-a browser');\n",
	"node_modules/pkg-a/worker.js":  "export default 'pkg-a worker'; console.log('pkg-a worker');\n",
	"shim/inject.js":                "export const process = { env: { NODE_ENV: 'injected' } }; export let DEBUG_FLAG = true; export const console = { log() {} };\n",
	"shim/other.js":                 "export default 'aliased'; console.log('aliased');\n",
}

// the victim's builds: plain options only
func victimBuilds(root string) []func() string {
	base := func() api.BuildOptions {
		return api.BuildOptions{AbsWorkingDir: root, Outdir: "out", Write: false, LogLevel: api.LogLevelSilent,
			Loader: map[string]api.Loader{".txt": api.LoaderText}}
	}
	return []func() string{
		func() string {
			o := base()
			o.EntryPoints, o.Bundle, o.Format, o.Metafile = []string{"src/main.js", "src/style.css"}, true, api.FormatESModule, true
			return canonical(api.Build(o))
		},
		func() string {
			o := base()
			o.EntryPoints, o.Bundle, o.Format = []string{"src/main.js"}, true, api.FormatIIFE
			o.MinifyWhitespace, o.MinifyIdentifiers, o.MinifySyntax, o.Metafile = true, true, true, true
			return canonical(api.Build(o))
		},
		func() string {
			o := base()
			o.EntryPoints, o.Format = []string{"src/main.js", "src/util.ts", "src/view.jsx", "src/style.css"}, api.FormatCommonJS
			o.Sourcemap = api.SourceMapExternal
			return canonical(api.Build(o))
		},
		func() string {
			r := api.Transform(victimFiles["src/main.js"], api.TransformOptions{Sourcefile: "main.js", LogLevel: api.LogLevelSilent, MinifySyntax: true})
			var sb strings.Builder
			fmtMsgs(&sb, "errors", r.Errors)
			fmtMsgs(&sb, "warnings", r.Warnings)
			fmt.Fprintf(&sb, "== transform code\n%s\n", r.Code)
			return sb.String()
		},
		func() string {
			r := api.Transform(victimFiles["src/util.ts"], api.TransformOptions{Sourcefile: "util.ts", Loader: api.LoaderTS, LogLevel: api.LogLevelSilent})
			return fmt.Sprintf("== transform ts (%d errors)\n%s\n", len(r.Errors), r.Code)
		},
	}
}

func victimAll(root string) string {
	var sb strings.Builder
	for i, b := range victimBuilds(root) {
		fmt.Fprintf(&sb, "######## victim build %d\n%s", i, strings.ReplaceAll(b(), root, "<ROOT>"))
	}
	return sb.String()
}

type interferer struct {
	Name string                 `json:"name"`
	Desc map[string]interface{} `json:"options"`
	run  func(root string)
}

func bopts(root string) api.BuildOptions {
	return api.BuildOptions{AbsWorkingDir: root, Outdir: "out2", Write: false, LogLevel: api.LogLevelSilent, Bundle: true,
		EntryPoints: []string{"src/main.js"}, Loader: map[string]api.Loader{".txt": api.LoaderText}}
}

func mkInterferer(name string, desc map[string]interface{}, mod func(o *api.BuildOptions), tmod func(o *api.TransformOptions)) interferer {
	return interferer{Name: name, Desc: desc, run: func(root string) {
		if mod != nil {
			o := bopts(root)
			mod(&o)
			api.Build(o)
			// the same options without bundling, other entry points
			o2 := bopts(root)
			mod(&o2)
			o2.Bundle = false
			o2.EntryPoints = []string{"src/util.ts", "src/view.jsx"}
			api.Build(o2)
		}
		if tmod != nil {
			t := api.TransformOptions{Sourcefile: "main.js", LogLevel: api.LogLevelSilent}
			tmod(&t)
			api.Transform(victimFiles["src/main.js"], t)
		}
	}}
}

func interferers() []interferer {
	d := func(kv ...interface{}) map[string]interface{} {
		m := map[string]interface{}{}
		for i := 0; i+1 < len(kv); i += 2 {
			m[kv[i].(string)] = kv[i+1]
		}
		return m
	}
	defKnown := map[string]string{"Math.PI": "3", "console.log": "noop", "Object.freeze": "myFreeze", "Symbol.iterator": "\"it\"", "Number.MAX_SAFE_INTEGER": "1", "JSON.stringify": "S"}
	defOther := map[string]string{"process.env.NODE_ENV": "\"production\"", "process.env.OTHER": "1", "DEBUG_FLAG": "false", "window": "undefined", "globalThis.foo": "{\"bar\": 1}", "undefined": "void 0", "NaN": "0"}
	pureKnown := []string{"console.log", "console.info", "Object.freeze", "Object.keys", "Math.random", "JSON.stringify", "console.warn"}
	return []interferer{
		mkInterferer("define-known-globals", d("Define", defKnown),
			func(o *api.BuildOptions) { o.Define = defKnown }, func(t *api.TransformOptions) { t.Define = defKnown }),
		mkInterferer("define-others", d("Define", defOther),
			func(o *api.BuildOptions) { o.Define = defOther }, func(t *api.TransformOptions) { t.Define = defOther }),
		mkInterferer("pure-known-globals", d("Pure", pureKnown),
			func(o *api.BuildOptions) { o.Pure = pureKnown }, func(t *api.TransformOptions) { t.Pure = pureKnown }),
		mkInterferer("pure-others", d("Pure", []string{"helper", "foo.bar", "window.location"}),
			func(o *api.BuildOptions) { o.Pure = []string{"helper", "foo.bar", "window.location"} }, func(t *api.TransformOptions) { t.Pure = []string{"helper", "foo.bar"} }),
		mkInterferer("define+pure-minify", d("Define", defKnown, "Pure", pureKnown, "Minify", true),
			func(o *api.BuildOptions) {
				o.Define, o.Pure = defKnown, pureKnown
				o.MinifySyntax, o.MinifyIdentifiers, o.MinifyWhitespace = true, true, true
			}, nil),
		mkInterferer("drop", d("Drop", "console+debugger", "DropLabels", []string{"DEV", "TEST"}),
			func(o *api.BuildOptions) {
				o.Drop, o.DropLabels = api.DropConsole|api.DropDebugger, []string{"DEV", "TEST"}
			},
			func(t *api.TransformOptions) {
				t.Drop, t.DropLabels = api.DropConsole|api.DropDebugger, []string{"DEV", "TEST"}
			}),
		mkInterferer("inject", d("Inject", []string{"shim/inject.js"}),
			func(o *api.BuildOptions) { o.Inject = []string{"shim/inject.js"} }, nil),
		mkInterferer("alias", d("Alias", map[string]string{"pkg-a": "./shim/other.js"}),
			func(o *api.BuildOptions) { o.Alias = map[string]string{"pkg-a": "./shim/other.js"} }, nil),
		mkInterferer("loaders", d("Loader", map[string]string{".txt": "base64", ".js": "jsx", ".json": "text", ".ts": "tsx", ".css": "local-css"}),
			func(o *api.BuildOptions) {
				o.Loader = map[string]api.Loader{".txt": api.LoaderBase64, ".js": api.LoaderJSX, ".json": api.LoaderText, ".ts": api.LoaderTSX, ".css": api.LoaderLocalCSS}
				o.EntryPoints = []string{"src/main.js", "src/style.css"}
			}, func(t *api.TransformOptions) { t.Loader = api.LoaderTSX }),
		mkInterferer("target-es5", d("Target", "es5"),
			func(o *api.BuildOptions) { o.Target = api.ES5 }, func(t *api.TransformOptions) { t.Target = api.ES5 }),
		mkInterferer("target-es2015-engines", d("Target", "es2015", "Engines", "chrome50,safari11,node8"),
			func(o *api.BuildOptions) {
				o.Target = api.ES2015
				o.Engines = []api.Engine{{Name: api.EngineChrome, Version: "50"}, {Name: api.EngineSafari, Version: "11"}, {Name: api.EngineNode, Version: "8"}}
				o.EntryPoints = []string{"src/main.js", "src/style.css"}
			}, func(t *api.TransformOptions) { t.Target = api.ES2015 }),
		mkInterferer("supported", d("Supported", map[string]bool{"arrow": false, "class-field": false, "nullish-coalescing": false, "template-literal": false, "bigint": false, "nesting": false, "optional-chain": false}),
			func(o *api.BuildOptions) {
				o.Supported = map[string]bool{"arrow": false, "class-field": false, "class-private-field": false, "nullish-coalescing": false, "template-literal": false, "bigint": false, "nesting": false, "optional-chain": false, "object-rest-spread": false, "async-generator": false, "exponent-operator": false}
				o.EntryPoints = []string{"src/main.js", "src/style.css"}
			}, func(t *api.TransformOptions) {
				t.Supported = map[string]bool{"arrow": false, "class-field": false, "optional-chain": false}
			}),
		mkInterferer("jsx-factory", d("JSXFactory", "h", "JSXFragment", "Frag", "JSXSideEffects", true),
			func(o *api.BuildOptions) { o.JSXFactory, o.JSXFragment, o.JSXSideEffects = "h", "Frag", true }, func(t *api.TransformOptions) { t.Loader, t.JSXFactory = api.LoaderJSX, "h" }),
		mkInterferer("jsx-automatic-dev", d("JSX", "automatic", "JSXImportSource", "preact", "JSXDev", true),
			func(o *api.BuildOptions) {
				o.JSX, o.JSXImportSource, o.JSXDev = api.JSXAutomatic, "preact", true
				o.External = []string{"preact"}
			}, nil),
		mkInterferer("jsx-preserve", d("JSX", "preserve"),
			func(o *api.BuildOptions) { o.JSX = api.JSXPreserve }, nil),
		mkInterferer("mangle-props", d("MangleProps", "_$", "MangleQuoted", true, "MangleCache", map[string]interface{}{"_foo_": "zz", "_keep_": false}, "ReserveProps", "^_bar_$"),
			func(o *api.BuildOptions) {
				o.MangleProps, o.MangleQuoted, o.ReserveProps = "_$", api.MangleQuotedTrue, "^_bar_$"
				o.MangleCache = map[string]interface{}{"_foo_": "zz", "_keep_": false}
			}, func(t *api.TransformOptions) {
				t.MangleProps = "_$"
				t.MangleCache = map[string]interface{}{"_foo_": "q"}
			}),
		mkInterferer("tsconfig-raw", d("TsconfigRaw", `{"compilerOptions":{"useDefineForClassFields":false,"target":"es5","jsxFactory":"q","jsxFragmentFactory":"qf","experimentalDecorators":true,"verbatimModuleSyntax":true,"alwaysStrict":true,"importsNotUsedAsValues":"preserve"}}`),
			func(o *api.BuildOptions) {
				o.TsconfigRaw = `{"compilerOptions":{"useDefineForClassFields":false,"target":"es5","jsxFactory":"q","jsxFragmentFactory":"qf","experimentalDecorators":true,"verbatimModuleSyntax":true,"alwaysStrict":true,"paths":{"pkg-a":["./shim/other.js"]},"baseUrl":"."}}`
			}, func(t *api.TransformOptions) {
				t.Loader = api.LoaderTS
				t.TsconfigRaw = `{"compilerOptions":{"useDefineForClassFields":false,"target":"es5","verbatimModuleSyntax":true}}`
			}),
		mkInterferer("platform-node-cjs", d("Platform", "node", "Format", "cjs", "Packages", "external"),
			func(o *api.BuildOptions) {
				o.Platform, o.Format, o.Packages = api.PlatformNode, api.FormatCommonJS, api.PackagesExternal
			},
			func(t *api.TransformOptions) { t.Platform, t.Format = api.PlatformNode, api.FormatCommonJS }),
		mkInterferer("platform-neutral-fields", d("Platform", "neutral", "MainFields", []string{"browser", "main"}, "Conditions", []string{"worker"}),
			func(o *api.BuildOptions) {
				o.Platform, o.MainFields, o.Conditions = api.PlatformNeutral, []string{"browser", "main"}, []string{"worker"}
			}, nil),
		mkInterferer("log-settings", d("LogLimit", 1, "LogOverride", "warnings->error/silent", "LogLevel", "error"),
			func(o *api.BuildOptions) {
				o.LogLimit = 1
				o.LogOverride = map[string]api.LogLevel{"assign-to-define": api.LogLevelError, "suspicious-define": api.LogLevelSilent, "unsupported-jsx-comment": api.LogLevelError, "equals-nan": api.LogLevelError}
			}, func(t *api.TransformOptions) {
				t.LogLimit = 1
				t.LogOverride = map[string]api.LogLevel{"equals-nan": api.LogLevelError}
			}),
		mkInterferer("misc-output", d("KeepNames", true, "Charset", "utf8", "LegalComments", "none", "LineLimit", 40, "TreeShaking", false, "IgnoreAnnotations", true, "GlobalName", "G.x", "Banner/Footer", true),
			func(o *api.BuildOptions) {
				o.KeepNames, o.Charset, o.LegalComments, o.LineLimit = true, api.CharsetUTF8, api.LegalCommentsNone, 40
				o.TreeShaking, o.IgnoreAnnotations, o.GlobalName, o.Format = api.TreeShakingFalse, true, "G.x", api.FormatIIFE
				o.Banner, o.Footer = map[string]string{"js": "/*b*/"}, map[string]string{"js": "/*f*/"}
			}, func(t *api.TransformOptions) {
				t.KeepNames, t.IgnoreAnnotations, t.TreeShaking = true, true, api.TreeShakingTrue
			}),
		mkInterferer("external-resolve", d("External", []string{"pkg-a", "./note.txt"}, "ResolveExtensions", []string{".jsx", ".ts", ".js"}, "PublicPath", "https://cdn/x", "Splitting", true),
			func(o *api.BuildOptions) {
				o.External, o.ResolveExtensions, o.PublicPath = []string{"pkg-a", "*.txt"}, []string{".jsx", ".ts", ".js"}, "https://cdn/x"
				o.Splitting, o.Format = true, api.FormatESModule
			}, nil),
		mkInterferer("invalid-options", d("Define", map[string]string{"console.log": "a b c", "x-y": "1"}, "Pure", []string{"1x"}, "Target+Supported clash", true),
			func(o *api.BuildOptions) {
				o.Define, o.Pure = map[string]string{"console.log": "a b c", "x-y": "1", "Math.PI": "{"}, []string{"1x", "console.log"}
				o.JSXFactory = "1h"
			}, func(t *api.TransformOptions) { t.Define = map[string]string{"Math.PI": "{"} }),
	}
}

// child process entry: VERIF_C08_CHILD="<root>|<interferer index or -1>"
func maybeRunChild() {
	spec := os.Getenv(childEnv)
	if spec == "" {
		return
	}
	parts := strings.SplitN(spec, "|", 2)
	root := parts[0]
	idx := -1
	fmt.Sscanf(parts[1], "%d", &idx)
	if ins := interferers(); idx >= 0 && idx < len(ins) {
		ins[idx].run(root)
	}
	os.Stdout.WriteString(victimAll(root))
	os.Exit(0)
}

func runChild(root string, idx int) (string, error) {
	cmd := exec.Command(os.Args[0])
	cmd.Env = append(os.Environ(), fmt.Sprintf("%s=%s|%d", childEnv, root, idx))
	var out, errb bytes.Buffer
	cmd.Stdout, cmd.Stderr = &out, &errb
	if err := cmd.Run(); err != nil {
		return "", fmt.Errorf("%v: %s", err, errb.String())
	}
	return out.String(), nil
}

// must be called before any other api.Build/api.Transform of this process
func runInterference(r *Rng, st *Stats, tmp string, tier string) {
	root := filepath.Join(tmp, "victim")
	writeProject(root, &project{Files: victimFiles})
	ins := interferers()
	ref := victimAll(root)
	st.Note("interfere/reference", "ref", true)
	if dump := os.Getenv("VERIF_C08_DUMP"); dump != "" {
		os.MkdirAll(dump, 0o755)
		os.WriteFile(filepath.Join(dump, "victim-reference.txt"), []byte(ref), 0o644)
	}
	st.Histogram["interfere:ref-has-console-log"] += b2i(strings.Contains(ref, "top-level call whose result is unused"))

	fail := func(what string, in interferer, phase string, got string) {
		section, want, g := firstDiff(ref, got)
		// confirm in fresh processes: victim alone vs interferer-then-victim
		idx := -1
		for i := range ins {
			if ins[i].Name == in.Name {
				idx = i
			}
		}
		confirmed := "not attempted"
		if idx >= 0 {
			alone, e1 := runChild(root, -1)
			after, e2 := runChild(root, idx)
			switch {
			case e1 != nil || e2 != nil:
				confirmed = fmt.Sprintf("child process failed: %v %v", e1, e2)
			case alone != after:
				confirmed = "yes: in a fresh process, the victim built after this interferer differs from the victim built alone"
			default:
				confirmed = "no: not reproduced with this single interferer in a fresh process (needs concurrency or another interferer)"
			}
		}
		st.Fail(what, map[string]interface{}{
			"scenario": "cross-build-interference/" + in.Name, "phase": phase, "interfering_build": in,
			"victim":         "project victimFiles (src/main.js uses console.log, Math.PI, Object.freeze, typeof guards, labels, JSX, TS, pkg-a); 3 plain builds + 2 plain transforms",
			"victim_main_js": victimFiles["src/main.js"], "differs_in": section, "confirmed_in_fresh_process": confirmed,
		}, g, want)
	}

	// phase 1: each interferer alone, then the victim
	order := randPerm(r, len(ins))
	poisoned := false
	for _, i := range order {
		ins[i].run(root)
		got := victimAll(root)
		st.Note("interfere/after/"+ins[i].Name, ins[i].Name, true)
		if got != ref {
			fail("build-affected-by-other-build", ins[i], "victim built right after the interfering build (sequential)", got)
			poisoned = true
			break // process-wide state is now suspect: later blame would be meaningless
		}
	}

	// phase 2: victims concurrently with all interferers, GOMAXPROCS 1/2/16
	if !poisoned {
		prev := runtime.GOMAXPROCS(0)
		rounds := 2
		if tier == "thorough" {
			rounds = 6
		}
	outer:
		for round := 0; round < rounds; round++ {
			for _, procs := range []int{16, 2, 1} {
				runtime.GOMAXPROCS(procs)
				var wg sync.WaitGroup
				results := make([]string, 6)
				for _, i := range randPerm(r, len(ins)) {
					wg.Add(1)
					go func(i int) { defer wg.Done(); ins[i].run(root) }(i)
				}
				for v := range results {
					wg.Add(1)
					go func(v int) { defer wg.Done(); results[v] = victimAll(root) }(v)
				}
				wg.Wait()
				results = append(results, victimAll(root)) // and once more afterwards
				for _, got := range results {
					st.Note("interfere/concurrent", fmt.Sprint(round, procs), true)
					if got != ref {
						fail("build-affected-by-other-build", interferer{Name: "all-concurrently", Desc: map[string]interface{}{"interferers": len(ins)}},
							fmt.Sprintf("victim built while all interfering builds ran concurrently (GOMAXPROCS %d)", procs), got)
						poisoned = true
						break outer
					}
				}
			}
		}
		runtime.GOMAXPROCS(prev)
	}

	// phase 3: the reference itself against a fresh process
	if fresh, err := runChild(root, -1); err != nil {
		st.Fail("harness-child-process-failed", map[string]interface{}{"scenario": "cross-build-interference/fresh-process"}, err.Error(), "child exits 0")
	} else {
		st.Note("interfere/fresh-process", "fresh", true)
		if fresh != ref {
			section, want, g := firstDiff(fresh, ref)
			st.Fail("build-affected-by-other-build", map[string]interface{}{
				"scenario": "cross-build-interference/reference-vs-fresh-process", "differs_in": section,
				"note": "the first victim build of this process differs from the victim built in a fresh process",
			}, g, want)
		}
	}
	js, _ := json.Marshal(map[string]interface{}{"interferers": len(ins), "victim_reference_bytes": len(ref)})
	st.Sample(json.RawMessage(js))
}
