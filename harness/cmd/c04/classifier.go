package main

import (
	. "github.com/evanw/esbuild/verifharness/hlib"
)

func tieClassifier(r *Rng, st *Stats, cf *CoqFile, n int) {}
