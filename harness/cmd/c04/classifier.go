package main

// (B) purity classifier tie: random js_ast trees are built directly, the
// exported HelperContext.{Expr,Stmts,Class}CanBeRemovedIfUnused are called, and
// the same trees are rendered as coq/C04/Purity.v [node] terms.

import (
	"fmt"
	"strings"

	"github.com/evanw/esbuild/internal/ast"
	"github.com/evanw/esbuild/internal/helpers"
	"github.com/evanw/esbuild/internal/js_ast"
	. "github.com/evanw/esbuild/verifharness/hlib"
)

const nUnbound = 3 // identifiers 0,1,2 are unbound; Coq side: fun r => Nat.ltb r 3

type tgen struct {
	r    *Rng
	ops  map[string]int
	size int
}

func (g *tgen) n(k string) { g.ops[k]++ }

func cb(b bool) string { return CBool(b) }

func optC(ok bool, s string) string {
	if ok {
		return "(Some " + s + ")"
	}
	return "None"
}

func clist(xs []string) string { return "[" + strings.Join(xs, "; ") + "]" }

func (g *tgen) ident(ref int) (js_ast.Expr, string) {
	cr, kw := g.r.Chance(12), g.r.Chance(6)
	return js_ast.Expr{Data: &js_ast.EIdentifier{Ref: ast.Ref{InnerIndex: uint32(ref)}, CanBeRemovedIfUnused: cr, MustKeepDueToWithStmt: kw}},
		fmt.Sprintf("(EIdent %d%%nat %s %s)", ref, cb(cr), cb(kw))
}

func strLit(s string) (js_ast.Expr, string) {
	u := helpers.StringToUTF16(s)
	return js_ast.Expr{Data: &js_ast.EString{Value: u}}, "(EStr " + CU16(u) + ")"
}

var typeofStrings = []string{"undefined", "u", "object", "function", "undefine", "U", ""}

// typeof guard shapes: (guard, guarded identifier), possibly deliberately mismatched
func (g *tgen) guard() (js_ast.Expr, string, js_ast.Expr, string) {
	r := g.r
	ref := r.Intn(5)
	tref := ref
	if r.Chance(30) {
		tref = r.Intn(5)
	}
	was := !r.Chance(12)
	tid, tidc := js_ast.Expr{Data: &js_ast.EIdentifier{Ref: ast.Ref{InnerIndex: uint32(tref)}}}, fmt.Sprintf("(EIdent %d%%nat false false)", tref)
	var tv js_ast.Expr = tid
	tvc := tidc
	if r.Chance(8) {
		tv, tvc = js_ast.Expr{Data: &js_ast.EDot{Target: tid, Name: "x"}}, "(EDot "+tidc+" 120 false false)"
	}
	ty := js_ast.Expr{Data: &js_ast.EUnary{Op: js_ast.UnOpTypeof, Value: tv, WasOriginallyTypeofIdentifier: was}}
	tyc := fmt.Sprintf("(EUnary UTypeof %s %s)", tvc, cb(was))
	st, stc := strLit(r.Pick(typeofStrings))
	ops := []js_ast.OpCode{js_ast.BinOpStrictEq, js_ast.BinOpStrictNe, js_ast.BinOpLooseEq, js_ast.BinOpLooseNe, js_ast.BinOpLt, js_ast.BinOpGt, js_ast.BinOpLe, js_ast.BinOpGe, js_ast.BinOpAdd}
	opc := []string{"BStrictEq", "BStrictNe", "BLooseEq", "BLooseNe", "BLt", "BGt", "BLe", "BGe", "BAdd"}
	k := r.Intn(len(ops))
	l, lc, rr, rc := ty, tyc, st, stc
	if r.Chance(35) {
		l, lc, rr, rc = st, stc, ty, tyc
	}
	if r.Chance(6) {
		rr, rc = l, lc
	}
	guard := js_ast.Expr{Data: &js_ast.EBinary{Op: ops[k], Left: l, Right: rr}}
	gc := fmt.Sprintf("(EBinary %s %s %s)", opc[k], lc, rc)
	id, idc := g.ident(ref)
	if r.Chance(85) {
		id, idc = js_ast.Expr{Data: &js_ast.EIdentifier{Ref: ast.Ref{InnerIndex: uint32(ref)}}}, fmt.Sprintf("(EIdent %d%%nat false false)", ref)
	}
	g.n("typeof-guard")
	return guard, gc, id, idc
}

// an expression whose primitive type is usually known
func (g *tgen) primish(depth int) (js_ast.Expr, string) {
	r := g.r
	mk := func(d js_ast.E) js_ast.Expr { return js_ast.Expr{Data: d} }
	switch r.Intn(12) {
	case 0:
		return mk(&js_ast.ENumber{Value: 1}), "(ENum 1)"
	case 1:
		return strLit("a")
	case 2:
		return mk(&js_ast.EBigInt{Value: "5"}), "(EBigInt 5)"
	case 3:
		return mk(&js_ast.EBoolean{Value: true}), "(EBool true)"
	case 4:
		return mk(js_ast.ENullShared), "ENull"
	case 5:
		return mk(js_ast.EUndefinedShared), "EUndefined"
	case 6:
		return mk(&js_ast.ETemplate{}), "(ETemplate None false [])"
	case 7:
		return mk(&js_ast.EUnary{Op: js_ast.UnOpNeg, Value: mk(&js_ast.EBigInt{Value: "5"})}), "(EUnary UNeg (EBigInt 5) false)"
	case 8:
		return mk(&js_ast.EUnary{Op: js_ast.UnOpVoid, Value: mk(&js_ast.ENumber{Value: 0})}), "(EUnary UVoid (ENum 0) false)"
	case 9:
		a, ac := g.primish(depth - 1)
		b, bc := g.primish(depth - 1)
		return mk(&js_ast.EIf{Test: mk(&js_ast.EBoolean{Value: true}), Yes: a, No: b}), "(EIf (EBool true) " + ac + " " + bc + ")"
	case 10:
		return mk(&js_ast.EObject{}), "(EObject [])"
	default:
		return g.expr(depth)
	}
}

func (g *tgen) exprs(depth, max int) ([]js_ast.Expr, string) {
	k := g.r.Intn(max + 1)
	var es []js_ast.Expr
	var cs []string
	for i := 0; i < k; i++ {
		e, c := g.expr(depth)
		es = append(es, e)
		cs = append(cs, c)
	}
	return es, clist(cs)
}

func (g *tgen) property(depth int, inClass bool) (js_ast.Property, string) {
	r := g.r
	kinds := []js_ast.PropertyKind{js_ast.PropertyField, js_ast.PropertyField, js_ast.PropertyMethod, js_ast.PropertyGetter, js_ast.PropertySetter, js_ast.PropertyAutoAccessor, js_ast.PropertySpread, js_ast.PropertyDeclareOrAbstract}
	kc := []string{"KField", "KField", "KMethod", "KMethod", "KMethod", "KOtherKind", "KSpread", "KOtherKind"}
	ki := r.Intn(5)
	if r.Chance(12) {
		ki = 5 + r.Intn(3)
	}
	if inClass && r.Chance(15) {
		stmts, sc := g.stmts(depth-1, 2)
		g.n("static-block")
		return js_ast.Property{Kind: js_ast.PropertyClassStaticBlock, ClassStaticBlock: &js_ast.ClassStaticBlock{Block: js_ast.SBlock{Stmts: stmts}}},
			fmt.Sprintf("(PProp KStaticBlock false false false false ENull None None %s)", sc)
	}
	p := js_ast.Property{Kind: kinds[ki]}
	computed, static, dec, argdec := r.Chance(30), inClass && r.Chance(50), inClass && r.Chance(6), false
	var keyc string
	if computed {
		p.Flags |= js_ast.PropertyIsComputed
		p.Key, keyc = g.expr(depth - 1)
	} else {
		p.Key, keyc = strLit("k")
	}
	if static {
		p.Flags |= js_ast.PropertyIsStatic
	}
	if dec {
		p.Decorators = []js_ast.Decorator{{Value: js_ast.Expr{Data: js_ast.ENullShared}}}
	}
	hasV, hasI := r.Chance(70), inClass && r.Chance(25)
	vc, ic := "", ""
	if hasV {
		if kinds[ki] != js_ast.PropertyField || r.Chance(15) {
			fn := js_ast.Fn{}
			if r.Chance(15) {
				argdec = true
				fn.Args = []js_ast.Arg{{Binding: js_ast.Binding{Data: &js_ast.BIdentifier{}}, Decorators: []js_ast.Decorator{{Value: js_ast.Expr{Data: js_ast.ENullShared}}}}}
			}
			p.ValueOrNil, vc = js_ast.Expr{Data: &js_ast.EFunction{Fn: fn}}, "EFunction"
		} else {
			p.ValueOrNil, vc = g.expr(depth - 1)
		}
	}
	if hasI {
		p.InitializerOrNil, ic = g.expr(depth - 1)
	}
	g.n("property")
	return p, fmt.Sprintf("(PProp %s %s %s %s %s %s %s %s [])", kc[ki], cb(computed), cb(static), cb(dec), cb(argdec), keyc, optC(hasV, vc), optC(hasI, ic))
}

func (g *tgen) class(depth int) (js_ast.Class, string) {
	r := g.r
	c := js_ast.Class{UseDefineForClassFields: !r.Chance(20)}
	dec := r.Chance(6)
	if dec {
		c.Decorators = []js_ast.Decorator{{Value: js_ast.Expr{Data: js_ast.ENullShared}}}
	}
	hasExt := r.Chance(35)
	ec := ""
	if hasExt {
		c.ExtendsOrNil, ec = g.expr(depth - 1)
	}
	var pcs []string
	for k := r.Intn(4); k > 0; k-- {
		p, pc := g.property(depth, true)
		c.Properties = append(c.Properties, p)
		pcs = append(pcs, pc)
	}
	g.n("class")
	return c, fmt.Sprintf("(CClass %s %s %s %s)", cb(dec), optC(hasExt, ec), clist(pcs), cb(c.UseDefineForClassFields))
}

func (g *tgen) expr(depth int) (js_ast.Expr, string) {
	r := g.r
	g.size++
	mk := func(d js_ast.E) js_ast.Expr { return js_ast.Expr{Data: d} }
	if depth <= 0 || r.Chance(30) {
		switch r.Intn(16) {
		case 0:
			return mk(js_ast.ENullShared), "ENull"
		case 1:
			return mk(js_ast.EUndefinedShared), "EUndefined"
		case 2:
			b := r.Bool()
			return mk(&js_ast.EBoolean{Value: b}), "(EBool " + cb(b) + ")"
		case 3:
			v := r.Intn(5)
			return mk(&js_ast.ENumber{Value: float64(v)}), fmt.Sprintf("(ENum %d)", v)
		case 4:
			return strLit(r.Pick([]string{"", "a", "undefined", "u"}))
		case 5:
			return mk(&js_ast.EBigInt{Value: "5"}), "(EBigInt 5)"
		case 6:
			return mk(js_ast.EMissingShared), "EMissing"
		case 7:
			return mk(js_ast.EThisShared), "EThis"
		case 8:
			return mk(&js_ast.ERegExp{Value: "/x/"}), "ERegExp"
		case 9:
			return mk(&js_ast.EFunction{}), "EFunction"
		case 10:
			return mk(&js_ast.EArrow{}), "EArrow"
		case 11:
			return mk(&js_ast.EImportMeta{}), "EImportMeta"
		case 12:
			ref := r.Intn(6)
			return mk(&js_ast.EImportIdentifier{Ref: ast.Ref{InnerIndex: uint32(ref)}}), fmt.Sprintf("(EImportIdent %d%%nat)", ref)
		case 13:
			return mk(&js_ast.EAwait{Value: mk(js_ast.ENullShared)}), "EOther"
		default:
			return g.ident(r.Intn(6))
		}
	}
	d := depth - 1
	switch k := r.Intn(100); {
	case k < 8:
		t, tc := g.expr(d)
		cr, sym := r.Chance(30), r.Chance(15)
		g.n("dot")
		return mk(&js_ast.EDot{Target: t, Name: "x", CanBeRemovedIfUnused: cr, IsSymbolInstance: sym}), fmt.Sprintf("(EDot %s 120 %s %s)", tc, cb(cr), cb(sym))
	case k < 12:
		t, tc := g.expr(d)
		i, ic := g.expr(d)
		sym := r.Chance(25)
		g.n("index")
		return mk(&js_ast.EIndex{Target: t, Index: i, IsSymbolInstance: sym}), fmt.Sprintf("(EIndex %s %s %s)", tc, ic, cb(sym))
	case k < 22:
		var c, y, n js_ast.Expr
		var cc, yc, nc string
		if r.Chance(60) {
			var id js_ast.Expr
			var idc string
			c, cc, id, idc = g.guard()
			o, oc := g.expr(d)
			if r.Bool() {
				y, yc, n, nc = id, idc, o, oc
			} else {
				y, yc, n, nc = o, oc, id, idc
			}
		} else {
			c, cc = g.expr(d)
			y, yc = g.expr(d)
			n, nc = g.expr(d)
		}
		g.n("if")
		return mk(&js_ast.EIf{Test: c, Yes: y, No: n}), fmt.Sprintf("(EIf %s %s %s)", cc, yc, nc)
	case k < 30:
		var es []js_ast.Expr
		var cs []string
		for q := r.Intn(4); q > 0; q-- {
			e, c := g.expr(d)
			if r.Chance(25) {
				e, c = mk(&js_ast.ESpread{Value: e}), "(ESpread "+c+")"
				g.n("spread")
			}
			es = append(es, e)
			cs = append(cs, c)
		}
		g.n("array")
		return mk(&js_ast.EArray{Items: es}), "(EArray " + clist(cs) + ")"
	case k < 38:
		var ps []js_ast.Property
		var cs []string
		for q := r.Intn(4); q > 0; q-- {
			p, c := g.property(d, false)
			ps = append(ps, p)
			cs = append(cs, c)
		}
		g.n("object")
		return mk(&js_ast.EObject{Properties: ps}), "(EObject " + clist(cs) + ")"
	case k < 44:
		t, tc := g.expr(d)
		as, ac := g.exprs(d, 3)
		pure := r.Chance(50)
		g.n("call")
		return mk(&js_ast.ECall{Target: t, Args: as, CanBeUnwrappedIfUnused: pure}), fmt.Sprintf("(ECall %s %s %s)", tc, ac, cb(pure))
	case k < 48:
		t, tc := g.expr(d)
		as, ac := g.exprs(d, 3)
		pure := r.Chance(50)
		g.n("new")
		return mk(&js_ast.ENew{Target: t, Args: as, CanBeUnwrappedIfUnused: pure}), fmt.Sprintf("(ENew %s %s %s)", tc, ac, cb(pure))
	case k < 60:
		ops := []js_ast.OpCode{js_ast.UnOpPos, js_ast.UnOpNeg, js_ast.UnOpCpl, js_ast.UnOpNot, js_ast.UnOpVoid, js_ast.UnOpTypeof, js_ast.UnOpDelete, js_ast.UnOpPreInc}
		oc := []string{"UPos", "UNeg", "UCpl", "UNot", "UVoid", "UTypeof", "UDelete", "UIncDec"}
		i := r.Intn(len(ops))
		v, vc := g.expr(d)
		was := ops[i] == js_ast.UnOpTypeof && r.Chance(60)
		g.n("unary:" + oc[i])
		return mk(&js_ast.EUnary{Op: ops[i], Value: v, WasOriginallyTypeofIdentifier: was}), fmt.Sprintf("(EUnary %s %s %s)", oc[i], vc, cb(was))
	case k < 82:
		ops := []js_ast.OpCode{js_ast.BinOpStrictEq, js_ast.BinOpStrictNe, js_ast.BinOpLooseEq, js_ast.BinOpLooseNe, js_ast.BinOpLt, js_ast.BinOpGt, js_ast.BinOpLe, js_ast.BinOpGe,
			js_ast.BinOpComma, js_ast.BinOpNullishCoalescing, js_ast.BinOpLogicalOr, js_ast.BinOpLogicalAnd, js_ast.BinOpAdd, js_ast.BinOpSub, js_ast.BinOpMul, js_ast.BinOpShl, js_ast.BinOpIn, js_ast.BinOpInstanceof,
			js_ast.BinOpAssign, js_ast.BinOpAddAssign, js_ast.BinOpSubAssign, js_ast.BinOpLogicalOrAssign, js_ast.BinOpNullishCoalescingAssign, js_ast.BinOpPow, js_ast.BinOpBitwiseAnd}
		oc := []string{"BStrictEq", "BStrictNe", "BLooseEq", "BLooseNe", "BLt", "BGt", "BLe", "BGe",
			"BComma", "BNullish", "BOr", "BAnd", "BAdd", "BArith", "BArith", "BArith", "BIn", "BInstanceof",
			"BAssign", "BAddAssign", "BArithAssign", "BLogicalAssign", "BLogicalAssign", "BArith", "BArith"}
		i := r.Intn(len(ops))
		var l, rr js_ast.Expr
		var lc, rc string
		if (oc[i] == "BOr" || oc[i] == "BAnd") && r.Chance(60) {
			l, lc, rr, rc = g.guard()
		} else if i < 8 && r.Chance(55) {
			// comparison of (mostly) known primitives: exercises KnownPrimitiveType
			l, lc = g.primish(d)
			rr, rc = g.primish(d)
		} else {
			l, lc = g.expr(d)
			rr, rc = g.expr(d)
		}
		g.n("binary:" + oc[i])
		return mk(&js_ast.EBinary{Op: ops[i], Left: l, Right: rr}), fmt.Sprintf("(EBinary %s %s %s)", oc[i], lc, rc)
	case k < 88:
		hasTag, pure := r.Chance(30), r.Chance(30)
		var tag js_ast.Expr
		tagc := ""
		if hasTag {
			tag, tagc = g.expr(d)
		}
		var parts []js_ast.TemplatePart
		var cs []string
		for q := r.Intn(3); q > 0; q-- {
			e, c := g.expr(d)
			parts = append(parts, js_ast.TemplatePart{Value: e})
			cs = append(cs, c)
		}
		g.n("template")
		return mk(&js_ast.ETemplate{TagOrNil: tag, Parts: parts, CanBeUnwrappedIfUnused: pure}), fmt.Sprintf("(ETemplate %s %s %s)", optC(hasTag, tagc), cb(pure), clist(cs))
	case k < 93:
		c, cc := g.class(d)
		return mk(&js_ast.EClass{Class: c}), "(EClass " + cc + ")"
	case k < 96:
		v, vc := g.expr(d)
		flag := r.Bool()
		var fl js_ast.AnnotationFlags
		if flag {
			fl = js_ast.CanBeRemovedIfUnusedFlag
		}
		g.n("annotation")
		return mk(&js_ast.EAnnotation{Value: v, Flags: fl}), fmt.Sprintf("(EAnnotation %s %s)", vc, cb(flag))
	default:
		v, vc := g.expr(d)
		g.n("inlined-enum")
		return mk(&js_ast.EInlinedEnum{Value: v}), "(EInlinedEnum " + vc + ")"
	}
}

// Destructuring declarations: every binding element pairs a default value
// (absent / pure / impure call / throwing IIFE / unknown global) with an array
// literal element of every shape at its index (absent, undefined, void 0, hole,
// null, number, identifier, ...[] , ...x). The real rule accepts an array
// pattern only against an array literal, only identifier/hole elements, and
// only when EVERY default value is removable, whatever the literal provides.
func (g *tgen) destructStmt() (js_ast.Stmt, string) {
	r := g.r
	mk := func(d js_ast.E) js_ast.Expr { return js_ast.Expr{Data: d} }
	impure := func() (js_ast.Expr, string) {
		switch r.Intn(4) {
		case 0: // probe call
			return mk(&js_ast.ECall{Target: mk(&js_ast.EIdentifier{Ref: ast.Ref{InnerIndex: 1}})}), "(ECall (EIdent 1%nat false false) [] false)"
		case 1: // throwing IIFE
			return mk(&js_ast.ECall{Target: mk(&js_ast.EArrow{})}), "(ECall EArrow [] false)"
		case 2: // unknown global
			return mk(&js_ast.EIdentifier{Ref: ast.Ref{InnerIndex: 2}}), "(EIdent 2%nat false false)"
		default: // coercion
			return mk(&js_ast.EUnary{Op: js_ast.UnOpPos, Value: mk(&js_ast.EObject{})}), "(EUnary UPos (EObject []) false)"
		}
	}
	pure := func() (js_ast.Expr, string) {
		switch r.Intn(4) {
		case 0:
			return mk(&js_ast.ENumber{Value: 1}), "(ENum 1)"
		case 1:
			return mk(&js_ast.EIdentifier{Ref: ast.Ref{InnerIndex: 4}}), "(EIdent 4%nat false false)"
		case 2:
			return mk(&js_ast.EArrow{}), "EArrow"
		default:
			return mk(&js_ast.EArray{}), "(EArray [])"
		}
	}
	shape := func() (js_ast.Expr, string, string) {
		switch r.Intn(10) {
		case 0:
			return mk(js_ast.EUndefinedShared), "EUndefined", "undefined"
		case 1:
			return mk(&js_ast.EUnary{Op: js_ast.UnOpVoid, Value: mk(&js_ast.ENumber{Value: 0})}), "(EUnary UVoid (ENum 0) false)", "void0"
		case 2:
			return mk(js_ast.EMissingShared), "EMissing", "hole"
		case 3:
			return mk(js_ast.ENullShared), "ENull", "null"
		case 4:
			return mk(&js_ast.ENumber{Value: 7}), "(ENum 7)", "number"
		case 5:
			return mk(&js_ast.EIdentifier{Ref: ast.Ref{InnerIndex: 5}}), "(EIdent 5%nat false false)", "ident"
		case 6:
			return mk(&js_ast.ESpread{Value: mk(&js_ast.EArray{})}), "(ESpread (EArray []))", "spread-empty"
		case 7:
			return mk(&js_ast.ESpread{Value: mk(&js_ast.EIdentifier{Ref: ast.Ref{InnerIndex: 5}})}), "(ESpread (EIdent 5%nat false false))", "spread-ident"
		case 8:
			return mk(&js_ast.ECall{Target: mk(&js_ast.EIdentifier{Ref: ast.Ref{InnerIndex: 1}})}), "(ECall (EIdent 1%nat false false) [] false)", "call"
		default:
			return mk(&js_ast.EString{}), "(EStr [])", "string"
		}
	}
	nb := r.Range(1, 4)
	var items []js_ast.ArrayBinding
	var ics []string
	for i := 0; i < nb; i++ {
		var ib js_ast.Binding
		ibc := "BIdent"
		switch r.Intn(12) {
		case 0:
			ib, ibc = js_ast.Binding{Data: js_ast.BMissingShared}, "BMissing"
		case 1:
			ib, ibc = js_ast.Binding{Data: &js_ast.BObject{}}, "BOtherBinding"
		default:
			ib = js_ast.Binding{Data: &js_ast.BIdentifier{}}
		}
		var dv js_ast.Expr
		dc, has := "", true
		switch k := r.Intn(10); {
		case k < 5:
			dv, dc = impure()
		case k < 8:
			dv, dc = pure()
		default:
			has = false
		}
		items = append(items, js_ast.ArrayBinding{Binding: ib, DefaultValueOrNil: dv})
		ics = append(ics, fmt.Sprintf("(BItem %s %s)", ibc, optC(has, dc)))
	}
	var b js_ast.Binding = js_ast.Binding{Data: &js_ast.BArray{Items: items}}
	bc := "(BArray " + clist(ics) + ")"
	if r.Chance(8) { // object pattern: never accepted
		b, bc = js_ast.Binding{Data: &js_ast.BObject{}}, "BOtherBinding"
	}
	// initialiser: an array literal with 0..nb+1 elements of every shape (mostly), or something else
	var v js_ast.Expr
	vc, hasV := "", true
	switch k := r.Intn(20); {
	case k < 17:
		var es []js_ast.Expr
		var cs []string
		for q := r.Intn(nb + 2); q > 0; q-- {
			e, ec, kind := shape()
			es = append(es, e)
			cs = append(cs, ec)
			g.n("destructure-shape:" + kind)
		}
		v, vc = mk(&js_ast.EArray{Items: es}), "(EArray "+clist(cs)+")"
	case k < 18:
		v, vc = mk(&js_ast.EIdentifier{Ref: ast.Ref{InnerIndex: 5}}), "(EIdent 5%nat false false)"
	case k < 19:
		v, vc = mk(&js_ast.EObject{}), "(EObject [])"
	default:
		hasV = false
	}
	kinds := []js_ast.LocalKind{js_ast.LocalVar, js_ast.LocalLet, js_ast.LocalConst}
	kc := []string{"LVar", "LLet", "LConst"}
	ki := r.Intn(3)
	g.n("stmt:destructure")
	return js_ast.Stmt{Data: &js_ast.SLocal{Kind: kinds[ki], Decls: []js_ast.Decl{{Binding: b, ValueOrNil: v}}}},
		fmt.Sprintf("(SLocal %s [DDecl %s %s])", kc[ki], bc, optC(hasV, vc))
}

func (g *tgen) stmts(depth, max int) ([]js_ast.Stmt, string) {
	k := g.r.Intn(max + 1)
	var ss []js_ast.Stmt
	var cs []string
	for i := 0; i < k; i++ {
		s, c := g.stmt(depth)
		ss = append(ss, s)
		cs = append(cs, c)
	}
	return ss, clist(cs)
}

func (g *tgen) stmt(depth int) (js_ast.Stmt, string) {
	r := g.r
	mk := func(d js_ast.S) js_ast.Stmt { return js_ast.Stmt{Data: d} }
	d := depth - 1
	if d < 0 {
		d = 0
	}
	switch k := r.Intn(100); {
	case k < 6:
		return mk(&js_ast.SFunction{}), "SFunction"
	case k < 9:
		return mk(js_ast.SEmptyShared), "SEmpty"
	case k < 12:
		return mk(&js_ast.SImport{}), "SImport"
	case k < 15:
		return mk(&js_ast.SExportFrom{}), "SExportFrom"
	case k < 19:
		return mk(&js_ast.SExportClause{}), "SExportClause"
	case k < 23:
		return mk(&js_ast.SDebugger{}), "SOther"
	case k < 31:
		c, cc := g.class(d)
		return mk(&js_ast.SClass{Class: c}), "(SClass " + cc + ")"
	case k < 37:
		has := r.Chance(70)
		var v js_ast.Expr
		vc := ""
		if has {
			v, vc = g.expr(d)
		}
		return mk(&js_ast.SReturn{ValueOrNil: v}), "(SReturn " + optC(has, vc) + ")"
	case k < 55:
		v, vc := g.expr(d)
		from := r.Chance(10)
		g.n("stmt:expr")
		return mk(&js_ast.SExpr{Value: v, IsFromClassOrFnThatCanBeRemovedIfUnused: from}), fmt.Sprintf("(SExpr %s %s)", vc, cb(from))
	case k < 78:
		kinds := []js_ast.LocalKind{js_ast.LocalVar, js_ast.LocalLet, js_ast.LocalConst, js_ast.LocalUsing, js_ast.LocalAwaitUsing}
		kc := []string{"LVar", "LLet", "LConst", "LUsing", "LAwaitUsing"}
		ki := r.Intn(3)
		if r.Chance(20) {
			ki = 3 + r.Intn(2)
		}
		var decls []js_ast.Decl
		var cs []string
		for q := r.Range(1, 2); q > 0; q-- {
			var b js_ast.Binding
			var bc string
			switch r.Intn(6) {
			case 0:
				b, bc = js_ast.Binding{Data: &js_ast.BObject{}}, "BOtherBinding"
			case 1, 2:
				var items []js_ast.ArrayBinding
				var ics []string
				for w := r.Intn(3); w > 0; w-- {
					var ib js_ast.Binding
					var ibc string
					switch r.Intn(5) {
					case 0:
						ib, ibc = js_ast.Binding{Data: js_ast.BMissingShared}, "BMissing"
					case 1:
						ib, ibc = js_ast.Binding{Data: &js_ast.BArray{}}, "(BArray [])"
					default:
						ib, ibc = js_ast.Binding{Data: &js_ast.BIdentifier{}}, "BIdent"
					}
					hasD := r.Chance(40)
					var dv js_ast.Expr
					dc := ""
					if hasD {
						dv, dc = g.expr(d)
					}
					items = append(items, js_ast.ArrayBinding{Binding: ib, DefaultValueOrNil: dv})
					ics = append(ics, fmt.Sprintf("(BItem %s %s)", ibc, optC(hasD, dc)))
				}
				b, bc = js_ast.Binding{Data: &js_ast.BArray{Items: items}}, "(BArray "+clist(ics)+")"
			default:
				b, bc = js_ast.Binding{Data: &js_ast.BIdentifier{}}, "BIdent"
			}
			hasV := r.Chance(80)
			var v js_ast.Expr
			vc := ""
			if hasV {
				if r.Chance(30) {
					es, ec := g.exprs(d, 2)
					v, vc = js_ast.Expr{Data: &js_ast.EArray{Items: es}}, "(EArray "+ec+")"
				} else {
					v, vc = g.expr(d)
				}
			}
			decls = append(decls, js_ast.Decl{Binding: b, ValueOrNil: v})
			cs = append(cs, fmt.Sprintf("(DDecl %s %s)", bc, optC(hasV, vc)))
		}
		g.n("stmt:local")
		return mk(&js_ast.SLocal{Kind: kinds[ki], Decls: decls}), fmt.Sprintf("(SLocal %s %s)", kc[ki], clist(cs))
	case k < 86:
		bs, bc := g.stmts(d, 2)
		hasF := r.Chance(50)
		t := &js_ast.STry{Block: js_ast.SBlock{Stmts: bs}}
		fc := "[]"
		if hasF {
			var fs []js_ast.Stmt
			fs, fc = g.stmts(d, 2)
			t.Finally = &js_ast.Finally{Block: js_ast.SBlock{Stmts: fs}}
		}
		if !hasF || r.Bool() {
			cs, _ := g.stmts(d, 1) // the catch clause is not inspected by the classifier
			t.Catch = &js_ast.Catch{Block: js_ast.SBlock{Stmts: cs}}
		}
		g.n("stmt:try")
		return mk(t), fmt.Sprintf("(STry %s %s %s)", bc, cb(hasF), fc)
	case k < 91:
		v, vc := g.expr(d)
		return mk(&js_ast.SExportDefault{Value: js_ast.Stmt{Data: &js_ast.SExpr{Value: v}}}), "(SExportDefaultExpr " + vc + ")"
	case k < 94:
		return mk(&js_ast.SExportDefault{Value: js_ast.Stmt{Data: &js_ast.SFunction{}}}), "SExportDefaultFn"
	case k < 97:
		c, cc := g.class(d)
		return mk(&js_ast.SExportDefault{Value: js_ast.Stmt{Data: &js_ast.SClass{Class: c}}}), "(SExportDefaultClass " + cc + ")"
	default:
		return mk(&js_ast.SIf{Test: js_ast.Expr{Data: js_ast.ENullShared}, Yes: js_ast.Stmt{Data: js_ast.SEmptyShared}}), "SOther"
	}
}

func tieClassifier(r *Rng, st *Stats, cf *CoqFile, n int) {
	g := &tgen{r: r, ops: map[string]int{}}
	ctx := js_ast.MakeHelperContext(func(ref ast.Ref) bool { return ref.InnerIndex < nUnbound })
	var exprItems, stmtItems, classItems, kptGeneral []string
	for i := 0; i < n; i++ {
		e, c := g.expr(r.Range(1, 4))
		got := ctx.ExprCanBeRemovedIfUnused(e)
		exprItems = append(exprItems, fmt.Sprintf("(%s, %s)", c, cb(got)))
		kptGeneral = append(kptGeneral, fmt.Sprintf("(%s, %d)", c, js_ast.KnownPrimitiveType(e.Data)))
		st.Note("classifier-expr", c, got)
	}
	for i := 0; i < n/3; i++ {
		ss, c := g.stmts(r.Range(1, 3), 3)
		keep, ret := r.Chance(30), r.Chance(30)
		var flags js_ast.StmtsCanBeRemovedIfUnusedFlags
		if keep {
			flags |= js_ast.KeepExportClauses
		}
		if ret {
			flags |= js_ast.ReturnCanBeRemovedIfUnused
		}
		got := ctx.StmtsCanBeRemovedIfUnused(ss, flags)
		stmtItems = append(stmtItems, fmt.Sprintf("(%s, %s, %s, %s)", cb(keep), cb(ret), c, cb(got)))
		st.Note("classifier-stmts", c+fmt.Sprint(keep, ret), got)
	}
	for i := 0; i < n/2; i++ {
		s, c := g.destructStmt()
		ss, cc := []js_ast.Stmt{s}, "["+c+"]"
		if r.Chance(25) { // nested: inside try / class static block positions the same rule applies
			ss = []js_ast.Stmt{{Data: &js_ast.STry{Block: js_ast.SBlock{Stmts: ss}, Catch: &js_ast.Catch{}}}}
			cc = "[STry " + cc + " false []]"
		}
		got := ctx.StmtsCanBeRemovedIfUnused(ss, 0)
		stmtItems = append(stmtItems, fmt.Sprintf("(false, false, %s, %s)", cc, cb(got)))
		st.Note("classifier-destructure", cc, got)
	}
	for i := 0; i < n/4; i++ {
		cl, c := g.class(r.Range(1, 3))
		got := ctx.ClassCanBeRemovedIfUnused(cl)
		classItems = append(classItems, fmt.Sprintf("(%s, %s)", c, cb(got)))
		st.Note("classifier-class", c, got)
	}
	tiePlain(r, st, cf, g, ctx, n)
	classPrograms(r, st, cf, g, ctx, n)
	for k, v := range g.ops {
		st.Histogram["tree:"+k] += v
	}
	cf.AddCases("expr_cases", "node * bool", "check_expr", exprItems)
	cf.AddCases("kpt_general_cases", "node * Z", "check_kpt", kptGeneral)
	cf.AddCases("stmts_cases", "bool * bool * list node * bool", "check_stmts", stmtItems)
	cf.AddCases("class_cases", "node * bool", "check_class", classItems)
}
