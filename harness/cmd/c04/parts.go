package main

// Part-construction tie: structured top-level programs (the generator knows,
// for every statement / declarator, which top-level symbols it declares and
// uses and whether it is removable) are parsed by the real js_parser.Parse in
// bundle mode with tree shaking on / off; the resulting AST.Parts are compared
// in Coq with Build.build_parts.

import (
	"fmt"
	"os"
	"sort"
	"strings"

	"github.com/evanw/esbuild/internal/ast"
	"github.com/evanw/esbuild/internal/config"
	"github.com/evanw/esbuild/internal/js_parser"
	"github.com/evanw/esbuild/internal/logger"
	"github.com/evanw/esbuild/internal/test"
	. "github.com/evanw/esbuild/verifharness/hlib"
)

type pdecl struct {
	declares, uses []int
	can            bool  // while generating: "no call, no inherently impure form"; finalised by program()
	critical       []int // names that must be declared somewhere for the statement to be removable (unbound reads are impure)
	always         bool  // function declarations: removable whatever they mention
}
type pstmt struct {
	kind  int // 0 local, 1 import-like, 2 export =, 3 other
	decls []pdecl
	text  string
}

func tname(i int) string { return fmt.Sprintf("t%d", i) }

func zl(xs []int) string {
	s := make([]string, len(xs))
	for i, x := range xs {
		s[i] = fmt.Sprint(x)
	}
	return "[" + strings.Join(s, ";") + "]"
}

type progGen struct {
	r      *Rng
	next   int   // next fresh top-level name
	all    []int // names declared so far or later (any top-level name may be referenced: hoisting / closures)
	pool   []int
	locals int
}

func (g *progGen) fresh() int { g.next++; return g.next }

// an expression over top-level names; returns text, used names, the used names
// that are read when the expression is evaluated (closure bodies excluded), and
// whether it is free of calls
func (g *progGen) pexpr(depth int) (string, []int, []int, bool) {
	r := g.r
	pick := func() int { return g.pool[r.Intn(len(g.pool))] }
	switch k := r.Intn(10); {
	case k < 2 || depth <= 0:
		return r.Pick([]string{"1", "\"s\"", "null", "[1, 2]", "() => 0", "void 0"}), nil, nil, true
	case k < 5:
		n := pick()
		return tname(n), []int{n}, []int{n}, true
	case k < 6:
		a, ua, ka, ca := g.pexpr(depth - 1)
		b, ub, kb, cb2 := g.pexpr(depth - 1)
		return "[" + a + ", " + b + "]", append(ua, ub...), append(ka, kb...), ca && cb2
	case k < 7:
		a, ua, ka, ca := g.pexpr(depth - 1)
		return "{ k: " + a + " }", ua, ka, ca
	case k < 8: // closure: uses are recorded for the enclosing part, but nothing is read
		n := pick()
		g.locals++
		p := fmt.Sprintf("p%d", g.locals)
		return "function (" + p + ") { return " + p + " + " + tname(n) + "; }", []int{n}, nil, true
	case k < 9: // a parameter that shadows a top-level name: NOT a use of it
		n := pick()
		return "(" + tname(n) + ") => " + tname(n), nil, nil, true
	default:
		n := pick()
		a, ua, ka, _ := g.pexpr(depth - 1)
		return tname(n) + "(" + a + ")", append([]int{n}, ua...), append([]int{n}, ka...), false
	}
}

func (g *progGen) program() []pstmt {
	r := g.r
	// names are chosen up front so that statements can refer to later declarations
	nnames := r.Range(3, 8)
	g.pool = nil
	base := g.next
	for i := 0; i < nnames; i++ {
		g.pool = append(g.pool, g.fresh())
	}
	_ = base
	decl := 0
	nextName := func() (int, bool) {
		if decl < len(g.pool) {
			decl++
			return g.pool[decl-1], true
		}
		return 0, false
	}
	var out []pstmt
	for len(out) < 9 {
		switch k := r.Intn(100); {
		case k < 30: // var/let/const with one to three declarators
			kw := r.Pick([]string{"var", "let", "const"})
			export := ""
			if r.Chance(25) {
				export = "export "
			}
			var ds []pdecl
			var txt []string
			for q := r.Range(1, 3); q > 0; q-- {
				n, ok := nextName()
				if !ok {
					break
				}
				if r.Chance(20) { // array pattern against an array literal
					m, ok2 := nextName()
					e, u, ku, c := g.pexpr(1)
					d, ud, kd, cd := g.pexpr(1)
					if ok2 {
						ds = append(ds, pdecl{declares: []int{n, m}, uses: append(u, ud...), can: c && cd, critical: append(ku, kd...)})
						txt = append(txt, "["+tname(n)+", "+tname(m)+" = "+d+"] = ["+e+"]")
						continue
					}
					ds = append(ds, pdecl{declares: []int{n}, uses: u, can: c, critical: ku})
					txt = append(txt, "["+tname(n)+"] = ["+e+"]")
					continue
				}
				e, u, ku, c := g.pexpr(2)
				ds = append(ds, pdecl{declares: []int{n}, uses: u, can: c, critical: ku})
				txt = append(txt, tname(n)+" = "+e)
			}
			if len(ds) == 0 {
				continue
			}
			out = append(out, pstmt{0, ds, export + kw + " " + strings.Join(txt, ", ") + ";"})
		case k < 45: // function declaration
			n, ok := nextName()
			if !ok {
				continue
			}
			e, u, _, _ := g.pexpr(2)
			export := ""
			if r.Chance(25) {
				export = "export "
			}
			g.locals++
			out = append(out, pstmt{3, []pdecl{{declares: []int{n}, uses: u, can: true, always: true}}, fmt.Sprintf("%sfunction %s(p%d) { return [p%d, %s]; }", export, tname(n), g.locals, g.locals, e)})
		case k < 55: // class declaration
			n, ok := nextName()
			if !ok {
				continue
			}
			e, u, _, _ := g.pexpr(1)
			ext, uses := "", u
			var crit []int
			if r.Chance(40) {
				b := g.pool[r.Intn(len(g.pool))]
				ext = " extends " + tname(b)
				uses = append([]int{b}, u...)
				crit = []int{b}
			}
			out = append(out, pstmt{3, []pdecl{{declares: []int{n}, uses: uses, can: true, critical: crit}}, "class " + tname(n) + ext + " { m() { return " + e + "; } }"})
		case k < 70: // expression statement (one without uses may be dropped entirely by the parser: no part)
			e, u, ku, c := g.pexpr(2)
			if len(u) == 0 {
				continue
			}
			out = append(out, pstmt{3, []pdecl{{uses: u, can: c, critical: ku}}, "(" + e + ");"})
		case k < 78: // if statement: never removable
			e, u, _, _ := g.pexpr(1)
			out = append(out, pstmt{3, []pdecl{{uses: u, can: false}}, "if ([" + e + "]) { }"})
		case k < 90: // import-like statements: moved to the front
			n, ok := nextName()
			switch r.Intn(3) {
			case 0:
				out = append(out, pstmt{1, []pdecl{{can: true}}, "import \"./dep.js\";"})
			case 1:
				out = append(out, pstmt{1, []pdecl{{can: false}}, "export * from \"./dep.js\";"}) // SExportStar is not in the classifier's list: never removable
			default:
				if !ok {
					continue
				}
				out = append(out, pstmt{1, []pdecl{{declares: []int{n}, can: true}}, "import { x as " + tname(n) + " } from \"./dep.js\";"})
			}
		default: // try statement
			e, u, ku, c := g.pexpr(1)
			if len(u) == 0 {
				continue
			}
			out = append(out, pstmt{3, []pdecl{{uses: u, can: c, critical: ku}}, "try { (" + e + "); } catch { }"})
		}
		if r.Chance(15) {
			break
		}
	}
	// reading an identifier that no statement declares is impure (unbound global)
	declared := map[int]bool{}
	for _, s := range out {
		for _, d := range s.decls {
			for _, n := range d.declares {
				declared[n] = true
			}
		}
	}
	for i := range out {
		for j := range out[i].decls {
			d := &out[i].decls[j]
			if d.always {
				continue
			}
			for _, n := range d.critical {
				d.can = d.can && declared[n]
			}
		}
	}
	return out
}

// source index 1: index 0 is the runtime's (with index 0 a missing scope member
// compares equal to the first symbol of the file, an artefact of test sources)
func partsSource(text string) logger.Source {
	s := test.SourceForTest(text)
	s.Index = 1
	return s
}

func tieParts(r *Rng, st *Stats, cf *CoqFile, n int) {
	g := &progGen{r: r}
	var items []string
	for i := 0; i < n; i++ {
		prog := g.program()
		if len(prog) == 0 {
			continue
		}
		ts := !r.Chance(30)
		var src []string
		for _, s := range prog {
			src = append(src, s.text)
		}
		text := strings.Join(src, "\n") + "\n"
		log := logger.NewDeferLog(logger.DeferLogNoVerboseOrDebug, nil)
		opts := config.Options{Mode: config.ModeBundle, TreeShaking: ts, OmitRuntimeForTests: true}
		tree, ok := js_parser.Parse(log, partsSource(text), js_parser.OptionsFromConfig(&opts))
		msgs := log.Done()
		hasErr := false
		for _, m := range msgs {
			hasErr = hasErr || m.Kind == logger.Error
		}
		if !ok || hasErr {
			st.Histogram["parts-program-rejected"]++
			st.Extra["parts-rejected-example"] = text
			continue
		}
		follow := func(ref ast.Ref) ast.Ref {
			for tree.Symbols[ref.InnerIndex].Link != ast.InvalidRef {
				ref = tree.Symbols[ref.InnerIndex].Link
			}
			return ref
		}
		// top-level symbols named tN
		top := map[ast.Ref]int{}
		for _, p := range tree.Parts {
			for _, d := range p.DeclaredSymbols {
				if d.IsTopLevel {
					ref := follow(d.Ref)
					var k int
					if _, err := fmt.Sscanf(tree.Symbols[ref.InnerIndex].OriginalName, "t%d", &k); err == nil {
						top[ref] = k
					}
				}
			}
		}
		var obs []string
		for _, p := range tree.Parts {
			var ds, us []int
			for _, d := range p.DeclaredSymbols {
				if k, ok := top[follow(d.Ref)]; ok && d.IsTopLevel {
					ds = append(ds, k)
				}
			}
			for ref := range p.SymbolUses {
				if k, ok := top[follow(ref)]; ok {
					us = append(us, k)
				}
			}
			sort.Ints(ds)
			sort.Ints(us)
			obs = append(obs, fmt.Sprintf("(%s,%s,%s,%d)", cb(p.CanBeRemovedIfUnused), zl(ds), zl(us), len(p.ImportRecordIndices)))
		}
		var ss []string
		for _, s := range prog {
			var dd []string
			for _, d := range s.decls {
				dd = append(dd, fmt.Sprintf("(%s,%s,%s)", zl(d.declares), zl(d.uses), cb(d.can)))
			}
			ss = append(ss, fmt.Sprintf("(%d,[%s])", s.kind, strings.Join(dd, ";")))
		}
		if dbg := os.Getenv("VERIF_C04_DEBUG"); dbg != "" {
			fmt.Fprintf(os.Stderr, "--- parts case %d ts=%v\n%s", len(items), ts, text)
		}
		items = append(items, fmt.Sprintf("(%s,[%s],[%s])", cb(ts), strings.Join(ss, ";"), strings.Join(obs, ";")))
		st.Note("parts", text+fmt.Sprint(ts), len(tree.Parts) > 2)
		if i < 2 {
			st.Sample(map[string]interface{}{"parts_program": text, "tree_shaking": ts, "parts": len(tree.Parts)})
		}
	}
	cf.AddCases("parts_cases", "bool * list stmt_enc * list obs_enc", "check_parts", items)
}

func os_debug() bool     { return os.Getenv("VERIF_C04_DEBUG") != "" }
func debugOut() *os.File { return os.Stderr }
