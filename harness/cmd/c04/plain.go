package main

// Plain (flag-free, annotation-free) expression trees built three ways at once:
// the js_ast value given to the real functions, the Purity.v term, and
// JavaScript source. Used for
//   - the direct tie of js_ast.KnownPrimitiveType (every case reachable with
//     leaves of unknown static type),
//   - the classifier tie,
//   - the property's own predicate on the real classifier: every tree the real
//     ExprCanBeRemovedIfUnused calls removable is EXECUTED in Node with the
//     identifiers bound to objects whose toString/valueOf/Symbol.toPrimitive
//     are observable; it must log nothing and must not throw.

import (
	"fmt"
	"os"
	"path/filepath"
	"strings"

	"github.com/evanw/esbuild/internal/ast"
	"github.com/evanw/esbuild/internal/js_ast"
	"github.com/evanw/esbuild/pkg/api"
	. "github.com/evanw/esbuild/verifharness/hlib"
)

// bound identifiers 3,4,5 and import bindings 0..5 (see plainPrelude)
const plainPrelude = `
var x3 = { toString() { $p("x3.toString"); return "s" }, valueOf() { $p("x3.valueOf"); return 1 } };
var x4;
var x5 = { [Symbol.toPrimitive]() { $p("x5.toPrimitive"); return 1 }, get p() { $p("x5.p"); return 1 } };
var im0 = x3, im1, im2 = x5, im3 = 1, im4 = "a", im5 = null;
`

type ptree struct {
	e   js_ast.Expr
	coq string
	src string
}

func (g *tgen) pleaf() ptree {
	r := g.r
	mk := func(d js_ast.E) js_ast.Expr { return js_ast.Expr{Data: d} }
	switch r.Intn(20) {
	case 0:
		return ptree{mk(js_ast.ENullShared), "ENull", "null"}
	case 1:
		return ptree{mk(js_ast.EUndefinedShared), "EUndefined", "undefined"}
	case 2:
		b := r.Bool()
		return ptree{mk(&js_ast.EBoolean{Value: b}), "(EBool " + cb(b) + ")", fmt.Sprint(b)}
	case 3:
		v := r.Intn(3)
		return ptree{mk(&js_ast.ENumber{Value: float64(v)}), fmt.Sprintf("(ENum %d)", v), fmt.Sprint(v)}
	case 4:
		s := r.Pick([]string{"", "a", "undefined", "u", "none"})
		e, c := strLit(s)
		return ptree{e, c, fmt.Sprintf("%q", s)}
	case 5:
		return ptree{mk(&js_ast.EBigInt{Value: "5"}), "(EBigInt 5)", "5n"}
	case 6:
		return ptree{mk(js_ast.EThisShared), "EThis", "this"}
	case 7:
		return ptree{mk(&js_ast.ERegExp{Value: "/x/"}), "ERegExp", "/x/"}
	case 8:
		return ptree{mk(&js_ast.EFunction{}), "EFunction", "(function () {})"}
	case 9:
		return ptree{mk(&js_ast.EArrow{}), "EArrow", "(() => {})"}
	case 10, 11:
		ref := r.Intn(6)
		return ptree{mk(&js_ast.EImportIdentifier{Ref: ast.Ref{InnerIndex: uint32(ref)}}), fmt.Sprintf("(EImportIdent %d%%nat)", ref), fmt.Sprintf("im%d", ref)}
	default: // identifiers of unknown static type (3,4,5 bound; 0,1,2 unbound and undefined)
		ref := 3 + r.Intn(3)
		if r.Chance(15) {
			ref = r.Intn(3)
		}
		name := fmt.Sprintf("x%d", ref)
		if ref < nUnbound {
			name = fmt.Sprintf("zzP%d", ref)
		}
		return ptree{mk(&js_ast.EIdentifier{Ref: ast.Ref{InnerIndex: uint32(ref)}}), fmt.Sprintf("(EIdent %d%%nat false false)", ref), name}
	}
}

func (g *tgen) plain(depth int) ptree {
	r := g.r
	mk := func(d js_ast.E) js_ast.Expr { return js_ast.Expr{Data: d} }
	if depth <= 0 || r.Chance(22) {
		return g.pleaf()
	}
	d := depth - 1
	switch k := r.Intn(100); {
	case k < 16: // template literal: holes of every shape
		var parts []js_ast.TemplatePart
		var cs []string
		src := "`id-"
		for q := r.Range(0, 2); q > 0; q-- {
			h := g.plain(d)
			parts = append(parts, js_ast.TemplatePart{Value: h.e})
			cs = append(cs, h.coq)
			src += "${" + h.src + "}-"
		}
		g.n("plain:template")
		return ptree{mk(&js_ast.ETemplate{Parts: parts}), "(ETemplate None false " + clist(cs) + ")", src + "`"}
	case k < 26:
		c, y, n := g.plain(d), g.plain(d), g.plain(d)
		g.n("plain:if")
		return ptree{mk(&js_ast.EIf{Test: c.e, Yes: y.e, No: n.e}), fmt.Sprintf("(EIf %s %s %s)", c.coq, y.coq, n.coq), "((" + c.src + ") ? (" + y.src + ") : (" + n.src + "))"}
	case k < 42:
		ops := []js_ast.OpCode{js_ast.UnOpPos, js_ast.UnOpNeg, js_ast.UnOpCpl, js_ast.UnOpNot, js_ast.UnOpVoid, js_ast.UnOpTypeof, js_ast.UnOpDelete}
		oc := []string{"UPos", "UNeg", "UCpl", "UNot", "UVoid", "UTypeof", "UDelete"}
		txt := []string{"+", "-", "~", "!", "void ", "typeof ", "delete "}
		i := r.Intn(len(ops))
		v := g.plain(d)
		was := false
		if _, ok := v.e.Data.(*js_ast.EIdentifier); ok && ops[i] == js_ast.UnOpTypeof {
			was = true
			g.n("plain:unary:" + oc[i])
			return ptree{mk(&js_ast.EUnary{Op: ops[i], Value: v.e, WasOriginallyTypeofIdentifier: true}), fmt.Sprintf("(EUnary %s %s true)", oc[i], v.coq), "(typeof " + v.src + ")"}
		}
		g.n("plain:unary:" + oc[i])
		return ptree{mk(&js_ast.EUnary{Op: ops[i], Value: v.e, WasOriginallyTypeofIdentifier: was}), fmt.Sprintf("(EUnary %s %s false)", oc[i], v.coq), "(" + txt[i] + "(" + v.src + "))"}
	case k < 78:
		ops := []js_ast.OpCode{js_ast.BinOpStrictEq, js_ast.BinOpStrictNe, js_ast.BinOpLooseEq, js_ast.BinOpLooseNe, js_ast.BinOpLt, js_ast.BinOpGt, js_ast.BinOpLe, js_ast.BinOpGe,
			js_ast.BinOpComma, js_ast.BinOpNullishCoalescing, js_ast.BinOpNullishCoalescing, js_ast.BinOpLogicalOr, js_ast.BinOpLogicalAnd, js_ast.BinOpAdd, js_ast.BinOpAdd, js_ast.BinOpSub, js_ast.BinOpMul,
			js_ast.BinOpIn, js_ast.BinOpInstanceof, js_ast.BinOpPow, js_ast.BinOpShl, js_ast.BinOpBitwiseOr}
		oc := []string{"BStrictEq", "BStrictNe", "BLooseEq", "BLooseNe", "BLt", "BGt", "BLe", "BGe",
			"BComma", "BNullish", "BNullish", "BOr", "BAnd", "BAdd", "BAdd", "BArith", "BArith", "BIn", "BInstanceof", "BArith", "BArith", "BArith"}
		txt := []string{"===", "!==", "==", "!=", "<", ">", "<=", ">=", ",", "??", "??", "||", "&&", "+", "+", "-", "*", "in", "instanceof", "**", "<<", "|"}
		i := r.Intn(len(ops))
		l, rr := g.plain(d), g.plain(d)
		g.n("plain:binary:" + oc[i])
		return ptree{mk(&js_ast.EBinary{Op: ops[i], Left: l.e, Right: rr.e}), fmt.Sprintf("(EBinary %s %s %s)", oc[i], l.coq, rr.coq), "((" + l.src + ") " + txt[i] + " (" + rr.src + "))"}
	case k < 82: // assignment forms (targets are identifiers)
		ops := []js_ast.OpCode{js_ast.BinOpAssign, js_ast.BinOpAddAssign, js_ast.BinOpSubAssign, js_ast.BinOpNullishCoalescingAssign}
		oc := []string{"BAssign", "BAddAssign", "BArithAssign", "BLogicalAssign"}
		txt := []string{"=", "+=", "-=", "??="}
		i := r.Intn(len(ops))
		rr := g.plain(d)
		l := ptree{mk(&js_ast.EIdentifier{Ref: ast.Ref{InnerIndex: 4}}), "(EIdent 4%nat false false)", "x4"}
		g.n("plain:assign")
		return ptree{mk(&js_ast.EBinary{Op: ops[i], Left: l.e, Right: rr.e}), fmt.Sprintf("(EBinary %s %s %s)", oc[i], l.coq, rr.coq), "(x4 " + txt[i] + " (" + rr.src + "))"}
	case k < 88:
		var es []js_ast.Expr
		var cs, ss []string
		for q := r.Intn(3); q > 0; q-- {
			it := g.plain(d)
			if r.Chance(25) {
				it = ptree{mk(&js_ast.ESpread{Value: it.e}), "(ESpread " + it.coq + ")", "...(" + it.src + ")"}
			}
			es = append(es, it.e)
			cs = append(cs, it.coq)
			ss = append(ss, it.src)
		}
		g.n("plain:array")
		return ptree{mk(&js_ast.EArray{Items: es}), "(EArray " + clist(cs) + ")", "[" + strings.Join(ss, ", ") + "]"}
	case k < 94:
		var ps []js_ast.Property
		var cs, ss []string
		for q := r.Intn(3); q > 0; q-- {
			v := g.plain(d)
			switch r.Intn(4) {
			case 0:
				key := g.plain(d)
				ps = append(ps, js_ast.Property{Kind: js_ast.PropertyField, Flags: js_ast.PropertyIsComputed, Key: key.e, ValueOrNil: v.e})
				cs = append(cs, fmt.Sprintf("(PProp KField true false false false %s (Some %s) None [])", key.coq, v.coq))
				ss = append(ss, "[("+key.src+")]: ("+v.src+")")
			case 1:
				ps = append(ps, js_ast.Property{Kind: js_ast.PropertySpread, ValueOrNil: v.e})
				cs = append(cs, fmt.Sprintf("(PProp KSpread false false false false ENull (Some %s) None [])", v.coq))
				ss = append(ss, "...("+v.src+")")
			default:
				ke, kc := strLit("k")
				ps = append(ps, js_ast.Property{Kind: js_ast.PropertyField, Key: ke, ValueOrNil: v.e})
				cs = append(cs, fmt.Sprintf("(PProp KField false false false false %s (Some %s) None [])", kc, v.coq))
				ss = append(ss, "k: ("+v.src+")")
			}
		}
		g.n("plain:object")
		return ptree{mk(&js_ast.EObject{Properties: ps}), "(EObject " + clist(cs) + ")", "({" + strings.Join(ss, ", ") + "})"}
	case k >= 94 && k < 96: // class expression: heritage, computed / literal keys, static and instance fields, auto-accessors, static blocks
		return g.pclass(d)
	case k < 97:
		t := g.plain(d)
		if r.Bool() {
			g.n("plain:dot")
			return ptree{mk(&js_ast.EDot{Target: t.e, Name: "p"}), "(EDot " + t.coq + " 112 false false)", "(" + t.src + ").p"}
		}
		i := g.plain(d)
		g.n("plain:index")
		return ptree{mk(&js_ast.EIndex{Target: t.e, Index: i.e}), "(EIndex " + t.coq + " " + i.coq + " false)", "(" + t.src + ")[(" + i.src + ")]"}
	default:
		t := g.plain(d)
		a := g.plain(d)
		if r.Bool() {
			g.n("plain:call")
			return ptree{mk(&js_ast.ECall{Target: t.e, Args: []js_ast.Expr{a.e}}), "(ECall " + t.coq + " [" + a.coq + "] false)", "(" + t.src + ")((" + a.src + "))"}
		}
		g.n("plain:new")
		return ptree{mk(&js_ast.ENew{Target: t.e, Args: []js_ast.Expr{a.e}}), "(ENew " + t.coq + " [" + a.coq + "] false)", "new (" + t.src + ")((" + a.src + "))"}
	}
}

// a class expression: heritage, computed / literal keys, static and instance
// fields, auto-accessors (static / instance, private, computed key), static blocks
func (g *tgen) pclass(d int) ptree {
	r := g.r
	mk := func(dd js_ast.E) js_ast.Expr { return js_ast.Expr{Data: dd} }
	c := js_ast.Class{UseDefineForClassFields: true}
	extC, extS := "None", ""
	switch r.Intn(4) { // (esbuild's concession: the heritage must be a constructor or null, so only those)
	case 0:
		c.ExtendsOrNil, extC, extS = mk(&js_ast.EFunction{}), "(Some EFunction)", " extends (function () {})"
	case 1:
		c.ExtendsOrNil, extC, extS = mk(js_ast.ENullShared), "(Some ENull)", " extends null"
	}
	var cs, ss []string
	for q := r.Range(1, 3); q > 0; q-- {
		switch r.Intn(3) {
		case 0: // static block
			var stc, sts []string
			var stmts []js_ast.Stmt
			for w := r.Range(1, 2); w > 0; w-- {
				if r.Bool() {
					x := g.plain(d)
					stmts = append(stmts, js_ast.Stmt{Data: &js_ast.SExpr{Value: x.e}})
					stc = append(stc, "(SExpr "+x.coq+" false)")
					sts = append(sts, "("+x.src+");")
				} else {
					dv, iv := g.plain(d), g.plain(d)
					g.size++
					nm := fmt.Sprintf("q%d", g.size)
					stmts = append(stmts, js_ast.Stmt{Data: &js_ast.SLocal{Decls: []js_ast.Decl{{
						Binding:    js_ast.Binding{Data: &js_ast.BArray{Items: []js_ast.ArrayBinding{{Binding: js_ast.Binding{Data: &js_ast.BIdentifier{}}, DefaultValueOrNil: dv.e}}}},
						ValueOrNil: mk(&js_ast.EArray{Items: []js_ast.Expr{iv.e}})}}}})
					stc = append(stc, "(SLocal LVar [DDecl (BArray [BItem BIdent (Some "+dv.coq+")]) (Some (EArray ["+iv.coq+"]))])")
					sts = append(sts, "var ["+nm+" = ("+dv.src+")] = [("+iv.src+")];")
				}
			}
			c.Properties = append(c.Properties, js_ast.Property{Kind: js_ast.PropertyClassStaticBlock, ClassStaticBlock: &js_ast.ClassStaticBlock{Block: js_ast.SBlock{Stmts: stmts}}})
			cs = append(cs, "(PProp KStaticBlock false false false false ENull None None "+clist(stc)+")")
			ss = append(ss, "static { "+strings.Join(sts, " ")+" }")
		default: // field
			static, computed := r.Bool(), r.Chance(40)
			v := g.plain(d)
			p := js_ast.Property{Kind: js_ast.PropertyField, InitializerOrNil: v.e}
			keyC, keyS := "", ""
			if computed {
				key := g.plain(d)
				p.Flags |= js_ast.PropertyIsComputed
				p.Key, keyC, keyS = key.e, key.coq, "[("+key.src+")]"
			} else {
				g.size++
				ke, kc := strLit(fmt.Sprintf("f%d", g.size))
				p.Key, keyC, keyS = ke, kc, fmt.Sprintf("f%d", g.size)
			}
			st := ""
			if static {
				p.Flags |= js_ast.PropertyIsStatic
				st = "static "
			}
			c.Properties = append(c.Properties, p)
			cs = append(cs, fmt.Sprintf("(PProp KField %s %s false false %s None (Some %s) [])", cb(computed), cb(static), keyC, v.coq))
			ss = append(ss, st+keyS+" = ("+v.src+");")
		}
	}
	g.n("plain:class")
	return ptree{mk(&js_ast.EClass{Class: c}), "(EClass (CClass false " + extC + " " + clist(cs) + " true))", "(class" + extS + " { " + strings.Join(ss, " ") + " })"}
}

// forms that must reach every case of KnownPrimitiveType with an operand of
// unknown static type in every position
func (g *tgen) kptFocused() ptree {
	r := g.r
	mk := func(d js_ast.E) js_ast.Expr { return js_ast.Expr{Data: d} }
	u := func() ptree { // unknown-typed, removable
		switch r.Intn(4) {
		case 0:
			return ptree{mk(&js_ast.EIdentifier{Ref: ast.Ref{InnerIndex: 3}}), "(EIdent 3%nat false false)", "x3"}
		case 1:
			return ptree{mk(&js_ast.EIdentifier{Ref: ast.Ref{InnerIndex: 5}}), "(EIdent 5%nat false false)", "x5"}
		case 2:
			return ptree{mk(&js_ast.EImportIdentifier{Ref: ast.Ref{InnerIndex: 0}}), "(EImportIdent 0%nat)", "im0"}
		default:
			return ptree{mk(&js_ast.EIdentifier{Ref: ast.Ref{InnerIndex: 4}}), "(EIdent 4%nat false false)", "x4"}
		}
	}
	p := func() ptree { return g.pleaf() }
	bin := func(op js_ast.OpCode, oc, txt string, l, rr ptree) ptree {
		return ptree{mk(&js_ast.EBinary{Op: op, Left: l.e, Right: rr.e}), fmt.Sprintf("(EBinary %s %s %s)", oc, l.coq, rr.coq), "((" + l.src + ") " + txt + " (" + rr.src + "))"}
	}
	var h ptree
	switch r.Intn(12) {
	case 0:
		h = bin(js_ast.BinOpNullishCoalescing, "BNullish", "??", u(), p())
	case 1:
		h = bin(js_ast.BinOpNullishCoalescing, "BNullish", "??", p(), u())
	case 2:
		h = bin(js_ast.BinOpLogicalOr, "BOr", "||", u(), p())
	case 3:
		h = bin(js_ast.BinOpLogicalAnd, "BAnd", "&&", u(), p())
	case 4:
		c, y, n := p(), u(), p()
		if r.Bool() {
			y, n = n, y
		}
		h = ptree{mk(&js_ast.EIf{Test: c.e, Yes: y.e, No: n.e}), fmt.Sprintf("(EIf %s %s %s)", c.coq, y.coq, n.coq), "((" + c.src + ") ? (" + y.src + ") : (" + n.src + "))"}
	case 5:
		h = bin(js_ast.BinOpComma, "BComma", ",", p(), u())
	case 6:
		h = bin(js_ast.BinOpNullishCoalescing, "BNullish", "??", bin(js_ast.BinOpLogicalOr, "BOr", "||", u(), p()), p())
	case 7:
		h = bin(js_ast.BinOpNullishCoalescing, "BNullish", "??", bin(js_ast.BinOpNullishCoalescing, "BNullish", "??", u(), u()), p())
	case 8:
		h = bin(js_ast.BinOpLogicalOr, "BOr", "||", bin(js_ast.BinOpNullishCoalescing, "BNullish", "??", p(), p()), u())
	case 9:
		x := u()
		h = ptree{mk(&js_ast.EInlinedEnum{Value: x.e}), "(EInlinedEnum " + x.coq + ")", x.src}
		h = bin(js_ast.BinOpNullishCoalescing, "BNullish", "??", h, p())
	case 10:
		x := u()
		v := ptree{mk(&js_ast.EUnary{Op: js_ast.UnOpVoid, Value: x.e}), "(EUnary UVoid " + x.coq + " false)", "(void (" + x.src + "))"}
		h = bin(js_ast.BinOpNullishCoalescing, "BNullish", "??", v, u())
	default:
		h = g.plain(2)
	}
	// the context in which the type matters: template hole, comparison, loose equality
	switch r.Intn(5) {
	case 0, 1:
		return ptree{mk(&js_ast.ETemplate{Parts: []js_ast.TemplatePart{{Value: h.e}}}), "(ETemplate None false [" + h.coq + "])", "`id-${" + h.src + "}`"}
	case 2:
		q := p()
		return bin(js_ast.BinOpLt, "BLt", "<", h, q)
	case 3:
		q := p()
		return bin(js_ast.BinOpLooseEq, "BLooseEq", "==", q, h)
	default:
		return h
	}
}

// tiePlain: KnownPrimitiveType tie, classifier tie, and Node execution of every
// tree the real classifier calls removable
func tiePlain(r *Rng, st *Stats, cf *CoqFile, g *tgen, ctx js_ast.HelperContext, n int) {
	var kptItems, exprItems []string
	var progs []string
	var srcs []string
	for i := 0; i < n; i++ {
		var t ptree
		if i%2 == 0 {
			t = g.kptFocused()
		} else {
			t = g.plain(r.Range(1, 4))
		}
		ty := js_ast.KnownPrimitiveType(t.e.Data)
		kptItems = append(kptItems, fmt.Sprintf("(%s, %d)", t.coq, ty))
		st.Note("kpt", t.coq, ty != js_ast.PrimitiveUnknown)
		got := ctx.ExprCanBeRemovedIfUnused(t.e)
		exprItems = append(exprItems, fmt.Sprintf("(%s, %s)", t.coq, cb(got)))
		st.Note("classifier-plain", t.coq, got)
		if got {
			progs = append(progs, plainPrelude+"try { ("+t.src+"); } catch (e) { $p(\"threw\", e && e.name); }\n")
			srcs = append(srcs, t.src)
		}
	}
	cf.AddCases("kpt_cases", "node * Z", "check_kpt", kptItems)
	cf.AddCases("plain_cases", "node * bool", "check_expr", exprItems)
	if len(progs) == 0 {
		return
	}
	res, err := RunNodeScripts(progs, 8000)
	if err != nil {
		st.Fail("node-oracle-unavailable", err.Error(), nil, nil)
		return
	}
	var again []int
	for i, rr := range res {
		e := rr.Err()
		if e == "TIMEOUT" || strings.HasPrefix(e, "HARNESS:") {
			st.Histogram["node-timeout-inconclusive"]++
			continue
		}
		if e == "SyntaxError" && len(rr.Log) == 0 {
			st.Histogram["plain-render-invalid"]++
			continue
		}
		st.Note("removable-executed", srcs[i], true)
		if len(rr.Log) > 0 || e != "" {
			again = append(again, i)
		}
	}
	if len(again) == 0 {
		return
	}
	var p2 []string
	for _, i := range again {
		p2 = append(p2, progs[i])
	}
	res2, err := RunNodeScripts(p2, 8000)
	if err != nil {
		return
	}
	for k, i := range again {
		if len(res2[k].Log) > 0 || (res2[k].Err() != "" && res2[k].Err() != "TIMEOUT" && !strings.HasPrefix(res2[k].Err(), "HARNESS:")) {
			st.Fail("removable-expression-has-effect", map[string]interface{}{"expression": srcs[i], "bindings": plainPrelude,
				"program": "const unused = " + srcs[i] + ";  // unused top-level declaration: ExprCanBeRemovedIfUnused(initialiser) = true"},
				res2[k].String(), "empty probe log and no exception")
		}
	}
}

// classPrograms: class trees the REAL classifier calls removable become an
// unused class in a module that binds the identifiers to objects with
// observable toString/valueOf/getters; the module is bundled with tree shaking
// on and off for every target (lowering of class fields / accessors / static
// blocks changes what the linker's re-check sees) and executed in Node:
// the two bundles must agree, and the kept class must log nothing.
func classPrograms(r *Rng, st *Stats, cf *CoqFile, g *tgen, ctx js_ast.HelperContext, n int) {
	root, err := os.MkdirTemp("", "verif-c04-cls-")
	if err != nil {
		panic(err)
	}
	defer os.RemoveAll(root)
	type tgt struct {
		name    string
		target  api.Target
		engines []api.Engine
	}
	targets := []tgt{{"esnext", api.ESNext, nil}, {"es2022", api.ES2022, nil}, {"es2020", api.ES2020, nil},
		{"safari14", api.DefaultTarget, []api.Engine{{Name: api.EngineSafari, Version: "14"}}}}
	type job struct {
		src, target string
		on, off     int
		bundleOn    string
	}
	var jobs []job
	var progs []string
	var classItems []string
	made := 0
	for i := 0; i < n && made < 24; i++ {
		t := g.pclass(r.Range(1, 2))
		got := ctx.ExprCanBeRemovedIfUnused(t.e)
		classItems = append(classItems, fmt.Sprintf("(%s, %s)", t.coq, cb(got)))
		st.Note("classifier-plain-class", t.coq, got)
		if !got {
			continue
		}
		made++
		form := "const unusedClass = " + t.src + ";"
		if r.Bool() {
			form = t.src + ";"
		}
		src := strings.TrimSpace(plainPrelude) + "\n" + form + "\n$p(\"end\");\n"
		dir := filepath.Join(root, fmt.Sprintf("k%d", i))
		os.MkdirAll(dir, 0o755)
		if err := os.WriteFile(filepath.Join(dir, "m0.js"), []byte(src), 0o644); err != nil {
			panic(err)
		}
		for _, tg := range targets {
			j := job{src: src, target: tg.name, on: -1, off: -1}
			ok := true
			for _, ts := range []api.TreeShaking{api.TreeShakingTrue, api.TreeShakingFalse} {
				res := api.Build(api.BuildOptions{AbsWorkingDir: dir, EntryPoints: []string{"m0.js"}, Bundle: true, Write: false, Outfile: "out.js",
					Format: api.FormatIIFE, TreeShaking: ts, Target: tg.target, Engines: tg.engines, LogLevel: api.LogLevelSilent})
				if len(res.Errors) > 0 || len(res.OutputFiles) != 1 {
					st.Histogram["class-program-rejected"]++
					st.Extra["class-program-rejected-example"] = src + " // " + fmt.Sprint(res.Errors)
					ok = false
					break
				}
				if ts == api.TreeShakingTrue {
					j.on = len(progs)
					j.bundleOn = string(res.OutputFiles[0].Contents)
				} else {
					j.off = len(progs)
				}
				progs = append(progs, string(res.OutputFiles[0].Contents))
			}
			if ok {
				jobs = append(jobs, j)
			}
		}
	}
	cf.AddCases("plain_class_cases", "node * bool", "check_expr", classItems)
	if len(progs) == 0 {
		return
	}
	res, err := RunNodeScripts(progs, 8000)
	if err != nil {
		st.Fail("node-oracle-unavailable", err.Error(), nil, nil)
		return
	}
	bad := func(x NodeResult) bool {
		e := x.Err()
		return e == "TIMEOUT" || strings.HasPrefix(e, "HARNESS:")
	}
	type verdict struct {
		what string
		j    job
		got  string
		exp  string
	}
	judge := func(res []NodeResult, j job, on, off int) *verdict {
		a, b := res[on], res[off]
		if bad(a) || bad(b) {
			return nil
		}
		if (a.Err() == "SyntaxError" && len(a.Log) == 0) || (b.Err() == "SyntaxError" && len(b.Log) == 0) {
			// at esnext esbuild keeps syntax (the `accessor` keyword) that Node 20 cannot parse
			st.Histogram["class-program-node-cannot-parse"]++
			return nil
		}
		if !a.Same(b) {
			return &verdict{"treeshaking-changes-behaviour", j, a.String(), b.String()}
		}
		if b.Err() != "" || len(b.Log) != 1 {
			return &verdict{"removable-class-has-effect", j, b.String(), "only the final probe: a class the classifier calls removable defines silently"}
		}
		return nil
	}
	var again []job
	for _, j := range jobs {
		st.Note("class-program", j.src+j.target, true)
		if v := judge(res, j, j.on, j.off); v != nil {
			again = append(again, j)
		}
	}
	if len(again) == 0 {
		return
	}
	var p2 []string
	for _, j := range again {
		p2 = append(p2, progs[j.on], progs[j.off])
	}
	res2, err := RunNodeScripts(p2, 8000)
	if err != nil {
		return
	}
	for k, j := range again {
		if v := judge(res2, j, 2*k, 2*k+1); v != nil {
			st.Fail(v.what, map[string]interface{}{"files": map[string]string{"m0.js": j.src}, "options": "bundle format=iife target=" + j.target + ", treeShaking true vs false", "bundle": j.bundleOn}, v.got, v.exp)
		}
	}
}
