package main

// Scope-analysis tie: programs of the small statement language of
// coq/C04/Scope.v are generated as (Coq term, JavaScript text); the text is
// parsed by the real js_parser.Parse and the parts it builds (declared symbols,
// used symbols, CanBeRemovedIfUnused, import records) are compared in Coq with
// build_parts (map (analyze declared) stmts): declared/used sets come from the
// model's scope analysis and the flag from the classifier model.

import (
	"fmt"
	"sort"
	"strings"

	"github.com/evanw/esbuild/internal/ast"
	"github.com/evanw/esbuild/internal/config"
	"github.com/evanw/esbuild/internal/js_parser"
	"github.com/evanw/esbuild/internal/logger"
	. "github.com/evanw/esbuild/verifharness/hlib"
)

type sgen struct {
	r          *Rng
	pool       []int        // top-level names (declared or not)
	assignable map[int]bool // names that may be assignment targets
	local      int
}

func nm(x int) string {
	if x >= 100 {
		return fmt.Sprintf("p%d", x)
	}
	return fmt.Sprintf("t%d", x)
}
func cn(x int) string { return fmt.Sprintf("%d%%nat", x) }
func cnl(xs []int) string {
	s := make([]string, len(xs))
	for i, x := range xs {
		s[i] = cn(x)
	}
	return "[" + strings.Join(s, ";") + "]"
}

// binders of a function: fresh locals, or top-level names (shadowing)
func (g *sgen) binders(max int) []int {
	var out []int
	for k := g.r.Intn(max + 1); k > 0; k-- {
		if g.r.Chance(35) {
			x := g.pool[g.r.Intn(len(g.pool))]
			dup := false
			for _, y := range out {
				dup = dup || x == y
			}
			if dup {
				continue
			}
			out = append(out, x)
		} else {
			g.local++
			out = append(out, 100+g.local)
		}
	}
	return out
}

// scope: names in scope besides the top-level pool (locals of enclosing functions)
func (g *sgen) expr(depth int, scope []int) (coq, js string) {
	r := g.r
	pick := func() int {
		if len(scope) > 0 && r.Chance(40) {
			return scope[r.Intn(len(scope))]
		}
		return g.pool[r.Intn(len(g.pool))]
	}
	if depth <= 0 {
		if r.Chance(30) {
			return "XLit", "1"
		}
		x := pick()
		return "(XId " + cn(x) + ")", nm(x)
	}
	switch k := r.Intn(100); {
	case k < 10:
		return "XLit", r.Pick([]string{"1", "\"s\"", "null"})
	case k < 30:
		x := pick()
		return "(XId " + cn(x) + ")", nm(x)
	case k < 38:
		x := pick()
		return "(XTypeof " + cn(x) + ")", "(typeof " + nm(x) + ")"
	case k < 46:
		x := pick()
		if x < 100 && !g.assignable[x] {
			return "(XId " + cn(x) + ")", nm(x)
		}
		c, j := g.expr(depth-1, scope)
		return "(XAssign " + cn(x) + " " + c + ")", "(" + nm(x) + " = " + j + ")"
	case k < 58:
		fc, fj := g.expr(depth-1, scope)
		if strings.HasPrefix(fc, "(XFun") {
			// a direct call of a function expression whose body the parser can
			// simplify away is folded by the parser itself: outside the model
			x := pick()
			fc, fj = "(XId "+cn(x)+")", nm(x)
		}
		var cs, js []string
		for q := r.Intn(3); q > 0; q-- {
			c, j := g.expr(depth-1, scope)
			cs = append(cs, c)
			js = append(js, j)
		}
		return "(XCall " + fc + " [" + strings.Join(cs, ";") + "])", "(" + fj + ")(" + strings.Join(js, ", ") + ")"
	case k < 68:
		var cs, js []string
		for q := r.Intn(3); q > 0; q-- {
			c, j := g.expr(depth-1, scope)
			cs = append(cs, c)
			js = append(js, j)
		}
		return "(XArr [" + strings.Join(cs, ";") + "])", "[" + strings.Join(js, ", ") + "]"
	case k < 90:
		return g.fun(depth-1, scope, false, "")
	default:
		hasExt := r.Chance(40)
		extC, extJ := "None", ""
		if hasExt {
			c, j := g.expr(depth-1, scope)
			extC, extJ = "(Some "+c+")", " extends ("+j+")"
		}
		mc, mj := g.members(depth-1, scope)
		return "(XClass " + extC + " " + mc + ")", "(class" + extJ + " { " + mj + " })"
	}
}

// parameter list with default values: the defaults see the parameters and the
// enclosing scopes, not the body's vars
func (g *sgen) paramList(depth int, params, scope []int) (coqDefaults string, js string) {
	var ds, ps []string
	dscope := append(append([]int{}, params...), scope...)
	for _, p := range params {
		if g.r.Chance(35) {
			c, j := g.expr(depth, dscope)
			ds = append(ds, c)
			ps = append(ps, nm(p)+" = "+j)
		} else {
			ps = append(ps, nm(p))
		}
	}
	return "[" + strings.Join(ds, ";") + "]", strings.Join(ps, ", ")
}

// a function expression (or a method when method is set)
func (g *sgen) fun(depth int, scope []int, method bool, name string) (coq, js string) {
	params, locals := g.binders(2), g.binders(1)
	inner := append(append(append([]int{}, params...), locals...), scope...)
	dc, pj := g.paramList(depth, params, scope)
	var cs, js2 []string
	for q := g.r.Range(1, 2); q > 0; q-- {
		c, j := g.expr(depth, inner)
		cs = append(cs, c)
		js2 = append(js2, "("+j+");")
	}
	decl := ""
	if len(locals) > 0 {
		var ls []string
		for _, l := range locals {
			ls = append(ls, nm(l))
		}
		decl = "var " + strings.Join(ls, ", ") + "; "
	}
	coq = "(XFun " + cnl(params) + " " + dc + " " + cnl(locals) + " [" + strings.Join(cs, ";") + "])"
	body := "(" + pj + ") { " + decl + strings.Join(js2, " ") + " }"
	if method {
		return coq, name + body
	}
	return coq, "(function " + body + ")"
}

// class members: methods, fields (static or not, computed key or not), static blocks
func (g *sgen) members(depth int, scope []int) (string, string) {
	r := g.r
	var cs, js []string
	for q := r.Intn(4); q > 0; q-- {
		switch r.Intn(4) {
		case 0, 1:
			c, j := g.fun(depth, scope, true, fmt.Sprintf("m%d", q))
			cs = append(cs, c)
			js = append(js, j)
		case 2:
			st, stj := "false", ""
			if r.Bool() {
				st, stj = "true", "static "
			}
			keyC, keyJ := "None", fmt.Sprintf("f%d", q)
			if r.Chance(40) {
				c, j := g.expr(depth, scope)
				keyC, keyJ = "(Some "+c+")", "[("+j+")]"
			}
			initC, initJ := "None", ""
			if r.Chance(75) {
				c, j := g.expr(depth, scope)
				initC, initJ = "(Some "+c+")", " = ("+j+")"
			}
			cs = append(cs, "(XField "+st+" "+keyC+" "+initC+")")
			js = append(js, stj+keyJ+initJ+";")
		default:
			locals := g.binders(1)
			inner := append(append([]int{}, locals...), scope...)
			var bc, bj []string
			for w := r.Range(1, 2); w > 0; w-- {
				c, j := g.expr(depth, inner)
				bc = append(bc, c)
				bj = append(bj, "("+j+");")
			}
			decl := ""
			if len(locals) > 0 {
				decl = "var " + nm(locals[0]) + "; "
			}
			cs = append(cs, "(XStaticBlock "+cnl(locals)+" ["+strings.Join(bc, ";")+"])")
			js = append(js, "static { "+decl+strings.Join(bj, " ")+" }")
		}
	}
	return "[" + strings.Join(cs, ";") + "]", strings.Join(js, " ")
}

type sprog struct {
	coq  []string
	text []string
}

func (g *sgen) program() sprog {
	r := g.r
	g.local = 0
	nn := r.Range(3, 8)
	g.pool = nil
	g.assignable = map[int]bool{}
	for i := 1; i <= nn; i++ {
		g.pool = append(g.pool, i)
	}
	// the last names are never declared (unbound): assignable
	next := 0
	take := func() (int, bool) {
		if next < nn-1 {
			next++
			return next, true
		}
		return 0, false
	}
	g.assignable[nn] = true
	// decide the declaration kind of each name up front so that assignments are legal
	kinds := map[int]int{} // 0 local(let/var) 1 function 2 class 3 import
	for i := 1; i < nn; i++ {
		kinds[i] = []int{0, 0, 0, 1, 2, 3}[r.Intn(6)]
		if kinds[i] <= 1 {
			g.assignable[i] = true
		}
	}
	varNames := map[int]bool{} // declared with the keyword "var" by a plain identifier pattern
	var p sprog
	add := func(c, j string) { p.coq = append(p.coq, c); p.text = append(p.text, j) }
	for len(p.coq) < 8 {
		switch k := r.Intn(100); {
		case k < 55: // declare the next name according to its kind
			x, ok := take()
			if !ok {
				if r.Chance(50) {
					break
				}
				continue
			}
			switch kinds[x] {
			case 0:
				kw := r.Pick([]string{"let", "var"})
				var cs, js []string
				for {
					if r.Chance(25) { // array pattern
						var its, jits []string
						its = append(its, "("+cn(x)+", None)")
						jits = append(jits, nm(x))
						if y, ok2 := take(); ok2 && kinds[y] == 0 {
							dc, dj := g.expr(1, nil)
							its = append(its, "("+cn(y)+", Some "+dc+")")
							jits = append(jits, nm(y)+" = "+dj)
						} else if ok2 {
							next-- // not a local: give it back
						}
						ic, ij := g.expr(2, nil)
						if r.Chance(70) {
							ic, ij = "(XArr ["+ic+"])", "["+ij+"]"
						}
						cs = append(cs, "(PArr ["+strings.Join(its, ";")+"], Some "+ic+")")
						js = append(js, "["+strings.Join(jits, ", ")+"] = "+ij)
					} else if r.Chance(18) { // object pattern: computed keys and defaults use symbols
						keyC, keyJ := "None", "k1"
						if r.Chance(60) {
							c, j := g.expr(1, nil)
							keyC, keyJ = "Some "+c, "[("+j+")]"
						}
						defC, defJ := "None", ""
						if r.Chance(50) {
							c, j := g.expr(1, nil)
							defC, defJ = "Some "+c, " = ("+j+")"
						}
						ic, ij := g.expr(1, nil)
						cs = append(cs, "(PObj [("+keyC+", "+cn(x)+", "+defC+")], Some "+ic+")")
						js = append(js, "{ "+keyJ+": "+nm(x)+defJ+" } = ("+ij+")")
					} else if r.Chance(15) && kw == "var" {
						cs = append(cs, "(PId "+cn(x)+", None)")
						js = append(js, nm(x))
						varNames[x] = true
					} else {
						ic, ij := g.expr(2, nil)
						cs = append(cs, "(PId "+cn(x)+", Some "+ic+")")
						js = append(js, nm(x)+" = "+ij)
						if kw == "var" {
							varNames[x] = true
						}
					}
					y, ok2 := take()
					if !ok2 || kinds[y] != 0 || r.Chance(50) {
						if ok2 {
							next--
						}
						break
					}
					x = y
				}
				export := ""
				if r.Chance(20) {
					export = "export "
				}
				add("(SSLocal ["+strings.Join(cs, ";")+"])", export+kw+" "+strings.Join(js, ", ")+";")
			case 1:
				params, locals := g.binders(2), g.binders(1)
				inner := append(append([]int{}, params...), locals...)
				dc, pj := g.paramList(1, params, nil)
				var cs, js []string
				for q := r.Range(1, 2); q > 0; q-- {
					c, j := g.expr(2, inner)
					cs = append(cs, c)
					js = append(js, "("+j+");")
				}
				var ls []string
				decl := ""
				if len(locals) > 0 {
					for _, l := range locals {
						ls = append(ls, nm(l))
					}
					decl = "var " + strings.Join(ls, ", ") + "; "
				}
				add("(SSFunction "+cn(x)+" "+cnl(params)+" "+dc+" "+cnl(locals)+" ["+strings.Join(cs, ";")+"])",
					"function "+nm(x)+"("+pj+") { "+decl+strings.Join(js, " ")+" }")
			case 2:
				hasExt := r.Chance(50)
				extC, extJ := "None", ""
				if hasExt {
					c, j := g.expr(1, nil)
					extC, extJ = "(Some "+c+")", " extends ("+j+")"
				}
				mc, mj := g.members(1, nil)
				add("(SSClass "+cn(x)+" "+extC+" "+mc+")", "class "+nm(x)+extJ+" { "+mj+" }")
			default:
				add("(SSImport ["+cn(x)+"])", "import { x as "+nm(x)+" } from \"./dep.js\";")
			}
		case k < 75: // expression statement that starts with a reference (a bare literal would be dropped by the parser)
			x := g.pool[r.Intn(len(g.pool))]
			c, j := g.expr(2, nil)
			if r.Bool() {
				add("(SSExpr (XCall (XId "+cn(x)+") ["+c+"]))", nm(x)+"("+j+");")
			} else {
				add("(SSExpr (XArr [XId "+cn(x)+"; "+c+"]))", "["+nm(x)+", "+j+"];")
			}
		case k < 82:
			c, j := g.expr(2, nil)
			add("(SSIf "+c+")", "if ("+j+") { }")
		case k < 85:
			x := g.pool[r.Intn(len(g.pool))]
			c, j := g.expr(1, nil)
			tryC, tryJ := "(XArr [XId "+cn(x)+"; "+c+"])", "try { ["+nm(x)+", "+j+"]; }"
			switch r.Intn(3) {
			case 0:
				add("(SSTry "+tryC+" None)", tryJ+" finally { }")
			case 1:
				hc, hj := g.expr(1, nil)
				add("(SSTry "+tryC+" (Some (None, ["+hc+"])))", tryJ+" catch { ("+hj+"); }")
			default:
				bs := g.binders(1)
				if len(bs) == 0 {
					g.local++
					bs = []int{100 + g.local}
				}
				h1c, h1j := g.expr(1, bs)
				add("(SSTry "+tryC+" (Some (Some "+cn(bs[0])+", ["+h1c+"; XId "+cn(bs[0])+"])))", tryJ+" catch ("+nm(bs[0])+") { ("+h1j+"); ("+nm(bs[0])+"); }")
			}
		case k < 88: // loops and labels
			kind := r.Intn(7)
			bs := g.binders(1)
			if len(bs) == 0 {
				g.local++
				bs = []int{100 + g.local}
			}
			b := bs[0]
			h := nn // the name no other statement declares: a `var` in a loop head declares it at the top level
			switch kind {
			case 0:
				c1, j1 := g.expr(1, bs)
				c2, j2 := g.expr(1, bs)
				c3, j3 := g.expr(1, bs)
				add(fmt.Sprintf("(SSCompound 0 [] %s [%s; %s; %s] [])", cnl(bs), c1, c2, c3), "for (let "+nm(b)+" = ("+j1+"); ("+j2+"); ) { ("+j3+"); break; }")
			case 1, 2:
				c1, j1 := g.expr(1, bs)
				c2, j2 := g.expr(1, bs)
				word := "of"
				if kind == 2 {
					word = "in"
				}
				add(fmt.Sprintf("(SSCompound %d [] %s [%s; %s] [])", kind, cnl(bs), c1, c2), "for (let "+nm(b)+" "+word+" ("+j1+")) { ("+j2+"); }")
			case 3:
				c1, j1 := g.expr(1, nil)
				c2, j2 := g.expr(1, nil)
				add(fmt.Sprintf("(SSCompound 3 [%s; %s] [] [] %s)", c1, c2, cnl([]int{h})), "for (var "+nm(h)+" of ("+j1+")) { ("+j2+"); }")
			case 4:
				c1, j1 := g.expr(1, nil)
				c2, j2 := g.expr(1, nil)
				add(fmt.Sprintf("(SSCompound 4 [%s; %s] [] [] %s)", c1, c2, cnl([]int{h})), "for (var "+nm(h)+" = ("+j1+"); ("+j2+"); ) { break; }")
			case 5:
				c1, j1 := g.expr(2, nil)
				add("(SSCompound 5 ["+c1+"] [] [] [])", "lbl: { ("+j1+"); break lbl; }")
			default:
				c1, j1 := g.expr(1, nil)
				c2, j2 := g.expr(1, nil)
				add("(SSCompound 6 ["+c1+"; "+c2+"] [] [] [])", "while ("+j1+") { ("+j2+"); break; }")
			}
		case k < 91: // a block with a hoisted var: a fresh name, or one that redeclares a top-level var / function (0bc1420)
			var cands []int
			for i := 1; i < nn; i++ {
				if kinds[i] == 1 || varNames[i] {
					cands = append(cands, i)
				}
			}
			cands = append(cands, nn) // the never otherwise declared name
			x := cands[r.Intn(len(cands))]
			c, j := g.expr(1, nil)
			add("(SSBlockVar "+cn(x)+" "+c+")", "{ var "+nm(x)+" = "+j+"; }")
		case k < 94:
			add("(SSImport [])", "import \"./dep.js\";")
		default:
			add("SSExportStar", "export * from \"./dep.js\";")
		}
		if r.Chance(12) {
			break
		}
	}
	return p
}

func tieScope(r *Rng, st *Stats, cf *CoqFile, n int) {
	g := &sgen{r: r}
	var items []string
	for i := 0; i < n; i++ {
		prog := g.program()
		if len(prog.coq) == 0 {
			continue
		}
		ts := !r.Chance(30)
		text := strings.Join(prog.text, "\n") + "\n"
		log := logger.NewDeferLog(logger.DeferLogNoVerboseOrDebug, nil)
		opts := config.Options{Mode: config.ModeBundle, TreeShaking: ts, OmitRuntimeForTests: true}
		tree, ok := js_parser.Parse(log, partsSource(text), js_parser.OptionsFromConfig(&opts))
		hasErr := false
		first := ""
		for _, m := range log.Done() {
			if m.Kind == logger.Error {
				hasErr = true
				first = m.Data.Text
			}
		}
		if !ok || hasErr {
			st.Histogram["scope-program-rejected"]++
			st.Extra["scope-rejected-example"] = text + " // " + first
			continue
		}
		follow := func(ref ast.Ref) ast.Ref {
			for tree.Symbols[ref.InnerIndex].Link != ast.InvalidRef {
				ref = tree.Symbols[ref.InnerIndex].Link
			}
			return ref
		}
		top := map[ast.Ref]int{}
		for _, p := range tree.Parts {
			for _, d := range p.DeclaredSymbols {
				if d.IsTopLevel {
					ref := follow(d.Ref)
					var k int
					if _, err := fmt.Sscanf(tree.Symbols[ref.InnerIndex].OriginalName, "t%d", &k); err == nil {
						top[ref] = k
					}
				}
			}
		}
		var obs []string
		for _, p := range tree.Parts {
			var ds, us []int
			for _, d := range p.DeclaredSymbols {
				if k, ok := top[follow(d.Ref)]; ok && d.IsTopLevel {
					ds = append(ds, k)
				}
			}
			for ref := range p.SymbolUses {
				if k, ok := top[follow(ref)]; ok {
					us = append(us, k)
				}
			}
			sort.Ints(ds)
			sort.Ints(us)
			obs = append(obs, fmt.Sprintf("(%s,%s,%s,%d)", cb(p.CanBeRemovedIfUnused), zl(ds), zl(us), len(p.ImportRecordIndices)))
		}
		if os_debug() {
			fmt.Fprintf(debugOut(), "--- scope case %d ts=%v\n%s", len(items), ts, text)
		}
		items = append(items, fmt.Sprintf("(%s,[%s],[%s])", cb(ts), strings.Join(prog.coq, ";\n   "), strings.Join(obs, ";")))
		st.Note("scope", text+fmt.Sprint(ts), len(tree.Parts) > 2)
		if i < 2 {
			st.Sample(map[string]interface{}{"scope_program": text, "tree_shaking": ts, "parts": len(tree.Parts)})
		}
	}
	cf.AddCases("scope_cases", "bool * list sstmt * list obs_enc", "check_scope", items)
}
