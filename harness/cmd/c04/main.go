package main

// C04: tree shaking removes only code whose removal is unobservable.
//  (A) tie of the marking algorithm: module graphs are scanned and linked with
//      the real bundler/linker (internal API), the liveness graph is dumped by
//      the add-only hook internal/linker/export_verif_c04.go after tree
//      shaking, and Coq runs Mark.v on the same dumped graph;
//  (B) tie of the purity classifier: js_ast trees are built directly, the
//      exported HelperContext.{Expr,Stmts,Class}CanBeRemovedIfUnused are
//      called and compared with Purity.v;
//  (C) glue + oracle: the same graphs go through api.Build with tree shaking
//      on / off (and with annotations ignored), all bundles and the original
//      modules are executed in Node and the probe logs compared; the
//      tree-shaken text is scanned for identifiers whose declaration vanished.

import (
	"encoding/json"
	"fmt"
	"os"
	"os/exec"
	"path/filepath"
	"regexp"
	"sort"
	"strings"
	"sync"

	"github.com/evanw/esbuild/internal/ast"
	"github.com/evanw/esbuild/internal/bundler"
	"github.com/evanw/esbuild/internal/cache"
	"github.com/evanw/esbuild/internal/config"
	"github.com/evanw/esbuild/internal/fs"
	"github.com/evanw/esbuild/internal/graph"
	"github.com/evanw/esbuild/internal/helpers"
	"github.com/evanw/esbuild/internal/linker"
	"github.com/evanw/esbuild/internal/logger"
	"github.com/evanw/esbuild/internal/resolver"
	"github.com/evanw/esbuild/pkg/api"
	. "github.com/evanw/esbuild/verifharness/hlib"
)

func main() { Main("c04", runC04) }

func runC04(seed uint64, n int, tier string, outDir string) []*Stats {
	r := NewRng(seed)
	st := NewStats("c04", seed)
	cf := NewCoqFile("From V Require Import Common.Base C04.Parts C04.Mark C04.Purity C04.Harness C04.Build C04.Scope C04.HarnessBuild.")

	tieGraphs(r, st, cf, n)
	tieClassifier(r, st, cf, n)
	tieParts(r, st, cf, n/4)
	tieScope(r, st, cf, n/2)
	glue(r, st, n)

	st.Finish("seeded generator (splitmix64 from VERIF_SEED): ES module graphs (1-5 modules, named/namespace/default/side-effect imports, re-exports, CommonJS and JSON members, a sideEffects:false directory, @__PURE__/@__NO_SIDE_EFFECTS__/pure:[..] annotations) whose top-level statements hide probe calls in getters, computed keys, spreads, template holes, coercions, class static blocks/fields/computed members/extends, default parameters, destructuring defaults, tagged templates, in/instanceof, optional chains, new, global getters, typeof guards; (A) liveness dump after the real linker vs Mark.v; (B) random js_ast expression/statement/class trees vs Purity.v; (C) api.Build with tree shaking on/off/annotations ignored executed in Node against the native modules. distinct_nontrivial = distinct inputs with at least one removable and one non-removable part (A), distinct trees (B), distinct graphs whose native run logs at least two probes (C)")
	if err := os.WriteFile(filepath.Join(outDir, "c04_cases.v"), []byte(cf.String()), 0o644); err != nil {
		panic(err)
	}
	return []*Stats{st}
}

// ---------------------------------------------------------------------------
// (A) marking algorithm tie

type linkOpts struct {
	format      config.Format
	treeShaking bool
	ignoreDCE   bool
	minify      bool
	splitting   bool
	entries     []string
}

func (o linkOpts) String() string {
	return fmt.Sprintf("format=%d treeShaking=%v ignoreAnnotations=%v minifySyntax=%v splitting=%v entries=%v", o.format, o.treeShaking, o.ignoreDCE, o.minify, o.splitting, o.entries)
}

func hasErr(msgs []logger.Msg) string {
	for _, m := range msgs {
		if m.Kind == logger.Error {
			return m.Data.Text
		}
	}
	return ""
}

// linkWithDump scans the files with the real bundler and links twice: once with
// the dumping copy of Link, once with the real Link (outputs must agree).
func linkWithDump(files map[string]string, o linkOpts) ([]*linker.VerifC04Dump, []graph.OutputFile, string) {
	abs := map[string]string{}
	for k, v := range files {
		abs["/"+k] = v
	}
	options := config.Options{
		Mode:                 config.ModeBundle,
		OutputFormat:         o.format,
		AbsOutputDir:         "/out",
		TreeShaking:          o.treeShaking,
		IgnoreDCEAnnotations: o.ignoreDCE,
		MinifySyntax:         o.minify,
		CodeSplitting:        o.splitting,
		ExtensionOrder:       []string{".tsx", ".ts", ".jsx", ".js", ".css", ".json"},
	}
	if o.format == config.FormatIIFE && len(o.entries) == 1 {
		options.GlobalName = []string{"G"}
	}
	var eps []bundler.EntryPoint
	for _, e := range o.entries {
		eps = append(eps, bundler.EntryPoint{InputPath: "/" + e})
	}
	log := logger.NewDeferLog(logger.DeferLogNoVerboseOrDebug, nil)
	mockFS := fs.MockFS(abs, fs.MockUnix, "/")
	bundle := bundler.ScanBundle(config.BuildCall, log, mockFS, cache.MakeCacheSet(), eps, options, nil)
	if e := hasErr(log.Done()); e != "" {
		return nil, nil, "scan: " + e
	}
	// without code splitting Compile links every entry point separately and
	// concurrently: one dump per call of the linker
	var mu sync.Mutex
	var dump []*linker.VerifC04Dump
	dumpingLink := func(options *config.Options, timer *helpers.Timer, log logger.Log, fs fs.FS, res *resolver.Resolver,
		inputFiles []graph.InputFile, entryPoints []graph.EntryPoint, uniqueKeyPrefix string, reachableFiles []uint32,
		dataForSourceMaps func() []bundler.DataForSourceMap) []graph.OutputFile {
		d := &linker.VerifC04Dump{}
		out := linker.VerifC04Link(d)(options, timer, log, fs, res, inputFiles, entryPoints, uniqueKeyPrefix, reachableFiles, dataForSourceMaps)
		mu.Lock()
		dump = append(dump, d)
		mu.Unlock()
		return out
	}
	log = logger.NewDeferLog(logger.DeferLogNoVerboseOrDebug, nil)
	res1, _ := bundle.Compile(log, nil, nil, dumpingLink)
	sort.Slice(dump, func(i, j int) bool {
		return len(dump[i].EntryPoints) > 0 && len(dump[j].EntryPoints) > 0 && dump[i].EntryPoints[0] < dump[j].EntryPoints[0]
	})
	if e := hasErr(log.Done()); e != "" {
		return nil, nil, "link: " + e
	}
	log = logger.NewDeferLog(logger.DeferLogNoVerboseOrDebug, nil)
	res2, _ := bundle.Compile(log, nil, nil, linker.Link)
	if e := hasErr(log.Done()); e != "" {
		return nil, nil, "link2: " + e
	}
	if len(res1) != len(res2) {
		return dump, res1, "HOOKDIFF: output count differs"
	}
	for i := range res1 {
		if res1[i].AbsPath != res2[i].AbsPath || string(res1[i].Contents) != string(res2[i].Contents) {
			return dump, res1, "HOOKDIFF: " + res1[i].AbsPath
		}
	}
	return dump, res1, ""
}

func b2i(b bool) int64 {
	if b {
		return 1
	}
	return 0
}

// dumpToCoq renders the dumped graph and the observed liveness flags as one
// flat list of integers (format: coq/C04/Harness.v read_case).
func dumpToCoq(d *linker.VerifC04Dump) (string, bool) {
	symID := map[[2]uint32]int64{}
	sym := func(s [2]uint32) int64 {
		id, ok := symID[s]
		if !ok {
			id = int64(len(symID))
			symID[s] = id
		}
		return id
	}
	var out []int64
	w := func(v ...int64) { out = append(out, v...) }
	sawRemovable, sawKept := false, false
	w(b2i(d.TreeShaking), b2i(d.IgnoreDCE), int64(len(d.EntryPoints)))
	for _, e := range d.EntryPoints {
		w(int64(e))
	}
	w(int64(len(d.Files)))
	for _, f := range d.Files {
		css := int64(-1)
		if f.CSSIndexValid {
			css = int64(f.CSSIndex)
		}
		w(int64(f.Repr), b2i(f.SideEffectsKind == 0), b2i(f.IsEntryPoint), css, int64(len(f.CSSImports)))
		for _, c := range f.CSSImports {
			w(int64(c))
		}
		w(int64(len(f.Parts)))
		for _, p := range f.Parts {
			w(b2i(p.CanBeRemovedIfUnused), b2i(p.ForceTreeShaking), int64(len(p.Imports)))
			for _, im := range p.Imports {
				w(b2i(ast.ImportKind(im.Kind) == ast.ImportStmt), b2i(im.Valid), int64(im.Target), b2i(im.ExternalNoSideEffects))
			}
			w(int64(len(p.Deps)))
			for _, dp := range p.Deps {
				w(int64(dp[0]), int64(dp[1]))
			}
			var decl []int64
			for k, s := range p.Declared {
				if !p.DeclaredIsImport[k] { // an import item is an alias, not a declaration
					decl = append(decl, sym(s))
				}
			}
			w(int64(len(decl)))
			w(decl...)
			us := append([][2]uint32{}, p.Uses...)
			if !p.IsLive {
				us = nil // the cover hypothesis is only needed (and only checked) for live parts
			}
			sort.Slice(us, func(i, j int) bool { return us[i][0] < us[j][0] || (us[i][0] == us[j][0] && us[i][1] < us[j][1]) })
			w(int64(len(us)))
			for _, s := range us {
				w(sym(s))
			}
			if f.Path != "<runtime>" && p.NumStmts > 0 {
				if p.CanBeRemovedIfUnused {
					sawRemovable = true
				} else {
					sawKept = true
				}
			}
		}
	}
	for _, f := range d.Files {
		w(b2i(f.IsLive), int64(len(f.Parts)))
		for _, p := range f.Parts {
			w(b2i(p.IsLive))
		}
	}
	// ImportsToBind: (file, using parts, target file, target symbol, re-export chain)
	type bnd struct {
		file int
		b    linker.VerifC04Binding
	}
	var bs []bnd
	for s, f := range d.Files {
		for _, b := range f.Bindings {
			bs = append(bs, bnd{s, b})
		}
	}
	sort.Slice(bs, func(i, j int) bool {
		a, b := bs[i], bs[j]
		if a.file != b.file {
			return a.file < b.file
		}
		if a.b.ImportRef != b.b.ImportRef {
			return a.b.ImportRef[0] < b.b.ImportRef[0] || (a.b.ImportRef[0] == b.b.ImportRef[0] && a.b.ImportRef[1] < b.b.ImportRef[1])
		}
		return a.b.TargetRef[1] < b.b.TargetRef[1]
	})
	w(int64(len(bs)))
	for _, x := range bs {
		w(int64(x.file), int64(len(x.b.LocalPartsWithUses)))
		for _, u := range x.b.LocalPartsWithUses {
			w(int64(u))
		}
		w(int64(x.b.TargetSource), sym(x.b.TargetRef), int64(len(x.b.ReExports)))
		for _, re := range x.b.ReExports {
			w(int64(re[0]), int64(re[1]))
		}
	}
	return CZList(out), sawRemovable && sawKept
}

// the property's own closure predicates evaluated directly on the dumped flags
func checkDumpPredicates(d *linker.VerifC04Dump) string {
	declaring := map[[2]uint32][][2]int{}
	for s, f := range d.Files {
		for i, p := range f.Parts {
			for k, sy := range p.Declared {
				if !p.DeclaredIsImport[k] {
					declaring[sy] = append(declaring[sy], [2]int{s, i})
				}
			}
		}
	}
	hasDep := func(p linker.VerifC04Part, t, j uint32) bool {
		for _, dp := range p.Deps {
			if dp[0] == t && dp[1] == j {
				return true
			}
		}
		return false
	}
	for s, f := range d.Files {
		// a live part that uses an import keeps the whole re-export chain live
		for _, b := range f.Bindings {
			for _, u := range b.LocalPartsWithUses {
				if int(u) >= len(f.Parts) {
					return fmt.Sprintf("binding of file %d names part %d which does not exist", s, u)
				}
				for _, re := range b.ReExports {
					if !hasDep(f.Parts[u], re[0], re[1]) {
						return fmt.Sprintf("part %d/%d uses an import but does not depend on the re-export statement %d/%d of its chain", s, u, re[0], re[1])
					}
					if f.Parts[u].IsLive && !d.Files[re[0]].Parts[re[1]].IsLive {
						return fmt.Sprintf("live part %d/%d uses an import whose re-export statement %d/%d (%s) was removed", s, u, re[0], re[1], d.Files[re[0]].Path)
					}
				}
			}
		}
		// a part that imports a wrapped file depends on its wrapper part
		for i, p := range f.Parts {
			for _, im := range p.Imports {
				if im.Valid && int(im.Target) < len(d.Files) && d.Files[im.Target].Wrap != 0 && d.Files[im.Target].WrapperPart >= 0 && ast.ImportKind(im.Kind) != ast.ImportDynamic {
					wp := uint32(d.Files[im.Target].WrapperPart)
					if !hasDep(p, im.Target, wp) {
						return fmt.Sprintf("part %d/%d imports the wrapped file %s but does not depend on its wrapper part %d", s, i, d.Files[im.Target].Path, wp)
					}
					if p.IsLive && !d.Files[im.Target].Parts[wp].IsLive {
						return fmt.Sprintf("live part %d/%d imports the wrapped file %s whose wrapper part was removed", s, i, d.Files[im.Target].Path)
					}
				}
			}
		}
	}
	for s, f := range d.Files {
		for i, p := range f.Parts {
			if p.IsLive && !f.IsLive {
				return fmt.Sprintf("part %d/%d is live in a dead file", s, i)
			}
			if !p.IsLive {
				if f.IsLive && !p.CanBeRemovedIfUnused {
					return fmt.Sprintf("dead part %d/%d (%s) of a live file is not removable-if-unused", s, i, f.Path)
				}
				continue
			}
			for _, dp := range p.Deps {
				if !d.Files[dp[0]].Parts[dp[1]].IsLive {
					return fmt.Sprintf("live part %d/%d depends on dead part %d/%d", s, i, dp[0], dp[1])
				}
			}
			for _, u := range p.Uses {
				for _, q := range declaring[u] {
					if !d.Files[q[0]].Parts[q[1]].IsLive {
						return fmt.Sprintf("live part %d/%d (%s) uses symbol %v whose declaring part %d/%d (%s) was removed", s, i, f.Path, u, q[0], q[1], d.Files[q[0]].Path)
					}
				}
			}
		}
	}
	return ""
}

func tieGraphs(r *Rng, st *Stats, cf *CoqFile, n int) {
	ng := n / 10
	if ng < 12 {
		ng = 12
	}
	var items []string
	g := &mgen{r: r}
	for i := 0; i < ng; i++ {
		g.caseNo = i
		g.annot = r.Chance(50)
		mg := g.Graph()
		files := mg.FileMap()
		o := linkOpts{format: []config.Format{config.FormatESModule, config.FormatCommonJS, config.FormatIIFE}[r.Intn(3)],
			treeShaking: !r.Chance(25), ignoreDCE: r.Chance(20), minify: r.Chance(30), entries: []string{"m0.js"}}
		if len(mg.files) > 2 && r.Chance(25) {
			last := mg.files[len(mg.files)-1]
			if !last.json {
				o.entries = append(o.entries, last.path)
				if o.format == config.FormatESModule && r.Bool() {
					o.splitting = true
				}
			}
		}
		if r.Chance(15) {
			files["style.css"] = "@import \"./other.css\";\nbody { color: red }\n"
			files["other.css"] = "a { color: blue }\n"
			files["m0.js"] = "import \"./style.css\";\n" + files["m0.js"]
		}
		dumps, _, errText := linkWithDump(files, o)
		input := map[string]interface{}{"files": files, "options": o.String()}
		if strings.HasPrefix(errText, "HOOKDIFF") {
			st.Fail("hook-copy-of-Link-differs-from-Link", input, errText, "identical output files")
			continue
		}
		if errText != "" {
			st.Histogram["graph-build-error"]++
			st.Fail("valid-graph-rejected", input, errText, "no error")
			continue
		}
		for k, dump := range dumps {
			for _, f := range dump.Files {
				st.Histogram["dump:import-bindings"] += len(f.Bindings)
				for _, b := range f.Bindings {
					st.Histogram["dump:re-export-chain-links"] += len(b.ReExports)
				}
				if f.Wrap != 0 {
					st.Histogram["dump:wrapped-files"]++
				}
			}
			term, nontrivial := dumpToCoq(dump)
			items = append(items, term)
			st.Note("graph", fmt.Sprint(k)+mg.Text()+o.String(), nontrivial)
			if bad := checkDumpPredicates(dump); bad != "" {
				st.Fail("liveness-closure", input, bad, "live set closed under dependencies and symbol uses; dead parts of live files removable-if-unused")
			}
			if i < 2 && k == 0 {
				nparts := 0
				for _, f := range dump.Files {
					nparts += len(f.Parts)
				}
				st.Sample(map[string]interface{}{"graph_options": o.String(), "files": len(dump.Files), "parts": nparts})
			}
		}
	}
	// replay of the witness of Properties.treeshake_off_keeps_everything_refuted on
	// the real bundler: with tree shaking OFF a pure, unused (single-part) module
	// that is imported only for its side effects is still dropped
	{
		files := map[string]string{"m0.js": "import \"./m1.js\";\n$p(\"0:1\");\n", "m1.js": "export const unused = [1, 2];\nfunction alsoUnused() {}\n"}
		dumps, outs, errText := linkWithDump(files, linkOpts{format: config.FormatESModule, treeShaking: false, entries: []string{"m0.js"}})
		reproduced := false
		if errText == "" && len(dumps) == 1 {
			for _, f := range dumps[0].Files {
				if f.Path == "m1.js" && f.IsLive {
					for _, p := range f.Parts {
						if p.NumStmts > 0 && !p.IsLive && p.CanBeRemovedIfUnused && !p.ForceTreeShaking {
							reproduced = true
						}
					}
				}
			}
			term, _ := dumpToCoq(dumps[0])
			items = append(items, term)
			st.Note("graph", "ts-off-witness", true)
			for _, o := range outs {
				if strings.Contains(string(o.Contents), "alsoUnused") {
					reproduced = false
				}
			}
		}
		st.Extra["treeshake_off_keeps_everything_refuted_witness_reproduced_on_real_linker"] = reproduced
		if reproduced {
			st.Histogram["ts-off-drops-pure-part"]++
		}
	}
	// fixed scenario: re-export chains (named re-export and export star, two hops)
	{
		files := map[string]string{
			"m0.js":  "import { y, z, w } from \"./m1.js\";\n$p(\"0:1\", y);\nconst unusedLocal = z;\n$p(\"0:2\", w);\n",
			"m1.js":  "export { x as y } from \"./m2.js\";\nexport * from \"./m3.js\";\nexport { w } from \"./m4.js\";\n",
			"m2.js":  "export const x = 1;\nexport const other = $p(\"2:1\");\n",
			"m3.js":  "export const z = 2;\n",
			"m4.js":  "export { v as w } from \"./m2b.js\";\n",
			"m2b.js": "export const v = 3;\n",
		}
		dumps, _, errText := linkWithDump(files, linkOpts{format: config.FormatESModule, treeShaking: true, entries: []string{"m0.js"}})
		if errText == "" && len(dumps) == 1 {
			links := 0
			for _, f := range dumps[0].Files {
				for _, b := range f.Bindings {
					if len(b.LocalPartsWithUses) > 0 {
						links += len(b.ReExports)
					}
				}
			}
			st.Histogram["reexport-scenario-chain-links-with-users"] += links
			term, _ := dumpToCoq(dumps[0])
			items = append(items, term)
			st.Note("graph", "reexport-scenario", true)
			if bad := checkDumpPredicates(dumps[0]); bad != "" {
				st.Fail("liveness-closure", map[string]interface{}{"files": files, "options": "bundle esm treeShaking=true entry m0.js"}, bad, "a live part that uses an import depends on every re-export statement of its chain")
			}
		} else {
			st.Fail("valid-graph-rejected", map[string]interface{}{"files": files}, errText, "no error")
		}
	}
	cf.AddCases("graph_cases", "list Z", "check_graph", items)
}

// ---------------------------------------------------------------------------
// (C) glue + oracle

const moduleRunner = `
import vm from "vm";
import fs from "fs";
import { pathToFileURL } from "url";
const input = JSON.parse(fs.readFileSync(process.argv[2], "utf8"));
vm.runInThisContext(input.prelude);
globalThis.$pp = globalThis.$p;
globalThis.$exercise = function (ns) {
  for (const k of Object.keys(ns).sort()) {
    const v = ns[k];
    if (typeof v === "function" && !/^class/.test(Function.prototype.toString.call(v))) {
      try { $p("export-call", k, v()); } catch (e) { $p("export-throw", k, e && e.name); }
    } else $p("export", k, typeof v);
  }
};
const out = [];
for (const p of input.paths) {
  $log.length = 0;
  const res = { log: [], error: null, thrown: "" };
  try {
    const ns = await import(pathToFileURL(p).href);
    $exercise(ns);
  } catch (e) {
    res.error = (e && e.constructor && e.constructor.name) || typeof e;
    try { res.thrown = $fmt(e); } catch (_) {}
  }
  res.log = $log.slice();
  out.push(res);
}
fs.writeFileSync(process.argv[3], JSON.stringify(out));
`

const exerciseScript = `
var $pp = $p;
function $exercise(ns) {
  for (const k of Object.keys(ns).sort()) {
    const v = ns[k];
    if (typeof v === "function" && !/^class/.test(Function.prototype.toString.call(v))) {
      try { $p("export-call", k, v()); } catch (e) { $p("export-throw", k, e && e.name); }
    } else $p("export", k, typeof v);
  }
}
`

func runModules(dir string, paths []string) ([]NodeResult, error) {
	in := map[string]interface{}{"prelude": NodePrelude, "paths": paths}
	data, _ := json.Marshal(in)
	inp := filepath.Join(dir, "mods-in.json")
	outp := filepath.Join(dir, "mods-out.json")
	run := filepath.Join(dir, "runner.mjs")
	if err := os.WriteFile(inp, data, 0o644); err != nil {
		return nil, err
	}
	if err := os.WriteFile(run, []byte(moduleRunner), 0o644); err != nil {
		return nil, err
	}
	cmd := exec.Command("node", run, inp, outp)
	cmd.Dir = dir
	outb, err := cmd.CombinedOutput()
	if err != nil {
		return nil, fmt.Errorf("node module runner failed: %v: %s", err, string(outb))
	}
	raw, err := os.ReadFile(outp)
	if err != nil {
		return nil, err
	}
	var res []NodeResult
	if err := json.Unmarshal(raw, &res); err != nil {
		return nil, err
	}
	if len(res) != len(paths) {
		return nil, fmt.Errorf("module runner returned %d results for %d modules", len(res), len(paths))
	}
	return res, nil
}

type variant struct {
	name   string // off | on | ign
	text   string
	err    string
	script int // index into the script batch, or -1
	module int // index into the module batch, or -1

	scriptText string
	modulePath string
}

type glueCase struct {
	mg       *mgraph
	dir      string
	desc     string
	format   api.Format
	minIdent bool
	minSyn   bool
	global   bool
	target   int
	exports  bool
	native   int
	vars     []*variant
}

var simpleDeclRe = regexp.MustCompile(`\b(?:const|let|var|function|class)\s+(b\d+_[a-z]+\d+)\b`)
var nameRe = regexp.MustCompile(`\bb\d+_[a-z]+\d+\b`)

func danglingNames(inputs map[string]string, output string) []string {
	declaredIn := map[string]bool{}
	for _, src := range inputs {
		for _, m := range simpleDeclRe.FindAllStringSubmatch(src, -1) {
			declaredIn[m[1]] = true
		}
	}
	declaredOut := map[string]bool{}
	for _, m := range simpleDeclRe.FindAllStringSubmatch(output, -1) {
		declaredOut[m[1]] = true
	}
	seen := map[string]bool{}
	var bad []string
	for _, nm := range nameRe.FindAllString(output, -1) {
		if declaredIn[nm] && !declaredOut[nm] && !seen[nm] {
			seen[nm] = true
			bad = append(bad, nm)
		}
	}
	return bad
}

// lines whose disappearance an annotation justifies
func (mg *mgraph) mayVanish(line string) bool {
	if !strings.HasPrefix(line, "\"") {
		return false
	}
	if strings.HasPrefix(line, "\"P") {
		return true
	}
	var idx int
	if _, err := fmt.Sscanf(line, "\"%d:", &idx); err == nil && idx >= 0 && idx < len(mg.files) {
		return mg.files[idx].pure
	}
	return false
}

func filterLog(mg *mgraph, log []string) []string {
	var out []string
	for _, l := range log {
		if !mg.mayVanish(l) {
			out = append(out, l)
		}
	}
	return out
}

// stable sort of the log by module index: the order of events inside each
// module is kept, the interleaving of different modules is forgotten
func byModule(r NodeResult) NodeResult {
	idx := func(l string) int {
		var i int
		if _, err := fmt.Sscanf(strings.TrimPrefix(l, "\"P"), "%d:", &i); err == nil && strings.HasPrefix(l, "\"P") {
			return i
		}
		if _, err := fmt.Sscanf(l, "\"%d:", &i); err == nil {
			return i
		}
		return 1 << 20
	}
	out := r
	out.Log = append([]string{}, r.Log...)
	sort.SliceStable(out.Log, func(a, b int) bool { return idx(out.Log[a]) < idx(out.Log[b]) })
	return out
}

func sameLines(a, b []string) bool {
	if len(a) != len(b) {
		return false
	}
	for i := range a {
		if a[i] != b[i] {
			return false
		}
	}
	return true
}

// every line of sub occurs in sup in the same order
func isSubsequence(sub, sup []string) bool {
	j := 0
	for _, l := range sub {
		for j < len(sup) && sup[j] != l {
			j++
		}
		if j == len(sup) {
			return false
		}
		j++
	}
	return true
}

func glue(r *Rng, st *Stats, n int) {
	nc := n / 2
	if nc < 20 {
		nc = 20
	}
	root, err := os.MkdirTemp("", "verif-c04-")
	if err != nil {
		panic(err)
	}
	defer os.RemoveAll(root)
	knownScenarioCJSOrder(root, st)
	fixedTreeShakingScenarios(root, st)
	g := &mgen{r: r}
	var cases []*glueCase
	for i := 0; i < nc; i++ {
		g.caseNo = 1000 + i
		g.annot = r.Chance(45)
		mg := g.Graph()
		c := &glueCase{mg: mg, dir: filepath.Join(root, fmt.Sprintf("c%d", i))}
		files := mg.FileMap()
		files["package.json"] = "{\"type\": \"module\"}\n"
		if _, ok := files["pure/package.json"]; ok {
			files["pure/package.json"] = "{\"type\": \"module\", \"sideEffects\": false}\n"
		}
		for p, text := range files {
			full := filepath.Join(c.dir, p)
			os.MkdirAll(filepath.Dir(full), 0o755)
			if err := os.WriteFile(full, []byte(text), 0o644); err != nil {
				panic(err)
			}
		}
		c.format = []api.Format{api.FormatIIFE, api.FormatCommonJS, api.FormatESModule}[r.Intn(3)]
		c.minSyn = r.Chance(35)
		c.minIdent = r.Chance(25)
		minWS := r.Chance(25)
		c.exports = len(mg.files[0].exports) > 0
		c.global = c.format == api.FormatIIFE && c.exports
		if mg.needsLowering {
			c.target = 1 + r.Intn(2) // es2022, es2020 (at esnext esbuild keeps the `accessor` keyword, which Node 20 cannot parse; safari14 cannot lower destructuring: both only in the class-program stream)
		}
		c.desc = fmt.Sprintf("format=%d minifySyntax=%v minifyIdentifiers=%v minifyWhitespace=%v pure=%v target=%d(0 esnext,1 es2022,2 es2020,3 safari14)", c.format, c.minSyn, c.minIdent, minWS, mg.pureOpt, c.target)
		names := []string{"off", "on"}
		if mg.annotated {
			names = append(names, "ign")
		}
		for _, vn := range names {
			o := api.BuildOptions{
				AbsWorkingDir:     c.dir,
				EntryPoints:       []string{"m0.js"},
				Bundle:            true,
				Write:             false,
				Outfile:           "out.js",
				Format:            c.format,
				MinifySyntax:      c.minSyn,
				MinifyIdentifiers: c.minIdent,
				MinifyWhitespace:  minWS,
				LogLevel:          api.LogLevelSilent,
			}
			if c.global {
				o.GlobalName = "G"
			}
			switch c.target {
			case 1:
				o.Target = api.ES2022
			case 2:
				o.Target = api.ES2020
			case 3:
				o.Engines = []api.Engine{{Name: api.EngineSafari, Version: "14"}}
			}
			if mg.pureOpt {
				o.Pure = []string{"$pp"}
			}
			switch vn {
			case "off":
				o.TreeShaking = api.TreeShakingFalse
			case "on":
				if r.Bool() {
					o.TreeShaking = api.TreeShakingTrue
				}
			case "ign":
				o.TreeShaking = api.TreeShakingTrue
				o.IgnoreAnnotations = true
			}
			res := api.Build(o)
			v := &variant{name: vn, script: -1, module: -1}
			c.vars = append(c.vars, v)
			if len(res.Errors) > 0 {
				v.err = res.Errors[0].Text
				continue
			}
			if len(res.OutputFiles) != 1 {
				v.err = fmt.Sprintf("%d output files", len(res.OutputFiles))
				continue
			}
			v.text = string(res.OutputFiles[0].Contents)
			switch {
			case c.format == api.FormatESModule && c.exports:
				p := filepath.Join(c.dir, "bundle-"+vn+".mjs")
				if err := os.WriteFile(p, []byte(v.text), 0o644); err != nil {
					panic(err)
				}
				v.modulePath = p
			case c.format == api.FormatCommonJS:
				v.scriptText = exerciseScript + "var module = { exports: {} }, exports = module.exports;\n" + v.text + "\n;$exercise(module.exports);\n"
			case c.global:
				v.scriptText = exerciseScript + v.text + "\n;$exercise(G);\n"
			default:
				v.scriptText = exerciseScript + v.text
			}
		}
		cases = append(cases, c)
	}
	run := func(cs []*glueCase) ([]NodeResult, []NodeResult, error) {
		// collect the scripts / modules of the given cases (indices are re-assigned)
		var sc, mo []string
		for _, c := range cs {
			c.native = len(mo)
			mo = append(mo, filepath.Join(c.dir, "m0.js"))
			for _, v := range c.vars {
				if v.scriptText != "" {
					v.script = len(sc)
					sc = append(sc, v.scriptText)
				}
				if v.modulePath != "" {
					v.module = len(mo)
					mo = append(mo, v.modulePath)
				}
			}
		}
		sres, err := RunNodeScripts(sc, 8000)
		if err != nil {
			return nil, nil, err
		}
		mres, err := runModules(root, mo)
		return sres, mres, err
	}
	sres, mres, err := run(cases)
	if err != nil {
		st.Fail("node-oracle-unavailable", err.Error(), nil, nil)
		return
	}
	type verdict struct {
		what        string
		input       interface{}
		got, expect interface{}
	}
	inconclusive := func(r NodeResult) bool {
		e := r.Err()
		return e == "TIMEOUT" || strings.HasPrefix(e, "HARNESS:")
	}
	judge := func(c *glueCase, sres, mres []NodeResult, first bool) []verdict {
		var out []verdict
		fail := func(what string, input, got, expect interface{}) {
			out = append(out, verdict{what, input, got, expect})
		}
		native := mres[c.native]
		input := func(v *variant) map[string]interface{} {
			m := map[string]interface{}{"modules": c.mg.Text(), "options": c.desc}
			if v != nil {
				m["variant"] = v.name
				m["bundle"] = v.text
			}
			return m
		}
		noNative := false
		if native.Err() == "SyntaxError" {
			if !c.mg.needsLowering {
				if first {
					st.Histogram["generator-invalid-program"]++
					st.Extra["invalid-example"] = c.mg.Text() + native.Thrown
				}
				return nil
			}
			noNative = true // auto-accessors / decorators: Node cannot run the source, the bundles are compared with each other
		}
		if first {
			for k, cnt := range c.mg.kinds {
				st.Histogram["glue:"+k] += cnt
			}
			st.Note("glue", c.mg.Text()+c.desc, len(native.Log) >= 2)
		}
		results := map[string]NodeResult{}
		for _, v := range c.vars {
			if v.err != "" {
				fail("valid-graph-rejected", input(v), v.err, "a bundle")
				continue
			}
			var res NodeResult
			if v.script >= 0 {
				res = sres[v.script]
			} else {
				res = mres[v.module]
			}
			if inconclusive(res) || inconclusive(native) {
				st.Histogram["node-timeout-inconclusive"]++
				return out
			}
			results[v.name] = res
			if !c.minIdent && !c.minSyn && v.name != "off" {
				if bad := danglingNames(c.mg.FileMap(), v.text); len(bad) > 0 {
					fail("dangling-reference", input(v), bad, "every referenced input binding is still declared in the tree-shaken output")
				}
			}
		}
		off, okOff := results["off"]
		on, okOn := results["on"]
		ign, okIgn := results["ign"]
		if !okOff || !okOn {
			return out
		}
		// reference behaviour: native execution of the modules. Graphs with a
		// CommonJS member are compared module by module (esbuild evaluates wrapped
		// CommonJS modules lazily, a documented ordering difference that belongs
		// to C02, not to tree shaking).
		hasCJS, hasJSON := false, false
		for _, f := range c.mg.files {
			hasCJS = hasCJS || f.cjs
			hasJSON = hasJSON || f.json
		}
		if hasCJS {
			if on.Err() != "" || off.Err() != "" || (okIgn && ign.Err() != "") {
				// an exception that aborts the bundle + lazily evaluated CommonJS members:
				// which modules ran before the abort depends on the (documented) ordering
				st.Histogram["abort-with-commonjs-inconclusive"]++
				return out
			}
			native, off, on, ign = byModule(native), byModule(off), byModule(on), byModule(ign)
		}
		if hasJSON || noNative {
			// node needs an import attribute for JSON modules: no native reference
			if !okIgn {
				native = off
			} else {
				native = ign
			}
		}
		if !c.mg.annotated {
			// no annotations: tree-shaken bundle == unshaken bundle == native execution
			if !on.Same(off) {
				fail("treeshaking-changes-behaviour", input(c.vars[1]), on.String(), off.String())
			} else if !on.Same(native) {
				fail("bundle-differs-from-native", input(c.vars[1]), on.String(), native.String())
			}
			return out
		}
		ref := native
		if okIgn && !ign.Same(native) {
			// with annotations ignored everything must be exact
			fail("treeshaking-changes-behaviour", input(c.vars[2]), ign.String(), native.String())
		}
		for _, pair := range []struct {
			v   *variant
			res NodeResult
		}{{c.vars[1], on}, {c.vars[0], off}} {
			// only annotated modules/calls may additionally disappear, nothing may be added or reordered
			if pair.res.Err() != ref.Err() || !sameLines(filterLog(c.mg, pair.res.Log), filterLog(c.mg, ref.Log)) || !isSubsequence(pair.res.Log, ref.Log) {
				fail("unannotated-code-disappeared", input(pair.v), pair.res.String(), ref.String())
			}
		}
		if first && len(st.Samples) < 6 {
			st.Sample(map[string]interface{}{"glue_options": c.desc, "modules": len(c.mg.files), "native_log_len": len(native.Log), "annotated": c.mg.annotated})
		}
		return out
	}
	// first pass; every failing case is executed a second time and reported
	// only if it fails again (the oracle must not be noise)
	var suspects []*glueCase
	for _, c := range cases {
		if len(judge(c, sres, mres, true)) > 0 {
			suspects = append(suspects, c)
		}
	}
	if len(suspects) == 0 {
		return
	}
	st.Histogram["glue-rerun"] += len(suspects)
	sres2, mres2, err := run(suspects)
	if err != nil {
		st.Fail("node-oracle-unavailable", err.Error(), nil, nil)
		return
	}
	for _, c := range suspects {
		for _, v := range judge(c, sres2, mres2, false) {
			st.Fail(v.what, v.input, v.got, v.expect)
		}
	}
}

// Known finding C04-A (recorded in known_findings.d/C04.json): with
// --tree-shaking=false the entry point is a single part, so its require of a
// CommonJS module is emitted after the hoisted ES module imports: the bundle
// built WITHOUT tree shaking evaluates "./b.js" before "./a.cjs", while native
// execution and the tree-shaken bundle evaluate a.cjs first. The random stream
// compares graphs with CommonJS members module by module for this reason.
func knownScenarioCJSOrder(root string, st *Stats) {
	dir := filepath.Join(root, "known-cjs-order")
	files := map[string]string{
		"m0.js": "import \"./a.cjs\";\nimport \"./b.js\";\n$p(\"m0\");\n",
		"a.cjs": "$p(\"a (cjs)\");\n",
		"b.js":  "$p(\"b (esm)\");\n",
	}
	os.MkdirAll(dir, 0o755)
	for p, t := range files {
		if err := os.WriteFile(filepath.Join(dir, p), []byte(t), 0o644); err != nil {
			panic(err)
		}
	}
	var progs []string
	for _, ts := range []api.TreeShaking{api.TreeShakingTrue, api.TreeShakingFalse} {
		res := api.Build(api.BuildOptions{AbsWorkingDir: dir, EntryPoints: []string{"m0.js"}, Bundle: true, Write: false, Outfile: "out.js",
			Format: api.FormatESModule, TreeShaking: ts, LogLevel: api.LogLevelSilent})
		if len(res.Errors) > 0 || len(res.OutputFiles) != 1 {
			return
		}
		progs = append(progs, string(res.OutputFiles[0].Contents))
	}
	out, err := RunNodeScripts(progs, 8000)
	if err != nil || len(out) != 2 {
		return
	}
	st.Histogram["known-scenario-cjs-order"]++
	if !out[0].Same(out[1]) && out[0].Err() == "" && out[1].Err() == "" {
		st.Fail("known-ts-off-reorders-cjs-import", map[string]interface{}{"scenario": "known-ts-off-reorders-cjs-import", "files": files,
			"options": "bundle format=esm, treeShaking true vs false"}, out[1].String(), out[0].String())
	}
}

// Fixed scenarios: tree shaking on vs off through api.Build, executed in Node.
//
//	nested-var-use-linked (finding C04-B, fixed in /repo by ae718d6; must pass):
//	  a use of a top-level var through a nested redeclaration `{ var n; use(n) }`
//	  is recorded under the unmerged nested symbol; the linker now follows the
//	  symbol links before the TopLevelSymbolToParts lookup, so the top-level
//	  `var n = 1` stays. Before the fix the bundle printed undefined.
//	nested-var-redeclare-assignment (regression of fix 0bc1420): the nested
//	  declaration must survive --minify-syntax block flattening.
func fixedTreeShakingScenarios(root string, st *Stats) {
	type scen struct {
		what  string
		src   string
		minif bool
		known bool
		trans bool // api.Transform (format conversion without bundling) instead of api.Build
	}
	scens := []scen{
		{"nested-var-use-linked", "var n = 1;\n{ var n; $p(\"use\", n); }\n", false, true, false},
		{"nested-var-use-linked", "function f() { return 1; }\nif (true) { var f; $p(\"use\", typeof f); }\n", false, true, false},
		{"nested-var-redeclare-assignment", "var x = 1;\n{ var x = \"a\"; }\n$p(\"typeof\", typeof x);\n", true, false, false},
		{"nested-var-redeclare-assignment", "var x = 1;\n{ var x = \"a\"; }\n$p(\"typeof\", typeof x);\n", true, false, true},
		{"nested-var-redeclare-assignment", "function w() {}\nif (true) { var w = [1]; }\n$p(\"typeof\", typeof w);\n", true, false, true},
		{"nested-var-use-linked", "var n = 1;\n{ var n; $p(\"use\", n); }\n", false, true, true},
		{"nested-var-redeclare-assignment", "var y = 1;\nif (true) { var y = [$p(\"init\")]; }\n$p(\"typeof\", typeof y);\n", true, false, false},
		// regression of fix 5379ad1: a call to an EMPTY function still evaluates its default arguments
		{"empty-function-default-argument", "function f(a = $p(\"default\")) {}\nf();\n$p(\"end\");\n", true, false, false},
		{"empty-function-default-argument", "const g = (a, b = $p(\"default\")) => {};\nconst unused = g(1);\n$p(\"end\");\n", true, false, false},
		{"empty-function-default-argument", "function h({ a = $p(\"default\") } = {}) {}\nh(), h(void 0);\n$p(\"end\");\n", true, false, false},
		{"empty-function-default-argument", "function k(a = $p(\"default\")) {}\nk();\n$p(\"end\");\n", false, false, false},
	}
	var progs []string
	var idx []int
	for i, sc := range scens {
		dir := filepath.Join(root, fmt.Sprintf("fixed-%d", i))
		os.MkdirAll(dir, 0o755)
		if err := os.WriteFile(filepath.Join(dir, "m0.js"), []byte(sc.src), 0o644); err != nil {
			panic(err)
		}
		for _, ts := range []api.TreeShaking{api.TreeShakingTrue, api.TreeShakingFalse} {
			if sc.trans {
				tr := api.Transform(sc.src, api.TransformOptions{Format: api.FormatIIFE, TreeShaking: ts, MinifySyntax: sc.minif, LogLevel: api.LogLevelSilent})
				if len(tr.Errors) > 0 {
					st.Fail("valid-graph-rejected", map[string]interface{}{"scenario": sc.what, "source": sc.src}, fmt.Sprint(tr.Errors), "output")
					return
				}
				progs = append(progs, string(tr.Code))
				continue
			}
			res := api.Build(api.BuildOptions{AbsWorkingDir: dir, EntryPoints: []string{"m0.js"}, Bundle: true, Write: false, Outfile: "out.js",
				Format: api.FormatIIFE, TreeShaking: ts, MinifySyntax: sc.minif, LogLevel: api.LogLevelSilent})
			if len(res.Errors) > 0 || len(res.OutputFiles) != 1 {
				st.Fail("valid-graph-rejected", map[string]interface{}{"scenario": sc.what, "source": sc.src}, fmt.Sprint(res.Errors), "a bundle")
				return
			}
			progs = append(progs, string(res.OutputFiles[0].Contents))
		}
		progs = append(progs, sc.src) // the source itself, as a script
		idx = append(idx, i)
	}
	out, err := RunNodeScripts(progs, 8000)
	if err != nil || len(out) != len(progs) {
		return
	}
	for k, i := range idx {
		sc := scens[i]
		on, off, native := out[3*k], out[3*k+1], out[3*k+2]
		st.Histogram["fixed-scenario:"+sc.what]++
		if on.Err() == "TIMEOUT" || off.Err() == "TIMEOUT" || native.Err() == "TIMEOUT" {
			continue
		}
		if !on.Same(off) || !on.Same(native) {
			st.Fail(sc.what, map[string]interface{}{"scenario": sc.what, "files": map[string]string{"m0.js": sc.src},
				"options": fmt.Sprintf("transform-only=%v format=iife minifySyntax=%v, treeShaking true vs false vs the source as a script", sc.trans, sc.minif), "bundle": progs[3*k]},
				on.String(), native.String()+" (tree shaking off: "+off.String()+")")
		}
	}
}
