package main

// Module-graph generator for C04: ES module graphs whose top-level statements
// mix pure declarations with statements whose side effects (probe calls) are
// hidden in every syntactic position the tree-shaking analysis inspects.
// Every observable action is a call $p("<file>:<n>", ...); ids starting with
// "P" belong to code a purity annotation allows to vanish.

import (
	"fmt"
	"sort"
	"strings"

	. "github.com/evanw/esbuild/verifharness/hlib"
)

type expB struct {
	name string
	kind string // const fn class let obj
}

type mfile struct {
	idx        int
	path       string
	cjs        bool
	json       bool
	pure       bool // inside the directory whose package.json says sideEffects:false
	exports    []expB
	hasDefault bool
	lines      []string
}

type mgraph struct {
	files     []*mfile
	annotated bool // sideEffects:false directory, @__PURE__, @__NO_SIDE_EFFECTS__ or pure:[...] used
	pureOpt   bool
	kinds     map[string]int

	needsLowering bool
}

type mgen struct {
	r      *Rng
	caseNo int
	probe  int
	nameN  int
	annot  bool
	kinds  map[string]int
	usedPP bool

	needsLowering bool // the graph uses syntax Node cannot run natively (auto-accessors, decorators)
}

func (g *mgen) id(f *mfile) string {
	g.probe++
	return fmt.Sprintf("\"%d:%d\"", f.idx, g.probe)
}
func (g *mgen) pid(f *mfile) string {
	g.probe++
	return fmt.Sprintf("\"P%d:%d\"", f.idx, g.probe)
}
func (g *mgen) name(f *mfile, k string) string {
	g.nameN++
	return fmt.Sprintf("b%d_%s%d", f.idx, k, g.nameN)
}
func (g *mgen) note(k string) { g.kinds[k]++ }

type scope struct {
	vals    []string // any value binding
	fns     []string // callable without arguments
	lets    []string // assignable
	objs    []string // plain objects
	classes []string
}

func (s *scope) any(r *Rng) string {
	if len(s.vals) == 0 {
		return "0"
	}
	return s.vals[r.Intn(len(s.vals))]
}

// coercion objects: an object whose conversion to a primitive is observable
func (g *mgen) cv(id string) string {
	switch g.r.Intn(3) {
	case 0:
		return "{ valueOf() { $p(" + id + "); return 1 } }"
	case 1:
		return "{ [Symbol.toPrimitive]() { $p(" + id + "); return 1 } }"
	}
	return "{ toString() { $p(" + id + "); return \"1\" } }"
}

type hiddenT struct {
	kind string
	f    func(g *mgen, id string) string
}

var iterObj = func(id string) string {
	return "{ [Symbol.iterator]() { $p(" + id + "); return [][Symbol.iterator]() } }"
}

var hiddenTable = []hiddenT{
	{"call", func(g *mgen, id string) string { return "$p(" + id + ")" }},
	{"getter", func(g *mgen, id string) string { return "({ get x() { return $p(" + id + ") } }).x" }},
	{"getter-index", func(g *mgen, id string) string { return "({ get x() { return $p(" + id + ") } })[\"x\"]" }},
	{"static-getter", func(g *mgen, id string) string { return "(class { static get x() { return $p(" + id + ") } }).x" }},
	{"computed-key-call", func(g *mgen, id string) string { return "({ [$p(" + id + ")]: 1 })" }},
	{"computed-key-tostring", func(g *mgen, id string) string {
		return "({ [{ toString() { $p(" + id + "); return \"k\" } }]: 1 })"
	}},
	{"computed-method", func(g *mgen, id string) string { return "({ [$p(" + id + ")]() {} })" }},
	{"computed-getter", func(g *mgen, id string) string { return "({ get [$p(" + id + ")]() { return 1 } })" }},
	{"array-spread-call", func(g *mgen, id string) string { return "[...$p(" + id + ", [1, 2])]" }},
	{"array-spread-iter", func(g *mgen, id string) string { return "[..." + iterObj(id) + "]" }},
	{"array-spread-nested", func(g *mgen, id string) string { return "[...[...$p(" + id + ", [1])]]" }},
	{"object-spread-getter", func(g *mgen, id string) string { return "({ ...{ get a() { return $p(" + id + ") } } })" }},
	{"object-spread-call", func(g *mgen, id string) string { return "({ ...$p(" + id + ", {}) })" }},
	{"call-spread", func(g *mgen, id string) string { return "Math.max(...$p(" + id + ", [1]))" }},
	{"template-call", func(g *mgen, id string) string { return "`a${$p(" + id + ")}b`" }},
	{"template-tostring", func(g *mgen, id string) string {
		return "`${{ toString() { $p(" + id + "); return \"s\" } }}`"
	}},
	{"template-array", func(g *mgen, id string) string {
		return "`${[{ toString() { $p(" + id + "); return \"s\" } }]}`"
	}},
	{"tagged", func(g *mgen, id string) string { return "(s => $p(" + id + ", s.length))`x`" }},
	{"tagged-member", func(g *mgen, id string) string { return "({ t(s) { return $p(" + id + ") } }).t`x`" }},
	{"unary-coerce", func(g *mgen, id string) string {
		return g.r.Pick([]string{"+", "-", "~"}) + "(" + g.cv(id) + ")"
	}},
	{"binary-coerce-left", func(g *mgen, id string) string {
		return "(" + g.cv(id) + ") " + g.r.Pick([]string{"+", "-", "*", "/", "%", "**", "<", ">", "<=", ">=", "==", "!=", "|", "&", "^", "<<", ">>", ">>>"}) + " " + g.r.Pick([]string{"1", "\"a\"", "null", "true"})
	}},
	{"binary-coerce-right", func(g *mgen, id string) string {
		return g.r.Pick([]string{"1", "\"a\"", "\"\"", "null", "true"}) + " " + g.r.Pick([]string{"+", "-", "*", "<", ">", "<=", ">=", "==", "!=", "|"}) + " (" + g.cv(id) + ")"
	}},
	{"strict-eq-call", func(g *mgen, id string) string { return "$p(" + id + ") === 1" }},
	{"in-proxy", func(g *mgen, id string) string {
		return "\"a\" in new Proxy({}, { has() { $p(" + id + "); return true } })"
	}},
	{"in-key-coerce", func(g *mgen, id string) string { return "(" + g.cv(id) + ") in {}" }},
	{"instanceof-hasinstance", func(g *mgen, id string) string {
		return "({}) instanceof ({ [Symbol.hasInstance]() { $p(" + id + "); return false } })"
	}},
	{"proxy-get", func(g *mgen, id string) string { return "new Proxy({}, { get() { return $p(" + id + ") } }).x" }},
	{"optional-chain-call", func(g *mgen, id string) string { return "$p(" + id + ")?.x" }},
	{"optional-chain-getter", func(g *mgen, id string) string { return "({ get x() { return $p(" + id + ") } })?.x" }},
	{"optional-chain-index", func(g *mgen, id string) string { return "({})?.[$p(" + id + ")]" }},
	{"optional-call", func(g *mgen, id string) string { return "(() => $p(" + id + "))?.()" }},
	{"new-class", func(g *mgen, id string) string { return "new (class { constructor() { $p(" + id + ") } })()" }},
	{"new-arg", func(g *mgen, id string) string { return "new Object($p(" + id + "))" }},
	{"new-set-iter", func(g *mgen, id string) string { return "new Set(" + iterObj(id) + ")" }},
	{"new-set-array", func(g *mgen, id string) string { return "new Set([$p(" + id + ")])" }},
	{"new-set-spread", func(g *mgen, id string) string { return "new Set([..." + iterObj(id) + "])" }},
	{"new-map-entry", func(g *mgen, id string) string { return "new Map([[1, $p(" + id + ")]])" }},
	{"new-map-getter-entry", func(g *mgen, id string) string {
		return "new Map([{ get 0() { return $p(" + id + ") }, 1: 2 }])"
	}},
	{"new-weakset", func(g *mgen, id string) string { return "new WeakSet([$p(" + id + ", {})])" }},
	{"new-date-coerce", func(g *mgen, id string) string { return "new Date({ valueOf() { $p(" + id + "); return 0 } })" }},
	{"new-date-call", func(g *mgen, id string) string { return "new Date($p(" + id + ", 0))" }},
	{"object-create-call", func(g *mgen, id string) string { return "Object.create($p(" + id + ", Object.prototype))" }},
	{"object-create-second", func(g *mgen, id string) string {
		return "Object.create({}, { get a() { return $p(" + id + ", {}) } })"
	}},
	{"symbol-for-coerce", func(g *mgen, id string) string {
		return "Symbol.for({ toString() { $p(" + id + "); return \"s\" } })"
	}},
	{"class-static-block", func(g *mgen, id string) string { return "class { static { $p(" + id + ") } }" }},
	{"class-static-block-decl", func(g *mgen, id string) string {
		return "class { static { const q = " + g.cvExpr(id) + " } }"
	}},
	{"class-static-field", func(g *mgen, id string) string { return "class { static f = $p(" + id + ") }" }},
	{"class-static-field-coerce", func(g *mgen, id string) string { return "class { static f = " + g.cvExpr(id) + " }" }},
	{"class-static-computed", func(g *mgen, id string) string { return "class { static [$p(" + id + ")] = 1 }" }},
	{"class-computed-method", func(g *mgen, id string) string { return "class { [$p(" + id + ")]() {} }" }},
	{"class-computed-field", func(g *mgen, id string) string { return "class { [$p(" + id + ")] = 1 }" }},
	{"class-computed-getter", func(g *mgen, id string) string { return "class { static get [$p(" + id + ")]() { return 1 } }" }},
	{"class-computed-coerce", func(g *mgen, id string) string { return "class { [" + g.cv(id) + "]() {} }" }},
	{"class-extends-comma", func(g *mgen, id string) string { return "class extends ($p(" + id + "), Object) {}" }},
	{"class-extends-call", func(g *mgen, id string) string { return "class extends $p(" + id + ", Object) {}" }},
	{"class-extends-getter", func(g *mgen, id string) string {
		return "class extends ({ get B() { $p(" + id + "); return Object } }).B {}"
	}},
	{"class-static-private", func(g *mgen, id string) string { return "class { static #x = $p(" + id + ") }" }},
	{"class-static-method-field", func(g *mgen, id string) string {
		return "class { static m() { return $p(" + id + ") } static f = this.m() }"
	}},
	{"default-param-iife", func(g *mgen, id string) string { return "((a = $p(" + id + ")) => a)()" }},
	{"destructure-default-iife", func(g *mgen, id string) string { return "(({ b = $p(" + id + ") } = {}) => b)()" }},
	{"comma", func(g *mgen, id string) string { return "(0, $p(" + id + "))" }},
	{"cond-yes", func(g *mgen, id string) string { return "(1 ? $p(" + id + ") : 0)" }},
	{"cond-no", func(g *mgen, id string) string { return "(0 ? 0 : $p(" + id + "))" }},
	{"cond-test", func(g *mgen, id string) string { return "($p(" + id + ") ? 1 : 0)" }},
	{"logical-and", func(g *mgen, id string) string { return "(true && $p(" + id + "))" }},
	{"logical-or", func(g *mgen, id string) string { return "(false || $p(" + id + "))" }},
	{"nullish", func(g *mgen, id string) string { return "(null ?? $p(" + id + "))" }},
	{"void", func(g *mgen, id string) string { return "void $p(" + id + ")" }},
	{"not", func(g *mgen, id string) string { return "!$p(" + id + ")" }},
	{"typeof-call", func(g *mgen, id string) string { return "typeof $p(" + id + ")" }},
	{"typeof-getter", func(g *mgen, id string) string { return "typeof ({ get x() { return $p(" + id + ") } }).x" }},
	{"delete-proxy", func(g *mgen, id string) string {
		return "delete new Proxy({}, { deleteProperty() { $p(" + id + "); return true } }).x"
	}},
	{"array-item", func(g *mgen, id string) string { return "[1, $p(" + id + ")]" }},
	{"object-value", func(g *mgen, id string) string { return "({ a: $p(" + id + ") })" }},
	{"nested-literal", func(g *mgen, id string) string { return "[[{ a: [, $p(" + id + ")] }]]" }},
	{"setter", func(g *mgen, id string) string { return "({ set x(v) { $p(" + id + ", v) } }).x = 1" }},
	{"regexp-symbol", func(g *mgen, id string) string {
		return "\"a\".replace({ [Symbol.replace]() { return $p(" + id + ") } }, \"\")"
	}},
	{"loose-eq-mixed", func(g *mgen, id string) string { return "(" + g.cv(id) + ") == \"1\"" }},
	{"lt-mixed", func(g *mgen, id string) string { return "1 < (" + g.cv(id) + ")" }},
	{"neg-object", func(g *mgen, id string) string { return "-(" + g.cv(id) + ")" }},
	{"string-concat", func(g *mgen, id string) string { return "\"\" + (" + g.cv(id) + ")" }},
	{"if-unknown-branch", func(g *mgen, id string) string {
		return "(typeof Object !== \"undefined\" ? $p(" + id + ") : 0)"
	}},
}

func (g *mgen) cvExpr(id string) string {
	return g.r.Pick([]string{"+", "1 + ", "1 < ", "-"}) + "(" + g.cv(id) + ")"
}

// expressions without any effect (must be removable, or at least harmless)
var pureExprs = []string{
	"1", "\"s\"", "null", "void 0", "-1n", "!0", "typeof zzUndefined1", "1 === 2", "1 < 2", "\"a\" < \"b\"", "1n < 2n",
	"`t${1}${\"x\"}`", "Math.PI", "new Map()", "new Set([1, 2])", "new Date(0)", "Object.create(null)", "Symbol.for(\"x\")",
	"typeof zzUndefined2 !== \"undefined\" && zzUndefined2", "typeof zzUndefined3 === \"undefined\" || zzUndefined3",
	"typeof zzUndefined4 < \"u\" && zzUndefined4", "\"u\" > typeof zzUndefined5 ? zzUndefined5 : 0",
	"typeof zzUndefined6 != \"undefined\" ? zzUndefined6 : null", "/re/g", "[1, [2, {}]]", "({ a: 1, \"b\": [2], 3: null })",
	"(() => $p(\"never\"))", "function () { return $p(\"never\") }", "class { m() { $p(\"never\") } static s() {} }",
	"[...[1, 2]]", "({ [\"k\"]: 1, [2]: 3 })", "(1, 2)", "null ?? 1", "!1 && 2", "1 == 1", "\"a\" != \"b\"", "new WeakMap()", "new Map([[1, 2]])",
	"Object.keys", "Array.isArray", "JSON.stringify", "[, 1, , 2]", "void 0 === null",
}

// statements that are reached only when a typeof guard is wrong: must throw ReferenceError
var guardThrows = []string{
	"typeof zzU7 === \"undefined\" && zzU7", "typeof zzU8 !== \"undefined\" || zzU8", "typeof zzU9 < \"u\" || zzU9",
	"typeof zzU10 > \"u\" && zzU10", "\"u\" < typeof zzU11 && zzU11", "typeof zzU12 !== \"undefined\" ? 1 : zzU12",
	"typeof zzU13 == \"undefined\" ? zzU13 : 1", "typeof Object !== \"undefined\" && zzU14", "typeof zzU15 === \"object\" || zzU15",
	"typeof zzU16 !== \"object\" && zzU16", "zzU17", "[zzU18]", "({ a: zzU19 })", "`${zzU20}`", "zzU21 === 1", "!zzU22", "void zzU23",
	"typeof zzU24 <= \"u\" || zzU24", "typeof zzU25 >= \"u\" && zzU25", "\"undefined\" === typeof zzU26 && zzU26",
	"typeof zzU27 !== \"undefined\" && zzU28", "(typeof zzU29, zzU29)", "typeof (0, zzU30)", "typeof zzU31.x",
	// the guard talks about a DIFFERENT identifier than the one that is read
	"typeof Object !== \"undefined\" && zzV1", "typeof Object < \"u\" && zzV2", "typeof Object === \"function\" && zzV3",
	"typeof Object === \"undefined\" || zzV4", "typeof Object !== \"undefined\" ? zzV5 : 0", "\"u\" > typeof Object && zzV6",
	"typeof Object == \"undefined\" ? 0 : zzV7", "typeof Array != \"undefined\" && zzV8", "typeof Object >= \"u\" || zzV9",
	"typeof zzV10 === \"undefined\" && zzV11", "typeof Object !== \"undefined\" && typeof Array !== \"undefined\" && zzV12",
}

func (g *mgen) hidden(f *mfile) string {
	h := hiddenTable[g.r.Intn(len(hiddenTable))]
	g.note("hide:" + h.kind)
	return h.f(g, g.id(f))
}

// hidden expression in statement position
func (g *mgen) hiddenS(f *mfile) string { return paren(g.hidden(f)) }

func (g *mgen) pureExpr(sc *scope) string {
	if len(sc.vals) > 0 && g.r.Chance(35) {
		v := sc.any(g.r)
		switch g.r.Intn(5) {
		case 0:
			return v
		case 1:
			return "[" + v + ", 1]"
		case 2:
			return "{ k: " + v + " }"
		case 3:
			return "() => " + v
		default:
			return v + " === 1"
		}
	}
	return pureExprs[g.r.Intn(len(pureExprs))]
}

func paren(e string) string {
	if strings.HasPrefix(e, "{") || strings.HasPrefix(e, "function") || strings.HasPrefix(e, "class") {
		return "(" + e + ")"
	}
	return e
}

// one or more top-level statements of file f
func (g *mgen) stmt(f *mfile, sc *scope, allowExport bool) {
	r := g.r
	add := func(s string) { f.lines = append(f.lines, s) }
	exp := func(n, kind string) string {
		if allowExport && r.Chance(40) {
			f.exports = append(f.exports, expB{n, kind})
			return "export "
		}
		return ""
	}
	switch k := r.Intn(100); {
	case k < 22: // pure declarations
		switch r.Intn(7) {
		case 0:
			n := g.name(f, "c")
			add(exp(n, "const") + "const " + n + " = " + paren(g.pureExpr(sc)) + ";")
			sc.vals = append(sc.vals, n)
			g.note("pure:const")
		case 1:
			n := g.name(f, "fn")
			if r.Chance(35) {
				// hoisted function used BEFORE its declaration (forward dependency edge);
				// its body refers to nothing else, so there is no TDZ hazard
				call := "$p(" + g.id(f) + ", " + n + "(1));"
				pos := r.Intn(len(f.lines) + 1)
				f.lines = append(f.lines[:pos], append([]string{call}, f.lines[pos:]...)...)
				add(exp(n, "fn") + "function " + n + "(x) { return $p(" + g.id(f) + ", x); }")
				g.note("pure:function-forward-use")
			} else {
				add(exp(n, "fn") + "function " + n + "(x) { return $p(" + g.id(f) + ", x, " + sc.any(r) + "); }")
				g.note("pure:function")
			}
			sc.vals = append(sc.vals, n)
			sc.fns = append(sc.fns, n)
		case 2:
			n := g.name(f, "k")
			ext := ""
			if len(sc.classes) > 0 && r.Chance(40) {
				ext = " extends " + sc.classes[r.Intn(len(sc.classes))]
			}
			add(exp(n, "class") + "class " + n + ext + " { m() { return $p(" + g.id(f) + "); } static s = 1; f = " + sc.any(r) + "; static [\"lit\"]() {} }")
			sc.vals = append(sc.vals, n)
			sc.classes = append(sc.classes, n)
			g.note("pure:class")
		case 3:
			n := g.name(f, "l")
			add(exp(n, "let") + "let " + n + " = " + paren(g.pureExpr(sc)) + ";")
			sc.vals = append(sc.vals, n)
			if !f.pure {
				sc.lets = append(sc.lets, n)
			}
			g.note("pure:let")
		case 4:
			n := g.name(f, "o")
			add(exp(n, "obj") + "var " + n + " = { a: " + sc.any(r) + ", m() { return $p(" + g.id(f) + "); }, get g() { return $p(" + g.id(f) + "); } };")
			sc.vals = append(sc.vals, n)
			sc.objs = append(sc.objs, n)
			g.note("pure:object")
		case 5:
			n := g.name(f, "a")
			add(exp(n, "fn") + "const " + n + " = (x = $p(" + g.id(f) + ")) => [x, " + sc.any(r) + "];")
			sc.vals = append(sc.vals, n)
			sc.fns = append(sc.fns, n)
			g.note("pure:arrow-default-param")
		default:
			n1, n2 := g.name(f, "d"), g.name(f, "d")
			add("const [" + n1 + ", " + n2 + " = " + paren(g.pureExpr(sc)) + "] = [" + paren(g.pureExpr(sc)) + "];")
			sc.vals = append(sc.vals, n1, n2)
			g.note("pure:array-destructure")
		}
	case k >= 28 && k < 30: // EMPTY function whose default parameters have effects: a call to it is not removable (5379ad1)
		n := g.name(f, "fn")
		form := r.Intn(5)
		switch form {
		case 0:
			add(exp(n, "fn") + "function " + n + "(a = " + g.hidden(f) + ") {}")
		case 1:
			add(exp(n, "fn") + "function " + n + "(a, b = " + g.hidden(f) + ", c = " + g.hidden(f) + ") {}")
		case 2:
			add("const " + n + " = (a = " + g.hidden(f) + ") => {};")
		case 3:
			add("const " + n + " = function (a = " + g.hidden(f) + ") {};")
		default:
			add(exp(n, "fn") + "function " + n + "({ a = " + g.hidden(f) + " } = {}, [b = " + g.hidden(f) + "] = []) {}")
		}
		// unused calls in every position the minifier / tree shaking inspects
		for q := r.Range(1, 2); q > 0; q-- {
			switch r.Intn(6) {
			case 0:
				add(n + "();")
			case 1:
				add(n + "(undefined);")
			case 2:
				add(r.Pick([]string{"const", "let", "var"}) + " " + g.name(f, "h") + " = " + n + "();")
			case 3:
				add("void " + n + "(), 0;")
			case 4:
				add(n + "(void 0, undefined);")
			default:
				add("[" + n + "()];")
			}
		}
		sc.vals = append(sc.vals, n)
		g.note("wrap:empty-fn-effectful-default")
	case k < 30: // default parameter / pure function with hidden default, maybe called
		n := g.name(f, "fn")
		add(exp(n, "fn") + "function " + n + "(a = " + g.hidden(f) + ", { b = " + g.hidden(f) + " } = {}) { return [a, b]; }")
		sc.vals = append(sc.vals, n)
		sc.fns = append(sc.fns, n)
		g.note("wrap:default-param")
	case k < 40: // expression statement
		add(g.hiddenS(f) + ";")
		g.note("wrap:expr-stmt")
	case k < 58: // unused / used declaration with hidden effect in the initializer
		n := g.name(f, "h")
		kw := r.Pick([]string{"const", "let", "var"})
		add(exp(n, "const") + kw + " " + n + " = " + g.hidden(f) + ";")
		if r.Chance(30) {
			sc.vals = append(sc.vals, n)
		}
		g.note("wrap:decl-" + kw)
	case k < 64 && r.Chance(60): // destructuring with impure defaults against every array-literal shape
		shapes := []string{"", "undefined", "void 0", "", "null", "7", sc.any(r), "...[]", "...[undefined]", "...[5]", "\"\"", "0"}
		nb := r.Range(1, 3)
		wrap := r.Intn(20) // 0-4 try, 5-7 class static block, else bare top-level declaration
		if r.Chance(65) {
			// elements whose static type is unknown but whose run-time value is
			// undefined: the default value DOES run. Declared beforehand (own
			// removable parts): a never-assigned var, a let holding undefined.
			u1, u2, cnd := g.name(f, "u"), g.name(f, "u"), g.name(f, "u")
			add("var " + u1 + ";")
			add("let " + u2 + " = " + r.Pick([]string{"undefined", "void 0"}) + ";")
			add("var " + cnd + ";")
			und := []string{u1, u2, cnd + " ? 1 : undefined", u1 + " || undefined", "(0, " + u2 + ")", "null ?? " + u1, "!0 && " + u2,
				"void 0 || undefined", "false || " + u1, u2 + " ?? " + u1, "typeof " + cnd + " === \"undefined\" ? " + u1 + " : 1",
				cnd + " === 1 ? 1 : void 0", u1 + " && 1", "[" + u1 + "][0], " + u2}
			shapes = append(und[:len(und)-1], und[:len(und)-1]...)
			shapes = append(shapes, "undefined", "7", "")
		}
		var pats, lits []string
		for i := 0; i < nb; i++ {
			n := g.name(f, "h")
			switch c := r.Intn(5); {
			case c == 0 && wrap < 8: // a throwing default (only where it is caught: a top-level throw would abort the module)
				pats = append(pats, n+" = (() => { throw $p("+g.id(f)+", new RangeError(\"d\")); })()")
			case c == 1:
				pats = append(pats, n)
			default:
				pats = append(pats, n+" = "+g.hidden(f))
			}
		}
		for i := r.Intn(nb + 2); i > 0; i-- {
			lits = append(lits, shapes[r.Intn(len(shapes))])
		}
		kw := r.Pick([]string{"const", "let", "var"})
		decl := kw + " [" + strings.Join(pats, ", ") + "] = [" + strings.Join(lits, ", ") + "];"
		switch {
		case wrap < 5:
			add("try { " + decl + " } catch (e) { $p(" + g.id(f) + ", e && e.name); }")
		case wrap < 8:
			add("class " + g.name(f, "k") + " { static { try { " + decl + " } catch (e) { $p(" + g.id(f) + ", e && e.name); } } }")
		default:
			if allowExport && r.Chance(40) {
				decl = "export " + decl // unused (or used) exports of an imported module
			}
			add(decl)
		}
		g.note("wrap:destructure-shapes")
	case k < 64: // destructuring
		n := g.name(f, "h")
		switch r.Intn(5) {
		case 0:
			add("const { a: " + n + " = " + g.hidden(f) + " } = {};")
		case 1:
			add("const [" + n + " = " + g.hidden(f) + "] = [];")
		case 2:
			add("const [" + n + "] = [" + g.hidden(f) + "];")
		case 3:
			add("const { [" + g.hidden(f) + "]: " + n + " } = {};")
		default:
			add("const [" + n + "] = " + iterObj(g.id(f)) + ";")
		}
		g.note("wrap:destructure")
	case k >= 72 && k < 74 && !f.pure: // auto-accessors: static / instance, private, computed key, decorated (need lowering: no native run)
		n := g.name(f, "k")
		var body string
		switch r.Intn(8) {
		case 0:
			body = "class " + n + " { static accessor x = " + g.hidden(f) + "; }"
		case 1:
			body = "class " + n + " { accessor x = " + g.hidden(f) + "; }" // instance: no effect until constructed
		case 2:
			body = "class " + n + " { static accessor #p = " + g.hidden(f) + "; }"
		case 3:
			body = "class " + n + " { static accessor [" + g.hidden(f) + "] = 1; }"
		case 4:
			body = "class " + n + " { @(" + g.hidden(f) + ", (v) => v) static accessor y = 1; }"
		case 5:
			body = "class " + n + " { static accessor a = 1; static accessor b = " + g.hidden(f) + "; static c = 2; }"
		case 6:
			body = "class " + n + " { accessor [" + g.hidden(f) + "] = 1; static accessor z = [1, 2]; }"
		default:
			body = "const " + g.name(f, "h") + " = class { static accessor x = " + g.hidden(f) + "; };"
		}
		add(body)
		if strings.HasPrefix(body, "class ") && r.Chance(30) {
			sc.vals = append(sc.vals, n)
			sc.classes = append(sc.classes, n)
		}
		g.needsLowering = true
		g.note("wrap:auto-accessor")
	case k < 74: // class declarations
		n := g.name(f, "k")
		id := g.id(f)
		var body string
		switch r.Intn(9) {
		case 0:
			body = "class " + n + " { static f = " + g.hidden(f) + "; }"
		case 1:
			body = "class " + n + " { static { " + g.hiddenS(f) + "; } }"
		case 2:
			body = "class " + n + " { [" + g.hidden(f) + "]() {} }"
		case 3:
			body = "class " + n + " extends (" + g.hidden(f) + ", Object) {}"
		case 4:
			body = "class " + n + " { f = " + g.hidden(f) + "; }" // instance field: no effect until constructed
		case 5:
			body = "class " + n + " { static [" + g.hidden(f) + "] = 1; }"
		case 6:
			body = "class " + n + " { static { try { " + g.hiddenS(f) + "; } catch {} } }"
		case 7:
			body = "class " + n + " { static #p = " + g.hidden(f) + "; static g() { return " + n + ".#p; } }"
		default:
			body = "class " + n + " { static a = 1; static b = $p(" + id + ", this.a); }"
		}
		add(exp(n, "class") + body)
		if r.Chance(30) {
			sc.vals = append(sc.vals, n)
			sc.classes = append(sc.classes, n)
		}
		g.note("wrap:class-decl")
	case k >= 76 && k < 80: // a typeof guard that does NOT protect the read: must throw, must be kept
		gt := guardThrows[r.Intn(len(guardThrows))]
		switch r.Intn(3) {
		case 0:
			add("try { " + gt + "; } catch (e) { $p(" + g.id(f) + ", e && e.name); }")
		case 1:
			add("try { const q = " + gt + "; } catch (e) { $p(" + g.id(f) + ", e && e.name); }")
		default:
			add("try { const q = [" + gt + "]; } catch (e) { $p(" + g.id(f) + ", e && e.name); }")
		}
		g.note("guard-throws")
	case k < 76: // try / block / control flow
		switch r.Intn(6) {
		case 0:
			add("try { " + g.hiddenS(f) + "; } catch (e) { $p(" + g.id(f) + ", e && e.name); }")
		case 1:
			add("try { " + guardThrows[r.Intn(len(guardThrows))] + "; } catch (e) { $p(" + g.id(f) + ", e && e.name); }")
			g.note("guard-throws")
		case 2:
			add("try { const q = " + g.hidden(f) + "; } finally { }")
		case 3:
			add("try { } finally { " + g.hiddenS(f) + "; }")
		case 4:
			add("if (" + g.hidden(f) + ") { }")
		default:
			add("{ " + g.hiddenS(f) + "; }")
		}
		g.note("wrap:control")
	case k < 86: // assignments to earlier bindings
		if len(sc.lets) > 0 && r.Bool() {
			add(sc.lets[r.Intn(len(sc.lets))] + " = " + g.hidden(f) + ";")
			g.note("wrap:assign-let")
		} else if len(sc.objs) > 0 {
			o := sc.objs[r.Intn(len(sc.objs))]
			if r.Bool() {
				add(o + ".p = " + g.hidden(f) + ";")
			} else {
				add(o + "[(" + g.hidden(f) + ", \"k\")] = 1;")
			}
			g.note("wrap:assign-prop")
		} else {
			add(g.hiddenS(f) + ", 0;")
		}
	case k >= 86 && k < 88: // coercion of a BOUND object through operators whose purity depends on KnownPrimitiveType
		o := g.name(f, "t")
		add("const " + o + " = { toString() { $p(" + g.id(f) + "); return \"s\"; }, valueOf() { $p(" + g.id(f) + "); return 1; } };")
		sc.vals = append(sc.vals, o)
		forms := []string{"`id-${%s ?? \"none\"}`", "`${%s || \"x\"}`", "`${1 ? %s : 1}`", "`${0 ? 1 : %s}`", "%s + \"\"", "\"\" + %s", "%s < 1", "1 <= %s",
			"%s == \"s\"", "+%s", "-%s", "`${(0, %s)}`", "`${%s && 1}`", "`${typeof %s === \"object\" ? %s : 0}`", "`${void 0 ?? %s}`", "`${null ?? %s}`",
			"`${[%s]}`", "(%s ?? \"a\") < \"b\"", "(%s ?? 1) == 1", "(%s || 1) < 2", "`${(%s ?? 1) ?? 2}`", "`${(%s ?? %s) ?? \"z\"}`", "`a${%s ?? 1}b${2}`",
			"`${%s ?? 1n}`", "(%s ?? \"\") != \"\"", "`${!1 || %s}`", "`${(%s, 1) ?? %s}`"}
		for q := r.Range(1, 3); q > 0; q-- {
			fm := forms[r.Intn(len(forms))]
			e := strings.ReplaceAll(fm, "%s", o)
			n := g.name(f, "h")
			switch r.Intn(4) {
			case 0:
				add(paren(e) + ";")
			case 1:
				add(exp(n, "const") + "const " + n + " = " + e + ";")
			default:
				add(r.Pick([]string{"const", "let", "var"}) + " " + n + " = " + e + ";")
			}
		}
		g.note("wrap:bound-coercion")
	case k == 88 && !f.pure: // uses of a top-level var through a nested redeclaration (C04-B, fixed by ae718d6) and nested assignments (0bc1420)
		n := g.name(f, "v")
		add("var " + n + " = " + r.Pick([]string{"1", "[1, 2]", "\"s\""}) + ";")
		switch r.Intn(3) {
		case 0:
			add("{ var " + n + "; $p(" + g.id(f) + ", " + n + "); }")
		case 1:
			add("if (true) { var " + n + "; $p(" + g.id(f) + ", typeof " + n + "); }")
		default:
			add("{ var " + n + " = " + r.Pick([]string{"\"a\"", "[" + g.hidden(f) + "]", "null"}) + "; }")
			add("$p(" + g.id(f) + ", typeof " + n + ");")
		}
		g.note("wrap:nested-var-redeclare")
	case k < 90: // global getter: must never be dropped when referenced outside typeof
		gn := fmt.Sprintf("gg%d_%d", g.caseNo, g.probe+1)
		add("Object.defineProperty(globalThis, \"" + gn + "\", { get() { return $p(" + g.id(f) + "); }, configurable: true });")
		switch r.Intn(5) {
		case 0:
			add(gn + ";")
		case 1:
			add("const " + g.name(f, "h") + " = " + gn + ";")
		case 2:
			add("const " + g.name(f, "h") + " = [" + gn + ", 1];")
		case 3:
			add("var " + g.name(f, "h") + " = { a: " + gn + " };")
		default:
			add(gn + " === 1;")
		}
		g.note("global-getter")
	case k < 94: // use of earlier bindings (creates dependency edges)
		if len(sc.fns) > 0 && r.Bool() {
			add("$p(" + g.id(f) + ", " + sc.fns[r.Intn(len(sc.fns))] + "());")
		} else {
			add("$p(" + g.id(f) + ", " + sc.any(r) + ");")
		}
		g.note("use")
	default: // annotation-dependent forms (only when the graph may carry annotations)
		if !g.annot || f.pure {
			add(g.hiddenS(f) + ";")
			return
		}
		switch r.Intn(4) {
		case 0:
			fn := g.name(f, "pf")
			add("function " + fn + "(x) { $p(" + g.pid(f) + "); return x; }")
			n := g.name(f, "h")
			add("const " + n + " = /* @__PURE__ */ " + fn + "(" + g.hidden(f) + ");")
			g.note("annot:pure-call")
		case 1:
			fn := g.name(f, "nf")
			add("/* @__NO_SIDE_EFFECTS__ */ function " + fn + "(x) { $p(" + g.pid(f) + "); return x; }")
			add(fn + "(" + g.hidden(f) + ");")
			g.note("annot:no-side-effects-fn")
		case 2:
			add("$pp(" + g.pid(f) + ", " + g.hidden(f) + ");")
			g.usedPP = true
			g.note("annot:pure-option")
		default:
			kn := g.name(f, "pk")
			add("class " + kn + " { constructor() { $p(" + g.pid(f) + "); } }")
			add("/* @__PURE__ */ new " + kn + "(" + g.hidden(f) + ");")
			g.note("annot:pure-new")
		}
	}
}

// Graph builds a module graph with nfiles modules; m0 is the entry point.
func (g *mgen) Graph() *mgraph {
	r := g.r
	g.kinds = map[string]int{}
	g.usedPP = false
	g.needsLowering = false
	n := r.Range(1, 5)
	mg := &mgraph{kinds: g.kinds}
	for i := 0; i < n; i++ {
		f := &mfile{idx: i, path: fmt.Sprintf("m%d.js", i)}
		if i > 0 && g.annot && r.Chance(35) {
			f.pure = true
			f.path = fmt.Sprintf("pure/m%d.js", i)
			mg.annotated = true
		} else if i > 0 && r.Chance(12) {
			f.cjs = true
			f.path = fmt.Sprintf("m%d.cjs", i)
		} else if i > 0 && r.Chance(5) {
			f.json = true
			f.path = fmt.Sprintf("m%d.json", i)
		}
		mg.files = append(mg.files, f)
	}
	// generate from the last file to the first so that importers know the exports
	for i := n - 1; i >= 0; i-- {
		f := mg.files[i]
		if f.json {
			f.lines = []string{fmt.Sprintf("{\"v\": %d, \"w\": [1, 2]}", i)}
			f.hasDefault = true
			continue
		}
		if f.cjs {
			f.lines = append(f.lines, "exports.a = $p("+g.id(f)+", 1);")
			for k := r.Range(1, 3); k > 0; k-- {
				f.lines = append(f.lines, "var "+g.name(f, "h")+" = "+g.hidden(f)+";")
			}
			f.lines = append(f.lines, "module.exports.f = function () { return $p("+g.id(f)+"); };")
			f.hasDefault = true
			continue
		}
		sc := &scope{}
		var head []string
		rel := func(t *mfile) string {
			if f.pure == t.pure {
				return "./" + strings.TrimPrefix(t.path, "pure/")
			}
			if f.pure {
				return "../" + t.path
			}
			return "./" + t.path
		}
		for j := i + 1; j < n; j++ {
			t := mg.files[j]
			must := false
			if j == i+1 {
				must = true // keep every file reachable
			}
			if !must && !r.Chance(45) {
				continue
			}
			if f.pure && !t.pure {
				continue // annotated modules import only annotated modules (keeps the oracle exact)
			}
			spec := "\"" + rel(t) + "\""
			switch {
			case t.cjs || t.json:
				if r.Chance(30) && !t.json {
					head = append(head, "import "+spec+";")
					g.note("import:side-effect-cjs")
				} else {
					a := g.name(f, "i")
					head = append(head, "import "+a+" from "+spec+";")
					if r.Chance(60) {
						sc.vals = append(sc.vals, a)
					}
					g.note("import:default-cjs-json")
				}
			default:
				switch c := r.Intn(100); {
				case c < 25 || len(t.exports) == 0:
					head = append(head, "import "+spec+";")
					g.note("import:side-effect")
				case c < 65:
					var parts []string
					for _, e := range t.exports {
						if r.Chance(60) {
							a := g.name(f, "i")
							parts = append(parts, e.name+" as "+a)
							if r.Chance(60) {
								sc.vals = append(sc.vals, a)
								if e.kind == "fn" {
									sc.fns = append(sc.fns, a)
								}
							}
						}
					}
					head = append(head, "import { "+strings.Join(parts, ", ")+" } from "+spec+";")
					g.note("import:named")
				case c < 80:
					a := g.name(f, "ns")
					head = append(head, "import * as "+a+" from "+spec+";")
					if r.Chance(70) {
						e := t.exports[r.Intn(len(t.exports))]
						sc.vals = append(sc.vals, a+"."+e.name)
					} else if r.Chance(50) {
						sc.vals = append(sc.vals, "Object.keys("+a+").sort().join()")
					}
					g.note("import:namespace")
				case c < 90 && i > 0:
					e := t.exports[r.Intn(len(t.exports))]
					a := g.name(f, "re")
					head = append(head, "export { "+e.name+" as "+a+" } from "+spec+";")
					f.exports = append(f.exports, expB{a, e.kind})
					g.note("import:reexport")
				case i > 0:
					head = append(head, "export * from "+spec+";")
					f.exports = append(f.exports, t.exports...)
					g.note("import:export-star")
				default:
					head = append(head, "import "+spec+";")
				}
			}
		}
		f.lines = nil
		ns := r.Range(2, 7)
		for k := 0; k < ns; k++ {
			g.stmt(f, sc, i > 0)
		}
		// final uses: make some bindings live
		var uses []string
		for _, v := range sc.vals {
			if r.Chance(35) {
				uses = append(uses, v)
			}
		}
		for _, fn := range sc.fns {
			if r.Chance(25) {
				uses = append(uses, fn+"()")
			}
		}
		if len(uses) > 0 && (i == 0 || r.Chance(60)) {
			f.lines = append(f.lines, "$p("+g.id(f)+", "+strings.Join(uses, ", ")+");")
		}
		if i == 0 {
			f.lines = append(f.lines, "$p("+g.id(f)+", \"end\");")
		}
		// dedupe export names (export * may repeat)
		seen := map[string]bool{}
		var ex []expB
		for _, e := range f.exports {
			if !seen[e.name] {
				seen[e.name] = true
				ex = append(ex, e)
			}
		}
		f.exports = ex
		f.lines = append(head, f.lines...)
	}
	mg.needsLowering = g.needsLowering
	if g.usedPP {
		mg.pureOpt = true
		mg.annotated = true
	}
	for k := range g.kinds {
		if strings.HasPrefix(k, "annot:") {
			mg.annotated = true
		}
	}
	return mg
}

func (mg *mgraph) FileMap() map[string]string {
	m := map[string]string{}
	for _, f := range mg.files {
		m[f.path] = strings.Join(f.lines, "\n") + "\n"
		if f.pure {
			m["pure/package.json"] = "{\"sideEffects\": false}\n"
		}
	}
	return m
}

func (mg *mgraph) Text() string {
	m := mg.FileMap()
	var keys []string
	for k := range m {
		keys = append(keys, k)
	}
	sort.Strings(keys)
	var sb strings.Builder
	for _, k := range keys {
		sb.WriteString("// ---- " + k + "\n" + m[k])
	}
	return sb.String()
}
