package main

// C10: code splitting.
//
//  * correspondence cases for helpers.BitSet, renamer.ExportRenamer and
//    NumberToMinifiedName (called directly);
//  * correspondence cases for the whole splitting core: random module graphs
//    are built through api.Build (Splitting, Format esm, metafile) and the
//    chunks observed in the metafile / output text (membership, file order,
//    static import edges with their item aliases in text order, dynamic
//    edges, cross-chunk export aliases) are compared with what the Coq model
//    Split.v predicts from the graph alone;
//  * glue stream / oracle: every emitted chunk set is loaded in Node (one
//    fresh runtime per subset/order of entry points, worker threads of ONE
//    node process), probe events are compared with native execution of the
//    source tree and with the unsplit bundles; static checks on the emitted
//    chunks (acyclic static import graph, imported names exist, no assignment
//    to an imported binding).

import (
	"encoding/json"
	"fmt"
	"os"
	"os/exec"
	"path/filepath"
	"regexp"
	"sort"
	"strings"
	"sync"
	"time"

	"github.com/evanw/esbuild/internal/ast"
	"github.com/evanw/esbuild/internal/bundler"
	"github.com/evanw/esbuild/internal/cache"
	"github.com/evanw/esbuild/internal/config"
	"github.com/evanw/esbuild/internal/fs"
	"github.com/evanw/esbuild/internal/graph"
	"github.com/evanw/esbuild/internal/helpers"
	"github.com/evanw/esbuild/internal/linker"
	"github.com/evanw/esbuild/internal/logger"
	"github.com/evanw/esbuild/internal/renamer"
	"github.com/evanw/esbuild/internal/resolver"
	"github.com/evanw/esbuild/pkg/api"
	. "github.com/evanw/esbuild/verifharness/hlib"
)

func main() { Main("c10", runC10) }

// ---------------------------------------------------------------------------
// module graph generator

const (
	kNamed  = iota // import {a as x, ...} from
	kNsVal         // import * as ns from  (ns used as a value)
	kNsProp        // import * as ns from  (only ns.prop accesses)
	kBare          // import "./x.js"
	kReexp         // export {a as b} from
	kStar          // export * from
)

type stmt struct {
	kind   int
	target int      // file id
	names  []string // export names of the target that are imported / re-exported / accessed
	locals []string // local binding names (kNamed) or re-export aliases (kReexp); ns name in locals[0] for ns kinds
	used   []bool   // kNamed: whether the binding is used in a live top-level statement
	call   bool     // kNamed: call the imported bump() (mutates the target's state)
	fixed  []string // kNamed: import exactly these names
	viaImp bool     // kReexp written as `import {a as l} from; export {l as b}` instead of `export {a as b} from`
	pref   bool     // kReexp: prefer re-exporting counters (export let) and their mutator functions
}

type mod struct {
	id     int
	name   string // "e0", "m3"
	user   bool   // user-specified entry point
	stmts  []stmt
	dyn    []int // import() targets in source order
	varKW  string
	nsLive bool // someone uses its namespace object as a value
	uname  string // name of the module's third exported binding ("" = u_<name>); drawn from a
	// small colliding pool with generated-suffix look-alikes so that several files of one
	// chunk export x, x, x2, x22 ... in either discovery order

	exports map[string]expEntry // export table
}

type expEntry struct {
	kind     int // 0 own, 1 named re-export, 2 via export *
	ownIdx   int
	from     int
	fromName string
}

type graphCase struct {
	mods     []*mod // index = id-1 (id 0 is the runtime)
	user     []int  // ids of user entry points in order
	desc     string
	scenario string // set for the fixed replays of known findings
}

// fixed replays: a module that import()s itself (known finding C10-self-dynamic-import)
func scenarioGraphs(r *Rng) []*graphCase {
	var out []*graphCase
	{
		g := &graphCase{scenario: "self-dynamic-import/entry", desc: "entry point that import()s itself"}
		g.mods = []*mod{{id: 1, name: "e0", user: true, varKW: "let", dyn: []int{1}}}
		g.user = []int{1}
		g.fill(r)
		out = append(out, g)
	}
	{
		g := &graphCase{scenario: "self-dynamic-import/shared-module", desc: "shared module that import()s itself"}
		g.mods = []*mod{
			{id: 1, name: "e0", user: true, varKW: "let", stmts: []stmt{{kind: kBare, target: 3}}},
			{id: 2, name: "e1", user: true, varKW: "let", stmts: []stmt{{kind: kBare, target: 3}}},
			{id: 3, name: "m0", varKW: "let", dyn: []int{3}},
		}
		g.user = []int{1, 2}
		g.fill(r)
		out = append(out, g)
	}
	return out
}

func (g *graphCase) m(id int) *mod { return g.mods[id-1] }

func (m *mod) uniq() string {
	if m.uname != "" {
		return m.uname
	}
	return "u_" + m.name
}

var collidingNames = []string{"x", "x", "x2", "x22", "x3", "x23", "count", "count", "count2"}

// own exportable symbols in InnerIndex order; the exports object comes last
func ownNames(m *mod) []string {
	return []string{"v", "bump", m.uniq(), "done", m.name + "_exports"}
}

const exportsRefIdx = 4

func ownExportIdx(m *mod, name string) int {
	switch name {
	case "v":
		return 0
	case "bump":
		return 1
	case m.uniq():
		return 2
	case "done":
		return 3
	}
	return -1
}

// pattern: inc[i][j] entry i imports module j (bipartite incidence); extra edges random
func genGraph(r *Rng, k, n int, inc [][]bool, rich bool) *graphCase {
	g := &graphCase{}
	for i := 0; i < k; i++ {
		g.mods = append(g.mods, &mod{id: i + 1, name: fmt.Sprintf("e%d", i), user: true})
		g.user = append(g.user, i+1)
	}
	for j := 0; j < n; j++ {
		g.mods = append(g.mods, &mod{id: k + j + 1, name: fmt.Sprintf("m%d", j)})
	}
	for _, m := range g.mods {
		m.varKW = []string{"let", "var", "let"}[r.Intn(3)]
		if r.Chance(45) {
			m.uname = collidingNames[r.Intn(len(collidingNames))]
		}
	}
	// user entry order as given on the command line may differ from id order
	if r.Chance(30) {
		for i := len(g.user) - 1; i > 0; i-- {
			j := r.Intn(i + 1)
			g.user[i], g.user[j] = g.user[j], g.user[i]
		}
	}
	addStmt := func(f, t int) {
		fm := g.m(f)
		kind := kNamed
		if rich {
			switch x := r.Intn(100); {
			case x < 40:
				kind = kNamed
			case x < 52:
				kind = kNsVal
			case x < 62:
				kind = kNsProp
			case x < 76:
				kind = kBare
			case x < 90:
				kind = kReexp
			default:
				kind = kStar
			}
		} else if r.Chance(25) {
			kind = kBare
		}
		if kind == kStar {
			for _, s := range fm.stmts {
				if s.kind == kStar {
					kind = kNamed
				}
			}
		}
		fm.stmts = append(fm.stmts, stmt{kind: kind, target: t})
	}
	// entry -> module incidence
	for i := 0; i < k; i++ {
		for j := 0; j < n; j++ {
			if inc[i][j] {
				addStmt(i+1, k+j+1)
				if rich && r.Chance(20) {
					addStmt(i+1, k+j+1)
				}
			}
		}
	}
	if rich {
		// entry -> later entry, module -> later module
		for i := 0; i < k; i++ {
			for i2 := i + 1; i2 < k; i2++ {
				if r.Chance(12) {
					addStmt(i+1, i2+1)
				}
			}
		}
		dens := []int{22, 22, 45, 70}[r.Intn(4)] // some deep module chains (distance side-channel)
		for j := 0; j < n; j++ {
			for j2 := j + 1; j2 < n; j2++ {
				if r.Chance(dens) {
					addStmt(k+j+1, k+j2+1)
				}
			}
		}
		// shuffle statement order inside each file
		for _, m := range g.mods {
			for i := len(m.stmts) - 1; i > 0; i-- {
				j := r.Intn(i + 1)
				m.stmts[i], m.stmts[j] = m.stmts[j], m.stmts[i]
			}
		}
		// dynamic imports: any target (also entries, also backwards)
		for _, m := range g.mods {
			if r.Chance(22) {
				cnt := 1 + r.Intn(2)
				for c := 0; c < cnt; c++ {
					t := 1 + r.Intn(len(g.mods))
					if t == m.id {
						// import() of the importing file itself is a known finding (replayed separately)
						continue
					}
					m.dyn = append(m.dyn, t)
				}
			}
		}
	}
	g.prune()
	g.fill(r)
	return g
}

// shared leaf modules reached from every entry point through private chains of
// different lengths: the leaves share one chunk and are mutually independent,
// so their order in the chunk is decided by DistanceFromEntryPoint and the
// stable source index
func genDistance(r *Rng) *graphCase {
	g := &graphCase{}
	k := 2 + r.Intn(2)
	t := 2 + r.Intn(2)
	type chain struct{ e, s, l int }
	var chains []chain
	nInter := 0
	for s := 0; s < t; s++ {
		for e := 0; e < k; e++ {
			l := r.Intn(4)
			if l == 3 {
				l = 2
			}
			chains = append(chains, chain{e, s, l})
			nInter += l
		}
	}
	for i := 0; i < k; i++ {
		g.mods = append(g.mods, &mod{id: i + 1, name: fmt.Sprintf("e%d", i), user: true, varKW: "let"})
		g.user = append(g.user, i+1)
	}
	for i := 0; i < nInter; i++ {
		g.mods = append(g.mods, &mod{id: k + i + 1, name: fmt.Sprintf("p%d", i), varKW: "let"})
	}
	for s := 0; s < t; s++ {
		g.mods = append(g.mods, &mod{id: k + nInter + s + 1, name: fmt.Sprintf("s%d", s), varKW: "var"})
	}
	next := k + 1
	kinds := []int{kBare, kNamed, kNamed}
	for _, c := range chains {
		from := c.e + 1
		for i := 0; i < c.l; i++ {
			g.m(from).stmts = append(g.m(from).stmts, stmt{kind: kinds[r.Intn(3)], target: next})
			if i == 1 && r.Chance(60) {
				// shortcut: the entry also imports the second intermediate directly, so the
				// same entry point may reach it twice, the second time on a shorter path
				g.m(c.e+1).stmts = append(g.m(c.e+1).stmts, stmt{kind: kBare, target: next})
			}
			from = next
			next++
		}
		g.m(from).stmts = append(g.m(from).stmts, stmt{kind: kinds[r.Intn(3)], target: k + nInter + c.s + 1})
	}
	for _, m := range g.mods {
		for i := len(m.stmts) - 1; i > 0; i-- {
			j := r.Intn(i + 1)
			m.stmts[i], m.stmts[j] = m.stmts[j], m.stmts[i]
		}
	}
	g.prune()
	g.fill(r)
	g.desc = fmt.Sprintf("distance k=%d leaves=%d", k, t)
	return g
}

// entry points that re-export (export * and export {..} from, through one or
// two intermediate modules, also written as import + export) bindings that are
// declared in modules shared with other entry points, so that the binding
// lives in another chunk than the re-exporting entry and the entry chunk
// often has no other use of it
func genReexport(r *Rng) *graphCase {
	g := &graphCase{}
	k := 2 + r.Intn(2)
	nDeep := 1 + r.Intn(2)
	nMid := 1 + r.Intn(3)
	nMid2 := r.Intn(2)
	for i := 0; i < k; i++ {
		g.mods = append(g.mods, &mod{id: i + 1, name: fmt.Sprintf("e%d", i), user: true, varKW: "let"})
		g.user = append(g.user, i+1)
	}
	mid0 := k + 1
	for i := 0; i < nMid; i++ {
		g.mods = append(g.mods, &mod{id: mid0 + i, name: fmt.Sprintf("mid%d", i), varKW: "let"})
	}
	mid20 := mid0 + nMid
	for i := 0; i < nMid2; i++ {
		g.mods = append(g.mods, &mod{id: mid20 + i, name: fmt.Sprintf("via%d", i), varKW: "let"})
	}
	deep0 := mid20 + nMid2
	for i := 0; i < nDeep; i++ {
		g.mods = append(g.mods, &mod{id: deep0 + i, name: fmt.Sprintf("deep%d", i), varKW: []string{"let", "var"}[r.Intn(2)]})
	}
	hasStar := func(m *mod) bool {
		for _, s := range m.stmts {
			if s.kind == kStar {
				return true
			}
		}
		return false
	}
	reexp := func(from, to int, allowStar bool) {
		fm := g.m(from)
		if allowStar && !hasStar(fm) && r.Chance(55) {
			fm.stmts = append(fm.stmts, stmt{kind: kStar, target: to})
			return
		}
		fm.stmts = append(fm.stmts, stmt{kind: kReexp, target: to, viaImp: r.Chance(40), pref: r.Chance(80)})
	}
	// second-level intermediates re-export from a deep module (named: so that ImportsToBind of
	// the intermediate, not of the entry, resolves the binding)
	for i := 0; i < nMid2; i++ {
		reexp(mid20+i, deep0+r.Intn(nDeep), false)
	}
	for i := 0; i < nMid; i++ {
		if nMid2 > 0 && r.Chance(50) {
			reexp(mid0+i, mid20+r.Intn(nMid2), true)
		} else {
			reexp(mid0+i, deep0+r.Intn(nDeep), false)
		}
		if r.Chance(25) {
			reexp(mid0+i, deep0+r.Intn(nDeep), false)
		}
	}
	// every entry re-exports from one intermediate; a deep module is made shared by letting
	// another entry import it directly (or re-export it too)
	for e := 1; e <= k; e++ {
		reexp(e, mid0+r.Intn(nMid), true)
		if r.Chance(30) {
			g.m(e).stmts = append(g.m(e).stmts, stmt{kind: kBare, target: mid0 + r.Intn(nMid)})
		}
	}
	// the namespace object of a re-exporting module (or entry point) is captured and indexed with
	// a non-constant key by some file with a lower id: its namespace-export part becomes live
	for i := 0; i < 1+r.Intn(2); i++ {
		if r.Chance(75) {
			from := 1 + r.Intn(k)
			to := mid0 + r.Intn(nMid)
			if r.Chance(20) && from < k {
				to = from + 1 + r.Intn(k-from) // the namespace of a later entry point
			}
			g.m(from).stmts = append(g.m(from).stmts, stmt{kind: kNsVal, target: to})
		}
	}
	for d := 0; d < nDeep; d++ {
		e := 1 + r.Intn(k)
		kind := []int{kNamed, kBare, kNsProp, kNamed}[r.Intn(4)]
		g.m(e).stmts = append(g.m(e).stmts, stmt{kind: kind, target: deep0 + d})
	}
	if r.Chance(30) {
		g.m(1 + r.Intn(k)).dyn = []int{mid0 + r.Intn(nMid)}
	}
	for _, m := range g.mods {
		for i := len(m.stmts) - 1; i > 0; i-- {
			j := r.Intn(i + 1)
			m.stmts[i], m.stmts[j] = m.stmts[j], m.stmts[i]
		}
	}
	g.prune()
	g.fill(r)
	g.desc = fmt.Sprintf("reexport k=%d mids=%d+%d deep=%d", k, nMid, nMid2, nDeep)
	return g
}

// leaf modules whose exported bindings are named from the colliding pool, all
// imported by every entry point (one shared chunk that has to export all of
// them), import order shuffled so that x2 is discovered before or after x, x
func genNames(r *Rng) *graphCase {
	g := &graphCase{}
	k := 2 + r.Intn(2)
	nm := 3 + r.Intn(4)
	pools := [][]string{{"x", "x", "x2"}, {"x", "x2", "x22", "x"}, {"count", "count", "count2", "count22"}, {"x", "x", "x", "x3", "x2", "x23"}}
	pool := pools[r.Intn(len(pools))]
	for i := 0; i < k; i++ {
		g.mods = append(g.mods, &mod{id: i + 1, name: fmt.Sprintf("e%d", i), user: true, varKW: "let"})
		g.user = append(g.user, i+1)
	}
	for j := 0; j < nm; j++ {
		g.mods = append(g.mods, &mod{id: k + j + 1, name: fmt.Sprintf("m%d", j), varKW: "let", uname: pool[r.Intn(len(pool))]})
	}
	order := make([]int, nm)
	for j := range order {
		order[j] = j
	}
	for i := len(order) - 1; i > 0; i-- {
		j := r.Intn(i + 1)
		order[i], order[j] = order[j], order[i]
	}
	for e := 1; e <= k; e++ {
		for _, j := range order {
			if e > 1 && r.Chance(15) {
				continue
			}
			t := g.m(k + j + 1)
			fixed := []string{t.uniq()}
			if r.Chance(40) {
				fixed = append(fixed, "v")
			}
			g.m(e).stmts = append(g.m(e).stmts, stmt{kind: kNamed, target: t.id, fixed: fixed})
		}
	}
	g.prune()
	g.fill(r)
	for _, m := range g.mods {
		for i := range m.stmts {
			for j := range m.stmts[i].used {
				m.stmts[i].used[j] = true
			}
		}
	}
	g.desc = fmt.Sprintf("names k=%d modules=%d pool=%v", k, nm, pool)
	return g
}

// a captured namespace object whose properties arrive through "export *" chains that end in a
// re-export of an import from a module living in a shared chunk:
//   e0: import * as ns from L (ns[k] for every key)     L: export * from L2 / M
//   M: export {x} from S (or import + export)           S: also imported by another entry
// nothing else in L's chunk uses the binding, so the only reference is the getter of the
// namespace-export object
func genNsStar(r *Rng) *graphCase {
	g := &graphCase{}
	k := 2 + r.Intn(2)
	stars := 1 + r.Intn(2) // L (-> L2) -> M
	for i := 0; i < k; i++ {
		g.mods = append(g.mods, &mod{id: i + 1, name: fmt.Sprintf("e%d", i), user: true, varKW: "let"})
		g.user = append(g.user, i+1)
	}
	id := k + 1
	var chain []int
	for i := 0; i < stars; i++ {
		g.mods = append(g.mods, &mod{id: id, name: fmt.Sprintf("lib%d", i), varKW: "let"})
		chain = append(chain, id)
		id++
	}
	mID := id
	g.mods = append(g.mods, &mod{id: mID, name: "mid0", varKW: "let"})
	id++
	sID := id
	g.mods = append(g.mods, &mod{id: sID, name: "deep0", varKW: []string{"let", "var"}[r.Intn(2)]})
	for i, c := range chain {
		next := mID
		if i+1 < len(chain) {
			next = chain[i+1]
		}
		g.m(c).stmts = append(g.m(c).stmts, stmt{kind: kStar, target: next})
	}
	g.m(mID).stmts = append(g.m(mID).stmts, stmt{kind: kReexp, target: sID, viaImp: r.Bool(), pref: true})
	// the capturing entry point (sometimes through a private module)
	g.m(1).stmts = append(g.m(1).stmts, stmt{kind: kNsVal, target: chain[0]})
	// the source is shared: another entry point reaches it
	other := 2 + r.Intn(k-1)
	g.m(other).stmts = append(g.m(other).stmts, stmt{kind: []int{kNamed, kBare, kNamed}[r.Intn(3)], target: sID})
	if r.Chance(30) {
		g.m(other).stmts = append(g.m(other).stmts, stmt{kind: kNsVal, target: chain[len(chain)-1]})
	}
	if r.Chance(25) {
		g.m(1).stmts = append(g.m(1).stmts, stmt{kind: kBare, target: mID})
	}
	for _, m := range g.mods {
		for i := len(m.stmts) - 1; i > 0; i-- {
			j := r.Intn(i + 1)
			m.stmts[i], m.stmts[j] = m.stmts[j], m.stmts[i]
		}
	}
	g.prune()
	g.fill(r)
	g.desc = fmt.Sprintf("ns-star k=%d stars=%d", k, stars)
	return g
}

// drop files not reachable from the user entry points and renumber
func (g *graphCase) prune() {
	seen := map[int]bool{}
	var visit func(int)
	visit = func(id int) {
		if seen[id] {
			return
		}
		seen[id] = true
		for _, s := range g.m(id).stmts {
			visit(s.target)
		}
		for _, t := range g.m(id).dyn {
			visit(t)
		}
	}
	for _, e := range g.user {
		visit(e)
	}
	renum := map[int]int{}
	var kept []*mod
	for _, m := range g.mods {
		if seen[m.id] {
			renum[m.id] = len(kept) + 1
			kept = append(kept, m)
		}
	}
	for _, m := range kept {
		m.id = renum[m.id]
		for i := range m.stmts {
			m.stmts[i].target = renum[m.stmts[i].target]
		}
		for i := range m.dyn {
			m.dyn[i] = renum[m.dyn[i]]
		}
	}
	for i := range g.user {
		g.user[i] = renum[g.user[i]]
	}
	g.mods = kept
}

// export tables (files only import files with a higher id, so go downwards),
// then choose the imported names
func (g *graphCase) fill(r *Rng) {
	for i := len(g.mods) - 1; i >= 0; i-- {
		m := g.mods[i]
		m.exports = map[string]expEntry{}
		for idx, nm := range ownNames(m)[:4] {
			m.exports[nm] = expEntry{kind: 0, ownIdx: idx}
		}
		cnt := 0
		for si := range m.stmts {
			s := &m.stmts[si]
			t := g.m(s.target)
			tn := sortedKeys(t.exports)
			switch s.kind {
			case kNamed:
				nn := 1 + r.Intn(3)
				pick := pickSome(r, tn, nn)
				if s.fixed != nil {
					pick = append([]string{}, s.fixed...)
				}
				// always prefer to have "done" (initialised-before-use probe) and often bump
				if !contains(pick, "done") && r.Chance(70) {
					pick = append(pick, "done")
				}
				if !contains(pick, "bump") && r.Chance(50) {
					pick = append(pick, "bump")
				}
				for _, nm := range pick {
					s.names = append(s.names, nm)
					s.locals = append(s.locals, fmt.Sprintf("i%d_%s", cnt, sanitize(nm)))
					s.used = append(s.used, !r.Chance(12))
					cnt++
				}
				s.call = r.Chance(70)
			case kNsVal:
				s.locals = []string{fmt.Sprintf("ns%d_%s", cnt, t.name)}
				cnt++
			case kNsProp:
				s.locals = []string{fmt.Sprintf("ns%d_%s", cnt, t.name)}
				s.names = pickSome(r, tn, 1+r.Intn(2))
				cnt++
			case kReexp:
				pick := pickSome(r, tn, 1+r.Intn(2))
				if s.pref {
					var cand []string
					for _, nm := range tn {
						if idx := g.resolveExport(t.id, nm).idx; idx == 0 || idx == 1 {
							cand = append(cand, nm)
						}
					}
					if len(cand) > 0 {
						pick = pickSome(r, cand, 2+r.Intn(2))
					}
				}
				for _, nm := range pick {
					al := fmt.Sprintf("r%d_%s_%s", cnt, t.name, sanitize(nm))
					if r.Chance(15) && !hasKey(m.exports, "x_shared") {
						al = "x_shared" // the same export alias in several files: collisions between chunks
					}
					cnt++
					s.names = append(s.names, nm)
					s.locals = append(s.locals, al)
					m.exports[al] = expEntry{kind: 1, from: t.id, fromName: nm}
				}
			}
		}
		// export * last: explicit names win
		for _, s := range m.stmts {
			if s.kind == kStar {
				t := g.m(s.target)
				for _, nm := range sortedKeys(t.exports) {
					if nm == "default" || hasKey(m.exports, nm) {
						continue
					}
					m.exports[nm] = expEntry{kind: 2, from: t.id, fromName: nm}
				}
			}
		}
	}
	for _, m := range g.mods {
		for _, s := range m.stmts {
			if s.kind == kNsVal {
				g.m(s.target).nsLive = true
			}
		}
	}
}

func sanitize(s string) string { return strings.ReplaceAll(s, "$", "S") }
func hasKey(m map[string]expEntry, k string) bool {
	_, ok := m[k]
	return ok
}
func contains(xs []string, s string) bool {
	for _, x := range xs {
		if x == s {
			return true
		}
	}
	return false
}
func sortedKeys(m map[string]expEntry) []string {
	var ks []string
	for k := range m {
		ks = append(ks, k)
	}
	sort.Strings(ks)
	return ks
}
func pickSome(r *Rng, xs []string, n int) []string {
	if n > len(xs) {
		n = len(xs)
	}
	idx := map[int]bool{}
	var out []string
	for len(out) < n {
		i := r.Intn(len(xs))
		if !idx[i] {
			idx[i] = true
			out = append(out, xs[i])
		}
	}
	return out
}

// ---------------------------------------------------------------------------
// export resolution as the linker does it

type resolved struct {
	file, idx int
	inter     []int // files that re-export the symbol in between (importData.ReExports)
}

// the file in which the alias is an explicit export (own or named re-export)
func (g *graphCase) origin(f int, name string) (int, expEntry) {
	e := g.m(f).exports[name]
	for e.kind == 2 {
		f = e.from
		e = g.m(f).exports[name]
	}
	return f, e
}

// "import {name} from f"
func (g *graphCase) resolveImport(f int, name string) resolved {
	o, e := g.origin(f, name)
	if e.kind == 0 {
		return resolved{file: o, idx: e.ownIdx}
	}
	r := g.resolveImport(e.from, e.fromName)
	return resolved{file: r.file, idx: r.idx, inter: append([]int{o}, r.inter...)}
}

// the target of export alias `name` of file f (ResolvedExports + ImportsToBind)
func (g *graphCase) resolveExport(f int, name string) resolved {
	_, e := g.origin(f, name)
	if e.kind == 0 {
		o, _ := g.origin(f, name)
		return resolved{file: o, idx: e.ownIdx}
	}
	return g.resolveImport(e.from, e.fromName)
}

func (g *graphCase) isEntry(id int) bool {
	if g.m(id).user {
		return true
	}
	for _, m := range g.mods {
		for _, t := range m.dyn {
			if t == id {
				return true
			}
		}
	}
	return false
}

// ---------------------------------------------------------------------------
// source text

func (g *graphCase) source(m *mod) string {
	var sb strings.Builder
	w := func(f string, a ...interface{}) { fmt.Fprintf(&sb, f, a...) }
	for _, s := range m.stmts {
		t := g.m(s.target)
		switch s.kind {
		case kNamed:
			var items []string
			for i, nm := range s.names {
				items = append(items, nm+" as "+s.locals[i])
			}
			w("import {%s} from \"./%s.js\";\n", strings.Join(items, ", "), t.name)
		case kNsVal, kNsProp:
			w("import * as %s from \"./%s.js\";\n", s.locals[0], t.name)
		case kBare:
			w("import \"./%s.js\";\n", t.name)
		case kReexp:
			var items []string
			for i, nm := range s.names {
				items = append(items, nm+" as "+s.locals[i])
			}
			if s.viaImp {
				var imps, exps []string
				for i, nm := range s.names {
					imps = append(imps, nm+" as l_"+s.locals[i])
					exps = append(exps, "l_"+s.locals[i]+" as "+s.locals[i])
				}
				w("import {%s} from \"./%s.js\";\nexport {%s};\n", strings.Join(imps, ", "), t.name, strings.Join(exps, ", "))
			} else {
				w("export {%s} from \"./%s.js\";\n", strings.Join(items, ", "), t.name)
			}
		case kStar:
			w("export * from \"./%s.js\";\n", t.name)
		}
	}
	N := m.name
	w("const L = globalThis.__L;\n")
	w("L.push(\"%s:start\");\n", N)
	w("export %s v = 0;\n", m.varKW)
	w("export function bump() { v++; return v; }\n")
	w("let hidden = \"h:%s\";\n", N)
	w("export const %s = \"u:%s\";\n", m.uniq(), N)
	var views []string
	views = append(views, "v", "hidden")
	for _, s := range m.stmts {
		switch s.kind {
		case kNamed:
			for i, nm := range s.names {
				if !s.used[i] {
					continue
				}
				switch g.resolveImport(s.target, nm).idx {
				case 0:
					// a counter: its value depends on the evaluation order of other modules, so only its type is logged here and its value in the final view
					w("L.push(\"%s:typeof:%s:\" + typeof %s);\n", N, s.locals[i], s.locals[i])
					views = append(views, s.locals[i])
				case 1:
					w("L.push(\"%s:read:%s:\" + typeof %s);\n", N, s.locals[i], s.locals[i])
				default:
					w("L.push(\"%s:read:%s:\" + %s);\n", N, s.locals[i], s.locals[i])
				}
			}
			if s.call {
				for i, nm := range s.names {
					if g.resolveImport(s.target, nm).idx == 1 {
						w("%s();\n", s.locals[i])
					}
				}
			}
		case kNsVal:
			// enumerate the namespace object and read every property through a non-constant key, so
			// that every lazy getter of the namespace-export object is forced
			w("L.push(\"%s:keys:%s:\" + Object.keys(%s).sort().map(k => k + \"=\" + typeof %s[k]).join(\",\"));\n", N, s.locals[0], s.locals[0], s.locals[0])
			views = append(views, s.locals[0]+".v")
		case kNsProp:
			for _, nm := range s.names {
				switch g.resolveImport(s.target, nm).idx {
				case 0:
					views = append(views, s.locals[0]+"."+nm)
					w("L.push(\"%s:typeof:%s.%s:\" + typeof %s.%s);\n", N, s.locals[0], nm, s.locals[0], nm)
				case 1:
					w("L.push(\"%s:read:%s.%s:\" + typeof %s.%s);\n", N, s.locals[0], nm, s.locals[0], nm)
				default:
					w("L.push(\"%s:read:%s.%s:\" + %s.%s);\n", N, s.locals[0], nm, s.locals[0], nm)
				}
			}
		}
	}
	for i, t := range m.dyn {
		tn := g.m(t).name
		w("globalThis.__P.push(import(\"./%s.js\").then(ns => { L.push(\"%s>%d%s:\" + ns.done + \":\" + typeof ns.bump); ns.bump(); }));\n", tn, N, i, tn)
	}
	w("export const done = \"done:%s\";\n", N)
	w("L.push(\"%s:end\");\n", N)
	w("const view = () => [%s].join(\"|\");\n", strings.Join(views, ", "))
	w("globalThis.__V[\"%s\"] = view;\n", N)
	return sb.String()
}

// ---------------------------------------------------------------------------
// Coq terms

func cBytesStr(s string) string { return CBytes([]byte(s)) }

func cPairs(ps [][2]int) string {
	var it []string
	for _, p := range ps {
		it = append(it, fmt.Sprintf("(%d,%d)", p[0], p[1]))
	}
	return "[" + strings.Join(it, ";") + "]"
}
func cInts(xs []int) string {
	var it []string
	for _, x := range xs {
		it = append(it, fmt.Sprintf("%d", x))
	}
	return "[" + strings.Join(it, ";") + "]"
}
func cStrs(xs []string) string {
	var it []string
	for _, x := range xs {
		it = append(it, cBytesStr(x))
	}
	return "[" + strings.Join(it, ";") + "]"
}

// ---------------------------------------------------------------------------
// the linker's own view: the same sources are scanned with the real bundler
// and linked with the dumping copy of Link (C10 hook) and with Link itself
// (outputs must agree); the dump is the INPUT of the Coq model (import
// records, parts, ImportsToBind, resolved exports) and a second observation of
// its output (chunks, cross-chunk import refs, export aliases)

func hasErr(msgs []logger.Msg) string {
	for _, m := range msgs {
		if m.Kind == logger.Error {
			return m.Data.Text
		}
	}
	return ""
}

func (g *graphCase) linkDump(cfg buildCfg) (*linker.VerifC10Dump, string) {
	abs := map[string]string{}
	for _, m := range g.mods {
		abs["/src/"+m.name+".js"] = g.source(m)
	}
	var entries []string
	for _, e := range g.user {
		entries = append(entries, "/src/"+g.m(e).name+".js")
	}
	return linkDumpFiles(abs, entries, cfg)
}

func linkDumpFiles(abs map[string]string, entries []string, cfg buildCfg) (*linker.VerifC10Dump, string) {
	options := config.Options{
		Mode:              config.ModeBundle,
		OutputFormat:      config.FormatESModule,
		AbsOutputDir:      "/out",
		TreeShaking:       true,
		CodeSplitting:     true,
		MinifySyntax:      cfg.MinifySyntax,
		MinifyIdentifiers: cfg.MinifyIdent,
		MinifyWhitespace:  cfg.MinifyWS,
		ExtensionOrder:    []string{".tsx", ".ts", ".jsx", ".js", ".css", ".json"},
	}
	var eps []bundler.EntryPoint
	for _, e := range entries {
		eps = append(eps, bundler.EntryPoint{InputPath: e})
	}
	log := logger.NewDeferLog(logger.DeferLogNoVerboseOrDebug, nil)
	mockFS := fs.MockFS(abs, fs.MockUnix, "/")
	bundle := bundler.ScanBundle(config.BuildCall, log, mockFS, cache.MakeCacheSet(), eps, options, nil)
	if e := hasErr(log.Done()); e != "" {
		return nil, "scan: " + e
	}
	var mu sync.Mutex
	var dumps []*linker.VerifC10Dump
	dumpingLink := func(options *config.Options, timer *helpers.Timer, log logger.Log, fs fs.FS, res *resolver.Resolver,
		inputFiles []graph.InputFile, entryPoints []graph.EntryPoint, uniqueKeyPrefix string, reachableFiles []uint32,
		dataForSourceMaps func() []bundler.DataForSourceMap) []graph.OutputFile {
		d := &linker.VerifC10Dump{}
		out := linker.VerifC10Link(d)(options, timer, log, fs, res, inputFiles, entryPoints, uniqueKeyPrefix, reachableFiles, dataForSourceMaps)
		mu.Lock()
		dumps = append(dumps, d)
		mu.Unlock()
		return out
	}
	log = logger.NewDeferLog(logger.DeferLogNoVerboseOrDebug, nil)
	res1, _ := bundle.Compile(log, nil, nil, dumpingLink)
	if e := hasErr(log.Done()); e != "" {
		return nil, "link: " + e
	}
	log = logger.NewDeferLog(logger.DeferLogNoVerboseOrDebug, nil)
	res2, _ := bundle.Compile(log, nil, nil, linker.Link)
	if e := hasErr(log.Done()); e != "" {
		return nil, "link2: " + e
	}
	if len(res1) != len(res2) || len(dumps) != 1 {
		return nil, "HOOKDIFF: output count differs"
	}
	for i := range res1 {
		if res1[i].AbsPath != res2[i].AbsPath || string(res1[i].Contents) != string(res2[i].Contents) {
			return nil, "HOOKDIFF: " + res1[i].AbsPath
		}
	}
	return dumps[0], ""
}

func cPair(p [2]uint32) string { return fmt.Sprintf("(%d,%d)", p[0], p[1]) }
func cPairList(ps [][2]uint32) string {
	var it []string
	for _, p := range ps {
		it = append(it, cPair(p))
	}
	return "[" + strings.Join(it, ";") + "]"
}
func cU32s(xs []uint32) string {
	var it []string
	for _, x := range xs {
		it = append(it, fmt.Sprintf("%d", x))
	}
	return "[" + strings.Join(it, ";") + "]"
}

// the model input as a Coq term (graph_z); "" with a reason when the dump is
// outside the modelled fragment (wrapped files, namespace aliases)
func dumpGraph(d *linker.VerifC10Dump, minify bool) (string, string) {
	var fs []string
	for fi := range d.Files {
		f := &d.Files[fi]
		if !f.IsJS {
			fs = append(fs, "([],[],[],[],[])")
			continue
		}
		if f.Wrap != 0 {
			return "", "wrapped file " + f.Path
		}
		var recs []string
		for _, r := range f.Records {
			if r[0] >= 0 {
				recs = append(recs, fmt.Sprintf("(%d,%s)", r[0], CBool(uint8(r[1]) == uint8(ast.ImportDynamic))))
			}
		}
		var parts, names []string
		seenName := map[uint32]bool{}
		for _, p := range f.Parts {
			if fi == 0 && !p.IsLive {
				// dead parts of the runtime file (the bulk of every dump) are left out: they depend on
				// and use only the runtime itself, so they contribute no cross-file dependency, use
				// or declaration that anything live refers to
				crossFile := false
				for _, dd := range p.Deps {
					if dd != 0 {
						crossFile = true
					}
				}
				for _, u := range p.Uses {
					if u[0] != 0 {
						crossFile = true
					}
				}
				if !crossFile {
					continue
				}
			}
			var uses [][2]uint32
			for _, u := range p.Uses {
				sym := d.Files[u[0]].Symbols[u[1]]
				if sym.Missing {
					continue // "Ignore symbols that are going to be replaced by undefined"
				}
				// the linker tests NamespaceAlias on the symbol AFTER following ImportsToBind
				t := u
				for _, b := range f.Binds {
					if b.Key == u {
						t = b.Target
					}
				}
				if ts := d.Files[t[0]].Symbols[t[1]]; ts.HasNSAlias {
					return "", "namespace alias " + ts.Name
				}
				uses = append(uses, u)
			}
			var decl []uint32
			for _, dd := range p.Declared {
				decl = append(decl, dd[1])
				if !seenName[dd[1]] {
					seenName[dd[1]] = true
					names = append(names, fmt.Sprintf("(%d,%s)", dd[1], cBytesStr(f.Symbols[dd[1]].Name)))
				}
			}
			parts = append(parts, fmt.Sprintf("(%s,%s,%s,%s)", CBool(p.IsLive), cU32s(p.Deps), cPairList(uses), cU32s(decl)))
		}
		var binds []string
		for _, b := range f.Binds {
			binds = append(binds, fmt.Sprintf("(%s,%s)", cPair(b.Key), cPair(b.Target)))
		}
		var exps [][2]uint32
		if f.IsEntry {
			for _, e := range f.Exports {
				if e.Ref[0] != e.Src {
					return "", "export ref of another file"
				}
				exps = append(exps, [2]uint32{e.Src, e.Ref[1]})
			}
		}
		fs = append(fs, fmt.Sprintf("([%s],[%s],[%s],[%s],%s)", strings.Join(recs, ";"), strings.Join(parts, ";"), strings.Join(binds, ";"), strings.Join(names, ";"), cPairList(exps)))
	}
	var user []uint32
	for _, e := range d.EntryPoints {
		if d.Files[e].IsUser {
			user = append(user, e)
		}
	}
	return fmt.Sprintf("([%s],%s,%s)", strings.Join(fs, ";\n   "), cU32s(user), CBool(minify)), ""
}

// the linker's chunks as a Coq term (list dchunk_z)
func dumpChunks(d *linker.VerifC10Dump) string {
	var items []string
	for _, c := range d.Chunks {
		entry := "(-1)"
		if c.IsEntry {
			entry = fmt.Sprintf("%d", c.SourceIndex)
		}
		var imps []string
		for _, im := range c.Imports {
			imps = append(imps, fmt.Sprintf("(%d,%s,%s)", im.Chunk, cPairList(im.Refs), cStrs(im.Aliases)))
		}
		var exps []string
		for i, r := range c.ExportRefs {
			exps = append(exps, fmt.Sprintf("(%s,%s)", cPair(r), cBytesStr(c.ExportNames[i])))
		}
		var cross []string
		for i, k := range c.CrossKinds {
			cross = append(cross, fmt.Sprintf("(%s,%d)", CBool(k == uint8(ast.ImportDynamic)), c.CrossChunks[i]))
		}
		items = append(items, fmt.Sprintf("(%s,%s,%s,[%s],[%s],[%s])", CBytes(c.EntryBits), entry, cU32s(c.FilesInOrder), strings.Join(imps, ";"), strings.Join(exps, ";"), strings.Join(cross, ";")))
	}
	return "[" + strings.Join(items, ";\n   ") + "]"
}

// ---------------------------------------------------------------------------
// building and observing

type buildCfg struct {
	MinifyIdent, MinifySyntax, MinifyWS bool
	EntryNames, ChunkNames              string
	PublicPath                          bool
}

func (c buildCfg) String() string {
	return fmt.Sprintf("minify(ident=%v,syntax=%v,ws=%v) entry-names=%q chunk-names=%q public-path=%v", c.MinifyIdent, c.MinifySyntax, c.MinifyWS, c.EntryNames, c.ChunkNames, c.PublicPath)
}

func randCfg(r *Rng) buildCfg {
	c := buildCfg{}
	switch r.Intn(4) {
	case 0:
	case 1:
		c.MinifyIdent, c.MinifySyntax, c.MinifyWS = true, true, true
	case 2:
		c.MinifyIdent = true
	case 3:
		c.MinifySyntax, c.MinifyWS = r.Bool(), r.Bool()
	}
	c.EntryNames = []string{"", "[dir]/[name]", "[name]-[hash]", "entries/[name]"}[r.Intn(4)]
	c.ChunkNames = []string{"", "[name]-[hash]", "chunks/[name]-[hash]", "[hash]", "shared/c-[hash]"}[r.Intn(5)]
	c.PublicPath = r.Chance(20)
	return c
}

type metaOut struct {
	Imports []struct {
		Path string `json:"path"`
		Kind string `json:"kind"`
	} `json:"imports"`
	Exports    []string        `json:"exports"`
	EntryPoint string          `json:"entryPoint"`
	Inputs     json.RawMessage `json:"inputs"`
}

type obsChunk struct {
	path    string // relative to the working dir
	entry   int    // entry file id or 0
	files   []int  // in output order
	static  []obsImport
	dynamic []string // paths
	exports []string // cross-chunk export aliases in text order (non-entry chunks)
	text    string
	imports []parsedImport
	expAll  []string // every exported alias (text)
}
type obsImport struct {
	path  string
	items []string
}
type parsedImport struct {
	path   string
	items  [][2]string // (export alias of the other chunk, local name)
	isBare bool
}

var reImport = regexp.MustCompile(`import\s*(?:\{([^}]*)\}\s*from\s*)?"([^"]+)"`)
var reExport = regexp.MustCompile(`export\s*\{([^}]*)\}`)
var reDynamic = regexp.MustCompile(`import\("([^"]+)"\)`)

// keys of a JSON object in textual order
func orderedKeys(raw json.RawMessage) []string {
	dec := json.NewDecoder(strings.NewReader(string(raw)))
	var keys []string
	depth := 0
	expectKey := false
	for {
		tok, err := dec.Token()
		if err != nil {
			break
		}
		switch t := tok.(type) {
		case json.Delim:
			if t == '{' || t == '[' {
				depth++
				expectKey = t == '{' && depth == 1
			} else {
				depth--
				expectKey = depth == 1
			}
		case string:
			if depth == 1 && expectKey {
				keys = append(keys, t)
				expectKey = false
			} else if depth == 1 {
				expectKey = true
			}
		default:
			if depth == 1 {
				expectKey = true
			}
		}
	}
	return keys
}

func splitItems(s string) [][2]string {
	var out [][2]string
	for _, it := range strings.Split(s, ",") {
		it = strings.TrimSpace(it)
		if it == "" {
			continue
		}
		parts := strings.Fields(it)
		if len(parts) == 3 && parts[1] == "as" {
			out = append(out, [2]string{parts[0], parts[2]})
		} else {
			out = append(out, [2]string{parts[0], parts[0]})
		}
	}
	return out
}

type built struct {
	ok     bool
	errs   []string
	chunks []*obsChunk
	outdir string
}

func (g *graphCase) fileByName(n string) int {
	for _, m := range g.mods {
		if m.name == n {
			return m.id
		}
	}
	return -1
}

func (g *graphCase) build(root, outdir string, cfg buildCfg, splitting bool) built {
	var eps []string
	for _, e := range g.user {
		eps = append(eps, "src/"+g.m(e).name+".js")
	}
	opts := api.BuildOptions{
		AbsWorkingDir:     root,
		EntryPoints:       eps,
		Bundle:            true,
		Splitting:         splitting,
		Format:            api.FormatESModule,
		Outdir:            outdir,
		Metafile:          true,
		Write:             true,
		LogLevel:          api.LogLevelSilent,
		MinifyIdentifiers: cfg.MinifyIdent,
		MinifySyntax:      cfg.MinifySyntax,
		MinifyWhitespace:  cfg.MinifyWS,
		EntryNames:        cfg.EntryNames,
		ChunkNames:        cfg.ChunkNames,
	}
	if cfg.PublicPath && splitting {
		opts.PublicPath = "file://" + filepath.ToSlash(filepath.Join(root, outdir)) + "/"
	}
	res := api.Build(opts)
	b := built{outdir: outdir}
	if len(res.Errors) > 0 {
		for _, e := range res.Errors {
			b.errs = append(b.errs, e.Text)
		}
		return b
	}
	var meta struct {
		Outputs map[string]metaOut `json:"outputs"`
	}
	if err := json.Unmarshal([]byte(res.Metafile), &meta); err != nil {
		b.errs = append(b.errs, "metafile: "+err.Error())
		return b
	}
	var paths []string
	for p := range meta.Outputs {
		paths = append(paths, p)
	}
	sort.Strings(paths)
	for _, p := range paths {
		mo := meta.Outputs[p]
		oc := &obsChunk{path: p}
		if mo.EntryPoint != "" {
			oc.entry = g.fileByName(strings.TrimSuffix(filepath.Base(mo.EntryPoint), ".js"))
		}
		for _, k := range orderedKeys(mo.Inputs) {
			oc.files = append(oc.files, g.fileByName(strings.TrimSuffix(filepath.Base(k), ".js")))
		}
		data, err := os.ReadFile(filepath.Join(root, p))
		if err != nil {
			b.errs = append(b.errs, "output missing on disk: "+p)
			return b
		}
		oc.text = string(data)
		// execution order of the files inside the chunk: the order of their
		// start markers in the emitted text (the metafile lists inputs in
		// another order)
		sort.SliceStable(oc.files, func(i, j int) bool {
			pi := strings.Index(oc.text, "\""+g.m(oc.files[i]).name+":start\"")
			pj := strings.Index(oc.text, "\""+g.m(oc.files[j]).name+":start\"")
			return pi < pj
		})
		for _, mi := range mo.Imports {
			if mi.Kind == "dynamic-import" {
				oc.dynamic = append(oc.dynamic, mi.Path)
			}
		}
		for _, mm := range reImport.FindAllStringSubmatch(oc.text, -1) {
			pi := parsedImport{path: mm[2]}
			if strings.Contains(mm[0], "{") {
				pi.items = splitItems(mm[1])
			} else {
				pi.isBare = true
			}
			oc.imports = append(oc.imports, pi)
		}
		if all := reExport.FindAllStringSubmatch(oc.text, -1); len(all) > 0 {
			for _, m := range all {
				for _, it := range splitItems(m[1]) {
					oc.expAll = append(oc.expAll, it[1])
				}
			}
			if oc.entry == 0 {
				for _, it := range splitItems(all[len(all)-1][1]) {
					oc.exports = append(oc.exports, it[1])
				}
			}
		}
		b.chunks = append(b.chunks, oc)
	}
	b.ok = true
	return b
}

func (b *built) byBase(p string) *obsChunk {
	base := filepath.Base(p)
	for _, c := range b.chunks {
		if filepath.Base(c.path) == base {
			return c
		}
	}
	return nil
}

// idm maps the harness's file ids to the linker's source indices (the ids of the model input)
func rep(c *obsChunk, idm map[int]int) int {
	if c.entry != 0 {
		return 1000 + idm[c.entry]
	}
	m := 0
	for _, f := range c.files {
		if m == 0 || idm[f] < m {
			m = idm[f]
		}
	}
	return m
}

// observed chunks as a Coq term; also returns a problem description when the
// emitted files refer to something that does not exist
func (b *built) coqObs(idm map[int]int) (string, string) {
	var items []string
	problem := ""
	for _, c := range b.chunks {
		var st []string
		for _, pi := range c.imports {
			t := b.byBase(pi.path)
			if t == nil {
				problem = fmt.Sprintf("chunk %s imports %q which is not among the outputs", c.path, pi.path)
				continue
			}
			var al []string
			for _, it := range pi.items {
				al = append(al, it[0])
			}
			st = append(st, fmt.Sprintf("(%d,%s)", rep(t, idm), cStrs(al)))
		}
		var dyn []int
		for _, p := range c.dynamic {
			t := b.byBase(p)
			if t == nil {
				problem = fmt.Sprintf("chunk %s dynamically imports %q which is not among the outputs", c.path, p)
				continue
			}
			if t != c {
				// crossChunkImports does not list the chunk itself
				dyn = append(dyn, rep(t, idm))
			}
		}
		sort.Ints(dyn)
		dyn = uniqInts(dyn)
		var files []int
		for _, f := range c.files {
			files = append(files, idm[f])
		}
		items = append(items, fmt.Sprintf("(%d,%s,[%s],%s,%s)", rep(c, idm), cInts(files), strings.Join(st, ";"), cInts(dyn), cStrs(c.exports)))
	}
	return "[" + strings.Join(items, ";") + "]", problem
}

func uniqInts(xs []int) []int {
	var out []int
	for i, x := range xs {
		if i == 0 || x != xs[i-1] {
			out = append(out, x)
		}
	}
	return out
}

// ---------------------------------------------------------------------------
// static checks on the emitted chunks (part of the property's predicate)

func (b *built) staticChecks() (what, detail string) {
	// every imported path and name exists
	for _, c := range b.chunks {
		for _, pi := range c.imports {
			t := b.byBase(pi.path)
			if t == nil {
				return "chunk imports a file that was not emitted", c.path + " -> " + pi.path
			}
			for _, it := range pi.items {
				found := false
				for _, e := range t.expAll {
					if e == it[0] {
						found = true
					}
				}
				if !found {
					return "chunk imports a name the target chunk does not export", fmt.Sprintf("%s imports {%s} from %s which exports %v", c.path, it[0], t.path, t.expAll)
				}
			}
		}
		for _, m := range reDynamic.FindAllStringSubmatch(c.text, -1) {
			if b.byBase(m[1]) == nil {
				return "chunk dynamically imports a file that was not emitted", c.path + " -> " + m[1]
			}
		}
		// every exported local name is declared or imported in the chunk
		rest := reExport.ReplaceAllString(c.text, " ")
		for _, m := range reExport.FindAllStringSubmatch(c.text, -1) {
			if strings.Contains(m[0], " from") {
				continue
			}
			for _, it := range splitItems(m[1]) {
				re := regexp.MustCompile(`(^|[^\w$.])` + regexp.QuoteMeta(it[0]) + `($|[^\w$])`)
				if !re.MatchString(rest) {
					return "chunk exports a name it neither declares nor imports", fmt.Sprintf("%s: export {%s as %s}", c.path, it[0], it[1])
				}
			}
		}
		// duplicate export aliases are a syntax error
		seen := map[string]bool{}
		for _, e := range c.expAll {
			if seen[e] {
				return "chunk exports the same name twice", c.path + ": " + e
			}
			seen[e] = true
		}
		// no assignment to an imported binding
		for _, pi := range c.imports {
			for _, it := range pi.items {
				id := regexp.QuoteMeta(it[1])
				re := regexp.MustCompile(`(^|[^\w$.])` + id + `\s*(=[^=>]|\+\+|--|[-+*/%&|^]=|\*\*=|<<=|>>=|>>>=|&&=|\|\|=|\?\?=)|(\+\+|--)\s*` + id + `($|[^\w$])`)
				if loc := re.FindStringIndex(c.text); loc != nil {
					return "chunk assigns to a binding imported from another chunk", fmt.Sprintf("%s: %q", c.path, clip(c.text[loc[0]:], 60))
				}
			}
		}
	}
	// static import graph acyclic
	color := map[*obsChunk]int{}
	var cyc []string
	var visit func(c *obsChunk) bool
	visit = func(c *obsChunk) bool {
		if color[c] == 1 {
			cyc = append(cyc, c.path)
			return true
		}
		if color[c] == 2 {
			return false
		}
		color[c] = 1
		for _, pi := range c.imports {
			if t := b.byBase(pi.path); t != nil && visit(t) {
				cyc = append(cyc, c.path)
				return true
			}
		}
		color[c] = 2
		return false
	}
	for _, c := range b.chunks {
		if visit(c) {
			return "static import cycle between chunks", strings.Join(cyc, " <- ")
		}
	}
	return "", ""
}

func clip(s string, n int) string {
	if len(s) > n {
		return s[:n]
	}
	return s
}

// ---------------------------------------------------------------------------
// Node oracle

// One node process; every job gets a fresh V8 context with its own module map
// (vm.SourceTextModule: V8's own ES module linking and evaluation), so each
// job is one "runtime" into which the listed files are imported in order.
const runnerSrc = `
import vm from 'node:vm';
import fs from 'node:fs';
import path from 'node:path';
import { fileURLToPath, pathToFileURL } from 'node:url';
const jobs = JSON.parse(fs.readFileSync(process.argv[2], 'utf8'));
const tick = () => new Promise(r => setImmediate(r));
async function runJob(job) {
  const ctx = vm.createContext({ __L: [], __P: [], __V: {} });
  const cache = new Map();
  const resolve = (spec, parentURL) => {
    if (spec.startsWith('file:')) return fileURLToPath(spec);
    if (!(spec.startsWith('./') || spec.startsWith('../') || spec.startsWith('/'))) throw new Error("Cannot find package '" + spec + "' (bare specifier)");
    return path.resolve(path.dirname(fileURLToPath(parentURL)), spec);
  };
  const load = file => {
    let m = cache.get(file);
    if (!m) {
      m = new vm.SourceTextModule(fs.readFileSync(file, 'utf8'), { context: ctx, identifier: pathToFileURL(file).href,
        importModuleDynamically: (spec, ref) => dyn(resolve(spec, ref.identifier)) });
      cache.set(file, m);
    }
    return m;
  };
  const linker = (spec, ref) => load(resolve(spec, ref.identifier));
  const dyn = async file => {
    const m = load(file);
    await null; // import() never evaluates synchronously (ContinueDynamicImport runs in a job)
    for (let i = 0; i < 10000 && (m.status === 'linking' || m.status === 'evaluating'); i++) await tick();
    if (m.status === 'unlinked') await m.link(linker);
    for (let i = 0; i < 10000 && (m.status === 'linking' || m.status === 'evaluating'); i++) await tick();
    if (m.status === 'linked') await m.evaluate();
    if (m.status === 'errored') throw m.error;
    return m;
  };
  const drain = async () => { let n = 0; while (ctx.__P.length && n++ < 1000) { const p = ctx.__P.splice(0); await Promise.all(p); } };
  const res = { log: [], err: null, views: {}, entryViews: [] };
  try {
    const nss = [];
    for (const f of job.files) { nss.push((await dyn(f)).namespace); await drain(); }
    for (const k of Object.keys(ctx.__V).sort()) res.views[k] = String(ctx.__V[k]());
    const snap = ns => Object.keys(ns).sort().map(k => k + '=' + (typeof ns[k] === 'function' ? 'function' : String(ns[k]))).join(',');
    for (const ns of nss) res.entryViews.push(snap(ns));
    // call every exported mutator through the entry namespace, then read the (live) bindings again
    for (const ns of nss) for (const k of Object.keys(ns).sort()) if (typeof ns[k] === 'function') res.entryViews.push(k + '()=' + String(ns[k]()));
    for (const ns of nss) res.entryViews.push(snap(ns));
    for (const k of Object.keys(ctx.__V).sort()) res.views[k + '#2'] = String(ctx.__V[k]());
  } catch (e) { res.err = String(e && e.message || e).split('\n')[0]; }
  res.log = Array.from(ctx.__L, String);
  return res;
}
const results = [];
let stray = [];
process.on('unhandledRejection', e => { stray.push(String(e && e.message || e).split('\n')[0]); });
for (const job of jobs) {
  stray = [];
  const r = await runJob(job);
  await tick();
  if (stray.length && !r.err) r.err = 'unhandled rejection: ' + stray[0];
  results.push(r);
}
fs.writeFileSync(process.argv[3], JSON.stringify(results));
`

type job struct {
	Files []string `json:"files"`
}
type jobResult struct {
	Log        []string          `json:"log"`
	Err        *string           `json:"err"`
	Views      map[string]string `json:"views"`
	EntryViews []string          `json:"entryViews"`
}

func runNode(dir string, jobs []job) ([]jobResult, error) {
	runner := filepath.Join(dir, "runner.mjs")
	if err := os.WriteFile(runner, []byte(runnerSrc), 0o644); err != nil {
		return nil, err
	}
	jf := filepath.Join(dir, "jobs.json")
	rf := filepath.Join(dir, "results.json")
	data, _ := json.Marshal(jobs)
	if err := os.WriteFile(jf, data, 0o644); err != nil {
		return nil, err
	}
	cmd := exec.Command("node", "--experimental-vm-modules", "--no-warnings", runner, jf, rf)
	out, err := cmd.CombinedOutput()
	if err != nil {
		return nil, fmt.Errorf("node: %v: %s", err, clip(string(out), 2000))
	}
	rd, err := os.ReadFile(rf)
	if err != nil {
		return nil, err
	}
	var res []jobResult
	if err := json.Unmarshal(rd, &res); err != nil {
		return nil, err
	}
	if len(res) != len(jobs) {
		return nil, fmt.Errorf("node: %d results for %d jobs", len(res), len(jobs))
	}
	return res, nil
}

// per-module projection of the event log: module -> its events in order
func project(log []string) map[string][]string {
	out := map[string][]string{}
	for _, e := range log {
		k := e
		if i := strings.IndexByte(e, ':'); i >= 0 {
			k = e[:i]
		}
		out[k] = append(out[k], e)
	}
	return out
}

// compares a run of emitted code with the reference run; "" when they agree
func compareRuns(got, ref jobResult) string {
	if ref.Err != nil {
		return "" // the reference itself fails: not a usable case
	}
	if got.Err != nil {
		return "error while loading: " + *got.Err
	}
	pg, pr := project(got.Log), project(ref.Log)
	var keys []string
	for k := range pr {
		keys = append(keys, k)
	}
	for k := range pg {
		if _, ok := pr[k]; !ok {
			keys = append(keys, k)
		}
	}
	sort.Strings(keys)
	for _, k := range keys {
		a, b := pg[k], pr[k]
		if strings.Join(a, "\n") != strings.Join(b, "\n") {
			return fmt.Sprintf("events of module %s differ: got %v, expected %v", k, a, b)
		}
	}
	var vk []string
	for k := range ref.Views {
		vk = append(vk, k)
	}
	for k := range got.Views {
		if _, ok := ref.Views[k]; !ok {
			vk = append(vk, k)
		}
	}
	sort.Strings(vk)
	for _, k := range vk {
		if got.Views[k] != ref.Views[k] {
			return fmt.Sprintf("final state seen by module %s differs: got %q, expected %q", k, got.Views[k], ref.Views[k])
		}
	}
	if strings.Join(got.EntryViews, ";") != strings.Join(ref.EntryViews, ";") {
		return fmt.Sprintf("entry point namespaces differ: got %v, expected %v", got.EntryViews, ref.EntryViews)
	}
	return ""
}

// all non-empty ordered subsets (k<=3), or a sample when there are more entries
func sequences(r *Rng, ents []int, limit int) [][]int {
	var out [][]int
	var rec func(cur []int, used map[int]bool)
	rec = func(cur []int, used map[int]bool) {
		if len(cur) > 0 {
			out = append(out, append([]int{}, cur...))
		}
		for _, e := range ents {
			if !used[e] {
				used[e] = true
				rec(append(cur, e), used)
				used[e] = false
			}
		}
	}
	rec(nil, map[int]bool{})
	if len(out) > limit {
		// keep all singletons and the full-length orders first, then a sample
		sort.SliceStable(out, func(i, j int) bool {
			a, b := len(out[i]), len(out[j])
			ra := a == 1 || a == len(ents)
			rb := b == 1 || b == len(ents)
			return ra && !rb
		})
		keep := out[:0]
		for i, s := range out {
			if i < limit/2 || r.Chance(100*limit/(2*len(out))) {
				keep = append(keep, s)
			}
		}
		out = keep
	}
	return out
}

// ---------------------------------------------------------------------------

type pendingCase struct {
	g       *graphCase
	root    string
	cfg     buildCfg
	split   built
	unsplit built
	seqs    [][]int
	// job indices
	native, splitJ []int
	unsplitJ       map[int]int // entry id -> job (single-entry loads)
}

func (g *graphCase) describe(cfg buildCfg, withSources bool) map[string]interface{} {
	files := map[string]string{}
	for _, m := range g.mods {
		files["src/"+m.name+".js"] = g.source(m)
	}
	var eps []string
	for _, e := range g.user {
		eps = append(eps, "src/"+g.m(e).name+".js")
	}
	d := map[string]interface{}{"entryPoints": eps, "options": "bundle splitting format=esm " + cfg.String(), "shape": g.desc}
	if g.scenario != "" {
		d["scenario"] = g.scenario
	}
	if withSources {
		d["files"] = files
	}
	return d
}

func (p *pendingCase) outPath(b *built, entry int) string {
	for _, c := range b.chunks {
		if c.entry == entry {
			return filepath.Join(p.root, c.path)
		}
	}
	return ""
}

func runC10(seed uint64, n int, tier string, outDir string) []*Stats {
	t0 := time.Now()
	// hlib's streams for consecutive seeds are shifted copies of each other; mix the seed first
	mixed := (seed ^ (seed >> 31) ^ 0x2545F4914F6CDD1D) * 0xD6E8FEB86659FD93
	mixed ^= mixed >> 29
	r := NewRng(mixed)
	cf := NewCoqFile("From V Require Import Common.Base C10.Harness.")
	tmp, err := os.MkdirTemp("", "verif-c10-")
	if err != nil {
		panic(err)
	}
	if os.Getenv("C10_KEEP") == "" {
		defer os.RemoveAll(tmp)
	}

	stB := NewStats("c10-bitset-renamer", seed)
	unitCases(r, n, stB, cf, tmp)
	stB.Finish("distinct input AND at least one set bit / one renamed or multi-character name")

	stS := NewStats("c10-split", seed)
	var fullItems []string
	var pend []*pendingCase
	var jobs []job

	// wall-clock budget for generating and building cases (thorough tier): when it is used up no
	// further case is started; planned and run counts go to the stats
	budget := time.Duration(0)
	if tier == "thorough" {
		budget = 150 * time.Second
		if v := os.Getenv("C10_BUDGET_S"); v != "" {
			var sec int
			if _, err := fmt.Sscanf(v, "%d", &sec); err == nil {
				budget = time.Duration(sec) * time.Second
			}
		}
	}
	over := func() bool { return budget > 0 && time.Since(t0) > budget }
	planned, run := map[string]int{}, map[string]int{}
	plan := func(fam string, k int) { planned[fam] += k }
	caseNo := 0
	curFam := ""
	handle := func(g *graphCase, cfg buildCfg, full bool, oracle bool) {
		caseNo++
		run[curFam]++
		root := filepath.Join(tmp, fmt.Sprintf("c%d", caseNo))
		os.MkdirAll(filepath.Join(root, "src"), 0o755)
		os.WriteFile(filepath.Join(root, "package.json"), []byte(`{"type":"module"}`), 0o644)
		for _, m := range g.mods {
			os.WriteFile(filepath.Join(root, "src", m.name+".js"), []byte(g.source(m)), 0o644)
		}
		b := g.build(root, "out", cfg, true)
		// the linker's own data for the same sources and options
		key, why := "", ""
		idm := map[int]int{}
		dump, derr := g.linkDump(cfg)
		if derr != "" {
			why = derr
			if strings.HasPrefix(derr, "HOOKDIFF") {
				stS.Fail("the dumping copy of Link (verif hook) produces other output than Link", g.describe(cfg, true), derr, "identical outputs")
			}
		} else {
			key, why = dumpGraph(dump, cfg.MinifyIdent)
			for fi := range dump.Files {
				if id := g.fileByName(strings.TrimSuffix(filepath.Base(dump.Files[fi].Path), ".js")); id > 0 && dump.Files[fi].IsJS {
					idm[id] = fi
				}
			}
		}
		if !b.ok {
			stS.Note("build-error", key, false)
			stS.Fail("splitting build of a valid module graph fails", g.describe(cfg, true), b.errs, "no errors")
			return
		}
		for _, e := range g.user {
			found := false
			for _, c := range b.chunks {
				if c.entry == e {
					found = true
				}
			}
			if !found {
				stS.Fail("entry point has no output chunk", g.describe(cfg, true), "no output with entryPoint "+g.m(e).name+".js", "one output per entry point")
			}
		}
		obs, problem := b.coqObs(idm)
		if problem != "" {
			stS.Fail("emitted chunks reference a chunk that does not exist", g.describe(cfg, true), problem, "every imported path is an output")
		}
		if what, detail := b.staticChecks(); what != "" {
			stS.Fail(what, g.describe(cfg, true), detail, "no static cycle, no assignment to imports, all imported names exist")
		}
		shared := 0
		for _, c := range b.chunks {
			if c.entry == 0 {
				shared++
			}
		}
		kind := fmt.Sprintf("split k=%d shared=%d", len(g.user), shared)
		if !full {
			kind = "incidence " + kind
		}
		stS.Note(kind, key+obs, shared > 0)
		stS.Sample(map[string]interface{}{"entries": len(g.user), "files": len(g.mods), "chunks": len(b.chunks), "shape": g.desc})
		if why != "" {
			stS.Note("outside-model: "+strings.SplitN(why, " ", 2)[0], g.desc, false)
		} else {
			fullItems = append(fullItems, fmt.Sprintf("(%s,\n  %s,\n  %s)", key, obs, dumpChunks(dump)))
			// the linker's chunks and the emitted files must be the same chunks
			if len(dump.Chunks) != len(b.chunks) {
				stS.Fail("the linker computed other chunks than api.Build emitted", g.describe(cfg, true), fmt.Sprintf("%d chunks in the linker, %d outputs", len(dump.Chunks), len(b.chunks)), "same chunks")
			}
		}
		if !oracle {
			os.RemoveAll(root)
			return
		}
		p := &pendingCase{g: g, root: root, cfg: cfg, split: b, unsplitJ: map[int]int{}}
		ucfg := cfg
		ucfg.PublicPath = false
		p.unsplit = g.build(root, "out-unsplit", ucfg, false)
		limit := 15
		if tier == "quick" {
			limit = 9
		}
		p.seqs = sequences(r, g.user, limit)
		for _, sq := range p.seqs {
			var nf, sf []string
			for _, e := range sq {
				nf = append(nf, filepath.Join(root, "src", g.m(e).name+".js"))
				sf = append(sf, p.outPath(&b, e))
			}
			p.native = append(p.native, len(jobs))
			jobs = append(jobs, job{Files: nf})
			p.splitJ = append(p.splitJ, len(jobs))
			jobs = append(jobs, job{Files: sf})
			if len(sq) == 1 && p.unsplit.ok {
				p.unsplitJ[sq[0]] = len(jobs)
				jobs = append(jobs, job{Files: []string{p.outPath(&p.unsplit, sq[0])}})
			}
		}
		pend = append(pend, p)
	}

	// (1) rich random graphs: full comparison + oracle
	nRich := n
	curFam = "rich"
	plan(curFam, nRich)
	for i := 0; i < nRich && !over(); i++ {
		k := 2 + r.Intn(2)
		if r.Chance(8) {
			k = 4
		}
		nm := 1 + r.Intn(6)
		inc := make([][]bool, k)
		for a := range inc {
			inc[a] = make([]bool, nm)
			for b := range inc[a] {
				inc[a][b] = r.Chance(55)
			}
		}
		g := genGraph(r, k, nm, inc, true)
		g.desc = fmt.Sprintf("rich k=%d modules=%d", k, nm)
		handle(g, randCfg(r), true, true)
	}
	// (1b) shared leaves at different distances
	nDist := 12
	if tier == "thorough" {
		nDist = n / 2
	}
	curFam = "distance"
	plan(curFam, nDist)
	for i := 0; i < nDist && !over(); i++ {
		handle(genDistance(r), buildCfg{MinifyIdent: i%4 == 3}, true, i%3 == 0)
	}
	// (1e) replay of the witness of Properties.chunk_order_respects_evaluation_refuted: e0 imports a
	// private module and then a shared one; ESM runs a, s, e0, the split output s, a, e0
	{
		g := &graphCase{scenario: "evaluation-order/private-before-shared", desc: "entry imports a private module, then a shared one"}
		g.mods = []*mod{
			{id: 1, name: "e0", user: true, varKW: "let", stmts: []stmt{{kind: kBare, target: 3}, {kind: kBare, target: 4}}},
			{id: 2, name: "e1", user: true, varKW: "let", stmts: []stmt{{kind: kBare, target: 4}}},
			{id: 3, name: "m0", varKW: "let"},
			{id: 4, name: "m1", varKW: "let"},
		}
		g.user = []int{1, 2}
		g.fill(r)
		handle(g, buildCfg{}, true, true)
	}
	// (1f) captured namespace objects fed by export-star chains ending in a re-exported import
	curFam = "ns-star"
	plan(curFam, n/4+6)
	for i := 0; i < n/4+6 && !over(); i++ {
		cfg := buildCfg{}
		if i%3 == 2 {
			cfg = randCfg(r)
		}
		handle(genNsStar(r), cfg, true, true)
	}
	// (1d) colliding top-level names in one shared chunk (identifiers not minified)
	curFam = "names"
	plan(curFam, n/3+8)
	for i := 0; i < n/3+8 && !over(); i++ {
		handle(genNames(r), buildCfg{MinifySyntax: i%3 == 1, MinifyWS: i%3 == 1}, true, i%2 == 0)
	}
	// (1c) entry points re-exporting bindings that live in shared chunks
	nRe := n/2 + 10
	curFam = "reexport"
	plan(curFam, nRe)
	for i := 0; i < nRe && !over(); i++ {
		cfg := buildCfg{}
		if i%2 == 1 {
			cfg = randCfg(r)
		}
		handle(genReexport(r), cfg, true, true)
	}
	// (2) incidence patterns: bounded-exhaustive in the thorough tier, sampled in quick
	// A pattern is a k x n incidence matrix; column j (a subset of the entry
	// points, as a bit mask) says which entry points import module j.  The
	// thorough tier enumerates every multiset of columns for k <= 3, n <= 5
	// (every incidence pattern up to renaming of the modules; the column
	// order is then shuffled with the seed), the quick tier every matrix for
	// n <= 2 plus a sample.
	type pat struct {
		k, n int
		cols []int
	}
	var pats []pat
	if tier == "thorough" {
		for k := 2; k <= 3; k++ {
			for nm := 1; nm <= 5; nm++ {
				var rec func(cur []int, lo int)
				rec = func(cur []int, lo int) {
					if len(cur) == nm {
						cols := append([]int{}, cur...)
						for i := len(cols) - 1; i > 0; i-- {
							j := r.Intn(i + 1)
							cols[i], cols[j] = cols[j], cols[i]
						}
						pats = append(pats, pat{k, nm, cols})
						return
					}
					for c := lo; c < 1<<uint(k); c++ {
						rec(append(cur, c), c)
					}
				}
				rec(nil, 0)
			}
		}
	} else {
		for k := 2; k <= 3; k++ {
			for nm := 1; nm <= 2; nm++ {
				for b := 0; b < 1<<uint(k*nm); b++ {
					cols := make([]int, nm)
					for j := range cols {
						cols[j] = (b >> uint(j*k)) & (1<<uint(k) - 1)
					}
					pats = append(pats, pat{k, nm, cols})
				}
			}
		}
		for i := 0; i < n; i++ {
			k := 2 + r.Intn(2)
			nm := 3 + r.Intn(3)
			cols := make([]int, nm)
			for j := range cols {
				cols[j] = r.Intn(1 << uint(k))
			}
			pats = append(pats, pat{k, nm, cols})
		}
	}
	if tier == "thorough" {
		// the three seeds of a thorough run (s, s+1, s+2) each take one third of the enumeration
		var mine []pat
		for pi, p := range pats {
			if pi%3 == int(seed%3) {
				mine = append(mine, p)
			}
		}
		pats = mine
	}
	curFam = "incidence"
	plan(curFam, len(pats))
	for pi, p := range pats {
		if over() {
			break
		}
		inc := make([][]bool, p.k)
		for a := range inc {
			inc[a] = make([]bool, p.n)
			for b := range inc[a] {
				inc[a][b] = p.cols[b]&(1<<uint(a)) != 0
			}
		}
		g := genGraph(r, p.k, p.n, inc, false)
		g.desc = fmt.Sprintf("incidence k=%d modules=%d columns=%v", p.k, p.n, p.cols)
		cfg := buildCfg{MinifyIdent: pi%3 == 1}
		oracle := tier == "thorough" && pi%16 == 0 || tier != "thorough" && pi%8 == 0
		handle(g, cfg, true, oracle)
	}

	// (2b) fixed replays of known findings (oracle only; the model is not consulted)
	nFull := len(fullItems)
	for _, g := range scenarioGraphs(r) {
		handle(g, buildCfg{}, true, true)
	}
	fullItems = fullItems[:nFull]

	// (3) run Node once for all jobs
	tBuild := time.Since(t0)
	if len(jobs) > 0 {
		res, err := runNode(tmp, jobs)
		stS.Extra["node_seconds"] = time.Since(t0).Seconds() - tBuild.Seconds()
		if err != nil {
			stS.Fail("node oracle could not run", map[string]interface{}{"jobs": len(jobs)}, err.Error(), "results")
		} else {
			for _, p := range pend {
				evalOracle(p, res, stS, tmp)
			}
		}
	}
	stS.Extra["planned"] = planned
	stS.Extra["run"] = run
	stS.Extra["budget_seconds"] = budget.Seconds()
	stS.Extra["node_jobs"] = len(jobs)
	stS.Extra["build_seconds"] = tBuild.Seconds()
	stC := NewStats("c10-css", seed)
	nCSS := n + 10
	if tier == "thorough" {
		nCSS = 2 * n
	}
	cssCases(r, nCSS, tmp, stC, cf)
	stC.Finish("distinct (graph, CSS chunks) AND some CSS file shared between entry points")
	// one family: the model is evaluated once per case and compared with the emitted chunks and
	// with the linker's own chunk data
	cf.AddCases("split", "graph_z * list obs_z * list dchunk_z", "check_full", fullItems)
	stS.Finish("distinct (graph, observed chunks) AND at least one shared chunk")

	if err := os.WriteFile(filepath.Join(outDir, "c10_cases.v"), []byte(cf.String()), 0o644); err != nil {
		panic(err)
	}
	return []*Stats{stB, stS, stC}
}

func evalOracle(p *pendingCase, res []jobResult, st *Stats, tmp string) {
	g := p.g
	seqNames := func(sq []int) []string {
		var out []string
		for _, e := range sq {
			out = append(out, g.m(e).name)
		}
		return out
	}
	for i, sq := range p.seqs {
		ref := res[p.native[i]]
		got := res[p.splitJ[i]]
		if strings.HasPrefix(g.scenario, "evaluation-order/") && len(sq) == 1 && sq[0] == g.user[0] && ref.Err == nil && got.Err == nil {
			pos := func(log []string, ev string) int {
				for k, e := range log {
					if e == ev {
						return k
					}
				}
				return -1
			}
			nat := pos(ref.Log, "m0:start") < pos(ref.Log, "m1:start")
			spl := pos(got.Log, "m1:start") >= 0 && pos(got.Log, "m1:start") < pos(got.Log, "m0:start")
			if nat && spl {
				st.Note("documented reordering reproduced (private module after shared chunk)", g.scenario, true)
			} else {
				st.Fail("the evaluation-order witness of the model does not reproduce on the implementation", g.describe(p.cfg, true),
					map[string]interface{}{"native": ref.Log, "split": got.Log}, "native m0 before m1, split m1 before m0")
			}
		}
		st.Note("oracle split-vs-native", fmt.Sprintf("%p-%d", p, i), len(sq) > 1)
		if ref.Err != nil {
			st.Note("oracle reference-error", *ref.Err, false)
			continue
		}
		// exactly once per program
		for mod, ev := range project(got.Log) {
			starts := 0
			for _, e := range ev {
				if strings.HasSuffix(e, ":start") {
					starts++
				}
			}
			if starts > 1 {
				d := g.describe(p.cfg, true)
				d["load"] = seqNames(sq)
				st.Fail("module body runs more than once in one runtime", d, fmt.Sprintf("module %s started %d times", mod, starts), "once")
			}
		}
		if msg := compareRuns(got, ref); msg != "" {
			// re-run this one case twice before reporting it
			again, err := runNode(tmp, []job{{Files: jobFiles(p, sq, true)}, {Files: jobFiles(p, sq, false)}, {Files: jobFiles(p, sq, true)}, {Files: jobFiles(p, sq, false)}})
			if err == nil && compareRuns(again[0], again[1]) != "" && compareRuns(again[2], again[3]) != "" {
				d := g.describe(p.cfg, true)
				d["load"] = seqNames(sq)
				d["outputs"] = outputsOf(&p.split)
				st.Fail("split chunks behave differently from the source modules", d, msg, "same per-module events, same final shared state as native ESM execution")
			} else {
				st.Note("oracle flaky", fmt.Sprintf("%p-%d", p, i), false)
			}
		}
		if len(sq) == 1 {
			if j, ok := p.unsplitJ[sq[0]]; ok {
				un := res[j]
				st.Note("oracle split-vs-unsplit", fmt.Sprintf("%p-%d", p, i), true)
				if un.Err == nil {
					if msg := compareRuns(got, un); msg != "" {
						d := g.describe(p.cfg, true)
						d["load"] = seqNames(sq)
						d["outputs"] = outputsOf(&p.split)
						st.Fail("split chunks behave differently from the unsplit bundle", d, msg, "same per-module events and final state as the unsplit bundle of the entry point")
					}
				}
			}
		}
	}
}

func jobFiles(p *pendingCase, sq []int, split bool) []string {
	var out []string
	for _, e := range sq {
		if split {
			out = append(out, p.outPath(&p.split, e))
		} else {
			out = append(out, filepath.Join(p.root, "src", p.g.m(e).name+".js"))
		}
	}
	return out
}

func outputsOf(b *built) map[string]string {
	out := map[string]string{}
	for _, c := range b.chunks {
		out[c.path] = clip(c.text, 3000)
	}
	return out
}

// ---------------------------------------------------------------------------
// CSS side of code splitting: JS entry points and modules that import CSS files, CSS files
// that "@import" each other (chains, diamonds, repeated imports, cycles), CSS shared between
// entry points.  The model (Css.v) is compared with the linker's CSS chunks (dump) and with the
// emitted .css files; the property's predicate for CSS (one CSS file per entry point that
// reaches CSS, holding every CSS file reachable from that entry point exactly once) is
// evaluated on the emitted files from the generated graph itself.

var reCSSClass = regexp.MustCompile(`\.c(\d+)\b`)

func cssCases(r *Rng, n int, tmp string, st *Stats, cf *CoqFile) {
	var items []string
	for ci := 0; ci < n; ci++ {
		k := 2 + r.Intn(2)
		nj := r.Intn(3)
		nc := 2 + r.Intn(5)
		files := map[string]string{}
		// CSS import graph: mostly forward edges, sometimes a back edge (cycle) or a repeated import
		cssImp := make([][]int, nc)
		for a := 0; a < nc; a++ {
			for b := a + 1; b < nc; b++ {
				if r.Chance(35) {
					cssImp[a] = append(cssImp[a], b)
				}
			}
			if a > 0 && r.Chance(12) {
				cssImp[a] = append(cssImp[a], r.Intn(a)) // cycle
			}
			if len(cssImp[a]) > 0 && r.Chance(15) {
				cssImp[a] = append(cssImp[a], cssImp[a][0]) // the same file imported twice
			}
			for i := len(cssImp[a]) - 1; i > 0; i-- {
				j := r.Intn(i + 1)
				cssImp[a][i], cssImp[a][j] = cssImp[a][j], cssImp[a][i]
			}
		}
		for a := 0; a < nc; a++ {
			var sb strings.Builder
			for _, b := range cssImp[a] {
				fmt.Fprintf(&sb, "@import \"./c%d.css\";\n", b)
			}
			fmt.Fprintf(&sb, ".c%d { color: #%03d }\n", a, a)
			files[fmt.Sprintf("src/c%d.css", a)] = sb.String()
		}
		// JS: entries import modules and CSS files; modules import CSS files and later modules
		jsCSS := map[string][]int{}
		jsMods := map[string][]int{}
		names := []string{}
		for i := 0; i < k; i++ {
			names = append(names, fmt.Sprintf("e%d", i))
		}
		for j := 0; j < nj; j++ {
			names = append(names, fmt.Sprintf("m%d", j))
		}
		for idx, nm := range names {
			var lines []string
			for j := 0; j < nj; j++ {
				if (idx < k || idx-k < j) && r.Chance(45) {
					jsMods[nm] = append(jsMods[nm], j)
					lines = append(lines, fmt.Sprintf("import \"./m%d.js\";", j))
				}
			}
			for c := 0; c < nc; c++ {
				if r.Chance(30) {
					jsCSS[nm] = append(jsCSS[nm], c)
					lines = append(lines, fmt.Sprintf("import \"./c%d.css\";", c))
				}
			}
			for i := len(lines) - 1; i > 0; i-- {
				j := r.Intn(i + 1)
				lines[i], lines[j] = lines[j], lines[i]
			}
			lines = append(lines, fmt.Sprintf("console.log(%q);", nm))
			files["src/"+nm+".js"] = strings.Join(lines, "\n") + "\n"
		}
		var entries []string
		for i := 0; i < k; i++ {
			entries = append(entries, fmt.Sprintf("src/e%d.js", i))
		}
		input := map[string]interface{}{"files": files, "entryPoints": entries, "options": "bundle splitting format=esm outdir=out"}
		// expected CSS per entry from the generated graph: reachable JS modules, their CSS, closed under @import
		expect := map[int]map[int]bool{}
		for i := 0; i < k; i++ {
			seenJS := map[string]bool{}
			css := map[int]bool{}
			var visitCSS func(c int)
			visitCSS = func(c int) {
				if css[c] {
					return
				}
				css[c] = true
				for _, b := range cssImp[c] {
					visitCSS(b)
				}
			}
			var visitJS func(nm string)
			visitJS = func(nm string) {
				if seenJS[nm] {
					return
				}
				seenJS[nm] = true
				for _, j := range jsMods[nm] {
					visitJS(fmt.Sprintf("m%d", j))
				}
				for _, c := range jsCSS[nm] {
					visitCSS(c)
				}
			}
			visitJS(fmt.Sprintf("e%d", i))
			expect[i] = css
		}
		// public API build
		root := filepath.Join(tmp, fmt.Sprintf("css%d", ci))
		for p, txt := range files {
			os.MkdirAll(filepath.Dir(filepath.Join(root, p)), 0o755)
			os.WriteFile(filepath.Join(root, p), []byte(txt), 0o644)
		}
		res := api.Build(api.BuildOptions{AbsWorkingDir: root, EntryPoints: entries, Bundle: true, Splitting: true,
			Format: api.FormatESModule, Outdir: "out", Write: false, LogLevel: api.LogLevelSilent})
		if len(res.Errors) > 0 {
			st.Fail("splitting build with CSS fails", input, res.Errors[0].Text, "no errors")
			continue
		}
		text := map[int][]int{}
		for _, f := range res.OutputFiles {
			base := filepath.Base(f.Path)
			if !strings.HasSuffix(base, ".css") {
				continue
			}
			var e int
			if _, err := fmt.Sscanf(base, "e%d.css", &e); err != nil {
				st.Fail("CSS output that does not belong to an entry point", input, base, "one CSS file per entry point")
				continue
			}
			seen := map[int]bool{}
			for _, m := range reCSSClass.FindAllStringSubmatch(string(f.Contents), -1) {
				var c int
				fmt.Sscanf(m[1], "%d", &c)
				if seen[c] {
					st.Fail("a CSS file is emitted twice into one CSS chunk", input, fmt.Sprintf("%s: .c%d", base, c), "each CSS file once per chunk")
				}
				seen[c] = true
				text[e] = append(text[e], c)
			}
		}
		for i := 0; i < k; i++ {
			got := map[int]bool{}
			for _, c := range text[i] {
				got[c] = true
			}
			for c := range expect[i] {
				if !got[c] {
					st.Fail("CSS reachable from an entry point is missing from its CSS chunk", input, fmt.Sprintf("e%d.css lacks c%d.css", i, c), "every reachable CSS file")
				}
			}
			for c := range got {
				if !expect[i][c] {
					st.Fail("CSS chunk of an entry point contains CSS the entry point does not reach", input, fmt.Sprintf("e%d.css has c%d.css", i, c), "only reachable CSS")
				}
			}
		}
		// the linker's view
		abs := map[string]string{}
		var absEntries []string
		for p, txt := range files {
			abs["/"+p] = txt
		}
		for _, e := range entries {
			absEntries = append(absEntries, "/"+e)
		}
		dump, derr := linkDumpFiles(abs, absEntries, buildCfg{})
		if derr != "" {
			if strings.HasPrefix(derr, "HOOKDIFF") {
				st.Fail("the dumping copy of Link (verif hook) produces other output than Link", input, derr, "identical outputs")
			}
			st.Note("css dump-error", derr, false)
			continue
		}
		sidx := map[string]int{} // base name -> source index
		var fs []string
		for fi := range dump.Files {
			f := &dump.Files[fi]
			if f.Path != "" && (f.IsCSS || !strings.HasSuffix(f.Path, ".css")) {
				sidx[filepath.Base(f.Path)] = fi // the JS stub of a CSS file has the same path: take the CSS file
			}
			var recs []string
			src := f.PartRecords
			if f.IsCSS {
				src = f.CSSImports
			}
			for _, t := range src {
				recs = append(recs, fmt.Sprintf("%d", t))
			}
			stub := "(-1)"
			if f.IsJS && f.CSSIndex >= 0 {
				stub = fmt.Sprintf("%d", f.CSSIndex)
			}
			fs = append(fs, fmt.Sprintf("(%s,[%s],%s)", CBool(f.IsCSS), strings.Join(recs, ";"), stub))
		}
		var dchunks, tchunks []string
		shared := false
		for _, c := range dump.Chunks {
			if !c.IsJS {
				dchunks = append(dchunks, fmt.Sprintf("(%d,%s)", c.SourceIndex, cU32s(c.CSSOrder)))
			}
		}
		for i := 0; i < k; i++ {
			if len(text[i]) == 0 {
				continue
			}
			var ids []int
			for _, c := range text[i] {
				ids = append(ids, sidx[fmt.Sprintf("c%d.css", c)])
				for j := 0; j < k; j++ {
					if j != i && expect[j][c] {
						shared = true
					}
				}
			}
			tchunks = append(tchunks, fmt.Sprintf("(%d,%s)", sidx[fmt.Sprintf("e%d.js", i)], cInts(ids)))
		}
		item := fmt.Sprintf("([%s],%s,[%s],[%s])", strings.Join(fs, ";"), cU32s(dump.EntryPoints), strings.Join(dchunks, ";"), strings.Join(tchunks, ";"))
		items = append(items, item)
		st.Note(fmt.Sprintf("css k=%d css=%d chunks=%d", k, nc, len(dchunks)), item, shared)
		if ci < 2 {
			st.Sample(map[string]interface{}{"css-files": nc, "entries": k, "css-chunks": len(dchunks)})
		}
		os.RemoveAll(root)
	}
	cf.AddCases("css", "list cfile_z * list Z * list (Z * list Z) * list (Z * list Z)", "check_css", items)
}

// ---------------------------------------------------------------------------
// direct correspondence: BitSet, ExportRenamer, NumberToMinifiedName

// a name list on which the real ExportRenamer hands out the same alias twice
// is a failing input of the property's predicate (export aliases distinct); it
// is turned into a splitting project: one module per name, all imported by two
// entry points (one shared chunk exporting all of them), built and loaded
func materialiseNames(tmp string, idx int, names, aliases []string) (map[string]interface{}, string) {
	root := filepath.Join(tmp, fmt.Sprintf("ren%d", idx))
	os.MkdirAll(filepath.Join(root, "src"), 0o755)
	os.WriteFile(filepath.Join(root, "package.json"), []byte(`{"type":"module"}`), 0o644)
	files := map[string]string{}
	var imps, reads []string
	for i, nm := range names {
		files[fmt.Sprintf("src/f%d.js", i)] = fmt.Sprintf("globalThis.__L.push(\"f%d:start\");\nexport let %s = \"f%d:%s\";\n", i, nm, i, nm)
		imps = append(imps, fmt.Sprintf("import {%s as n%d} from \"./f%d.js\";", nm, i, i))
		reads = append(reads, fmt.Sprintf("n%d", i))
	}
	for _, e := range []string{"e0", "e1"} {
		files["src/"+e+".js"] = strings.Join(imps, "\n") + fmt.Sprintf("\nglobalThis.__L.push(\"%s:start\");\nglobalThis.__L.push(\"%s:read:\" + [%s].join(\",\"));\n", e, e, strings.Join(reads, ", "))
	}
	for p, txt := range files {
		os.WriteFile(filepath.Join(root, p), []byte(txt), 0o644)
	}
	input := map[string]interface{}{"names": names, "files": files, "entryPoints": []string{"src/e0.js", "src/e1.js"}, "options": "bundle splitting format=esm outdir=out (identifiers not minified)"}
	res := api.Build(api.BuildOptions{AbsWorkingDir: root, EntryPoints: []string{"src/e0.js", "src/e1.js"}, Bundle: true, Splitting: true,
		Format: api.FormatESModule, Outdir: "out", Write: true, LogLevel: api.LogLevelSilent})
	if len(res.Errors) > 0 {
		return input, "build error: " + res.Errors[0].Text
	}
	outs := map[string]string{}
	for _, f := range res.OutputFiles {
		outs[filepath.Base(f.Path)] = clip(string(f.Contents), 1500)
	}
	input["outputs"] = outs
	rr, err := runNode(root, []job{{Files: []string{filepath.Join(root, "out", "e0.js")}}, {Files: []string{filepath.Join(root, "src", "e0.js")}},
		{Files: []string{filepath.Join(root, "out", "e1.js"), filepath.Join(root, "out", "e0.js")}}, {Files: []string{filepath.Join(root, "src", "e1.js"), filepath.Join(root, "src", "e0.js")}}})
	if err != nil {
		return input, "node: " + err.Error()
	}
	if msg := compareRuns(rr[0], rr[1]); msg != "" {
		return input, "loading out/e0.js: " + msg
	}
	if msg := compareRuns(rr[2], rr[3]); msg != "" {
		return input, "loading out/e1.js, out/e0.js: " + msg
	}
	return input, ""
}

func unitCases(r *Rng, n int, st *Stats, cf *CoqFile, tmp string) {
	var items []string
	for i := 0; i < n+40; i++ {
		bitCount := 1 + r.Intn(40)
		if i < 40 {
			bitCount = i + 1
		}
		bs := helpers.NewBitSet(uint(bitCount))
		var sets []int
		cnt := r.Intn(bitCount + 1)
		for j := 0; j < cnt; j++ {
			b := r.Intn(bitCount)
			bs.SetBit(uint(b))
			sets = append(sets, b)
		}
		var probes []int
		var answers []string
		for b := 0; b < bitCount; b++ {
			probes = append(probes, b)
			answers = append(answers, CBool(bs.HasBit(uint(b))))
		}
		str := []byte(bs.String())
		items = append(items, fmt.Sprintf("(%d,%s,%s,%s,[%s])", bitCount, cInts(sets), CBytes(str), cInts(probes), strings.Join(answers, ";")))
		st.Note("bitset", fmt.Sprintf("%d %v", bitCount, sets), len(sets) > 0)
	}
	cf.AddCases("bitset", "Z * list Z * bytes * list Z * list bool", "check_bitset", items)

	pool := []string{"x", "x2", "x3", "v", "v2", "bump", "done", "a", "a1", "a10", "a2", "x22", "x_shared", "m0_exports", "v1", "v11"}
	var ritems []string
	materialised := 0
	for i := 0; i < n/2+20; i++ {
		ren := renamer.ExportRenamer{}
		cnt := 1 + r.Intn(12)
		var names, got []string
		sub := pool[:2+r.Intn(len(pool)-1)]
		for j := 0; j < cnt; j++ {
			nm := sub[r.Intn(len(sub))]
			names = append(names, nm)
			got = append(got, ren.NextRenamedName(nm))
		}
		renamed := false
		for j := range names {
			if names[j] != got[j] {
				renamed = true
			}
		}
		seenAlias := map[string]bool{}
		dup := ""
		for _, a := range got {
			if seenAlias[a] {
				dup = a
			}
			seenAlias[a] = true
		}
		if dup != "" && materialised < 3 {
			materialised++
			input, msg := materialiseNames(tmp, i, names, got)
			if msg == "" {
				msg = "(the project built from these names loads correctly)"
			}
			st.Fail("export aliases of a chunk are not pairwise distinct", input,
				map[string]interface{}{"aliases": got, "duplicate": dup, "project": msg}, "ExportRenamer.NextRenamedName never returns the same name twice; chunks load")
		}
		ritems = append(ritems, fmt.Sprintf("(%s,%s)", cStrs(names), cStrs(got)))
		st.Note("rename", strings.Join(names, ","), renamed)
		st.Sample(map[string]interface{}{"names": names, "renamed": got})
	}
	cf.AddCases("rename", "list bytes * list bytes", "check_rename", ritems)

	var mitems []string
	starts := []int{0, 40, 50, 53, 54, 100, 54 * 64, 54*64 + 54 - 3, 54*65 - 6, 54 * 65}
	for i := 0; i < 6; i++ {
		starts = append(starts, r.Intn(3600))
	}
	for _, s := range starts {
		var got []string
		for j := 0; j < 12; j++ {
			got = append(got, ast.DefaultNameMinifierJS.NumberToMinifiedName(s+j))
		}
		mitems = append(mitems, fmt.Sprintf("(%d,%s)", s, cStrs(got)))
		st.Note("minified-name", fmt.Sprint(s), s+11 >= 54)
	}
	cf.AddCases("minname", "Z * list bytes", "check_minname", mitems)
}
