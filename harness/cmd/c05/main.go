package main

// C05 harness: (1) correspondence of the Coq model of the expression lowerings
// with the real parser through api.Transform; (2) glue stream: generated
// closed programs using every lowerable construct, transformed for each
// target / Supported override / minify setting, original and output executed
// in Node (async-aware) and compared; (3) replay of the refuted-theorem
// witnesses on the real code.

import (
	"fmt"
	"os"
	"path/filepath"

	"github.com/evanw/esbuild/pkg/api"
	. "github.com/evanw/esbuild/verifharness/hlib"
)

func main() { Main("c05", run) }

func run(seed uint64, n int, tier string, outDir string) []*Stats {
	r := NewRng(seed)
	st := NewStats("c05", seed)
	cf := NewCoqFile("From V Require Import Common.Base C05.Syntax C05.Lower C05.Private C05.Harness.")
	if os.Getenv("C05_ONLY") == "private-oracle" { // development aid: volume for one stream
		privOracle(r, st, n)
		st.Finish("private oracle only")
		return []*Stats{st}
	}
	modelStream(r, st, cf, n)
	privStream(r, st, cf, n/2)
	privHelperPin(st)
	glueStream(r, st, n, tier)
	privOracle(r, st, n/5)
	witnessReplay(st)
	st.Finish("model stream: seeded MiniJS trees (chains of ./[]/() links with every OptionalChain flag, ??, ??=, ||=, &&=, **=, **, delete, assignment; literal/identifier/this/call operands) + a fixed grid, lowered by api.Transform under Supported overrides, reparsed by js_parser.Parse and compared with the Coq model modulo temp renaming; private stream: every private-name expression form (get, set, in, call, compound arithmetic, ??=/||=/&&=) x every member kind (field, method, getter, setter, pair, static) x captured/duplicated targets, lowered with all class-private-* features unsupported and compared with the Coq model plower, plus a pin of the helper bodies in runtime.go; glue stream: generated programs (hlib/jsgen + class/async/destructuring/template/spread generator) x targets ES2015..ES2022 and single-feature overrides x minify-syntax, original vs output executed in Node with probe logs compared after async completion; private oracle: classes with every kind of private member, forms run on receivers with and without the brand (instances, foreign objects, primitives, null, the class, a subclass), targets es2015..es2021 and class-private-* overrides; distinct_nontrivial = distinct (program, configuration) pairs that exercise at least one lowered construct")
	if err := os.WriteFile(filepath.Join(outDir, "c05_cases.v"), []byte(cf.String()), 0o644); err != nil {
		panic(err)
	}
	return []*Stats{st}
}

func modelStream(r *Rng, st *Stats, cf *CoqFile, n int) {
	g := &mgen{r: r}
	var items []string
	var itemsMin []string
	add := func(src *Ex, f featSet, kind string) {
		js := "v9 = (" + src.JS() + ");\n"
		opts := f.options()
		if kind == "random-tree-minify" {
			opts.MinifySyntax = true
		}
		res := api.Transform(js, opts)
		if len(res.Errors) > 0 {
			st.Histogram["model-input-rejected"]++
			if st.Histogram["model-input-rejected"] <= 3 {
				st.Extra[fmt.Sprintf("rejected-%d", st.Histogram["model-input-rejected"])] = js + " :: " + res.Errors[0].Text
			}
			return
		}
		out, why := parseLast(string(res.Code))
		if out == nil {
			// the output uses a shape the model never produces: recorded as a
			// correspondence mismatch (observed tree = a marker no lowering yields)
			st.Histogram["model-output-undumpable:"+why]++
			if len(st.Extra) < 6 {
				st.Extra["undumpable:"+why] = js + " => " + string(res.Code)
			}
			out = &Ex{K: kStr, N: -1}
		}
		st.Note(kind, f.String()+js, usesLowered(src))
		if kind == "random-tree-minify" {
			itemsMin = append(itemsMin, fmt.Sprintf("(%s, %s, %s)", f.coq(), src.Coq(), out.Coq()))
			return
		}
		items = append(items, fmt.Sprintf("(%s, %s, %s)", f.coq(), src.Coq(), out.Coq()))
		if len(items) <= 2 {
			st.Sample(map[string]string{"input": js, "features": f.String(), "output": string(res.Code)})
		}
	}
	// fixed grid under every single feature and all features
	feats := []featSet{{}, {true, true, true, true}, {optchain: true}, {logasg: true}, {nullish: true, exp: true}}
	for _, src := range gridSources {
		// the grid is written as JavaScript; the input tree is recovered with the
		// real parser under ESNext (nothing lowered)
		in, why := parseLast("v9 = (" + src + ");")
		if in == nil {
			st.Histogram["grid-unparsable:"+why]++
			continue
		}
		for _, f := range feats {
			add(in, f, "grid")
		}
	}
	for i := 0; i < n; i++ {
		e := g.expr(r.Range(1, 4))
		add(e, pickFeat(r), "random-tree")
	}
	// the same lowerings under MinifySyntax: the output shapes must be the ones of the model
	gm := &mgen{r: r, min: true}
	for i := 0; i < n/3; i++ {
		add(gm.expr(r.Range(1, 4)), pickFeat(r), "random-tree-minify")
	}
	cf.AddCases("lower", "feat * expr * expr", "check_lower", items)
	cf.AddCases("lowermin", "feat * expr * expr", "check_lower", itemsMin)
}
