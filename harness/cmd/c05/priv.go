package main

// Private names (coq/C05/Private.v).
//
// privStream: correspondence of the model [plower] with the real code.  A class
// with one private member of every kind is generated around one private-name
// expression form (operands: this, identifiers, calls, member accesses);
// api.Transform lowers it with every class-private-* feature unsupported (and
// a random subset of ??, **), the output is parsed by js_parser.Parse, the
// statement is located in the method body and dumped into a [pexp] tree; the
// Coq checker recomputes the lowering from the source form.
//
// privHelperPin: the text of the helpers in internal/runtime/runtime.go that
// Private.v transcribes; a change of the helpers is reported until the model
// (and this pin) is updated deliberately.
//
// privOracle: programs that exercise every form on receivers with and without
// the brand (instances, foreign objects, primitives, null, the class itself),
// original vs lowered output executed in Node.

import (
	"fmt"
	"strings"

	"github.com/evanw/esbuild/internal/compat"
	"github.com/evanw/esbuild/internal/config"
	"github.com/evanw/esbuild/internal/helpers"
	"github.com/evanw/esbuild/internal/js_ast"
	"github.com/evanw/esbuild/internal/js_parser"
	"github.com/evanw/esbuild/internal/logger"
	"github.com/evanw/esbuild/internal/runtime"
	"github.com/evanw/esbuild/pkg/api"
	. "github.com/evanw/esbuild/verifharness/hlib"
)

type privName struct {
	src                         string
	id                          int64
	kind                        string
	store, meth, getter, setter string
}

// the class every case is built around
const privClassMembers = "  #f = 1; #g; #m() {} get #ga() { return 1 } set #sa(v) {} get #p() { return 1 } set #p(v) {}\n" +
	"  static #sf = 1; static #sm() {} static get #sp() { return 1 } static set #sp(v) {}\n"

var privNames = []privName{
	{"#f", 1, "KField", "_f", "", "", ""},
	{"#g", 2, "KField", "_g", "", "", ""},
	{"#m", 3, "KMethod", "_C_instances", "m_fn", "", ""},
	{"#ga", 4, "KGet", "_C_instances", "", "ga_get", ""},
	{"#sa", 5, "KSet", "_C_instances", "", "", "sa_set"},
	{"#p", 6, "KGetSet", "_C_instances", "", "p_get", "p_set"},
	{"#sf", 7, "KField", "_sf", "", "", ""},
	{"#sm", 8, "KMethod", "_C_static", "sm_fn", "", ""},
	{"#sp", 9, "KGetSet", "_C_static", "", "sp_get", "sp_set"},
}

// identifiers the class lowering creates -> ids used in the Coq terms
var privIdent = map[string]int64{
	"_f": 101, "_g": 102, "_C_instances": 100, "_sf": 107, "_C_static": 200,
	"m_fn": 3, "ga_get": 4, "sa_set": 5, "p_get": 6, "p_set": 16, "sm_fn": 8, "sp_get": 9, "sp_set": 19,
}

func privNamesCoq() string {
	id := func(s string) string {
		if s == "" {
			return "0"
		}
		return CZ(privIdent[s])
	}
	var items []string
	for _, p := range privNames {
		items = append(items, fmt.Sprintf("(%s, mkPname %s %s %s %s %s)", CZ(p.id), p.kind, id(p.store), id(p.meth), id(p.getter), id(p.setter)))
	}
	return "[" + strings.Join(items, "; ") + "]"
}

// ---------------------------------------------------------------------------
// source forms

type pform struct {
	kind string // get set in call arith log target
	ctx  int    // target: 0 "[T.#x = V] = v1", 1 "for (T.#x of v1)", 2 "[T.#x] = v1", 3 "({a: T.#x = V} = v1)", 4 "for ([T.#x = V] of v1)", 5 "for (T.#x in v1)"
	t, v *Ex
	args []*Ex
	x    int // index into privNames
	op   int // arith: 3 = **, 4 = - (binNames); log: 0 ??, 1 ||, 2 &&
}

var lopNames = []string{"LNullish", "LOr", "LAnd"}

func paren(e *Ex) string {
	if e.K == kThis || e.K == kId {
		return e.JS()
	}
	return "(" + e.JS() + ")"
}

func (f *pform) JS() string {
	n := privNames[f.x].src
	switch f.kind {
	case "get":
		return paren(f.t) + "." + n
	case "set":
		return paren(f.t) + "." + n + " = " + paren(f.v)
	case "in":
		return n + " in " + paren(f.t)
	case "call":
		as := make([]string, len(f.args))
		for i, a := range f.args {
			as[i] = paren(a)
		}
		return paren(f.t) + "." + n + "(" + strings.Join(as, ", ") + ")"
	case "arith":
		return paren(f.t) + "." + n + " " + binText[f.op] + "= " + paren(f.v)
	case "log":
		return paren(f.t) + "." + n + " " + binText[f.op] + "= " + paren(f.v)
	case "target":
		m := paren(f.t) + "." + n
		switch f.ctx {
		case 0:
			return "[" + m + " = " + paren(f.v) + "] = v1"
		case 1:
			return "for (" + m + " of v1) ;"
		case 2:
			return "[" + m + "] = v1"
		case 3:
			return "({a: " + m + " = " + paren(f.v) + "} = v1)"
		case 4:
			return "for ([" + m + " = " + paren(f.v) + "] of v1) ;"
		default:
			return "for (" + m + " in v1) ;"
		}
	}
	panic("bad form")
}

// statement that carries the form inside method test
func (f *pform) stmt() string {
	if f.kind != "target" {
		return "v9 = (" + f.JS() + ");"
	}
	if f.ctx == 1 || f.ctx == 4 || f.ctx == 5 {
		return f.JS() + " v9 = 0;"
	}
	return "v9 = (" + f.JS() + ");"
}

func exList(xs []*Ex) string {
	s := make([]string, len(xs))
	for i, a := range xs {
		s[i] = a.Coq()
	}
	return "[" + strings.Join(s, "; ") + "]"
}

func (f *pform) Coq() string {
	x := CZ(privNames[f.x].id)
	switch f.kind {
	case "get":
		return fmt.Sprintf("(PGet %s %s)", f.t.Coq(), x)
	case "set":
		return fmt.Sprintf("(PSet %s %s %s)", f.t.Coq(), x, f.v.Coq())
	case "in":
		return fmt.Sprintf("(PIn %s %s)", x, f.t.Coq())
	case "call":
		return fmt.Sprintf("(PCall %s %s %s)", f.t.Coq(), x, exList(f.args))
	case "arith":
		return fmt.Sprintf("(PArith %s %s %s %s)", binNames[f.op], f.t.Coq(), x, f.v.Coq())
	case "log":
		return fmt.Sprintf("(PLog %s %s %s %s)", lopNames[f.op], f.t.Coq(), x, f.v.Coq())
	case "target":
		return fmt.Sprintf("(PTarget %s %s)", f.t.Coq(), x)
	}
	panic("bad form")
}

func privOperand(r *Rng, target bool) *Ex {
	id := func() *Ex { return lit(kId, int64(r.Intn(4))) }
	switch r.Intn(8) {
	case 0:
		if target {
			return &Ex{K: kThis}
		}
		return lit(kNum, int64(r.Intn(5)))
	case 1, 2:
		return id()
	case 3:
		return &Ex{K: kCall, Kids: []*Ex{id()}}
	case 4:
		return &Ex{K: kDot, N: int64(r.Range(1, 3)), Kids: []*Ex{id()}}
	case 5:
		return &Ex{K: kIndex, Kids: []*Ex{id(), id()}}
	case 6:
		return &Ex{K: kCall, Kids: []*Ex{{K: kDot, N: int64(r.Range(1, 3)), Kids: []*Ex{id()}}}, Args: []*Ex{id()}}
	default:
		return &Ex{K: kCall, Kids: []*Ex{id()}, Args: []*Ex{id()}}
	}
}

func genPform(r *Rng) *pform {
	f := &pform{x: r.Intn(len(privNames)), t: privOperand(r, true)}
	switch r.Intn(9) {
	case 8:
		f.kind, f.v, f.ctx = "target", privOperand(r, false), r.Intn(6)
	case 0:
		f.kind = "get"
	case 1:
		f.kind, f.v = "set", privOperand(r, false)
	case 2:
		f.kind = "in"
	case 3, 4:
		f.kind = "call"
		for k := r.Intn(3); k > 0; k-- {
			f.args = append(f.args, privOperand(r, false))
		}
	case 5:
		f.kind, f.v, f.op = "arith", privOperand(r, false), 3+r.Intn(2)
	default:
		f.kind, f.v, f.op = "log", privOperand(r, false), r.Intn(3)
	}
	return f
}

// ---------------------------------------------------------------------------
// esbuild output -> pexp

type Px struct {
	K       string
	Kids    []*Px
	E       *Ex
	St, Fn  int64
	HasFn   bool
	Op      int64
	Args    []*Ex
}

func (p *Px) Coq() string {
	k := func(i int) string { return p.Kids[i].Coq() }
	opt := func() string {
		if p.HasFn {
			return "(Some " + CZ(p.Fn) + ")"
		}
		return "None"
	}
	switch p.K {
	case "PE":
		return "(PE " + p.E.Coq() + ")"
	case "HGet":
		return fmt.Sprintf("(HGet %s %s %s)", k(0), CZ(p.St), opt())
	case "HMethod":
		return fmt.Sprintf("(HMethod %s %s %s)", k(0), CZ(p.St), CZ(p.Fn))
	case "HSet":
		return fmt.Sprintf("(HSet %s %s %s %s)", k(0), CZ(p.St), k(1), opt())
	case "HIn":
		return fmt.Sprintf("(HIn %s %s)", CZ(p.St), k(0))
	case "HCallCall":
		return fmt.Sprintf("(HCallCall %s %s %s)", k(0), k(1), exList(p.Args))
	case "HBin":
		return fmt.Sprintf("(HBin %s %s %s)", binNames[p.Op], k(0), k(1))
	case "HPow":
		return fmt.Sprintf("(HPow %s %s)", k(0), k(1))
	case "HIf":
		return fmt.Sprintf("(HIf %s %s %s)", k(0), k(1), k(2))
	case "HNeNull":
		return fmt.Sprintf("(HNeNull %s)", k(0))
	case "HTmpSet":
		return fmt.Sprintf("(HTmpSet %s %s)", CZ(p.Op), k(0))
	case "HWrapper":
		return fmt.Sprintf("(HWrapper %s %s %s)", k(0), CZ(p.St), opt())
	}
	panic("bad pexp kind")
}

func (d *dumper) helperName(x js_ast.Expr) string {
	if call, ok := x.Data.(*js_ast.ECall); ok {
		if id, ok := call.Target.Data.(*js_ast.EIdentifier); ok {
			if n := d.name(id.Ref); strings.HasPrefix(n, "__private") {
				return n
			}
		}
	}
	return ""
}

func (d *dumper) containsHelper(x js_ast.Expr) bool {
	switch e := x.Data.(type) {
	case *js_ast.ECall:
		if d.helperName(x) != "" || d.containsHelper(e.Target) {
			return true
		}
		for _, a := range e.Args {
			if d.containsHelper(a) {
				return true
			}
		}
	case *js_ast.EDot:
		return d.containsHelper(e.Target)
	case *js_ast.EIndex:
		return d.containsHelper(e.Target) || d.containsHelper(e.Index)
	case *js_ast.EBinary:
		return d.containsHelper(e.Left) || d.containsHelper(e.Right)
	case *js_ast.EIf:
		return d.containsHelper(e.Test) || d.containsHelper(e.Yes) || d.containsHelper(e.No)
	case *js_ast.EUnary:
		return d.containsHelper(e.Value)
	}
	return false
}

func (d *dumper) privId(x js_ast.Expr) int64 {
	if id, ok := x.Data.(*js_ast.EIdentifier); ok {
		if v, ok := privIdent[d.name(id.Ref)]; ok {
			return v
		}
		d.fail = "unexpected storage/function identifier " + d.name(id.Ref)
		return -1
	}
	d.fail = "helper argument is not an identifier"
	return -1
}

func (d *dumper) pexp(x js_ast.Expr) *Px {
	if !d.containsHelper(x) {
		return &Px{K: "PE", E: d.expr(x)}
	}
	switch e := x.Data.(type) {
	case *js_ast.ECall:
		a := e.Args
		switch d.helperName(x) {
		case "__privateGet":
			if len(a) == 2 {
				return &Px{K: "HGet", Kids: []*Px{d.pexp(a[0])}, St: d.privId(a[1])}
			}
			if len(a) == 3 {
				return &Px{K: "HGet", Kids: []*Px{d.pexp(a[0])}, St: d.privId(a[1]), Fn: d.privId(a[2]), HasFn: true}
			}
		case "__privateMethod":
			if len(a) == 3 {
				return &Px{K: "HMethod", Kids: []*Px{d.pexp(a[0])}, St: d.privId(a[1]), Fn: d.privId(a[2])}
			}
		case "__privateSet":
			if len(a) == 3 {
				return &Px{K: "HSet", Kids: []*Px{d.pexp(a[0]), d.pexp(a[2])}, St: d.privId(a[1])}
			}
			if len(a) == 4 {
				return &Px{K: "HSet", Kids: []*Px{d.pexp(a[0]), d.pexp(a[2])}, St: d.privId(a[1]), Fn: d.privId(a[3]), HasFn: true}
			}
		case "__privateIn":
			if len(a) == 2 {
				return &Px{K: "HIn", Kids: []*Px{d.pexp(a[1])}, St: d.privId(a[0])}
			}
		case "":
			if dot, ok := e.Target.Data.(*js_ast.EDot); ok && dot.Name == "call" && dot.OptionalChain == js_ast.OptionalChainNone &&
				e.OptionalChain == js_ast.OptionalChainNone && len(a) >= 1 && d.containsHelper(dot.Target) {
				for _, r := range a[1:] {
					if d.containsHelper(r) {
						d.fail = "helper call inside the arguments of .call"
					}
				}
				return &Px{K: "HCallCall", Kids: []*Px{d.pexp(dot.Target), d.pexp(a[0])}, Args: d.list(a[1:])}
			}
			if id, ok := e.Target.Data.(*js_ast.EIdentifier); ok && d.name(id.Ref) == "__pow" && len(a) == 2 {
				return &Px{K: "HPow", Kids: []*Px{d.pexp(a[0]), d.pexp(a[1])}}
			}
		}
		d.fail = "unexpected helper call shape " + d.helperName(x)
	case *js_ast.EBinary:
		two := func() []*Px { return []*Px{d.pexp(e.Left), d.pexp(e.Right)} }
		switch e.Op {
		case js_ast.BinOpNullishCoalescing:
			return &Px{K: "HBin", Op: 0, Kids: two()}
		case js_ast.BinOpLogicalOr:
			return &Px{K: "HBin", Op: 1, Kids: two()}
		case js_ast.BinOpLogicalAnd:
			return &Px{K: "HBin", Op: 2, Kids: two()}
		case js_ast.BinOpPow:
			return &Px{K: "HBin", Op: 3, Kids: two()}
		case js_ast.BinOpSub:
			return &Px{K: "HBin", Op: 4, Kids: two()}
		case js_ast.BinOpLooseNe:
			if _, ok := e.Right.Data.(*js_ast.ENull); ok {
				return &Px{K: "HNeNull", Kids: []*Px{d.pexp(e.Left)}}
			}
		case js_ast.BinOpAssign:
			if l := d.expr(e.Left); l.K == kTmp {
				return &Px{K: "HTmpSet", Op: l.N, Kids: []*Px{d.pexp(e.Right)}}
			}
		}
		d.fail = fmt.Sprintf("unexpected binary operator %d around a helper call", e.Op)
	case *js_ast.EIf:
		return &Px{K: "HIf", Kids: []*Px{d.pexp(e.Test), d.pexp(e.Yes), d.pexp(e.No)}}
	case *js_ast.EDot:
		// __privateWrapper(t, st [, sr])._
		if call, ok := e.Target.Data.(*js_ast.ECall); ok && e.Name == "_" && d.helperName(e.Target) == "__privateWrapper" {
			if a := call.Args; len(a) == 2 {
				return &Px{K: "HWrapper", Kids: []*Px{d.pexp(a[0])}, St: d.privId(a[1])}
			} else if len(a) == 3 {
				return &Px{K: "HWrapper", Kids: []*Px{d.pexp(a[0])}, St: d.privId(a[1]), Fn: d.privId(a[2]), HasFn: true}
			}
		}
		d.fail = "unexpected member access on a helper call"
	default:
		d.fail = fmt.Sprintf("unexpected node %T around a helper call", x.Data)
	}
	return &Px{K: "PE", E: &Ex{K: kStr, N: -1}}
}

// parsePriv parses esbuild's output and dumps the right-hand side of the
// "v9 = ..." statement of method test of class C.
func parsePriv(code string) (*Px, string) { return parsePrivCtx(code, -1) }

// the assignment target inside the pattern / loop head of a "target" form
func privTargetExpr(body []js_ast.Stmt, ctx int) (js_ast.Expr, string) {
	elem := func(x js_ast.Expr) js_ast.Expr { // strip "= default"
		if b, ok := x.Data.(*js_ast.EBinary); ok && b.Op == js_ast.BinOpAssign {
			return b.Left
		}
		return x
	}
	pattern := func(x js_ast.Expr) (js_ast.Expr, string) {
		switch e := x.Data.(type) {
		case *js_ast.EArray:
			if len(e.Items) == 1 {
				return elem(e.Items[0]), ""
			}
		case *js_ast.EObject:
			if len(e.Properties) == 1 {
				return elem(e.Properties[0].ValueOrNil), ""
			}
		}
		return x, ""
	}
	for _, st := range body {
		switch s := st.Data.(type) {
		case *js_ast.SForOf:
			if init, ok := s.Init.Data.(*js_ast.SExpr); ok && (ctx == 1 || ctx == 4) {
				return pattern(init.Value)
			}
		case *js_ast.SForIn:
			if init, ok := s.Init.Data.(*js_ast.SExpr); ok && ctx == 5 {
				return pattern(init.Value)
			}
		case *js_ast.SExpr:
			if asg, ok := s.Value.Data.(*js_ast.EBinary); ok && asg.Op == js_ast.BinOpAssign && (ctx == 0 || ctx == 2 || ctx == 3) {
				if inner, ok := asg.Right.Data.(*js_ast.EBinary); ok && inner.Op == js_ast.BinOpAssign {
					return pattern(inner.Left)
				}
			}
		}
	}
	return js_ast.Expr{}, "target statement not found in method test"
}

func parsePrivCtx(code string, ctx int) (*Px, string) {
	log := logger.NewDeferLog(logger.DeferLogNoVerboseOrDebug, nil)
	opts := config.Options{OmitRuntimeForTests: true}
	tree, ok := js_parser.Parse(log, logger.Source{Index: 0, KeyPath: logger.Path{Text: "<stdin>"}, Contents: code, IdentifierName: "stdin"}, js_parser.OptionsFromConfig(&opts))
	log.Done()
	if !ok {
		return nil, "reparse failed"
	}
	var body []js_ast.Stmt
	for _, part := range tree.Parts {
		for _, st := range part.Stmts {
			cls, ok := st.Data.(*js_ast.SClass)
			if !ok {
				continue
			}
			for _, prop := range cls.Class.Properties {
				key, isStr := prop.Key.Data.(*js_ast.EString)
				fn, isFn := prop.ValueOrNil.Data.(*js_ast.EFunction)
				if isStr && isFn && helpers.UTF16ToString(key.Value) == "test" {
					body = fn.Fn.Body.Block.Stmts
				}
			}
		}
	}
	if body == nil {
		return nil, "method test not found in the output"
	}
	if ctx >= 0 {
		x, why := privTargetExpr(body, ctx)
		if why != "" {
			return nil, why
		}
		d := &dumper{syms: tree.Symbols, tmps: map[string]int64{}}
		px := d.pexp(x)
		if d.fail != "" {
			return nil, d.fail
		}
		if px.K != "HWrapper" {
			return nil, "the assignment target is not lowered through __privateWrapper"
		}
		return px, ""
	}
	var last *js_ast.SExpr
	for _, st := range body {
		if s, ok := st.Data.(*js_ast.SExpr); ok {
			last = s
		}
	}
	if last == nil {
		return nil, "no expression statement in method test"
	}
	asg, isAsg := last.Value.Data.(*js_ast.EBinary)
	if !isAsg || asg.Op != js_ast.BinOpAssign {
		return nil, "statement is not the v9 assignment"
	}
	d := &dumper{syms: tree.Symbols, tmps: map[string]int64{}}
	px := d.pexp(asg.Right)
	if d.fail != "" {
		return nil, d.fail
	}
	return px, ""
}

var privFeatures = []string{"class-private-field", "class-private-method", "class-private-accessor",
	"class-private-static-field", "class-private-static-method", "class-private-static-accessor", "class-private-brand-check"}

func privOptions(f featSet) api.TransformOptions {
	o := f.options()
	for _, k := range privFeatures {
		o.Supported[k] = false
	}
	return o
}

func privStream(r *Rng, st *Stats, cf *CoqFile, n int) {
	var items []string
	names := privNamesCoq()
	add := func(f *pform, fs featSet) {
		fs.optchain, fs.logasg = false, r.Bool()
		src := "class C {\n" + privClassMembers + "  test() { " + f.stmt() + " }\n}\n"
		res := api.Transform(src, privOptions(fs))
		if len(res.Errors) > 0 {
			st.Histogram["priv-input-rejected"]++
			if st.Histogram["priv-input-rejected"] <= 3 {
				st.Extra[fmt.Sprintf("priv-rejected-%d", st.Histogram["priv-input-rejected"])] = src + " :: " + res.Errors[0].Text
			}
			return
		}
		ctx := -1
		if f.kind == "target" {
			ctx = f.ctx
		}
		out, why := parsePrivCtx(string(res.Code), ctx)
		if out == nil {
			st.Histogram["priv-output-undumpable:"+why]++
			if len(st.Extra) < 8 {
				st.Extra["priv-undumpable:"+why] = src + " => " + string(res.Code)
			}
			out = &Px{K: "PE", E: &Ex{K: kStr, N: -1}}
		}
		st.Note("private-form", fs.String()+f.JS(), true)
		st.Histogram["private-form:"+f.kind+":"+privNames[f.x].kind]++
		items = append(items, fmt.Sprintf("(%s, %s, %s, %s)", fs.coq(), names, f.Coq(), out.Coq()))
		if len(items) <= 2 {
			st.Sample(map[string]string{"input": f.JS(), "features": fs.String(), "output": string(res.Code)})
		}
	}
	// every form kind x every member kind x operand shape (captured / duplicated), all lowerings on and off
	id0, call0 := lit(kId, 0), &Ex{K: kCall, Kids: []*Ex{lit(kId, 0)}}
	for x := range privNames {
		for _, t := range []*Ex{{K: kThis}, id0, call0} {
			for _, fs := range []featSet{{}, {nullish: true, exp: true}} {
				v := lit(kId, 1)
				add(&pform{kind: "get", t: t, x: x}, fs)
				add(&pform{kind: "set", t: t, x: x, v: v}, fs)
				add(&pform{kind: "in", t: t, x: x}, fs)
				add(&pform{kind: "call", t: t, x: x}, fs)
				add(&pform{kind: "call", t: t, x: x, args: []*Ex{v, call0}}, fs)
				add(&pform{kind: "arith", t: t, x: x, v: v, op: 3}, fs)
				add(&pform{kind: "arith", t: t, x: x, v: v, op: 4}, fs)
				for op := 0; op < 3; op++ {
					add(&pform{kind: "log", t: t, x: x, v: v, op: op}, fs)
				}
				for ctx := 0; ctx < 6; ctx++ {
					add(&pform{kind: "target", t: t, x: x, v: v, ctx: ctx}, fs)
				}
			}
		}
	}
	for i := 0; i < n; i++ {
		add(genPform(r), pickFeat(r))
	}
	cf.AddCases("priv", "feat * list (Z * pname) * pform * pexp", "check_priv", items)
}

// ---------------------------------------------------------------------------
// the helper bodies Private.v transcribes

const privHelperText = `var __accessCheck = (obj, member, msg) => (
member.has(obj) || __typeError('Cannot ' + msg)
)
export var __privateIn = (member, obj) => (
Object(obj) !== obj ? __typeError('Cannot use the "in" operator on this value') :
member.has(obj)
)
export var __privateGet = (obj, member, getter) => (
__accessCheck(obj, member, 'read from private field'),
getter ? getter.call(obj) : member.get(obj)
)
export var __privateAdd = (obj, member, value) => (
member.has(obj) ? __typeError('Cannot add the same private member more than once') :
member instanceof WeakSet ? member.add(obj) : member.set(obj, value)
)
export var __privateSet = (obj, member, value, setter) => (
__accessCheck(obj, member, 'write to private field'),
setter ? setter.call(obj, value) : member.set(obj, value),
value
)
export var __privateMethod = (obj, member, method) => (
__accessCheck(obj, member, 'access private method'),
method
)`

func privHelperPin(st *Stats) {
	src := runtime.Source(compat.JSFeature(0)).Contents
	i := strings.Index(src, "var __accessCheck")
	j := strings.Index(src, "export var __earlyAccess")
	if i < 0 || j < i {
		st.Fail("runtime-private-helpers-not-found", "internal/runtime/runtime.go", nil, nil)
		return
	}
	var lines []string
	for _, l := range strings.Split(src[i:j], "\n") {
		if l = strings.TrimSpace(l); l != "" {
			lines = append(lines, l)
		}
	}
	got := strings.Join(lines, "\n")
	st.Note("runtime-helper-pin", "private helpers", true)
	if got != privHelperText {
		st.Fail("runtime-private-helpers-changed", "internal/runtime/runtime.go: the helper bodies modelled by coq/C05/Private.v (h_get, h_set, h_in, h_add, h_method, h_check)", got, privHelperText)
	}
}

// ---------------------------------------------------------------------------
// oracle: private-name forms executed natively and lowered

var privAllNames = []string{"#f", "#g", "#h", "#m", "#ga", "#sa", "#p", "#sf", "#sm", "#sp"}

// names whose value can be null/undefined: a call through them is generated
// without observable arguments (finding C05-F13)
var privMaybeNullish = map[string]bool{"#g": true, "#p": true, "#sp": true}

const privProgramHead = `function tag(x) { try { return x === null || x === undefined ? String(x) : typeof x === "function" ? (x === C ? "class C" : x === D ? "class D" : "fn") : typeof x === "object" ? "obj:" + x.tag : typeof x + ":" + String(x); } catch (e) { return "?"; } }
function T(label, f) { try { $p(label, f()); } catch (e) { $p(label, "throws", e && e.constructor && e.constructor.name); } }
function t(x) { $p("target", tag(x)); return x; }
function stable(f) { f.toString = function() { return "fn-h"; }; return f; }
class Base { constructor(o) { return o; } }
class Stamp extends Base { #z = $p("init z", 1); static has(o) { return #z in o; } static get(o) { return o.#z; } }
class Other { #f = 9; tag = "other"; static has(o) { return #f in o; } }
class C {
  #f = $p("init f", 1);
  #g;
  #h = stable(function(a) { $p("h", tag(this), a); return "h" + a; });
  tag;
  #m(a) { $p("m", tag(this), a); return "m" + a; }
  get #ga() { $p("get ga", tag(this)); return this.#f; }
  set #sa(v) { $p("set sa", tag(this), v); }
  get #p() { $p("get p", tag(this)); return this.#g; }
  set #p(v) { $p("set p", tag(this), v); this.#g = v; }
  static #sf = $p("init sf", 10);
  static #sm(a) { $p("sm", tag(this), a); return "sm" + a; }
  static #spv;
  static get #sp() { $p("get sp", tag(this)); return C.#spv; }
  static set #sp(v) { $p("set sp", tag(this), v); C.#spv = v; }
  constructor(tg) { this.tag = tg; }
  static edge(o) { T("edge in f", () => #f in o); T("edge in m", () => #m in o); T("edge in sf", () => #sf in o); T("edge get", () => o.#f); T("edge set", () => o.#f = $p("edge v", 1)); T("edge call", () => o.#m($p("edge arg", 2))); T("edge op", () => o.#g ??= 3); T("edge acc", () => o.#p = 4); }
  static dump(o) { T("dump f", () => o.#f); T("dump g", () => o.#g); T("dump sf", () => C.#sf); T("dump spv", () => C.#spv); }
  static run(o) {
`

const privProgramTail = `  }
}
class D extends C {}
var c1 = new C("c1"), c2 = new C("c2"), plain = {tag: "plain"};
`

func privValue(r *Rng) string {
	return r.Pick([]string{"$p(\"v\", 5)", "7", "\"s\"", "$p(\"w\", 0)", "false", "$p(\"x\", 2)", "3"})
}

func privStmt(r *Rng, i int) string {
	x := r.Pick(privAllNames)
	tgt := r.Pick([]string{"o", "o", "o", "t(o)", "this", "C", "t(C)"})
	var e string
	switch r.Intn(16) {
	case 0, 1:
		e = tgt + "." + x
	case 2:
		e = tgt + "." + x + " = " + privValue(r)
	case 3:
		e = x + " in " + tgt
	case 4, 5:
		arg := privValue(r)
		if privMaybeNullish[x] {
			arg = r.Pick([]string{"", "1", "\"a\""})
		}
		e = tgt + "." + x + "(" + arg + ")"
	case 6:
		e = tgt + "." + x + " " + r.Pick([]string{"+=", "-=", "*=", "**=", "|=", ">>>="}) + " " + privValue(r)
	case 7, 8:
		e = tgt + "." + x + " " + r.Pick([]string{"??=", "||=", "&&="}) + " " + privValue(r)
	case 9:
		if x == "#ga" {
			// "o.#ga++" on a getter-only accessor: ECMA-262 (and esbuild's output) run the getter and
			// then throw; V8 throws without running the getter - the reference engine deviates
			x = "#p"
		}
		e = r.Pick([]string{tgt + "." + x + "++", tgt + "." + x + "--", "++" + tgt + "." + x, "--" + tgt + "." + x})
	case 10:
		e = tgt + "?." + x
	case 11:
		arg := privValue(r)
		if privMaybeNullish[x] {
			arg = ""
		}
		// ("o?.#x?.()" loses this when only private names are lowered: finding C05-F17, replayed, not generated)
		e = r.Pick([]string{tgt + "?." + x + "(" + arg + ")", tgt + "." + x + "?.(" + arg + ")", tgt + "?." + x + "." + r.Pick([]string{"length", "tag"})})
	case 12:
		e = r.Pick([]string{"([" + tgt + "." + x + "] = [" + privValue(r) + "])", "({a: " + tgt + "." + x + "} = {a: " + privValue(r) + "})",
			"({a: " + tgt + "." + x + " = " + privValue(r) + "} = {})", "([..." + tgt + "." + x + "] = [" + privValue(r) + "])",
			"([" + tgt + "." + x + " = " + privValue(r) + "] = [])", "([[" + tgt + "." + x + " = " + privValue(r) + "]] = [[]])",
			"{ for (" + tgt + "." + x + " of [" + privValue(r) + "]) ; return 1; }", "{ for (" + tgt + "." + x + " in {k: 1}) ; return 1; }",
			"{ for ([" + tgt + "." + x + " = " + privValue(r) + "] of [[]]) ; return 1; }", "{ for ({a: " + tgt + "." + x + "} of [{a: " + privValue(r) + "}]) ; return 1; }"})
	case 13:
		e = "(" + tgt + "." + x + ", " + tgt + "." + r.Pick(privAllNames) + ")"
	case 14:
		e = tgt + "." + x + "." + r.Pick([]string{"length", "call(" + tgt + ", 1)"})
		if r.Chance(50) {
			// tagged templates through private members, also through a parenthesised optional chain (repaired F20)
			// (V8 aborts - "Check failed: reg.index() == ..." - when it compiles a tagged template whose tag is an
			// optional chain ending in a private ACCESSOR, so those names are tagged only without "?.")
			y := x
			if y == "#ga" || y == "#sa" || y == "#p" || y == "#sp" {
				y = r.Pick([]string{"#f", "#g", "#h", "#m", "#sf", "#sm"})
			}
			// the tag of "(o?.#y)`...`" is undefined when the chain short-circuits or the member is nullish: the
			// lowered ".call" then throws before the substitutions are evaluated (findings C05-F4 / C05-F13),
			// so the substitutions have no observable evaluation
			sub := "${1}"
			e = r.Pick([]string{"(" + tgt + "?." + y + ")`a" + sub + "b`", tgt + "." + x + "`c`", "(" + tgt + "?." + y + ")`d`"})
		}
	default:
		e = "typeof " + tgt + "." + x
	}
	return fmt.Sprintf("    T(\"s%d\", () => %s);\n", i, e)
}

func privProgram(r *Rng) string {
	var sb strings.Builder
	sb.WriteString(privProgramHead)
	for i, k := 0, r.Range(4, 10); i < k; i++ {
		sb.WriteString(privStmt(r, i))
	}
	sb.WriteString(privProgramTail)
	recvs := []string{"c1", "c2", "plain", "new Other", "null", "undefined", "1", "\"str\"", "C", "D", "function fn() {}", "new D(\"d1\")", "Symbol.iterator"}
	for k := r.Range(2, 5); k > 0; k-- {
		rc := r.Pick(recvs)
		if r.Chance(60) {
			rc = r.Pick([]string{"c1", "c2", "C"})
		}
		sb.WriteString("T(\"run\", () => C.run.call(" + r.Pick([]string{"C", "C", "c1", "D"}) + ", " + rc + "));\n")
	}
	if r.Chance(40) {
		sb.WriteString("T(\"stamp1\", () => Stamp.has(new Stamp(plain)));\nT(\"stamp2\", () => new Stamp(plain));\nT(\"stamp3\", () => [Stamp.get(plain), Stamp.has(c1), Other.has(c1), Other.has(new Other)]);\n")
		sb.WriteString("T(\"stamp4\", () => new Stamp(1));\n")
	}
	sb.WriteString("[1, \"s\", null, undefined, plain, Symbol.iterator, true, C, c1, new D(\"d\")].forEach(function(v) { C.edge(v); });\n")
	sb.WriteString("C.dump(c1); C.dump(c2); C.dump(C);\n")
	return sb.String()
}

func privConfig(r *Rng) gconfig {
	o := api.TransformOptions{Loader: api.LoaderJS, LogLevel: api.LogLevelSilent}
	var desc string
	if r.Chance(50) {
		ts := []api.Target{api.ES2015, api.ES2016, api.ES2017, api.ES2018, api.ES2019, api.ES2020, api.ES2021}
		names := []string{"es2015", "es2016", "es2017", "es2018", "es2019", "es2020", "es2021"}
		i := r.Intn(len(ts))
		o.Target = ts[i]
		desc = "target=" + names[i]
	} else {
		o.Target = api.ESNext
		o.Supported = map[string]bool{}
		var fs []string
		pool := append([]string{"nullish-coalescing", "logical-assignment", "optional-chain", "exponent-operator", "class-field", "class-static-field"}, privFeatures...)
		for k := r.Range(1, 4); k > 0; k-- {
			f := r.Pick(privFeatures)
			if r.Chance(35) {
				f = r.Pick(pool)
			}
			if !o.Supported[f] {
				o.Supported[f] = false
				fs = append(fs, f)
			}
		}
		desc = "supported:" + strings.Join(fs, "=false,") + "=false"
	}
	if r.Chance(30) {
		o.MinifySyntax = true
		desc += ",minify-syntax"
	}
	return gconfig{desc, o}
}

func privOracle(r *Rng, st *Stats, n int) {
	var cases []gcase
	for i := 0; i < n; i++ {
		cases = append(cases, gcase{kind: "glue-private", src: privProgram(r), cfg: privConfig(r)})
	}
	evalCases(st, cases, true)
}
