package main

// Glue stream + oracle: programs are transformed through api.Transform for a
// target / Supported override / minify setting; original and output are
// executed by Node (fresh vm context each; the runner waits until the one
// asynchronous chain of the program has settled) and the probe logs and
// exception classes are compared.  A difference is re-run before it is
// reported as a concrete failing input.

import (
	"bytes"
	"encoding/json"
	"fmt"
	"os"
	"os/exec"
	"path/filepath"
	"strings"

	"github.com/evanw/esbuild/pkg/api"
	. "github.com/evanw/esbuild/verifharness/hlib"
)

const asyncRunner = `
const vm = require("vm"), fs = require("fs");
const input = JSON.parse(fs.readFileSync(process.argv[2], "utf8"));
const tick = () => new Promise(r => setImmediate(r));
(async () => {
  const out = [];
  for (const prog of input.programs) {
    const ctx = vm.createContext({ console: { log() {}, error() {}, warn() {} } });
    let res = { log: [], error: null };
    try {
      vm.runInContext(input.prelude, ctx, { timeout: 1000 });
      try {
        vm.runInContext(prog, ctx, { timeout: input.timeout });
      } catch (e) {
        let name = "unknown";
        try { name = (e && e.constructor && e.constructor.name) || typeof e; } catch (_) {}
        if (e && e.code === "ERR_SCRIPT_EXECUTION_TIMEOUT") name = "TIMEOUT";
        if (e instanceof SyntaxError || (e && e.name === "SyntaxError" && !(ctx.$log && ctx.$log.length))) name = "SyntaxError";
        let thrown = "";
        try { thrown = vm.runInContext("$fmt", ctx)(e); } catch (_) {}
        res.error = name; res.thrown = thrown;
      }
      // let the asynchronous chain finish: the log must be stable for 3 turns
      let last = -1, stable = 0;
      for (let i = 0; i < 200 && stable < 3; i++) {
        await tick();
        const n = vm.runInContext("$log.length", ctx);
        if (n === last) stable++; else { stable = 0; last = n; }
      }
      res.log = vm.runInContext("$log", ctx).slice();
    } catch (e) {
      res.error = "HARNESS:" + String(e);
    }
    out.push(res);
  }
  fs.writeFileSync(process.argv[3], JSON.stringify(out));
})();
process.on("unhandledRejection", () => {});
`

// extra prelude for programs printed from model trees: v0..v5 and this are
// objects whose every property read/write/call is logged with identities
const treePrelude = `
function $id(v) { return v === globalThis ? "<global>" : v && v.$name ? "<" + v.$name + ">" : v; }
function $mk(name, depth, leafKind) {
  var store = {};
  var o = function() {
    $p("call", name, $id(this), Array.prototype.slice.call(arguments).map($id));
    return depth > 0 ? $mk(name + "()", depth - 1, leafKind) : leafKind;
  };
  ["p1", "p2", "p3", "p4"].forEach(function(k, i) {
    Object.defineProperty(o, k, {
      get: function() {
        $p("get", name, k);
        if (k in store) return store[k];
        if (depth <= 0) return i === 2 ? null : i === 3 ? undefined : leafKind;
        return store[k] = (i === 3 && leafKind === 0) ? null : $mk(name + "." + k, depth - 1, leafKind);
      },
      set: function(v) { $p("set", name, k, $id(v)); store[k] = v; },
      configurable: true
    });
  });
  o.$name = name;
  o.valueOf = function() { $p("valueOf", name); return 2; };
  return o;
}
`

func runNodeAsync(programs []string, timeoutMs int) ([]NodeResult, error) {
	dir, err := os.MkdirTemp("", "verif-c05-")
	if err != nil {
		return nil, err
	}
	defer os.RemoveAll(dir)
	in := map[string]interface{}{"prelude": NodePrelude + treePrelude, "programs": programs, "timeout": timeoutMs}
	data, _ := json.Marshal(in)
	inp, outp, run := filepath.Join(dir, "in.json"), filepath.Join(dir, "out.json"), filepath.Join(dir, "run.js")
	if err := os.WriteFile(inp, data, 0o644); err != nil {
		return nil, err
	}
	if err := os.WriteFile(run, []byte(asyncRunner), 0o644); err != nil {
		return nil, err
	}
	cmd := exec.Command("node", "--stack-size=2000", run, inp, outp)
	var stderr bytes.Buffer
	cmd.Stderr = &stderr
	if err := cmd.Run(); err != nil {
		if d := os.Getenv("C05_DUMP"); d != "" { // development aid: keep the input of a crashed node run
			os.WriteFile(d, data, 0o644)
		}
		return nil, fmt.Errorf("node failed: %v: %s", err, stderr.String())
	}
	raw, err := os.ReadFile(outp)
	if err != nil {
		return nil, err
	}
	var res []NodeResult
	if err := json.Unmarshal(raw, &res); err != nil {
		return nil, err
	}
	if len(res) != len(programs) {
		return nil, fmt.Errorf("node returned %d results for %d programs", len(res), len(programs))
	}
	return res, nil
}

type gconfig struct {
	desc string
	opts api.TransformOptions
}

// Features whose lowering the property is about.  The ES2015-level features
// (arrow, destructuring, default-argument, rest-argument, spread,
// object-accessors ...) are NOT in the pool: their transformation exists only
// for the ES5 target, which the property excludes (esbuild documents ES6+ ->
// ES5 as unsupported); e.g. `--supported:arrow=false` with class syntax kept
// turns `class A { f = () => this }` into `f = function() { return _this }`
// with no declaration of _this (recorded as an out-of-scope observation by
// witnessReplay, not as a finding).
var overrideFeatures = []string{"nullish-coalescing", "logical-assignment", "optional-chain", "exponent-operator", "object-rest-spread",
	"class-field", "class-static-field", "class-private-field", "class-private-method", "class-private-accessor", "class-private-static-field",
	"class-private-static-method", "class-private-static-accessor", "class-static-blocks", "class-private-brand-check",
	"async-await", "async-generator", "for-await", "template-literal", "optional-catch-binding"}

func pickConfig(r *Rng) gconfig {
	o := api.TransformOptions{Loader: api.LoaderJS, LogLevel: api.LogLevelSilent}
	var desc string
	switch r.Intn(10) {
	case 0, 1, 2, 3, 4, 5:
		ts := []api.Target{api.ES2015, api.ES2016, api.ES2017, api.ES2018, api.ES2019, api.ES2020, api.ES2021, api.ES2022}
		names := []string{"es2015", "es2016", "es2017", "es2018", "es2019", "es2020", "es2021", "es2022"}
		i := r.Intn(len(ts))
		if r.Chance(40) {
			i = r.Intn(3) // the low targets lower the most
		}
		o.Target = ts[i]
		desc = "target=" + names[i]
	case 6, 7, 8:
		o.Target = api.ESNext
		o.Supported = map[string]bool{}
		var fs []string
		for k := r.Range(1, 3); k > 0; k-- {
			f := r.Pick(overrideFeatures)
			o.Supported[f] = false
			fs = append(fs, f)
		}
		desc = "supported:" + strings.Join(fs, "=false,") + "=false"
	default:
		o.Engines = []api.Engine{{Name: api.EngineChrome, Version: r.Pick([]string{"50", "55", "60", "63", "70", "79", "80", "84", "90", "100"})},
			{Name: api.EngineNode, Version: r.Pick([]string{"8", "10", "12", "13.2", "14", "15", "16", "18"})}}
		desc = "engines=" + o.Engines[0].Version + "," + o.Engines[1].Version
	}
	if r.Chance(35) {
		o.MinifySyntax = true
		desc += ",minify-syntax"
	}
	if r.Chance(10) {
		o.MinifyIdentifiers = true
		desc += ",minify-identifiers"
	}
	if r.Chance(10) {
		o.KeepNames = true
		desc += ",keep-names"
	}
	return gconfig{desc, o}
}

type gcase struct {
	kind string
	src  string
	cfg  gconfig
	out  string
	err  string
}

// a model tree as a runnable program: v0..v5 bound to probed objects / nullish
// values, this bound to a probed object
func treeProgram(r *Rng, e *Ex) string {
	var sb strings.Builder
	sb.WriteString("(function() {\n")
	for i := 0; i < 6; i++ {
		switch r.Intn(8) {
		case 0:
			sb.WriteString(fmt.Sprintf("var v%d = null;\n", i))
		case 1:
			sb.WriteString(fmt.Sprintf("var v%d;\n", i))
		case 2:
			sb.WriteString(fmt.Sprintf("var v%d = %s;\n", i, r.Pick([]string{"0", "3", "\"\"", "false", "true"})))
		default:
			sb.WriteString(fmt.Sprintf("var v%d = $mk(\"v%d\", %d, %s);\n", i, i, r.Range(0, 3), r.Pick([]string{"0", "5", "null", "undefined"})))
		}
	}
	sb.WriteString("try { $p(\"result\", $id(" + e.JS() + ")); } catch (e) { $p(\"E\", e && e.constructor && e.constructor.name); }\n")
	sb.WriteString("$p(\"final\", [v0, v1, v2, v3, v4, v5].map($id));\n")
	sb.WriteString("}).call($mk(\"this\", 2, 0));\n")
	return sb.String()
}

// shapes of the divergences that are already established (see witnessReplay):
//  F4 "(a?.b)(args)": arguments are not evaluated when the chain short-circuits
//  F6 "(null ?? a.b)?.()": folding makes the callee a property access, step 2 then binds this
func hitsKnownFinding(e *Ex) bool {
	if e == nil {
		return false
	}
	if e.K == kCall {
		c := e.Kids[0]
		if e.Oc == ocNone && (c.K == kDot || c.K == kIndex) && c.Oc != ocNone && len(e.Args) > 0 {
			return true
		}
		if c.K == kBin && c.N == 0 {
			return true
		}
	}
	for _, k := range e.Kids {
		if hitsKnownFinding(k) {
			return true
		}
	}
	for _, k := range e.Args {
		if hitsKnownFinding(k) {
			return true
		}
	}
	return false
}

func glueStream(r *Rng, st *Stats, n int, tier string) {
	var cases []gcase
	mg := &mgen{r: r}
	for i := 0; i < n; i++ {
		var src, kind string
		switch {
		case i%4 == 0:
			kind = "glue-tree"
			e := mg.expr(r.Range(2, 4))
			for tries := 0; hitsKnownFinding(e) && tries < 20; tries++ {
				e = mg.expr(r.Range(2, 4))
				st.Histogram["tree-regenerated-to-avoid-known-finding"]++
			}
			src = treeProgram(r, e)
		case i%4 == 1:
			kind = "glue-jsgen"
			feats := AllJSFeatures()
			feats.BigInt = false // "**" on BigInt operands cannot be lowered to Math.pow (documented)
			g := NewJSGen(r, feats)
			src = g.Program(r.Range(3, 7))
		default:
			kind = "glue-lowerable"
			g := newLgen(r)
			src = g.Program(r.Range(1, 3))
			for k, v := range g.ops {
				st.Histogram["construct:"+k] += v
			}
		}
		nc := 2
		if kind == "glue-tree" {
			nc = 1
		}
		for k := 0; k < nc; k++ {
			c := gcase{kind: kind, src: src, cfg: pickConfig(r)}
			if kind == "glue-tree" {
				f := pickFeat(r)
				c.cfg = gconfig{f.String(), f.options()}
				if r.Chance(30) {
					c.cfg.opts.MinifySyntax = true
					c.cfg.desc += ",minify-syntax"
				}
			}
			cases = append(cases, c)
		}
	}
	evalCases(st, cases, true)
}

func evalCases(st *Stats, cases []gcase, recheck bool) {
	var progs []string
	for i := range cases {
		res := api.Transform(cases[i].src, cases[i].cfg.opts)
		if len(res.Errors) > 0 {
			cases[i].err = res.Errors[0].Text
		} else {
			cases[i].out = string(res.Code)
		}
		progs = append(progs, cases[i].src, cases[i].out)
	}
	results, err := runNodeAsync(progs, 3000)
	if err != nil {
		st.Fail("node-oracle-unavailable", err.Error(), nil, nil)
		return
	}
	var again []gcase
	for i, c := range cases {
		a, b := results[2*i], results[2*i+1]
		if a.Err() == "SyntaxError" && len(a.Log) == 0 {
			st.Histogram["generator-invalid-program"]++
			st.Histogram["generator-invalid-program:"+c.kind]++
			if st.Histogram["generator-invalid-program"] <= 2 {
				st.Extra[fmt.Sprintf("invalid-program-%d", st.Histogram["generator-invalid-program"])] = c.src
			}
			continue
		}
		if c.err != "" {
			// esbuild reports that the construct cannot be transformed for this target: allowed
			st.Histogram["esbuild-error-skip"]++
			continue
		}
		if a.Err() == "TIMEOUT" || b.Err() == "TIMEOUT" || strings.HasPrefix(a.Err(), "HARNESS") {
			st.Histogram["timeout"]++
			continue
		}
		if recheck {
			st.Note(c.kind, c.cfg.desc+c.src, c.out != c.src && len(a.Log) > 1)
		}
		if !a.Same(b) {
			if recheck {
				again = append(again, c)
				continue
			}
			if explainedWithoutLowering(c, a, b) {
				// the same program already behaves differently - and in the same way - when
				// nothing is lowered (ESNext, same minify flags): a defect of plain
				// transformation or of the minifier (properties C01 / C03), not of lowering
				st.Histogram["difference-already-present-without-lowering"]++
				continue
			}
			st.Fail("lowered-output-behaves-differently", map[string]string{"program": c.src, "options": c.cfg.desc, "output": c.out, "first_difference": firstDiff(a, b)}, b.String(), a.String())
		}
	}
	if len(again) > 0 {
		evalCases(st, again, false)
	}
}

// explainedWithoutLowering: transform with the same flags but ESNext and no
// engine/feature overrides (nothing is lowered).  If that baseline output
// already differs from the original AND the lowered output behaves exactly
// like the baseline, lowering is not what changed the behaviour.
func explainedWithoutLowering(c gcase, orig, lowered NodeResult) bool {
	o := c.cfg.opts
	o.Target = api.ESNext
	o.Engines = nil
	o.Supported = nil
	res := api.Transform(c.src, o)
	if len(res.Errors) > 0 {
		return false
	}
	rs, err := runNodeAsync([]string{string(res.Code)}, 3000)
	if err != nil {
		return false
	}
	return !orig.Same(rs[0]) && lowered.Same(rs[0])
}

func firstDiff(a, b NodeResult) string {
	for i := 0; i < len(a.Log) && i < len(b.Log); i++ {
		if a.Log[i] != b.Log[i] {
			return fmt.Sprintf("log[%d]: original %q, lowered %q", i, a.Log[i], b.Log[i])
		}
	}
	return fmt.Sprintf("log lengths %d vs %d, errors %q vs %q", len(a.Log), len(b.Log), a.Err(), b.Err())
}

// ---------------------------------------------------------------------------
// Established divergences (each reproduced on the pinned tree).  F1-F6 are the
// witnesses of the *_refuted theorems of coq/C05/Properties.v replayed on the
// real code; F7-F10 were found by the glue stream.  They are replayed on every
// run and reported through st.Fail with a specific failure kind and id; each is
// listed in /verif/known_findings.d/C05.json (=> KNOWN-FINDING line).  The
// random streams avoid these shapes so that any OTHER difference is reported.

type witness struct {
	id, what, src string
	opts        api.TransformOptions
}

const wPrelude = "var o = {tag: \"o\", f() { return this && this.tag; }};\n"

func es(t api.Target) api.TransformOptions {
	return api.TransformOptions{Loader: api.LoaderJS, LogLevel: api.LogLevelSilent, Target: t}
}

var witnesses = []witness{
	{"C05-F1", "an identifier operand is never captured: `ga ?? 2` reads an accessor-backed global twice",
		"Object.defineProperty(globalThis, \"ga\", {get() { $p(\"get ga\"); return 1; }, configurable: true});\n$p(ga ?? 2);\n", es(api.ES2019)},
	{"C05-F2", "`a.b ||= v` re-reads `a` after the getter of b ran (getter reassigns a): the store goes to another object",
		"var o2 = {b: 0};\nvar a = {get b() { a = o2; return 0; }, set b(v) { $p(\"set on original\", v); }};\na.b ||= 5;\n$p(o2);\n", es(api.ES2020)},
	{"C05-F3", "`c.m?.()` re-reads `c` for this after the getter of m ran (getter reassigns c)",
		"var c = {get m() { c = {name: \"other\"}; return function() { return this.name; }; }, name: \"orig\"};\n$p(c.m?.());\n", es(api.ES2019)},
	{"C05-F4", "`(a?.b)(args)`: when the parenthesised chain short-circuits the lowered code throws before the arguments are evaluated",
		"var a = null;\ntry { (a?.b)($p(\"argument evaluated\")); } catch (e) { $p(e.constructor.name); }\n", es(api.ES2019)},
	{"C05-F5", "`o.m?.()` is lowered to `_a.call(o)`: an own `call` property of a non-callable value is invoked instead of a TypeError",
		"var o = {m: {call() { return \"hijacked\"; }}};\ntry { $p(o.m?.()); } catch (e) { $p(e.constructor.name); }\n", es(api.ES2019)},
	{"C05-F6", "`(null ?? o.f)?.()`: constant folding turns the callee into a property access and lowerOptionalChain then binds this = o",
		wPrelude + "$p((null ?? o.f)?.());\n$p((1 && o.f)?.());\n", es(api.ES2019)},
	{"C05-F7", "class .name changes when static fields / static blocks are lowered (no keep-names)",
		"class C1 { static sarrow = () => this === C1; }\nvar C2 = class Inner { static s = 1; };\n$p(C1.name, C2.name);\n", es(api.ES2021)},
	{"C05-F2b", "`a[f()] ||= 5` where f() reassigns `a` (no getter involved): lowered to `a[_a = f()] || (a[_a] = 5)`, `a` is re-read after f() ran and the store goes to the new object",
		"var o1 = {tag: \"o1\"}, o2 = {tag: \"o2\"};\nvar a = o1;\nfunction f() { a = o2; return \"k\"; }\na[f()] ||= 5;\n$p(o1, o2);\n", es(api.ES2020)},
	{"C05-F3b", "`b[g()]?.()` where g() reassigns `b`: lowered to `(_a = b[g()]) == null ? void 0 : _a.call(b)`, this is the new object",
		"var o1 = {tag: \"o1\", m() { return this.tag; }}, o2 = {tag: \"o2\", m: o1.m};\nvar b = o1;\nfunction g() { b = o2; return \"m\"; }\n$p(b[g()]?.());\n", es(api.ES2019)},
	{"C05-F10", "a parameter with object rest is destructured in the body, after the default values of later parameters were evaluated",
		"function fn({a = $p(\"default-a\"), ...rest}, b = $p(\"default-b\")) { return [a, rest, b]; }\nfn({x: 1});\n", es(api.ES2017)},
	{"C05-F13", "`this.#f(arg)` with #f undefined: lowered to `__privateGet(this, _f).call(this, arg)`, the TypeError is thrown while reading .call, before the argument is evaluated",
		"class K { #f; run() { try { this.#f($p(\"argument evaluated\")); } catch (e) { $p(e.constructor.name); } } }\nnew K().run();\n", es(api.ES2021)},
	{"C05-F14", "class with lowered private members evaluated twice in one scope: the WeakMap is one hoisted var that the second evaluation overwrites",
		"var objs = [];\nfor (var i = 0; i < 2; i++) { var K = class { #x = i; get() { return this.#x; } static is(o) { return #x in o; } }; objs.push([new K, K]); }\ntry { $p(objs[0][0].get()); } catch (e) { $p(e.constructor.name); }\n$p(objs[0][1].is(objs[0][0]), objs[0][1].is(objs[1][0]));\n", es(api.ES2021)},
	{"C05-F2c", "`o.#p ??= 5` where the getter of #p reassigns `o`: the setter runs on the new object",
		"var o, other;\nclass D { #v = 0; get #p() { o = other; return null; } set #p(v) { this.#v = v; } static run() { o = new D; other = new D; var first = o; o.#p ??= 5; return [first.#v, other.#v]; } }\n$p(D.run());\n", es(api.ES2021)},
	{"C05-F17", "`o?.#m?.()` with private names lowered and optional chaining kept (target es2021): the method is called without this",
		"class K { #m() { return this instanceof K ? \"this ok\" : \"this lost\"; } #o = {f() { return this === undefined ? \"this lost\" : \"this ok\"; }}; run(o) { return [o?.#m?.(), (o?.#m)?.(), o?.#o.f?.()]; } }\n$p(new K().run(new K));\n", es(api.ES2021)},
	{"C05-F18", "async arrow that uses `super` but not `this` (target es2016): lowered to `__async(null, null, function*(){ return __superGet(A.prototype, this, \"foo\") })`, this is null inside, a getter on the base class sees no receiver",
		"class B { get foo() { return this.tag; } }\nclass A extends B { tag = \"a\"; m() { return async () => super.foo; } }\nnew A().m()().then(function(v) { $p(\"value\", v); }, function(e) { $p(\"rejected\", e.constructor.name); });\n", es(api.ES2016)},
}

// Findings that were repaired by a fix: commit in /repo: their inputs (and close
// variants) must behave identically now; a difference is a VIOLATION (a revert
// of the fix is reported with the input).
var mustPass = []witness{
	{"C05-F19", "`yield*` inside a SYNC generator is wrapped in __yieldStar when async generators are lowered (target es2017): the delegate's Symbol.asyncIterator is preferred over Symbol.iterator",
		"var src = {[Symbol.iterator]() { return [3][Symbol.iterator](); }, [Symbol.asyncIterator]() { throw new Error(\"async iterator used\"); }};\nfunction* g1() { yield* [1, 2]; yield* src; }\ntry { $p(Array.from(g1())); } catch (e) { $p(e.message); }\n", es(api.ES2017)},
	{"C05-F20", "a parenthesised optional chain ending in a private member as a template tag, ``(a?.#b)`x` `` (target es2020: private names lowered, optional chaining kept): the tag is called without this (F17 family)",
		"class K { #b(s) { return this instanceof K ? \"this ok\" : \"this lost\"; } run(a) { return (a?.#b)`x`; } }\n$p(new K().run(new K));\n", es(api.ES2020)},
	{"C05-F21", "`constructor() { return super() }` in a derived class with lowered fields (target es2020): the __super() shim is turned back into super() and then not used, the field initialisers are never run",
		"class B2 {}\nclass A2 extends B2 { x = 1; constructor() { return super(); } }\n$p(new A2().x);\n", es(api.ES2020)},
	{"C05-F19", "(variant) only async-generator unsupported; delegate generator with return value next to an object that has both iterators",
		"var src = {[Symbol.iterator]() { return [3][Symbol.iterator](); }, [Symbol.asyncIterator]() { throw new Error(\"async iterator used\"); }};\nfunction* g1() { var r = yield* (function*() { var x = yield 1; return x * 2; })(); yield r; yield* src; }\nvar it = g1();\ntry { $p(it.next(), it.next(21), it.next(), it.next()); } catch (e) { $p(e.message); }\nasync function* ag() { yield* [7]; }\n(async () => { for await (var v of ag()) $p(\"ag\", v); })();\n",
		api.TransformOptions{Loader: api.LoaderJS, LogLevel: api.LogLevelSilent, Target: api.ESNext, Supported: map[string]bool{"async-generator": false}}},
	{"C05-F20", "(variant) private field holding a function and a deeper chain as tags, target es2021",
		"class K { #f = function(s) { return this instanceof K ? \"this ok\" : \"this lost\"; }; o = this; #b(s, v) { return [this instanceof K, s.raw.join(\"|\"), v]; } run(a) { return [(a?.#f)`z`, (a?.o.#b)`x${1}y`, a.#b`q`]; } }\n$p(new K().run(new K));\n", es(api.ES2021)},
	{"C05-F21", "(variant) conditional `return super()`, `return super(), obj`, and a private field, target es2015",
		"class B2 { constructor(v) { this.v = v; } }\nclass A3 extends B2 { x = 2; constructor(c) { if (c) return super(6); super(7); } }\nclass A4 extends B2 { x = 3; constructor() { return super(8), {alt: 1}; } }\nclass A5 extends B2 { #p = 4; constructor() { return super(9); } get p() { return this.#p; } }\n$p(new A3(1).x, new A3(1).v, new A3(0).x, new A3(0).v, new A4(), new A5().p);\n", es(api.ES2015)},
	{"C05-F15", "`[o.#g = d] = []`: the private member with a default value in an array pattern is not lowered, the output assigns the public property `_g`",
		"class E { #g = 0; static run(o) { [o.#g = \"dflt\"] = []; return [o.#g, Object.keys(o)]; } }\n$p(E.run(new E));\ntry { $p(E.run({})); } catch (e) { $p(e.constructor.name); }\n", es(api.ES2021)},
	{"C05-F16", "`for (o.#g of xs)`: the private member as a for-of target is not lowered, the output assigns the public property `_g`",
		"class G { #g = 0; static run(o) { for (o.#g of [7]) ; return [o.#g, Object.keys(o)]; } }\n$p(G.run(new G));\ntry { $p(G.run({})); } catch (e) { $p(e.constructor.name); }\n", es(api.ES2021)},
	{"C05-F15", "(variant) nested patterns and an accessor target: `[[o.#g = 6]] = [[]]`, `({x: [o.#a = 2]} = {x: []})`",
		"class E { #g = 0; get #a() { return 1; } set #a(v) { $p(\"set a\", v); } static run(o) { [[o.#g = 6]] = [[]]; ({x: [o.#a = 2]} = {x: []}); return [o.#g, Object.keys(o)]; } }\n$p(E.run(new E));\ntry { $p(E.run({})); } catch (e) { $p(e.constructor.name); }\n", es(api.ES2015)},
	{"C05-F16", "(variant) for-in target, pattern in a for-of head, only class-private-field unsupported",
		"class G { #g = 0; static run(o) { for (o.#g in {k: 1}) ; var a = o.#g; for ([o.#g = 3] of [[]]) ; var b = o.#g; for ({x: o.#g = 5} of [{}]) ; return [a, b, o.#g, Object.keys(o)]; } }\n$p(G.run(new G));\ntry { $p(G.run({})); } catch (e) { $p(e.constructor.name); }\n",
		api.TransformOptions{Loader: api.LoaderJS, LogLevel: api.LogLevelSilent, Target: api.ESNext, Supported: map[string]bool{"class-private-field": false}}},
	{"C05-F8", "`super.x` inside an `async *` method: the lowered generator callback still contains `super` (output is a SyntaxError, no error reported)",
		"class A { get v() { return \"base-v\"; } }\nclass B extends A { async *ag() { yield super.v; } }\n(async () => { for await (var q of new B().ag()) $p(q); })();\n", es(api.ES2017)},
	{"C05-F9", "lowered async generator: return() (e.g. break in for-await) while suspended in a try whose finally awaits skips the rest of the finally block",
		"async function* g() { try { yield 1; yield 2; } finally { $p(\"cleanup1\"); await null; $p(\"cleanup2\"); } }\n(async () => { for await (var x of g()) { $p(\"body\", x); break; } $p(\"after loop\"); })();\n", es(api.ES2017)},
	{"C05-F11", "static private field + `#p in o` with only class-private-brand-check unsupported: `_C2.#sp = 7` is emitted outside the class body (SyntaxError, no error reported)",
		"class C2 {\n  static #sp = 7;\n  static readSP() { return C2.#sp; }\n  #p = 1;\n  static hasP(o) { return #p in o; }\n}\n$p(C2.readSP(), C2.hasP(new C2));\n",
		api.TransformOptions{Loader: api.LoaderJS, LogLevel: api.LogLevelSilent, Engines: []api.Engine{{Name: api.EngineChrome, Version: "90"}}}},
	{"C05-F12", "temporaries collide: the loop variable of a lowered `for (var {a, ...r} of ...)` and the cache of a lowered tagged template are both `_a` in the same scope (--target=node8): the tag function receives the loop object instead of the strings array",
		"for (var {a, ...rest} of [{a: 1, q: 2}]) { $p(rest); }\nfunction tag(strs) { return strs; }\nvar r = tag`x`;\n$p(r, Object.isFrozen(r));\n",
		api.TransformOptions{Loader: api.LoaderJS, LogLevel: api.LogLevelSilent, Engines: []api.Engine{{Name: api.EngineNode, Version: "8"}}}},
	{"C05-F12", "(variant) object rest in a var declaration next to a tagged template, --target=node8",
		"var src = {a: 1, q: 2};\nvar {a, ...rest} = src;\n$p(rest);\nfunction tag(strs) { return strs; }\nvar r = tag`x`;\n$p(r, Object.isFrozen(r));\n",
		api.TransformOptions{Loader: api.LoaderJS, LogLevel: api.LogLevelSilent, Engines: []api.Engine{{Name: api.EngineNode, Version: "8"}}}},
	{"C05-F9", "(variant) it.return() while suspended in a try whose finally awaits and then yields",
		"async function* ag() { try { yield 1; yield 2; } finally { $p(\"finally\"); await null; yield \"from-finally\"; $p(\"after\"); } }\n(async () => { var it = ag(); $p(await it.next()); $p(await it.return(\"early\")); $p(await it.next()); $p(await it.next()); })();\n", es(api.ES2017)},
	{"C05-F9", "(variant) only async-generator unsupported", 
		"async function* g() { try { yield 1; yield 2; } finally { $p(\"cleanup1\"); await null; $p(\"cleanup2\"); } }\n(async () => { for await (var x of g()) { $p(\"body\", x); break; } $p(\"after loop\"); })();\n",
		api.TransformOptions{Loader: api.LoaderJS, LogLevel: api.LogLevelSilent, Target: api.ESNext, Supported: map[string]bool{"async-generator": false}}},
	{"C05-F8", "(variant) super method call and super in a nested arrow inside an async generator method",
		"class A { m(x) { return \"A.m\" + x; } }\nclass B extends A { async *ag() { yield super.m(1); yield (() => super.m(2))(); } }\n(async () => { for await (var q of new B().ag()) $p(q); })();\n", es(api.ES2017)},
	{"C05-F11", "(variant) static private method next to a brand check, --target=chrome90",
		"class C2 {\n  static #sm() { return 7; }\n  static call() { return C2.#sm(); }\n  #p = 1;\n  static hasP(o) { return #p in o; }\n}\n$p(C2.call(), C2.hasP(new C2), C2.hasP({}));\n",
		api.TransformOptions{Loader: api.LoaderJS, LogLevel: api.LogLevelSilent, Engines: []api.Engine{{Name: api.EngineChrome, Version: "90"}}}},
}

func witnessReplay(st *Stats) {
	var progs []string
	outs := make([]string, len(witnesses))
	for i, w := range witnesses {
		res := api.Transform(w.src, w.opts)
		if len(res.Errors) > 0 {
			outs[i] = "throw new SyntaxError(\"esbuild error\");"
		} else {
			outs[i] = string(res.Code)
		}
		progs = append(progs, w.src, outs[i])
	}
	results, err := runNodeAsync(progs, 3000)
	if err != nil {
		st.Fail("node-oracle-unavailable", err.Error(), nil, nil)
		return
	}
	replay := map[string]string{}
	for i, w := range witnesses {
		a, b := results[2*i], results[2*i+1]
		if a.Same(b) {
			replay[w.id] = "no longer diverges"
			continue
		}
		replay[w.id] = "diverges: " + firstDiff(a, b)
		st.Histogram["established-divergence-reproduced"]++
		st.Fail("established-divergence:"+w.id, map[string]string{"id": w.id, "program": w.src, "output": outs[i], "what": w.what}, b.String(), a.String())
	}
	st.Extra["witness_replay"] = replay
	// repaired findings: must pass
	var mp []string
	mpo := make([]string, len(mustPass))
	for i, w := range mustPass {
		res := api.Transform(w.src, w.opts)
		if len(res.Errors) > 0 {
			mpo[i] = "throw new SyntaxError(\"esbuild error\");"
		} else {
			mpo[i] = string(res.Code)
		}
		mp = append(mp, w.src, mpo[i])
	}
	if rs, err := runNodeAsync(mp, 3000); err != nil {
		st.Fail("node-oracle-unavailable", err.Error(), nil, nil)
	} else {
		for i, w := range mustPass {
			a, b := rs[2*i], rs[2*i+1]
			st.Note("fixed-finding-replay", w.id+w.what, true)
			if !a.Same(b) {
				st.Fail("repaired-finding-regressed:"+w.id, map[string]string{"id": w.id, "program": w.src, "output": mpo[i], "what": w.what, "first_difference": firstDiff(a, b)}, b.String(), a.String())
			}
		}
	}
	// out of scope (ES5-only transformation reached through an override): observed, not judged
	obsSrc := "class A { f = () => this instanceof A; }\n$p(new A().f());\n"
	obsRes := api.Transform(obsSrc, api.TransformOptions{Loader: api.LoaderJS, LogLevel: api.LogLevelSilent, Target: api.ESNext, Supported: map[string]bool{"arrow": false}})
	if len(obsRes.Errors) == 0 {
		if rs, err := runNodeAsync([]string{obsSrc, string(obsRes.Code)}, 3000); err == nil {
			if rs[0].Same(rs[1]) {
				st.Extra["out_of_scope_arrow_in_class_field"] = "same behaviour"
			} else {
				st.Extra["out_of_scope_arrow_in_class_field"] = "supported:arrow=false with class syntax kept: " + firstDiff(rs[0], rs[1])
			}
		}
	} else {
		st.Extra["out_of_scope_arrow_in_class_field"] = "esbuild reports an error: " + obsRes.Errors[0].Text
	}
}
