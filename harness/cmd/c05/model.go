package main

// Correspondence stream of C05: MiniJS trees (mirror of coq/C05/Syntax.v) are
// generated, printed as JavaScript, pushed through api.Transform with
// Target=ESNext and Supported overrides so that a chosen subset of
// {nullish-coalescing, logical-assignment, optional-chain, exponent-operator}
// is lowered, the output is parsed by the real js_parser.Parse and dumped back
// into a MiniJS tree.  The Coq checker recomputes the lowering with the model
// and compares modulo the canonical renaming of temporaries.

import (
	"fmt"
	"regexp"
	"strings"

	"github.com/evanw/esbuild/internal/ast"
	"github.com/evanw/esbuild/internal/config"
	"github.com/evanw/esbuild/internal/helpers"
	"github.com/evanw/esbuild/internal/js_ast"
	"github.com/evanw/esbuild/internal/js_parser"
	"github.com/evanw/esbuild/internal/logger"
	"github.com/evanw/esbuild/pkg/api"
	. "github.com/evanw/esbuild/verifharness/hlib"
)

type kind int

const (
	kNull kind = iota
	kUndef
	kThis
	kBool
	kNum
	kStr
	kId
	kTmp
	kDot
	kIndex
	kCall
	kCallThis
	kDelete
	kAssign
	kBin
	kOpAsg
	kIf
	kEqNull
	kPowCall
)

const (
	ocNone = 0
	ocStart = 1
	ocCont = 2
)

var binNames = []string{"BNullish", "BOr", "BAnd", "BPow", "BSub", "BComma"}
var binText = []string{"??", "||", "&&", "**", "-", ","}
var asgNames = []string{"ANullish", "AOr", "AAnd", "APow", "ASub"}
var asgText = []string{"??=", "||=", "&&=", "**=", "-="}
var ocNames = []string{"OcNone", "OcStart", "OcCont"}

// Ex mirrors Syntax.expr
type Ex struct {
	K    kind
	N    int64 // number / string id / identifier / temp / property name / operator
	B    bool  // EBool value, EEqNull neg
	Oc   int
	Kids []*Ex // fixed children (target, key, value ...)
	Args []*Ex
}

func (e *Ex) Coq() string {
	k := func(i int) string { return e.Kids[i].Coq() }
	args := func() string {
		s := make([]string, len(e.Args))
		for i, a := range e.Args {
			s[i] = a.Coq()
		}
		return "[" + strings.Join(s, "; ") + "]"
	}
	switch e.K {
	case kNull:
		return "ENull"
	case kUndef:
		return "EUndef"
	case kThis:
		return "EThis"
	case kBool:
		return "(EBool " + CBool(e.B) + ")"
	case kNum:
		return "(ENum " + CZ(e.N) + ")"
	case kStr:
		return "(EStr " + CZ(e.N) + ")"
	case kId:
		return "(EId " + CZ(e.N) + ")"
	case kTmp:
		return "(ETmp " + CZ(e.N) + ")"
	case kDot:
		return "(EDot " + k(0) + " " + CZ(e.N) + " " + ocNames[e.Oc] + ")"
	case kIndex:
		return "(EIndex " + k(0) + " " + k(1) + " " + ocNames[e.Oc] + ")"
	case kCall:
		return "(ECall " + k(0) + " " + args() + " " + ocNames[e.Oc] + ")"
	case kCallThis:
		return "(ECallThis " + k(0) + " " + k(1) + " " + args() + ")"
	case kDelete:
		return "(EDelete " + k(0) + ")"
	case kAssign:
		return "(EAssign " + k(0) + " " + k(1) + ")"
	case kBin:
		return "(EBin " + binNames[e.N] + " " + k(0) + " " + k(1) + ")"
	case kOpAsg:
		return "(EOpAsg " + asgNames[e.N] + " " + k(0) + " " + k(1) + ")"
	case kIf:
		return "(EIf " + k(0) + " " + k(1) + " " + k(2) + ")"
	case kEqNull:
		return "(EEqNull " + CBool(e.B) + " " + k(0) + ")"
	case kPowCall:
		return "(EPowCall " + k(0) + " " + k(1) + ")"
	}
	panic("bad kind")
}

// JS prints the tree as JavaScript.  Member/call chains are printed without
// parentheses along OcStart/OcCont links and with parentheses when a node with
// OcNone has a chain as target (parentheses end a chain); everything else is
// fully parenthesised.
func (e *Ex) JS() string {
	switch e.K {
	case kNull:
		return "null"
	case kUndef:
		return "undefined"
	case kThis:
		return "this"
	case kBool:
		if e.B {
			return "true"
		}
		return "false"
	case kNum:
		return fmt.Sprintf("%d", e.N)
	case kStr:
		return fmt.Sprintf("\"s%d\"", e.N)
	case kId:
		return fmt.Sprintf("v%d", e.N)
	case kTmp:
		return fmt.Sprintf("_t%d", e.N)
	case kDot:
		t := e.Kids[0].targetJS(e.Oc)
		if e.Oc == ocStart {
			return t + "?." + propName(e.N)
		}
		return t + "." + propName(e.N)
	case kIndex:
		t := e.Kids[0].targetJS(e.Oc)
		if e.Oc == ocStart {
			return t + "?.[" + e.Kids[1].JS() + "]"
		}
		return t + "[" + e.Kids[1].JS() + "]"
	case kCall:
		t := e.Kids[0].targetJS(e.Oc)
		as := make([]string, len(e.Args))
		for i, a := range e.Args {
			as[i] = a.argJS()
		}
		if e.Oc == ocStart {
			return t + "?.(" + strings.Join(as, ", ") + ")"
		}
		return t + "(" + strings.Join(as, ", ") + ")"
	case kDelete:
		return "delete " + e.Kids[0].JS()
	case kAssign:
		return e.Kids[0].JS() + " = " + e.Kids[1].argJS()
	case kBin:
		return "(" + e.Kids[0].JS() + ") " + binText[e.N] + " (" + e.Kids[1].JS() + ")"
	case kOpAsg:
		return e.Kids[0].JS() + " " + asgText[e.N] + " " + e.Kids[1].argJS()
	}
	panic("not a source construct")
}

func propName(n int64) string { return fmt.Sprintf("p%d", n) }

func (e *Ex) isChainLink() bool {
	return (e.K == kDot || e.K == kIndex || e.K == kCall) && e.Oc != ocNone
}

func (e *Ex) isPostfix() bool {
	switch e.K {
	case kNull, kUndef, kThis, kBool, kStr, kId, kTmp, kDot, kIndex, kCall:
		return true
	}
	return false
}

// target of a member access / call whose own optional-chain flag is oc
func (e *Ex) targetJS(oc int) string {
	s := e.JS()
	if oc != ocCont && e.isChainLink() {
		return "(" + s + ")" // parentheses end the inner chain (for OcStart they are harmless)
	}
	if !e.isPostfix() {
		return "(" + s + ")"
	}
	return s
}

func (e *Ex) argJS() string {
	if e.K == kBin && e.N == 5 {
		return "(" + e.JS() + ")"
	}
	return e.JS()
}

// ---------------------------------------------------------------------------
// generator of well-formed source trees

type mgen struct {
	r *Rng
	// min: trees for the minify-syntax stream: no literal leaves and no comma, so that none of the
	// minifier's own rewrites (constant folding, comma hoisting, dead-chain removal with side
	// effects: property C03) fires and only the lowering shapes are compared
	min bool
}

func lit(k kind, n int64) *Ex { return &Ex{K: k, N: n} }

func (g *mgen) leaf() *Ex {
	r := g.r
	if g.min {
		if r.Chance(15) {
			return &Ex{K: kThis}
		}
		return lit(kId, int64(r.Intn(6)))
	}
	switch r.Intn(12) {
	case 0:
		return &Ex{K: kNull}
	case 1:
		return &Ex{K: kUndef}
	case 2:
		return &Ex{K: kThis}
	case 3:
		return &Ex{K: kBool, B: r.Bool()}
	case 4:
		return lit(kNum, int64(r.Intn(5)))
	case 5:
		return lit(kStr, int64(r.Intn(4)))
	default:
		return lit(kId, int64(r.Intn(6)))
	}
}

// postfix-capable leaf usable as the start of a chain
func (g *mgen) expr(d int) *Ex {
	r := g.r
	if d <= 0 || r.Chance(12) {
		return g.leaf()
	}
	switch r.Intn(16) {
	case 0, 1, 2, 3, 4:
		return g.chain(d)
	case 5, 6:
		b := &Ex{K: kBin, N: 0, Kids: []*Ex{g.expr(d - 1), g.expr(d - 1)}}
		if rt := b.Kids[1]; g.min && ((rt.K == kBin && rt.N == 0) || (rt.K == kOpAsg && rt.N == 0)) {
			b.Kids[1] = g.leaf() // minify-syntax reassociates "a ?? (b ?? c)" (minifier rewrite)
		}
		return b
	case 7:
		b := &Ex{K: kBin, N: int64(3 + r.Intn(3)), Kids: []*Ex{g.expr(d - 1), g.expr(d - 1)}}
		if g.min && b.N == 5 {
			b.N = 4
		}
		if b.N == 5 && b.Kids[1].K == kBin && b.Kids[1].N == 5 {
			b.Kids[1] = g.leaf() // "a, (b, c)" is printed as "a, b, c" = "(a, b), c" (printer artefact)
		}
		return b
	case 8, 9, 10, 11:
		return &Ex{K: kOpAsg, N: int64(r.Intn(5)), Kids: []*Ex{g.target(d - 1), g.expr(d - 1)}}
	case 12:
		return &Ex{K: kAssign, Kids: []*Ex{g.target(d - 1), g.expr(d - 1)}}
	case 13:
		c := g.chain(d)
		if c.K == kDot || c.K == kIndex {
			return &Ex{K: kDelete, Kids: []*Ex{c}}
		}
		return c
	default:
		return g.chain(d)
	}
}

// assignment target: identifier or a non-optional member access
func (g *mgen) target(d int) *Ex {
	r := g.r
	switch r.Intn(5) {
	case 0, 1:
		return lit(kId, int64(r.Intn(6)))
	case 2, 3:
		return &Ex{K: kDot, N: int64(1 + r.Intn(4)), Oc: ocNone, Kids: []*Ex{g.expr(d)}}
	default:
		return &Ex{K: kIndex, Oc: ocNone, Kids: []*Ex{g.expr(d), g.expr(d)}}
	}
}

// a member/call chain of 1..4 links over a start expression
func (g *mgen) chain(d int) *Ex {
	r := g.r
	cur := g.expr(d - 1)
	if g.min && (cur.K == kDelete || (cur.K == kBin && (cur.N == 3 || cur.N == 4)) || (cur.K == kOpAsg && cur.N >= 3)) {
		// under minify-syntax a chain on a value that is never null/undefined loses its "?." (minifier rewrite)
		cur = g.leaf()
	}
	n := r.Range(1, 4)
	inChain := false
	for i := 0; i < n; i++ {
		oc := ocNone
		switch {
		case r.Chance(45):
			oc = ocStart
		case inChain && r.Chance(70):
			oc = ocCont
		}
		var nx *Ex
		switch r.Intn(5) {
		case 0, 1:
			nx = &Ex{K: kDot, N: int64(1 + r.Intn(4)), Oc: oc, Kids: []*Ex{cur}}
		case 2:
			nx = &Ex{K: kIndex, Oc: oc, Kids: []*Ex{cur, g.expr(d - 1)}}
		default:
			nx = &Ex{K: kCall, Oc: oc, Kids: []*Ex{cur}}
			for k := r.Intn(3); k > 0; k-- {
				nx.Args = append(nx.Args, g.expr(d-1))
			}
		}
		inChain = oc != ocNone
		cur = nx
	}
	return cur
}

// ---------------------------------------------------------------------------
// esbuild output -> MiniJS tree

type dumper struct {
	syms  []ast.Symbol
	tmps  map[string]int64
	fail  string
}

var reVar = regexp.MustCompile(`^v(\d+)$`)
var reProp = regexp.MustCompile(`^p(\d+)$`)
var reStr = regexp.MustCompile(`^s(\d+)$`)

func atoi(s string) int64 {
	var n int64
	fmt.Sscanf(s, "%d", &n)
	return n
}

func (d *dumper) name(ref ast.Ref) string { return d.syms[ref.InnerIndex].OriginalName }

func (d *dumper) prop(name string) int64 {
	if name == "call" {
		return 0
	}
	if m := reProp.FindStringSubmatch(name); m != nil {
		return atoi(m[1])
	}
	d.fail = "unexpected property " + name
	return -1
}

func (d *dumper) list(xs []js_ast.Expr) []*Ex {
	var out []*Ex
	for _, x := range xs {
		out = append(out, d.expr(x))
	}
	return out
}

func (d *dumper) expr(x js_ast.Expr) *Ex {
	switch e := x.Data.(type) {
	case *js_ast.ENull:
		return &Ex{K: kNull}
	case *js_ast.EUndefined:
		return &Ex{K: kUndef}
	case *js_ast.EThis:
		return &Ex{K: kThis}
	case *js_ast.EBoolean:
		return &Ex{K: kBool, B: e.Value}
	case *js_ast.ENumber:
		return &Ex{K: kNum, N: int64(e.Value)}
	case *js_ast.EString:
		s := helpers.UTF16ToString(e.Value)
		if m := reStr.FindStringSubmatch(s); m != nil {
			return &Ex{K: kStr, N: atoi(m[1])}
		}
		d.fail = "unexpected string " + s
	case *js_ast.EIdentifier:
		n := d.name(e.Ref)
		if m := reVar.FindStringSubmatch(n); m != nil {
			return &Ex{K: kId, N: atoi(m[1])}
		}
		if n == "undefined" {
			return &Ex{K: kUndef}
		}
		if strings.HasPrefix(n, "_") && !strings.HasPrefix(n, "__") {
			id, ok := d.tmps[n]
			if !ok {
				id = int64(len(d.tmps))
				d.tmps[n] = id
			}
			return &Ex{K: kTmp, N: id}
		}
		d.fail = "unexpected identifier " + n
	case *js_ast.EDot:
		return &Ex{K: kDot, N: d.prop(e.Name), Oc: int(e.OptionalChain), Kids: []*Ex{d.expr(e.Target)}}
	case *js_ast.EIndex:
		return &Ex{K: kIndex, Oc: int(e.OptionalChain), Kids: []*Ex{d.expr(e.Target), d.expr(e.Index)}}
	case *js_ast.ECall:
		if id, ok := e.Target.Data.(*js_ast.EIdentifier); ok && d.name(id.Ref) == "__pow" && len(e.Args) == 2 {
			return &Ex{K: kPowCall, Kids: []*Ex{d.expr(e.Args[0]), d.expr(e.Args[1])}}
		}
		if dot, ok := e.Target.Data.(*js_ast.EDot); ok && dot.Name == "call" && dot.OptionalChain == js_ast.OptionalChainNone &&
			e.OptionalChain == js_ast.OptionalChainNone && len(e.Args) >= 1 {
			return &Ex{K: kCallThis, Kids: []*Ex{d.expr(dot.Target), d.expr(e.Args[0])}, Args: d.list(e.Args[1:])}
		}
		return &Ex{K: kCall, Oc: int(e.OptionalChain), Kids: []*Ex{d.expr(e.Target)}, Args: d.list(e.Args)}
	case *js_ast.EIf:
		return &Ex{K: kIf, Kids: []*Ex{d.expr(e.Test), d.expr(e.Yes), d.expr(e.No)}}
	case *js_ast.EUnary:
		switch e.Op {
		case js_ast.UnOpVoid:
			if n, ok := e.Value.Data.(*js_ast.ENumber); ok && n.Value == 0 {
				return &Ex{K: kUndef}
			}
		case js_ast.UnOpDelete:
			return &Ex{K: kDelete, Kids: []*Ex{d.expr(e.Value)}}
		}
		d.fail = "unexpected unary operator"
	case *js_ast.EBinary:
		l, r := e.Left, e.Right
		two := func() []*Ex { return []*Ex{d.expr(l), d.expr(r)} }
		switch e.Op {
		case js_ast.BinOpLooseEq, js_ast.BinOpLooseNe:
			if _, ok := r.Data.(*js_ast.ENull); ok {
				return &Ex{K: kEqNull, B: e.Op == js_ast.BinOpLooseNe, Kids: []*Ex{d.expr(l)}}
			}
		case js_ast.BinOpNullishCoalescing:
			return &Ex{K: kBin, N: 0, Kids: two()}
		case js_ast.BinOpLogicalOr:
			return &Ex{K: kBin, N: 1, Kids: two()}
		case js_ast.BinOpLogicalAnd:
			return &Ex{K: kBin, N: 2, Kids: two()}
		case js_ast.BinOpPow:
			return &Ex{K: kBin, N: 3, Kids: two()}
		case js_ast.BinOpSub:
			return &Ex{K: kBin, N: 4, Kids: two()}
		case js_ast.BinOpComma:
			return &Ex{K: kBin, N: 5, Kids: two()}
		case js_ast.BinOpAssign:
			return &Ex{K: kAssign, Kids: two()}
		case js_ast.BinOpNullishCoalescingAssign:
			return &Ex{K: kOpAsg, N: 0, Kids: two()}
		case js_ast.BinOpLogicalOrAssign:
			return &Ex{K: kOpAsg, N: 1, Kids: two()}
		case js_ast.BinOpLogicalAndAssign:
			return &Ex{K: kOpAsg, N: 2, Kids: two()}
		case js_ast.BinOpPowAssign:
			return &Ex{K: kOpAsg, N: 3, Kids: two()}
		case js_ast.BinOpSubAssign:
			return &Ex{K: kOpAsg, N: 4, Kids: two()}
		}
		d.fail = fmt.Sprintf("unexpected binary operator %d", e.Op)
	default:
		d.fail = fmt.Sprintf("unexpected node %T", x.Data)
	}
	return &Ex{K: kNull}
}

// parseLast parses JavaScript text with the real parser (ESNext, nothing
// lowered, no minification) and dumps the last expression statement.
func parseLast(code string) (*Ex, string) {
	log := logger.NewDeferLog(logger.DeferLogNoVerboseOrDebug, nil)
	opts := config.Options{OmitRuntimeForTests: true}
	tree, ok := js_parser.Parse(log, logger.Source{Index: 0, KeyPath: logger.Path{Text: "<stdin>"}, Contents: code, IdentifierName: "stdin"}, js_parser.OptionsFromConfig(&opts))
	log.Done()
	if !ok {
		return nil, "reparse failed"
	}
	var last *js_ast.SExpr
	for _, part := range tree.Parts {
		for _, st := range part.Stmts {
			if s, ok := st.Data.(*js_ast.SExpr); ok {
				last = s
			}
		}
	}
	if last == nil {
		return nil, "no expression statement in output"
	}
	d := &dumper{syms: tree.Symbols, tmps: map[string]int64{}}
	// every case is wrapped as "v9 = (<expr>);" so that it is never dropped as unused
	asg, isAsg := last.Value.Data.(*js_ast.EBinary)
	if !isAsg || asg.Op != js_ast.BinOpAssign {
		return nil, "last statement is not the v9 assignment"
	}
	ex := d.expr(asg.Right)
	if d.fail != "" {
		return nil, d.fail
	}
	return ex, ""
}

type featSet struct{ nullish, logasg, optchain, exp bool }

func (f featSet) coq() string {
	return fmt.Sprintf("(mkFeat %s %s %s %s)", CBool(f.nullish), CBool(f.logasg), CBool(f.optchain), CBool(f.exp))
}
func (f featSet) String() string {
	var s []string
	for _, p := range []struct {
		b bool
		n string
	}{{f.nullish, "nullish-coalescing"}, {f.logasg, "logical-assignment"}, {f.optchain, "optional-chain"}, {f.exp, "exponent-operator"}} {
		if p.b {
			s = append(s, p.n)
		}
	}
	return "lower{" + strings.Join(s, ",") + "}"
}

func (f featSet) options() api.TransformOptions {
	return api.TransformOptions{
		Loader: api.LoaderJS, LogLevel: api.LogLevelSilent, Target: api.ESNext,
		Supported: map[string]bool{
			"nullish-coalescing": !f.nullish, "logical-assignment": !f.logasg,
			"optional-chain": !f.optchain, "exponent-operator": !f.exp,
		},
	}
}

func pickFeat(r *Rng) featSet {
	switch r.Intn(8) {
	case 0:
		return featSet{true, true, true, true}
	case 1:
		return featSet{nullish: true}
	case 2:
		return featSet{logasg: true}
	case 3:
		return featSet{optchain: true}
	case 4:
		return featSet{exp: true}
	case 5:
		return featSet{nullish: true, logasg: true}
	default:
		return featSet{r.Bool(), r.Bool(), r.Bool(), r.Bool()}
	}
}

func usesLowered(e *Ex) bool {
	if e == nil {
		return false
	}
	if (e.K == kBin && (e.N == 0 || e.N == 3)) || (e.K == kOpAsg && e.N < 4) || e.isChainLink() {
		return true
	}
	for _, k := range e.Kids {
		if usesLowered(k) {
			return true
		}
	}
	for _, k := range e.Args {
		if usesLowered(k) {
			return true
		}
	}
	return false
}

// fixed boundary grid (JavaScript source, parsed into trees by the real parser)
var gridSources = []string{
	"v0 ?? v1", "v0() ?? v1", "v0.p1 ?? v1", "null ?? v1", "undefined ?? v1", "1 ?? v1", "(v0, null) ?? v1", "(v0, 1) ?? v1",
	"(v0 - v1) ?? v2", "(v0 ** v1) ?? v2", "(v0 **= v1) ?? v2", "(delete v0.p1) ?? v2", "(v0 ?? v1) ?? v2", "v0 ?? (v1 ?? v2)",
	"v0 ??= v1", "v0.p1 ??= v1", "v0().p1 ??= v1", "v0[v1] ??= v2", "v0()[v1()] ??= v2", "this.p1 ??= v1", "v0[1] ??= v2",
	"v0 ||= v1", "v0.p1 ||= v1", "v0().p1 &&= v1", "v0[v1()] ||= v2", "v0 **= v1", "v0.p1 **= v1", "v0().p1 **= v1", "v0()[v1()] **= v2()",
	"v0 ** v1", "v0 ** v1 ** v2", "v0.p1 -= v1",
	"v0?.p1", "v0?.[v1]", "v0?.(v1)", "v0()?.p1", "v0.p1?.p2", "v0?.p1.p2", "v0?.p1?.p2", "v0?.p1.p2.p3(v1)", "v0?.p1(v1)", "v0.p1?.(v1)", "v0().p1?.(v1)",
	"v0[v1]?.(v2)", "v0()[v1()]?.(v2)", "v0?.p1?.(v1)", "v0?.p1.p2?.(v1)", "v0?.p1?.().p2(v1)", "v0?.()?.()", "v0?.p1?.()?.p2?.()", "(v0?.p1)(v1)", "(v0?.p1.p2)(v1)", "(v0?.[v1])(v2)",
	"(v0?.p1).p2", "(v0?.p1)?.p2", "(v0?.p1).p2(v1)", "delete v0?.p1", "delete v0?.p1.p2", "delete v0?.[v1]", "delete v0()?.p1", "delete v0.p1", "delete (v0?.p1).p2",
	"null?.p1", "undefined?.p1.p2(v0)", "delete null?.p1", "this?.p1", "this.p1?.(v0)", "1?.p1", "\"s1\"?.p1?.()", "v0?.[v1?.p1]", "v0?.(v1?.p1)", "(v0 ?? v1)?.p1", "v0?.p1 ?? v1",
	"(null ?? v0.p1)?.(v1)", "(null ?? v0.p1)(v1)", "(undefined ?? v0[v1])?.()", "((v2, null) ?? v0.p1)?.(v1)", "v0()?.[v1()]?.(v2())", "(v0?.[v1()])(v2)", "delete v0()?.p1.p2[v1]", "(v0?.p1).p2 ??= v1", "(v0?.p1)[v1?.p2] ||= v2", "v0?.p1?.p2?.p3?.p4", "v0?.p1(v1)(v2)", "v0?.p1(v1)?.(v2)", "(v0?.())()", "(v0?.p1())()",
}
