package main

// Generator of closed deterministic programs built from the constructs that
// esbuild lowers (the ones hlib/jsgen.go lacks or only touches): class fields,
// private names/methods/accessors, static blocks, accessors, super property
// access, object rest/spread, destructuring with defaults and computed keys,
// template literals and tagged templates, async functions/arrows/methods,
// async generators, for-await, optional chains and logical/exponent assignment
// in every position.  Behaviour = probe log ($p), including the log written by
// ONE asynchronous chain (main) that the runner awaits.

import (
	"fmt"
	"strings"

	. "github.com/evanw/esbuild/verifharness/hlib"
)

type lgen struct {
	r     *Rng
	id    int
	n     int
	ops   map[string]int
	async []string // statements for the async main function
}

func newLgen(r *Rng) *lgen { return &lgen{r: r, ops: map[string]int{}} }

func (g *lgen) p(inner string) string {
	g.id++
	if inner == "" {
		return fmt.Sprintf("$p(\"c%d\")", g.id)
	}
	return fmt.Sprintf("$p(\"c%d\", %s)", g.id, inner)
}
func (g *lgen) fresh(prefix string) string {
	g.n++
	return fmt.Sprintf("%s%d", prefix, g.n)
}
func (g *lgen) val() string {
	return g.r.Pick([]string{"1", "2", "0", "\"s\"", "null", "undefined", "true", "false", "\"\"", "7", "[1, 2]", "{k: 1}"})
}
func (g *lgen) pval() string { return g.p(g.val()) }
func (g *lgen) key() string  { return g.r.Pick([]string{"a", "b", "c", "x"}) }

func try(body string) string {
	return "try {\n" + body + "\n} catch (e) { $p(\"E\", e && e.constructor && e.constructor.name); }\n"
}

// ---- classes ----

func (g *lgen) class() string {
	r := g.r
	g.ops["class"]++
	var sb strings.Builder
	base := ""
	if r.Chance(50) {
		base = g.fresh("B")
		sb.WriteString("class " + base + " {\n")
		sb.WriteString("  constructor(...a) { " + g.p("\"base-ctor\", a.length, new.target === " + base) + "; this.baseField = 1; }\n")
		sb.WriteString("  bm(z) { return " + g.p("\"bm\", z, this instanceof "+base) + "; }\n")
		sb.WriteString("  get acc() { return " + g.p("\"base-get-acc\"") + "; }\n  set acc(v) { " + g.p("\"base-set-acc\", v") + "; }\n")
		sb.WriteString("  static sbm() { return " + g.p("\"sbm\", typeof this") + "; }\n")
		if r.Bool() {
			sb.WriteString("  set f1(v) { " + g.p("\"base-setter-f1-must-not-run\", v") + "; }\n")
		}
		sb.WriteString("}\n")
	}
	c := g.fresh("C")
	decl := "class " + c
	asExpr := r.Chance(25)
	if asExpr {
		decl = "var " + c + " = class " + r.Pick([]string{"", c + "_inner"})
	}
	if base != "" {
		if r.Chance(30) {
			decl += " extends (" + g.p(base) + ")"
		} else {
			decl += " extends " + base
		}
	}
	sb.WriteString(decl + " {\n")
	hasPriv, hasPrivMethod, hasPrivAcc, hasStaticPriv := false, false, false, false
	nm := r.Range(2, 7)
	for i := 0; i < nm; i++ {
		switch r.Intn(14) {
		case 0:
			sb.WriteString(fmt.Sprintf("  f%d = %s;\n", i, g.p("\"field\", this instanceof "+c)))
			g.ops["field"]++
		case 1:
			sb.WriteString(fmt.Sprintf("  f%d;\n", i))
		case 2:
			sb.WriteString("  [" + g.p("\"key"+fmt.Sprint(i)+"\"") + "] = " + g.pval() + ";\n")
			g.ops["computed-field"]++
		case 3:
			sb.WriteString(fmt.Sprintf("  static s%d = %s;\n", i, g.p("\"static\", this === "+c+", typeof this")))
			g.ops["static-field"]++
		case 4:
			sb.WriteString("  static { " + g.p("\"static-block\", this === "+c) + "; }\n")
			g.ops["static-block"]++
		case 5:
			if !hasPriv {
				sb.WriteString("  #p = " + g.pval() + ";\n")
				sb.WriteString("  getP() { return this.#p; }\n  setP(v) { return this.#p = v; }\n")
				sb.WriteString("  opP(v) { this.#p ??= " + g.p("\"rhs1\"") + "; this.#p ||= v; this.#p &&= " + g.p("v") + "; return this.#p; }\n")
				sb.WriteString("  incP() { return [this.#p++, ++this.#p, this.#p += 2, this.#p **= 2]; }\n")
				sb.WriteString("  static hasP(o) { return #p in o; }\n")
				sb.WriteString("  optP(o) { return [o?.#p, o?.getP?.(), o?.#p?.toString()]; }\n")
				sb.WriteString("  destrP(src) { [this.#p] = src; ({a: this.#p = " + g.p("\"dflt\"") + "} = {}); return this.#p; }\n")
				hasPriv = true
				g.ops["private-field"]++
			}
		case 6:
			if !hasPrivMethod {
				sb.WriteString("  #m(z) { return " + g.p("\"#m\", z, this instanceof "+c) + "; }\n")
				sb.WriteString("  callM(z) { return [this.#m(z), this.#m?.(z), this?.#m(z)]; }\n")
				sb.WriteString("  static callOn(o, z) { return o.#m(z); }\n")
				sb.WriteString("  writeM() { this.#m = 1; }\n")
				hasPrivMethod = true
				g.ops["private-method"]++
			}
		case 7:
			if !hasPrivAcc {
				sb.WriteString("  #store = 5;\n  get #a() { return " + g.p("\"get#a\", this.#store") + "; }\n  set #a(v) { " + g.p("\"set#a\", v") + "; this.#store = v; }\n")
				sb.WriteString("  accA(v) { this.#a = v; this.#a += 1; this.#a ??= 9; return this.#a; }\n")
				hasPrivAcc = true
				g.ops["private-accessor"]++
			}
		case 8:
			if !hasStaticPriv {
				sb.WriteString("  static #sp = " + g.pval() + ";\n  static #sm() { return " + g.p("\"#sm\", this === "+c) + "; }\n")
				sb.WriteString("  static readSP() { return [" + c + ".#sp, " + c + ".#sm(), this.#sp]; }\n")
				hasStaticPriv = true
				g.ops["static-private"]++
			}
		case 9:
			sb.WriteString(fmt.Sprintf("  get g%d() { return %s; }\n  set g%d(v) { %s; }\n", i, g.p("\"getter\""), i, g.p("\"setter\", v")))
			g.ops["accessor"]++
		case 10:
			sb.WriteString(fmt.Sprintf("  static get sg%d() { return %s; }\n", i, g.p("\"static-getter\", this === "+c)))
		case 11:
			if base != "" {
				sb.WriteString(fmt.Sprintf("  sup%d(z) { return [super.bm(z), super.acc, super.acc = z, super[\"bm\"]?.(z), super.nope?.(z)]; }\n", i))
				sb.WriteString(fmt.Sprintf("  supArrow%d(z) { return (() => super.bm(z))(); }\n", i))
				sb.WriteString(fmt.Sprintf("  static ssup%d() { return super.sbm(); }\n", i))
				sb.WriteString(fmt.Sprintf("  fsup%d = super.bm(\"from-field\");\n", i))
				g.ops["super"]++
			}
		case 12:
			sb.WriteString(fmt.Sprintf("  arrow%d = () => %s;\n", i, g.p("\"arrow-field\", this instanceof "+c)))
			sb.WriteString(fmt.Sprintf("  static sarrow%d = () => %s;\n", i, g.p("\"static-arrow\", this === "+c)))
		default:
			sb.WriteString(fmt.Sprintf("  [%s](z) { return %s; }\n", g.p("\"meth"+fmt.Sprint(i)+"\""), g.p("\"method\", z")))
			g.ops["computed-method"]++
		}
	}
	if base != "" {
		if r.Chance(70) {
			sb.WriteString("  constructor(z) { " + g.p("\"before-super\"") + "; super(z, " + g.p("\"super-arg\"") + "); " + g.p("\"ctor\", z, Object.keys(this).join()") + "; }\n")
		}
	} else if r.Chance(60) {
		sb.WriteString("  constructor(z) { " + g.p("\"ctor\", z, Object.keys(this).join()") + "; }\n")
	}
	sb.WriteString("  m(z) { return " + g.p("\"m\", z") + "; }\n")
	sb.WriteString("}\n")
	o := g.fresh("o")
	sb.WriteString(g.p("typeof "+c+", Object.getOwnPropertyNames("+c+").join(), Object.getOwnPropertyNames("+c+".prototype).join()") + ";\n")
	sb.WriteString("var " + o + " = new " + c + "(" + g.pval() + ");\n")
	sb.WriteString(g.p("Object.keys("+o+").join(), JSON.stringify(Object.getOwnPropertyDescriptor("+o+", \"f0\") || null)") + ";\n")
	var uses []string
	if hasPriv {
		uses = append(uses, g.p(o+".getP()"), g.p(o+".setP(null)"), g.p(o+".opP(3)"), g.p(o+".setP(2)"), g.p(o+".incP()"),
			g.p(c+".hasP("+o+"), "+c+".hasP({})"), g.p(o+".optP("+o+")"), g.p(o+".optP(null)"), g.p(o+".destrP([4])"), g.p(o+".getP.call({})"))
	}
	if hasPrivMethod {
		uses = append(uses, g.p(o+".callM(1)"), g.p(c+".callOn("+o+", 2)"), g.p(c+".callOn({}, 3)"), g.p(o+".writeM()"))
	}
	if hasPrivAcc {
		uses = append(uses, g.p(o+".accA(null)"), g.p(o+".accA(4)"))
	}
	if hasStaticPriv {
		uses = append(uses, g.p(c+".readSP()"), g.p(c+".readSP.call({})"))
	}
	for i := 0; i < nm; i++ {
		uses = append(uses,
			fmt.Sprintf("typeof %s.sup%d === \"function\" && %s", o, i, g.p(fmt.Sprintf("%s.sup%d(%d)", o, i, i))),
			fmt.Sprintf("typeof %s.supArrow%d === \"function\" && %s", o, i, g.p(fmt.Sprintf("%s.supArrow%d(%d)", o, i, i))),
			fmt.Sprintf("typeof %s.ssup%d === \"function\" && %s", c, i, g.p(fmt.Sprintf("%s.ssup%d()", c, i))),
			fmt.Sprintf("typeof %s.arrow%d === \"function\" && %s", o, i, g.p(fmt.Sprintf("%s.arrow%d.call(null)", o, i))),
			fmt.Sprintf("typeof %s.sarrow%d === \"function\" && %s", c, i, g.p(fmt.Sprintf("%s.sarrow%d.call(null)", c, i))),
			fmt.Sprintf("%s", g.p(fmt.Sprintf("%s.g%d, %s.g%d = 2, %s.sg%d, %s.s%d, %s.f%d", o, i, o, i, c, i, c, i, o, i))))
	}
	uses = append(uses, g.p(o+".m(1)"), g.p(o+".key1, "+o+".meth2 && "+o+".meth2(3)"))
	for _, u := range uses {
		sb.WriteString(try(u + ";"))
	}
	return sb.String()
}

// ---- object rest / spread / destructuring ----

func (g *lgen) probedObject() string {
	// object literal whose property reads are logged
	var parts []string
	for _, k := range []string{"a", "b", "c", "x"} {
		switch g.r.Intn(4) {
		case 0:
			parts = append(parts, fmt.Sprintf("get %s() { return %s; }", k, g.p("\"get-"+k+"\"")))
		case 1:
			parts = append(parts, k+": "+g.val())
		case 2:
			parts = append(parts, k+": {a: 1, b: {c: 2}, x: [1, 2]}")
		}
	}
	if g.r.Chance(30) {
		parts = append(parts, "[Symbol.for(\"sy\")]: 1")
	}
	if g.r.Chance(20) {
		parts = append(parts, "__proto__: {inherited: 1}")
	}
	return "{" + strings.Join(parts, ", ") + "}"
}

func (g *lgen) restSpread() string {
	r := g.r
	g.ops["rest-spread"]++
	src := g.fresh("src")
	var sb strings.Builder
	sb.WriteString("var " + src + " = " + g.probedObject() + ";\n")
	a, b, rest := g.fresh("d"), g.fresh("d"), g.fresh("rest")
	pick := r.Intn(9)
	switch pick {
	case 0:
		sb.WriteString(fmt.Sprintf("var {a: %s, ...%s} = %s;\n%s;\n", a, rest, g.p(src), g.p(a+", "+rest)))
	case 1:
		sb.WriteString(fmt.Sprintf("var {[%s]: %s = %s, b: %s, ...%s} = %s;\n%s;\n", g.p("\"a\""), a, g.p("\"dflt\""), b, rest, g.p(src), g.p(a+", "+b+", "+rest)))
	case 2:
		sb.WriteString(fmt.Sprintf("var %s, %s, %s;\n%s;\n%s;\n", a, b, rest, g.p(fmt.Sprintf("({a: %s, [%s]: %s = %s, ...%s} = %s)", a, g.p("\"b\""), b, g.p("2"), rest, src)), g.p(a+", "+b+", "+rest)))
	case 3:
		sb.WriteString(fmt.Sprintf("var {c: {a: %s, ...%s} = %s, ...%s} = %s;\n%s;\n", a, b, g.p("{a: 9, z: 8}"), rest, src, g.p(a+", "+b+", "+rest)))
	case 4:
		f := g.fresh("fn")
		// (F10, established) when the object-rest parameter is lowered its destructuring moves into the
		// body, after the default values of LATER parameters: the rest parameter is kept last here
		sb.WriteString(fmt.Sprintf("function %s([%s, ...tail] = %s, {a: %s = %s, ...%s}) { return %s; }\n%s;\n", f, b, g.p("[1, 2, 3]"), a, g.p("\"da\""), rest, g.p("arguments.length, "+a+", "+rest+", "+b+", tail"), g.p(f+"(undefined, "+src+")")))
	case 5:
		sb.WriteString(fmt.Sprintf("for (var {a: %s, ...%s} of [%s, {a: 1, q: 2}]) { %s; }\n", a, rest, src, g.p(a+", "+rest)))
	case 6:
		sb.WriteString(fmt.Sprintf("try { throw %s; } catch ({a: %s, ...%s}) { %s; }\n", src, a, rest, g.p(a+", "+rest)))
	case 7:
		other := g.probedObject()
		sb.WriteString(fmt.Sprintf("var %s = {pre: %s, ...%s, mid: %s, ...%s, [%s]: %s, ...null, ...%s};\n%s;\n", a, g.p("1"), src, g.p("2"), other, g.p("\"ck\""), g.p("3"), g.p("\"str\""), g.p(a+", Object.keys("+a+").join()")))
	default:
		o := g.fresh("holder")
		sb.WriteString(fmt.Sprintf("var %s = {set t(v) { %s; }};\nvar %s;\n%s;\n", o, g.p("\"set-t\", v"), a, g.p(fmt.Sprintf("({a: %s, ...%s.t} = %s)", a, g.p(o), src))))
		sb.WriteString(fmt.Sprintf("[{...%s.t}, %s = %s] = [%s];\n%s;\n", o, a, g.p("\"dd\""), src, g.p(a)))
	}
	return try(sb.String())
}

// ---- templates ----

func (g *lgen) template() string {
	g.ops["template"]++
	tag := g.fresh("tag")
	var sb strings.Builder
	sb.WriteString(fmt.Sprintf("var seen%s = [];\nfunction %s(strs, ...vals) { if (seen%s.indexOf(strs) < 0) seen%s.push(strs); return %s; }\n", tag, tag, tag, tag, g.p("\"tag\", strs, strs.raw, vals, Object.isFrozen(strs), this === undefined || this === globalThis ? \"noThis\" : typeof this")))
	body := g.r.Pick([]string{"a${" + g.pval() + "}b", "\\n${" + g.pval() + "}\\x41\\u{1F600}${" + g.pval() + "}", "${" + g.pval() + "}", "plain", "\\unicode and \\xerror ${" + g.pval() + "}", "line1\nline2\\\ncont${" + g.pval() + "}\r\n"})
	sb.WriteString(fmt.Sprintf("for (var ti = 0; ti < 2; ti++) { %s`%s`; }\n%s;\n", tag, body, g.p("seen"+tag+".length")))
	ob := g.fresh("tobj")
	sb.WriteString(fmt.Sprintf("var %s = {t: %s, n: null};\n%s.t`x${1}`;\n%s;\n", ob, tag, ob, g.p("("+ob+".n?.t)`y`, ("+ob+"?.t)`z${2}`")))
	if !strings.Contains(body, "\\unicode") {
		sb.WriteString(g.p("`"+body+"`") + ";\n")
	}
	sb.WriteString(g.p("`${{toString() { "+g.p("\"toString\"")+"; return \"ts\"; }, valueOf() { "+g.p("\"valueOf\"")+"; return \"vo\"; }}}|${"+g.pval()+"}`") + ";\n")
	return try(sb.String())
}

// ---- async ----

func (g *lgen) asyncSnippet() string {
	r := g.r
	g.ops["async"]++
	var sb strings.Builder
	switch r.Intn(9) {
	case 0: // this / arguments in async function and async arrow
		f := g.fresh("af")
		sb.WriteString(fmt.Sprintf("async function %s(a, b = %s) { %s; var x = await %s; var ar = async () => [this && this.tag, arguments.length, await a]; return [x, await ar()]; }\n", f, g.p("\"default\""), g.p("\"enter\", this && this.tag, arguments.length"), g.pval()))
		sb.WriteString(g.p("await "+f+".call({tag: \"T\"}, 1)") + ";\n" + g.p("await "+f+".call({tag: \"U\"}, Promise.resolve(2), 3, 4)") + ";\n")
	case 1: // try/finally with await, throw
		f := g.fresh("af")
		sb.WriteString(fmt.Sprintf("async function %s(t) { try { %s; if (t) throw new RangeError(\"x\"); return await %s; } catch (e) { %s; await null; if (t > 1) throw e; return \"caught\"; } finally { await %s; %s; } }\n", f, g.p("\"try\""), g.pval(), g.p("\"catch\", e.constructor.name"), g.p("\"fin-await\""), g.p("\"finally\"")))
		sb.WriteString(g.p("await "+f+"(0)") + ";\n" + g.p("await "+f+"(1)") + ";\n" + "try { await " + f + "(2); } catch (e) { " + g.p("\"outer\", e.constructor.name") + "; }\n")
	case 2: // default parameter throwing -> rejection, not a synchronous throw
		f := g.fresh("af")
		sb.WriteString(fmt.Sprintf("async function %s(a = (() => { throw new TypeError(\"dp\"); })()) { return a; }\n", f))
		sb.WriteString("var pr; try { pr = " + f + "(); " + g.p("\"no-sync-throw\", pr instanceof Promise") + "; } catch (e) { " + g.p("\"sync-throw\"") + "; }\ntry { await pr; } catch (e) { " + g.p("\"rejected\", e.constructor.name") + "; }\n")
	case 3: // async generator
		f := g.fresh("ag")
		early := r.Bool()
		fin := g.p("\"gen-finally\"") + "; await null; yield \"from-finally\"; " + g.p("\"after-await-in-finally\"") + ";"
		if r.Chance(30) {
			fin = g.p("\"gen-finally\"") + "; yield \"from-finally\"; " + g.p("\"after-yield-in-finally\"") + ";"
		}
		sb.WriteString(fmt.Sprintf("async function* %s(n) { try { for (var i = 0; i < n; i++) { var got = yield %s; %s; await null; } yield* [10, Promise.resolve(11)]; return \"ret\"; } finally { %s } }\n", f, g.p("\"yield\", i"), g.p("\"got\", got"), fin))
		sb.WriteString("var it = " + f + "(2);\n" + g.p("await it.next(\"first\")") + ";\n" + g.p("await it.next(\"second\")") + ";\n")
		if early {
			sb.WriteString(g.p("await it.return(\"early\")") + ";\n" + g.p("await it.next()") + ";\n" + g.p("await it.next()") + ";\n")
			sb.WriteString("for await (var w of " + f + "(3)) { " + g.p("\"brk\", w") + "; if (w) break; }\n")
		} else {
			sb.WriteString("for await (var v of it) { " + g.p("\"rest\", v") + "; }\n")
		}
		sb.WriteString("var it2 = " + f + "(1);\nawait it2.next();\ntry { " + g.p("await it2.throw(new RangeError(\"thrown-in\"))") + "; " + g.p("await it2.next()") + "; } catch (e) { " + g.p("\"agen-throw\", e.constructor.name") + "; }\n")
	case 4: // for-await over sync and async iterables with probes
		sb.WriteString("var src = {i: 0, [Symbol.asyncIterator]() { " + g.p("\"asyncIterator\"") + "; return this; }, next(v) { " + g.p("\"next\", arguments.length") + "; return Promise.resolve({done: this.i >= 3, value: this.i++}); }, return(v) { " + g.p("\"return\", arguments.length") + "; return {done: true}; }};\n")
		lbl := r.Pick([]string{"break", "continue", "return \"r\"", "throw new RangeError(\"body\")", ";"})
		f := g.fresh("fa")
		sb.WriteString(fmt.Sprintf("async function %s() { for await (var x of src) { %s; if (x === 1) { %s; } } return \"end\"; }\n", f, g.p("\"body\", x"), lbl))
		sb.WriteString("try { " + g.p("await "+f+"()") + "; } catch (e) { " + g.p("\"fa-threw\", e.constructor.name") + "; }\n")
		sb.WriteString("for await (var y of [Promise.resolve(1), 2, {then(res) { " + g.p("\"thenable\"") + "; res(3); }}]) { " + g.p("\"sync-src\", y") + "; }\n")
		sb.WriteString("for await (var {a, ...rst} of [{a: 1, b: 2}]) { " + g.p("a, rst") + "; }\n")
	case 5: // async methods, super in async, async arrow in class field
		b, c := g.fresh("AB"), g.fresh("AC")
		sb.WriteString(fmt.Sprintf("class %s { async bm(z) { await null; return %s; } static async sbm() { return \"sbm\"; } get v() { return \"base-v\"; } }\n", b, g.p("\"bm\", z, this.tag")))
		sb.WriteString(fmt.Sprintf("class %s extends %s { tag = \"tg\"; #q = 1; async m(z) { var r1 = await super.bm(z); var r2 = await (async () => [super.v, await super.bm(this.#q++), this.#q])(); return [r1, r2, arguments.length]; } static async sm() { return [await super.sbm(), this === %s]; } fld = async () => [this.tag, await this.m(5)]; async *ag() { yield super.v; yield* [this.#q]; } am() { return (async () => [this.tag, super.v])(); } *sg() { yield* [1, this.#q]; var r = yield* (function*() { var x = yield 2; return x * 2; })(); yield r; } constructor(a) { super(a); this.viaCtor = this.tag; } }\n", c, b, c))
		sb.WriteString("var ao = new " + c + "();\n" + g.p("await ao.m(1, 2)") + ";\n" + g.p("await "+c+".sm()") + ";\n" + g.p("await ao.fld.call(null)") + ";\nfor await (var q of ao.ag()) " + g.p("q") + ";\n")
		// neighbour of the finding F18 (async arrow with super but no this), which is replayed; the shapes of
		// the repaired F19 (yield* of an object that also has Symbol.asyncIterator in a sync generator) and
		// F21 (return super() with fields) are generated
		rc := g.fresh("RS")
		sb.WriteString(fmt.Sprintf("class %s extends %s { fx = %s; #pf = 2; constructor(c) { if (c) return super(c); return super(), undefined; } pf() { return this.#pf; } }\n", rc, b, g.p("\"init-fx\"")))
		sb.WriteString(g.p("new "+rc+"(1).fx, new "+rc+"(0).fx, new "+rc+"(1).pf()") + ";\n")
		sb.WriteString("var both = {[Symbol.iterator]() { " + g.p("\"sync-iter\"") + "; return [3][Symbol.iterator](); }, [Symbol.asyncIterator]() { " + g.p("\"async-iter\"") + "; return (async function*() { yield 4; })(); }};\n")
		sb.WriteString("function* sgb() { yield* both; }\n" + g.p("Array.from(sgb())") + ";\nasync function* agb() { yield* both; }\nfor await (var bq of agb()) " + g.p("bq") + ";\n")
		sb.WriteString(g.p("await ao.am(), ao.viaCtor") + ";\nvar sgi = ao.sg();\n" + g.p("sgi.next(), sgi.next(), sgi.next(), sgi.next(21), sgi.next()") + ";\n")
	case 6: // await in expression positions with lowered operators
		sb.WriteString("var ob = {k: null, n: 2, get g() { " + g.p("\"get-g\"") + "; return null; }, set g(v) { " + g.p("\"set-g\", v") + "; }, f(z) { return this === ob ? z : \"bad-this\"; }};\n")
		sb.WriteString(g.p("ob.k ??= await "+g.pval()) + ";\n" + g.p("ob[await "+g.p("\"n\"")+"] **= await "+g.p("3")) + ";\n" + g.p("(await ob)?.f?.(await "+g.pval()+")") + ";\n" + g.p("ob.g ||= await "+g.p("4")) + ";\n" + g.p("await (async (a = 1, {n, ...r} = ob) => [a, n, Object.keys(r).join()])()") + ";\n")
	case 7: // object with async methods, rejected promise ordering
		sb.WriteString("var ord = [];\nvar obj2 = {async a() { ord.push(1); await null; ord.push(3); return \"a\"; }, async *b() { ord.push(\"b\"); yield 1; }, c: async function() { return this === obj2; }, d: async x => x + 1};\n")
		sb.WriteString("var pa = obj2.a(); ord.push(2);\n" + g.p("await pa, await obj2.c(), await obj2.d(1), ord") + ";\n" + g.p("(await obj2.b().next()).value, ord") + ";\n")
	default: // arguments/this in nested async arrows inside normal function; new.target
		f := g.fresh("nf")
		sb.WriteString(fmt.Sprintf("function %s() { var nt = new.target; return (async () => { await null; return (async () => [this && this.tag, arguments[0], arguments.length, nt === undefined])(); })(); }\n", f))
		sb.WriteString(g.p("await "+f+".call({tag: \"outer\"}, \"A\", \"B\")") + ";\n")
	}
	return "try {\n" + sb.String() + "} catch (e) { $p(\"E-async\", e && e.constructor && e.constructor.name); }\n"
}

// ---- optional chains / assignments on probed receivers, straight JS ----

func (g *lgen) chainSnippet() string {
	r := g.r
	g.ops["chain"]++
	var sb strings.Builder
	o := g.fresh("h")
	sb.WriteString(fmt.Sprintf("var %s = {n: null, u: undefined, z: 0, e: \"\", deep: {f(a) { return %s; }, v: 1, nul: null}, get g() { return %s; }, set g(v) { %s; }, f(a) { return %s; }, arr: [1, 2], k: \"z\"};\n",
		o, g.p("\"deep.f\", this === "+o+".deep, a"), g.p("\"get-g\""), g.p("\"set-g\", v"), g.p("\"f\", this === "+o+", a")))
	ob := func() string {
		if r.Bool() {
			return g.p(o)
		}
		return o
	}
	exprs := []string{
		ob() + "?.deep?.f?.(" + g.pval() + ")",
		ob() + ".n?.f(" + g.pval() + ")",
		ob() + ".n?.[" + g.p("\"k\"") + "]",
		ob() + "?.[" + g.p("\"f\"") + "](" + g.pval() + ")",
		ob() + ".deep.f?.(" + g.pval() + ")",
		"(" + ob() + "?.deep.f)(" + g.pval() + ")",
		"(" + ob() + "?.deep).f(" + g.pval() + ")",
		"(" + ob() + ".deep?.f)?.(" + g.pval() + ")",
		ob() + ".u?.(" + g.pval() + ")",
		ob() + ".f?.call?.(" + ob() + ", 1)",
		"delete " + ob() + "?.deep?.v",
		"delete " + ob() + ".n?.x",
		"delete " + ob() + ".n?.[" + g.p("\"x\"") + "]",
		"`${" + ob() + "?.deep?.v}|${" + o + ".n?.v}`",
		ob() + ".n ?? " + g.pval(),
		ob() + ".z ?? " + g.pval(),
		ob() + ".g ?? " + g.pval(),
		ob() + "[" + g.p("\"n\"") + "] ??= " + g.pval(),
		ob() + "[" + g.p("\"z\"") + "] ||= " + g.pval(),
		ob() + "[" + g.p("\"e\"") + "] &&= " + g.pval(),
		ob() + ".g ??= " + g.pval(),
		ob() + ".g ||= " + g.pval(),
		ob() + ".g &&= " + g.pval(),
		ob() + ".deep.v **= " + g.p("2"),
		ob() + "[" + g.p("\"z\"") + "] **= " + g.p("3"),
		ob() + ".arr[" + g.p("1") + "] **= 2",
		g.p("2") + " ** " + g.p("3") + " ** " + g.p("2"),
		"(-" + g.p("2") + ") ** 2",
		ob() + "?.deep.nul?.x.y.z(" + g.pval() + ")",
		ob() + "?.deep?.[" + g.p("\"f\"") + "]?.(" + g.pval() + ")?.toString?.()",
		"(" + ob() + ".n ?? " + ob() + ".deep)?.f(" + g.pval() + ")",
		"(" + ob() + ".n ?? " + ob() + ".u) ?? " + g.pval(),
		"typeof " + ob() + "?.f",
		ob() + "?.f.name",
		"((x = " + ob() + "?.z, y = x ?? " + g.pval() + ") => [x, y])()",
		"(function() { return [this?.tag, arguments?.[0], this.q ??= arguments.length]; }).call({tag: 1}, 5)",
		"new (" + ob() + "?.deep.constructor)()",
		"(undeclaredVar1?.x)",
		"typeof undeclaredVar2?.x",
		"super_ = " + ob() + ".f?.bind?.(null)?.(3)",
	}
	n := r.Range(3, 8)
	for i := 0; i < n; i++ {
		sb.WriteString(try(g.p(r.Pick(exprs)) + ";"))
	}
	sb.WriteString(g.p("JSON.stringify("+o+")") + ";\n")
	return sb.String()
}

// Program assembles a synchronous part and one asynchronous main.
func (g *lgen) Program(kinds int) string {
	r := g.r
	var sb strings.Builder
	var asyncParts []string
	for i := 0; i < kinds; i++ {
		switch r.Intn(10) {
		case 0, 1, 2:
			sb.WriteString(g.class())
		case 3, 4:
			sb.WriteString(g.restSpread())
		case 5:
			sb.WriteString(g.template())
		case 6, 7:
			asyncParts = append(asyncParts, g.asyncSnippet())
		default:
			sb.WriteString(g.chainSnippet())
		}
	}
	if len(asyncParts) > 0 {
		sb.WriteString("(async function main() {\n" + strings.Join(asyncParts, "") + "})().then(function() { $p(\"main-done\"); }, function(e) { $p(\"main-rejected\", e && e.constructor && e.constructor.name); });\n")
	}
	return sb.String()
}
