package main

import (
	"fmt"
	"os"
	"path/filepath"
	"regexp"
	"strings"

	"github.com/evanw/esbuild/pkg/api"
	. "github.com/evanw/esbuild/verifharness/hlib"
)

func main() { Main("c01", run) }

func run(seed uint64, n int, tier string, outDir string) []*Stats {
	r := NewRng(seed)
	if os.Getenv("C01_ONLY") == "logical" { // debugging aid
		sx := NewStats("c01-logical", seed)
		glueLogical(r, sx, n)
		sx.Finish("debug")
		return []*Stats{sx}
	}
	if os.Getenv("C01_ONLY") == "asi" { // debugging aid
		sx := NewStats("c01-asi", seed)
		glueASI(r, sx, n)
		sx.Finish("debug")
		return []*Stats{sx}
	}
	if os.Getenv("C01_ONLY") == "annexb" { // debugging aid: only the Annex B stream
		sta := NewStats("c01-annexb", seed)
		glueAnnexB(r, sta, n)
		sta.Finish("debug")
		return []*Stats{sta}
	}
	cf := NewCoqFile("From V Require Import Common.Base C01.Utf C01.Quote C01.SpecLiteral C01.Num C01.SpecNumeric C01.Keys C01.Template C01.Directive C01.Harness.")
	extra := ""

	// 1. literal printers against the Coq model (hook level) + predicate
	sts := NewStats("c01-strings", seed)
	extra += corrStrings(r, sts, cf, 2*n)
	sts.Finish("string/template/identifier printing: boundary grid of every special case of printUnquotedUTF16 plus seeded UTF-16 sequences over all classes (controls, quotes, ${, </script in any case, U+2028/2029/FEFF, Latin-1, BMP, paired and lone surrogates) x random printer configuration (charset, unicode-escapes, inline-script guard, line limit, minify-syntax, template support, prefix column); exact bytes compared with the Coq model and the printed literal decoded by the specification; distinct_nontrivial = distinct (units, configuration) whose output is not the identity")

	stk := NewStats("c01-keys", seed)
	extra += corrKeys(r, stk, cf, n)
	stk.Finish("property keys and member names: grid of identifier-boundary names (ASCII, ES5/ESNext table edges, ZWJ/ZWNJ, non-BMP identifier characters, reserved words, __proto__, non-identifiers) plus seeded UTF-16 sequences x printer configuration; canPrintIdentifierUTF16, the string-key branch of printProperty and the name branch of EDot compared byte-exactly with the Coq model (tables regenerated from unicode.go by translator t9idtables); the printed key decoded by the specification must denote the same key; distinct_nontrivial = distinct (name, configuration)")

	stt := NewStats("c01-templates", seed)
	extra += corrTemplates(r, stt, cf, n/2)
	stt.Finish("templates with substitutions (random cooked head / tails over all UTF-16 classes, chunks ending in $, \\0, CR, starting with {; 0..3 substitutions) x printer configuration x prefix column, BigInt literal texts and regular expression literal texts after prefixes ending in / < = identifier: exact bytes compared with the Coq model (C01/Template.v); the model's code points split by the template specification into exactly the cooked chunks; the real bytes cut at the substitutions and each chunk decoded by the harness oracle; distinct_nontrivial = distinct cases with a substitution / with a guard space")

	std := NewStats("c01-directives", seed)
	corrDirective(r, std, cf, n/2)
	std.Finish("directive prologue: function bodies of 1-3 statements drawn from string-literal statements (use strict in both quotes, with \\x20 / \\u0020 / \\x73 escapes, with a line continuation, other strings; parenthesised or not), a folded side-effect-free statement and another statement; node decides whether the input body and the body printed by plain api.Transform are strict; the end-to-end Coq model (C01/Directive.v) must predict both; distinct_nontrivial = distinct bodies whose strictness changes (the recorded known findings A, A2, B, C)")

	stn := NewStats("c01-numbers", seed)
	extra += corrNumbers(r, stn, cf, n+n/2)
	stn.Finish("number printing: boundary grid (every rewriting branch of printNonNegativeFloat, powers of two and ten +-1ulp, 2^53, 1e21, hex range ends) plus seeded float64 values over bit-pattern classes (raw bits, subnormals, integers, 1e12..2^64, few-digit decimals, fractions, round numbers, 17-digit stress) x minify-whitespace; exact bytes and flag compared with the Coq model; printed text evaluated by the MV specification and by an exact rational oracle rounding to nearest-even; printNumber sign/NaN/Infinity forms x level x with-nesting x minify-syntax; distinct_nontrivial = distinct (bits, flags) whose output differs from FormatFloat's text")

	stg := NewStats("c01-literal-glue", seed)
	extra += glueLiterals(r, stg, cf, n)
	glueJSX(r, stg, n/3)
	stg.Finish("`x = <literal>;` programs (string/template literals spelled with a random mix of raw characters and every escape form over the UTF-16 classes; numbers spelled in decimal, exponent, hex, binary and octal) through api.Transform under charset x minify-whitespace x line-limit x unicode-escapes/template-literal support x platform: the emitted literal is cut out and evaluated by the Coq specification and an exact harness oracle against the input's value, ASCII-only and </script checks on the whole output; generated JSX programs (preserve-then-transform = transform = automatic on a normalising runtime) executed in node; distinct_nontrivial = distinct (program, options)")

	sth := NewStats("c01-hazards", seed)
	glueNodeLiterals(r, sth, n)
	sth.Finish("fixed must-pass corpus, identical for every seed: token-gluing (numbers before dots, + +, - --, a-- > b, division before a regular expression), precedence, ASI, optional chains, new/call, arrow bodies, for-init `in`, directives, identifiers and property keys with non-ASCII and escapes, regexp, bigint, template and tagged-template raw strings, Annex B block functions, each x {pretty, minify-whitespace} x {platform browser, node}, plus one seeded option set (charset, line-limit, format) per program; input and output executed in node and probe logs compared, every difference re-run once; programs that replay a recorded known finding run last and once; distinct_nontrivial = distinct (program, options)")

	sta := NewStats("c01-annexb", seed)
	glueAnnexB(r, sta, n/2)
	sta.Finish("generated sloppy-mode block-level function programs (hlib/jsgen_c01.go, ECMA-262 Annex B.3.3: abrupt exit / outer-closure read / write before the declaration position; plain, if, loop, switch, try and labelled blocks; sibling redeclaration; parameter-name and outer-let clashes; use before the block runs) through api.Transform, executed in node; a difference is accepted only as one of the three recorded deviations, each recognised exactly: output = natively executed declaration-first variant (assignment at block entry), output = natively executed variant with the clashing parameter turned into a var (hoisted over a parameter name), ReferenceError from a let placed in a case clause that is not entered; distinct_nontrivial = distinct programs with something observable before the declaration or a name clash")

	stasi := NewStats("c01-asi", seed)
	glueASI(r, stasi, n/2)
	stasi.Finish("newline-sensitive programs (hlib/jsgen_c01.go GenASI: a line ending in postfix ++/--, an expression, an operator or an assignment followed by a line starting with [ ( ` + - ++ -- / . in instanceof ?. =>; the restricted productions return / break / continue with and without label / yield / async followed by a line break): node decides what the input means (invalid combinations discarded), the output of api.Transform (pretty and minify-whitespace) must behave the same; distinct_nontrivial = distinct valid programs")

	stl := NewStats("c01-logical", seed)
	glueLogical(r, stl, n/2)
	stl.Finish("compositions of && || ?? , ?: ! ??= ||= &&= and optional chains in every nesting (hlib/jsgen_c01.go GenLogical) over run-time operands drawn from null, undefined, 0, \"\", false, NaN, 1, \"x\", objects (the program loops over them), operands of syntactically known type (literals, + - ~ ! typeof void, arithmetic, comparison, in, instanceof, templates: what the parser's nullish/boolean analyses classify) and probe calls that show whether an operand was evaluated; used as value, as if-test and as conditional test; through api.Transform under charset x whitespace x line-limit x platform, input and output executed in node; distinct_nontrivial = distinct programs with more than 40 probe events")

	// 2. behaviour through the public API (node oracle)
	st := NewStats("c01", seed)
	glueBehaviour(r, st, n)
	st.Finish("seeded jsgen programs (hlib/jsgen.go: expressions with independent minimal parenthesisation over all binary/unary/assignment operators, statements, classes, destructuring, coercion objects) transformed by api.Transform without minify/lowering under random charset/whitespace/line-limit/format settings, original and output executed in node and probe logs compared; distinct_nontrivial = distinct program texts accepted by node")
	if err := os.WriteFile(filepath.Join(outDir, "c01_cases.v"), []byte(cf.String()+extra), 0o644); err != nil {
		panic(err)
	}
	return []*Stats{sts, stk, stt, std, stn, stg, sth, sta, stasi, stl, st}
}

type tcase struct {
	src  string
	opts api.TransformOptions
	desc string
	out  string
}

func glueBehaviour(r *Rng, st *Stats, n int) {
	var cases []tcase
	for i := 0; i < n; i++ {
		g := NewJSGen(r, AllJSFeatures())
		var src string
		if r.Chance(40) {
			src = ""
			for k := r.Range(1, 4); k > 0; k-- {
				src += g.ExprProgram(r.Range(2, 4))
			}
		} else {
			src = g.Program(r.Range(2, 6))
		}
		o := api.TransformOptions{Loader: api.LoaderJS, LogLevel: api.LogLevelSilent}
		desc := []string{}
		if r.Chance(40) {
			o.MinifyWhitespace = true
			desc = append(desc, "minify-whitespace")
		}
		if r.Chance(40) {
			o.Charset = api.CharsetUTF8
			desc = append(desc, "utf8")
		}
		if r.Chance(20) {
			o.LineLimit = r.Range(20, 80)
			desc = append(desc, fmt.Sprint("line-limit=", o.LineLimit))
		}
		if r.Chance(45) {
			// output formats: iife wraps the program in a function and (for
			// Transform) turns tree shaking on, cjs/esm change the top-level scope
			o.Format = []api.Format{api.FormatIIFE, api.FormatCommonJS, api.FormatESModule, api.FormatIIFE}[r.Intn(4)]
			desc = append(desc, fmt.Sprint("format=", o.Format))
		}
		cases = append(cases, tcase{src: src, opts: o, desc: strings.Join(desc, ",")})
	}
	var progs []string
	for i := range cases {
		res := api.Transform(cases[i].src, cases[i].opts)
		if len(res.Errors) > 0 {
			cases[i].out = "\x00ERR:" + res.Errors[0].Text
		} else {
			cases[i].out = string(res.Code)
		}
		progs = append(progs, cases[i].src, cases[i].out)
	}
	results, err := RunNodeScripts(progs, 2000)
	if err != nil {
		st.Fail("node-oracle-unavailable", err.Error(), nil, nil)
		return
	}
	for i, c := range cases {
		a, b := results[2*i], results[2*i+1]
		if a.Err() == "SyntaxError" && len(a.Log) == 0 {
			st.Histogram["generator-invalid-program"]++
			if strings.HasPrefix(c.out, "\x00ERR:") {
				continue
			}
			continue
		}
		if oracleNoise(a) || oracleNoise(b) {
			st.Histogram["oracle-noise"]++
			continue
		}
		st.Note("behaviour", c.src, len(a.Log) > 1)
		if strings.HasPrefix(c.out, "\x00ERR:") {
			st.Fail("valid-program-rejected", map[string]string{"program": c.src, "options": c.desc}, c.out[1:], "accepted")
			continue
		}
		if !a.Same(b) && stillDiffers(c.src, c.out) {
			input := map[string]string{"program": c.src, "options": c.desc, "output": c.out}
			if hoistsBlockFunction(c.out) && strictVariantAgrees(c) {
				// attributable to Annex B.3.3 block-level function semantics (known finding C01-F)
				input["scenario"] = "annexb-block-function-var-assigned-at-block-entry"
			}
			st.Fail("behaviour-differs", input, b.String(), a.String())
		}
		if i < 3 {
			st.Sample(map[string]interface{}{"program": c.src, "options": c.desc, "log_len": len(a.Log)})
		}
	}
}

var hoistRe = regexp.MustCompile(`var ([A-Za-z_$][A-Za-z0-9_$]*) ?= ?([A-Za-z_$][A-Za-z0-9_$]*)[;}\n]`)

// esbuild rewrites a sloppy-mode block-level `function f(){}` into
// `let f2 = function(){}; var f = f2;` at the start of the block
func hoistsBlockFunction(out string) bool {
	for _, m := range hoistRe.FindAllStringSubmatch(out, -1) {
		if strings.HasPrefix(m[2], m[1]) && len(m[2]) > len(m[1]) && strings.Trim(m[2][len(m[1]):], "0123456789") == "" {
			return true
		}
	}
	return false
}

// the same program in strict mode (block functions are then block scoped):
// if input and output agree there, the difference is the Annex B one
func strictVariantAgrees(c tcase) bool {
	src := "'use strict';\n" + c.src
	res := api.Transform(src, c.opts)
	if len(res.Errors) > 0 {
		return false
	}
	rs, err := RunNodeScripts([]string{src, string(res.Code)}, 2000)
	if err != nil || len(rs) != 2 {
		return false
	}
	if rs[0].Err() == "SyntaxError" && len(rs[0].Log) == 0 {
		return false
	}
	return rs[0].Same(rs[1])
}

// a result that says nothing about the program (node under load)
func oracleNoise(r NodeResult) bool {
	return r.Err() == "TIMEOUT" || strings.HasPrefix(r.Err(), "HARNESS:")
}

// every glue failure is re-run in a fresh node process before it is reported
func stillDiffers(a, b string) bool {
	rs, err := RunNodeScripts([]string{a, b}, 4000)
	if err != nil || len(rs) != 2 || oracleNoise(rs[0]) || oracleNoise(rs[1]) {
		return false
	}
	return !rs[0].Same(rs[1])
}
