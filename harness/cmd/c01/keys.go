package main

// Property keys and member names: correspondence cases for C01/Keys.v through
// the add-only hook internal/js_printer/export_verif_c01keys.go, with the
// predicate "the printed key denotes the same property key" on the real output.

import (
	"bytes"
	"fmt"
	"unicode/utf16"

	"github.com/evanw/esbuild/internal/js_printer"
	. "github.com/evanw/esbuild/verifharness/hlib"
)

var keyGrid = []string{"a", "abc", "_", "$", "$1", "a1", "1a", "1", "01", "", " ", "a b", "a-b", "if", "class", "__proto__", "constructor", "prototype",
	"é", "café", "π", "ж", "中", "ǅ", "a‌", "a‍", "‍", "ªº", "℘", "℮", "a·", "·", "a·", "፩", "a፩", "゛", "ゝ",
	"𠮷", "a𠮷", "𝒜", "x𝒜y", "😀", "a😀", "\U0001e943", "\U00010000", "\U0002a6d6", "\U0010ffff", "a.b", "a\\b", "\\u0061", "a\"b", "a'b", "a`b", "a\nb", "</script>", "ⅷ", "℘", "ͅ", "aͅ"}

func randKeyUnits(r *Rng) []uint16 {
	switch r.Intn(6) {
	case 0:
		return utf16.Encode([]rune(keyGrid[r.Intn(len(keyGrid))]))
	case 1:
		u, _ := randUnits(r)
		return u
	case 2: // identifier-like with one odd unit
		u := randIdentUnits(r)
		if r.Chance(40) {
			odd := []uint16{0xD800, 0xDC00, '-', ' ', '\\', '0', 0x200D, 0xB7, 0x2E, 0xFEFF, 0x2028}
			i := r.Intn(len(u) + 1)
			u = append(u[:i:i], append([]uint16{odd[r.Intn(len(odd))]}, u[i:]...)...)
		}
		return u
	default:
		return randIdentUnits(r)
	}
}

func corrKeys(r *Rng, st *Stats, cf *CoqFile, n int) string {
	var cp, sk, dt []string
	for k := 0; k < n; k++ {
		var units []uint16
		if k < len(keyGrid) {
			units = utf16.Encode([]rune(keyGrid[k]))
		} else {
			units = randKeyUnits(r)
		}
		c := randCfg(r)
		c.lineLimit = 0
		c.minifySyntax = false
		can := js_printer.VerifCanPrintIdentifierUTF16(c.options(), units)
		st.Note("can-print-identifier", fmt.Sprint(units, c), can)
		cp = append(cp, fmt.Sprintf("(%s, %s, %s)", c.coq(), CU16(units), CBool(can)))
		// string key of a property
		pq := r.Chance(30)
		mw := r.Bool()
		o := c.options()
		o.MinifyWhitespace = mw
		full := js_printer.VerifPrintStringKeyProperty(o, units, pq)
		suffix := []byte(": 0")
		if mw {
			suffix = []byte(":0")
		}
		if !bytes.HasSuffix(full, suffix) {
			st.Fail("property-output-shape-unexpected", map[string]interface{}{"key_units": unitsDesc(units), "printed": string(full)}, string(full), "<key>: 0")
			continue
		}
		key := full[:len(full)-len(suffix)]
		st.Note("string-key", fmt.Sprint(units, c, pq), len(key) != len(units)+2)
		sk = append(sk, fmt.Sprintf("(%s, %s, %s, %s)", c.coq(), CBool(pq), CU16(units), CBytes(key)))
		var v []uint16
		var ok bool
		if len(key) > 0 && (key[0] == '"' || key[0] == '\'' || key[0] == '`') {
			v, ok = jsLiteralValue(key)
		} else {
			v, ok = jsIdentValue(key)
		}
		if !ok || !sameUnits(v, units) {
			st.Fail("printed-property-key-denotes-another-key", map[string]interface{}{"key_units": unitsDesc(units), "config": c.String(), "prefer_quoted": pq, "printed": string(key)}, unitsDesc(v), unitsDesc(units))
		}
		if c.ascii {
			for _, b := range key {
				if b >= 0x80 {
					st.Fail("ascii-charset-output-has-non-ascii-byte", map[string]interface{}{"key_units": unitsDesc(units), "config": c.String(), "printed": string(key)}, fmt.Sprintf("byte %#x", b), "< 0x80")
					break
				}
			}
		}
		// member name (only well-formed names: Go strings)
		runes := utf16.Decode(units)
		wf := true
		for _, x := range runes {
			if x == 0xFFFD {
				wf = false
			}
		}
		if wf && k%2 == 0 {
			func() {
				defer func() { recover() }()
				out := js_printer.VerifPrintDotName(c.options(), string(runes))
				if !bytes.HasPrefix(out, []byte("this")) {
					return
				}
				rs := make([]int64, len(runes))
				for i, x := range runes {
					rs[i] = int64(x)
				}
				st.Note("dot-name", fmt.Sprint(runes, c), out[4] == '[')
				dt = append(dt, fmt.Sprintf("(%s, %s, %s)", c.coq(), CZList(rs), CBytes(out[4:])))
			}()
		}
	}
	cf.AddCases("canprint", "qcfg * list Z * bool", "check_canprint", cp)
	cf.AddCases("strkey", "qcfg * bool * list Z * bytes", "check_strkey", sk)
	cf.AddCases("dotname", "qcfg * list Z * bytes", "check_dot", dt)
	return "Definition R_strkey_spec := Eval vm_compute in (check_strkey_spec strkey).\nPrint R_strkey_spec.\nDefinition R_dotname_spec := Eval vm_compute in (check_dot_spec dotname).\nPrint R_dotname_spec.\n"
}
