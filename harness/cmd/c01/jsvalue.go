package main

// Independent (of esbuild) evaluators of JavaScript literal values, used as
// the harness-side oracle for the property's predicate "the output literal
// denotes the same value".  They are themselves validated on every run:
// against the Coq specification (C01/SpecLiteral.v, C01/SpecNumeric.v) through
// the cases files and against Node (spec validation stream).

import (
	"math"
	"math/big"
	"unicode/utf8"
)

func hexVal(c rune) int {
	switch {
	case c >= '0' && c <= '9':
		return int(c - '0')
	case c >= 'a' && c <= 'f':
		return int(c-'a') + 10
	case c >= 'A' && c <= 'F':
		return int(c-'A') + 10
	}
	return -1
}

func appendCP(out []uint16, cp rune) []uint16 {
	if cp <= 0xFFFF {
		return append(out, uint16(cp))
	}
	cp -= 0x10000
	return append(out, uint16(0xD800+(cp>>10)), uint16(0xDC00+(cp&0x3FF)))
}

// strictRunes decodes strict UTF-8 (no surrogates, no overlongs).
func strictRunes(src []byte) ([]rune, bool) {
	var rs []rune
	for len(src) > 0 {
		r, w := utf8.DecodeRune(src)
		if r == utf8.RuneError && w <= 1 {
			return nil, false
		}
		rs = append(rs, r)
		src = src[w:]
	}
	return rs, true
}

// jsLiteralValue: String Value of a complete '..' / ".." literal or cooked
// Template Value of a complete `..` no-substitution template (strict-mode
// rules: legacy octal escapes rejected).
func jsLiteralValue(src []byte) ([]uint16, bool) {
	rs, ok := strictRunes(src)
	if !ok || len(rs) < 2 {
		return nil, false
	}
	q := rs[0]
	if q != '\'' && q != '"' && q != '`' {
		return nil, false
	}
	tmpl := q == '`'
	out := []uint16{}
	i := 1
	n := len(rs)
	for {
		if i >= n {
			return nil, false // unterminated
		}
		c := rs[i]
		i++
		if c == q {
			if i != n {
				return nil, false
			}
			return out, true
		}
		if c != '\\' {
			if tmpl {
				if c == '\r' {
					if i < n && rs[i] == '\n' {
						i++
					}
					out = append(out, '\n')
					continue
				}
				if c == '$' && i < n && rs[i] == '{' {
					return nil, false
				}
			} else if c == '\n' || c == '\r' {
				return nil, false
			}
			out = appendCP(out, c)
			continue
		}
		if i >= n {
			return nil, false
		}
		e := rs[i]
		i++
		switch e {
		case 'b':
			out = append(out, 8)
		case 'f':
			out = append(out, 12)
		case 'n':
			out = append(out, 10)
		case 'r':
			out = append(out, 13)
		case 't':
			out = append(out, 9)
		case 'v':
			out = append(out, 11)
		case '0':
			if i < n && rs[i] >= '0' && rs[i] <= '9' {
				return nil, false
			}
			out = append(out, 0)
		case '1', '2', '3', '4', '5', '6', '7', '8', '9':
			return nil, false
		case 'x':
			if i+2 > n || hexVal(rs[i]) < 0 || hexVal(rs[i+1]) < 0 {
				return nil, false
			}
			out = append(out, uint16(hexVal(rs[i])*16+hexVal(rs[i+1])))
			i += 2
		case 'u':
			if i < n && rs[i] == '{' {
				i++
				v := 0
				digits := 0
				for i < n && hexVal(rs[i]) >= 0 {
					v = v*16 + hexVal(rs[i])
					if v > 0x10FFFF {
						return nil, false
					}
					digits++
					i++
				}
				if digits == 0 || i >= n || rs[i] != '}' {
					return nil, false
				}
				i++
				out = appendCP(out, rune(v))
			} else {
				if i+4 > n {
					return nil, false
				}
				v := 0
				for k := 0; k < 4; k++ {
					h := hexVal(rs[i+k])
					if h < 0 {
						return nil, false
					}
					v = v*16 + h
				}
				i += 4
				out = append(out, uint16(v))
			}
		case '\r':
			if i < n && rs[i] == '\n' {
				i++
			}
		case '\n', 0x2028, 0x2029:
		default:
			out = appendCP(out, e)
		}
	}
}

// jsIdentValue: code units denoted by an IdentifierName source text.
func jsIdentValue(src []byte) ([]uint16, bool) {
	rs, ok := strictRunes(src)
	if !ok {
		return nil, false
	}
	out := []uint16{}
	for i := 0; i < len(rs); {
		c := rs[i]
		i++
		if c != '\\' {
			out = appendCP(out, c)
			continue
		}
		if i >= len(rs) || rs[i] != 'u' {
			return nil, false
		}
		i++
		if i < len(rs) && rs[i] == '{' {
			i++
			v, d := 0, 0
			for i < len(rs) && hexVal(rs[i]) >= 0 {
				v = v*16 + hexVal(rs[i])
				if v > 0x10FFFF {
					return nil, false
				}
				d++
				i++
			}
			if d == 0 || i >= len(rs) || rs[i] != '}' {
				return nil, false
			}
			i++
			out = appendCP(out, rune(v))
		} else {
			if i+4 > len(rs) {
				return nil, false
			}
			v := 0
			for k := 0; k < 4; k++ {
				h := hexVal(rs[i+k])
				if h < 0 {
					return nil, false
				}
				v = v*16 + h
			}
			i += 4
			out = appendCP(out, rune(v))
		}
	}
	return out, true
}

// jsNumericValue: exact mathematical value of a DecimalLiteral (no
// separators, no legacy octal) or 0x HexIntegerLiteral.
func jsNumericValue(src []byte) (*big.Rat, bool) {
	s := string(src)
	if len(s) > 2 && s[0] == '0' && (s[1] == 'x' || s[1] == 'X') {
		v := new(big.Int)
		for _, c := range s[2:] {
			h := hexVal(c)
			if h < 0 {
				return nil, false
			}
			v.Mul(v, big.NewInt(16))
			v.Add(v, big.NewInt(int64(h)))
		}
		return new(big.Rat).SetInt(v), true
	}
	i := 0
	m := new(big.Int)
	nint := 0
	for i < len(s) && s[i] >= '0' && s[i] <= '9' {
		m.Mul(m, big.NewInt(10))
		m.Add(m, big.NewInt(int64(s[i]-'0')))
		i++
		nint++
	}
	if nint > 1 && s[0] == '0' {
		return nil, false // legacy octal-like
	}
	e10 := 0
	nfrac := 0
	if i < len(s) && s[i] == '.' {
		i++
		for i < len(s) && s[i] >= '0' && s[i] <= '9' {
			m.Mul(m, big.NewInt(10))
			m.Add(m, big.NewInt(int64(s[i]-'0')))
			i++
			nfrac++
			e10--
		}
	}
	if nint == 0 && nfrac == 0 {
		return nil, false
	}
	if i < len(s) && (s[i] == 'e' || s[i] == 'E') {
		i++
		neg := false
		if i < len(s) && (s[i] == '+' || s[i] == '-') {
			neg = s[i] == '-'
			i++
		}
		nd := 0
		ev := 0
		for i < len(s) && s[i] >= '0' && s[i] <= '9' {
			ev = ev*10 + int(s[i]-'0')
			if ev > 100000 {
				return nil, false
			}
			i++
			nd++
		}
		if nd == 0 {
			return nil, false
		}
		if neg {
			ev = -ev
		}
		e10 += ev
	}
	if i != len(s) {
		return nil, false
	}
	r := new(big.Rat).SetInt(m)
	p := new(big.Int).Exp(big.NewInt(10), big.NewInt(int64(abs(e10))), nil)
	if e10 >= 0 {
		r.Mul(r, new(big.Rat).SetInt(p))
	} else {
		r.Quo(r, new(big.Rat).SetInt(p))
	}
	return r, true
}

func abs(x int) int {
	if x < 0 {
		return -x
	}
	return x
}

// float64 nearest to an exact rational (round to nearest even), as JS does
// for a NumericLiteral; big.Rat.Float64 implements exactly that.
func ratToFloat(r *big.Rat) float64 {
	f, _ := r.Float64()
	return f
}

func exactRat(f float64) *big.Rat {
	if math.IsNaN(f) || math.IsInf(f, 0) {
		return nil
	}
	return new(big.Rat).SetFloat64(f)
}
