package main

// Templates with substitutions, BigInt and regular expression literals:
// correspondence cases for C01/Template.v through the add-only hook
// internal/js_printer/export_verif_c01tmpl.go.

import (
	"fmt"
	"strings"

	"github.com/evanw/esbuild/internal/js_printer"
	. "github.com/evanw/esbuild/verifharness/hlib"
)

func cu16List(xs [][]uint16) string {
	var parts []string
	for _, x := range xs {
		parts = append(parts, CU16(x))
	}
	return "[" + strings.Join(parts, "; ") + "]"
}

var regexpTexts = []string{"/a/", "/a/gi", "/[/]/", "/\\//u", "/script/", "/script>/i", "/SCRIPT/", "/Script x/", "/scrip/", "/é/", "/\\u2028/", "/ /", "/=/", "/(?<n>a)\\k<n>/dgimsuy", "/[\\]/]/v", "/scrıpt/", "/ſcript/", "/s/", "//"[0:1] + "(?:)/"}
// raw chunk pieces a lexer can produce (no CR, no unescaped backtick, no unescaped ${, no trailing backslash)
var tagRawPieces = []string{"a", " ", "\\n", "\\u0041", "\\unicode", "\\x", "\\xZ", "\\01", "\\8", "\\u{110000}", "\\`", "\\${", "\\$", "$", "$$", "$ {", "{", "}", "\n", "\\\n", "é", "😀", "\u2028", "</script>", "\\\\", "'", "\"", "\\0", "\t"}
var bigintTexts = []string{"0", "1", "123", "12345678901234567890123", "0x1F", "0b101", "0o17", "0XAB"}

func corrTemplates(r *Rng, st *Stats, cf *CoqFile, n int) string {
	var tp, bi, re []string
	for k := 0; k < n; k++ {
		c := randCfg(r)
		c.templateOK = true
		c.minifySyntax = false
		prefix := randPrefix(r)
		head, _ := randUnits(r)
		var tails [][]uint16
		for j := r.Intn(4); j > 0; j-- {
			t, _ := randUnits(r)
			if r.Chance(25) {
				t = append(t, '$')
			}
			if r.Chance(15) {
				t = append([]uint16{'{'}, t...)
			}
			tails = append(tails, t)
		}
		if r.Chance(25) {
			head = append(head, []uint16{'$', 0, '\r', '\\'}[r.Intn(4)])
		}
		full := js_printer.VerifPrintTemplate(c.options(), prefix, head, tails)
		out := full[len(prefix):]
		st.Note("template", fmt.Sprint(head, tails, c, len(prefix)), len(tails) > 0)
		tp = append(tp, fmt.Sprintf("(%s, %s, %s, %s, %s)", c.coq(), CBytes(prefix), CU16(head), cu16List(tails), CBytes(out)))
		// predicate on the real bytes: cut at the literal "${this}" markers and decode each chunk
		if !strings.Contains(string(out[1:len(out)-1]), "`") || true {
			chunks := strings.Split(string(out[1:len(out)-1]), "${this}")
			want := append([][]uint16{head}, tails...)
			ok := len(chunks) == len(want)
			if ok {
				for i, ch := range chunks {
					// a chunk ending in `$` is followed by `${`: decode it with a harmless continuation
					v, good := jsLiteralValue([]byte("`" + ch + "`"))
					if !good || !sameUnits(v, want[i]) {
						ok = false
					}
				}
			}
			if !ok && !strings.Contains(unitsDesc(head), "0024 007B") {
				// (a head/tail that itself contains "${this}" text would confuse this cut; the Coq side is authoritative)
				cut := false
				for _, w := range want {
					if strings.Contains(string(utf16ToBytes(w)), "{this}") {
						cut = true
					}
				}
				if !cut {
					st.Fail("printed-template-chunks-differ", map[string]interface{}{"head": unitsDesc(head), "tails": fmt.Sprint(tails), "config": c.String(), "printed": string(out)}, fmt.Sprint(chunks), "cooked chunks")
				}
			}
		}
		if k%3 == 0 {
			v := bigintTexts[r.Intn(len(bigintTexts))]
			pf := [][]byte{nil, []byte("a"), []byte("x="), []byte("typeof"), []byte("1+")}[r.Intn(5)]
			o := js_printer.VerifPrintBigInt(c.options(), pf, v)
			st.Note("bigint", v+string(pf), true)
			bi = append(bi, fmt.Sprintf("(%s, %s, %s)", CBytes(pf), CBytes([]byte(v)), CBytes(o[len(pf):])))
			rv := regexpTexts[r.Intn(len(regexpTexts))]
			pf2 := [][]byte{nil, []byte("a"), []byte("x/"), []byte("x<"), []byte("x ="), []byte("1 /"), []byte("<")}[r.Intn(7)]
			o2 := js_printer.VerifPrintRegExp(c.options(), pf2, rv)
			st.Note("regexp", rv+string(pf2)+fmt.Sprint(c.scriptGuard), len(o2) != len(pf2)+len(rv))
			re = append(re, fmt.Sprintf("(%s, %s, %s, %s)", c.coq(), CBytes(pf2), CBytes([]byte(rv)), CBytes(o2[len(pf2):])))
			if c.scriptGuard && containsFoldASCII(o2, "</script") {
				st.Fail("regexp-forms-script-close", map[string]interface{}{"prefix": string(pf2), "regexp": rv}, string(o2), "no </script")
			}
			if strings.Contains(string(o2), "//") && !strings.Contains(rv, "//") {
				st.Fail("regexp-forms-line-comment", map[string]interface{}{"prefix": string(pf2), "regexp": rv}, string(o2), "no //")
			}
		}
	}
	// tagged templates: raw strings printed verbatim
	var tg []string
	for k := 0; k < n/2; k++ {
		mk := func() string {
			var sb strings.Builder
			for j := r.Intn(5); j > 0; j-- {
				sb.WriteString(tagRawPieces[r.Intn(len(tagRawPieces))])
			}
			return strings.ReplaceAll(sb.String(), "${", "$ {") // an unescaped ${ would end the chunk
		}
		head := mk()
		var tails []string
		var tailsCoq []string
		for j := r.Intn(3); j > 0; j-- {
			t := mk()
			tails = append(tails, t)
			tailsCoq = append(tailsCoq, CBytes([]byte(t)))
		}
		c := randCfg(r)
		out := js_printer.VerifPrintTaggedTemplate(c.options(), nil, head, tails)
		if len(out) < 4 || string(out[:4]) != "this" {
			st.Fail("tagged-template-output-shape-unexpected", map[string]interface{}{"head": head, "tails": tails}, string(out), "this`...`")
			continue
		}
		st.Note("tagged-template", head+"|"+strings.Join(tails, "|"), len(tails) > 0)
		tg = append(tg, fmt.Sprintf("(%s, [%s], %s)", CBytes([]byte(head)), strings.Join(tailsCoq, "; "), CBytes(out[4:])))
		want := "`" + head
		for _, t := range tails {
			want += "${this}" + t
		}
		want += "`"
		if string(out[4:]) != want {
			st.Fail("tagged-template-raw-text-changed", map[string]interface{}{"head": head, "tails": tails, "config": c.String()}, string(out[4:]), want)
		}
	}
	cf.AddCases("tagged", "bytes * list bytes * bytes", "check_tagged", tg)
	cf.AddCases("template", "qcfg * bytes * list Z * list (list Z) * bytes", "check_template", tp)
	cf.AddCases("bigint", "bytes * bytes * bytes", "check_bigint", bi)
	cf.AddCases("regexp", "qcfg * bytes * bytes * bytes", "check_regexp", re)
	return "Definition R_template_spec := Eval vm_compute in (check_template_spec template).\nPrint R_template_spec.\nDefinition R_tagged_spec := Eval vm_compute in (check_tagged_spec tagged).\nPrint R_tagged_spec.\n"
}

func utf16ToBytes(u []uint16) []byte {
	var b []byte
	for _, c := range u {
		if c < 0x80 {
			b = append(b, byte(c))
		} else {
			b = append(b, '?')
		}
	}
	return b
}
