package main

// String / template / identifier literal printing: correspondence cases for
// the Coq model (C01/Quote.v) through the add-only hook
// internal/js_printer/export_verif.go, with the property's predicate (the
// printed literal denotes the input UTF-16 sequence; ASCII-only output;
// no "</script"; no raw line terminators) evaluated on the real output.

import (
	"bytes"
	"fmt"
	"strings"
	"unicode/utf16"

	"github.com/evanw/esbuild/internal/compat"
	"github.com/evanw/esbuild/internal/helpers"
	"github.com/evanw/esbuild/internal/js_printer"
	. "github.com/evanw/esbuild/verifharness/hlib"
)

type qcfg struct {
	ascii, uniEsc, scriptGuard bool
	lineLimit                  int
	minifySyntax, templateOK   bool
}

func (c qcfg) coq() string {
	return fmt.Sprintf("(mkQ %s %s %s %d %s %s)", CBool(c.ascii), CBool(c.uniEsc), CBool(c.scriptGuard), c.lineLimit, CBool(c.minifySyntax), CBool(c.templateOK))
}

func (c qcfg) String() string {
	return fmt.Sprintf("ascii=%v unicode-escapes=%v inline-script-guard=%v line-limit=%d minify-syntax=%v template-literal=%v", c.ascii, c.uniEsc, c.scriptGuard, c.lineLimit, c.minifySyntax, c.templateOK)
}

func (c qcfg) options() js_printer.Options {
	var uf compat.JSFeature
	if !c.uniEsc {
		uf |= compat.UnicodeEscapes
	}
	if !c.scriptGuard {
		uf |= compat.InlineScript
	}
	if !c.templateOK {
		uf |= compat.TemplateLiteral
	}
	return js_printer.Options{ASCIIOnly: c.ascii, UnsupportedFeatures: uf, LineLimit: c.lineLimit, MinifySyntax: c.minifySyntax}
}

func randCfg(r *Rng) qcfg {
	c := qcfg{ascii: r.Bool(), uniEsc: r.Chance(70), scriptGuard: r.Chance(75), minifySyntax: r.Chance(30), templateOK: r.Chance(75)}
	if r.Chance(45) {
		c.lineLimit = []int{1, 2, 3, 5, 8, 13, 40}[r.Intn(7)]
	}
	return c
}

var scriptWords = []string{"</script", "</SCRIPT", "</ScRiPt>", "<\\/script", "</scrip", "</scriptx", "<//script", "</script</script", "< /script", "</ſcript", "</scrıpt", "<</script"}

// one random UTF-16 unit sequence; classes recorded in kind
func randUnits(r *Rng) ([]uint16, string) {
	n := r.Range(0, 14)
	if r.Chance(10) {
		n = r.Range(15, 60)
	}
	var u []uint16
	kind := map[string]bool{}
	for len(u) < n {
		switch r.Intn(16) {
		case 0: // ASCII controls incl. NUL followed by a digit / non digit
			c := uint16(r.Intn(32))
			if r.Chance(40) {
				c = 0
			}
			u = append(u, c)
			if c == 0 && r.Chance(60) {
				u = append(u, uint16("0189a\x00"[r.Intn(6)]))
			}
			kind["ctl"] = true
		case 1:
			u = append(u, uint16("'\"`\\"[r.Intn(4)]))
			kind["quote"] = true
		case 2:
			u = append(u, '$')
			if r.Chance(70) {
				u = append(u, '{')
			}
			kind["dollar"] = true
		case 3:
			w := scriptWords[r.Intn(len(scriptWords))]
			u = append(u, utf16.Encode([]rune(w))...)
			kind["script"] = true
		case 4:
			u = append(u, []uint16{0x2028, 0x2029, 0xFEFF, 0x7F, 0x80, 0xA0, 0xFF, 0x100, 0xFFFF, 0xFFFE, 0x85}[r.Intn(11)])
			kind["special"] = true
		case 5:
			u = append(u, uint16(0x80+r.Intn(0x80)))
			kind["latin1"] = true
		case 6:
			u = append(u, uint16(0x100+r.Intn(0xD700)))
			kind["bmp"] = true
		case 7: // well-formed pair
			u = append(u, uint16(0xD800+r.Intn(0x400)), uint16(0xDC00+r.Intn(0x400)))
			kind["pair"] = true
		case 8: // pair boundaries
			hs := []uint16{0xD800, 0xDBFF, 0xD83D, 0xDBC0}
			ls := []uint16{0xDC00, 0xDFFF, 0xDE00}
			u = append(u, hs[r.Intn(4)], ls[r.Intn(3)])
			kind["pair"] = true
		case 9: // lone surrogates in every arrangement
			switch r.Intn(4) {
			case 0:
				u = append(u, uint16(0xD800+r.Intn(0x400)))
			case 1:
				u = append(u, uint16(0xDC00+r.Intn(0x400)))
			case 2:
				u = append(u, uint16(0xDC00+r.Intn(0x400)), uint16(0xD800+r.Intn(0x400)))
			default:
				u = append(u, uint16(0xD800+r.Intn(0x400)), uint16(0xD800+r.Intn(0x400)))
			}
			kind["lone"] = true
		case 10:
			u = append(u, '\n')
			if r.Chance(30) {
				u = append(u, '\r')
			}
			kind["newline"] = true
		case 11:
			u = append(u, uint16("<</ /"[r.Intn(5)]))
		default:
			u = append(u, uint16(0x20+r.Intn(0x5F)))
		}
	}
	ks := []string{}
	for _, k := range []string{"ctl", "quote", "dollar", "script", "special", "latin1", "bmp", "pair", "lone", "newline"} {
		if kind[k] {
			ks = append(ks, k)
		}
	}
	if len(ks) == 0 {
		return u, "plain"
	}
	return u, strings.Join(ks, "+")
}

// boundary grid of unit sequences (every special case of printUnquotedUTF16
// at the start, middle and end of the text)
func unitGrid() [][]uint16 {
	var g [][]uint16
	singles := []uint16{0, 1, 7, 8, 9, 10, 11, 12, 13, 14, 27, 31, 32, '"', '$', '\'', '/', '0', '9', ':', '<', '\\', '`', '{', 0x7E, 0x7F, 0x80, 0xFF, 0x100, 0x2027, 0x2028, 0x2029, 0x202A,
		0xD7FF, 0xD800, 0xDBFF, 0xDC00, 0xDFFF, 0xE000, 0xFEFE, 0xFEFF, 0xFF00, 0xFFFF}
	for _, c := range singles {
		g = append(g, []uint16{c}, []uint16{'a', c}, []uint16{c, 'a'}, []uint16{c, '1'}, []uint16{c, c})
	}
	for _, s := range []string{"</script", "</script>", "x</script", "</scrip", "/script", "</SCRIPT>", "<</script>", "</scripT", "a</scr", "${", "$", "$${", "{$", "a${b}", "\x000", "\x00\x000", "\x009", "\x00:", "\x00/"} {
		g = append(g, utf16.Encode([]rune(s)))
	}
	g = append(g, []uint16{0xD800, 0xDC00}, []uint16{0xDBFF, 0xDFFF}, []uint16{0xD83D, 0xDE00}, []uint16{0xD800, 0xD800, 0xDC00}, []uint16{0xDC00, 0xD800}, []uint16{0xD800, 'a'},
		[]uint16{'<', '/', 's', 'c', 'r', 'i', 'p', 0xD800}, []uint16{}, []uint16{'\n', '\n', '\n'}, []uint16{'"', '"', '\''}, []uint16{'"', '\'', '`', '`'}, []uint16{'"', '\'', '$', '{'})
	return g
}

func containsFoldASCII(b []byte, pat string) bool {
	return bytes.Contains(bytes.ToLower(b), []byte(pat))
}

func sameUnits(a, b []uint16) bool {
	if len(a) != len(b) {
		return false
	}
	for i := range a {
		if a[i] != b[i] {
			return false
		}
	}
	return true
}

func unitsDesc(u []uint16) string {
	var sb strings.Builder
	for i, c := range u {
		if i > 0 {
			sb.WriteByte(' ')
		}
		fmt.Fprintf(&sb, "%04X", c)
	}
	return sb.String()
}

func randPrefix(r *Rng) []byte {
	switch r.Intn(4) {
	case 0:
		return nil
	case 1:
		return []byte("x = ")
	case 2:
		return []byte("abc\ndefgh")
	default:
		return bytes.Repeat([]byte("y"), r.Intn(12))
	}
}

// predicate on one printed quoted literal; returns "" when it holds
func quotedPredicate(c qcfg, units []uint16, out []byte, isTemplateBody bool) (string, string) {
	v, ok := jsLiteralValue(out)
	if !ok {
		return "printed-string-literal-invalid", "not a valid literal"
	}
	if !sameUnits(v, units) {
		return "printed-string-literal-value-differs", unitsDesc(v)
	}
	if c.ascii {
		for _, b := range out {
			if b >= 0x80 {
				return "ascii-charset-output-has-non-ascii-byte", fmt.Sprintf("byte %#x", b)
			}
		}
	}
	if c.scriptGuard && containsFoldASCII(out, "</script") {
		return "printed-literal-contains-script-close", "</script"
	}
	return "", ""
}

func corrStrings(r *Rng, st *Stats, cf *CoqFile, n int) (extra string) {
	var quo, unq, ids []string
	grid := unitGrid()
	total := n
	for k := 0; k < total; k++ {
		var units []uint16
		kind := "grid"
		if k < len(grid) && k < total/2 {
			units = grid[k]
		} else {
			units, kind = randUnits(r)
		}
		c := randCfg(r)
		prefix := randPrefix(r)
		// --- printQuotedUTF16
		var flags uint8
		allowBT := r.Chance(70)
		noWrap := r.Chance(15)
		if allowBT {
			flags |= js_printer.VerifPrintQuotedAllowBacktick
		}
		if noWrap {
			flags |= js_printer.VerifPrintQuotedNoWrap
		}
		full := js_printer.VerifPrintQuotedUTF16(c.options(), prefix, units, flags)
		out := full[len(prefix):]
		st.Note("quoted:"+kind, fmt.Sprint(units, c, allowBT, noWrap, len(prefix)), len(out) != len(units)+2)
		quo = append(quo, fmt.Sprintf("(%s, %s, %s, %s, %s, %s)", c.coq(), CBool(allowBT), CBool(noWrap), CBytes(prefix), CU16(units), CBytes(out)))
		if what, got := quotedPredicate(c, units, out, false); what != "" {
			st.Fail(what, map[string]interface{}{"utf16_units": unitsDesc(units), "config": c.String(), "allow_backtick": allowBT, "prefix": string(prefix), "printed": string(out)}, got, unitsDesc(units))
		}
		if k < 2 {
			st.Sample(map[string]interface{}{"utf16_units": unitsDesc(units), "config": c.String(), "printed": string(out)})
		}
		// --- printUnquotedUTF16 with each quote
		q := []rune{'"', '\'', '`'}[r.Intn(3)]
		full = js_printer.VerifPrintUnquotedUTF16(c.options(), prefix, units, q, flags)
		body := full[len(prefix):]
		st.Note("unquoted:"+kind, fmt.Sprint(units, c, q, noWrap, len(prefix)), len(body) != len(units))
		unq = append(unq, fmt.Sprintf("(%s, %d, %s, %s, %s, %s)", c.coq(), q, CBool(noWrap), CBytes(prefix), CU16(units), CBytes(body)))
		lit := append(append([]byte(string(q)), body...), []byte(string(q))...)
		if what, got := quotedPredicate(c, units, lit, q == '`'); what != "" {
			st.Fail(what, map[string]interface{}{"utf16_units": unitsDesc(units), "config": c.String(), "quote": string(q), "prefix": string(prefix), "printed": string(lit)}, got, unitsDesc(units))
		}
		if q != '`' {
			if bytes.ContainsAny(body, "\r") || bytes.Contains(body, []byte("\u2028")) || bytes.Contains(body, []byte("\u2029")) ||
				(bytes.Contains(body, []byte("\n")) && (c.lineLimit == 0 || noWrap)) {
				st.Fail("raw-line-terminator-in-string-literal", map[string]interface{}{"utf16_units": unitsDesc(units), "config": c.String(), "printed": string(lit)}, "raw line terminator", "escaped")
			}
		}
		// --- printIdentifierUTF16 (identifier-like units only)
		if k%3 == 0 {
			name := randIdentUnits(r)
			func() {
				defer func() {
					if e := recover(); e != nil {
						// the documented panic: non-BMP, ASCII only, no \u{...}
						ids = append(ids, fmt.Sprintf("(%s, %s, false, [])", c.coq(), CU16(name)))
						st.Note("ident:panic", fmt.Sprint(name, c), true)
					}
				}()
				o := js_printer.VerifPrintIdentifierUTF16(c.options(), nil, name)
				ids = append(ids, fmt.Sprintf("(%s, %s, true, %s)", c.coq(), CU16(name), CBytes(o)))
				st.Note("ident", fmt.Sprint(name, c), len(o) != len(name))
				v, ok := jsIdentValue(o)
				if !ok || !sameUnits(v, name) {
					st.Fail("printed-identifier-value-differs", map[string]interface{}{"utf16_units": unitsDesc(name), "config": c.String(), "printed": string(o)}, unitsDesc(v), unitsDesc(name))
				}
				if c.ascii {
					for _, b := range o {
						if b >= 0x80 {
							st.Fail("ascii-charset-output-has-non-ascii-byte", map[string]interface{}{"identifier_units": unitsDesc(name), "config": c.String(), "printed": string(o)}, fmt.Sprintf("byte %#x", b), "< 0x80")
							break
						}
					}
				}
			}()
		}
	}
	// helpers/utf.go
	var utf, wr []string
	for k := 0; k < total/2; k++ {
		var units []uint16
		if k < len(grid) {
			units = grid[k]
		} else {
			units, _ = randUnits(r)
		}
		w := helpers.UTF16ToString(units)
		back := helpers.StringToUTF16(w)
		st.Note("utf16-wtf8", fmt.Sprint(units), !sameUnits(back, units))
		utf = append(utf, fmt.Sprintf("(%s, %s, %s)", CU16(units), CBytes([]byte(w)), CU16(back)))
		// DecodeWTF8Rune on a mutated / truncated suffix
		b := []byte(w)
		if len(b) > 0 {
			b = b[r.Intn(len(b)):]
			if r.Chance(40) {
				b[r.Intn(len(b))] = byte(r.Intn(256))
			}
			if r.Chance(30) {
				b = b[:r.Intn(len(b))+1]
			}
			if len(b) > 6 {
				b = b[:6]
			}
		}
		rn, width := helpers.DecodeWTF8Rune(string(b))
		st.Note("decode-wtf8-rune", fmt.Sprint(b), len(b) > 0 && b[0] >= 0x80)
		wr = append(wr, fmt.Sprintf("(%s, %d, %d)", CBytes(b), rn, width))
	}
	cf.AddCases("utf", "list Z * bytes * list Z", "check_utf", utf)
	cf.AddCases("wtf8rune", "bytes * Z * Z", "check_wtf8rune", wr)
	typ := "qcfg * bool * bool * bytes * list Z * bytes"
	cf.AddCases("quoted", typ, "check_quoted", quo)
	cf.AddCases("unquoted", "qcfg * Z * bool * bytes * list Z * bytes", "check_unquoted", unq)
	cf.AddCases("ident", "qcfg * list Z * bool * bytes", "check_ident", ids)
	// the specification-side predicate on the same observed outputs
	return "Definition R_quoted_spec := Eval vm_compute in (check_quoted_spec quoted).\nPrint R_quoted_spec.\n" +
		"Definition R_unquoted_spec := Eval vm_compute in (check_unquoted_spec unquoted).\nPrint R_unquoted_spec.\n" +
		"Definition R_ident_spec := Eval vm_compute in (check_ident_spec ident).\nPrint R_ident_spec.\n"
}

// identifier-shaped unit sequences (no backslash, well-formed surrogates)
func randIdentUnits(r *Rng) []uint16 {
	n := r.Range(1, 6)
	var u []uint16
	for len(u) < n {
		switch r.Intn(6) {
		case 0:
			u = append(u, uint16([]rune("éπжあ中ǅ‌‍ªº")[r.Intn(10)]))
		case 1:
			// non-BMP identifier characters: U+10000.., U+1D49C, U+2A6D6, U+10FFFF-ish
			cps := []rune{0x10000, 0x1D49C, 0x2A6D6, 0x20BB7, 0x1F600, 0xFFFFF, 0x100000, 0x10FFFF}
			u = append(u, utf16.Encode([]rune{cps[r.Intn(len(cps))]})...)
		case 2:
			u = append(u, uint16("$_"[r.Intn(2)]))
		default:
			u = append(u, uint16("abcxyzABC019"[r.Intn(12)]))
		}
	}
	return u
}
