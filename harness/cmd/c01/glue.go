package main

// Glue streams through the public API (api.Transform):
//   glueLiterals : `x = <literal>;` programs; the OUTPUT literal is cut out of
//                  the emitted text and evaluated by the specification (Coq,
//                  through the cases file) and by the harness-side oracle;
//   glueNodeLiterals : literal forms whose value is easiest to observe by
//                  running them (templates with substitutions, tagged
//                  templates' raw strings, bigint, regexp, property keys,
//                  token-gluing hazards around numbers) - node oracle;
//   glueJSX      : JSX programs: preserve then transform == transform, and
//                  automatic == transform on a normalising runtime - node oracle.

import (
	"fmt"
	"math"
	"strconv"
	"strings"
	"unicode/utf16"

	"github.com/evanw/esbuild/pkg/api"
	. "github.com/evanw/esbuild/verifharness/hlib"
)

type glueOpts struct {
	o    api.TransformOptions
	desc string
	// expectations derived from the options
	ascii bool
}

func randGlueOpts(r *Rng) glueOpts {
	o := api.TransformOptions{Loader: api.LoaderJS, LogLevel: api.LogLevelSilent}
	var d []string
	g := glueOpts{ascii: true}
	if r.Chance(45) {
		o.MinifyWhitespace = true
		d = append(d, "minify-whitespace")
	}
	if r.Chance(45) {
		o.Charset = api.CharsetUTF8
		g.ascii = false
		d = append(d, "charset=utf8")
	}
	if r.Chance(35) {
		o.LineLimit = []int{1, 5, 10, 20, 40, 80}[r.Intn(6)]
		d = append(d, fmt.Sprint("line-limit=", o.LineLimit))
	}
	if r.Chance(25) {
		o.Supported = map[string]bool{}
		if r.Bool() {
			o.Supported["unicode-escapes"] = false
			d = append(d, "supported:unicode-escapes=false")
		}
		if r.Bool() {
			o.Supported["template-literal"] = false
			d = append(d, "supported:template-literal=false")
		}
	}
	if r.Chance(15) {
		o.Platform = api.PlatformNode
		d = append(d, "platform=node")
	}
	g.o = o
	g.desc = strings.Join(d, ",")
	return g
}

// a JavaScript source literal denoting exactly the given units, spelled with
// a random mix of raw characters and every escape form
func spellLiteral(r *Rng, units []uint16, q byte) string {
	var sb strings.Builder
	sb.WriteByte(q)
	for i := 0; i < len(units); i++ {
		c := units[i]
		// a well-formed pair may be written raw or as \u{...}
		if c >= 0xD800 && c <= 0xDBFF && i+1 < len(units) && units[i+1] >= 0xDC00 && units[i+1] <= 0xDFFF {
			cp := utf16.DecodeRune(rune(c), rune(units[i+1]))
			switch r.Intn(3) {
			case 0:
				sb.WriteRune(cp)
				i++
				continue
			case 1:
				fmt.Fprintf(&sb, "\\u{%X}", cp)
				i++
				continue
			}
		}
		nextDigit := i+1 < len(units) && units[i+1] >= '0' && units[i+1] <= '9'
		raw := c >= 0x20 && c != 0x7F && !(c >= 0xD800 && c <= 0xDFFF) && c != '\\' && c != uint16(q) && c != 0x2028 && c != 0x2029 &&
			!(q == '`' && c == '$')
		if q == '`' && (c == '\n' || c == '\t') {
			raw = true
		}
		if c == '\t' {
			raw = true
		}
		choice := r.Intn(10)
		switch {
		case raw && choice < 6:
			sb.WriteRune(rune(c))
		case choice == 6 && c < 0x100:
			fmt.Fprintf(&sb, "\\x%02x", c)
		case choice == 7:
			fmt.Fprintf(&sb, "\\u{%x}", c)
		case choice == 8 && c == 0 && !nextDigit:
			sb.WriteString("\\0")
		case choice == 8 && strings.ContainsRune("\b\f\n\r\t\v", rune(c)) && c != 0:
			sb.WriteByte('\\')
			sb.WriteByte("b f n r t v"[strings.IndexRune("\b_\f_\n_\r_\t_\v", rune(c))])
		case choice == 9 && raw && c > 0x7F || (c == '\'' || c == '"' || c == '`' || c == '$' || c == '/' || c == '\\'):
			sb.WriteByte('\\') // identity escape
			sb.WriteRune(rune(c))
		default:
			fmt.Fprintf(&sb, "\\u%04X", c)
		}
	}
	sb.WriteByte(q)
	return sb.String()
}

func cutAssigned(out string) (string, bool) {
	s := strings.TrimSuffix(out, "\n")
	if !strings.HasSuffix(s, ";") {
		return "", false
	}
	s = strings.TrimSuffix(s, ";")
	// "x", optional space, "=", then spaces or a line break (line-limit)
	if !strings.HasPrefix(s, "x") {
		return "", false
	}
	s = strings.TrimLeft(s[1:], " ")
	if !strings.HasPrefix(s, "=") {
		return "", false
	}
	return strings.TrimLeft(s[1:], " \n"), true
}

func glueLiterals(r *Rng, st *Stats, cf *CoqFile, n int) string {
	var sitems, nitems []string
	grid := unitGrid()
	for k := 0; k < n; k++ {
		var units []uint16
		kind := "grid"
		if k < len(grid) && k < n/2 {
			units = grid[(k*7)%len(grid)]
		} else {
			units, kind = randUnits(r)
		}
		g := randGlueOpts(r)
		q := "'\"`"[r.Intn(3)]
		lit := spellLiteral(r, units, q)
		// the harness's own reading of its spelling must be the units
		if v, ok := jsLiteralValue([]byte(lit)); !ok || !sameUnits(v, units) {
			st.Histogram["generator-spelling-bug"]++
			continue
		}
		src := "x = " + lit + ";"
		res := api.Transform(src, g.o)
		input := map[string]interface{}{"program": src, "options": g.desc, "utf16_units": unitsDesc(units)}
		if len(res.Errors) > 0 {
			st.Note("literal-string:rejected", src, true)
			st.Fail("valid-program-rejected", input, res.Errors[0].Text, "accepted")
			continue
		}
		out := string(res.Code)
		input["output"] = out
		olit, ok := cutAssigned(out)
		st.Note("literal-string:"+kind, src+g.desc, olit != lit)
		if !ok {
			st.Fail("output-shape-unexpected", input, out, "x = <literal>;")
			continue
		}
		v, ok := jsLiteralValue([]byte(olit))
		if !ok {
			st.Fail("output-string-literal-invalid", input, olit, unitsDesc(units))
		} else if !sameUnits(v, units) {
			st.Fail("output-string-literal-value-differs", input, unitsDesc(v), unitsDesc(units))
		}
		if g.ascii {
			for _, b := range []byte(out) {
				if b >= 0x80 {
					st.Fail("ascii-charset-output-has-non-ascii-byte", input, fmt.Sprintf("byte %#x", b), "every byte < 0x80")
					break
				}
			}
		}
		if g.o.Platform != api.PlatformNode && containsFoldASCII([]byte(out), "</script") {
			st.Fail("output-contains-script-close", input, out, "no </script")
		}
		sitems = append(sitems, fmt.Sprintf("(%s, %s, %s)", CBytes([]byte(lit)), CBytes([]byte(olit)), CU16(units)))
		if k < 2 {
			st.Sample(input)
		}
	}
	// numbers
	for k := 0; k < n/2; k++ {
		var f float64
		kind := "grid"
		fg := floatGrid()
		if k < len(fg) && k < n/4 {
			f = fg[(k*5)%len(fg)]
		} else {
			f, kind = randFloat(r)
		}
		g := randGlueOpts(r)
		var lit string
		switch r.Intn(6) {
		case 0:
			lit = strconv.FormatFloat(f, 'e', -1, 64)
		case 1:
			if f < 1e25 && f > 1e-20 {
				lit = strconv.FormatFloat(f, 'f', -1, 64)
			} else {
				lit = strconv.FormatFloat(f, 'g', -1, 64)
			}
		case 2:
			if f == math.Trunc(f) && f < 1.8e19 {
				lit = "0x" + strconv.FormatUint(uint64(f), 16)
				if r.Bool() {
					lit = "0X" + strings.ToUpper(lit[2:])
				}
			} else {
				lit = strconv.FormatFloat(f, 'g', -1, 64)
			}
		case 3:
			if f == math.Trunc(f) && f < 1.8e19 {
				lit = []string{"0b", "0o"}[r.Intn(2)]
				base := 2
				if lit == "0o" {
					base = 8
				}
				lit += strconv.FormatUint(uint64(f), base)
			} else {
				lit = strings.ToUpper(strconv.FormatFloat(f, 'e', -1, 64))
			}
		default:
			lit = strconv.FormatFloat(f, 'g', -1, 64)
		}
		src := "x = " + lit + ";"
		res := api.Transform(src, g.o)
		input := map[string]interface{}{"program": src, "options": g.desc, "float64_bits": fmt.Sprintf("%#016x", math.Float64bits(f))}
		if len(res.Errors) > 0 {
			st.Fail("valid-program-rejected", input, res.Errors[0].Text, "accepted")
			continue
		}
		out := string(res.Code)
		input["output"] = out
		olit, ok := cutAssigned(out)
		st.Note("literal-number:"+kind, src+g.desc, olit != lit)
		if !ok {
			st.Fail("output-shape-unexpected", input, out, "x = <literal>;")
			continue
		}
		if what, got := numberPredicate(f, []byte(olit)); what != "" {
			st.Fail("output-"+what, input, got, strconv.FormatFloat(f, 'g', -1, 64))
		}
		nitems = append(nitems, fmt.Sprintf("(%d, %s)", math.Float64bits(f), CBytes([]byte(olit))))
	}
	cf.AddCases("glue_string", "bytes * bytes * list Z", "check_glue_string", sitems)
	cf.AddCases("glue_number", "Z * bytes", "check_glue_number", nitems)
	return ""
}

// ---------------------------------------------------------------------------

var hazardPrograms = []string{
	"$p(1 .toString(), 1.5.toString(), 1e3.toString(), 1000 .toString(), 0x10.toString(), 1e21.toString(), (255).toString(16), 0.5.toFixed(1), 1e-7.toString());",
	"$p(1..toString(), 1.0.toString(), 100..toFixed(2), 1_000 .toString(), 0b11.toString(), 0o17.toString(), 1e100.toString().length);",
	"var a = 1, b = 2; $p(a - -b, a + +b, a - --b, a + ++b, - -a, + +a, -(-a), +(+a), - - -a, a++ + b, a + +b++, a-- - b, a - -b--);",
	"var a = 5, b = 2; $p(a-- > b, a --> b, a < !--b, 1 < !--a);",
	"var a = 1; $p(-(-1), -(-0), 1 / -0, - -1e21, -(-0.5), +-1, -+1, 2 ** -1, (-2) ** 2, (-1) ** 2, -(2 ** 2), (-0.5) ** 2);",
	"$p((-1).toString(), (-1.5).toFixed(1), (-0).toString(), (-1e21).toString(), -1 .toString(), (1/0).toString(), (-1/0).toString(), (0/0).toString());",
	"$p(-Infinity, Infinity, NaN, -NaN, [Infinity].length, (-Infinity).toString(), Infinity.toString(), NaN.toString(), -Infinity < 0, typeof -Infinity);",
	"var o = {1: 'a', 1.5: 'b', 1e3: 'c', 0x10: 'd', 1e21: 'e', .5: 'f', 1000000000000: 'g', 0.000001: 'h', 1e-7: 'i'}; $p(Object.keys(o).sort());",
	"class C { 1 = 'a'; 1.5() { return 'b' } static 1e3 = 'c'; get 0x10() { return 'd' } } $p(new C()[1], new C()[1.5](), C[1000], new C()[16]);",
	"var x = 1; $p(x /2/ 1, /2/.test('2'), /[/]/.source, /\\//.source, /a/g.flags, /=/.source, / /.source, 1 / /1/.source.length);",
	"var x = 8, g = 2, i = 1; $p(x / /2/.source, x / /[/]/.source.length, x /g/i, x / / /.source.length, 4 / /\\//.source.length, x / +/3/.source, x / -/4/.source.length, [x / /5/.source][0], x % /3/.source, x * /2/.source, x/**/ / /2/.source);",
	"$p(/a/ in {'/a/': 1}, /a/ instanceof RegExp, typeof /a/, void /a/, 4 / 2 / 1, [/a/, /b/i].length);",
	"$p(/[\\u2028]/.source.length, /\\u{1F600}/u.test('\\u{1F600}'), /caf\\u00e9/.test('café'), /é/.test('\\xe9'), /😀/u.source.length, /\\ud83d/.test('😀'));",
	"$p(123n, 0x1Fn, 0b101n, 0o17n, 1_000n, -5n, 2n ** 64n, typeof 1n, 123n.toString(), (5n).toString(2), -(-5n), 0n === -0n);",
	"$p(`a${1}b`, `${'x'}`, `\\${1}`, `$${1}`, `$\\{1}`, `\\``, `'\"`, `a\\\nb`, `a\nb`, `\\u{1F600}`.length, `\\x41\\u0042\\0`, `${`n${`e`}s`}t`);",
	"$p(String.raw`a\\nb${1}\\u0041\\x`, String.raw`\\``, String.raw`${1}$`, String.raw`\\${}`, String.raw`a\r\nb`.length, (x => x.raw[0])`\\0\\01`, (x => x[0])`\\01`, (x => x.raw)`</script>`);",
	"function t(s) { return s.raw.join('|') + '#' + s.join('|') } $p(t`a${1}\\n${2}\\x41`, t``, t`\\unicode`, t`${0}`, t`\n`, t`\\\n`);",
	"$p('\\0', '\\x00' + '1', '\\x001', '\\0\\x31', '\\u00001', '\\08'.length === undefined, '\\x07\\b\\f\\n\\r\\t\\v\\x1b\\\\', '\\u2028\\u2029\\ufeff'.length, '\\ud83d\\ude00' === '😀', '\\ud83d', '\\ude00\\ud83d');",
	"$p('</script>', '<\\/script>', '</SCRIPT', '</scr' + 'ipt>', `</script>`, `${'<'}/script`, '</script'.length, /<\\/script/.source, '<!--', '-->');",
	"$p('a\\\nb', 'a\\\r\nb', 'a\\ b', \"it's\", 'say \"hi\"', 'both \\' and \"', '`', '${}', '\\a\\c\\d\\e\\g', '\\/', '\\$', '\\`');",
	"var é = 1, \\u00e9\\u00e9 = 2, ω = 3, 𠮷 = 4, \\u{20BB7}x = 5, a\\u200d = 6; $p(é, éé, ω, 𠮷, 𠮷x, a\\u200d, {é}, {\\u00e9: 7}.é, {'é': 8}.é, ({𠮷}).𠮷);",
	"var o = {é: 1, 'ω': 2, '𠮷': 3, 'a b': 4, 'if': 5, '1x': 6, '\\ud800': 7, 'x\\u200d': 8, __proto__: null}; $p(Object.keys(o).sort(), o.é, o?.ω, o['𠮷'], o.if);",
	"class K { é = 1; 'ω' = 2; static 𠮷 = 3; #é = 4; g() { return this.#é } 'm n'() { return 5 } } var k = new K; $p(k.é, k.ω, K.𠮷, k.g(), k['m n'](), Object.keys(k));",
	"lbl: for (var é = 0; é < 2; é++) { continue lbl } $p(é); var {é: ω, 'a-b': c = 3, ...r} = {é: 1, z: 2}; $p(ω, c, r);",
	"'use strict'; $p((function () { return this })() === undefined);",
	"'use\\x20strict'; $p((function () { return this })() === undefined);",
	"function f() { 'use\\u0020strict'; return this === undefined } $p(f());",
	"function f() { \"use strict\"; return this === undefined } function g() { ('use strict'); return this === undefined } $p(f(), g());",
	"function g() { 'a' + 'b'; 'use strict'; return this === undefined } $p(g());",
	"for (var i of [1]) { if (i) continue; function f() { return 1 } } $p(typeof f); { function h() {} } $p(typeof h); sw: { break sw; function k() {} } $p(typeof k);",
	"var i = 0; do { if (1 ?? 2) continue; function f3() { return \"called\" } } while (++i < 1); try { $p(f3()) } catch (e) { $p(e.constructor.name) }",
	"function h(p) { { function p() {} } return typeof p } $p(h(1));",
	"switch (1) { case 0: function sf() { return 1 } case 1: $p(typeof sf, sf()) } $p(typeof sf);",
	"var za = 1; try { za++\n($p(1)) } catch (e) { $p(e.constructor.name) } $p(za);",
	"function* yg() { var x = yield\n+$p(4)\nreturn x } var yi = yg(); $p(yi.next().value, yi.next(5).value);",
	"var zb = 1; zb--\n`x`.length; zb++\n[$p(2)].length; $p(zb); var zc = zb++\n($p(3)); $p(zc);",
	"function* yh() { var x = yield\n($p(5))\nvar y = yield\n[$p(6)].length\nvar z = yield\n`t`\nvar w = yield\n/2/.test(\"2\") && $p(7)\nreturn [x, y, z, w] } var yj = yh(); $p(yj.next().value, yj.next(1).value, yj.next(2).value, yj.next(3).value, yj.next(4).value);",
	"$p(typeof q1); { let q1 = 1; { function q1() {} } } $p(typeof q1); { function q2() { return 1 } $p(q2()) } $p(q2()); switch (1) { case 0: function q3() {} } $p(typeof q3); try { throw 0 } catch (q4) { { function q5() {} } } $p(typeof q5); if (1) function q6() {} $p(typeof q6); lbl: function q7() {} $p(typeof q7);",
	"function g() { 1; 'use strict'; return this === undefined } function h() { ; 'use strict'; return this === undefined } function i() { 'use strict' + ''; return this === undefined } function j() { `use strict`; return this === undefined } $p(g(), h(), i(), j());",
	"$p(((a, b) => a + b)(1, 2), (a => a)(1), (() => ({}))(), (() => { return {} })(), (async () => 1)() instanceof Promise, ((a = 1, {b} = {b: 2}, ...c) => [a, b, c])());",
	"var a = 1, b = 2, c = 3; $p((a, b), [(a, b)], ((a, b), c), a ? b : c ? a : b, (a ? b : c) ? a : b, a ? (b, c) : a, (a = b) ? a : c, a = b ? a : c);",
	"var a = 2, b = 3; $p((-a) ** b, -(a ** b), (a ** b) ** a, a ** b ** a, (a, b) ** a, (+a) ** b, (a++) ** b, (--a) ** b, (typeof a) + b, typeof (a + b), (void 0) ?? a, void (0 ?? a));",
	"var a = null, b = 0, c = 1; $p(a ?? (b || c), (a ?? b) || c, a ?? (b && c), (a || b) ?? c, (a && b) ?? c, a ?? b ?? c, (a ?? b) ?? c);",
	"var o = {a: {b: () => 1}}; $p(o?.a?.b(), (o?.a).b(), (o?.a.b)(), o?.['a'], o?.a?.['b']?.(), new (o.a.b)(), new (o?.a.b)(), (0, o.a.b)(), new o.a.b, new (o.a.b()).constructor);",
	"function F() { this.x = 1 } F.g = function () { this.y = 2 }; var h = () => F; $p(new F().x, new F.g().y, new (h())().x, new (h()), (new F).x, new (F.g)().y, typeof new (class {})(), new new Function('this.z=3')().z);",
	"var x = 0, y; $p((function () {}), (function () { return 1 })(), (class {}).name, ({}).toString(), ({a: 1}).a, (function f() {}).name, [function () {}].length, (async function () {}).constructor.name);",
	"var let_ = 1; for (var i in {a: 1}) $p(i); for (var j of [1]) $p(j); for (var k = ('a' in {a: 1}) ? 1 : 0; k < 2; k++) $p(k); for (var m = 0, n = (1, 2); m < 1; m++) $p(n);",
	"var async = [1, 2]; for (var x of async) $p(x); for ((async) of [[3]]) $p(async); var let1 = 1; var of = [4]; for (var q of of) $p(q);",
	"var a = {b: 1}; $p(a\n.b, a[\n'b'], a?.\nb); var f = () => 2; $p(f\n()); var g = 1\n;[1, 2].forEach(x => $p(x)); var h = 2\n;(function () { $p(3) })(); var i = 1\n;`x`.length;",
	"var a = 1, b = 2; a\n++\nb; $p(a, b); a\n--\nb; $p(a, b); var c = a\n/b/1; $p(c); function r() { return\n1 } $p(r()); function t() { throw new\nError('x') } try { t() } catch (e) { $p(e.message) }",
	"$p(1 < 2 > 1, 1 << 2 >> 1 >>> 0, 1 + 2 - 3 * 4 / 5 % 6, 1 - (2 - 3), 1 - 2 - 3, 2 / (2 / 2), 2 * (3 % 2), (2 * 3) % 2, 2 ** (3 ** 2), 8 >> (2 >> 1), 1 & 3 ^ 2 | 4, 1 & (3 ^ 2) | 4, 1 == 1 != false, 1 < (2 < 3), 'a' in {a: 1} == true, ('a' in {a: 1}) == true);",
	"var a = 1; $p(a+++a, a---a, a+ +a, a+-a, a-+a, a- -a, +a+ +a, -a- -a, a++ +a, a-- -a, a + +(+a), !a + !!a, ~a + ~~a, typeof typeof a, void void a, !-a, -!a, +!a, ~-a, -~a);",
	"var a = 1; $p(a ? 1 : 2, a ? a ? 1 : 2 : 3, (a ? 1 : 2) ? 3 : 4, a || a && a, (a || a) && a, a && a || a, a && (a || a), !(a && a), !a && a, !(a, a), (a = 1, a), (a += 1) + 1, a += 1 + 1, a = a = 2);",
	"var a = [1, 2, 3], o = {a, b: 2, ['c' + 1]: 3, 'd e': 4, 5: 5, get g() { return 6 }, set g(v) {}, h() { return 7 }, async i() {}, *j() {}, async *k() {}, ...{l: 8}}; $p(o, [...a, ...'xy', , 4].length, o.h(), o.g, Object.keys(o));",
	"var {a, b: {c = 2} = {}, ...d} = {a: 1, e: 5}, [f, , g = 3, ...h] = [1, 2, undefined, 4, 5]; $p(a, c, d, f, g, h); [a, c] = [c, a]; ({a, c = 9} = {a: 7}); $p(a, c); (function ({x}, [y], z = x + y) { $p(x, y, z) })({x: 1}, [2]);",
	"var s = ''; for (var i = 0; i < 3; i++) { if (i == 1) continue; s += i } do s += 'd'; while (0); while (s.length < 5) s += 'w'; sw: switch (s.length) { case 5: s += 'five'; case 6: s += 'six'; break sw; default: s += 'z' } $p(s); if (s) if (!s) s = 1; else s = 2; $p(s);",
	"try { throw 1 } catch { $p('c') } finally { $p('f') } try { try { throw new Error('x') } finally { $p('inner') } } catch ({message}) { $p(message) } lab: { $p(1); break lab; $p(2) } { let x = 1; { let x = 2; $p(x) } $p(x) } ;;; if (1) ; else ; $p('end');",
	"function* g() { var x = yield 1; yield* [2, 3]; return x } var it = g(); $p(it.next().value, it.next('v').value, it.next().value, it.next().value); async function af() { await null; for await (var x of [1]) $p(x); return 2 } af().then(v => $p(v)); $p('sync');",
	"class A { static #p = 1; #q = 2; static s = A.#p + 1; static { A.t = 3 } constructor() { this.r = this.#q } static m() { return #q in new A } get [`c${1}`]() { return 4 } static async *gen() {} } class B extends A { constructor() { super(); this.u = super.constructor.name } } $p(A.s, A.t, new A().r, A.m(), new A().c1, new B().u, new B() instanceof A);",
	"var x = class Y { static n = Y.name }; var y = class extends (0, x) {}; var z = class extends (x ?? y) {}; $p(x.n, y.name, z.name, new z() instanceof x, (class {}).name, new (class { a = 1 })().a, typeof class {}, class {}.name);",
	"label: function ff() {} $p(typeof ff); if (1) function gg() {} $p(typeof gg); var yield_ = 1, await_ = 2; $p(yield_ + await_); var get = 1, set = 2, static_ = 3, of = 4, async = 5; $p({get, set, async, of}, get + set + async + of);",
	"$p(0.1 + 0.2, 1e21 + 1, 123456789012345680000, 0.000001, 1e-7, 1.7976931348623157e308, 5e-324, 4.9e-324, 2 ** 53, 2 ** 53 + 1, 9007199254740993, 0.1 * 3, 1 / 3, 100 / 3, 1e300 * 1e10, -1e300 * 1e10, 2 ** -1074, 2 ** 1023 * 2);",
	"$p(1000000000000, 1099511627776, 4503599627370496, 18446744073709552000, 0xFFFFFFFFFFFFF800, 18446744073709549568, 1e12 + 0.5, 2 ** 40 .toString().length, 0xe8d4a51000, 0xE8D4A51000 .toString(16), 1234567890123456789, 12345678901234567890);",
}

// programs that replay a recorded known finding (they fail on purpose and are
// therefore run last and in few variants, so that they cannot crowd other
// failures out of the failure list)
func replaysKnownFinding(src string) bool {
	for _, m := range []string{"use\\x20strict", "use\\u0020strict", "('use strict')", "'a' + 'b'; 'use strict'", "continue; function f"} {
		if strings.Contains(src, m) {
			return true
		}
	}
	return false
}

func glueNodeLiterals(r *Rng, st *Stats, n int) {
	type nc struct {
		src, out, desc string
	}
	var cases []nc
	add := func(src string, o api.TransformOptions, desc string) {
		res := api.Transform(src, o)
		out := ""
		if len(res.Errors) > 0 {
			out = "\x00ERR:" + res.Errors[0].Text
		} else {
			out = string(res.Code)
		}
		cases = append(cases, nc{src, out, desc})
	}
	// fixed must-pass corpus (identical for every seed): every hazard program
	// x {pretty, minify-whitespace} x {platform browser, node}; e.g. the
	// division-before-regexp program under minify-whitespace,platform=node
	// re-detects a revert of /repo fix c46361e ("1//1/.source.length")
	for pass := 0; pass < 2; pass++ {
		for _, src := range hazardPrograms {
			if replaysKnownFinding(src) != (pass == 1) {
				continue
			}
			for v := 0; v < 4; v++ {
				if pass == 1 && v >= 1 {
					break // a recorded known finding is replayed once
				}
				o := api.TransformOptions{Loader: api.LoaderJS, LogLevel: api.LogLevelSilent, MinifyWhitespace: v%2 == 1}
				desc := fmt.Sprint("corpus,minify-whitespace=", v%2 == 1)
				if v >= 2 {
					o.Platform = api.PlatformNode
					desc += ",platform=node"
				}
				add(src, o, desc)
			}
		}
	}
	// repaired finding E (fix 5c26a33): a directive must not be wrapped by --line-limit (must pass)
	for _, ll := range []int{1, 5, 9} {
		for _, mw := range []bool{false, true} {
			o := api.TransformOptions{Loader: api.LoaderJS, LogLevel: api.LogLevelSilent, LineLimit: ll, MinifyWhitespace: mw}
			add("function f() { \"use strict\"; return this === undefined } $p(f());", o, fmt.Sprint("corpus,line-limit=", ll, ",minify-whitespace=", mw))
			add("\"use strict\"; $p((function () { return this })() === undefined);", o, fmt.Sprint("corpus,line-limit=", ll, ",minify-whitespace=", mw))
		}
	}
	// seeded option variation
	for k := 0; k < len(hazardPrograms) && k < n; k++ {
		src := hazardPrograms[k]
		g := randGlueOpts(r)
		if replaysKnownFinding(src) {
			continue
		}
		g.o.Supported = nil // feature overrides lower syntax: outside this property (literal stream only)
		if i := strings.Index(g.desc, "supported:"); i >= 0 {
			g.desc = strings.TrimSuffix(g.desc[:i], ",")
		}
		// the property excludes strict/sloppy differences when the format changes
		if r.Chance(30) && !strings.Contains(src, "strict") {
			g.o.Format = []api.Format{api.FormatIIFE, api.FormatCommonJS, api.FormatESModule}[r.Intn(3)]
			g.desc += fmt.Sprint(",format=", g.o.Format)
		}
		add(src, g.o, g.desc)
	}
	var progs []string
	for _, c := range cases {
		progs = append(progs, c.src, c.out)
	}
	results, err := RunNodeScripts(progs, 2000)
	if err != nil {
		st.Fail("node-oracle-unavailable", err.Error(), nil, nil)
		return
	}
	for i, c := range cases {
		a, b := results[2*i], results[2*i+1]
		if a.Err() == "SyntaxError" && len(a.Log) == 0 {
			st.Histogram["hazard-program-invalid:"+c.src[:20]]++
			continue
		}
		if oracleNoise(a) || oracleNoise(b) {
			st.Histogram["oracle-noise"]++
			continue
		}
		st.Note("hazard", c.src+c.desc, true)
		input := map[string]string{"program": c.src, "options": c.desc, "output": c.out}
		if strings.Contains(c.src, "continue; function f") && hoistsBlockFunction(c.out) {
			input["scenario"] = "annexb-block-function-var-assigned-at-block-entry"
		}
		if strings.HasPrefix(c.out, "\x00ERR:") {
			st.Fail("valid-program-rejected", input, c.out[1:], "accepted")
			continue
		}
		if !a.Same(b) && stillDiffers(c.src, c.out) {
			st.Fail("behaviour-differs", input, b.String(), a.String())
		}
	}
}

// ---------------------------------------------------------------------------
// JSX

const jsxPrelude = `
function norm(c) { return Array.isArray(c) ? c.map(norm) : c }
function h(type, props, ...children) {
  var p = {}; for (var k in (props || {})) p[k] = props[k];
  return {type: typeof type === 'function' ? 'fn:' + type.name : type === Frag ? 'Frag' : type, props: p, children: children};
}
var Frag = {frag: true};
function show(e, d) {
  if (e === null || typeof e !== 'object' || !('type' in e)) return $fmt(e);
  var ks = Object.keys(e.props).sort().map(k => k + '=' + show(e.props[k]));
  return '<' + e.type + ' ' + ks.join(' ') + '>' + e.children.flat(9).map(c => show(c)).join('|') + '</>';
}
function Comp() {}
var ns = {Comp: Comp, a: {b: Comp}};
var v1 = 'V1', v2 = {p: 1, q: 'two'}, v3 = [1, 2];
`

// automatic runtime shim: normalise jsx(type, {children, ...props}, key) to h
const jsxAutoShim = `
var __rt = {
  Fragment: Frag,
  jsx: function (type, props, key) { var p = {}, ch = []; for (var k in props) { if (k === 'children') ch = [props[k]]; else p[k] = props[k] } if (key !== undefined) p.key = key; return h(type, p, ...ch) },
  jsxs: function (type, props, key) { var p = {}, ch = []; for (var k in props) { if (k === 'children') ch = props[k]; else p[k] = props[k] } if (key !== undefined) p.key = key; return h(type, p, ...ch) },
};
function require(n) { if (n === 'react/jsx-runtime') return __rt; throw new Error('unexpected require ' + n) }
`


var jsxTexts = []string{"hello", " ", "  a  b  ", "\n  line\n  two\n", "&amp;", "&lt;&gt;", "&quot;", "&nbsp;", "&#65;", "&#x1F600;", "&copy;", "&unknown;", "é", "😀", "'", "\"", "it's", "a&b", "& ", "x=y", "//c", "/*c*/", "\t", "\n", " \n ", "a\n\nb", " ", " ", "trailing  ", "  leading", "&amp;amp;", "&#0;x", "\\n", "\\", "`", "$", "${x}"}
var jsxAttrStrings = []string{`"s"`, `'s'`, `"a&amp;b"`, `"&quot;"`, `'&apos;'`, `"it's"`, `'say "x"'`, `"é😀"`, `"a\nb"`, `"line1
line2"`, `"&lt;tag&gt;"`, `"  sp  "`, `""`, `"\\"`, `"&#x41;&#66;"`, `"&nbsp;"`, `"a b"`, `'\''`, `"</script>"`}
var jsxExprs = []string{"v1", "v2.q", "1 + 2", "'s'", "\"d\"", "`t${v1}`", "null", "undefined", "true", "v3", "[v1, 2]", "{a: 1}.a", "(1, 2)", "v1 ? 'y' : 'n'", "'<>&\"'", "'é'", "x => x", "-1", "1e21", "/re/.source"}

func genJSX(r *Rng, depth int) string {
	if r.Chance(12) && depth > 0 {
		return "<>" + genJSXChildren(r, depth-1) + "</>"
	}
	tag := []string{"div", "span", "Comp", "ns.Comp", "ns.a.b", "x-y", "a"}[r.Intn(7)]
	var sb strings.Builder
	sb.WriteString("<" + tag)
	names := []string{"a", "b", "data-x", "aria-label", "className", "c"}
	if r.Chance(15) {
		sb.WriteString(" key=" + []string{`"k"`, "{v1}"}[r.Intn(2)])
	}
	for k := r.Intn(4); k > 0; k-- {
		switch r.Intn(6) {
		case 0:
			sb.WriteString(" " + r.Pick(names))
		case 1:
			sb.WriteString(" {...v2}")
		case 2, 3:
			sb.WriteString(" " + r.Pick(names) + "=" + r.Pick(jsxAttrStrings))
		case 4:
			sb.WriteString(" " + r.Pick(names) + "={" + r.Pick(jsxExprs) + "}")
		default:
			if depth > 0 {
				sb.WriteString(" " + r.Pick(names) + "=" + genJSX(r, depth-1))
			} else {
				sb.WriteString(" " + r.Pick(names) + "={" + r.Pick(jsxExprs) + "}")
			}
		}
	}
	if r.Chance(25) || depth == 0 && r.Chance(40) {
		if r.Bool() {
			sb.WriteString(" ")
		}
		sb.WriteString("/>")
		return sb.String()
	}
	sb.WriteString(">")
	sb.WriteString(genJSXChildren(r, depth-1))
	sb.WriteString("</" + tag + ">")
	return sb.String()
}

func genJSXChildren(r *Rng, depth int) string {
	var sb strings.Builder
	for k := r.Intn(5); k > 0; k-- {
		switch r.Intn(7) {
		case 0, 1, 2:
			sb.WriteString(r.Pick(jsxTexts))
		case 3:
			sb.WriteString("{" + r.Pick(jsxExprs) + "}")
		case 4:
			sb.WriteString([]string{"{/* c */}", "{}", "{ }", "{\n// c\n}"}[r.Intn(4)])
		default:
			if depth >= 0 {
				sb.WriteString(genJSX(r, depth))
			} else {
				sb.WriteString(r.Pick(jsxTexts))
			}
		}
	}
	return sb.String()
}

func glueJSX(r *Rng, st *Stats, n int) {
	type jc struct{ src, a, b, c, p, desc string }
	var cases []jc
	base := api.TransformOptions{Loader: api.LoaderJSX, LogLevel: api.LogLevelSilent}
	for k := 0; k < n; k++ {
		src := ""
		for j := r.Range(1, 3); j > 0; j-- {
			src += "$p(show(" + genJSX(r, r.Range(0, 2)) + "));\n"
		}
		g := randGlueOpts(r)
		oa := base
		oa.JSX, oa.JSXFactory, oa.JSXFragment = api.JSXTransform, "h", "Frag"
		op := g.o
		op.Supported = nil
		op.Loader = api.LoaderJSX
		op.JSX = api.JSXPreserve
		oc := base
		oc.JSX, oc.Format = api.JSXAutomatic, api.FormatCommonJS
		oc.MinifyWhitespace, oc.Charset, oc.LineLimit = g.o.MinifyWhitespace, g.o.Charset, g.o.LineLimit
		c := jc{src: src, desc: g.desc}
		get := func(s string, o api.TransformOptions) string {
			res := api.Transform(s, o)
			if len(res.Errors) > 0 {
				return "\x00ERR:" + res.Errors[0].Text
			}
			return string(res.Code)
		}
		c.a = get(src, oa)
		c.p = get(src, op)
		if !strings.HasPrefix(c.p, "\x00") {
			c.b = get(c.p, oa)
		} else {
			c.b = c.p
		}
		c.c = get(src, oc)
		cases = append(cases, c)
	}
	var progs []string
	for _, c := range cases {
		progs = append(progs, jsxPrelude+c.a, jsxPrelude+c.b, jsxPrelude+jsxAutoShim+c.c)
	}
	results, err := RunNodeScripts(progs, 2000)
	if err != nil {
		st.Fail("node-oracle-unavailable", err.Error(), nil, nil)
		return
	}
	for i, c := range cases {
		a, b, cc := results[3*i], results[3*i+1], results[3*i+2]
		if strings.HasPrefix(c.a, "\x00") {
			st.Histogram["jsx-generator-invalid"]++
			continue
		}
		if oracleNoise(a) || oracleNoise(b) || oracleNoise(cc) {
			st.Histogram["oracle-noise"]++
			continue
		}
		if a.Err() != "" {
			st.Histogram["jsx-reference-throws:"+a.Err()]++
		}
		st.Note("jsx", c.src+c.desc, len(a.Log) > 0)
		input := map[string]string{"program": c.src, "options": "jsx=preserve," + c.desc, "preserved_output": c.p}
		if strings.HasPrefix(c.b, "\x00") {
			st.Fail("jsx-preserve-output-rejected", input, c.b[1:], "re-parses")
		} else if !a.Same(b) && stillDiffers(jsxPrelude+c.a, jsxPrelude+c.b) {
			st.Fail("jsx-preserve-behaviour-differs", input, b.String(), a.String())
		}
		if strings.HasPrefix(c.c, "\x00") {
			st.Histogram["jsx-automatic-rejected"]++
		} else if !a.Same(cc) && stillDiffers(jsxPrelude+c.a, jsxPrelude+jsxAutoShim+c.c) {
			st.Fail("jsx-automatic-behaviour-differs", map[string]string{"program": c.src, "options": "jsx=automatic,format=cjs," + c.desc, "output": c.c}, cc.String(), a.String())
		}
		if i < 2 {
			st.Sample(map[string]string{"program": c.src, "options": c.desc})
		}
	}
}

// ---------------------------------------------------------------------------
// Annex B.3.3 block-level functions (hlib/jsgen_c01.go): the output must
// behave like the input; the one recorded deviation is recognised EXACTLY:
//   F  the output behaves like the input with the declaration moved to the
//      start of its block, and something before the declaration position can
//      observe that (Early).
// (G: hoisting over a parameter name, and H: let in an unentered switch clause,
// were repaired in /repo by 3a544ef and 551782c: those shapes must now pass.)
func glueAnnexB(r *Rng, st *Stats, n int) {
	var cs []AnnexBCase
	var outs, outsH []string
	var progs []string
	opt := func() api.TransformOptions {
		o := api.TransformOptions{Loader: api.LoaderJS, LogLevel: api.LogLevelSilent, MinifyWhitespace: r.Chance(40)}
		if r.Chance(20) {
			o.Target = api.ESNext
		}
		return o
	}
	tr := func(src string, o api.TransformOptions) string {
		res := api.Transform(src, o)
		if len(res.Errors) > 0 {
			return "\x00ERR:" + res.Errors[0].Text
		}
		return string(res.Code)
	}
	for k := 0; k < n; k++ {
		c := GenAnnexB(r)
		o := opt()
		cs = append(cs, c)
		outs = append(outs, tr(c.Src, o))
		outsH = append(outsH, tr(c.Hoisted, o))
		ren, renH := c.Renamed, c.RenamedHoisted
		if !c.Param {
			ren, renH = "$p(0)", "$p(0)"
		}
		progs = append(progs, c.Src, c.Hoisted, outs[k], outsH[k], ren, renH)
	}
	results, err := RunNodeScripts(progs, 2000)
	if err != nil {
		st.Fail("node-oracle-unavailable", err.Error(), nil, nil)
		return
	}
	reported := map[string]int{}
	for k, c := range cs {
		nat, natH, out, outH := results[6*k], results[6*k+1], results[6*k+2], results[6*k+3]
		noisy := false
		for _, x := range results[6*k : 6*k+6] {
			noisy = noisy || oracleNoise(x)
		}
		if noisy {
			st.Histogram["oracle-noise"]++
			continue
		}
		if nat.Err() == "SyntaxError" && len(nat.Log) == 0 {
			st.Histogram["annexb-generator-invalid"]++
			continue
		}
		st.Note("annexb:"+c.Shape, c.Src, c.Early || c.Param)
		input := map[string]string{"program": c.Src, "output": outs[k], "shape": c.Shape}
		if strings.HasPrefix(outs[k], "\x00") {
			st.Fail("valid-program-rejected", input, outs[k][1:], "accepted")
			continue
		}
		if !c.Param && !c.Early && !natH.Same(outH) && stillDiffers(c.Hoisted, outsH[k]) {
			st.Fail("behaviour-differs", map[string]string{"program": c.Hoisted, "output": outsH[k], "shape": c.Shape + ":declaration-first"}, outH.String(), natH.String())
		}
		if nat.Same(out) {
			continue
		}
		scenario := ""
		switch {
		case !c.Param && c.Early && natH.Same(out):
			scenario = "annexb-block-function-var-assigned-at-block-entry"
		}
		if scenario != "" {
			st.Histogram["known-shape:"+scenario]++
			reported[scenario]++
			if reported[scenario] > 1 {
				continue // the same recorded deviation: one instance per run is enough
			}
			input["scenario"] = scenario
		}
		if stillDiffers(c.Src, outs[k]) {
			st.Fail("behaviour-differs", input, out.String(), nat.String())
		}
	}
}

// ---------------------------------------------------------------------------
// newline-sensitive programs (hlib/jsgen_c01.go GenASI)
func glueASI(r *Rng, st *Stats, n int) {
	var cs []ASICase
	var outs []string
	var progs []string
	for k := 0; k < n; k++ {
		c := GenASI(r)
		o := api.TransformOptions{Loader: api.LoaderJS, LogLevel: api.LogLevelSilent, MinifyWhitespace: r.Chance(50)}
		res := api.Transform(c.Src, o)
		out := ""
		if len(res.Errors) > 0 {
			out = "\x00ERR:" + res.Errors[0].Text
		} else {
			out = string(res.Code)
		}
		cs = append(cs, c)
		outs = append(outs, out)
		progs = append(progs, c.Src, out)
	}
	results, err := RunNodeScripts(progs, 2000)
	if err != nil {
		st.Fail("node-oracle-unavailable", err.Error(), nil, nil)
		return
	}
	for k, c := range cs {
		a, b := results[2*k], results[2*k+1]
		if oracleNoise(a) || oracleNoise(b) {
			st.Histogram["oracle-noise"]++
			continue
		}
		if a.Err() == "SyntaxError" && len(a.Log) == 0 {
			st.Histogram["asi-invalid-combination"]++
			continue
		}
		st.Note("asi:"+c.Shape, c.Src, true)
		input := map[string]string{"program": c.Src, "output": outs[k], "shape": c.Shape}
		if strings.HasPrefix(outs[k], "\x00") {
			st.Fail("valid-program-rejected", input, outs[k][1:], "accepted")
			continue
		}
		if a.Same(b) {
			continue
		}
		if stillDiffers(c.Src, outs[k]) {
			st.Fail("behaviour-differs", input, b.String(), a.String())
		}
	}
}

// ---------------------------------------------------------------------------
// short-circuit / nullish operator compositions (hlib/jsgen_c01.go GenLogical)
func glueLogical(r *Rng, st *Stats, n int) {
	type lc struct{ src, out, desc string }
	var cs []lc
	var progs []string
	for k := 0; k < n; k++ {
		src := GenLogical(r)
		g := randGlueOpts(r)
		g.o.Supported = nil
		if i := strings.Index(g.desc, "supported:"); i >= 0 {
			g.desc = strings.TrimSuffix(g.desc[:i], ",")
		}
		res := api.Transform(src, g.o)
		out := ""
		if len(res.Errors) > 0 {
			out = "\x00ERR:" + res.Errors[0].Text
		} else {
			out = string(res.Code)
		}
		cs = append(cs, lc{src, out, g.desc})
		progs = append(progs, src, out)
	}
	results, err := RunNodeScripts(progs, 3000)
	if err != nil {
		st.Fail("node-oracle-unavailable", err.Error(), nil, nil)
		return
	}
	for k, c := range cs {
		a, b := results[2*k], results[2*k+1]
		if oracleNoise(a) || oracleNoise(b) {
			st.Histogram["oracle-noise"]++
			continue
		}
		if a.Err() == "SyntaxError" && len(a.Log) == 0 {
			st.Histogram["logical-generator-invalid"]++
			continue
		}
		st.Note("logical", c.src, len(a.Log) > 40)
		input := map[string]string{"program": c.src, "options": c.desc, "output": c.out}
		if strings.HasPrefix(c.out, "\x00") {
			st.Fail("valid-program-rejected", input, c.out[1:], "accepted")
			continue
		}
		if !a.Same(b) && stillDiffers(c.src, c.out) {
			st.Fail("behaviour-differs", input, b.String(), a.String())
		}
		if k < 1 {
			st.Sample(map[string]string{"program": c.src, "options": c.desc})
		}
	}
}
