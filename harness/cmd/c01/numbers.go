package main

// Number literal printing: correspondence cases for C01/Num.v through the
// hook (printNonNegativeFloat on a bare printer) for every float64
// bit-pattern class, with the property's predicate (the printed literal,
// read as an ECMA-262 NumericLiteral and rounded to nearest-even, is the
// same float64) evaluated on the real output.

import (
	"fmt"
	"math"
	"strconv"

	"github.com/evanw/esbuild/internal/js_ast"
	"github.com/evanw/esbuild/internal/js_printer"
	. "github.com/evanw/esbuild/verifharness/hlib"
)

func floatGrid() []float64 {
	g := []float64{0, 1, 2, 9, 10, 11, 99, 100, 101, 999, 999.5, 1000, 1001, 1024, 1200, 1230, 9999, 10000, 12000, 100000, 123000, 1e6, 1.5e6, 1e7, 12345678, 1e9, 1e10, 1e11,
		999999999999, 1e12, 1e12 + 1, 1000000000001, 1099511627776, 1234567890123, 1e13, 1e14, 1e15, 4503599627370496, 9007199254740991, 9007199254740992, 9007199254740994,
		1e16, 1e17, 123456789012345680, 1e18, 1152921504606846976, 9223372036854775808, 18446744073709549568, 18446744073709551616, 1.8446744073709556e19, 1e19, 1e20, 123456789012345680000,
		999999999999999900000, 1e21, 1.0000000000000001e21, 1e22, 1.5e22, 1e23, 1e100, 1.5e100, 1e300, 1.7976931348623157e308,
		0.5, 0.25, 0.1, 0.2, 0.3, 0.01, 0.05, 0.001, 0.0015, 0.00123, 0.0001, 0.00012, 0.00001, 0.000012, 1e-6, 1.5e-6, 1e-7, 1.2e-7, 1.25e-7, 1e-10, 1e-100, 5e-324, 1e-323, 2.2250738585072014e-308, 2.225073858507201e-308,
		1.5, 1.25, 12.5, 123.456, 1234.5, 12345.678, 0.1 + 0.2, 1.1, 100.5, 1e21 / 3, 2.5e-5, 1.0e-5, 120, 1230000, 10.5e5, 1.2e4, 1.2e5, 1.23e5, 1.234e10, 3.14159e25, 7e22, 5e-5, 10e-7}
	for k := 0; k <= 64; k++ {
		p := math.Ldexp(1, k)
		g = append(g, p, math.Nextafter(p, 0), math.Nextafter(p, math.Inf(1)))
	}
	for k := 1; k <= 22; k++ {
		p := math.Pow(10, float64(k))
		g = append(g, p, math.Nextafter(p, 0), math.Nextafter(p, math.Inf(1)), p*3, p*12, p*123)
	}
	return g
}

func randFloat(r *Rng) (float64, string) {
	switch r.Intn(10) {
	case 0: // raw bit patterns (finite, positive)
		for {
			b := r.U64() &^ (1 << 63)
			f := math.Float64frombits(b)
			if !math.IsNaN(f) && !math.IsInf(f, 0) {
				return f, "bits"
			}
		}
	case 1: // subnormals
		return math.Float64frombits(r.U64() & (1<<52 - 1)), "subnormal"
	case 2: // integers below 2^53
		return float64(r.U64() % (1 << uint(r.Range(1, 53)))), "int53"
	case 3: // hex-path range 1e12 .. 2^64
		v := r.U64()
		if r.Bool() {
			v >>= uint(r.Intn(24))
		}
		if r.Chance(40) { // few significant bits: short hex, long decimal
			v = v &^ (1<<uint(r.Range(20, 60)) - 1)
		}
		return float64(v), "hexrange"
	case 4: // decimal with few digits and an exponent
		m := float64(r.Range(1, 9999))
		e := r.Range(-30, 30)
		f, _ := strconv.ParseFloat(fmt.Sprintf("%ge%d", m, e), 64)
		return f, "decimal"
	case 5: // small fractions
		f, _ := strconv.ParseFloat(fmt.Sprintf("0.%0*d", r.Range(1, 9), r.Range(1, 999)), 64)
		return f, "fraction"
	case 6: // round numbers with trailing zeros
		return float64(r.Range(1, 999)) * math.Pow(10, float64(r.Range(0, 21))), "round"
	case 7: // near 1e21 and near 1000
		if r.Bool() {
			return math.Float64frombits(math.Float64bits(1e21) + uint64(r.Intn(9)) - 4), "near1e21"
		}
		return float64(r.Range(990, 1010)) + []float64{0, 0, 0.5, 0.25}[r.Intn(4)], "near1000"
	case 8: // 17 significant digits stress
		f, _ := strconv.ParseFloat(fmt.Sprintf("%d.%016d", r.Range(1, 9), r.U64()%1e16), 64)
		return f * math.Pow(10, float64(r.Range(-20, 20))), "digits17"
	default:
		return float64(r.Range(0, 2000)), "smallint"
	}
}

// the property's predicate on a printed non-negative number
func numberPredicate(f float64, out []byte) (string, string) {
	v, ok := jsNumericValue(out)
	if !ok {
		return "printed-number-literal-invalid", string(out)
	}
	if got := ratToFloat(v); got != f {
		return "printed-number-literal-value-differs", strconv.FormatFloat(got, 'g', -1, 64)
	}
	return "", ""
}

func corrNumbers(r *Rng, st *Stats, cf *CoqFile, n int) string {
	var items, pn []string
	grid := floatGrid()
	for k := 0; k < n; k++ {
		var f float64
		kind := "grid"
		if k < len(grid) && k < (n*2)/3 {
			f = grid[k]
		} else {
			f, kind = randFloat(r)
		}
		mw := r.Bool()
		if k < len(grid) {
			mw = k%2 == 0 || r.Bool()
		}
		opts := js_printer.Options{MinifyWhitespace: mw}
		out, flag := js_printer.VerifPrintNonNegativeFloat(opts, nil, f)
		s := strconv.FormatFloat(f, 'g', -1, 64)
		st.Note("number:"+kind, fmt.Sprint(math.Float64bits(f), mw), string(out) != s)
		items = append(items, fmt.Sprintf("(%s, %d, %s, %s, %s)", CBool(mw), math.Float64bits(f), CBytes([]byte(s)), CBytes(out), CBool(flag)))
		if what, got := numberPredicate(f, out); what != "" {
			st.Fail(what, map[string]interface{}{"float64_bits": fmt.Sprintf("%#016x", math.Float64bits(f)), "value": s, "minify_whitespace": mw, "printed": string(out)}, got, s)
		}
		// the flag must be set iff "<out>.x" would lex the dot into the number
		bare := true
		for _, c := range out {
			if c < '0' || c > '9' {
				bare = false
			}
		}
		if bare != flag {
			st.Fail("need-space-before-dot-flag-wrong", map[string]interface{}{"float64_bits": fmt.Sprintf("%#016x", math.Float64bits(f)), "minify_whitespace": mw, "printed": string(out)}, flag, bare)
		}
		if k < 2 {
			st.Sample(map[string]interface{}{"value": s, "minify_whitespace": mw, "printed": string(out)})
		}
		// printNumber with sign / special values
		if k%4 == 0 {
			vals := []float64{f, -f, math.NaN(), math.Inf(1), math.Inf(-1), math.Copysign(0, -1)}
			v := vals[r.Intn(len(vals))]
			level := js_ast.L(r.Intn(int(js_ast.LMember) + 1))
			with := r.Intn(2)
			ms := r.Bool()
			o2 := js_printer.Options{MinifyWhitespace: mw, MinifySyntax: ms}
			prefix := [][]byte{nil, []byte("a"), []byte("-"), []byte("x="), []byte("+")}[r.Intn(5)]
			full, _ := js_printer.VerifPrintNumber(o2, prefix, v, level, with)
			o := full[len(prefix):]
			st.Note("printNumber", fmt.Sprint(math.Float64bits(v), mw, ms, level, with, string(prefix)), true)
			pn = append(pn, fmt.Sprintf("(%s, %s, %d, %d, %s, %s, %s, %s)", CBool(mw), CBool(ms), level, with, CBytes(prefix), fmt.Sprint(math.Float64bits(v)), CBytes([]byte(strconv.FormatFloat(math.Abs(v), 'g', -1, 64))), CBytes(o)))
		}
	}
	cf.AddCases("number", "bool * Z * bytes * bytes * bool", "check_number", items)
	cf.AddCases("printnumber", "bool * bool * Z * Z * bytes * Z * bytes * bytes", "check_printnumber", pn)
	return "Definition R_number_spec := Eval vm_compute in (check_number_spec number).\nPrint R_number_spec.\n"
}
