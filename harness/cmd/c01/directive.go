package main

// Directive prologue: bodies built from the statement kinds of C01/Directive.v;
// node decides whether the input body and the body printed by api.Transform
// are strict; the Coq model must predict both (this ties the model of the
// known findings A / A2 / B / C to the real pipeline end to end).

import (
	"fmt"
	"strings"

	"github.com/evanw/esbuild/pkg/api"
	. "github.com/evanw/esbuild/verifharness/hlib"
)

var dirTexts = []string{"'use strict'", "\"use strict\"", "'use\\x20strict'", "'use\\u0020strict'", "'x'", "\"use strict \"", "\"use\\x73trict\"", "'use \\\nstrict'", "\"USE STRICT\"", "'use strict'"}

func corrDirective(r *Rng, st *Stats, cf *CoqFile, n int) {
	type dc struct {
		coq      string
		src, out string
	}
	var cs []dc
	var progs []string
	for k := 0; k < n; k++ {
		var body, coq []string
		for j := r.Range(1, 3); j > 0; j-- {
			switch r.Intn(6) {
			case 0:
				body = append(body, "'a' + 'b';")
				coq = append(coq, "SrcPure")
			case 1:
				body = append(body, "$p;")
				coq = append(coq, "SrcOther")
			default:
				t := dirTexts[r.Intn(len(dirTexts))]
				paren := r.Chance(25)
				if paren {
					body = append(body, "("+t+");")
				} else {
					body = append(body, t+";")
				}
				rs := []rune(t)
				z := make([]int64, len(rs))
				for i, x := range rs {
					z[i] = int64(x)
				}
				coq = append(coq, fmt.Sprintf("SrcString %s %s", CZList(z), CBool(paren)))
			}
		}
		src := "function f() { " + strings.Join(body, " ") + " return this === undefined }\n$p(f());"
		res := api.Transform(src, api.TransformOptions{Loader: api.LoaderJS, LogLevel: api.LogLevelSilent})
		if len(res.Errors) > 0 {
			st.Fail("valid-program-rejected", map[string]string{"program": src}, res.Errors[0].Text, "accepted")
			continue
		}
		cs = append(cs, dc{"[" + strings.Join(coq, "; ") + "]", src, string(res.Code)})
		progs = append(progs, src, string(res.Code))
	}
	results, err := RunNodeScripts(progs, 2000)
	if err != nil {
		st.Fail("node-oracle-unavailable", err.Error(), nil, nil)
		return
	}
	var items []string
	for k, c := range cs {
		a, b := results[2*k], results[2*k+1]
		if oracleNoise(a) || oracleNoise(b) || len(a.Log) != 1 || len(b.Log) != 1 {
			st.Histogram["directive-skipped"]++
			continue
		}
		st.Note("directive", c.src, a.Log[0] != b.Log[0])
		items = append(items, fmt.Sprintf("(%s, %s, %s)", c.coq, CBool(a.Log[0] == "true"), CBool(b.Log[0] == "true")))
	}
	cf.AddCases("directive", "list sstmt * bool * bool", "check_directive", items)
}
