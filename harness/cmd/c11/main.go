package main

// C11: module resolution agrees with Node.
//  1. algorithm level: generated "exports"/"imports" maps x subpaths x condition
//     sets; the real esbuild functions (hook internal/resolver/export_verif.go)
//     and the real Node 20 functions (node --expose-internals:
//     packageExportsResolve / packageImportsResolve) are both observed; the Coq
//     model is compared with esbuild, the Coq specification with Node, and the
//     property's predicate (Node resolves => same path; Node rejects => refused)
//     is evaluated between the two real implementations.
//  2. glue stream: materialised package trees (nested/hoisted node_modules,
//     scoped packages, self references, main/index/extension probing, symlinked
//     packages, "#" imports) resolved through api.Build (PluginBuild.Resolve and
//     metafile import paths, platform=node) and by Node's require.resolve /
//     import.meta.resolve.
//  3. witness replay: the inputs of the *_refuted theorems, full stack, on the
//     real esbuild and the real Node (reported as failures of the named class;
//     they are listed in known_findings.d/C11.json).

import (
	"encoding/json"
	"fmt"
	"os"
	"os/exec"
	"path/filepath"
	"regexp"
	"sort"
	"strings"

	"github.com/evanw/esbuild/internal/resolver"
	"github.com/evanw/esbuild/pkg/api"
	. "github.com/evanw/esbuild/verifharness/hlib"
)

func main() { Main("c11", runC11) }

// ---------------------------------------------------------------- JSON values

const (
	kNull = iota
	kStr
	kArr
	kObj
	kNum
	kBool
)

type jv struct {
	kind int
	s    string
	arr  []*jv
	keys []string
	vals []*jv
}

func jstr(s string) *jv { return &jv{kind: kStr, s: s} }
func jnull() *jv        { return &jv{kind: kNull} }
func jobj(kv ...interface{}) *jv {
	o := &jv{kind: kObj}
	for i := 0; i+1 < len(kv); i += 2 {
		o.keys = append(o.keys, kv[i].(string))
		switch v := kv[i+1].(type) {
		case string:
			o.vals = append(o.vals, jstr(v))
		case *jv:
			o.vals = append(o.vals, v)
		}
	}
	return o
}
func jarr(vs ...*jv) *jv { return &jv{kind: kArr, arr: vs} }

func qs(s string) string { b, _ := json.Marshal(s); return string(b) }

func (j *jv) text() string {
	switch j.kind {
	case kNull:
		return "null"
	case kStr:
		return qs(j.s)
	case kArr:
		p := make([]string, len(j.arr))
		for i, v := range j.arr {
			p[i] = v.text()
		}
		return "[" + strings.Join(p, ",") + "]"
	case kObj:
		p := make([]string, len(j.keys))
		for i := range j.keys {
			p[i] = qs(j.keys[i]) + ":" + j.vals[i].text()
		}
		return "{" + strings.Join(p, ",") + "}"
	case kNum:
		return "42"
	default:
		return "true"
	}
}

// Coq string literal (ASCII only; the generators emit printable ASCII)
func cstr(s string) string { return "\"" + strings.ReplaceAll(s, "\"", "\"\"") + "\"" }
func cstrs(l []string) string {
	p := make([]string, len(l))
	for i, s := range l {
		p[i] = cstr(s)
	}
	return "[" + strings.Join(p, ";") + "]"
}

func (j *jv) coq() string {
	switch j.kind {
	case kNull:
		return "CNull"
	case kStr:
		return "(CStr " + cstr(j.s) + ")"
	case kArr:
		p := make([]string, len(j.arr))
		for i, v := range j.arr {
			p[i] = v.coq()
		}
		return "(CArr [" + strings.Join(p, ";") + "])"
	case kObj:
		p := make([]string, len(j.keys))
		for i := range j.keys {
			p[i] = "(" + cstr(j.keys[i]) + "," + j.vals[i].coq() + ")"
		}
		return "(CObj [" + strings.Join(p, ";") + "])"
	default:
		return "CBad"
	}
}

func (j *jv) walk(f func(*jv)) {
	f(j)
	for _, v := range j.arr {
		v.walk(f)
	}
	for _, v := range j.vals {
		v.walk(f)
	}
}

// parse JSON text into a jv, keeping property order and duplicated keys
func parseJV(text string) (*jv, bool) {
	dec := json.NewDecoder(strings.NewReader(text))
	v, err := parseJVValue(dec)
	return v, err == nil
}

func parseJVValue(dec *json.Decoder) (*jv, error) {
	tok, err := dec.Token()
	if err != nil {
		return nil, err
	}
	switch x := tok.(type) {
	case json.Delim:
		if x == '[' {
			a := &jv{kind: kArr}
			for dec.More() {
				v, err := parseJVValue(dec)
				if err != nil {
					return nil, err
				}
				a.arr = append(a.arr, v)
			}
			_, err := dec.Token()
			return a, err
		}
		o := &jv{kind: kObj}
		for dec.More() {
			kt, err := dec.Token()
			if err != nil {
				return nil, err
			}
			v, err := parseJVValue(dec)
			if err != nil {
				return nil, err
			}
			o.keys = append(o.keys, kt.(string))
			o.vals = append(o.vals, v)
		}
		_, err := dec.Token()
		return o, err
	case string:
		return jstr(x), nil
	case nil:
		return jnull(), nil
	case bool:
		return &jv{kind: kBool}, nil
	default:
		return &jv{kind: kNum}, nil
	}
}

// ---------------------------------------------------------------- generators

var segs = []string{"a", "b", "foo", "fo", "foobar", "bar", "x", "lib", "src", "index", "util", "feature"}
var exts = []string{".js", ".js", ".js", ".mjs", ".cjs", ".json", ""}
var condNames = []string{"import", "require", "node", "default", "import", "require", "node", "default", "browser", "development", "production", "types", "deno", "worker"}

// strings that exercise the segment / URL rules
var oddSegs = []string{"..", ".", "node_modules", "NODE_MODULES", "Node_Modules", "%2e%2e", "%2E", "%2e", "%6eode_modules", "", "a%2fb", "a%5Cb", "%41", "a b", "a\\b", "x?y", "x#y", "A", "...", "node_modules2", ".hidden", "%", "%zz"}

func genPath(r *Rng, withStar bool) string {
	n := r.Range(1, 3)
	parts := make([]string, n)
	for i := range parts {
		parts[i] = r.Pick(segs)
	}
	p := strings.Join(parts, "/")
	if withStar {
		switch r.Intn(5) {
		case 0:
			p = "*"
		case 1:
			p = p + "/*"
		case 2:
			p = p + "*"
		case 3:
			p = r.Pick(segs) + "/*/" + r.Pick(segs)
		case 4:
			p = p + "/*"
		}
	}
	return p
}

func genTargetString(r *Rng, pattern bool, isImports bool, odd int) string {
	if r.Chance(odd) {
		switch r.Intn(12) {
		case 0:
			return "lib/" + r.Pick(segs) + ".js" // bare: package target in imports, invalid in exports
		case 1:
			return "../" + r.Pick(segs) + ".js"
		case 2:
			return "/" + r.Pick(segs) + ".js"
		case 3:
			return "./lib/" + r.Pick(oddSegs) + "/" + r.Pick(segs) + ".js"
		case 4:
			return "./" + r.Pick(oddSegs) + "/" + r.Pick(segs) + ".js"
		case 5:
			return "./lib/" + r.Pick(segs) + "/"
		case 6:
			return "./" + r.Pick(segs) + "/" + r.Pick(oddSegs)
		case 7:
			return r.Pick([]string{"node:fs", "fs", "https://example.com/x.js", "dep-pkg", "dep-pkg/lib/a.js", "@scope/dep", "data:text/javascript,1"})
		case 8:
			return "./*"
		case 9:
			return "./lib/*/*.js"
		case 10:
			return "."
		default:
			return "./"
		}
	}
	if isImports && r.Chance(15) {
		t := r.Pick([]string{"dep-pkg", "dep-pkg/lib/a.js", "@scope/dep/x", "fs", "dep-pkg/*"})
		return t
	}
	t := "./" + genPath(r, false)
	if pattern && r.Chance(85) {
		switch r.Intn(4) {
		case 0:
			t = "./" + r.Pick(segs) + "/*"
		case 1:
			t = "./" + r.Pick(segs) + "/*" + r.Pick(exts)
		case 2:
			t = "./" + r.Pick(segs) + "/*/index.js"
		case 3:
			t = "./" + r.Pick(segs) + "/" + r.Pick(segs) + "*.js"
		}
		return t
	}
	return t + r.Pick(exts)
}

func genTarget(r *Rng, depth int, pattern, isImports bool, odd int) *jv {
	k := r.Intn(100)
	switch {
	case k < 55 || depth <= 0:
		return jstr(genTargetString(r, pattern, isImports, odd))
	case k < 78: // condition object
		o := &jv{kind: kObj}
		n := r.Range(1, 4)
		for i := 0; i < n; i++ {
			key := r.Pick(condNames)
			if r.Chance(odd / 3) {
				key = r.Pick([]string{"0", "1", "12", "01", "-1", "./x", "", "4294967294", "4294967295"})
			}
			if !r.Chance(odd/2) && contains(o.keys, key) {
				continue
			}
			o.keys = append(o.keys, key)
			o.vals = append(o.vals, genTarget(r, depth-1, pattern, isImports, odd))
		}
		return o
	case k < 90: // array
		a := &jv{kind: kArr}
		n := r.Range(0, 3)
		for i := 0; i < n; i++ {
			a.arr = append(a.arr, genTarget(r, depth-1, pattern, isImports, odd+25))
		}
		return a
	case k < 96:
		return jnull()
	case k < 98:
		return &jv{kind: kNum}
	default:
		return &jv{kind: kBool}
	}
}

func contains(l []string, s string) bool {
	for _, x := range l {
		if x == s {
			return true
		}
	}
	return false
}

// a subpath map (exports: keys "./..", imports: keys "#..")
func genMap(r *Rng, isImports bool, odd int) *jv {
	pre := "./"
	if isImports {
		pre = "#"
	}
	o := &jv{kind: kObj}
	n := r.Range(1, 6)
	if !isImports && r.Chance(60) {
		o.keys = append(o.keys, ".")
		o.vals = append(o.vals, genTarget(r, 2, false, false, odd))
	}
	for i := 0; i < n; i++ {
		star := r.Chance(50)
		key := pre + genPath(r, star)
		if star && r.Chance(30) {
			// same pattern base as an existing key, different trailer: PATTERN_KEY_COMPARE falls through to the key length
			for _, k := range o.keys {
				if strings.HasSuffix(k, "*") {
					key = k + r.Pick([]string{".js", "/index.js", "bar", ".json", "/x.js"})
					break
				}
				if i := strings.IndexByte(k, '*'); i >= 0 && r.Chance(50) {
					key = k[:i+1]
					break
				}
			}
		}
		if r.Chance(odd) {
			switch r.Intn(6) {
			case 0:
				key = pre + r.Pick(segs) + "/" // legacy folder mapping (out of the property's scope)
			case 1:
				key = pre + r.Pick(segs) + "*" + r.Pick(segs) + "*" // two stars
			case 2:
				key = r.Pick(segs) // no "./" prefix: mixes with "." keys
			case 3:
				if len(o.keys) > 0 {
					key = o.keys[r.Intn(len(o.keys))] // duplicate key
				}
			case 4:
				key = pre + r.Pick(segs) + "*" + r.Pick([]string{".js", "bar", "/x.js"})
			case 5:
				key = pre + r.Pick(oddSegs)
			}
		} else if contains(o.keys, key) {
			continue
		}
		o.keys = append(o.keys, key)
		o.vals = append(o.vals, genTarget(r, 2, strings.Contains(key, "*"), isImports, odd))
	}
	return o
}

func genExports(r *Rng, odd int) *jv {
	k := r.Intn(100)
	switch {
	case k < 8:
		return jstr(genTargetString(r, false, false, odd))
	case k < 20:
		return genTarget(r, 3, false, false, odd) // sugar: conditions / array / whatever
	case k < 23:
		return &jv{kind: kBool}
	default:
		return genMap(r, false, odd)
	}
}

// substitution for "*" when deriving a subpath from a pattern key
func genStarMatch(r *Rng, odd int) string {
	if r.Chance(odd) {
		switch r.Intn(6) {
		case 0:
			return ""
		case 1:
			return r.Pick(oddSegs)
		case 2:
			return r.Pick(segs) + "/" + r.Pick(oddSegs)
		case 3:
			return r.Pick(oddSegs) + "/" + r.Pick(segs)
		case 4:
			return r.Pick(segs) + "/" + r.Pick(oddSegs) + "/" + r.Pick(segs) + ".js"
		default:
			return r.Pick(segs) + "*"
		}
	}
	switch r.Intn(4) {
	case 0:
		return r.Pick(segs)
	case 1:
		return r.Pick(segs) + r.Pick(exts)
	case 2:
		return r.Pick(segs) + "/" + r.Pick(segs)
	default:
		return r.Pick(segs) + "/" + r.Pick(segs) + r.Pick(exts)
	}
}

func genSubpath(r *Rng, m *jv, isImports bool, odd int) string {
	return genSubpathWith(r, m, isImports, odd, nil)
}

func genSubpathWith(r *Rng, m *jv, isImports bool, odd int, subs []string) string {
	pre := "./"
	if isImports {
		pre = "#"
	}
	if m.kind == kObj && len(m.keys) > 0 && r.Chance(85) {
		key := m.keys[r.Intn(len(m.keys))]
		if !isImports && !strings.HasPrefix(key, ".") {
			return "."
		}
		if i := strings.IndexByte(key, '*'); i >= 0 {
			switch {
			case r.Chance(8):
				return key[:i] // pattern base itself
			case r.Chance(5):
				return key // the key with its star
			case r.Chance(6):
				if len(key) > i+1 {
					return key[:i] + key[i+1:] // empty match with trailer
				}
			}
			if key[i+1:] == "" && r.Chance(35) {
				for _, k2 := range m.keys {
					if strings.HasPrefix(k2, key) && len(k2) > len(key) {
						return key[:i] + r.Pick([]string{"a", "foo", "a/b", "x"}) + k2[len(key):]
					}
				}
			}
			if subs != nil && !r.Chance(odd+8) {
				return key[:i] + r.Pick(subs) + key[i+1:]
			}
			return key[:i] + genStarMatch(r, odd) + strings.Replace(key[i+1:], "*", genStarMatch(r, odd), -1)
		}
		if r.Chance(12) {
			return key + r.Pick([]string{"x", "/x", ".js", "/"})
		}
		if r.Chance(8) && len(key) > len(pre)+1 {
			return key[:len(key)-1]
		}
		return key
	}
	if !isImports && r.Chance(40) {
		return "."
	}
	return pre + genPath(r, false) + r.Pick(exts)
}

func genConds(r *Rng) []string {
	switch r.Intn(6) {
	case 0:
		return []string{"node", "import"}
	case 1:
		return []string{"node", "require"}
	case 2:
		return []string{}
	default:
		var c []string
		for _, n := range condNames {
			if n != "default" && r.Chance(35) {
				c = append(c, n)
			}
		}
		if c == nil {
			c = []string{}
		}
		return c
	}
}

// ---------------------------------------------------------------- scope classifier
// Mirrors the hypotheses of exports_resolve_eq_partial / imports_resolve_eq_partial
// (coq/C11/ResolveProofs.v [in_scope]).  A case with a non-empty tag list is in
// one of the documented exclusions or in a class refuted by a *_refuted theorem.

var nodeInvalidSeg = regexp.MustCompile(`(?i)(^|\\|/)((\.|%2e)(\.|%2e)?|(n|%6e|%4e)(o|%6f|%4f)(d|%64|%44)(e|%65|%45)(_|%5f)(m|%6d|%4d)(o|%6f|%4f)(d|%64|%44)(u|%75|%55)(l|%6c|%4c)(e|%65|%45)(s|%73|%53))(\\|/|$)`)

// findInvalidSubpathSegment of /repo after the fix e3ac7b5 (every segment, percent-decoded, case-insensitive)
func esbInvalidSubpathSeg(p string) bool {
	for _, s := range strings.FieldsFunc(p, func(c rune) bool { return c == '/' || c == '\\' }) {
		d := s
		if u, ok := pctDecode(s); ok {
			d = u
		}
		if d == "." || d == ".." || strings.EqualFold(d, "node_modules") {
			return true
		}
	}
	return false
}

// findInvalidSegment: the first segment is skipped
func esbInvalidSeg(p string) bool {
	i := strings.IndexAny(p, "/\\")
	if i < 0 {
		return false
	}
	return esbInvalidSubpathSeg(p[i+1:])
}

func urlPlain(s string) bool {
	for i := 0; i < len(s); i++ {
		c := s[i]
		if c < 33 || c > 126 || strings.IndexByte("\\?#\"<>`{}", c) >= 0 {
			return false
		}
	}
	return true
}

var arrayIndexRe = regexp.MustCompile(`^(0|[1-9][0-9]{0,9})$`)

func isArrayIndex(k string) bool {
	if !arrayIndexRe.MatchString(k) {
		return false
	}
	var v uint64
	fmt.Sscan(k, &v)
	return v < 4294967295
}

var schemeRe = regexp.MustCompile(`^[A-Za-z][A-Za-z0-9+.\-]*:`)

func classify(m *jv, sub string, isImports bool) []string {
	tags := map[string]bool{}
	top := true
	var visit func(j *jv)
	visit = func(j *jv) {
		isTop := top
		top = false
		switch j.kind {
		case kStr:
			t := j.s
			if strings.HasPrefix(t, "./") {
				if nodeInvalidSeg.MatchString(t[2:]) != esbInvalidSeg(t) {
					tags["segment-rules"] = true
				}
				if !urlPlain(t) || strings.Contains(t, "%") {
					tags["url-syntax"] = true
				}
				if strings.Contains(t[1:], "//") || strings.HasSuffix(t, "/") {
					tags["empty-segment"] = true
				}
			} else if isImports && schemeRe.MatchString(t) {
				tags["url-target"] = true
			}
		case kArr:
			for _, v := range j.arr {
				visit(v)
			}
		case kObj:
			seen := map[string]bool{}
			dot, nodot := false, false
			for i, k := range j.keys {
				if seen[k] {
					tags["dup-keys"] = true
				}
				seen[k] = true
				if isArrayIndex(k) {
					tags["index-keys"] = true
				}
				if strings.HasPrefix(k, ".") {
					dot = true
				} else {
					nodot = true
				}
				_ = i
			}
			_, _, _ = dot, nodot, isTop // mixed keys are no refuted shape any more (fixes 4e82ea6, 9a0cc2e)
			for _, v := range j.vals {
				visit(v)
			}
		}
	}
	visit(m)
	if strings.HasSuffix(sub, "/") {
		tags["slash"] = true
	}
	if !urlPlain(strings.TrimPrefix(sub, "#")) || strings.Contains(sub, "%") {
		tags["url-syntax"] = true
	}
	if isImports && (sub == "#" || strings.HasPrefix(sub, "#/")) {
		tags["hash-slash"] = true
	}
	if m.kind == kObj {
		for _, k := range m.keys {
			if strings.HasSuffix(k, "/") {
				tags["slash"] = true
			}
			if strings.Count(k, "*") >= 2 && strings.Contains(sub, "*") {
				tags["multi-star"] = true
			}
			if k == sub+"*" {
				tags["pattern-base"] = true
			}
			if i := strings.IndexByte(k, '*'); i >= 0 && strings.Count(k, "*") == 1 {
				base, trailer := k[:i], k[i+1:]
				if strings.HasPrefix(sub, base) && strings.HasSuffix(sub, trailer) && len(sub) >= len(k)-1 && len(sub) >= len(base)+len(trailer) {
					pm := sub[len(base) : len(sub)-len(trailer)]
					if nodeInvalidSeg.MatchString(pm) != esbInvalidSubpathSeg(pm) {
						tags["segment-rules"] = true
					}
				}
			}
		}
	}
	var out []string
	for t := range tags {
		out = append(out, t)
	}
	sort.Strings(out)
	return out
}

// ---------------------------------------------------------------- node

func runNode(dir string, script string, args ...string) ([]byte, error) {
	sp := filepath.Join(dir, "driver-"+fmt.Sprint(len(script))+filepath.Ext(args[0]))
	if err := os.WriteFile(sp, []byte(script), 0o644); err != nil {
		return nil, err
	}
	full := append([]string{"--no-warnings", "--expose-internals", "--experimental-import-meta-resolve", sp}, args[1:]...)
	cmd := exec.Command("node", full...)
	cmd.Dir = dir
	cmd.Env = append(os.Environ(), "NODE_PATH=", "NODE_OPTIONS=")
	return cmd.Output()
}

const nodeAlgScript = `
const fs=require('fs'),path=require('path'),{pathToFileURL}=require('url');
const R=require('internal/modules/esm/resolve');
const root=process.argv[3];
const cases=JSON.parse(fs.readFileSync(process.argv[2],'utf8'));
function cls(e){const c=e&&e.code,m=String(e&&e.message);
 if(c==='ERR_INVALID_MODULE_SPECIFIER')return m.includes('is not a valid package name')?{k:1}:{k:7};
 if(c==='ERR_INVALID_PACKAGE_CONFIG')return{k:8};
 if(c==='ERR_INVALID_PACKAGE_TARGET')return{k:9};
 if(c==='ERR_PACKAGE_PATH_NOT_EXPORTED')return{k:10};
 if(c==='ERR_PACKAGE_IMPORT_NOT_DEFINED')return{k:11};
 if(c==='ERR_MODULE_NOT_FOUND')return{k:1};
 return{k:-1,msg:c+': '+m};}
function rel(u,dir){const h=String(u),p=pathToFileURL(dir).href;
 if(h.startsWith('node:'))return{k:1};
 if(h.startsWith(p+'/'))return{k:0,u:h.slice(p.length)};
 return{k:-1,msg:'outside: '+h};}
const out=[];
cases.forEach((c,i)=>{let r;
 try{
  if(c.t==='exports'){const dir=path.join(root,'p');
   r=rel(R.packageExportsResolve(pathToFileURL(path.join(dir,'package.json')),c.sub,{exports:JSON.parse(c.json)},pathToFileURL(path.join(root,'base.js')).href,new Set(c.conds)),dir);}
  else if(c.t==='imports'){const dir=path.join(root,'i'+i);fs.mkdirSync(dir);
   fs.writeFileSync(path.join(dir,'package.json'),'{"name":"scope","imports":'+c.json+'}');
   r=rel(R.packageImportsResolve(c.sub,pathToFileURL(path.join(dir,'base.js')).href,new Set(c.conds)),dir);}
  else{ // package name
   try{R.defaultResolve(c.sub,{parentURL:pathToFileURL(path.join(root,'base.js')).href,conditions:['node','import']});r={k:-1,msg:'resolved'};}
   catch(e){const m=String(e.message);
    if(e.code==='ERR_MODULE_NOT_FOUND'){const q=/^Cannot find package '(.*)' imported from /s.exec(m);r=q?{k:0,u:q[1]}:{k:-1,msg:m};}
    else if(e.code==='ERR_INVALID_MODULE_SPECIFIER'&&m.includes('is not a valid package name'))r={k:7};
    else r={k:-1,msg:e.code+': '+m};}
  }
 }catch(e){r=cls(e);}
 out.push(r);});
fs.writeFileSync(process.argv[4],JSON.stringify(out));
`

type nodeAlgCase struct {
	T     string   `json:"t"`
	JSON  string   `json:"json"`
	Sub   string   `json:"sub"`
	Conds []string `json:"conds"`
}
type nodeAlgRes struct {
	K   int    `json:"k"`
	U   string `json:"u"`
	Msg string `json:"msg"`
}

func nodeAlg(tmp string, cases []nodeAlgCase) ([]nodeAlgRes, error) {
	dir, err := os.MkdirTemp(tmp, "alg-")
	if err != nil {
		return nil, err
	}
	in, _ := json.Marshal(cases)
	os.WriteFile(filepath.Join(dir, "cases.json"), in, 0o644)
	outp := filepath.Join(dir, "out.json")
	if o, err := runNode(dir, nodeAlgScript, "x.cjs", filepath.Join(dir, "cases.json"), dir, outp); err != nil {
		return nil, fmt.Errorf("node: %v %s", err, o)
	}
	data, err := os.ReadFile(outp)
	if err != nil {
		return nil, err
	}
	var res []nodeAlgRes
	if err := json.Unmarshal(data, &res); err != nil {
		return nil, err
	}
	return res, nil
}

// ---------------------------------------------------------------- algorithm level

// outcome classes of the property's predicate
func esbClass(post string, st uint8) (string, string) {
	switch st {
	case 3, 4, 5:
		return "resolved", post
	case 6:
		return "package", post
	}
	return "refused", ""
}

func pctDecode(s string) (string, bool) {
	var sb strings.Builder
	for i := 0; i < len(s); i++ {
		if s[i] == '%' {
			if i+2 >= len(s)+0 && i+2 > len(s)-1 {
				return "", false
			}
			var v int
			if _, err := fmt.Sscanf(s[i+1:i+3], "%02x", &v); err != nil {
				return "", false
			}
			sb.WriteByte(byte(v))
			i += 2
		} else {
			sb.WriteByte(s[i])
		}
	}
	return sb.String(), true
}

type algOut struct {
	prelude string
	items   map[string][]string
}

func (a *algOut) add(name, item string) { a.items[name] = append(a.items[name], item) }

func runAlg(r *Rng, n int, tmp string, st *Stats, ao *algOut) {
	type ac struct {
		m       *jv
		sub     string
		conds   []string
		imports bool
	}
	var cases []ac
	add := func(m *jv, sub string, conds []string, imp bool) { cases = append(cases, ac{m, sub, conds, imp}) }
	// boundary grid: the shapes named in the property and the refuted witnesses
	grid := []struct {
		m   *jv
		sub string
	}{
		{jobj("./foo*", "./lib/foo*.js"), "./foo"},
		{jobj("./foo*", "./lib/foo*.js", "./fo*", "./x/*.js"), "./foo"},
		{jobj("./foo*", "./lib/foo*.js", "./fo*", "./x/*.js"), "./foox"},
		{jobj("./x", "./lib/NODE_MODULES/x.js"), "./x"},
		{jobj("./x", "./lib/%2e%2e/x.js"), "./x"},
		{jobj("./a", "./x.js", "./a", "./y.js"), "./a"},
		{jobj("./a", jobj("node", "./x.js", "./b", "./y.js")), "./a"},
		{jobj("./*", "./lib/*"), "./../secret.js"},
		{jobj("./*", "./lib/*"), "./node_modules/s.js"},
		{jobj("./*", "./lib/*"), "./a/../s.js"},
		{jobj("./a", jarr(jnull(), jstr("./x.js"))), "./a"},
		{jobj("./a", jobj("0", "./x.js", "default", "./y.js")), "./a"},
		{jobj("./a", jarr(jstr("bad"), jstr("./x.js"))), "./a"},
		{jobj("./a", jarr()), "./a"},
		{jobj(".", "./index.js", "./*", "./lib/*.js", "./lib/*", jnull()), "./lib/a"},
		{jobj("./*", "./lib/*.js", "./internal/*", jnull()), "./internal/x"},
		{jobj("./a*", "./1/*.js", "./a*b", "./2/*.js", "./ab*", "./3/*.js"), "./abxb"},
		{jobj("./a*", "./1/*.js", "./a*b", "./2/*.js", "./ab*", "./3/*.js"), "./axb"},
		{jobj("./a*b", "./2/*.js", "./a*", "./1/*.js"), "./axb"},
		{jobj("./lib/*", "./src/*", "./lib/*.js", "./dist/*.js"), "./lib/x.js"},
		{jobj("./lib/*.js", "./dist/*.js", "./lib/*", "./src/*"), "./lib/x.js"},
		{jobj("./lib/*", "./src/*", "./lib/*/index.js", "./dist/*.js"), "./lib/x/index.js"},
		{jobj("./a", jarr(jnull(), jstr("./x.js"))), "./a"},
		{jobj("./a", jarr(jobj("types", "./t.js"), jnull(), jstr("./x.js"))), "./a"},
		{jobj("./ab*", "./1/*.js"), "./ab"},
		{jobj("./a*b", "./1/*.js"), "./ab"},
		{jobj("./a*b", "./1/*.js"), "./axb"},
		{jobj("./a*bc", "./1/*.js"), "./abc"},
		{jobj("./x", "./lib/./x.js"), "./x"},
		{jobj("./*", "./lib/*"), "./a/./b.js"},
		{jobj("./*", "./lib/*"), "./a/b/."},
		{jobj("./a*b*", "./1/*.js"), "./axb*"},
		{jobj("import", "./m.mjs", "require", "./c.cjs"), "."},
		{jobj("import", "./m.mjs", "require", "./c.cjs"), "./x"},
		{jstr("./index.js"), "."},
		{jstr("./index.js"), "./x"},
		{jobj(".", "./index.js", "lib", "./lib.js"), "."},
		{jobj("./lib/", "./lib/"), "./lib/a.js"},
		{jobj("./a", "./lib//x.js"), "./a"},
		{jobj("./a", "./lib/%78.js"), "./a"},
		{jobj("./a", "./lib/a%2fb.js"), "./a"},
		{&jv{kind: kBool}, "."},
		{jobj(), "."},
		{jobj(".", jobj("node", jobj("require", "./r.js"))), "."},
	}
	for _, g := range grid {
		add(g.m, g.sub, []string{"node", "import"}, false)
		add(g.m, g.sub, []string{"node", "require"}, false)
	}
	igrid := []struct {
		m   *jv
		sub string
	}{
		{jobj("#a", "./a.js"), "#a"},
		{jobj("#a", "./a.js"), "#"},
		{jobj("#/*", "./*.js"), "#/a"},
		{jobj("#a*", "./lib/a*.js"), "#a"},
		{jobj("#dep", "dep-pkg"), "#dep"},
		{jobj("#dep/*", "dep-pkg/*"), "#dep/lib/a.js"},
		{jobj("#fs", "node:fs"), "#fs"},
		{jobj("#fs", "fs"), "#fs"},
		{jobj("#a", jobj("node", "./n.js", "default", "./d.js")), "#a"},
		{jobj("#a", "./a.js", "./b", "./b.js"), "#a"},
		{jstr("./x.js"), "#a"},
		{jobj("#a", "../x.js"), "#a"},
	}
	for _, g := range igrid {
		add(g.m, g.sub, []string{"node", "import"}, true)
	}
	for i := 0; i < n; i++ {
		odd := 4
		if i%3 == 0 {
			odd = 22
		}
		m := genExports(r, odd)
		add(m, genSubpath(r, m, false, odd), genConds(r), false)
		if i%5 == 0 { // a second subpath on the same map
			add(m, genSubpath(r, m, false, odd), genConds(r), false)
		}
	}
	for i := 0; i < n/2; i++ {
		odd := 4
		if i%3 == 0 {
			odd = 22
		}
		var m *jv
		if r.Chance(4) {
			m = genTarget(r, 1, false, true, odd)
		} else {
			m = genMap(r, true, odd)
		}
		add(m, genSubpath(r, m, true, odd), genConds(r), true)
	}

	ncases := make([]nodeAlgCase, len(cases))
	for i, c := range cases {
		t := "exports"
		if c.imports {
			t = "imports"
		}
		ncases[i] = nodeAlgCase{t, c.m.text(), c.sub, c.conds}
	}
	nres, err := nodeAlg(tmp, ncases)
	if err != nil || len(nres) != len(cases) {
		st.Fail("node oracle could not run", fmt.Sprint(err), len(nres), len(cases))
		return
	}
	known := map[string]int{}
	examples := map[string]interface{}{}
	for i, c := range cases {
		var res, post string
		var s1, s2 uint8
		var hasMap, ok bool
		if c.imports {
			res, s1, post, s2, hasMap, ok = resolver.VerifImportsResolve(c.m.text(), c.sub, c.conds)
		} else {
			res, s1, post, s2, hasMap, ok = resolver.VerifExportsResolve(c.m.text(), c.sub, c.conds)
		}
		if !ok {
			st.Fail("generated JSON rejected by esbuild's JSON parser", c.m.text(), "", "")
			continue
		}
		fam, kind := "exp", "exports"
		if c.imports {
			fam, kind = "imp", "imports"
		}
		tags := classify(c.m, c.sub, c.imports)
		scope := "in-scope"
		if len(tags) > 0 {
			scope = "excluded:" + strings.Join(tags, "+")
		}
		key := c.m.text() + "|" + c.sub + "|" + strings.Join(c.conds, ",")
		st.Note("alg-"+kind+":"+scope, key, c.m.kind == kObj || c.m.kind == kArr)
		st.Sample(map[string]interface{}{"field": kind, "json": c.m.text(), "subpath": c.sub, "conditions": c.conds,
			"esbuild": map[string]interface{}{"resolved": post, "status": s2}, "node": nres[i]})
		g1 := fmt.Sprintf("(%s,%d)", cstr(res), s1)
		g2 := fmt.Sprintf("(%s,%d)", cstr(post), s2)
		if !hasMap {
			g1, g2 = "(\"\",-1)", "(\"\",-1)"
		}
		ao.add(fam+"_model", fmt.Sprintf("(%s,%s,%s,%s,%s)", c.m.coq(), cstr(c.sub), cstrs(c.conds), g1, g2))
		nr := nres[i]
		if nr.K == -1 {
			st.Note("node-unclassified", nr.Msg, false)
		} else {
			ao.add(fam+"_spec", fmt.Sprintf("(%s,%s,%s,%d,%s)", c.m.coq(), cstr(c.sub), cstrs(c.conds), nr.K, cstr(nr.U)))
		}
		if !hasMap || nr.K == -1 {
			continue
		}
		// ---- the property's predicate between the two real implementations ----
		ec, ep := esbClass(post, s2)
		bad := ""
		switch {
		case nr.K == 0:
			want, okd := pctDecode(strings.SplitN(strings.SplitN(nr.U, "?", 2)[0], "#", 2)[0])
			if !okd {
				break
			}
			if ec != "resolved" {
				bad = "node-resolves-esbuild-refuses"
			} else if filepath.Clean(ep) != filepath.Clean(want) {
				bad = "resolve-to-different-paths"
			}
		case nr.K == 1:
			if ec == "resolved" {
				bad = "node-package-resolve-esbuild-path"
			}
		default:
			if ec != "refused" {
				bad = "node-rejects-esbuild-accepts"
			}
		}
		if bad == "" {
			continue
		}
		input := map[string]interface{}{"level": "algorithm", "field": kind, "json": c.m.text(), "subpath": c.sub, "conditions": c.conds}
		if len(tags) > 0 {
			cl := strings.Join(tags, "+")
			known["known-divergence:"+cl]++
			if _, have := examples[cl]; !have {
				examples[cl] = map[string]interface{}{"input": input, "esbuild": []interface{}{post, s2}, "node": nr, "what": bad}
			}
			continue
		}
		st.Fail("exports/imports map: "+bad, input, map[string]interface{}{"esbuild_resolved": post, "esbuild_status": s2}, nr)
	}
	for k, v := range known {
		st.Histogram[k] += v
	}
	st.Extra["known_divergence_examples"] = examples

	// sorted expansion keys
	for i := 0; i < n/4+8; i++ {
		m := genMap(r, r.Chance(20), 30)
		keys, ok := resolver.VerifExpansionKeys(m.text())
		if !ok {
			continue
		}
		st.Note("expansion-keys", m.text(), len(keys) > 1)
		ao.add("keys_model", fmt.Sprintf("(%s,%s)", m.coq(), cstrs(keys)))
	}
	// package names
	var names []string
	names = append(names, "", "a", "a/b", "@a", "@a/b", "@a/b/c", "@/b", ".a", "a%b", "a\\b", "a/b%c", "@a/.b", "a/", "@a/b/", "a//b", "@a//b", "zz", "zz/.")
	nameAlpha := []string{"zq", "yk", "@zs", "@", "/", "/", ".", "%41", "\\", "-", "_", "x.js", "lib", "*", "~", "+"}
	for i := 0; i < n/2; i++ {
		k := r.Range(1, 5)
		s := ""
		for j := 0; j < k; j++ {
			s += r.Pick(nameAlpha)
			if r.Chance(40) {
				s += "/"
			}
		}
		names = append(names, s)
	}
	var ncs []nodeAlgCase
	for _, s := range names {
		ncs = append(ncs, nodeAlgCase{"name", "", s, nil})
	}
	nr2, err := nodeAlg(tmp, ncs)
	for i, s := range names {
		n1, sub, ok := resolver.VerifParsePackageName(s)
		st.Note("package-name", s, len(s) > 0)
		ao.add("name_model", fmt.Sprintf("(%s,%s,%s,%s)", cstr(s), CBool(ok), cstr(n1), cstr(sub)))
		if err != nil || i >= len(nr2) || nr2[i].K == -1 {
			continue
		}
		// only bare specifiers reach PACKAGE_RESOLVE in Node
		if s == "" || s[0] == '.' || s[0] == '/' || s[0] == '#' || strings.Contains(s, ":") {
			continue
		}
		ao.add("name_spec", fmt.Sprintf("(%s,%s,%s)", cstr(s), CBool(nr2[i].K == 0), cstr(nr2[i].U)))
		if (nr2[i].K == 0) != ok || (ok && nr2[i].U != n1) {
			st.Fail("package name parsed differently from Node", s, []interface{}{n1, sub, ok}, nr2[i])
		}
	}
	// findInvalidSegment, esmHandlePostConditions, path.Join
	for i := 0; i < n/2; i++ {
		k := r.Range(1, 4)
		parts := make([]string, k)
		for j := range parts {
			if r.Chance(45) {
				parts[j] = r.Pick(oddSegs)
			} else {
				parts[j] = r.Pick(segs)
			}
		}
		p := strings.Join(parts, r.Pick([]string{"/", "/", "\\"}))
		if r.Chance(50) {
			p = "./" + p
		}
		st.Note("find-invalid-segment", p, true)
		ao.add("seg_model", fmt.Sprintf("(%s,%s)", cstr(p), CBool(resolver.VerifFindInvalidSegment(p) != "")))
		q := "/" + strings.Join(parts, "/")
		stc := uint8([]int{3, 4, 5, 6, 2, 10}[r.Intn(6)])
		a, b := resolver.VerifHandlePostConditions(q, stc)
		st.Note("post-conditions", q, true)
		ao.add("post_model", fmt.Sprintf("(%s,%d,(%s,%d))", cstr(q), stc, cstr(a), b))
	}
}

// ---------------------------------------------------------------- glue stream (full stack)

type pkgSpec struct {
	dir     string // relative to the tree root
	name    string
	exports *jv
	imports *jv
	main    string
	typ     string
}

type tree struct {
	keepCaseCollisions bool     // witness trees only
	importers          []string // extra importer files created by the generator (below nested package.json files)
	sorted             []string // file paths, sorted (for deterministic picks)
	root               string
	files              map[string]string // rel path -> contents
	links              map[string]string // rel path -> target (relative symlink)
	pkgs               []*pkgSpec
}

func (t *tree) file(p string) {
	if _, ok := t.files[p]; !ok {
		switch filepath.Ext(p) {
		case ".json":
			t.files[p] = "{\"file\":" + qs(p) + "}\n"
		case ".mjs":
			t.files[p] = "export default " + qs(p) + ";\n"
		default:
			t.files[p] = "module.exports = " + qs(p) + ";\n"
		}
	}
}

// every concrete file a target string can denote for the star substitutions we use
func targetFiles(m *jv, subs []string) []string {
	var out []string
	m.walk(func(j *jv) {
		if j.kind != kStr || !strings.HasPrefix(j.s, "./") {
			return
		}
		cands := []string{j.s}
		if strings.Contains(j.s, "*") {
			cands = nil
			for _, s := range subs {
				cands = append(cands, strings.Replace(j.s, "*", s, -1))
			}
		}
		for _, c := range cands {
			d, ok := pctDecode(c)
			if !ok || strings.ContainsAny(d, "?#\\*\x00") || strings.HasSuffix(d, "/") {
				continue
			}
			p := filepath.Clean(d)
			if p == "." || strings.HasPrefix(p, "..") {
				continue
			}
			out = append(out, p)
		}
	})
	return out
}

var starSubs = []string{"a", "b", "foo", "x", "a.js", "foo.js", "a/b", "a/b.js", "util", "index", "bar", "fo", "lib/a.js", "feature"}

func (t *tree) addPkg(r *Rng, dir, name string, odd int) *pkgSpec {
	p := &pkgSpec{dir: dir, name: name}
	if r.Chance(75) {
		p.exports = genExports(r, odd)
	}
	if r.Chance(35) {
		p.imports = genMap(r, true, odd)
	}
	switch r.Intn(6) {
	case 0:
		p.main = "./lib/main.js"
	case 1:
		p.main = "lib/main" // extension probing
	case 2:
		p.main = "./lib" // directory: lib/index.js
	case 3:
		p.main = "./missing.js" // falls back to index.js
	}
	p.typ = r.Pick([]string{"", "", "module", "commonjs"})
	for _, f := range []string{"index.js", "lib/main.js", "lib/index.js", "lib/a.js", "lib/b.js", "lib/foo.js", "lib/util.js", "lib/a/index.js", "lib/a/b.js", "lib/data.json", "a.js", "foo.js", "x.js", "m.mjs", "c.cjs", "src/a.js", "src/index.js", "secret.js", "lib/hidden.js", "package-lock.json"} {
		t.file(filepath.Join(dir, f))
	}
	for _, m := range []*jv{p.exports, p.imports} {
		if m != nil {
			for _, f := range targetFiles(m, starSubs) {
				if r.Chance(85) {
					t.file(filepath.Join(dir, f))
				}
			}
		}
	}
	var fields []string
	if name != "" {
		fields = append(fields, `"name":`+qs(name))
	}
	if p.main != "" {
		fields = append(fields, `"main":`+qs(p.main))
	}
	if p.typ != "" {
		fields = append(fields, `"type":`+qs(p.typ))
	}
	if p.exports != nil {
		fields = append(fields, `"exports":`+p.exports.text())
	}
	if p.imports != nil {
		fields = append(fields, `"imports":`+p.imports.text())
	}
	t.files[filepath.Join(dir, "package.json")] = "{" + strings.Join(fields, ",") + "}\n"
	t.pkgs = append(t.pkgs, p)
	return p
}

func (t *tree) addFixed(dir, pkgJSON string, files ...string) {
	t.files[filepath.Join(dir, "package.json")] = pkgJSON + "\n"
	for _, f := range files {
		t.file(filepath.Join(dir, f))
	}
}

var fixedSpecs = []struct{ importer, spec string }{
	{"src/main.js", "pkg-cond"}, {"src/main.js", "pkg-cond/feature"}, {"src/main.js", "pkg-cond/sub/a"}, {"src/main.js", "pkg-cond/only-import"},
	{"src/main.js", "pkg-cond/package.json"}, {"src/main.js", "pkg-cond/lib/a.js"},
	{"node_modules/pkg-cond/lib/a.js", "pkg-cond/feature"}, {"node_modules/pkg-cond/lib/a.js", "#int"}, {"node_modules/pkg-cond/lib/a.js", "#dep"},
	{"node_modules/pkg-cond/lib/a.js", "#sub/a"}, {"node_modules/pkg-cond/lib/a.js", "#missing"},
	// a bare target that names a builtin: import resolves node:fs, require FAILS in Node 20 (ERR_INVALID_URL_SCHEME)
	{"node_modules/pkg-cond/lib/a.js", "#fsb"}, {"node_modules/pkg-cond/lib/a.js", "#fsp/x"},
	{"src/main.js", "pkg-main"}, {"src/main.js", "pkg-main/lib/other"}, {"src/main.js", "pkg-idx"}, {"src/main.js", "pkg-idx/lib"}, {"src/main.js", "pkg-dirmain"},
	{"src/main.js", "pkg-mod"}, {"src/main.js", "pkg-mod/a"}, {"src/main.js", "pkg-mod/internal/x"}, {"src/main.js", "pkg-mod/lib/a.js"},
	{"src/main.js", "dep-pkg/package.json"}, {"node_modules/pkg-a/index.js", "dep-pkg/package.json"}, {"src/main.js", "only-nested/package.json"},
	{"node_modules/pkg-a/index.js", "only-nested/package.json"}, {"node_modules/pkg-a/index.js", "pkg-idx"}, {"node_modules/pkg-a/node_modules/dep-pkg/index.js", "pkg-main"},
	{"src/main.js", "pkg-l/package.json"}, {"linked-src/pkg-l/index.js", "dep-of-l/package.json"}, {"node_modules/pkg-l/index.js", "dep-of-l/package.json"},
	{"linked-src/pkg-l/index.js", "pkg-idx"}, {"node_modules/pkg-l/index.js", "pkg-idx"},
	{"src/main.js", "./util"}, {"src/main.js", "./dir"}, {"src/main.js", "./dir2"}, {"src/main.js", "./both"}, {"src/main.js", "./data"}, {"src/main.js", "./noext"},
	{"src/main.js", "./m.mjs"}, {"src/main.js", "./util.js"}, {"src/main.js", "./dir/index.js"}, {"src/deep/er/x.js", "../../util"}, {"src/deep/er/x.js", "../../dir2/entry"},
	// self references: only the nearest package.json counts
	{"node_modules/pkg-self/lib/user.js", "pkg-self"}, {"node_modules/pkg-self/lib/user.js", "pkg-self/sub"}, {"node_modules/pkg-self/lib/user.js", "pkg-self/only-copy"},
	{"node_modules/pkg-self/lib/user.js", "#in"}, {"node_modules/pkg-self/lib/user.js", "pkg-self/package.json"},
	{"node_modules/pkg-self/dist/cjs/index.js", "pkg-self"}, {"node_modules/pkg-self/dist/cjs/index.js", "pkg-self/sub"},
	{"node_modules/pkg-self/dist/cjs/index.js", "pkg-self/only-copy"}, {"node_modules/pkg-self/dist/cjs/index.js", "#in"},
	{"node_modules/pkg-self/dist/cjs/index.js", "pkg-self/package.json"},
	{"node_modules/pkg-self/dist/esm/index.js", "pkg-self"}, {"node_modules/pkg-self/dist/esm/index.js", "pkg-self/only-copy"}, {"node_modules/pkg-self/dist/esm/index.js", "#in"},
	{"node_modules/pkg-self/dist/esm/deep/x.js", "pkg-self/sub"}, {"node_modules/pkg-self/dist/esm/deep/x.js", "#in"},
	{"node_modules/pkg-self/vendor/index.js", "other-inner"}, {"node_modules/pkg-self/vendor/index.js", "pkg-self"}, {"node_modules/pkg-self/vendor/index.js", "pkg-self/only-copy"},
	{"node_modules/pkg-self/vendor/index.js", "#in"},
	{"node_modules/pkg-self/same/index.js", "pkg-self"}, {"node_modules/pkg-self/same/index.js", "pkg-self/sub"}, {"node_modules/pkg-self/same/index.js", "pkg-self/only-copy"},
	{"node_modules/pkg-self/noexp/index.js", "pkg-self"}, {"node_modules/pkg-self/noexp/index.js", "pkg-self/only-copy"},
	{"node_modules/pkg-self/node_modules/pkg-self/main.js", "pkg-self"}, {"node_modules/pkg-self/node_modules/pkg-self/main.js", "pkg-self/sub"},
	{"src/main.js", "pkg-self"}, {"src/main.js", "pkg-self/sub"}, {"src/main.js", "pkg-self/only-copy"},
	{"src/main.js", "rootpkg"}, {"src/main.js", "rootpkg/package.json"}, {"src/nested/x.js", "rootpkg"}, {"src/nested/x.js", "rootpkg/package.json"},
	{"src/nested/x.js", "pkg-self"}, {"index.js", "rootpkg"},
	{"src/main.js", "@scope/pkg-s/package.json"}, {"src/main.js", "@scope/pkg-s/lib/a.js"}, {"src/main.js", "missing-pkg"}, {"src/main.js", "misnamed/package.json"},
}

func (t *tree) materialise() error {
	var paths []string
	for p := range t.files {
		paths = append(paths, p)
	}
	sort.Strings(paths)
	// a generated file path that is also a directory of another file loses (directories win),
	// so that a random target like "./src" cannot shadow src/main.js
	isDir := map[string]bool{}
	for _, p := range paths {
		for d := filepath.Dir(p); d != "." && d != "/"; d = filepath.Dir(d) {
			isDir[d] = true
		}
	}
	kept := paths[:0]
	for _, p := range paths {
		if !isDir[p] {
			kept = append(kept, p)
		}
	}
	paths = kept
	// no two entries of one directory may differ only by letter case: esbuild
	// keeps directory entries in a map keyed by the lower-cased name (known
	// finding D11, replayed by the witness "case-colliding-directory-entries");
	// the random trees stay clear of it
	seenCase := map[string]string{}
	kept2 := make([]string, 0, len(paths))
	for _, p := range paths {
		ok := true
		parts := strings.Split(p, "/")
		if t.keepCaseCollisions {
			parts = nil
		}
		for i := range parts {
			key := strings.ToLower(strings.Join(parts[:i+1], "/"))
			actual := strings.Join(parts[:i+1], "/")
			if prev, have := seenCase[key]; have && prev != actual {
				ok = false
				break
			}
		}
		if !ok {
			continue
		}
		for i := range parts {
			seenCase[strings.ToLower(strings.Join(parts[:i+1], "/"))] = strings.Join(parts[:i+1], "/")
		}
		kept2 = append(kept2, p)
	}
	paths = kept2
	t.sorted = paths
	for _, p := range paths {
		c := t.files[p]
		full := filepath.Join(t.root, p)
		if err := os.MkdirAll(filepath.Dir(full), 0o755); err != nil {
			continue // a generated path collides with a file: skip it
		}
		if fi, err := os.Stat(full); err == nil && fi.IsDir() {
			continue
		}
		if err := os.WriteFile(full, []byte(c), 0o644); err != nil {
			// a generated path can collide with a directory: skip it
			continue
		}
	}
	for p, target := range t.links {
		full := filepath.Join(t.root, p)
		os.MkdirAll(filepath.Dir(full), 0o755)
		if err := os.Symlink(target, full); err != nil {
			return err
		}
	}
	return nil
}

func genTree(r *Rng, root string, odd int) *tree {
	t := &tree{root: root, files: map[string]string{}, links: map[string]string{}}
	rp := t.addPkg(r, ".", "rootpkg", odd)
	_ = rp
	for _, f := range []string{"src/main.js", "src/util.js", "src/dir/index.js", "src/data.json", "src/noext", "src/m.mjs", "src/c.cjs", "src/both.js", "src/both.json", "src/both/index.js", "src/deep/er/x.js"} {
		t.file(f)
	}
	t.files["src/dir2/package.json"] = `{"main":"./entry.js"}`
	t.file("src/dir2/entry.js")
	t.file("src/dir2/index.js")
	t.addPkg(r, "node_modules/pkg-a", "pkg-a", odd)
	t.addPkg(r, "node_modules/pkg-b", "pkg-b", odd)
	t.addPkg(r, "node_modules/@scope/pkg-s", "@scope/pkg-s", odd)
	t.addPkg(r, "node_modules/dep-pkg", "dep-pkg", odd)                    // hoisted copy
	t.addPkg(r, "node_modules/pkg-a/node_modules/dep-pkg", "dep-pkg", odd) // nested copy wins inside pkg-a
	t.addPkg(r, "node_modules/pkg-a/node_modules/only-nested", "only-nested", odd)
	t.addPkg(r, "linked-src/pkg-l", "pkg-l", odd) // symlinked package with its own dependencies
	t.addPkg(r, "linked-src/pkg-l/node_modules/dep-of-l", "dep-of-l", odd)
	t.links["node_modules/pkg-l"] = "../linked-src/pkg-l"
	// fixed packages: the boundary grid of the glue stream (same in every tree)
	t.addFixed("node_modules/pkg-cond", `{"name":"pkg-cond","exports":{".":{"import":"./m.mjs","require":"./c.cjs"},"./feature":{"node":{"import":"./lib/f.mjs","require":"./lib/f.cjs"},"default":"./lib/f.js"},"./sub/*":{"require":"./lib/*.js","default":"./src/*.js"},"./only-import":{"import":"./m.mjs"},"./package.json":"./package.json"},"imports":{"#int":{"require":"./c.cjs","import":"./m.mjs"},"#dep":"dep-pkg","#sub/*":"./lib/*.js","#fsb":"fs","#fsp/*":"fs"}}`,
		"m.mjs", "c.cjs", "lib/f.mjs", "lib/f.cjs", "lib/f.js", "lib/a.js", "src/a.js", "index.js")
	t.addFixed("node_modules/pkg-main", `{"name":"pkg-main","main":"lib/main"}`, "lib/main.js", "index.js", "lib/other.js", "lib/other.json")
	t.addFixed("node_modules/pkg-idx", `{"name":"pkg-idx"}`, "index.js", "lib/index.js", "lib/a.js")
	t.addFixed("node_modules/pkg-dirmain", `{"name":"pkg-dirmain","main":"./lib"}`, "index.js", "lib/index.js")
	t.addFixed("node_modules/pkg-mod", `{"name":"pkg-mod","type":"module","main":"./main.js","exports":{".":"./main.js","./*":"./lib/*.js","./internal/*":null}}`, "main.js", "lib/a.js", "lib/internal/x.js", "internal/x.js")
	// a named package with exports that contains nested package.json files (the
	// dist/cjs + dist/esm pattern: nameless; one with another name; one with the
	// same name) and that can see ANOTHER copy of itself in its own node_modules:
	// only the NEAREST package.json decides whether "pkg-self" is a self reference
	t.addFixed("node_modules/pkg-self", `{"name":"pkg-self","exports":{".":"./main.js","./sub":"./lib/sub.js","./package.json":"./package.json"},"imports":{"#in":"./lib/in-outer.js"}}`,
		"main.js", "lib/sub.js", "lib/in-outer.js", "lib/user.js", "index.js")
	t.addFixed("node_modules/pkg-self/dist/cjs", `{"type":"commonjs"}`, "index.js", "in.js")
	t.addFixed("node_modules/pkg-self/dist/esm", `{"type":"module","imports":{"#in":"./in-esm.js"}}`, "index.js", "in-esm.js", "deep/x.js")
	t.addFixed("node_modules/pkg-self/vendor", `{"name":"other-inner","exports":{".":"./v.js"}}`, "index.js", "v.js")
	t.addFixed("node_modules/pkg-self/same", `{"name":"pkg-self","exports":{".":"./inner-main.js"}}`, "index.js", "inner-main.js")
	t.addFixed("node_modules/pkg-self/noexp", `{"name":"pkg-self"}`, "index.js")
	t.addFixed("node_modules/pkg-self/node_modules/pkg-self", `{"name":"pkg-self","exports":{".":"./copy-main.js","./sub":"./copy-sub.js","./only-copy":"./oc.js"}}`,
		"copy-main.js", "copy-sub.js", "oc.js", "main.js", "lib/sub.js")
	// the root package too: a nameless nested package.json below it and a copy of "rootpkg" in node_modules
	t.addFixed("src/nested", `{"type":"module"}`, "x.js")
	t.addFixed("node_modules/rootpkg", `{"name":"rootpkg","exports":{".":"./copy.js","./package.json":"./package.json"}}`, "copy.js", "index.js")
	// random nested package.json files inside random packages (with/without name, type, own exports/imports)
	for _, host := range []string{"node_modules/pkg-a", "node_modules/pkg-b", "linked-src/pkg-l", "node_modules/@scope/pkg-s", "."} {
		if !r.Chance(55) {
			continue
		}
		sub := r.Pick([]string{"dist", "dist/cjs", "esm", "lib/inner", "src/gen"})
		dir := filepath.Join(host, sub)
		name := ""
		switch r.Intn(4) {
		case 0:
			name = "inner-" + r.Pick(segs)
		case 1: // the host's own name again
			for _, p := range t.pkgs {
				if p.dir == host {
					name = p.name
				}
			}
		}
		t.addPkg(r, dir, name, odd)
		t.file(filepath.Join(dir, "imp.js"))
		t.file(filepath.Join(dir, "deeper/imp.js"))
		t.importers = append(t.importers, filepath.Join(dir, "imp.js"), filepath.Join(dir, "deeper/imp.js"))
	}
	// a second copy of a package inside its own node_modules (visible from inside the package)
	for _, nm := range []string{"pkg-a", "pkg-b"} {
		if r.Chance(50) {
			t.addPkg(r, "node_modules/"+nm+"/node_modules/"+nm, nm, odd)
		}
	}
	if r.Chance(50) { // a package whose package.json has a different name than its directory
		t.addPkg(r, "node_modules/misnamed", "other-name", odd)
	}
	if r.Chance(50) { // nested scope inside a package
		t.files["node_modules/pkg-a/lib/package.json"] = `{"type":"module"}`
	}
	return t
}

type glueCase struct {
	Importer string `json:"importer"` // absolute
	Spec     string `json:"spec"`
	Kind     string `json:"kind"` // require | import
	tags     []string
	via      string
}

type nodeGlueRes struct {
	OK   bool   `json:"ok"`
	Path string `json:"path"`
	Code string `json:"code"`
	Msg  string `json:"msg"`
}

const nodeGlueScript = `
import {createRequire} from 'node:module';
import fs from 'node:fs';
import {pathToFileURL,fileURLToPath} from 'node:url';
const cases=JSON.parse(fs.readFileSync(process.argv[2],'utf8'));
const out=[];
for(const c of cases){let r;
 try{
  if(c.kind==='require'){r={ok:true,path:createRequire(c.importer).resolve(c.spec)};}
  else{const u=import.meta.resolve(c.spec,pathToFileURL(c.importer).href);
   if(u.startsWith('file:')){const p=fileURLToPath(u);
    // Node 20's import.meta.resolve returns the URL even when the loader threw
    // ERR_MODULE_NOT_FOUND / ERR_UNSUPPORTED_DIR_IMPORT: a resolution only counts when the file exists
    let isFile=false;try{isFile=fs.statSync(p).isFile();}catch{}
    r=isFile?{ok:true,path:p}:{ok:false,code:'NOT_A_FILE',msg:p};}
   else r={ok:true,path:u};}
 }catch(e){r={ok:false,code:String(e&&e.code),msg:String(e&&e.message).slice(0,300)};}
 out.push(r);}
fs.writeFileSync(process.argv[3],JSON.stringify(out));
`

func nodeGlue(dir string, cases []glueCase) ([]nodeGlueRes, error) {
	in, _ := json.Marshal(cases)
	cp := filepath.Join(dir, ".verif-cases.json")
	op := filepath.Join(dir, ".verif-out.json")
	os.WriteFile(cp, in, 0o644)
	if o, err := runNode(dir, nodeGlueScript, "x.mjs", cp, op); err != nil {
		return nil, fmt.Errorf("node: %v %s", err, o)
	}
	data, err := os.ReadFile(op)
	if err != nil {
		return nil, err
	}
	var res []nodeGlueRes
	err = json.Unmarshal(data, &res)
	return res, err
}

type esbRes struct {
	skip     bool
	ok       bool
	path     string
	external bool
	errs     []string
}

func buildOpts(root string) api.BuildOptions {
	return api.BuildOptions{
		AbsWorkingDir:     root,
		Platform:          api.PlatformNode,
		Bundle:            true,
		Write:             false,
		LogLevel:          api.LogLevelSilent,
		Conditions:        []string{}, // Node's own conditions only (no "module")
		MainFields:        []string{"main"},
		ResolveExtensions: []string{".js", ".json", ".node"},
		Loader:            map[string]api.Loader{".node": api.LoaderCopy, ".mjs": api.LoaderJS, ".cjs": api.LoaderJS},
		Outdir:            filepath.Join(root, "out"),
		Metafile:          true,
	}
}

func esbResolveAll(root string, cases []glueCase) []esbRes {
	out := make([]esbRes, len(cases))
	opts := buildOpts(root)
	opts.Stdin = &api.StdinOptions{Contents: "", ResolveDir: root, Sourcefile: "stdin.js"}
	opts.Plugins = []api.Plugin{{Name: "c11", Setup: func(b api.PluginBuild) {
		b.OnStart(func() (api.OnStartResult, error) {
			for i, c := range cases {
				kind := api.ResolveJSImportStatement
				if c.Kind == "require" {
					kind = api.ResolveJSRequireCall
				}
				r := b.Resolve(c.Spec, api.ResolveOptions{Importer: c.Importer, ResolveDir: filepath.Dir(c.Importer), Kind: kind, Namespace: "file"})
				e := esbRes{ok: len(r.Errors) == 0, path: r.Path, external: r.External}
				for _, m := range r.Errors {
					e.errs = append(e.errs, m.Text)
				}
				out[i] = e
			}
			return api.OnStartResult{}, nil
		})
	}}}
	api.Build(opts)
	return out
}

// one import per entry file, read back from the metafile (exercises bundler.go)
func esbMetafile(root string, c glueCase, idx int) esbRes {
	ext := ".mjs"
	body := "import " + qs(c.Spec) + "\n"
	if c.Kind == "require" {
		ext = ".cjs"
		body = "require(" + qs(c.Spec) + ")\n"
	}
	entry := filepath.Join(filepath.Dir(c.Importer), fmt.Sprintf("verif-entry-%d%s", idx, ext))
	os.WriteFile(entry, []byte(body), 0o644)
	defer os.Remove(entry)
	opts := buildOpts(root)
	opts.EntryPoints = []string{entry}
	res := api.Build(opts)
	if len(res.Errors) > 0 {
		var e esbRes
		for _, m := range res.Errors {
			e.errs = append(e.errs, m.Text)
			if !strings.HasPrefix(m.Text, "Could not resolve") {
				e.skip = true // a load error of the resolved file says nothing about resolution
			}
		}
		return e
	}
	var mf struct {
		Inputs map[string]struct {
			Imports []struct {
				Path     string `json:"path"`
				External bool   `json:"external"`
				Original string `json:"original"`
			} `json:"imports"`
		} `json:"inputs"`
	}
	json.Unmarshal([]byte(res.Metafile), &mf)
	rel, _ := filepath.Rel(root, realpath(entry))
	in, ok := mf.Inputs[filepath.ToSlash(rel)]
	if !ok || len(in.Imports) != 1 {
		return esbRes{errs: []string{"metafile has no single import for the entry"}}
	}
	p := in.Imports[0].Path
	// the metafile path carries the specifier's ?query / #hash suffix; the file is the part before it
	if i := strings.IndexAny(c.Spec, "?#"); i >= 0 && strings.HasSuffix(p, c.Spec[i:]) {
		p = strings.TrimSuffix(p, c.Spec[i:])
	}
	if in.Imports[0].External {
		return esbRes{ok: true, path: p, external: true}
	}
	return esbRes{ok: true, path: filepath.Join(root, filepath.FromSlash(p))}
}

var exportsRejectCodes = map[string]bool{
	"ERR_PACKAGE_PATH_NOT_EXPORTED": true, "ERR_INVALID_PACKAGE_TARGET": true, "ERR_PACKAGE_IMPORT_NOT_DEFINED": true,
	"ERR_INVALID_MODULE_SPECIFIER": true, "ERR_INVALID_PACKAGE_CONFIG": true,
}

// which package map governs a bare / "#" specifier from this importer (for the scope classifier)
func (t *tree) governing(importerRel, spec string) (m *jv, sub string, isImports bool) {
	scope := func(rel string) *pkgSpec {
		var best *pkgSpec
		for _, p := range t.pkgs {
			d := p.dir
			if d == "." || rel == d || strings.HasPrefix(rel, d+"/") {
				if best == nil || len(d) > len(best.dir) || best.dir == "." {
					if best == nil || d != "." {
						best = p
					}
				}
			}
		}
		return best
	}
	if strings.HasPrefix(spec, "#") {
		if p := scope(importerRel); p != nil && p.imports != nil {
			return p.imports, spec, true
		}
		return nil, "", false
	}
	name, subp, ok := resolver.VerifParsePackageName(spec)
	_ = ok
	if name == "" {
		return nil, "", false
	}
	// self reference first, then any package of that directory name
	if p := scope(importerRel); p != nil && p.name == name && p.exports != nil {
		return p.exports, subp, false
	}
	for _, p := range t.pkgs {
		if strings.HasSuffix(p.dir, "node_modules/"+name) || (name == "pkg-l" && p.dir == "linked-src/pkg-l") {
			if p.exports != nil {
				// several copies (nested/hoisted): union of tags is computed by the caller
				return p.exports, subp, false
			}
		}
	}
	return nil, "", false
}

func (t *tree) tagsFor(importerRel, spec string) []string {
	tags := map[string]bool{}
	if strings.HasPrefix(spec, "#") {
		if m, sub, imp := t.governing(importerRel, spec); m != nil {
			for _, x := range classify(m, sub, imp) {
				tags[x] = true
			}
		}
	} else if name, subp, _ := resolver.VerifParsePackageName(spec); name != "" {
		for _, p := range t.pkgs {
			if p.exports != nil && (p.name == name || strings.HasSuffix(p.dir, "/"+name)) {
				for _, x := range classify(p.exports, subp, false) {
					tags[x] = true
				}
			}
			// an imports map can remap into this package through a bare target
		}
	}
	if strings.HasPrefix(spec, "#") {
		// the bare target of an imports map continues in another package's exports
		for _, p := range t.pkgs {
			if p.exports != nil {
				for _, x := range classify(p.exports, ".", false) {
					if x == "dup-keys" || x == "index-keys" || x == "nested-mixed-keys" {
						tags[x+"(remapped)"] = true
					}
				}
			}
		}
	}
	if strings.HasSuffix(spec, "/") {
		tags["slash"] = true
	}
	if strings.Contains(spec, "*") {
		tags["star-in-specifier"] = true
	}
	if strings.Contains(spec, "%") {
		// relative specifiers, and subpaths of packages without "exports", are URLs for Node's import: percent-decoded (D9)
		tags["percent-encoded-relative-specifier"] = true
	}
	var out []string
	for x := range tags {
		out = append(out, x)
	}
	sort.Strings(out)
	return out
}

func genSpecifiers(r *Rng, t *tree, n int, odd int) []glueCase {
	importers := []string{"src/main.js", "src/deep/er/x.js", "index.js", "node_modules/pkg-a/lib/a.js", "node_modules/pkg-a/index.js",
		"node_modules/pkg-b/index.js", "node_modules/@scope/pkg-s/lib/a.js", "linked-src/pkg-l/index.js", "node_modules/pkg-l/lib/a.js",
		"node_modules/pkg-a/node_modules/dep-pkg/index.js"}
	importers = append(importers, t.importers...)
	importers = append(importers, "node_modules/pkg-self/dist/cjs/index.js", "src/nested/x.js")
	names := []string{"pkg-a", "pkg-b", "@scope/pkg-s", "dep-pkg", "only-nested", "pkg-l", "dep-of-l", "rootpkg", "misnamed", "other-name", "missing-pkg", "pkg-self", "pkg-a", "pkg-b"}
	for _, p := range t.pkgs { // names of nested packages
		if strings.HasPrefix(p.name, "inner-") {
			names = append(names, p.name)
		}
	}
	var out []glueCase
	// Importers are given by their REAL path: without --preserve-symlinks Node
	// (and esbuild) identify a loaded module by its realpath, so a module never
	// sees itself at the symlink's location.  Symlinked packages are still
	// reached through specifiers (pkg-l/...) and by importing from inside the
	// link target (linked-src/pkg-l/...).
	canon := func(rel string) string {
		if r2, err := filepath.Rel(t.root, realpath(filepath.Join(t.root, rel))); err == nil {
			return r2
		}
		return rel
	}
	// an importing module exists: a generated file path can be shadowed by a
	// colliding file/directory of the random tree, such an importer is skipped
	isFile := func(rel string) bool {
		fi, err := os.Stat(filepath.Join(t.root, rel))
		return err == nil && fi.Mode().IsRegular()
	}
	for _, f := range fixedSpecs {
		if !isFile(canon(f.importer)) {
			continue
		}
		for _, k := range []string{"require", "import"} {
			out = append(out, glueCase{Importer: filepath.Join(t.root, canon(f.importer)), Spec: f.spec, Kind: k, via: "grid"})
		}
	}
	n += len(out)
	attempts := 0
	for len(out) < n {
		imp := canon(r.Pick(importers))
		kind := r.Pick([]string{"require", "import"})
		if !isFile(imp) {
			if attempts++; attempts > 50*n+1000 {
				break
			}
			continue
		}
		var spec, via string
		switch k := r.Intn(100); {
		case k < 55: // bare, through the package's exports map when it has one
			name := r.Pick(names)
			via = "bare"
			var pk *pkgSpec
			for _, p := range t.pkgs {
				if p.name == name || strings.HasSuffix(p.dir, "/"+name) {
					pk = p
				}
			}
			if pk != nil && pk.exports != nil && r.Chance(75) {
				sub := genSubpathWith(r, pk.exports, false, odd, starSubs)
				spec = name + strings.TrimPrefix(sub, ".")
			} else {
				spec = name + r.Pick([]string{"", "", "/lib/a.js", "/lib/a", "/lib", "/lib/data", "/package.json", "/lib/missing.js", "/lib/a/index.js", "/m.mjs", "/src"})
			}
		case k < 70: // "#" imports of the importer's scope
			via = "imports"
			m, _, _ := t.governing(imp, "#x")
			if m != nil {
				spec = genSubpathWith(r, m, true, odd, starSubs)
			} else {
				spec = "#" + r.Pick(segs)
			}
		case k < 92: // relative: derived from a file that exists, then weakened (extension / index probing)
			via = "relative"
			target := t.sorted[r.Intn(len(t.sorted))]
			switch r.Intn(6) {
			case 0:
				target = strings.TrimSuffix(target, filepath.Ext(target))
			case 1:
				target = filepath.Dir(target)
			case 2:
				target = filepath.Join(filepath.Dir(target), r.Pick([]string{"missing", "util", "index", "both", "data", "a"}))
			}
			rel, err := filepath.Rel(filepath.Dir(imp), target)
			if err != nil || rel == "." {
				continue
			}
			if !strings.HasPrefix(rel, ".") {
				rel = "./" + rel
			}
			spec = rel
		case k < 96: // absolute
			via = "absolute"
			spec = filepath.Join(t.root, r.Pick([]string{"src/util.js", "src/util", "src/dir", "node_modules/pkg-a/lib/hidden.js", "node_modules/pkg-l/index.js"}))
		default: // query / hash suffix, percent-encoding
			via = "suffix"
			spec = r.Pick([]string{"./util.js?x=1", "./util.js#frag", "pkg-a/lib/a.js?q", "./%75til.js", "pkg-b/lib/%61.js", "pkg-a?x"})
		}
		if strings.HasSuffix(spec, "/") && via != "relative" {
			continue // documented exclusion
		}
		if spec == "./" || spec == "../" || spec == "../../" {
			continue
		}
		out = append(out, glueCase{Importer: filepath.Join(t.root, imp), Spec: spec, Kind: kind, via: via})
	}
	return out
}

func realpath(p string) string {
	if q, err := filepath.EvalSymlinks(p); err == nil {
		return q
	}
	// the file itself may not exist: resolve the symlinks of the longest existing prefix
	if d := filepath.Dir(p); d != p {
		return filepath.Join(realpath(d), filepath.Base(p))
	}
	return p
}

func judge(nr nodeGlueRes, er esbRes) string {
	if er.skip {
		return ""
	}
	if nr.OK {
		if !strings.HasPrefix(nr.Path, "/") {
			return "" // builtin
		}
		if !er.ok || er.external {
			return "node-resolves-esbuild-refuses"
		}
		if realpath(er.path) != realpath(nr.Path) {
			return "resolve-to-different-files"
		}
		return ""
	}
	if exportsRejectCodes[nr.Code] && er.ok {
		if nr.Code == "ERR_INVALID_MODULE_SPECIFIER" && !strings.Contains(nr.Msg, "request is not a valid match in pattern") &&
			!strings.Contains(nr.Msg, "is not a valid internal imports specifier name") {
			return "" // not a rejection by the exports/imports map
		}
		return "node-rejects-esbuild-accepts"
	}
	return ""
}

func cpath(rel string) string {
	if rel == "." || rel == "" {
		return "[]"
	}
	return cstrs(strings.Split(filepath.ToSlash(rel), "/"))
}

func copt(s string, ok bool) string {
	if !ok {
		return "None"
	}
	return "(Some " + s + ")"
}

// the materialised tree (symlinks left out) as a finite map for the Coq model
func dumpFS(root string) string {
	var items []string
	filepath.Walk(root, func(p string, fi os.FileInfo, err error) error {
		if err != nil {
			return nil
		}
		rel, _ := filepath.Rel(root, p)
		if fi.Mode()&os.ModeSymlink != 0 || strings.HasPrefix(filepath.Base(p), ".verif-") || strings.HasPrefix(filepath.Base(p), "driver-") {
			return nil
		}
		if !fi.IsDir() {
			items = append(items, "("+cpath(rel)+",CF)")
			return nil
		}
		pk := "None"
		if data, err := os.ReadFile(filepath.Join(p, "package.json")); err == nil {
			if v, ok := parseJV(string(data)); ok && v.kind == kObj {
				get := func(k string) *jv { // JSON.parse: the last duplicate wins; esbuild: getProperty takes the LAST too? checked by correspondence
					var res *jv
					for i := range v.keys {
						if v.keys[i] == k {
							res = v.vals[i]
						}
					}
					return res
				}
				str := func(k string) string {
					if x := get(k); x != nil && x.kind == kStr {
						return copt(cstr(x.s), true)
					}
					return "None"
				}
				js := func(k string) string {
					if x := get(k); x != nil {
						return copt(x.coq(), true)
					}
					return "None"
				}
				pk = "(Some (" + str("name") + "," + str("main") + "," + js("exports") + "," + js("imports") + "))"
			}
		}
		items = append(items, "("+cpath(rel)+",CD "+pk+")")
		return nil
	})
	return "[" + strings.Join(items, ";\n  ") + "]"
}

func runGlue(r *Rng, n int, tmp string, st *Stats, ao *algOut, maxWalk int) {
	trees := 2 + n/200
	per := n / 4
	if per < 40 {
		per = 40
	}
	known := map[string]int{}
	examples := map[string]interface{}{}
	for ti := 0; ti < trees; ti++ {
		root, err := os.MkdirTemp(tmp, "tree-")
		if err != nil {
			st.Fail("cannot create tree", err.Error(), "", "")
			return
		}
		root = realpath(root)
		odd := []int{0, 6, 18}[ti%3]
		t := genTree(r, root, odd)
		if err := t.materialise(); err != nil {
			st.Fail("cannot materialise tree", err.Error(), "", "")
			return
		}
		cases := genSpecifiers(r, t, per, odd)
		nres, err := nodeGlue(root, cases)
		if err != nil || len(nres) != len(cases) {
			st.Fail("node oracle could not run", fmt.Sprint(err), "", "")
			return
		}
		eres := esbResolveAll(root, cases)
		pkgsDump := func() map[string]string {
			d := map[string]string{}
			for p, c := range t.files {
				if strings.HasSuffix(p, "package.json") {
					d[p] = strings.TrimSpace(c)
				}
			}
			return d
		}
		var wcases []string
		for i, c := range cases {
			rel, _ := filepath.Rel(root, c.Importer)
			verdict := judge(nres[i], eres[i])
			how := "plugin-resolve"
			// correspondence of the second-layer model (Walk.v) and specification (NodeWalkSpec.v):
			// symlinks, absolute specifiers, "?"/"#" suffixes and "%" are not modelled
			if !strings.Contains(rel, "pkg-l") && !strings.Contains(rel, "linked-src") && !strings.Contains(c.Spec, "pkg-l") &&
				!strings.Contains(c.Spec, "linked-src") && !strings.HasPrefix(c.Spec, "/") && !strings.ContainsAny(c.Spec, "?%*") &&
				!(strings.Contains(c.Spec, "#") && !strings.HasPrefix(c.Spec, "#")) && len(t.tagsFor(rel, c.Spec)) == 0 {
				obs := func(ok, external bool, p string, rejected bool) string {
					switch {
					case ok && (external || !strings.HasPrefix(p, "/")):
						return "1,[]"
					case ok:
						rp, err := filepath.Rel(root, p)
						if err != nil || strings.HasPrefix(rp, "..") {
							return ""
						}
						return "0," + cpath(rp)
					case rejected:
						return "3,[]"
					}
					return "2,[]"
				}
				eo := obs(eres[i].ok, eres[i].external, eres[i].path, false)
				no := obs(nres[i].OK, false, nres[i].Path, exportsRejectCodes[nres[i].Code])
				if eo != "" && no != "" && !strings.Contains(eo, "pkg-l") && !strings.Contains(no, "pkg-l") && !strings.Contains(eo, "linked-src") && !strings.Contains(no, "linked-src") {
					pre := "(" + CBool(c.Kind == "require") + "," + cpath(filepath.Dir(rel)) + "," + cstr(c.Spec) + ","
					wcases = append(wcases, pre+eo+")|"+pre+no+")")
				}
			}
			if verdict == "" && i%8 == 0 {
				// same case through the bundler and the metafile
				em := esbMetafile(root, c, i)
				how = "metafile"
				verdict = judge(nres[i], em)
				if verdict != "" {
					eres[i] = em
				}
			}
			outcome := "node-fails"
			if nres[i].OK {
				outcome = "node-resolves"
			} else if exportsRejectCodes[nres[i].Code] {
				outcome = "node-rejects-by-map"
			}
			st.Note("glue:"+c.via+":"+c.Kind+":"+outcome, rel+"|"+c.Spec+"|"+fmt.Sprint(ti), nres[i].OK || exportsRejectCodes[nres[i].Code])
			if verdict == "" {
				continue
			}
			// re-run once (deterministic closed trees; guards against noise)
			again := esbResolveAll(root, []glueCase{c})
			if how == "plugin-resolve" && judge(nres[i], again[0]) == "" {
				st.Note("glue-flaky", c.Spec, false)
				continue
			}
			input := map[string]interface{}{"level": "full-stack", "tree_root_if_kept": root, "importer": rel, "specifier": c.Spec, "kind": c.Kind, "observed_through": how,
				"tree_package_json_files": pkgsDump(), "symlinks": t.links}
			tags := t.tagsFor(rel, c.Spec)
			if len(tags) > 0 {
				cl := strings.Join(tags, "+")
				known["known-divergence:"+cl]++
				if _, have := examples[cl]; !have {
					examples[cl] = map[string]interface{}{"importer": rel, "specifier": c.Spec, "kind": c.Kind, "what": verdict, "esbuild": eres[i].path, "node": nres[i]}
				}
				continue
			}
			st.Fail("full-stack resolution: "+verdict, input,
				map[string]interface{}{"esbuild_path": strings.TrimPrefix(eres[i].path, root), "esbuild_errors": eres[i].errs, "external": eres[i].external},
				map[string]interface{}{"node_ok": nres[i].OK, "node_path": strings.TrimPrefix(nres[i].Path, root), "node_code": nres[i].Code, "node_msg": nres[i].Msg})
		}
		if maxWalk > 0 && len(wcases) > maxWalk {
			// quick tier: the fixed grid (first) plus a slice of the random cases
			wcases = wcases[:maxWalk]
		}
		if len(wcases) > 0 {
			fsTerm := dumpFS(root)
			var em, nm []string
			for _, w := range wcases {
				parts := strings.SplitN(w, "|", 2)
				em = append(em, parts[0])
				nm = append(nm, parts[1])
			}
			name := fmt.Sprintf("walk_tree_%d", len(ao.items["walk_model"]))
			ao.prelude += "Definition " + name + " : cfs := " + fsTerm + ".\n"
			ao.add("walk_model", "("+name+",\n ["+strings.Join(em, ";\n  ")+"])")
			ao.add("walk_spec", "("+name+",\n ["+strings.Join(nm, ";\n  ")+"])")
		}
		if ti == 0 && len(cases) > 2 {
			st.Sample(map[string]interface{}{"tree_package_json_files": pkgsDump(), "first_specifiers": []interface{}{cases[0].Spec, cases[1].Spec, cases[2].Spec}})
		}
		if os.Getenv("VERIF_C11_KEEP") == "" {
			os.RemoveAll(root)
		}
	}
	for k, v := range known {
		st.Histogram[k] += v
	}
	st.Extra["known_divergence_examples"] = examples
}

// ---------------------------------------------------------------- witness replay

type witness struct {
	scenario string
	what     string
	exports  *jv
	spec     string
	files    []string
	imports  *jv               // "imports" of the root package (files then are relative to the root)
	kinds    []string          // default: require and import
	raw      map[string]string // extra files with literal contents
	importer string            // default main.js
	fixed    string            // commit that repaired the finding: the scenario must now agree (a divergence is a regression)
}

var witnesses = []witness{
	{"pattern-base-equals-subpath", "pattern-base", jobj("./foo*", "./lib/foo*.js"), "pkg/foo", []string{"lib/foo.js"}, nil, nil, nil, "", ""},
	{"pattern-base-shadows-shorter-pattern", "pattern-base", jobj("./foo*", "./lib/foo*.js", "./fo*", "./x/*.js"), "pkg/foo", []string{"lib/foo.js", "x/o.js"}, nil, nil, nil, "", ""},
	{"invalid-segment-uppercase-node-modules", "segment-rules", jobj("./x", "./lib/NODE_MODULES/x.js"), "pkg/x", []string{"lib/NODE_MODULES/x.js"}, nil, nil, nil, "", "e3ac7b5"},
	{"invalid-segment-percent-encoded-dotdot-target", "segment-rules", jobj("./a", "./lib/%2e%2e/x.js"), "pkg/a", []string{"x.js", "lib/a.js"}, nil, nil, nil, "", "e3ac7b5"},
	{"invalid-segment-first-segment-of-pattern-match", "segment-rules", jobj("./*", "./lib/*"), "pkg/../secret.js", []string{"secret.js", "lib/a.js"}, nil, nil, nil, "", "e3ac7b5"},
	{"invalid-segment-node-modules-pattern-match", "segment-rules", jobj("./*", "./lib/*"), "pkg/node_modules/s.js", []string{"lib/node_modules/s.js"}, nil, nil, nil, "", "e3ac7b5"},
	{"duplicate-key-first-wins", "dup-keys", jobj("./a", "./x.js", "./a", "./y.js"), "pkg/a", []string{"x.js", "y.js"}, nil, nil, nil, "", ""},
	{"nested-object-mixed-keys", "nested-mixed-keys", jobj("./a", jobj("node", "./x.js", "./b", "./y.js")), "pkg/a", []string{"x.js", "y.js"}, nil, nil, nil, "", "4e82ea6"},
	{"numeric-condition-key", "index-keys", jobj("./a", jobj("0", "./x.js", "default", "./y.js")), "pkg/a", []string{"x.js", "y.js"}, nil, nil, nil, "", ""},
	{"backslash-in-target", "url-syntax", jobj("./a", "./lib\\x.js"), "pkg/a", []string{"lib/x.js"}, nil, nil, nil, "", ""},
	{"query-in-target", "url-syntax", jobj("./a", "./lib/x.js?q"), "pkg/a", []string{"lib/x.js"}, nil, nil, nil, "", ""},
	{"imports-specifier-hash-slash", "hash-slash", nil, "#/a", []string{"a.js"}, jobj("#/*", "./*.js"), nil, nil, "", ""},
	{"imports-target-is-url", "url-target", nil, "#fs", nil, jobj("#fs", "node:fs"), nil, nil, "", ""},
	{"star-in-specifier", "star-in-specifier", jobj("./index/*/b", "./index/index.mjs"), "pkg/index/*/b", []string{"index/index.mjs"}, nil, nil, nil, "", ""},
	{"case-colliding-directory-entries", "case-colliding-entries", jobj("./x", "./index/A"), "pkg/x", []string{"index/A", "index/a/b.js"}, nil, nil, nil, "", ""},
	{scenario: "invalid-package-name-taken-as-self-reference", what: "nameless-self-reference", spec: "@foo", kinds: []string{"require"}, fixed: "d8f247a",
		raw: map[string]string{
			"package.json":               `{"exports":{".":"./own.js"}}`,
			"own.js":                     "module.exports='own'\n",
			"node_modules/@foo/index.js": "module.exports='foo'\n"}},
	{scenario: "import-hash-specifier-without-imports-map", what: "esm-hash-without-imports", spec: "#x", kinds: []string{"import"},
		raw: map[string]string{
			"package.json":             `{"name":"app"}`,
			"node_modules/#x/index.js": "export default 1\n"}},
	{scenario: "import-file-shadows-package-directory", what: "esm-file-shadows-package", spec: "dep", kinds: []string{"import"},
		raw: map[string]string{
			"node_modules/dep/package.json": `{"name":"dep","main":"./main.js"}`,
			"node_modules/dep/main.js":      "export default 1\n",
			"node_modules/dep.js":           "export default 2\n"}},
	{scenario: "package-scope-stops-at-node-modules", what: "scope-boundary", fixed: "6e6e7fa", spec: "rootpkg", importer: "node_modules/nopkg/index.js",
		raw: map[string]string{
			"package.json":                      `{"name":"rootpkg","exports":{".":"./own.js"}}`,
			"own.js":                            "module.exports='own'\n",
			"node_modules/rootpkg/package.json": `{"name":"rootpkg","exports":{".":"./copy.js"}}`,
			"node_modules/rootpkg/copy.js":      "module.exports='copy'\n",
			"node_modules/nopkg/index.js":       "module.exports=1\n"}},
	{scenario: "imports-top-level-mixed-keys", what: "imports-top-mixed-keys", fixed: "9a0cc2e", spec: "#a", imports: jobj("#a", "./a.js", "./b", "./b.js"), files: []string{"a.js", "b.js"}},
	{"percent-encoded-subpath-no-exports", "percent-encoded-relative-specifier", nil, "pkgn/lib/%61.js", []string{"node_modules/pkgn/lib/a.js", "node_modules/pkgn/package.json"}, nil, []string{"import"}, nil, "", ""},
	{"percent-encoded-relative-import", "percent-encoded-relative-specifier", nil, "./%75til.js", []string{"util.js"}, nil, []string{"import"}, nil, "", ""},
}

func textOrNone(j *jv) string {
	if j == nil {
		return ""
	}
	return j.text()
}

func runWitnesses(tmp string, st *Stats) {
	reported := map[string]bool{}
	for _, w := range witnesses {
		root, err := os.MkdirTemp(tmp, "wit-")
		if err != nil {
			continue
		}
		root = realpath(root)
		t := &tree{root: root, files: map[string]string{}, links: map[string]string{}, keepCaseCollisions: true}
		if w.exports != nil {
			t.files["node_modules/pkg/package.json"] = `{"name":"pkg","exports":` + w.exports.text() + "}"
			for _, f := range w.files {
				t.file(filepath.Join("node_modules/pkg", f))
			}
		} else {
			for _, f := range w.files {
				t.file(f)
			}
		}
		if w.imports != nil {
			t.files["package.json"] = `{"name":"rootw","imports":` + w.imports.text() + "}"
		}
		t.file("main.js")
		for f, c := range w.raw {
			t.files[f] = c
		}
		t.materialise()
		var cases []glueCase
		kinds := w.kinds
		if kinds == nil {
			kinds = []string{"require", "import"}
		}
		for _, k := range kinds {
			imp := "main.js"
			if w.importer != "" {
				imp = w.importer
			}
			cases = append(cases, glueCase{Importer: filepath.Join(root, imp), Spec: w.spec, Kind: k})
		}
		nres, err := nodeGlue(root, cases)
		if err != nil || len(nres) != len(cases) {
			st.Fail("node oracle could not run", fmt.Sprint(err), "", "")
			os.RemoveAll(root)
			continue
		}
		eres := esbResolveAll(root, cases)
		for i, c := range cases {
			v := judge(nres[i], eres[i])
			st.Note("witness:"+w.scenario, c.Kind, true)
			if w.fixed != "" {
				// fixed corpus: the finding was repaired in /repo by commit w.fixed; it must stay repaired
				if v == "" {
					st.Histogram["fixed-corpus-pass:"+w.scenario+":"+c.Kind]++
				} else {
					st.Fail("regression of a repaired finding ("+w.fixed+"): "+w.scenario,
						map[string]interface{}{"scenario": w.scenario, "exports": textOrNone(w.exports), "imports": textOrNone(w.imports), "specifier": w.spec, "kind": c.Kind, "files": w.files, "raw_files": w.raw, "importer": w.importer},
						map[string]interface{}{"esbuild_path": strings.TrimPrefix(eres[i].path, root), "esbuild_errors": eres[i].errs, "verdict": v},
						map[string]interface{}{"node_ok": nres[i].OK, "node_path": strings.TrimPrefix(nres[i].Path, root), "node_code": nres[i].Code})
				}
				continue
			}
			if v == "" {
				st.Histogram["witness-now-agrees:"+w.scenario+":"+c.Kind]++
				continue
			}
			if (i > 0 && judge(nres[0], eres[0]) != "") || reported[w.what] {
				// same scenario with the second kind, or a further scenario of a class already
				// reported in this run: counted (histogram), reported once per class
				st.Histogram["FAIL:known-class:"+w.what]++
				st.Histogram["witness-still-diverges:"+w.scenario]++
				continue
			}
			reported[w.what] = true
			st.Fail("known-class:"+w.what,
				map[string]interface{}{"scenario": w.scenario, "exports": textOrNone(w.exports), "imports": textOrNone(w.imports), "specifier": w.spec, "kind": c.Kind, "files": w.files},
				map[string]interface{}{"esbuild_path": strings.TrimPrefix(eres[i].path, root), "esbuild_errors": eres[i].errs, "verdict": v},
				map[string]interface{}{"node_ok": nres[i].OK, "node_path": strings.TrimPrefix(nres[i].Path, root), "node_code": nres[i].Code})
		}
		os.RemoveAll(root)
	}
}

// ----------------------------------------------------------------

func runC11(seed uint64, n int, tier string, outDir string) []*Stats {
	r := NewRng(seed)
	tmp, err := os.MkdirTemp("", "verif-c11-")
	if err != nil {
		panic(err)
	}
	if os.Getenv("VERIF_C11_KEEP") == "" {
		defer os.RemoveAll(tmp)
	}

	stAlg := NewStats("c11-algorithm", seed)
	ao := &algOut{items: map[string][]string{}}
	runAlg(r, n, tmp, stAlg, ao)
	stAlg.Finish("seeded generator (splitmix64): exports/imports maps from the package.json resolution grammar (string, array, nested condition objects in random key order, overlapping * patterns, invalid targets, null, rare duplicate/numeric keys, legacy folder keys) x subpaths derived from the map's own keys (exact, pattern instances, pattern base, odd segments) x condition sets, plus a boundary grid; both esbuild (hook) and Node 20 (--expose-internals) are observed on every case. distinct_nontrivial = distinct (map, subpath, conditions) whose map is an object or array")

	stGlue := NewStats("c11-glue", seed)
	gn := n
	if tier == "thorough" {
		gn = n / 2
	}
	maxWalk := 100
	if tier == "thorough" {
		maxWalk = 0
	}
	runGlue(r, gn, tmp, stGlue, ao, maxWalk)
	stGlue.Finish("materialised trees (root package, nested and hoisted node_modules, scoped package, symlinked package with own dependencies, misnamed package, nested scope) with generated exports/imports maps and the files their targets denote; specifiers: bare/subpath derived from the package's own map, # imports, relative, absolute, query/hash/percent; kinds require and import; esbuild through api.Build (PluginBuild.Resolve; every 8th case also via an entry file and the metafile) vs Node's createRequire().resolve / import.meta.resolve. distinct_nontrivial = distinct (importer, specifier, tree) on which Node either resolves or rejects by an exports/imports map")

	cf := NewCoqFile("From V Require Import Common.Base C11.Str C11.EsbuildResolve C11.NodeSpec C11.Walk C11.NodeWalkSpec C11.Harness.\nLocal Open Scope string_scope.\nLocal Open Scope Z_scope.\n" + ao.prelude)
	caseT := "cj * sstr * list sstr * (sstr * Z) * (sstr * Z)"
	specT := "cj * sstr * list sstr * Z * sstr"
	cf.AddCases("exp_model", caseT, "check_exp_model", ao.items["exp_model"])
	cf.AddCases("imp_model", caseT, "check_imp_model", ao.items["imp_model"])
	cf.AddCases("exp_spec", specT, "check_exp_spec", ao.items["exp_spec"])
	cf.AddCases("imp_spec", specT, "check_imp_spec", ao.items["imp_spec"])
	cf.AddCases("keys_model", "cj * list sstr", "check_keys_model", ao.items["keys_model"])
	cf.AddCases("name_model", "sstr * bool * sstr * sstr", "check_name_model", ao.items["name_model"])
	cf.AddCases("name_spec", "sstr * bool * sstr", "check_name_spec", ao.items["name_spec"])
	cf.AddCases("seg_model", "sstr * bool", "check_seg_model", ao.items["seg_model"])
	cf.AddCases("post_model", "sstr * Z * (sstr * Z)", "check_post_model", ao.items["post_model"])
	cf.AddCases("walk_model", "cfs * list wcase", "check_walk_model", ao.items["walk_model"])
	cf.AddCases("walk_spec", "cfs * list wcase", "check_walk_spec", ao.items["walk_spec"])
	if err := os.WriteFile(filepath.Join(outDir, "c11_cases.v"), []byte(cf.String()), 0o644); err != nil {
		panic(err)
	}

	stWit := NewStats("c11-witness", seed)
	runWitnesses(tmp, stWit)
	stWit.Finish("the inputs of the *_refuted theorems replayed full stack on the real esbuild and the real Node (require and import)")
	return []*Stats{stAlg, stGlue, stWit}
}
