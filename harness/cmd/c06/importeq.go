package main

// import-equals aliases (import X = A.B.C): depth 1..4 over value namespaces,
// type-only namespaces and declare namespaces; used as a type only / as a value /
// by another alias / exported; at top level and inside a namespace.  Each case
// yields the typed program, the same program without type-level syntax (both go
// through the ts loader: namespaces are not JavaScript) and reference JavaScript
// for node.

import (
	"fmt"
	"strings"

	. "github.com/evanw/esbuild/verifharness/hlib"
)

type ieCase struct {
	p    dp     // typed / untyped TypeScript
	ref  string // reference JavaScript
	desc string
}

func genImportEquals(r *Rng) ieCase {
	depth := r.Range(1, 4) // number of dots in the alias target
	rootKind := r.Intn(3)  // 0 value namespace, 1 type-only namespace, 2 declare namespace
	names := []string{"Geo", "Shapes", "Inner", "Deep", "Leaf"}[:depth]
	val := r.Range(1, 99)
	leafIsNamespace := r.Bool()
	// namespace declaration text (TypeScript) and reference object (JavaScript)
	var nsTS, nsRef string
	inner := ""
	innerRef := ""
	switch rootKind {
	case 0:
		inner = fmt.Sprintf("export class Point { tag() { return %d } } export const v = %d; export type T = number; export interface I { a: T } export namespace Sub { export const w = %d }", val, val+1, val+2)
		innerRef = fmt.Sprintf("Point: class Point { tag() { return %d } }, v: %d, Sub: { w: %d }", val, val+1, val+2)
	default:
		inner = "export type T = number; export interface I { a: T } export namespace Sub { export type W = string }"
	}
	nsTS = inner
	nsRef = "{ " + innerRef + " }"
	for i := depth - 1; i >= 0; i-- {
		kw := "export namespace "
		if i == 0 {
			kw = "namespace "
			if rootKind == 2 {
				kw = "declare namespace "
			}
		}
		nsTS = kw + names[i] + " { " + nsTS + " }"
		if i > 0 {
			nsRef = "{ " + names[i] + ": " + nsRef + " }"
		}
	}
	nsTS += "\n"
	path := strings.Join(names, ".")
	// alias target: depth dots -> path has depth components, so add one member
	member := "Point"
	if leafIsNamespace {
		member = "Sub"
	}
	if rootKind != 0 {
		member = r.Pick([]string{"T", "I", "Sub"})
	}
	target := path + "." + member // has `depth` dots
	use := r.Intn(4)              // 0 type only, 1 value, 2 via another alias (type only), 3 via another alias (value)
	if rootKind != 0 && (use == 1 || use == 3) {
		use = []int{0, 2}[r.Intn(2)]
	}
	exported := rootKind == 0 && (use == 1 || use == 3) && r.Chance(25)
	inNamespace := r.Chance(30)
	var parts []interface{}
	var ref strings.Builder
	if rootKind == 0 {
		parts = append(parts, nsTS)
		ref.WriteString("var " + names[0] + " = " + nsRef + ";\n")
	} else {
		parts = append(parts, tsOnly(nsTS))
	}
	exp := ""
	if exported {
		exp = "export "
	}
	open, close := "", ""
	if inNamespace {
		open, close = "namespace App {\n", "}\n"
		exp = ""
	}
	parts = append(parts, open)
	aliasLine := exp + "import X = " + target + ";\n"
	probe := func(expr string) string { return "$p(\"ie\", " + expr + ");\n" }
	valueOf := func(alias string) string {
		if member == "Sub" {
			return alias + ".w"
		}
		return "new " + alias + "().tag()"
	}
	switch use {
	case 0:
		parts = append(parts, tsOnly(aliasLine), "let w", tsOnly(": X"+r.Pick([]string{"", "[]", " | null"})), " = 1;\n", probe("w"))
		ref.WriteString("let w = 1;\n" + probe("w"))
	case 1:
		parts = append(parts, aliasLine, "let w", tsOnly(": "+r.Pick([]string{"X", "typeof X", "number"})), " = ", valueOf("X"), ";\n", probe("w"))
		ref.WriteString("const X = " + target + ";\nlet w = " + valueOf("X") + ";\n" + probe("w"))
	case 2:
		// a chain of aliases, all used as types only: every link disappears
		sub := "T"
		if member == "Sub" && rootKind != 0 {
			sub = "W"
		}
		second := "import Y = X;\n"
		ytype := "Y"
		if member == "Sub" {
			second = "import Y = X." + sub + ";\n"
			if rootKind == 0 {
				second = "import Y = X;\n"
				ytype = "typeof Y.w"
			}
		}
		if r.Bool() {
			parts = append(parts, tsOnly(aliasLine+second))
		} else {
			parts = append(parts, tsOnly(second+aliasLine)) // any order
		}
		parts = append(parts, "let w", tsOnly(": "+ytype), " = 2;\n", probe("w"))
		ref.WriteString("let w = 2;\n" + probe("w"))
	default:
		second := "import Y = X;\n"
		parts = append(parts, aliasLine, second, "let w", tsOnly(": typeof Y"), " = ", valueOf("Y"), ";\n", probe("w"))
		ref.WriteString("const X = " + target + ";\nconst Y = X;\nlet w = " + valueOf("Y") + ";\n" + probe("w"))
	}
	parts = append(parts, close)
	if exported {
		parts = append(parts, "export const zz = 1;\n")
	}
	return ieCase{p: dcat(parts...), ref: ref.String(),
		desc: fmt.Sprintf("import-equals depth=%d root=%d use=%d exported=%v in-namespace=%v member=%s", depth, rootKind, use, exported, inNamespace, member)}
}
