package main

// Class-field semantics selected by tsconfig: "target" x useDefineForClassFields.
// Correspondence: the real tsconfig parser's result (resolver.ParseTSConfigJSON,
// exported) against the table generated from its source (coq/gen/TsTargetsGen.v)
// and, for the behaviour observed in node, against the TypeScript rule
// (coq/C06/TsTarget.v: spec_define).  Glue: a grid over target names (all
// documented editions, mixed case, absent, unrecognised, via "extends") x
// useDefineForClassFields {absent,true,false} x esbuild --target.

import (
	"fmt"
	"os"
	"path/filepath"
	"strings"

	"github.com/evanw/esbuild/internal/cache"
	"github.com/evanw/esbuild/internal/config"
	"github.com/evanw/esbuild/internal/fs"
	"github.com/evanw/esbuild/internal/logger"
	"github.com/evanw/esbuild/internal/resolver"
	"github.com/evanw/esbuild/pkg/api"
	. "github.com/evanw/esbuild/verifharness/hlib"
)

var tsTargetNames = []string{"es3", "es5", "es6", "es2015", "es2016", "es2017", "es2018", "es2019", "es2020", "es2021", "es2022", "es2023", "es2024", "es2025", "es2026", "esnext",
	"ES3", "ES5", "ES6", "ES2015", "ES2020", "ES2021", "ES2022", "ES2023", "ES2024", "ESNext", "ESNEXT", "Es2021", "eS2022", "esNext",
	"", "es2030", "es2014", "es7", "latest", "es 2022"}

// TypeScript's rule, harness side (the Coq side is TsTarget.spec_define): define
// semantics iff explicit true, or unspecified and (target >= ES2022 or no recognised target)
func expectDefine(name string, explicit int) bool {
	switch explicit {
	case 1:
		return true
	case 2:
		return false
	}
	years := map[string]int{"es3": 1999, "es5": 2009, "es6": 2015, "esnext": 9999}
	for y := 2015; y <= 2026; y++ {
		years[fmt.Sprintf("es%d", y)] = y
	}
	y, ok := years[strings.ToLower(name)]
	if name == "" || !ok {
		return true
	}
	return y >= 2022
}

const classFieldProgram = `class A { set x(v: number) { $p("setter", v); } }
class B extends A { x = 1; y; z = $p("z-init"); }
const b = new B(); $p("own", Object.getOwnPropertyNames(b).sort().join(), b.hasOwnProperty("y"));
`
const classFieldRefDefine = `class A { set x(v) { $p("setter", v); } }
class B extends A { x = 1; y; z = $p("z-init"); }
const b = new B(); $p("own", Object.getOwnPropertyNames(b).sort().join(), b.hasOwnProperty("y"));
`
const classFieldRefAssign = `class A { set x(v) { $p("setter", v); } }
class B extends A { constructor() { super(...arguments); this.x = 1; this.z = $p("z-init"); } }
const b = new B(); $p("own", Object.getOwnPropertyNames(b).sort().join(), b.hasOwnProperty("y"));
`

func tsconfigText(name string, explicit int) string {
	var opts []string
	if name != "" {
		opts = append(opts, fmt.Sprintf("%q: %q", "target", name))
	}
	switch explicit {
	case 1:
		opts = append(opts, `"useDefineForClassFields": true`)
	case 2:
		opts = append(opts, `"useDefineForClassFields": false`)
	}
	return `{"compilerOptions": {` + strings.Join(opts, ", ") + `}}`
}

func codes(s string) string {
	var cs []string
	for _, c := range []byte(s) {
		cs = append(cs, fmt.Sprint(int(c)))
	}
	return "[" + strings.Join(cs, ";") + "]"
}

func targetCases(r *Rng, st *Stats) []string {
	var items []string
	type run struct {
		name     string
		explicit int
		via      string
		esTarget string
		out      string
		gotgt    int
	}
	var runs []run
	var progs []string
	esTargets := []api.Target{api.ESNext, api.ES2022, api.ES2020, api.ES2017}
	esNames := []string{"esnext", "es2022", "es2020", "es2017"}
	for _, name := range tsTargetNames {
		for explicit := 0; explicit <= 2; explicit++ {
			text := tsconfigText(name, explicit)
			// the parser's own result
			log := logger.NewDeferLog(logger.DeferLogNoVerboseOrDebug, nil)
			src := logger.Source{KeyPath: logger.Path{Text: "/tsconfig.json", Namespace: "file"}, Contents: text}
			res := resolver.ParseTSConfigJSON(log, src, &cache.MakeCacheSet().JSONCache, fs.MockFS(map[string]string{}, fs.MockUnix, "/"), "/", "/", nil)
			log.Done()
			gotgt := -1
			if res != nil {
				switch res.Settings.Target {
				case config.TSTargetUnspecified:
					gotgt = 0
				case config.TSTargetBelowES2022:
					gotgt = 1
				case config.TSTargetAtOrAboveES2022:
					gotgt = 2
				}
			}
			k := r.Intn(len(esTargets))
			via := "tsconfig-raw"
			var out, e string
			if r.Chance(25) {
				via = "extends"
				out, e = buildWithExtends(text, esTargets[k])
			} else {
				tr := api.Transform(classFieldProgram, api.TransformOptions{Loader: api.LoaderTS, LogLevel: api.LogLevelSilent, TsconfigRaw: text, Target: esTargets[k]})
				if len(tr.Errors) > 0 {
					e = tr.Errors[0].Text
				}
				out = string(tr.Code)
			}
			if e != "" {
				st.Fail("class-field-program-rejected", map[string]string{"tsconfig": text, "via": via, "esbuild_target": esNames[k]}, e, "accepted")
				continue
			}
			runs = append(runs, run{name, explicit, via, esNames[k], out, gotgt})
			progs = append(progs, out)
		}
	}
	progs = append(progs, classFieldRefDefine, classFieldRefAssign)
	results, err := RunNodeScripts(progs, 3000)
	if err != nil {
		st.Fail("node-oracle-unavailable", err.Error(), nil, nil)
		return nil
	}
	refDefine, refAssign := results[len(results)-2], results[len(results)-1]
	for i, ru := range runs {
		got := results[i]
		observed := 2
		if got.Same(refDefine) {
			observed = 1
		} else if got.Same(refAssign) {
			observed = 0
		}
		want := expectDefine(ru.name, ru.explicit)
		input := map[string]string{"tsconfig": tsconfigText(ru.name, ru.explicit), "via": ru.via, "esbuild_target": ru.esTarget, "typescript": classFieldProgram, "esbuild_output": clip(ru.out)}
		st.Note("class-fields:"+ru.via, input["tsconfig"]+ru.esTarget, true)
		wantRes := refAssign
		if want {
			wantRes = refDefine
		}
		if !got.Same(wantRes) {
			st.Fail("class-field-semantics-differ-from-typescript-rule", input, got.String(), wantRes.String())
		}
		items = append(items, fmt.Sprintf("(%s,%d,%d,%d)", codes(ru.name), ru.explicit, ru.gotgt, observed))
	}
	return items
}

func buildWithExtends(text string, target api.Target) (string, string) {
	dir, err := os.MkdirTemp("", "verif-c06-")
	if err != nil {
		return "", err.Error()
	}
	defer os.RemoveAll(dir)
	os.WriteFile(filepath.Join(dir, "base.json"), []byte(text), 0o644)
	os.WriteFile(filepath.Join(dir, "tsconfig.json"), []byte(`{"extends": "./base.json", "compilerOptions": {"strict": false}}`), 0o644)
	os.WriteFile(filepath.Join(dir, "entry.ts"), []byte(classFieldProgram), 0o644)
	res := api.Build(api.BuildOptions{EntryPoints: []string{filepath.Join(dir, "entry.ts")}, Bundle: true, Write: false, LogLevel: api.LogLevelSilent, Format: api.FormatIIFE, Target: target, AbsWorkingDir: dir})
	if len(res.Errors) > 0 {
		return "", res.Errors[0].Text
	}
	return string(res.OutputFiles[0].Contents), ""
}
