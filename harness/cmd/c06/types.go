package main

// Token-level generator of TypeScript types (the generation side of the type
// grammar: TypeScript's own precedence levels, written from the TypeScript
// grammar and not from esbuild's skipper) and the correspondence cases for
// the skipper entry points exposed by internal/js_parser/export_verif_c06.go.

import (
	"fmt"
	"strings"

	"github.com/evanw/esbuild/internal/js_ast"
	"github.com/evanw/esbuild/internal/js_parser"
	. "github.com/evanw/esbuild/verifharness/hlib"
)

type tok struct {
	coq  string // Coq constructor of C06.TsTokens.tk
	text string
	nl   bool // newline before
}

func T(coq, text string) tok { return tok{coq: coq, text: text} }
func pick2(r *Rng, a, b tok) tok {
	if r.Bool() {
		return a
	}
	return b
}

var (
	tBar      = T("KBar", "|")
	tAmp      = T("KAmp", "&")
	tLt       = T("KLt", "<")
	tGt       = T("KGt", ">")
	tEq       = T("KEq", "=")
	tArrow    = T("KArrow", "=>")
	tLParen   = T("KLParen", "(")
	tRParen   = T("KRParen", ")")
	tLBrack   = T("KLBrack", "[")
	tRBrack   = T("KRBrack", "]")
	tLBrace   = T("KLBrace", "{")
	tRBrace   = T("KRBrace", "}")
	tColon    = T("KColon", ":")
	tQuestion = T("KQuestion", "?")
	tComma    = T("KComma", ",")
	tSemi     = T("KSemi", ";")
	tDot      = T("KDot", ".")
	tDots     = T("KDotDotDot", "...")
	tBang     = T("KBang", "!")
	tMinus    = T("KMinus", "-")
	tPlus     = T("KPlus", "+")
	tExtends  = T("KExtends", "extends")
	tTypeof   = T("KTypeof", "typeof")
	tNew      = T("KNew", "new")
	tImport   = T("KImport", "import")
	tThis     = T("KThis", "this")
	tConst    = T("KConst", "const")
	tIn       = T("KIn", "in")
	tFunction = T("KFunction", "function")
	tVoid     = T("KVoid", "void")
	tNull     = T("KNull", "null")
	tTrue     = T("KTrue", "true")
	tFalse    = T("KFalse", "false")
)

func ctx(code int, text string) tok { return T(fmt.Sprintf("KIdent %d", code), text) }

var (
	tKeyof    = ctx(1, "keyof")
	tReadonly = ctx(2, "readonly")
	tUnique   = ctx(3, "unique")
	tAbstract = ctx(4, "abstract")
	tAsserts  = ctx(5, "asserts")
	tInfer    = ctx(6, "infer")
	tIs       = ctx(7, "is")
	tSymbol   = ctx(8, "symbol")
	tOut      = ctx(9, "out")
	tAs       = ctx(10, "as")
	tSatisf   = ctx(12, "satisfies")
)

var primNames = []string{"any", "never", "unknown", "undefined", "object", "number", "string", "boolean", "bigint"}
var normalNames = []string{"A", "B", "C", "T", "U", "K", "V", "Foo", "Bar", "x", "y", "key", "P", "Q", "Array", "Promise", "Record", "type", "get", "set", "of", "declare", "module", "from", "static", "async", "implements", "interface", "private", "public"}
var otherKeywords = []string{"if", "var", "while", "do", "else", "return", "for", "with"}
var otherPunct = []string{"*", "%", "^", "&&", "||", "??", "==", "!==", "**", "/"}

func tPrim(r *Rng) tok { return ctx(11, r.Pick(primNames)) }
func tName(r *Rng) tok {
	i := r.Intn(len(normalNames))
	return ctx(100+i, normalNames[i])
}
func tNum(r *Rng) tok    { return T("KNum", r.Pick([]string{"1", "0", "42", "0.5", "0x10", "1e3"})) }
func tBig(r *Rng) tok    { return T("KBig", r.Pick([]string{"1n", "0n", "123n"})) }
func tStr(r *Rng) tok    { return T("KStr", r.Pick([]string{`"s"`, `'x'`, `""`, `"a b"`, `"<>"`, `'}'`})) }
func tNoSub(r *Rng) tok  { return T("KNoSubst", r.Pick([]string{"`t`", "``", "`a b`"})) }
func tKw(r *Rng) tok     { return T("KKeyword", r.Pick(otherKeywords)) }
func tOther(r *Rng) tok  { return T("KOther", r.Pick(otherPunct)) }
func tPriv(r *Rng) tok   { return T("KPrivate", r.Pick([]string{"#p", "#q"})) }
func tplHead(r *Rng) tok { return T("KTplHead", r.Pick([]string{"`${", "`a${", "`get-${"})) }
func tplMid(r *Rng) tok  { return T("KTplMid", r.Pick([]string{"}${", "}-${", "} ${"})) }
func tplTail(r *Rng) tok { return T("KTplTail", r.Pick([]string{"}`", "}x`", "} `"})) }

// TypeScript type grammar levels (see parser.ts: parseType, parseUnionTypeOrHigher,
// parseIntersectionTypeOrHigher, parseTypeOperatorOrHigher, parsePostfixTypeOrHigher,
// parseNonArrayType)
const (
	tlAny = iota
	tlUnion
	tlInter
	tlOperator
	tlPostfix
	tlPrimary
)

type tgen struct {
	r     *Rng
	ops   map[string]int
	inExt int // > 0 while generating the extends clause of a conditional type (where "infer" is allowed)
}

func (g *tgen) cnt(k string) { g.ops[k]++ }

func cat(parts ...[]tok) []tok {
	var out []tok
	for _, p := range parts {
		out = append(out, p...)
	}
	return out
}
func one(t tok) []tok { return []tok{t} }

// typ renders a random type that TypeScript parses at grammar level >= lvl
// (parenthesised when the drawn form lives at a lower level).
func (g *tgen) typ(d int, lvl int) []tok {
	r := g.r
	if d <= 0 {
		return g.primary(0)
	}
	form := r.Intn(100)
	var own int
	var out []tok
	switch {
	case form < 8: // conditional
		own = tlAny
		g.cnt("conditional")
		save := g.inExt
		g.inExt = 0
		check := g.typ(d-1, tlUnion)
		g.inExt = save + 1
		ext := g.extendsOperand(d - 1)
		g.inExt = save
		out = cat(check, one(tExtends), ext, one(tQuestion), g.typ(d-1, tlAny), one(tColon), g.typ(d-1, tlAny))
	case form < 16: // function / constructor type
		own = tlAny
		g.cnt("fntype")
		var pre []tok
		switch r.Intn(5) {
		case 0:
			pre = one(tNew)
		case 1:
			pre = []tok{tAbstract, tNew}
		}
		if r.Chance(30) {
			pre = cat(pre, g.typeParams(d-1))
		}
		out = cat(pre, g.fnParams(d-1), one(tArrow), g.returnType(d-1))
	case form < 28:
		own = tlUnion
		g.cnt("union")
		if r.Chance(10) {
			out = one(tBar)
		}
		out = cat(out, g.typ(d-1, tlInter))
		for k := r.Range(1, 2); k > 0; k-- {
			out = cat(out, one(tBar), g.typ(d-1, tlInter))
		}
	case form < 36:
		own = tlInter
		g.cnt("intersection")
		out = g.typ(d-1, tlOperator)
		for k := r.Range(1, 2); k > 0; k-- {
			out = cat(out, one(tAmp), g.typ(d-1, tlOperator))
		}
	case form < 44:
		own = tlOperator
		switch r.Intn(4) {
		case 0:
			g.cnt("keyof")
			out = cat(one(tKeyof), g.typ(d-1, tlOperator))
		case 1:
			g.cnt("readonly")
			out = cat(one(tReadonly), g.typ(d-1, tlOperator))
		case 2:
			g.cnt("unique symbol")
			out = []tok{tUnique, tSymbol}
		default:
			if g.inExt > 0 {
				g.cnt("infer")
				out = []tok{tInfer, tName(r)}
			} else {
				g.cnt("unique symbol")
				out = []tok{tUnique, tSymbol}
			}
		}
	case form < 58:
		own = tlPostfix
		g.cnt("postfix")
		out = g.typ(d-1, tlPostfix)
		for k := r.Range(1, 2); k > 0; k-- {
			if r.Bool() {
				out = cat(out, []tok{tLBrack, tRBrack})
			} else {
				out = cat(out, one(tLBrack), g.typ(d-1, tlAny), one(tRBrack))
			}
		}
	default:
		own = tlPrimary
		out = g.primary(d)
	}
	if own < lvl {
		g.cnt("paren")
		return cat(one(tLParen), out, one(tRParen))
	}
	return out
}

// the type after "extends" in a conditional type: parsed by TypeScript with
// conditional types disallowed (function types and infer constraints allowed)
func (g *tgen) extendsOperand(d int) []tok {
	r := g.r
	if r.Chance(25) {
		g.cnt("infer-constraint")
		// "infer U extends X" directly in the extends clause
		inner := cat([]tok{tInfer, tName(r), tExtends}, g.typ(d-1, tlPostfix))
		if r.Bool() {
			return cat(one(tLBrack), inner, one(tRBrack))
		}
		return inner
	}
	return g.typ(d, tlUnion)
}

func (g *tgen) qname() []tok {
	r := g.r
	out := one(tName(r))
	for k := r.Intn(3); k > 0 && r.Chance(40); k-- {
		out = append(out, tDot)
		if r.Chance(15) {
			out = append(out, pick2(r, tKw(r), tTypeof))
		} else {
			out = append(out, tName(r))
		}
	}
	return out
}

func (g *tgen) typeArgs(d int) []tok {
	out := one(tLt)
	for k := g.r.Range(1, 3); k > 0; k-- {
		out = cat(out, g.typ(d, tlAny))
		if k > 1 {
			out = append(out, tComma)
		}
	}
	return append(out, tGt)
}

func (g *tgen) typeParams(d int) []tok { return g.typeParamsC(d, true) }

func (g *tgen) heritage(d int) []tok {
	out := g.qname()
	if g.r.Chance(40) {
		out = cat(out, g.typeArgs(d))
	}
	return out
}

func (g *tgen) typeParamsC(d int, allowConst bool) []tok {
	r := g.r
	out := one(tLt)
	n := r.Range(1, 3)
	for k := 0; k < n; k++ {
		if allowConst && r.Chance(10) {
			out = append(out, tConst)
		}
		out = append(out, tName(r))
		if r.Chance(35) {
			out = cat(out, one(tExtends), g.typ(d, tlAny))
		}
		if r.Chance(25) {
			out = cat(out, one(tEq), g.typ(d, tlAny))
		}
		if k < n-1 {
			out = append(out, tComma)
		} else if r.Chance(15) {
			out = append(out, tComma)
		}
	}
	return append(out, tGt)
}

func (g *tgen) binding(d int) []tok {
	r := g.r
	switch {
	case d <= 0 || r.Chance(70):
		return one(tName(r))
	case r.Bool():
		out := one(tLBrack)
		if r.Chance(20) {
			out = append(out, tComma)
		}
		n := r.Range(0, 3)
		for k := 0; k < n; k++ {
			if k == n-1 && r.Chance(30) {
				out = append(out, tDots)
			}
			out = cat(out, g.binding(d-1))
			if k < n-1 {
				out = append(out, tComma)
			}
		}
		return append(out, tRBrack)
	default:
		out := one(tLBrace)
		n := r.Range(0, 3)
		for k := 0; k < n; k++ {
			switch r.Intn(5) {
			case 0:
				out = cat(out, []tok{tName(r), tColon}, g.binding(d-1))
			case 1:
				out = cat(out, []tok{tStr(r), tColon}, g.binding(d-1))
			case 2:
				out = cat(out, []tok{tKw(r), tColon}, g.binding(d-1))
			default:
				out = append(out, tName(r))
			}
			if k < n-1 {
				out = append(out, tComma)
			}
		}
		return append(out, tRBrace)
	}
}

func (g *tgen) fnParams(d int) []tok {
	r := g.r
	out := one(tLParen)
	n := r.Range(0, 3)
	for k := 0; k < n; k++ {
		if k == 0 && r.Chance(10) {
			out = append(out, tThis)
		} else {
			if k == n-1 && r.Chance(20) {
				out = append(out, tDots)
			}
			out = cat(out, g.binding(d))
		}
		if r.Chance(20) {
			out = append(out, tQuestion)
		}
		if r.Chance(85) {
			out = cat(out, one(tColon), g.typ(d, tlAny))
		}
		if k < n-1 {
			out = append(out, tComma)
		} else if r.Chance(10) {
			out = append(out, tComma)
		}
	}
	return append(out, tRParen)
}

// return-type position: predicates and asserts are allowed
func (g *tgen) returnType(d int) []tok {
	r := g.r
	switch r.Intn(10) {
	case 0:
		g.cnt("predicate")
		return cat([]tok{tName(r), tIs}, g.typ(d, tlAny))
	case 1:
		g.cnt("asserts")
		if r.Bool() {
			return []tok{tAsserts, tName(r)}
		}
		return cat([]tok{tAsserts, pick2(r, tName(r), tThis), tIs}, g.typ(d, tlAny))
	case 2:
		g.cnt("this-is")
		return cat([]tok{tThis, tIs}, g.typ(d, tlAny))
	}
	return g.typ(d, tlAny)
}

func (g *tgen) objectType(d int) []tok {
	r := g.r
	out := one(tLBrace)
	n := r.Range(0, 4)
	for k := 0; k < n; k++ {
		var key []tok
		switch r.Intn(6) {
		case 0:
			key = one(tStr(r))
		case 1:
			key = one(tNum(r))
		case 2:
			key = one(tKw(r))
		default:
			key = one(tName(r))
		}
		switch r.Intn(12) {
		case 0, 1, 2, 3: // property
			g.cnt("obj-prop")
			if r.Chance(20) {
				out = append(out, tReadonly)
			}
			out = cat(out, key)
			if r.Chance(30) {
				out = append(out, tQuestion)
			}
			out = cat(out, one(tColon), g.typ(d, tlAny))
		case 4, 5: // method
			g.cnt("obj-method")
			out = cat(out, key)
			if r.Chance(20) {
				out = append(out, tQuestion)
			}
			if r.Chance(25) {
				out = cat(out, g.typeParams(d))
			}
			out = cat(out, g.fnParams(d))
			if r.Chance(80) {
				out = cat(out, one(tColon), g.returnType(d))
			}
		case 6: // call / construct signature
			g.cnt("obj-callsig")
			if r.Chance(30) {
				out = append(out, tNew)
			}
			if r.Chance(25) {
				out = cat(out, g.typeParams(d))
			}
			out = cat(out, g.fnParams(d), one(tColon), g.typ(d, tlAny))
		case 7: // index signature
			g.cnt("obj-index")
			if r.Chance(20) {
				out = append(out, tReadonly)
			}
			out = cat(out, []tok{tLBrack, tName(r), tColon}, g.typ(d, tlAny), []tok{tRBrack, tColon}, g.typ(d, tlAny))
		case 8: // mapped type member
			g.cnt("obj-mapped")
			if r.Chance(30) {
				out = append(out, pick2(r, tPlus, tMinus))
			}
			if r.Chance(40) {
				out = append(out, tReadonly)
			}
			out = cat(out, []tok{tLBrack, tName(r), tIn}, g.typ(d, tlAny))
			if r.Chance(30) {
				out = cat(out, one(tAs), g.typ(d, tlAny))
			}
			out = append(out, tRBrack)
			if r.Chance(30) {
				out = append(out, pick2(r, tPlus, tMinus))
			}
			if r.Chance(50) {
				out = append(out, tQuestion)
			}
			out = cat(out, one(tColon), g.typ(d, tlAny))
		case 9: // accessor
			g.cnt("obj-accessor")
			if r.Bool() {
				out = cat(out, one(ctx(118, "get")), key, []tok{tLParen, tRParen, tColon}, g.typ(d, tlAny))
			} else {
				out = cat(out, one(ctx(119, "set")), key, []tok{tLParen, tName(r), tColon}, g.typ(d, tlAny), one(tRParen))
			}
		case 10: // computed key
			g.cnt("obj-computed")
			out = cat(out, []tok{tLBrack, tStr(r), tRBrack, tColon}, g.typ(d, tlAny))
		default: // bare key (implicit any)
			g.cnt("obj-bare")
			out = cat(out, key)
		}
		// separator
		switch r.Intn(4) {
		case 0:
			out = append(out, tSemi)
		case 1:
			out = append(out, tComma)
		case 2:
			if k < n-1 {
				out = append(out, tok{coq: "\nNL"}) // marker: newline before the next token
			}
		default:
			if k < n-1 {
				out = append(out, tSemi)
			}
		}
	}
	out = append(out, tRBrace)
	// resolve newline markers
	var res []tok
	nl := false
	for _, t := range out {
		if t.coq == "\nNL" {
			nl = true
			continue
		}
		if nl {
			t.nl = true
			nl = false
		}
		res = append(res, t)
	}
	return res
}

func (g *tgen) primary(d int) []tok {
	r := g.r
	if d <= 0 {
		switch r.Intn(6) {
		case 0:
			g.cnt("prim")
			return one(tPrim(r))
		case 1:
			g.cnt("literal")
			return one(pick2(r, tNum(r), tStr(r)))
		case 2:
			g.cnt("keyword-literal")
			return one([]tok{tVoid, tNull, tTrue, tFalse, tThis, tSymbol}[r.Intn(6)])
		default:
			g.cnt("name")
			return one(tName(r))
		}
	}
	switch r.Intn(16) {
	case 0:
		g.cnt("prim")
		return one(tPrim(r))
	case 1:
		g.cnt("literal")
		return one([]tok{tNum(r), tStr(r), tBig(r), tNoSub(r)}[r.Intn(4)])
	case 2:
		g.cnt("neg-literal")
		return []tok{tMinus, pick2(r, tNum(r), tBig(r))}
	case 3, 4, 5:
		g.cnt("ref-args")
		return cat(g.qname(), g.typeArgs(d-1))
	case 6:
		g.cnt("ref")
		return g.qname()
	case 7:
		g.cnt("typeof")
		out := cat(one(tTypeof), g.qname())
		if r.Chance(15) {
			out = append(out, tDot, tPriv(r))
		}
		if r.Chance(25) {
			out = cat(out, g.typeArgs(d-1))
		}
		return out
	case 8, 9:
		g.cnt("tuple")
		out := one(tLBrack)
		n := r.Range(0, 3)
		for k := 0; k < n; k++ {
			if r.Chance(15) {
				out = append(out, tDots)
			}
			if r.Chance(30) {
				g.cnt("tuple-label")
				out = append(out, tName(r))
				if r.Chance(30) {
					out = append(out, tQuestion)
				}
				out = cat(out, one(tColon), g.typ(d-1, tlAny))
			} else {
				out = cat(out, g.typ(d-1, tlAny))
				if r.Chance(15) {
					out = append(out, tQuestion)
				}
			}
			if k < n-1 {
				out = append(out, tComma)
			} else if r.Chance(10) {
				out = append(out, tComma)
			}
		}
		return append(out, tRBrack)
	case 10, 11:
		g.cnt("object")
		return g.objectType(d - 1)
	case 12:
		g.cnt("paren")
		return cat(one(tLParen), g.typ(d-1, tlAny), one(tRParen))
	case 13:
		g.cnt("template")
		out := one(tplHead(r))
		n := r.Range(1, 2)
		for k := 0; k < n; k++ {
			out = cat(out, g.typ(d-1, tlAny))
			if k < n-1 {
				out = append(out, tplMid(r))
			}
		}
		return append(out, tplTail(r))
	case 14:
		g.cnt("import-type")
		out := []tok{tImport, tLParen, tStr(r)}
		if r.Chance(20) {
			out = cat(out, []tok{tComma, tLBrace, T("KKeyword", "with"), tColon, tLBrace, ctx(117, "type"), tColon, tStr(r), tRBrace, tRBrace})
		}
		out = append(out, tRParen)
		if r.Chance(50) {
			out = append(out, tDot, tName(r))
			if r.Chance(40) {
				out = cat(out, g.typeArgs(d-1))
			}
		}
		if r.Chance(20) {
			return cat(one(tTypeof), out)
		}
		return out
	default:
		g.cnt("keyword-literal")
		return one([]tok{tVoid, tNull, tTrue, tFalse, tThis, tSymbol}[r.Intn(6)])
	}
}

// mergeGT joins adjacent ">" tokens the way the lexer does when there is no
// white space between them (">>", ">>>", ">=", ">>=", ">>>=").
func mergeGT(r *Rng, ts []tok, p int) []tok {
	var out []tok
	for _, t := range ts {
		if len(out) > 0 && !t.nl && r.Chance(p) {
			last := &out[len(out)-1]
			var m string
			switch {
			case last.coq == "KGt" && t.coq == "KGt":
				m = "KGtGt"
			case last.coq == "KGtGt" && t.coq == "KGt":
				m = "KGtGtGt"
			case last.coq == "KGt" && t.coq == "KEq":
				m = "KGtEq"
			case last.coq == "KGtGt" && t.coq == "KEq":
				m = "KGtGtEq"
			case last.coq == "KGtGtGt" && t.coq == "KEq":
				m = "KGtGtGtEq"
			}
			if m != "" {
				last.coq = m
				last.text += t.text
				continue
			}
		}
		out = append(out, t)
	}
	return out
}

// render: tokens separated by one space (newline when nl); returns the text and
// the byte offset of every token start
func render(ts []tok) (string, []int) {
	var sb strings.Builder
	starts := make([]int, len(ts))
	for i, t := range ts {
		if i > 0 {
			if t.nl {
				sb.WriteByte('\n')
			} else {
				sb.WriteByte(' ')
			}
		} else if t.nl {
			// a leading newline flag cannot be rendered before the first token
		}
		starts[i] = sb.Len()
		sb.WriteString(t.text)
	}
	return sb.String(), starts
}

func coqToks(ts []tok) string {
	parts := make([]string, len(ts))
	for i, t := range ts {
		parts[i] = fmt.Sprintf("(%s,%s)", t.coq, CBool(t.nl && i > 0))
	}
	return "[" + strings.Join(parts, ";") + "]"
}

// restKinds: the kinds of the tokens that remain when the lexer stands at byte
// offset end. ok=false when end is not expressible in the alphabet.
func restKinds(ts []tok, starts []int, textLen int, end int) ([]string, bool) {
	if end >= textLen {
		return []string{}, true
	}
	for i, s := range starts {
		if s == end {
			out := make([]string, 0, len(ts)-i)
			for _, t := range ts[i:] {
				out = append(out, t.coq)
			}
			return out, true
		}
		if s < end && end < s+len(ts[i].text) {
			// inside a token: only the split "<"/">" tokens are expressible
			off := end - s
			var rem string
			switch ts[i].coq {
			case "KGtGt", "KLtLt", "KGtEq", "KLtEq", "KGtGtEq", "KGtGtGt", "KGtGtGtEq", "KLtLtEq":
				rem = map[string]string{">": "KGt", ">>": "KGtGt", "=": "KEq", ">=": "KGtEq", ">>=": "KGtGtEq", "<": "KLt", "<=": "KLtEq"}[ts[i].text[off:]]
			}
			if rem == "" {
				return nil, false
			}
			out := []string{rem}
			for _, t := range ts[i+1:] {
				out = append(out, t.coq)
			}
			return out, true
		}
	}
	return nil, false
}

// followers: tokens that cannot continue a type at level lowest
func (g *tgen) follower() []tok {
	r := g.r
	switch r.Intn(14) {
	case 0:
		return nil
	case 1:
		return one(tEq)
	case 2:
		return one(tComma)
	case 3:
		return one(tRParen)
	case 4:
		return one(tSemi)
	case 5:
		return one(tLBrace)
	case 6:
		return one(tRBrace)
	case 7:
		return one(tRBrack)
	case 8:
		return one(tOther(r))
	case 9:
		return one(tGt)
	case 10:
		return one(tColon)
	case 11:
		return one(tQuestion)
	case 12:
		t := pick2(r, tLBrack, tExtends) // harmless only after a newline
		t.nl = true
		return []tok{t, tName(r)}
	default:
		return []tok{tKw(r), tLParen}
	}
}

func hasTemplate(ts []tok) bool {
	for _, t := range ts {
		if strings.HasPrefix(t.coq, "KTpl") || t.coq == "KNoSubst" {
			return true
		}
	}
	return false
}

func (g *tgen) anyToken() tok {
	r := g.r
	all := []tok{tBar, tAmp, tLt, tGt, tEq, tArrow, tLParen, tRParen, tLBrack, tRBrack, tLBrace, tRBrace, tColon, tQuestion, tComma, tSemi, tDot, tDots, tBang, tMinus, tPlus,
		tExtends, tTypeof, tNew, tImport, tThis, tConst, tIn, tFunction, tVoid, tNull, tTrue, tFalse, tKeyof, tReadonly, tUnique, tAbstract, tAsserts, tInfer, tIs, tSymbol, tOut, tAs,
		T("KLtEq", "<="), T("KLtLt", "<<"), T("KGtEq", ">="), T("KGtGt", ">>"), T("KGtGtGt", ">>>"), T("KLtLtEq", "<<="), T("KGtGtEq", ">>="), T("KGtGtGtEq", ">>>=")}
	switch r.Intn(8) {
	case 0:
		return tName(r)
	case 1:
		return tPrim(r)
	case 2:
		return []tok{tNum(r), tStr(r), tBig(r), tKw(r), tOther(r), tPriv(r)}[r.Intn(6)]
	}
	return all[r.Intn(len(all))]
}

func (g *tgen) mutate(ts []tok) []tok {
	r := g.r
	out := append([]tok{}, ts...)
	for k := r.Range(1, 2); k > 0 && len(out) > 0; k-- {
		i := r.Intn(len(out))
		switch r.Intn(5) {
		case 0: // delete
			out = append(out[:i], out[i+1:]...)
		case 1: // insert
			out = append(out[:i], append([]tok{g.anyToken()}, out[i:]...)...)
		case 2: // replace
			out[i] = g.anyToken()
		case 3: // swap with neighbour
			if i+1 < len(out) {
				out[i], out[i+1] = out[i+1], out[i]
			}
		default: // newline flag
			out[i].nl = !out[i].nl
		}
	}
	return out
}

type skipCase struct {
	which int
	lvl   int
	flags int
	ts    []tok
}

func runSkipper(c skipCase) (ok bool, rest []string, expressible bool, code int) {
	text, starts := render(c.ts)
	ok, end, code, _ := js_parser.VerifSkipTypeScript(text, c.which, js_ast.L(c.lvl), uint8(c.flags))
	if !ok {
		return false, nil, true, 0
	}
	rest, expressible = restKinds(c.ts, starts, len(text), end)
	return true, rest, expressible, code
}

func coqKinds(ks []string) string { return "[" + strings.Join(ks, ";") + "]" }

// skipperCases: correspondence (model vs Go on every case) and the property's
// own predicate on the real code for grammar-generated types (exactness).
func skipperCases(r *Rng, st *Stats, n int) []string {
	g := &tgen{r: r, ops: map[string]int{}}
	var items []string
	emit := func(c skipCase, kind string, nontrivial bool) (bool, []string, bool) {
		ok, rest, expr, code := runSkipper(c)
		if !expr {
			st.Histogram["skip-inexpressible-position"]++
			return ok, rest, false
		}
		text, _ := render(c.ts)
		items = append(items, fmt.Sprintf("(%d,%d,%d,%s,%s,%d,%s)", c.which, c.lvl, c.flags, coqToks(c.ts), CBool(ok), code, coqKinds(rest)))
		st.Note(kind, fmt.Sprintf("%d/%d/%d/%s", c.which, c.lvl, c.flags, text), nontrivial)
		return ok, rest, true
	}
	levels := []int{0, 0, 0, 9, 11, 18}
	for i := 0; i < n; i++ {
		d := r.Range(1, 4)
		lvl := levels[r.Intn(len(levels))]
		need := tlAny
		switch lvl {
		case 9:
			need = tlInter
		case 11:
			need = tlOperator
		case 18:
			need = tlPostfix
		}
		flags := 0
		var body []tok
		if r.Chance(15) {
			flags = 1
			body = g.returnType(d)
			lvl = 0
		} else {
			body = g.typ(d, need)
		}
		fol := g.follower()
		if len(fol) > 0 && fol[0].coq == "KQuestion" && false {
			fol = nil
		}
		ts := mergeGT(r, cat(body, fol), 50)
		nbody := len(ts) - len(fol)
		if len(fol) > 0 && (ts[len(ts)-len(fol)].coq != fol[0].coq) {
			nbody = -1 // the follower was merged into the type's last ">" (e.g. ">=")
		}
		c := skipCase{0, lvl, flags, ts}
		ok, rest, expr := emit(c, "type-valid", len(body) > 1)
		// the property's predicate on the real code: exactly the type is skipped
		if expr {
			text, _ := render(ts)
			want := len(fol)
			if nbody < 0 {
				want = len(fol) // first remaining token is the split remainder
			}
			if !ok {
				st.Fail("valid-type-rejected-by-skipper", map[string]interface{}{"type_and_follow": text, "level": lvl, "flags": flags}, "lexer panic", "type skipped")
			} else if len(rest) != want {
				st.Fail("type-skipper-not-exact", map[string]interface{}{"type_and_follow": text, "level": lvl, "flags": flags}, fmt.Sprintf("%d tokens left: %v", len(rest), rest), fmt.Sprintf("%d tokens left", want))
			}
		}
		if i < 4 {
			text, _ := render(ts)
			st.Sample(map[string]interface{}{"type": text, "level": lvl})
		}
		// malformed neighbours (model must agree with the Go code on failures and partial skips)
		if !hasTemplate(ts) {
			for k := 0; k < 2; k++ {
				m := g.mutate(ts)
				if len(m) == 0 || hasTemplate(m) {
					continue
				}
				fl := flags
				if r.Chance(20) {
					fl = []int{0, 1, 2, 4, 8, 6}[r.Intn(6)]
				}
				emit(skipCase{0, lvl, fl, m}, "type-mutated", true)
			}
		}
		// other entry points
		switch r.Intn(6) {
		case 0:
			o := cat(g.objectType(d), g.follower())
			emit(skipCase{1, 0, 0, o}, "object-type", true)
			if !hasTemplate(o) {
				emit(skipCase{1, 0, 0, g.mutate(o)}, "object-type-mutated", true)
			}
		case 1:
			p := mergeGT(r, cat(g.typeParams(d), g.follower()), 50)
			fl := []int{0, 2, 3, 4, 7}[r.Intn(5)]
			emit(skipCase{2, 0, fl, p}, "type-params", true)
			if !hasTemplate(p) {
				emit(skipCase{2, 0, fl, g.mutate(p)}, "type-params-mutated", true)
			}
		case 2:
			a := mergeGT(r, cat(g.typeArgs(d), g.follower()), 50)
			if r.Chance(30) && len(a) > 1 {
				// "<<T>() => void>" : the list starts with a "<<" token
				a = mergeGT(r, cat(one(T("KLtLt", "<<")), g.typeParams(d-1), g.fnParams(d-1), one(tArrow), g.typ(d-1, tlPostfix), one(tGt), g.follower()), 50)
			}
			e := r.Intn(2)
			emit(skipCase{3, 0, e, a}, "type-args", true)
			if !hasTemplate(a) {
				emit(skipCase{3, 0, e, g.mutate(a)}, "type-args-mutated", true)
			}
		case 3:
			f := cat(g.fnParams(d), g.follower())
			emit(skipCase{4, 0, 0, f}, "fn-args", true)
			if !hasTemplate(f) {
				emit(skipCase{4, 0, 0, g.mutate(f)}, "fn-args-mutated", true)
			}
		case 4:
			b := cat(g.binding(d), g.follower())
			emit(skipCase{5, 0, 0, b}, "binding", true)
			emit(skipCase{5, 0, 0, g.mutate(b)}, "binding-mutated", true)
		default:
			// type arguments in an expression: "f<T>(x)" vs "a < b > c"
			var fol []tok
			switch r.Intn(8) {
			case 0:
				fol = []tok{tLParen, tName(r), tRParen}
			case 1:
				fol = one(tName(r))
			case 2:
				fol = one(tNum(r))
			case 3:
				fol = one(tOther(r))
			case 4:
				fol = one(tNoSub(r))
			case 5:
				t := tName(r)
				t.nl = true
				fol = one(t)
			case 6:
				fol = one([]tok{tGt, tMinus, tPlus, tLt, tDot, tSemi, tRParen, tQuestion, tLBrack, tLBrace, tBang, tAs, tSatisf, tIn, tBar, tColon, tEq}[r.Intn(17)])
			default:
				fol = nil
			}
			a := mergeGT(r, cat(g.typeArgs(r.Range(0, 2)), fol), 40)
			if !hasTemplate(a[:len(a)-len(fol)]) || true {
				emit(skipCase{6, 0, 0, a}, "type-args-in-expression", true)
			}
		}
	}
	for k, v := range g.ops {
		st.Histogram["type-form:"+k] += v
	}
	return items
}
