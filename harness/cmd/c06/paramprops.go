package main

// Parameter properties: correspondence of the lowering model (coq/C06/ParamProps.v)
// with the constructor body esbuild emits under assign semantics.

import (
	"fmt"
	"regexp"
	"strings"

	"github.com/evanw/esbuild/pkg/api"
	. "github.com/evanw/esbuild/verifharness/hlib"
)

var (
	rePPOther  = regexp.MustCompile(`^\$p\("s", (\d+)\);$`)
	rePPAssign = regexp.MustCompile(`^this\.x(\d+) = x(\d+);$`)
	rePPField  = regexp.MustCompile(`^this\.f(\d+) = \$p\("f", (\d+)\);$`)
)

func paramPropCases(r *Rng, st *Stats, n int) []string {
	var items []string
	for i := 0; i < n; i++ {
		derived := r.Bool()
		np, nf := r.Range(0, 4), r.Range(0, 3)
		var params, pcoq, fields, fcoq []string
		for k := 0; k < np; k++ {
			isField := r.Chance(60)
			mod := ""
			if isField {
				mod = r.Pick([]string{"public ", "private ", "protected ", "readonly ", "public readonly ", "private readonly "})
			}
			p := fmt.Sprintf("%sx%d", mod, k)
			switch r.Intn(4) {
			case 0:
				p += fmt.Sprintf(" = $p(\"d\", %d)", k)
			case 1:
				p += "?: number"
			case 2:
				p += ": string"
			}
			params = append(params, p)
			pcoq = append(pcoq, fmt.Sprintf("(%d,%s)", k, CBool(isField)))
		}
		for k := 0; k < nf; k++ {
			id := 20 + k
			fields = append(fields, fmt.Sprintf("  %sf%d%s = $p(\"f\", %d);", r.Pick([]string{"", "private ", "readonly "}), id, r.Pick([]string{"", ": number"}), id))
			fcoq = append(fcoq, fmt.Sprint(id))
		}
		var body, bcoq []string
		nb := r.Range(0, 3)
		superAt := -1
		if derived {
			superAt = r.Intn(nb + 1)
		}
		id := 40
		for k := 0; k <= nb; k++ {
			if k == superAt {
				body = append(body, "super();")
				bcoq = append(bcoq, "(0,0)")
			}
			if k < nb {
				body = append(body, fmt.Sprintf("$p(\"s\", %d);", id))
				bcoq = append(bcoq, fmt.Sprintf("(1,%d)", id))
				id++
			}
		}
		ext := ""
		if derived {
			ext = " extends Base"
		}
		// fields before or after the constructor: the order of initialisers is declaration order either way
		ctor := "  constructor(" + strings.Join(params, ", ") + ") { " + strings.Join(body, " ") + " }"
		members := append(append([]string{}, fields...), ctor)
		if r.Bool() && len(fields) > 0 {
			members = append([]string{fields[0], ctor}, fields[1:]...)
		}
		src := "class Base { constructor(...a: any[]) {} }\nclass P" + ext + " {\n" + strings.Join(members, "\n") + "\n}\n"
		res := api.Transform(src, api.TransformOptions{Loader: api.LoaderTS, LogLevel: api.LogLevelSilent, TsconfigRaw: `{"compilerOptions":{"useDefineForClassFields":false}}`})
		if len(res.Errors) > 0 {
			st.Fail("parameter-property-class-rejected", src, res.Errors[0].Text, "accepted")
			continue
		}
		obs, ok := parseCtorBody(string(res.Code))
		if np+nf == 0 && !ok {
			continue
		}
		if !ok {
			st.Histogram["param-props-output-not-parsed"]++
			continue
		}
		st.Note("param-props-lowering", src, np+nf > 0)
		items = append(items, fmt.Sprintf("(%s,[%s],[%s],[%s],[%s])", CBool(derived), strings.Join(pcoq, ";"), strings.Join(fcoq, ";"), strings.Join(bcoq, ";"), strings.Join(obs, ";")))
	}
	return items
}

func parseCtorBody(out string) ([]string, bool) {
	i := strings.Index(out, "class P")
	if i < 0 {
		return nil, false
	}
	lines := strings.Split(out[i:], "\n")
	var obs []string
	in := false
	for _, l := range lines {
		if strings.HasPrefix(l, "  constructor(") {
			in = true
			if strings.HasSuffix(l, "{}") || strings.HasSuffix(l, "}") {
				return obs, true
			}
			continue
		}
		if !in {
			continue
		}
		if l == "  }" {
			return obs, true
		}
		t := strings.TrimSpace(l)
		switch {
		case strings.HasPrefix(t, "super("):
			obs = append(obs, "(0,0)")
		case rePPOther.MatchString(t):
			obs = append(obs, "(1,"+rePPOther.FindStringSubmatch(t)[1]+")")
		case rePPAssign.MatchString(t):
			obs = append(obs, "(2,"+rePPAssign.FindStringSubmatch(t)[1]+")")
		case rePPField.MatchString(t):
			obs = append(obs, "(3,"+rePPField.FindStringSubmatch(t)[1]+")")
		default:
			return nil, false
		}
	}
	// no explicit constructor in the output: nothing was generated
	return obs, !in
}
