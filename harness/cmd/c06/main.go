package main

// C06: TypeScript types are erased without runtime effect.
//   * correspondence: the Gallina model of the type skipper (coq/C06/SkipType.v)
//     against the Go skipper (hook internal/js_parser/export_verif_c06.go) on
//     grammar-generated types, their malformed neighbours and the other entry
//     points; enum member values against coq/C06/Enum.v
//   * glue (1): typed vs untyped programs through api.Transform, byte comparison
//   * glue (2): TypeScript-only run-time constructs executed in node against
//     hand-written reference JavaScript

import (
	"os"
	"path/filepath"

	. "github.com/evanw/esbuild/verifharness/hlib"
)

func main() { Main("c06", run) }

func run(seed uint64, n int, tier string, outDir string) []*Stats {
	// hlib's splitmix streams of consecutive seeds overlap (shifted by one draw): spread the seeds
	r := NewRng(seed*2654435761 + 97)
	st := NewStats("c06", seed)
	cf := NewCoqFile("From V Require Import Common.Base C06.TsTokens C06.SkipType C06.Enum C06.TsTarget C06.ParamProps C06.Harness.")

	cf.AddCases("skip_cases", "Z * Z * Z * toks * bool * Z * list tk", "check_skip", skipperCases(r, st, n))
	cf.AddCases("target_cases", "target_case", "check_target", targetCases(r, st))
	cf.AddCases("pp_cases", "pp_case", "check_pp", paramPropCases(r, st, n/2))
	cf.AddCases("resolve_cases", "resolve_case", "check_resolve", resolveCases(r, st, n/2))
	cf.AddCases("enum_cases", "enum_case", "check_enum", enumCases(r, st, n/2))
	glueGrid(st)
	glueTyped(r, st, n)
	glueRuntime(r, st, n/4)
	knownDefectReplays(st)

	st.Finish("skipper cases: distinct (entry point, level, flags, token text) with more than one token; typed-vs-untyped: distinct typed program texts that differ from their untyped counterpart; runtime: distinct programs accepted by node")
	if err := os.WriteFile(filepath.Join(outDir, "c06_cases.v"), []byte(cf.String()), 0o644); err != nil {
		panic(err)
	}
	return []*Stats{st}
}
