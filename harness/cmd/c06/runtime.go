package main

// Enum correspondence cases (coq/C06/Enum.v) and glue stream (2): TypeScript-only
// run-time constructs compiled by esbuild and executed in node against
// hand-written reference JavaScript generated alongside (the TypeScript compiler
// is not available offline; the references follow the TypeScript handbook and
// tsc's documented emit).

import (
	"fmt"
	"math"
	"math/big"
	"os"
	"path/filepath"
	"regexp"
	"strconv"
	"strings"

	"github.com/evanw/esbuild/pkg/api"
	. "github.com/evanw/esbuild/verifharness/hlib"
)

type ex struct {
	kind string // num str nan inf ref neg pos not bin opaque
	z    int64
	s    string
	name int
	op   int
	a, b *ex
}

var binOps = []string{"+", "-", "*", "/", "%", "**", "|", "&", "^", "<<", ">>", ">>>"}

func (e *ex) coq() string {
	switch e.kind {
	case "num":
		return "(XNum " + CZ(e.z) + ")"
	case "str":
		var cs []string
		for _, c := range e.s {
			cs = append(cs, fmt.Sprint(int(c)))
		}
		return "(XStr [" + strings.Join(cs, ";") + "])"
	case "nan":
		return "XNaN"
	case "inf":
		return "XInf"
	case "ref":
		return fmt.Sprintf("(XRef %d)", 100+e.name)
	case "neg":
		return "(XNeg " + e.a.coq() + ")"
	case "pos":
		return "(XPos " + e.a.coq() + ")"
	case "not":
		return "(XNot " + e.a.coq() + ")"
	case "bin":
		return fmt.Sprintf("(XBin %d %s %s)", e.op, e.a.coq(), e.b.coq())
	}
	return "XOpaque"
}

// text renders the initialiser; refStyle chooses A / E.A / E["A"]; in reference
// JavaScript (ref=true) members are plain variables
func (e *ex) text(r *Rng, enum string, names []string, ref bool) string {
	switch e.kind {
	case "num":
		if e.z < 0 {
			return fmt.Sprintf("(%d)", e.z)
		}
		return fmt.Sprint(e.z)
	case "str":
		return strconv.Quote(e.s)
	case "nan":
		return "NaN"
	case "inf":
		return "Infinity"
	case "ref":
		n := names[e.name]
		if ref {
			return "m_" + n
		}
		switch r.Intn(3) {
		case 0:
			return n
		case 1:
			return enum + "." + n
		default:
			return enum + "[\"" + n + "\"]"
		}
	case "neg":
		return "(-" + e.a.text(r, enum, names, ref) + ")"
	case "pos":
		return "(+" + e.a.text(r, enum, names, ref) + ")"
	case "not":
		return "(~" + e.a.text(r, enum, names, ref) + ")"
	case "bin":
		return "(" + e.a.text(r, enum, names, ref) + " " + binOps[e.op] + " " + e.b.text(r, enum, names, ref) + ")"
	}
	if ref {
		return "opaque()"
	}
	return "opaque()"
}

func genEx(r *Rng, d int, nPrev int, numericPrev []int, allowSpecial bool) *ex {
	if d <= 0 || r.Chance(30) {
		switch r.Intn(10) {
		case 0, 1:
			if len(numericPrev) > 0 {
				return &ex{kind: "ref", name: numericPrev[r.Intn(len(numericPrev))]}
			}
		case 2:
			if allowSpecial && r.Chance(30) {
				return &ex{kind: r.Pick([]string{"nan", "inf"})}
			}
		}
		return &ex{kind: "num", z: int64([]int{0, 1, 2, 3, 4, 5, 7, 8, 10, 16, 31, 32, 33, 100, 255, 256, 1000, 65535, 1 << 30, 1<<31 - 1, 1 << 31, 1<<32 - 1, 1 << 32, 1<<53 - 1}[r.Intn(24)])}
	}
	switch r.Intn(8) {
	case 0:
		return &ex{kind: "neg", a: genEx(r, d-1, nPrev, numericPrev, allowSpecial)}
	case 1:
		return &ex{kind: "not", a: genEx(r, d-1, nPrev, numericPrev, allowSpecial)}
	case 2:
		if r.Chance(30) {
			return &ex{kind: "pos", a: genEx(r, d-1, nPrev, numericPrev, allowSpecial)}
		}
	}
	op := r.Intn(len(binOps))
	if op == 5 {
		// ** : kept in the domain where the folded result is exact (integer results below 2^53, or
		// NaN / +-Infinity / 0 / 1): large finite results of math.Pow are some ulps away from V8's
		// (known finding C06-M / C03-G, replayed separately)
		a, b := &ex{kind: "num", z: int64(r.Range(-2, 12))}, &ex{kind: "num", z: int64(r.Range(0, 10))}
		special := func() *ex {
			switch r.Intn(3) {
			case 0:
				return &ex{kind: "nan"}
			case 1:
				return &ex{kind: "inf"}
			default:
				return &ex{kind: "neg", a: &ex{kind: "inf"}}
			}
		}
		switch r.Intn(10) {
		case 0, 1:
			b = special()
		case 2:
			a = special()
		case 3:
			// any earlier member as base, with an exponent whose result is exact for every base
			if len(numericPrev) > 0 {
				a = &ex{kind: "ref", name: numericPrev[r.Intn(len(numericPrev))]}
				b = []*ex{{kind: "num", z: 0}, {kind: "num", z: 1}, {kind: "nan"}}[r.Intn(3)]
			}
		}
		return &ex{kind: "bin", op: 5, a: a, b: b}
	}
	return &ex{kind: "bin", op: op, a: genEx(r, d-1, nPrev, numericPrev, allowSpecial), b: genEx(r, d-1, nPrev, numericPrev, allowSpecial)}
}

type enumMember struct {
	name string
	init *ex
}

type genEnum struct {
	name    string
	members []enumMember
	isConst bool
}

func genEnumDecl(r *Rng, name string) genEnum {
	g := genEnum{name: name, isConst: r.Chance(20)}
	n := r.Range(1, 7)
	var numeric []int
	for i := 0; i < n; i++ {
		m := enumMember{name: fmt.Sprintf("%s%d", r.Pick([]string{"A", "B", "Key", "x", "Z"}), i)}
		prevNumeric := len(numeric) > 0 && numeric[len(numeric)-1] == i-1
		switch {
		case r.Chance(35) && (i == 0 || prevNumeric):
			numeric = append(numeric, i) // auto-increment
		case r.Chance(15):
			m.init = &ex{kind: "str", s: r.Pick([]string{"x", "", "a b", "q-r", "Z", "0"})}
			if r.Chance(30) {
				m.init = &ex{kind: "bin", op: 0, a: m.init, b: &ex{kind: "str", s: r.Pick([]string{"-s", "1"})}}
			}
		case r.Chance(8) && !g.isConst:
			m.init = &ex{kind: "opaque"}
		default:
			m.init = genEx(r, r.Range(0, 3), i, numeric, true)
			numeric = append(numeric, i) // numeric if it folds; references to it are still fine either way
		}
		g.members = append(g.members, m)
	}
	return g
}

func (g genEnum) names() []string {
	var out []string
	for _, m := range g.members {
		out = append(out, m.name)
	}
	return out
}

func (g genEnum) tsText(r *Rng) string {
	var sb strings.Builder
	if g.isConst {
		sb.WriteString("const ")
	}
	sb.WriteString("enum " + g.name + " {\n")
	for _, m := range g.members {
		sb.WriteString("  " + m.name)
		if m.init != nil {
			sb.WriteString(" = " + m.init.text(r, g.name, g.names(), false))
		}
		sb.WriteString(",\n")
	}
	sb.WriteString("}\n")
	return sb.String()
}

// reference JavaScript following the handbook: every member is a variable; a
// member without initialiser is the previous one plus one; numeric members get
// a reverse mapping
func (g genEnum) refText(r *Rng) string {
	var sb strings.Builder
	sb.WriteString("var " + g.name + " = {};\n")
	prev := ""
	for i, m := range g.members {
		v := "m_" + m.name
		switch {
		case m.init != nil:
			sb.WriteString("var " + v + " = " + m.init.text(r, g.name, g.names(), true) + ";\n")
		case i == 0:
			sb.WriteString("var " + v + " = 0;\n")
		default:
			sb.WriteString("var " + v + " = typeof " + prev + " === \"number\" ? " + prev + " + 1 : undefined;\n")
		}
		sb.WriteString(g.name + "[\"" + m.name + "\"] = " + v + ";\n")
		sb.WriteString("if (typeof " + v + " !== \"string\") " + g.name + "[" + v + "] = \"" + m.name + "\";\n")
		prev = v
	}
	return sb.String()
}

func (g genEnum) probes() string {
	var sb strings.Builder
	for _, m := range g.members {
		sb.WriteString(fmt.Sprintf("$p(%q, %s.%s, %s[%s.%s]);\n", m.name, g.name, m.name, g.name, g.name, m.name))
	}
	sb.WriteString("$p(\"keys\", Object.keys(" + g.name + ").join());\n")
	return sb.String()
}

var reNum = regexp.MustCompile(`^-?[0-9]+$`)

func observedEnumValues(out string, g genEnum) (string, bool) {
	var items []string
	for _, m := range g.members {
		q := regexp.QuoteMeta(strconv.Quote(m.name))
		re := regexp.MustCompile(`\[` + q + `\] = (.*?)(\] = ` + q + `)?;\n`)
		mm := re.FindStringSubmatch(out)
		if mm == nil {
			return "", false
		}
		v := strings.TrimSpace(regexp.MustCompile(`/\*.*?\*/`).ReplaceAllString(mm[1], ""))
		f, ferr := strconv.ParseFloat(strings.ReplaceAll(v, "_", ""), 64)
		switch {
		case ferr == nil && v != "NaN" && !strings.Contains(v, "Inf") && !strings.HasPrefix(v, "0x"):
			if f == float64(int64(f)) && f < 9.1e15 && f > -9.1e15 && !(f == 0 && strings.HasPrefix(v, "-")) {
				items = append(items, "(0,["+CZ(int64(f))+"])")
			} else {
				items = append(items, "(7,[])")
			}
		case v == "NaN":
			items = append(items, "(1,[])")
		case v == "Infinity":
			items = append(items, "(2,[])")
		case v == "-Infinity":
			items = append(items, "(3,[])")
		case v == "void 0":
			items = append(items, "(5,[])")
		case strings.HasPrefix(v, "\"") && !strings.Contains(v[1:len(v)-1], "\\") && strings.HasSuffix(v, "\"") && len(v) >= 2 && isASCII(v):
			var cs []string
			for _, c := range v[1 : len(v)-1] {
				cs = append(cs, fmt.Sprint(int(c)))
			}
			items = append(items, "(4,["+strings.Join(cs, ";")+"])")
		case strings.HasPrefix(v, "\""):
			items = append(items, "(8,[])") // a string with escapes: compared by the node oracle only
		default:
			items = append(items, "(6,[])")
		}
	}
	return "[" + strings.Join(items, ";") + "]", true
}

func isASCII(s string) bool {
	for _, c := range s {
		if c > 126 {
			return false
		}
	}
	return true
}

type rtCase struct {
	kind, ts, ref string
	tsconfig      string
	files         map[string]string // for bundles: extra files
}

func enumCases(r *Rng, st *Stats, n int) []string {
	var items []string
	var rts []rtCase
	for i := 0; i < n; i++ {
		g := genEnumDecl(r, r.Pick([]string{"E", "Color", "Flags"}))
		g.isConst = false
		src := g.tsText(r)
		res := api.Transform(src, api.TransformOptions{Loader: api.LoaderTS, LogLevel: api.LogLevelSilent})
		if len(res.Errors) > 0 {
			st.Fail("enum-rejected", src, res.Errors[0].Text, "accepted")
			continue
		}
		obs, ok := observedEnumValues(string(res.Code), g)
		if !ok {
			st.Histogram["enum-output-not-parsed"]++
			continue
		}
		var ms []string
		for k, m := range g.members {
			if m.init == nil {
				ms = append(ms, fmt.Sprintf("(%d,None)", 100+k))
			} else {
				ms = append(ms, fmt.Sprintf("(%d,Some %s)", 100+k, m.init.coq()))
			}
		}
		if strings.Contains(obs, "(8,") {
			st.Histogram["enum-string-with-escapes"]++
		} else {
			items = append(items, "(["+strings.Join(ms, ";")+"],"+obs+")")
		}
		st.Note("enum-values", src, len(g.members) > 1)
		rts = append(rts, rtCase{kind: "enum", ts: "function opaque() { return 7; }\n" + src + g.probes(), ref: "function opaque() { return 7; }\n" + g.refText(r) + g.probes()})
	}
	runRuntimeCases(st, rts)
	return items
}

func compileTS(c rtCase) (string, string) {
	o := api.TransformOptions{Loader: api.LoaderTS, LogLevel: api.LogLevelSilent, TsconfigRaw: c.tsconfig}
	res := api.Transform(c.ts, o)
	if len(res.Errors) > 0 {
		return "", res.Errors[0].Text
	}
	return string(res.Code), ""
}

func runRuntimeCases(st *Stats, cases []rtCase) {
	var progs []string
	var outs []string
	var keep []rtCase
	for _, c := range cases {
		var out, e string
		if c.files != nil {
			out, e = bundleTS(c)
		} else {
			out, e = compileTS(c)
		}
		if e != "" {
			st.Fail("ts-runtime-construct-rejected", map[string]string{"kind": c.kind, "typescript": c.ts, "tsconfig": c.tsconfig}, e, "accepted")
			continue
		}
		keep = append(keep, c)
		outs = append(outs, out)
		progs = append(progs, out, c.ref)
	}
	results, err := RunNodeScripts(progs, 3000)
	if err != nil {
		st.Fail("node-oracle-unavailable", err.Error(), nil, nil)
		return
	}
	for i, c := range keep {
		a, b := results[2*i], results[2*i+1]
		if b.Err() == "SyntaxError" && len(b.Log) == 0 {
			st.Histogram["runtime-reference-invalid"]++
			continue
		}
		st.Note("runtime:"+c.kind, c.ts+c.tsconfig, len(b.Log) > 0)
		if !a.Same(b) {
			// re-run once before reporting
			again, err2 := RunNodeScripts([]string{outs[i], c.ref}, 3000)
			if err2 == nil && again[0].Same(again[1]) {
				continue
			}
			st.Fail("ts-runtime-construct-differs-from-typescript-semantics", map[string]string{"kind": c.kind, "typescript": c.ts, "tsconfig": c.tsconfig, "reference_js": c.ref, "esbuild_output": clip(outs[i])}, a.String(), b.String())
		}
	}
}

func bundleTS(c rtCase) (string, string) {
	dir, err := os.MkdirTemp("", "verif-c06-")
	if err != nil {
		return "", err.Error()
	}
	defer os.RemoveAll(dir)
	for name, text := range c.files {
		if err := os.WriteFile(filepath.Join(dir, name), []byte(text), 0o644); err != nil {
			return "", err.Error()
		}
	}
	os.WriteFile(filepath.Join(dir, "entry.ts"), []byte(c.ts), 0o644)
	res := api.Build(api.BuildOptions{EntryPoints: []string{filepath.Join(dir, "entry.ts")}, Bundle: true, Write: false, LogLevel: api.LogLevelSilent, Format: api.FormatIIFE, TsconfigRaw: c.tsconfig})
	if len(res.Errors) > 0 {
		return "", res.Errors[0].Text
	}
	return string(res.OutputFiles[0].Contents), ""
}

func glueRuntime(r *Rng, st *Stats, n int) {
	var cases []rtCase
	for i := 0; i < n; i++ {
		v := func() int { return r.Range(1, 50) }
		switch r.Intn(12) {
		case 10, 11: // enum merged with a namespace of the same name; outer bindings shadowed by the namespace's exports
			a, b, c2, d, e, f2, g2, i2 := 100+v(), 200+v(), 300+v(), 400+v(), 500+v(), 600+v(), 700+v(), 800+v()
			kind := r.Pick([]string{"const", "let"})
			ns := fmt.Sprintf("namespace Level { export %s D = %d; export let o = %d; export function h() { return %d; } export class K { static v = %d; } export const viaEnum = Low0; export const own = D + o; }\n", kind, e, f2, g2, i2)
			nsRef := fmt.Sprintf("Level.D = %d; Level.o = %d; Level.h = function h() { return %d; }; Level.K = class K { static v = %d; }; Level.viaEnum = Low0; Level.own = Level.D + Level.o;\n", e, f2, g2, i2)
			// inside the enum body only enum members are in scope: D, h, K are the OUTER bindings
			en := "enum Level { Low0 = 1, A = D, B = h(), C = K.v, E = A + 1, F = Low0 + 1 }\n"
			enRef := "Level[Level.Low0 = 1] = \"Low0\"; Level[Level.A = D] = \"A\"; Level[Level.B = h()] = \"B\"; Level[Level.C = K.v] = \"C\"; Level[Level.E = Level.A + 1] = \"E\"; Level[Level.F = 2] = \"F\";\n"
			en2, en2Ref := "", ""
			if r.Bool() {
				// a second enum block: members of the first block are in scope, namespace exports still are not
				en2 = "enum Level { G = A + D, H = Low0 + 10 }\n"
				en2Ref = "Level[Level.G = Level.A + D] = \"G\"; Level[Level.H = 11] = \"H\";\n"
			}
			outer := fmt.Sprintf("%s D = %d; function h() { return %d; } class K { static v = %d; } const Low0 = %d;\n", r.Pick([]string{"const", "let", "var"}), a, b, c2, d)
			probe := "$p(\"merge\", Level.A, Level.B, Level.C, Level.E, Level.F, Level[Level.A], Level[Level.B], Level[Level.E], Level.D, Level.o, Level.h(), Level.K.v, Level.viaEnum, Level.own, Level.Low0, Level[1], Level.G, Level.H);\n"
			var ts, ref string
			if r.Bool() {
				ts, ref = outer+ns+en+en2+probe, outer+"var Level = {};\n"+nsRef+enRef+en2Ref+probe
			} else {
				ts, ref = outer+en+ns+en2+probe, outer+"var Level = {};\n"+enRef+nsRef+en2Ref+probe
			}
			cases = append(cases, rtCase{kind: "enum-namespace-merge-shadowing", ts: ts, ref: ref})
		case 8, 9: // import-equals aliases of depth 1..4 (executed: an alias that is kept over a type-only root throws)
			ie := genImportEquals(r)
			ts := strings.ReplaceAll(ie.p.ts, "export ", "")
			if strings.Contains(ie.p.ts, "export import") {
				ts = ie.p.ts
			}
			cases = append(cases, rtCase{kind: "import-equals-deep", ts: strings.ReplaceAll(strings.ReplaceAll(ie.p.ts, "export import", "import"), "export const zz = 1;\n", ""), ref: ie.ref})
			_ = ts
		case 0: // const enum inlining, same file and across files (bundle)
			g := genEnumDecl(r, "CE")
			g.isConst = true
			uses := ""
			for _, m := range g.members {
				uses += fmt.Sprintf("$p(%q, CE.%s, CE[%q]);\n", m.name, m.name, m.name)
			}
			refUses := ""
			for _, m := range g.members {
				refUses += fmt.Sprintf("$p(%q, m_%s, m_%s);\n", m.name, m.name, m.name)
			}
			if r.Bool() {
				cases = append(cases, rtCase{kind: "const-enum", ts: g.tsText(r) + uses, ref: g.refText(r) + refUses})
			} else {
				cases = append(cases, rtCase{kind: "const-enum-cross-module", ts: "import { CE } from './e'\n" + uses, ref: g.refText(r) + refUses,
					files: map[string]string{"e.ts": "export " + g.tsText(r)}})
			}
		case 1: // namespaces: exported bindings are properties, merging, nested
			a, b, c := v(), v(), v()
			ts := fmt.Sprintf(`namespace N { export const a = %d; export function f() { return a + b; } export let b = %d; let hidden = %d; export namespace In { export const d = a + hidden; } }
namespace N { export const c = a + %d + b; b = b + 1; b++; export type T = number; }
$p("ns", N.a, N.f(), N.b, N.c, N.In.d, Object.keys(N).join());
`, a, b, c, c)
			ref := fmt.Sprintf(`var N = {}; N.a = %d; N.f = function() { return N.a + N.b; }; N.b = %d; var hidden = %d; N.In = {}; N.In.d = N.a + hidden;
N.c = N.a + %d + N.b; N.b = N.b + 1; N.b++;
$p("ns", N.a, N.f(), N.b, N.c, N.In.d, Object.keys(N).join());
`, a, b, c, c)
			cases = append(cases, rtCase{kind: "namespace", ts: ts, ref: ref})
		case 2: // parameter properties: assignment order relative to super() and field initialisers (assign semantics)
			derived := r.Bool()
			x, y := v(), v()
			ext, sup, base := "", "", ""
			if derived {
				base = "class Base { constructor() { $p(\"base-ctor\"); } }\n"
				ext = " extends Base"
				sup = "$p(\"before-super\"); super(); "
			}
			ts := fmt.Sprintf(`%sclass P%s { f = $p("field", 1); constructor(public x = $p("default-x", %d), private y: number = %d, readonly z?: string, w = 3) { %s$p("body", this.x, (this as any).y, this.f, "z" in this, "w" in this); } g = $p("field", 2); }
$p("keys", Object.keys(new P()).join());
`, base, ext, x, y, sup)
			ref := fmt.Sprintf(`%sclass P%s { constructor(x = $p("default-x", %d), y = %d, z, w = 3) { %sthis.x = x; this.y = y; this.z = z; this.f = $p("field", 1); this.g = $p("field", 2); $p("body", this.x, this.y, this.f, "z" in this, "w" in this); } }
$p("keys", Object.keys(new P()).join());
`, base, ext, x, y, sup)
			cases = append(cases, rtCase{kind: "parameter-properties", ts: ts, ref: ref, tsconfig: `{"compilerOptions":{"useDefineForClassFields":false}}`})
		case 3: // import-equals aliases
			a := v()
			ts := fmt.Sprintf(`namespace A { export namespace B { export const v = %d; export function g() { return v * 2; } } }
import X = A.B; import Y = A.B.g;
$p("alias", X.v, Y());
`, a)
			ref := fmt.Sprintf(`var A = {}; A.B = {}; A.B.v = %d; A.B.g = function() { return A.B.v * 2; };
var X = A.B; var Y = A.B.g;
$p("alias", X.v, Y());
`, a)
			cases = append(cases, rtCase{kind: "import-equals", ts: ts, ref: ref})
		case 4: // class fields: define vs assign semantics selected by tsconfig
			a := v()
			define := r.Bool()
			ts := fmt.Sprintf(`class A { set x(val: number) { $p("setter", val); } }
class B extends A { x = %d; y; static s = $p("static", 1); }
const b = new B(); $p("own", Object.getOwnPropertyNames(b).join(), "y" in b);
`, a)
			var ref string
			if define {
				ref = fmt.Sprintf(`class A { set x(val) { $p("setter", val); } }
class B extends A { x = %d; y; static s = $p("static", 1); }
const b = new B(); $p("own", Object.getOwnPropertyNames(b).join(), "y" in b);
`, a)
			} else {
				ref = fmt.Sprintf(`class A { set x(val) { $p("setter", val); } }
class B extends A { constructor() { super(...arguments); this.x = %d; } }
B.s = $p("static", 1);
const b = new B(); $p("own", Object.getOwnPropertyNames(b).join(), "y" in b);
`, a)
			}
			cases = append(cases, rtCase{kind: fmt.Sprintf("class-fields-define=%v", define), ts: ts, ref: ref, tsconfig: fmt.Sprintf(`{"compilerOptions":{"useDefineForClassFields":%v}}`, define)})
		case 5: // experimental decorators: evaluation and application order
			ts := `function d(n: string): any { $p("eval", n); return function () { $p("apply", n); }; }
@d("c1") @d("c2") class C { @d("m1") @d("m2") m(@d("p1") a: number, @d("p2") b: number) {} @d("f") f: number = 1; }
`
			ref := `$p("eval", "m1"); $p("eval", "m2"); $p("eval", "p1"); $p("eval", "p2"); $p("apply", "p2"); $p("apply", "p1"); $p("apply", "m2"); $p("apply", "m1");
$p("eval", "f"); $p("apply", "f"); $p("eval", "c1"); $p("eval", "c2"); $p("apply", "c2"); $p("apply", "c1");
`
			cases = append(cases, rtCase{kind: "experimental-decorators", ts: ts, ref: ref, tsconfig: `{"compilerOptions":{"experimentalDecorators":true}}`})
		case 6: // enum merging and enum inside namespace, references across blocks
			a := v()
			ts := fmt.Sprintf(`enum M { A = %d, B } enum M { C = A + 10, D = M.B * 2 }
namespace W { export enum In { X = %d, Y } export const y = In.Y; }
$p("merge", M.A, M.B, M.C, M.D, M[M.C], W.In.Y, W.y, W.In[W.In.X]);
`, a, a)
			ref := fmt.Sprintf(`var M = {}; M[M.A = %d] = "A"; M[M.B = %d] = "B"; M[M.C = %d] = "C"; M[M.D = %d] = "D";
var W = {}; W.In = {}; W.In[W.In.X = %d] = "X"; W.In[W.In.Y = %d] = "Y"; W.y = W.In.Y;
$p("merge", M.A, M.B, M.C, M.D, M[M.C], W.In.Y, W.y, W.In[W.In.X]);
`, a, a+1, a+10, (a+1)*2, a, a+1)
			cases = append(cases, rtCase{kind: "enum-merge-and-namespace", ts: ts, ref: ref})
		default: // a typed program behaves like its untyped counterpart (execution, complements the byte comparison)
			js := NewJSGen(r, AllJSFeatures())
			g := &tsgen{r: r, js: js, tg: &tgen{r: r, ops: map[string]int{}}, kinds: map[string]int{}, noAsync: true}
			var parts []interface{}
			parts = append(parts, js.Program(r.Range(1, 3)))
			for k := r.Range(1, 3); k > 0; k-- {
				parts = append(parts, g.typeOnlyStmt(2), "try { $p(\"t\", ", g.expr(2), "); } catch (e) { $p(\"E\", e && e.constructor && e.constructor.name); }\n")
			}
			p := dcat(parts...)
			cases = append(cases, rtCase{kind: "typed-program-executes-like-untyped", ts: p.ts, ref: p.js, tsconfig: agreeTsconfig})
		}
	}
	runRuntimeCases(st, cases)
}

// Deterministic replays of defects of the pinned tree that this check has
// confirmed (recorded in known_findings.d/C06.json).
func knownDefectReplays(st *Stats) {
	// B (DESIGN section 7; fixed in /repo by 9e1822e, must pass now): compile-time ** with NaN / infinite exponents
	tsB := "enum E { A = 1 ** (0/0), B = (-1) ** Infinity, C = 1 ** -Infinity, D = NaN ** 0, F = 2 ** NaN }\n$p(\"pow\", E.A, E.B, E.C, E.D, E.F);\n"
	if out, e := compileTS(rtCase{ts: tsB}); e == "" {
		res, err := RunNodeScripts([]string{out, "$p(\"pow\", 1 ** (0/0), (-1) ** Infinity, 1 ** -Infinity, NaN ** 0, 2 ** NaN);\n"}, 3000)
		st.Note("corpus-B", tsB, true)
		if err == nil && !res[0].Same(res[1]) {
			st.Fail("enum-pow-special-cases-differ-from-ecmascript", map[string]string{"typescript": tsB, "esbuild_output": out}, res[0].String(), res[1].String())
		}
	} else {
		st.Fail("enum-pow-special-cases-differ-from-ecmascript", map[string]string{"typescript": tsB}, e, "accepted")
	}
	// M (C03-G family, not repairable minimally): a large finite folded ** is some ulps away from V8's result
	tsM := "enum E { A = 9 ** 100 }\n$p(\"A\", E.A);\n"
	if out, e := compileTS(rtCase{ts: tsM}); e == "" {
		res, err := RunNodeScripts([]string{out, "$p(\"A\", 9 ** 100);\n"}, 3000)
		if err == nil && !res[0].Same(res[1]) {
			st.Fail("known-M-enum-pow-finite-result-ulps", map[string]string{"scenario": "known-M", "typescript": tsM, "esbuild_output": out}, res[0].String(), res[1].String())
		}
	}
	// math.Pow is exact wherever the enum model claims a value: integer results with |x ** y| <= 2^53
	for x := int64(-12); x <= 12; x++ {
		for y := int64(0); y <= 60; y++ {
			exact := new(big.Int).Exp(big.NewInt(x), big.NewInt(y), nil)
			if new(big.Int).Abs(exact).Cmp(new(big.Int).Lsh(big.NewInt(1), 53)) > 0 {
				continue
			}
			got := math.Pow(float64(x), float64(y))
			want, _ := new(big.Float).SetInt(exact).Float64()
			if got != want {
				st.Fail("math-pow-not-exact-in-the-modelled-domain", map[string]int64{"base": x, "exponent": y}, got, want)
			}
		}
	}
	st.Note("pow-exact-domain", "grid", true)
	// I (fixed in /repo by 41c6538, must pass now): an assignment to a variable exported by a sibling block of a merged namespace is not rewritten to a property
	tsI := "namespace N { export let b = 1; }\nnamespace N { b = b + 1; b++; ({ b } = { b: b * 2 }); [b] = [b + 1]; }\n$p(\"b\", N.b, typeof b);\n"
	refI := "var N = {}; N.b = 1; N.b = N.b + 1; N.b++; N.b = N.b * 2; N.b = N.b + 1;\n$p(\"b\", N.b, typeof b);\n"
	if out, e := compileTS(rtCase{ts: tsI}); e == "" {
		res, err := RunNodeScripts([]string{out, refI}, 3000)
		if err == nil && !res[0].Same(res[1]) {
			st.Fail("write-to-sibling-namespace-export-not-rewritten", map[string]string{"typescript": tsI, "esbuild_output": out, "reference_js": refI}, res[0].String(), res[1].String())
		}
	}
	// K (fixed by 03dfd6f, must pass now): an import-equals alias used only as a type inside a namespace body is not erased
	tsK := "declare namespace Types { namespace Inner { class Box {} } }\nnamespace App { import Box = Types.Inner.Box; export function f(b?: Box) { return 1; } }\n$p(\"k\", App.f());\n"
	refK := "var App = {}; App.f = function (b) { return 1; };\n$p(\"k\", App.f());\n"
	if out, e := compileTS(rtCase{ts: tsK}); e == "" {
		res, err := RunNodeScripts([]string{out, refK}, 3000)
		if err == nil && !res[0].Same(res[1]) {
			st.Fail("type-only-import-equals-inside-namespace-not-erased", map[string]string{"typescript": tsK, "esbuild_output": out, "reference_js": refK}, res[0].String(), res[1].String())
		}
	}
	// L (fixed by cf38a52, must pass now): under minify-syntax adjacent import-equals statements are merged and only the first declaration is inspected
	tsL := "namespace A { export type T = 1; export const v = 2 }\nimport X = A.T; import Y = A.v;\nlet t: X = Y;\n$p(\"l\", t);\n"
	refL := "var A = { v: 2 };\nconst Y = A.v;\nlet t = Y;\n$p(\"l\", t);\n"
	if res := api.Transform(tsL, api.TransformOptions{Loader: api.LoaderTS, LogLevel: api.LogLevelSilent, MinifySyntax: true}); len(res.Errors) == 0 {
		out := string(res.Code)
		rr, err := RunNodeScripts([]string{out, refL}, 3000)
		if err == nil && !rr[0].Same(rr[1]) {
			st.Fail("merged-import-equals-under-minify-syntax", map[string]string{"typescript": tsL, "options": "minify-syntax", "esbuild_output": out, "reference_js": refL}, rr[0].String(), rr[1].String())
		}
	}
	// J (fixed by e63233a, must pass now): valid JavaScript rejected by the ts loader when lowering to es2015
	jsJ := "x = a ? ([...[1]]) : c;\n"
	oj := api.TransformOptions{Loader: api.LoaderJS, LogLevel: api.LogLevelSilent, Target: api.ES2015}
	ot := api.TransformOptions{Loader: api.LoaderTS, LogLevel: api.LogLevelSilent, Target: api.ES2015}
	if a, ea := transformText(jsJ, oj); ea == "" {
		if b, eb := transformText(jsJ, ot); eb != "" || a != b {
			st.Fail("parenthesised-spread-after-question-rejected-by-ts-loader", map[string]string{"javascript": jsJ, "options": "target=es2015"}, eb+b, a)
		}
	}
	// H (fixed in /repo by 8c00bb7, must pass now): "===" directly after a type-argument list
	for _, pr := range [][2]string{{"x = a as Array<number>===b;\n", "x = a ===b;\n"}, {"x = a as Array<number>==b;\n", "x = a ==b;\n"},
		{"x = a as A<B<C>>===b;\n", "x = a ===b;\n"}, {"x = a as Array<number>=== b ? c : d;\n", "x = a === b ? c : d;\n"}} {
		jsOut, _ := transformText(pr[1], api.TransformOptions{Loader: api.LoaderJS, LogLevel: api.LogLevelSilent})
		tsOut, tsErr := transformText(pr[0], api.TransformOptions{Loader: api.LoaderTS, LogLevel: api.LogLevelSilent})
		st.Note("corpus-H", pr[0], true)
		if tsErr != "" || tsOut != jsOut {
			st.Fail("type-arguments-followed-by-strict-equals-rejected", map[string]string{"typed": pr[0], "untyped": pr[1]}, tsErr+tsOut, jsOut)
		}
	}
}
