package main

// Glue stream (1): typed vs untyped.  A program is generated as a pair
// (typed TypeScript text, untyped JavaScript text) that differ only by type
// syntax placed according to the TypeScript grammar; api.Transform with the ts
// loader on the typed text must be byte-identical to api.Transform with the js
// loader on the untyped text under the same options.

import (
	"fmt"
	"os"
	"strings"

	"github.com/evanw/esbuild/pkg/api"
	. "github.com/evanw/esbuild/verifharness/hlib"
)

// dp: a dual piece of program text
type dp struct{ ts, js string }

type tsOnly string

func dcat(parts ...interface{}) dp {
	var a, b strings.Builder
	for _, p := range parts {
		switch v := p.(type) {
		case string:
			a.WriteString(v)
			b.WriteString(v)
		case tsOnly:
			a.WriteString(string(v))
		case dp:
			a.WriteString(v.ts)
			b.WriteString(v.js)
		default:
			panic("dcat")
		}
	}
	return dp{a.String(), b.String()}
}

type tsgen struct {
	r       *Rng
	js      *JSGen
	tg      *tgen
	tsx     bool
	kinds   map[string]int
	n       int
	esm     bool
	nest    int
	noAsync bool // programs that are executed: a rejected promise of a generated async arrow would end the node process
}

func (g *tsgen) cnt(k string) { g.kinds[k]++ }

// expressions of the shared generator are validated as JavaScript before they are
// placed (they may end up inside erased, TypeScript-only regions, where an invalid
// leaf would make only the typed side fail)
func (g *tsgen) validJS(gen func() string) string {
	for i := 0; i < 20; i++ {
		e := gen()
		if _, err := transformText("x = ("+e+");", api.TransformOptions{Loader: api.LoaderJS, LogLevel: api.LogLevelSilent}); err == "" {
			return e
		}
		g.cnt("jsgen-invalid-leaf-regenerated")
	}
	return "0"
}
func (g *tsgen) jsA(d int) string { return g.validJS(func() string { return g.js.ExprAssign(d) }) }
func (g *tsgen) jsS(d int) string { return g.validJS(func() string { return g.js.ExprShift(d) }) }
func (g *tsgen) jsP(d int) string { return g.validJS(func() string { return g.js.ExprPrefix(d) }) }
func (g *tsgen) fresh(p string) string {
	g.n++
	return fmt.Sprintf("%s%d", p, g.n)
}

// typeText: a random type of the grammar as text (level: TypeScript grammar level)
func (g *tsgen) typeText(d int, lvl int) string {
	ts := mergeGT(g.r, g.tg.typ(d, lvl), 60)
	s, _ := render(ts)
	return s
}
func (g *tsgen) ty() string { return g.typeText(g.r.Range(0, 3), tlAny) }

// a type that does not end in a way that can swallow the JavaScript token that
// follows (used before "=>" where a trailing parenthesised type is ambiguous in
// TypeScript itself)
func (g *tsgen) tyNoParenEnd() string {
	for {
		s := g.typeText(g.r.Range(0, 2), tlAny)
		if !strings.HasSuffix(s, ")") {
			return s
		}
	}
}
func (g *tsgen) retTy() string {
	ts := mergeGT(g.r, g.tg.returnType(g.r.Range(0, 2)), 60)
	s, _ := render(ts)
	return s
}
func (g *tsgen) typeParamsText() string {
	s, _ := render(mergeGT(g.r, g.tg.typeParams(g.r.Range(0, 2)), 60))
	return s
}
func (g *tsgen) typeParamsNoConst() string {
	s, _ := render(mergeGT(g.r, g.tg.typeParamsC(g.r.Range(0, 2), false), 60))
	return s
}
func (g *tsgen) heritage() string {
	s, _ := render(mergeGT(g.r, g.tg.heritage(g.r.Range(0, 1)), 60))
	return s
}
func (g *tsgen) typeArgsText() string {
	s, _ := render(mergeGT(g.r, g.tg.typeArgs(g.r.Range(0, 2)), 60))
	return s
}

func (g *tsgen) optTypeParams() dp {
	if g.r.Chance(35) {
		g.cnt("type-params")
		return dcat(tsOnly(g.typeParamsText()))
	}
	return dp{}
}

func (g *tsgen) colonType() dp {
	if g.r.Chance(75) {
		g.cnt("annotation")
		return dcat(tsOnly(": " + g.ty()))
	}
	return dp{}
}

// ---------------------------------------------------------------- expressions

func (g *tsgen) expr(d int) dp {
	r := g.r
	if d <= 0 {
		return dcat(g.jsA(1))
	}
	switch r.Intn(24) {
	case 0, 1:
		g.cnt("as")
		return dcat("(", g.operand(d-1), tsOnly(" as "+g.ty()), ")")
	case 2:
		g.cnt("satisfies")
		return dcat("(", g.operand(d-1), tsOnly(" satisfies "+g.ty()), ")")
	case 3:
		g.cnt("as-chain")
		return dcat("(", g.operand(d-1), tsOnly(" as "+g.ty()+" as "+g.ty()), ")")
	case 4:
		g.cnt("as-const")
		return dcat("(", g.operand(d-1), tsOnly(" as const"), ")")
	case 5:
		g.cnt("non-null")
		return dcat(g.callee(d-1), tsOnly("!"))
	case 6:
		g.cnt("non-null-member")
		return dcat(g.callee(d-1), tsOnly("!"), r.Pick([]string{".a", "[0]", "?.b", "()", ".a.b"}))
	case 7:
		if g.tsx {
			g.cnt("as")
			return dcat("(", g.operand(d-1), tsOnly(" as "+g.ty()), ")")
		}
		g.cnt("angle-cast")
		return dcat("(", tsOnly("< "+g.typeText(g.r.Range(0, 3), tlUnion)+" >"), g.unary(d-1), ")")
	case 8, 9:
		g.cnt("call-type-args")
		return dcat(g.callee(d-1), tsOnly(g.typeArgsText()), "(", g.expr(d-1), ")")
	case 10:
		g.cnt("new-type-args")
		if r.Bool() {
			return dcat("new ", g.fresh("K"), tsOnly(g.typeArgsText()), "(", g.expr(d-1), ")")
		}
		return dcat("(new ", g.fresh("K"), tsOnly(g.typeArgsText()), ")")
	case 11:
		g.cnt("tagged-template-type-args")
		return dcat(g.fresh("tag"), tsOnly(g.typeArgsText()), "`a${", g.expr(d-1), "}b`")
	case 12:
		g.cnt("optional-call-type-args")
		if r.Bool() {
			return dcat(g.fresh("o"), "?.m", tsOnly(g.typeArgsText()), "(", g.expr(d-1), ")")
		}
		return dcat(g.fresh("o"), "?.", tsOnly(g.typeArgsText()), "(", g.expr(d-1), ")")
	case 13:
		g.cnt("instantiation-expression")
		return dcat("[", g.fresh("f"), tsOnly(g.typeArgsText()), ", ", g.expr(d-1), "]")
	case 14:
		// comparison chains that are NOT type arguments: identical under both loaders
		g.cnt("less-greater-not-type-args")
		a, b, c := g.fresh("a"), g.fresh("b"), g.fresh("c")
		return dcat("(", r.Pick([]string{
			a + " < " + b + " > " + c,
			a + " < " + b + " > -" + c,
			a + " < " + b + " > +" + c,
			a + " < " + b + " >= " + c,
			a + " < " + b + " >> " + c,
			a + " < (" + b + " > (" + c + "))",
			a + " < " + b + " > [" + c + "]",
			a + " << " + b + " > " + c,
			a + " < " + b + " > !" + c,
			a + " < " + b + " > typeof " + c,
		}), ")")
	case 15:
		// "a < b > (c)" IS a call with type arguments in TypeScript
		g.cnt("less-greater-is-type-args")
		a, b, c := g.fresh("a"), g.fresh("b"), g.fresh("c")
		return dcat("(", a, tsOnly(" < "+b+" > "), "(", c, "))")
	case 16:
		g.cnt("arrow")
		return g.arrow(d - 1)
	case 17:
		g.cnt("conditional-arrow")
		// a ? (b) : c => d   parses as   a ? b : (c => d)   in both languages
		a, b, c := g.fresh("a"), g.fresh("b"), g.fresh("c")
		switch r.Intn(3) {
		case 0:
			return dcat("(", a, " ? (", b, ") : ", c, " => ", g.expr(d-1), ")")
		case 1:
			// typed arrow with a return type between ? and :
			return dcat("(", a, " ? (", b, ")", tsOnly(": "+g.tyNoParenEnd()), " => (", g.operand(d-1), ") : ", c, ")")
		default:
			return dcat("(", a, " ? (", b, tsOnly(": "+g.ty()), ")", tsOnly(": "+g.tyNoParenEnd()), " => (", g.operand(d-1), ") : ", c, ")")
		}
	case 18:
		g.cnt("function-expression")
		return dcat("(function ", g.fresh("fe"), g.optTypeParams(), g.params(d-1, true), g.optRet(), " { return ", g.expr(d-1), "; })")
	case 19:
		g.cnt("class-expression")
		return dcat("(", g.class(d-1, true), ")")
	case 20:
		g.cnt("object-literal-method")
		return dcat("({ ", g.fresh("m"), g.optTypeParams(), g.params(d-1, true), g.optRet(), " { return ", g.expr(d-1), "; }, get p()", g.optRet(), " { return 1; }, set p(v", g.colonType(), ") {}, async *", g.fresh("g"), g.optTypeParams(), "()", g.optRet(), " {} })")
	case 21:
		g.cnt("assign-to-cast")
		x := g.fresh("x")
		switch r.Intn(3) {
		case 0:
			return dcat("((", x, tsOnly(" as "+g.ty()), ") = ", g.expr(d-1), ")")
		case 1:
			return dcat("(", x, tsOnly("!"), " = ", g.expr(d-1), ")")
		default:
			return dcat("(", x, tsOnly("!"), " += ", g.expr(d-1), ")")
		}
	default:
		return dcat(g.jsA(r.Range(1, 3)))
	}
}

// operand of "as": shift level or tighter
func (g *tsgen) operand(d int) dp {
	if d > 0 && g.r.Chance(40) {
		return g.expr(d)
	}
	return dcat(g.jsS(g.r.Range(1, 2)))
}
func (g *tsgen) unary(d int) dp {
	if d > 0 && g.r.Chance(30) {
		return g.expr(d)
	}
	return dcat(g.jsP(g.r.Range(1, 2)))
}
func (g *tsgen) callee(d int) dp {
	r := g.r
	switch r.Intn(4) {
	case 0:
		return dcat(g.fresh("f"))
	case 1:
		return dcat(g.fresh("o"), ".", g.fresh("m"))
	case 2:
		return dcat(g.fresh("o"), "[", g.jsA(1), "]")
	default:
		return dcat("(", g.expr(d), ")")
	}
}

func (g *tsgen) optRet() dp {
	if g.r.Chance(60) {
		g.cnt("return-type")
		return dcat(tsOnly(": " + g.retTy()))
	}
	return dp{}
}

// params: parenthesised parameter list with TypeScript decorations
func (g *tsgen) params(d int, allowThis bool) dp { return g.paramsX(d, allowThis, false) }

// sigOnly: overload / ambient signatures take no parameter initialisers
func (g *tsgen) paramsX(d int, allowThis bool, sigOnly bool) dp {
	r := g.r
	n := r.Range(0, 3)
	var parts []interface{}
	parts = append(parts, "(")
	first := true
	sep := func() {
		if !first {
			parts = append(parts, ", ")
		}
		first = false
	}
	if allowThis && r.Chance(10) {
		g.cnt("this-param")
		// "this: T" disappears together with its comma
		if n == 0 {
			parts = append(parts, tsOnly("this: "+g.ty()))
		} else {
			parts = append(parts, tsOnly("this: "+g.ty()+", "))
		}
	}
	for k := 0; k < n; k++ {
		sep()
		name := g.fresh("p")
		switch r.Intn(8) {
		case 0:
			g.cnt("optional-param")
			parts = append(parts, name, tsOnly("?"), g.colonType())
		case 1:
			if sigOnly {
				parts = append(parts, name, tsOnly("?"), g.colonType())
				break
			}
			g.cnt("default-param")
			parts = append(parts, name, g.colonType(), " = ", g.jsA(1))
		case 2:
			g.cnt("destructured-param")
			parts = append(parts, "{ "+name+", k: [q"+name+"] }", g.colonType())
			if !sigOnly && r.Bool() {
				parts = append(parts, " = { k: [] }")
			}
		case 3:
			g.cnt("array-param")
			parts = append(parts, "["+name+", , ...r"+name+"]", g.colonType())
		case 4:
			if k == n-1 {
				g.cnt("rest-param")
				parts = append(parts, "..."+name, g.colonType())
			} else {
				parts = append(parts, name, g.colonType())
			}
		default:
			parts = append(parts, name, g.colonType())
		}
	}
	parts = append(parts, ")")
	return dcat(parts...)
}

func (g *tsgen) arrow(d int) dp {
	r := g.r
	body := func() dp {
		if r.Chance(30) {
			return dcat("{ return ", g.expr(d), "; }")
		}
		return g.operandParen(d)
	}
	async := ""
	if !g.noAsync && r.Chance(25) {
		async = "async "
	}
	switch r.Intn(6) {
	case 0:
		// generic arrow: "<T>(x) => x" (ts) / "<T,>(x) => x" (tsx)
		g.cnt("generic-arrow")
		tp := "<T>"
		if g.tsx {
			tp = r.Pick([]string{"<T,>", "<T extends unknown>", "<T, U>", "<T = number>"})
		} else {
			tp = r.Pick([]string{"<T>", "<T,>", "<T extends unknown>", "<T, U>", "<const T>", "<T extends keyof U, U>"})
		}
		return dcat("(", async, tsOnly(tp), g.params(d, false), g.arrowRet(), " => ", body(), ")")
	case 1:
		// single parenthesised parameter with a type
		g.cnt("typed-arrow")
		return dcat("(", async, "(", g.fresh("p"), tsOnly(": "+g.ty()), ")", g.arrowRet(), " => ", body(), ")")
	case 2:
		g.cnt("untyped-arrow")
		return dcat("(", async, g.fresh("p"), " => ", body(), ")")
	default:
		g.cnt("typed-arrow")
		return dcat("(", async, g.params(d, false), g.arrowRet(), " => ", body(), ")")
	}
}

func (g *tsgen) arrowRet() dp {
	if g.r.Chance(50) {
		g.cnt("arrow-return-type")
		if g.r.Chance(25) {
			return dcat(tsOnly(": " + g.fresh("a") + " is " + g.tyNoParenEnd()))
		}
		return dcat(tsOnly(": " + g.tyNoParenEnd()))
	}
	return dp{}
}

func (g *tsgen) operandParen(d int) dp {
	if g.r.Chance(50) {
		return dcat("(", g.expr(d), ")")
	}
	return dcat("(", g.jsA(g.r.Range(1, 2)), ")")
}

// an expression statement must not start with "{", "function", "class", "let", "async"
func (g *tsgen) stmtExpr(e dp) dp {
	for _, p := range []string{"{", "function", "class", "let", "async"} {
		if strings.HasPrefix(e.js, p) || strings.HasPrefix(e.ts, p) {
			return dcat("(", e, ");\n")
		}
	}
	return dcat(e, ";\n")
}

// ---------------------------------------------------------------- statements

func (g *tsgen) varDecl(d int) dp {
	r := g.r
	kw := r.Pick([]string{"let", "const", "var"})
	name := g.fresh("w")
	switch r.Intn(7) {
	case 0:
		g.cnt("definite-assignment")
		return dcat(r.Pick([]string{"let", "var"}), " ", name, tsOnly("!: "+g.ty()), ";\n")
	case 1:
		g.cnt("uninitialised-annotated")
		return dcat(r.Pick([]string{"let", "var"}), " ", name, tsOnly(": "+g.ty()), ", ", name, "b", g.colonType(), " = ", g.expr(d), ";\n")
	case 2:
		g.cnt("destructuring-annotated")
		return dcat(kw, " { a: ", name, ", ...", name, "r }", g.colonType(), " = ", g.expr(d), ";\n")
	case 3:
		g.cnt("array-destructuring-annotated")
		return dcat(kw, " [", name, ", , ", name, "b = 1]", g.colonType(), " = ", g.expr(d), ";\n")
	default:
		return dcat(kw, " ", name, g.colonType(), " = ", g.expr(d), ";\n")
	}
}

func (g *tsgen) funcDecl(d int) dp {
	r := g.r
	name := g.fresh("fn")
	var parts []interface{}
	exp := ""
	if g.esm && g.nest == 0 && r.Chance(30) {
		exp = "export "
	}
	if r.Chance(35) {
		g.cnt("overload-signatures")
		for k := r.Range(1, 2); k > 0; k-- {
			o := dcat(exp, "function ", name, g.optTypeParams(), g.paramsX(0, true, true), g.optRet(), r.Pick([]string{";", "", ";"}), "\n")
			parts = append(parts, tsOnly(o.ts))
		}
	}
	kind := r.Pick([]string{"function ", "function ", "async function ", "function* ", "async function* "})
	parts = append(parts, exp, kind, name, g.optTypeParams(), g.params(d, true), g.optRet(), " {\n")
	g.nest++
	for k := r.Range(0, 2); k > 0; k-- {
		parts = append(parts, g.stmt(d-1))
	}
	g.nest--
	parts = append(parts, "return ", g.expr(d), ";\n}\n")
	return dcat(parts...)
}

var accessMods = []string{"public ", "private ", "protected ", "readonly ", "public readonly ", "private static ", "static ", "protected override ", "override ", "public static readonly "}

func (g *tsgen) memberMods(allowStatic bool) dp {
	r := g.r
	if !r.Chance(50) {
		if allowStatic && r.Chance(15) {
			return dcat("static ")
		}
		return dp{}
	}
	g.cnt("member-modifier")
	m := r.Pick(accessMods)
	isStatic := strings.Contains(m, "static ")
	m = strings.Replace(m, "static ", "", 1)
	if isStatic && allowStatic {
		// keep "static" on both sides, erase the TypeScript-only modifiers
		if r.Bool() {
			return dcat(tsOnly(m), "static ")
		}
		return dcat("static ", tsOnly(strings.Replace(m, "public ", "", 1)))
	}
	return dcat(tsOnly(m))
}

// modifiers allowed on methods, accessors (no "readonly")
func (g *tsgen) methodMods(allowStatic bool) dp {
	r := g.r
	if !r.Chance(50) {
		if allowStatic && r.Chance(15) {
			return dcat("static ")
		}
		return dp{}
	}
	g.cnt("member-modifier")
	m := r.Pick([]string{"public ", "private ", "protected ", "override ", "protected override ", "public static ", "private static "})
	if strings.Contains(m, "static ") {
		m = strings.Replace(m, "static ", "", 1)
		if allowStatic {
			return dcat(tsOnly(m), "static ")
		}
	}
	return dcat(tsOnly(m))
}

func (g *tsgen) class(d int, isExpr bool) dp {
	r := g.r
	name := g.fresh("Cls")
	var parts []interface{}
	abstract := !isExpr && r.Chance(25)
	if abstract {
		g.cnt("abstract-class")
		parts = append(parts, tsOnly("abstract "))
	}
	parts = append(parts, "class ", name, g.optTypeParams())
	derived := r.Chance(30)
	if derived {
		parts = append(parts, " extends ", g.fresh("Base"))
		if r.Chance(40) {
			g.cnt("extends-type-args")
			parts = append(parts, tsOnly(g.typeArgsText()))
		}
	}
	if r.Chance(30) {
		g.cnt("implements")
		parts = append(parts, tsOnly(" implements "+g.heritage()+r.Pick([]string{"", ", " + g.heritage()})))
	}
	parts = append(parts, " {\n")
	n := r.Range(1, 6)
	for k := 0; k < n; k++ {
		m := g.fresh("m")
		switch r.Intn(16) {
		case 0, 1:
			g.cnt("field")
			parts = append(parts, g.memberMods(true), m, g.colonType(), " = ", g.jsA(1), ";\n")
		case 2:
			g.cnt("field-no-init")
			parts = append(parts, g.memberMods(true), m)
			switch r.Intn(3) {
			case 0:
				parts = append(parts, tsOnly("?"), g.colonType())
			case 1:
				parts = append(parts, tsOnly("!"), tsOnly(": "+g.ty()))
			default:
				parts = append(parts, g.colonType())
			}
			parts = append(parts, ";\n")
		case 3:
			g.cnt("declare-field")
			parts = append(parts, tsOnly(r.Pick([]string{"declare ", "declare readonly ", "private declare ", "declare static ", "static declare "})+m+": "+g.ty()+";\n"))
		case 4:
			if abstract {
				g.cnt("abstract-member")
				switch r.Intn(3) {
				case 0:
					parts = append(parts, tsOnly(r.Pick([]string{"abstract ", "protected abstract ", "public abstract "})+m+"(a: "+g.ty()+"): "+g.ty()+";\n"))
				case 1:
					parts = append(parts, tsOnly("abstract "+m+": "+g.ty()+";\n"))
				default:
					parts = append(parts, tsOnly("abstract get "+m+"(): "+g.ty()+";\n"))
				}
			} else {
				parts = append(parts, "static { ", g.stmtExpr(g.expr(d-1)), " }\n")
			}
		case 5:
			g.cnt("index-signature-member")
			parts = append(parts, tsOnly(r.Pick([]string{"", "readonly ", "static "})+"[key: string]: "+g.ty()+";\n"))
		case 6, 7, 8:
			g.cnt("method")
			if r.Chance(30) {
				g.cnt("method-overloads")
				parts = append(parts, tsOnly(m+"(a: "+g.ty()+"): "+g.ty()+";\n"))
			}
			kind := r.Pick([]string{"", "", "async ", "*", "async *"})
			parts = append(parts, g.methodMods(true), kind, m)
			if r.Chance(10) {
				g.cnt("optional-method")
				parts = append(parts, tsOnly("?"))
			}
			parts = append(parts, g.optTypeParams(), g.params(d-1, true), g.optRet(), " { return ", g.expr(d-1), "; }\n")
		case 9:
			g.cnt("accessor-pair")
			parts = append(parts, g.methodMods(true), "get ", m, "()", g.optRet(), " { return ", g.expr(d-1), "; }\n")
			parts = append(parts, g.methodMods(false), "set ", m, "(v", g.colonType(), ") {}\n")
		case 10:
			g.cnt("private-name-member")
			parts = append(parts, "#", m, g.colonType(), " = ", g.jsA(1), ";\n", "#", m, "f", g.optTypeParams(), g.params(0, false), g.optRet(), " { return this.#", m, tsOnly("!"), "; }\n")
		case 11:
			g.cnt("computed-member")
			parts = append(parts, g.memberMods(true), "[", g.jsA(1), "]", g.colonType(), " = ", g.jsA(1), ";\n")
		case 12:
			g.cnt("string-key-member")
			parts = append(parts, g.memberMods(true), r.Pick([]string{`"quoted key"`, `'k'`, `42`}), g.colonType(), " = ", g.jsA(1), ";\n")
		case 13:
			g.cnt("constructor")
			// no parameter properties here (they are a run-time construct: stream 2)
			if r.Chance(30) {
				g.cnt("constructor-overloads")
				parts = append(parts, tsOnly("constructor(a: "+g.ty()+");\n"))
			}
			parts = append(parts, tsOnly(r.Pick([]string{"", "public ", "private ", "protected "})), "constructor", g.params(0, false), " {\n")
			if derived {
				parts = append(parts, "super();\n")
			}
			parts = append(parts, "this.x = ", g.expr(d-1), ";\n}\n")
			// at most one constructor
			n = k
		case 14:
			g.cnt("keyword-named-member")
			nm := r.Pick([]string{"declare", "abstract", "readonly", "public", "private", "static", "override", "get", "set", "async", "type", "accessor"})
			switch r.Intn(3) {
			case 0:
				parts = append(parts, nm, g.colonType(), " = ", g.jsA(1), ";\n")
			case 1:
				parts = append(parts, nm, g.optTypeParams(), "()", g.optRet(), " {}\n")
			default:
				parts = append(parts, nm, g.colonType(), ";\n")
			}
		default:
			g.cnt("arrow-field")
			parts = append(parts, g.memberMods(true), m, g.colonType(), " = ", g.arrow(d-1), ";\n")
		}
	}
	parts = append(parts, "}")
	return dcat(parts...)
}

func (g *tsgen) typeOnlyStmt(d int) dp {
	r := g.r
	exp := ""
	if g.esm && g.nest == 0 && r.Chance(30) {
		exp = "export "
	}
	objText := func() string {
		s, _ := render(mergeGT(r, g.tg.objectType(r.Range(0, 2)), 60))
		return s
	}
	form := r.Intn(14)
	if g.nest > 0 && form >= 9 {
		form = r.Intn(6)
	}
	switch form {
	case 0, 1, 2:
		g.cnt("interface")
		s := exp + "interface " + g.fresh("I")
		if r.Chance(40) {
			s += g.typeParamsNoConst()
		}
		if r.Chance(40) {
			s += " extends " + g.heritage() + r.Pick([]string{"", ", " + g.heritage()})
		}
		return dcat(tsOnly(s + " " + objText() + "\n"))
	case 3, 4, 5:
		g.cnt("type-alias")
		s := exp + "type " + g.fresh("TA")
		if r.Chance(40) {
			s += r.Pick([]string{g.typeParamsNoConst(), "<in T>", "<out T>", "<in out T, U>"})
		}
		return dcat(tsOnly(s + " = " + g.ty() + r.Pick([]string{";", "", ";"}) + "\n"))
	case 6:
		g.cnt("declare-var")
		return dcat(tsOnly(exp + "declare " + r.Pick([]string{"const", "let", "var"}) + " " + g.fresh("dv") + ": " + g.ty() + ";\n"))
	case 7:
		g.cnt("declare-function")
		o := dcat("declare function ", g.fresh("df"), g.optTypeParams(), g.paramsX(0, false, true), g.optRet(), ";\n")
		return dcat(tsOnly(exp + o.ts))
	case 8:
		g.cnt("declare-class")
		c := "class " + g.fresh("DC") + r.Pick([]string{"", g.typeParamsText()}) + r.Pick([]string{"", " extends " + g.heritage()}) + " { " +
			r.Pick([]string{"", "private x: " + g.ty() + "; ", "static readonly y?: " + g.ty() + "; "}) +
			r.Pick([]string{"", "constructor(a: " + g.ty() + "); ", "m<T>(a: T): " + g.retTy() + "; ", "get p(): " + g.ty() + "; set p(v: " + g.ty() + "); "}) +
			r.Pick([]string{"", "[k: string]: " + g.ty() + "; ", "static s(): void; "}) + "}"
		return dcat(tsOnly(exp + "declare " + r.Pick([]string{"", "abstract "}) + c + "\n"))
	case 9:
		g.cnt("declare-namespace")
		return dcat(tsOnly(exp + "declare " + r.Pick([]string{"namespace", "module"}) + " " + g.fresh("DN") + r.Pick([]string{"", ".Inner"}) + " { export const a: " + g.ty() + "; function f(): void; interface I " + objText() + " }\n"))
	case 10:
		g.cnt("declare-module-string")
		if g.esm {
			return dcat(tsOnly("declare module \"mod" + g.fresh("") + "\" { export const a: " + g.ty() + "; }\n"))
		}
		return dcat(tsOnly("declare module \"mod" + g.fresh("") + "\";\n"))
	case 11:
		g.cnt("type-only-namespace")
		// a namespace that contains only types is not instantiated
		return dcat(tsOnly(exp + "namespace " + g.fresh("TN") + " { " + r.Pick([]string{"export ", ""}) + "type T = " + g.ty() + "; interface I " + objText() + " " + r.Pick([]string{"", "declare const z: number;", "namespace Inner { export type U = 1 }"}) + " }\n"))
	case 12:
		g.cnt("declare-enum")
		return dcat(tsOnly(exp + "declare " + r.Pick([]string{"enum", "const enum"}) + " " + g.fresh("DE") + " { A, B = 2, C = A | B }\n"))
	default:
		g.cnt("declare-global")
		if g.esm {
			return dcat(tsOnly("declare global { interface Window " + objText() + " }\n"))
		}
		return dcat(tsOnly("declare var " + g.fresh("gv") + ": " + g.ty() + ";\n"))
	}
}

func (g *tsgen) moduleStmt(d int) dp {
	r := g.r
	m := fmt.Sprintf("\"./dep%d\"", r.Intn(3))
	switch r.Intn(10) {
	case 0:
		g.cnt("import-type")
		return dcat(tsOnly("import type " + g.fresh("IT") + " from " + m + ";\n"))
	case 1:
		g.cnt("import-type-named")
		return dcat(tsOnly("import type { " + g.fresh("IT") + ", " + g.fresh("IT") + " as " + g.fresh("IT") + " } from " + m + ";\n"))
	case 2:
		g.cnt("import-type-star")
		return dcat(tsOnly("import type * as " + g.fresh("IT") + " from " + m + ";\n"))
	case 3:
		g.cnt("import-inline-type")
		v := g.fresh("iv")
		return dcat("import { ", tsOnly("type "+g.fresh("IT")+", "), v, tsOnly(", type "+g.fresh("IT")+" as "+g.fresh("IT")), " } from ", m, ";\n", v, "();\n")
	case 4:
		// an import that is only used in type positions is dropped (documented elision)
		g.cnt("import-used-as-type-only")
		t, v := g.fresh("IT"), g.fresh("iv")
		use := dcat("let ", g.fresh("w"), tsOnly(": "+t+"<"+t+"[]>"), " = ", v, ";\n")
		switch r.Intn(3) {
		case 0:
			return dcat("import { ", tsOnly(t+", "), v, " } from ", m, ";\n", use)
		case 1:
			return dcat("import { ", v, tsOnly(", "+t), " } from ", m, ";\n", use)
		default:
			v2 := g.fresh("iv")
			return dcat("import ", v, ", { ", tsOnly(t+", "), v2, tsOnly(", "+t+" as "+g.fresh("IT")), " } from ", m, ";\n", use, v2, "();\n")
		}
	case 5:
		g.cnt("export-type-clause")
		t := g.fresh("ET")
		return dcat(tsOnly("type " + t + " = " + g.ty() + ";\nexport type { " + t + " };\n"))
	case 6:
		g.cnt("export-type-from")
		return dcat(tsOnly("export type { " + g.fresh("ET") + " } from " + m + ";\n"))
	case 7:
		g.cnt("export-inline-type")
		t, v := g.fresh("ET"), g.fresh("ev")
		return dcat("const ", v, g.colonType(), " = ", g.expr(d), ";\n", tsOnly("interface "+t+" {}\n"), "export { ", tsOnly("type "+t+", "), v, " };\n")
	case 8:
		g.cnt("import-default-and-type-use")
		v := g.fresh("iv")
		return dcat("import ", v, " from ", m, ";\n", v, tsOnly("<"+g.ty()+">"), "(", g.expr(d), ");\n")
	default:
		g.cnt("export-declaration")
		return dcat("export ", g.varDecl(d))
	}
}

func (g *tsgen) stmt(d int) dp {
	r := g.r
	if d <= 0 {
		return g.stmtExpr(g.expr(1))
	}
	switch r.Intn(20) {
	case 0, 1, 2:
		return g.varDecl(d)
	case 3, 4:
		g.cnt("function-declaration")
		return g.funcDecl(d)
	case 5, 6, 7:
		g.cnt("class-declaration")
		exp := ""
		if g.esm && g.nest == 0 && r.Chance(25) {
			exp = "export "
		}
		return dcat(exp, g.class(d, false), "\n")
	case 8, 9, 10:
		return g.typeOnlyStmt(d)
	case 11:
		g.cnt("catch-annotation")
		return dcat("try { ", g.stmtExpr(g.expr(d-1)), " } catch (e", tsOnly(r.Pick([]string{": unknown", ": any"})), ") { ", g.stmtExpr(g.expr(d-1)), " }\n")
	case 12:
		g.cnt("for-of-cast")
		return dcat("for (const ", g.fresh("k"), " of ", g.operand(d-1), tsOnly(" as "+g.ty()), ") { ", g.stmtExpr(g.expr(d-1)), " }\n")
	case 13:
		g.cnt("for-in-annotated")
		return dcat("for (let ", g.fresh("k"), " in ", g.operand(d-1), tsOnly(" as "+g.ty()), ") {}\n")
	case 14:
		g.cnt("js-statement")
		return dcat(g.js.Stmt(2), "\n")
	case 15:
		g.cnt("labelled-type-like-statements")
		// identifiers that are TypeScript contextual keywords used as plain JavaScript
		id := r.Pick([]string{"type", "declare", "abstract", "namespace", "module", "global", "as", "satisfies", "readonly", "keyof", "infer", "is", "asserts", "override", "enum1", "unique", "out", "accessor", "async", "of"})
		switch r.Intn(4) {
		case 0:
			return dcat(id, " = ", g.jsA(1), ";\n")
		case 1:
			return dcat(id, "\n(", g.jsA(1), ");\n")
		case 2:
			return dcat("var ", id, " = ", id, " + 1, o", id, " = { ", id, ", ", id, ": 1 }.", id, ";\n")
		default:
			return dcat(id, "[0] = ", id, ".", id, ";\n")
		}
	case 16:
		if g.esm && g.nest == 0 {
			return g.moduleStmt(d)
		}
		return g.stmtExpr(g.expr(d))
	default:
		return g.stmtExpr(g.expr(d))
	}
}

type gcase struct {
	p        dp
	opts     string
	tsLoader api.Loader
	jsLoader api.Loader
	mk       func(l api.Loader) api.TransformOptions
}

// tsconfig settings under which the ts and js loaders agree on JavaScript:
//   - useDefineForClassFields: true  (class fields keep define semantics, as in JS)
//   - verbatimModuleSyntax is NOT set: unused imports are dropped by TypeScript
//     (the generator keeps every value import used and writes type-only imports
//     as erased on the untyped side)
//   - alwaysStrict/strict unset (no "use strict" insertion), no experimentalDecorators
const agreeTsconfig = `{"compilerOptions":{"useDefineForClassFields":true}}`

func glueTyped(r *Rng, st *Stats, n int) {
	kinds := map[string]int{}
	tform := map[string]int{}
	var cases []gcase
	for i := 0; i < n; i++ {
		feats := AllJSFeatures()
		js := NewJSGen(r, feats)
		g := &tsgen{r: r, js: js, tg: &tgen{r: r, ops: tform}, kinds: kinds, tsx: r.Chance(25), esm: r.Chance(40)}
		var parts []interface{}
		if r.Chance(30) {
			// a whole JavaScript program of the shared generator, unchanged on both sides
			parts = append(parts, js.Program(r.Range(1, 3)))
		}
		for k := r.Range(1, 5); k > 0; k-- {
			parts = append(parts, g.stmt(r.Range(1, 3)))
		}
		if g.esm {
			// both sides must be modules (a type-only import/export makes the typed file a module)
			parts = append(parts, "export const zz = 1;\n")
		}
		p := dcat(parts...)
		minWS, minSyn := r.Chance(30), r.Chance(20)
		target := api.ESNext
		tname := "esnext"
		if r.Chance(25) {
			target = []api.Target{api.ES2022, api.ES2020, api.ES2017, api.ES2015}[r.Intn(4)]
			tname = fmt.Sprint(target)
		}
		format := api.FormatDefault
		if g.esm && r.Chance(30) {
			format = api.FormatCommonJS
		}
		tsL, jsL := api.LoaderTS, api.LoaderJS
		if g.tsx {
			tsL, jsL = api.LoaderTSX, api.LoaderJSX
		}
		mk := func(l api.Loader) api.TransformOptions {
			o := api.TransformOptions{Loader: l, LogLevel: api.LogLevelSilent, MinifyWhitespace: minWS, MinifySyntax: minSyn, Target: target, Format: format}
			if l == api.LoaderTS || l == api.LoaderTSX {
				o.TsconfigRaw = agreeTsconfig
			}
			return o
		}
		cases = append(cases, gcase{p: p, opts: fmt.Sprintf("tsx=%v esm=%v minify-whitespace=%v minify-syntax=%v target=%s format=%d", g.tsx, g.esm, minWS, minSyn, tname, format), tsLoader: tsL, jsLoader: jsL, mk: mk})
	}
	for i := 0; i < n/4+8; i++ {
		ie := genImportEquals(r)
		kinds["import-equals"]++
		minWS, minSyn := r.Chance(30), r.Chance(40)
		mk := func(l api.Loader) api.TransformOptions {
			return api.TransformOptions{Loader: l, LogLevel: api.LogLevelSilent, MinifyWhitespace: minWS, MinifySyntax: minSyn, TsconfigRaw: agreeTsconfig}
		}
		// namespaces are not JavaScript: the untyped counterpart also goes through the ts loader
		cases = append(cases, gcase{p: ie.p, opts: fmt.Sprintf("%s minify-whitespace=%v minify-syntax=%v (both sides ts loader)", ie.desc, minWS, minSyn), tsLoader: api.LoaderTS, jsLoader: api.LoaderTS, mk: mk})
	}
	for i, c := range cases {
		evalTypedCase(st, c, i < 3)
	}
	for k, v := range kinds {
		st.Histogram["placement:"+k] += v
	}
	for k, v := range tform {
		st.Histogram["glue-type-form:"+k] += v
	}
}

func transformText(src string, o api.TransformOptions) (string, string) {
	res := api.Transform(src, o)
	if len(res.Errors) > 0 {
		return "", res.Errors[0].Text
	}
	return string(res.Code), ""
}

func evalTypedCase(st *Stats, c gcase, sample bool) {
	jsOut, jsErr := transformText(c.p.js, c.mk(c.jsLoader))
	if jsErr != "" {
		// the untyped side is not valid JavaScript: generator noise, not a finding
		st.Histogram["glue-untyped-invalid"]++
		if os.Getenv("C06_DEBUG") != "" {
			fmt.Println("UNTYPED-INVALID:", jsErr, "\n", c.p.js)
		}
		return
	}
	tsOut, tsErr := transformText(c.p.ts, c.mk(c.tsLoader))
	st.Note("typed-vs-untyped", c.p.ts+c.opts, c.p.ts != c.p.js)
	input := map[string]string{"typed": c.p.ts, "untyped": c.p.js, "options": c.opts}
	if tsErr != "" {
		// re-run (determinism) before reporting
		_, again := transformText(c.p.ts, c.mk(c.tsLoader))
		if again != "" {
			st.Fail("typed-program-rejected", input, tsErr, "accepted like its untyped counterpart")
		}
		return
	}
	if tsOut != jsOut {
		t2, _ := transformText(c.p.ts, c.mk(c.tsLoader))
		j2, _ := transformText(c.p.js, c.mk(c.jsLoader))
		if t2 != j2 {
			st.Fail("typed-untyped-output-differs", input, clip(tsOut), clip(jsOut))
		}
		return
	}
	// every valid JavaScript program compiles identically under both loaders
	if c.p.ts != c.p.js {
		jsAsTs, e := transformText(c.p.js, c.mk(c.tsLoader))
		st.Note("js-under-ts-loader", c.p.js+c.opts, true)
		if e != "" {
			st.Fail("javascript-rejected-by-ts-loader", input, e, "accepted")
		} else if jsAsTs != jsOut {
			st.Fail("js-ts-loader-output-differs", input, clip(jsAsTs), clip(jsOut))
		}
	}
	if sample {
		st.Sample(map[string]interface{}{"typed": clip(c.p.ts), "options": c.opts})
	}
}

func clip(s string) string {
	if len(s) > 3000 {
		return s[:3000] + "…"
	}
	return s
}
