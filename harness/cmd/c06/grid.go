package main

// Boundary grid, run on every check: the ambiguous forms named in the property
// ("<T>(x)", "a < b > (c)", arrow return types after "?:", ">>"/">>>"/">="
// splitting, type-only imports) as fixed typed/untyped pairs, and JavaScript
// snippets that must compile identically under the ts and js loaders.

import (
	"fmt"

	"github.com/evanw/esbuild/pkg/api"
	. "github.com/evanw/esbuild/verifharness/hlib"
)

var jsSameUnderBothLoaders = []string{
	"x = a < b > c;", "x = a < b > -c;", "x = a < b > +c;", "x = a < b >= c;", "x = a < b >> c;", "x = a < b >>> c;",
	"x = a < (b > (c));", "x = a < b > [c];", "x = a << b > c;", "x = a < b > !c;", "x = a < b > typeof c;", "x = a < b > ~c;",
	"x = a < b > c.d;", "x = a < b > new c;", "x = a < b > this;", "x = a < b > 1;", "x = a < b > \"s\";", "x = a < b > ++c;",
	"x = a < b > {};", "x = a < b > function () {};", "x = a < b > class {};", "x = a < b > void c;", "x = a < b > delete c.d;",
	"x = a < b\n> c;", "x = a < b > c < d > e;", "x = a < b || c > d;", "x = a < b && c > (d);", "x = f < g.h > i;", "x = a < b + 1 > (c);",
	"x = a ? (b) : c => d;", "x = a ? (b) : (c) => d;", "x = a ? b : c ? d : e;", "x = a ? (b, c) : d;", "x = (a) ? (b) : (c);", "x = a ? ({ b }) : c;",
	"x = a ? (b) : c => d ? e : f;", "x = a ? (b ? c : d) : e => f;", "x = a ? async (b) => c : d;", "x = a ? function (b) { return c } : d;",
	"type = 1;", "type\nfoo = 1;", "declare\nfoo();", "abstract\nclass A {}", "namespace\nfoo\n{}", "module\nfoo\n{}", "interface\nfoo\n{}",
	"var as = 1, satisfies = 2; x = as + satisfies;", "x = y\nas\n(z);", "var is, asserts, infer, keyof, readonly, unique, out;",
	"class A { static; get; set; async; accessor; declare; abstract; readonly; override; public; private; protected }",
	"class A { static() {} get() {} set() {} async() {} declare() {} readonly() {} }", "class A { static async *[x]() {} static get [y]() { return 1 } }",
	"x = a!==b;", "for (var of of of) ;", "for (async of => 1; ;) break;", "x = async < 1;", "x = async\n(y);", "let\nx = 1;",
	"label: for (;;) break label;", "x = a => b ? c : d;", "x = (a, b) => ({}).c;", "x = y ? z => ({ a } = z) : w;",
	"x = class { [k] = 1; static [s] = 2; 'q' = 3; 4 = 5; #p = 6 };", "if (a) function f() {}", "x = `a${b}c${`d${e}`}`;", "x = a ?? b ?. c;",
	"x = a ? .5 : 1;", "x = a?.5:1;", "x = a < /re/.source > b;",
}

type pair struct{ ts, js string }

var typedUntypedPairs = []pair{
	{"x = f<T>(y);", "x = f(y);"}, {"x = f<T>\n(y);", "x = f\n(y);"}, {"x = a < b > (c);", "x = a(c);"}, {"x = f<T>`t`;", "x = f`t`;"},
	{"x = f<T, U>(y) > z;", "x = f(y) > z;"}, {"x = new A<B<C<D>>>();", "x = new A();"}, {"x = new A<B<C<D>>>;", "x = new A;"},
	{"x = f<A<B>>(c);", "x = f(c);"}, {"x = f<A<B<C>>>(d);", "x = f(d);"}, {"x = f<A<B<C<D>>>>(e);", "x = f(e);"},
	{"let v: A<B<C<D>>>= 1;", "let v= 1;"}, {"let v: A<B<C>>= 1;", "let v= 1;"}, {"let v: A<B>= 1;", "let v= 1;"}, {"let v: A<B> = 1;", "let v = 1;"},
	{"x = y as A<B>==z;", "x = y ==z;"}, {"x = y as A<B<C>>==z;", "x = y ==z;"}, {"x = y as A<B>>z;", "x = y >z;"}, {"x = y as A<B>>=z;", "x = y >=z;"},
	{"x = f<<T>(x: T) => T>(g);", "x = f(g);"}, {"x = f<<T>() => void, <U>(u: U) => U>(g);", "x = f(g);"}, {"x = a?.b<T>(c);", "x = a?.b(c);"}, {"x = a?.<T>(c);", "x = a?.(c);"},
	{"x = [f<T>, g<U>];", "x = [f, g];"}, {"x = f<T>;", "x = f;"}, {"x = (f<T>);", "x = (f);"}, {"x = f<T> || g;", "x = f || g;"}, {"x = f<T>\ny;", "x = f\ny;"},
	{"x = a ? (b): T => c : d;", "x = a ? (b) => c : d;"}, {"x = a ? (b: T): U => c : d;", "x = a ? (b) => c : d;"},
	{"x = a ? (b): c => (d) : e;", "x = a ? (b) => (d) : e;"}, {"x = a ? (b, c?: T): U<V> => d : e;", "x = a ? (b, c) => d : e;"}, {"x = a ? <T>(b: T): T => b : c;", "x = a ? (b) => b : c;"},
	{"x = (y: any): (() => {}) => {};", "x = (y) => {};"}, {"x = (y: any): () => {} => {};", "x = (y) => {};"}, {"x = (y: any): (a | b) => {};", "x = (y) => {};"},
	{"x = (y: any): (y[]) => {};", "x = (y) => {};"}, {"x = (y: any): y is string => true;", "x = (y) => true;"}, {"x = async <T>(y: T): Promise<T> => y;", "x = async (y) => y;"},
	{"x = <T>(y: T) => y;", "x = (y) => y;"}, {"x = <T,>(y: T) => y;", "x = (y) => y;"}, {"x = <T extends U>(y: T) => y;", "x = (y) => y;"}, {"x = <T>(y);", "x = (y);"}, {"x = <T>y.z;", "x = y.z;"},
	{"x = <A<B>>y;", "x = y;"}, {"x = < <T>(t: T) => T>y;", "x = y;"}, {"x = y as any as T[];", "x = y;"}, {"x = y satisfies T;", "x = y;"}, {"x = y!;", "x = y;"}, {"x = y!.z![0]!();", "x = y.z[0]();"},
	{"x = y as const;", "x = y;"}, {"(y as any) = 1;", "y = 1;"}, {"y! = 1;", "y = 1;"}, {"(<any>y) = 1;", "y = 1;"}, {"for (const k of y as T[]) ;", "for (const k of y) ;"},
	{"let v: T\n[z] = [1];", "let v\n[z] = [1];"},
	{"x = y as T extends U ? V : W;", "x = y;"}, {"x = y as T extends infer U extends string ? U : never;", "x = y;"}, {"x = y as `a${T}b${U}` | `${V}`;", "x = y;"},
	{"x = y as { a: T; b?: U, [k: string]: V; m(): void; new (): W; readonly [K in keyof T]-?: T[K] };", "x = y;"}, {"x = y as abstract new () => T;", "x = y;"},
	{"x = y as typeof import('m').a.b<T>;", "x = y;"}, {"x = y as unique symbol | asserts | keyof typeof z | readonly T[] | [a: T, b?: U, ...c: V[]];", "x = y;"},
	{"import { v, T } from 'm'; let w: T = v;", "import { v } from 'm'; let w = v;"}, {"import { T, v } from 'm'; let w: T = v;", "import { v } from 'm'; let w = v;"},
	{"import d, { T, v, U as W } from 'm'; let w: T<W> = v(d);", "import d, { v } from 'm'; let w = v(d);"}, {"import D, { v } from 'm'; let w: D = v;", "import { v } from 'm'; let w = v;"},
	{"import * as NS from 'm'; import { v } from 'm'; let w: NS.T = v;", "import { v } from 'm'; let w = v;"}, {"import { type T, v } from 'm'; v();", "import { v } from 'm'; v();"},
	{"import type D from 'm'; import type { T } from 'm'; import type * as N from 'm'; export const a = 1;", "export const a = 1;"},
	{"import { v, T } from 'm'; export { v, T }; let w: T;", "import { v, T } from 'm'; export { v, T }; let w;"},
	{"import D from 'm'; let w: D; export const a = 1;", "let w; export const a = 1;"}, {"import { T } from 'm'; let w: T; export const a = 1;", "let w; export const a = 1;"},
	{"import * as N from 'm'; let w: N.T; export const a = 1;", "let w; export const a = 1;"}, {"import D, * as N from 'm'; let w: N.T<D>; export const a = 1;", "let w; export const a = 1;"},
	{"import D from 'm'; import 'n'; export const a = D;", "import D from 'm'; import 'n'; export const a = D;"},
	{"export type { T } from 'm'; export type * from 'm'; export type * as N from 'm'; export const a = 1;", "export const a = 1;"},
	{"type T = 1; export { type T, a }; const a = 1;", "export { a }; const a = 1;"}, {"export default interface I {} export const a = 1;", "export const a = 1;"},
	{"class A<T> extends B<T> implements I<T>, J { declare x: T; y?: T; z!: T; private readonly w: T = 1; [k: string]: T; m2?(): void; m3(a: T): T; m3(a) { return a } }", "class A extends B { y; z; w = 1; m3(a) { return a } }"},
	{"abstract class A { abstract x: number; abstract get y(): number; abstract m(): void; protected abstract n(): void; static s?: number }", "class A { static s }"},
	{"function f(this: T, a?: U, ...b: V[]): a is W { } function g(this: T) {} function h<const T extends readonly unknown[]>(x: T) {}", "function f(a, ...b) { } function g() {} function h(x) {}"},
	{"function f(a: string): void; function f(a: number): void; function f(a: any) {} declare function g(): void; declare const c: number;", "function f(a) {}"},
	{"let a!: T, b: U = 1; var c: V; const { d }: W = e; try {} catch (e: unknown) {}", "let a, b = 1; var c; const { d } = e; try {} catch (e) {}"},
	{"namespace N { export type T = 1; interface I {} declare const c: number; namespace M { type U = 2 } } x = 1;", "x = 1;"},
	{"declare module 'm' { export const a: number } declare namespace N.M { const c: number } declare enum E { A } declare global { } x = 1; export {};", "x = 1; export {};"},
}

// pairs whose untyped side is TypeScript too (namespaces / import-equals are not JavaScript):
// both sides go through the ts loader
var typedUntypedPairsTS = []pair{
	{"namespace Geometry { export namespace Shapes { export class Point {} } } import Pt = Geometry.Shapes.Point; let p: Pt;", "namespace Geometry { export namespace Shapes { export class Point {} } } let p;"},
	{"declare namespace Geometry { namespace Shapes { class Point {} } } import Pt = Geometry.Shapes.Point; let p: Pt;", "let p;"},
	{"namespace A { export namespace B { export namespace C { export type T = 1 } } } import C = A.B.C; import T = C.T; let t: T;", "let t;"},
	{"import T = C.T; import C = A.B.C; let t: T; declare namespace A.B.C { type T = 1 }", "let t;"},
	{"declare namespace A.B.C.D { type T = 1 } import X = A.B.C.D.T; let t: X[];", "let t;"},
	{"declare namespace A { type T = 1 } import X = A.T; let t: X;", "let t;"},
	{"namespace A { export namespace B { export const v = 1 } } import X = A.B.v; let t: typeof X = X;", "namespace A { export namespace B { export const v = 1 } } import X = A.B.v; let t = X;"},
	{"namespace A { export type T = 1; export const v = 2 } import X = A.T; import Y = A.v; let t: X = Y;", "namespace A { export type T = 1; export const v = 2 } import Y = A.v; let t = Y;"},
	{"declare namespace Types { namespace Inner { class Box {} } } namespace App { import Box = Types.Inner.Box; export function f(b?: Box) { return 1 } }", "namespace App { export function f(b) { return 1 } }"},
	{"namespace A { export namespace B { export const v = 1 } } export import X = A.B.v; let t: number;", "namespace A { export namespace B { export const v = 1 } } export import X = A.B.v; let t;"},
}

func glueGrid(st *Stats) {
	for _, withSyntax := range []bool{false, true} {
		mk := func(l api.Loader) api.TransformOptions {
			o := api.TransformOptions{Loader: l, LogLevel: api.LogLevelSilent, MinifySyntax: withSyntax}
			if l == api.LoaderTS {
				o.TsconfigRaw = agreeTsconfig
			}
			return o
		}
		opt := fmt.Sprintf("grid minify-syntax=%v", withSyntax)
		for _, src := range jsSameUnderBothLoaders {
			a, ea := transformText(src, mk(api.LoaderJS))
			if ea != "" {
				st.Histogram["grid-js-invalid:"+src]++
				continue
			}
			b, eb := transformText(src, mk(api.LoaderTS))
			st.Note("grid-js-under-ts-loader", src+opt, true)
			if eb != "" {
				st.Fail("javascript-rejected-by-ts-loader", map[string]string{"javascript": src, "options": opt}, eb, "accepted")
			} else if a != b {
				st.Fail("js-ts-loader-output-differs", map[string]string{"javascript": src, "options": opt}, b, a)
			}
		}
		for _, p := range typedUntypedPairsTS {
			a, ea := transformText(p.js, mk(api.LoaderTS))
			if ea != "" {
				st.Histogram["grid-untyped-invalid"]++
				continue
			}
			b, eb := transformText(p.ts, mk(api.LoaderTS))
			st.Note("grid-typed-vs-untyped-ts", p.ts+opt, true)
			input := map[string]string{"typed": p.ts, "untyped": p.js, "options": opt + " (both sides ts loader)"}
			if eb != "" {
				st.Fail("typed-program-rejected", input, eb, "accepted like its untyped counterpart")
			} else if a != b {
				st.Fail("typed-untyped-output-differs", input, b, a)
			}
		}
		for _, p := range typedUntypedPairs {
			a, ea := transformText(p.js, mk(api.LoaderJS))
			if ea != "" {
				st.Histogram["grid-untyped-invalid"]++
				continue
			}
			b, eb := transformText(p.ts, mk(api.LoaderTS))
			st.Note("grid-typed-vs-untyped", p.ts+opt, true)
			input := map[string]string{"typed": p.ts, "untyped": p.js, "options": opt}
			if eb != "" {
				st.Fail("typed-program-rejected", input, eb, "accepted like its untyped counterpart")
			} else if a != b {
				st.Fail("typed-untyped-output-differs", input, b, a)
			}
		}
	}
}
