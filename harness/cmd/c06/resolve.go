package main

// Name resolution inside an enum body that is merged with other enum blocks and a
// namespace of the same name (coq/C06/Enum.v: resolve_name): for every bare
// identifier used as an initialiser, is it compiled to a member of the enum
// object (or its inlined value) or left as a lexical reference?

import (
	"fmt"
	"regexp"
	"strings"

	"github.com/evanw/esbuild/pkg/api"
	. "github.com/evanw/esbuild/verifharness/hlib"
)

func resolveCases(r *Rng, st *Stats, n int) []string {
	var items []string
	for i := 0; i < n; i++ {
		const pool = 8
		role := make([]int, pool) // 0 nothing, 1 namespace export, 2 member of the first enum block
		outer := make([]bool, pool)
		for k := range role {
			role[k] = r.Intn(3)
			outer[k] = r.Chance(50)
		}
		var outerDecl, nsBody, e1 []string
		var exported []string
		for k := 0; k < pool; k++ {
			name := fmt.Sprintf("q%d", k)
			if outer[k] {
				outerDecl = append(outerDecl, fmt.Sprintf("%s %s = %d;", r.Pick([]string{"const", "let", "var"}), name, 50+k))
			}
			switch role[k] {
			case 1:
				switch r.Intn(4) {
				case 0:
					nsBody = append(nsBody, fmt.Sprintf("export const %s = %d;", name, 70+k))
				case 1:
					nsBody = append(nsBody, fmt.Sprintf("export let %s = %d;", name, 70+k))
				case 2:
					nsBody = append(nsBody, fmt.Sprintf("export function %s() { return %d; }", name, 70+k))
				default:
					nsBody = append(nsBody, fmt.Sprintf("export class %s { static v = %d; }", name, 70+k))
				}
				exported = append(exported, fmt.Sprintf("(%d,false)", 100+k))
			case 2:
				e1 = append(e1, fmt.Sprintf("%s = %d", name, 10+k))
				exported = append(exported, fmt.Sprintf("(%d,true)", 100+k))
			}
		}
		nm := r.Range(1, 5)
		var e2, block []string
		refs := make([]string, nm)
		for k := 0; k < nm; k++ {
			// refer to a pool name, or to an earlier member of this block
			if k > 0 && r.Chance(20) {
				refs[k] = fmt.Sprintf("R%d", r.Intn(k))
			} else {
				refs[k] = fmt.Sprintf("q%d", r.Intn(pool))
			}
			e2 = append(e2, fmt.Sprintf("R%d = %s", k, refs[k]))
			block = append(block, fmt.Sprint(200+k))
			exported = append(exported, fmt.Sprintf("(%d,true)", 200+k))
		}
		ns := "namespace Level { " + strings.Join(nsBody, " ") + " }"
		en1 := "enum Level { " + strings.Join(e1, ", ") + " }"
		en2 := "enum Level { " + strings.Join(e2, ", ") + " }"
		decls := []string{ns, en1}
		if r.Bool() {
			decls = []string{en1, ns}
		}
		if r.Chance(30) {
			decls = append([]string{en2}, decls...) // the visited block first: later blocks are already registered
		} else {
			decls = append(decls, en2)
		}
		src := strings.Join(outerDecl, " ") + "\n" + strings.Join(decls, "\n") + "\n"
		res := api.Transform(src, api.TransformOptions{Loader: api.LoaderTS, LogLevel: api.LogLevelSilent})
		if len(res.Errors) > 0 {
			st.Histogram["resolve-program-rejected"]++
			continue
		}
		out := string(res.Code)
		for k := 0; k < nm; k++ {
			q := regexp.QuoteMeta(fmt.Sprintf("\"R%d\"", k))
			m := regexp.MustCompile(`\[` + q + `\] = (.*?)\] = ` + q + `;`).FindStringSubmatch(out)
			if m == nil {
				st.Histogram["resolve-output-not-parsed"]++
				continue
			}
			expr := m[1]
			obs := -1
			switch {
			case regexp.MustCompile(`^[A-Za-z_$][\w$]*\.` + refs[k] + `$`).MatchString(expr), strings.HasSuffix(expr, "/* "+refs[k]+" */"):
				obs = 1
			case regexp.MustCompile(`^` + refs[k] + `\d*$`).MatchString(expr):
				obs = 0
			}
			if obs < 0 {
				st.Histogram["resolve-output-not-parsed"]++
				continue
			}
			var code int
			fmt.Sscanf(refs[k][1:], "%d", &code)
			if refs[k][0] == 'q' {
				code += 100
			} else {
				code += 200
			}
			st.Note("enum-name-resolution", src+refs[k]+fmt.Sprint(k), true)
			items = append(items, fmt.Sprintf("([%s],[%s],%d,%d)", strings.Join(block, ";"), strings.Join(exported, ";"), code, obs))
		}
	}
	return items
}
