package main

// Glue stream and oracle: native Node execution of a generated module tree
// versus execution of the esbuild bundle of the same tree (public api.Build).

import (
	"bytes"
	"encoding/base64"
	"encoding/hex"
	"encoding/json"
	"fmt"
	"os"
	"os/exec"
	"path/filepath"
	"regexp"
	"strconv"
	"strings"
	"sync"
	"time"
	"unicode/utf8"

	"github.com/evanw/esbuild/internal/config"
	"github.com/evanw/esbuild/pkg/api"
	. "github.com/evanw/esbuild/verifharness/hlib"
)

const runnerJS = `
import { createRequire } from "module";
import fs from "fs";
import vm from "vm";
import { pathToFileURL } from "url";
const spec = JSON.parse(fs.readFileSync(process.argv[2], "utf8"));
const require = createRequire(import.meta.url);
process.on("unhandledRejection", () => {});
async function drain() {
  let q;
  do { q = globalThis.$Q; try { await q; } catch (e) {} } while (q !== globalThis.$Q);
}
const results = [];
for (const run of spec.runs) {
  vm.runInThisContext(spec.prelude);
  let ex, err = null, msg = "";
  try {
    if (run.mode === "import") ex = await import(pathToFileURL(run.file).href);
    else if (run.mode === "require") ex = require(run.file);
    else { vm.runInThisContext(fs.readFileSync(run.file, "utf8"), { filename: run.file }); ex = globalThis[run.global]; }
    if (run.view === "default") ex = ex.default;
  } catch (e) {
    err = (e && e.constructor && e.constructor.name) || String(e);
    msg = String(e && e.message).slice(0, 300);
  }
  await drain();
  if (!err) {
    const late = globalThis.$late.slice();
    for (const f of late) { try { f(); } catch (e) { globalThis.$L.push("late!" + (e && e.name)); } }
    await drain();
  }
  let exports = null;
  if (!err && run.view !== "none") { try { exports = globalThis.$D(ex); } catch (e) { exports = "!" + (e && e.name); } }
  results.push({ log: globalThis.$L.slice(), err, msg, exports });
}
fs.writeFileSync(process.argv[3], JSON.stringify(results));
`

type nodeRun struct {
	Mode   string `json:"mode"`
	File   string `json:"file"`
	Global string `json:"global,omitempty"`
	View   string `json:"view"`
}

type nodeRes struct {
	Log     []string `json:"log"`
	Err     *string  `json:"err"`
	Msg     string   `json:"msg"`
	Exports *string  `json:"exports"`
}

func (r nodeRes) err() string {
	if r.Err == nil {
		return ""
	}
	return *r.Err
}
func (r nodeRes) exports() string {
	if r.Exports == nil {
		return "<none>"
	}
	return *r.Exports
}

func runNode(dir string, runs []nodeRun) ([]nodeRes, error) {
	spec := map[string]interface{}{"prelude": preludeJS, "runs": runs}
	data, _ := json.Marshal(spec)
	sp := filepath.Join(dir, "$spec.json")
	op := filepath.Join(dir, "$out.json")
	rp := filepath.Join(dir, "$runner.mjs")
	os.WriteFile(sp, data, 0o644)
	os.WriteFile(rp, []byte(runnerJS), 0o644)
	os.Remove(op)
	cmd := exec.Command("node", "--no-warnings", rp, sp, op)
	cmd.Dir = dir
	var stderr bytes.Buffer
	cmd.Stderr = &stderr
	done := make(chan error, 1)
	if err := cmd.Start(); err != nil {
		return nil, err
	}
	go func() { done <- cmd.Wait() }()
	select {
	case err := <-done:
		if err != nil {
			return nil, fmt.Errorf("node: %v: %s", err, clip(stderr.String(), 600))
		}
	case <-time.After(20 * time.Second):
		cmd.Process.Kill()
		return nil, fmt.Errorf("node: timeout")
	}
	raw, err := os.ReadFile(op)
	if err != nil {
		return nil, err
	}
	var res []nodeRes
	if err := json.Unmarshal(raw, &res); err != nil {
		return nil, err
	}
	return res, nil
}

func clip(s string, n int) string {
	if len(s) > n {
		return s[:n] + "..."
	}
	return s
}

type buildCfg struct {
	Format   string `json:"format"`
	Platform string `json:"platform"`
	Minify   bool   `json:"minify"`
}

func (c buildCfg) options(dir, entry, out string) api.BuildOptions {
	o := api.BuildOptions{
		AbsWorkingDir: dir,
		EntryPoints:   []string{filepath.Join(dir, entry)},
		Outfile:       filepath.Join(dir, out),
		Bundle:        true,
		Write:         true,
		LogLevel:      api.LogLevelSilent,
		Target:        api.ES2022, // the bundles are executed by Node 20
		Loader:        map[string]api.Loader{".txt": api.LoaderText, ".bin": api.LoaderBinary, ".b64": api.LoaderBase64, ".dat": api.LoaderDataURL},
	}
	switch c.Format {
	case "esm":
		o.Format = api.FormatESModule
	case "cjs":
		o.Format = api.FormatCommonJS
	default:
		o.Format = api.FormatIIFE
		o.GlobalName = "$G"
	}
	switch c.Platform {
	case "node":
		o.Platform = api.PlatformNode
	case "browser":
		o.Platform = api.PlatformBrowser
	default:
		o.Platform = api.PlatformNeutral
	}
	if c.Minify {
		o.MinifyWhitespace, o.MinifyIdentifiers, o.MinifySyntax = true, true, true
	}
	return o
}

func outName(i int, c buildCfg) string {
	switch c.Format {
	case "esm":
		return fmt.Sprintf("$out%d.mjs", i)
	case "cjs":
		return fmt.Sprintf("$out%d.cjs", i)
	}
	return fmt.Sprintf("$out%d.iife.js", i)
}

var allCfgs = func() []buildCfg {
	var out []buildCfg
	for _, f := range []string{"esm", "cjs", "iife"} {
		for _, p := range []string{"node", "neutral", "browser"} {
			for _, m := range []bool{false, true} {
				out = append(out, buildCfg{f, p, m})
			}
		}
	}
	return out
}()

type glueOutcome struct {
	kind   string // ok | fail | skip
	what   string
	input  map[string]interface{}
	got    interface{}
	expect interface{}
	note   string
	natLog []string // probe log of the native run and of this bundle (ok outcomes)
	bunLog []string
}

func writeTree(dir string, files map[string]string) error {
	for p, c := range files {
		fp := filepath.Join(dir, p)
		if err := os.MkdirAll(filepath.Dir(fp), 0o755); err != nil {
			return err
		}
		if err := os.WriteFile(fp, []byte(c), 0o644); err != nil {
			return err
		}
	}
	return nil
}

type builtCfg struct {
	cfg  buildCfg
	errs []string
	run  int
}

type prepared struct {
	dir   string
	runs  []nodeRun
	bs    []builtCfg
	job   glueJob
	input func(c *buildCfg) map[string]interface{}
}

// write the tree and build every configuration (no node yet)
func prepareJob(j glueJob) *prepared {
	dir, err := os.MkdirTemp("", "verif-c02-")
	if err != nil {
		panic(err)
	}
	if err := writeTree(dir, j.files); err != nil {
		panic(err)
	}
	p := &prepared{dir: dir, job: j}
	p.input = func(c *buildCfg) map[string]interface{} {
		m := map[string]interface{}{"files": j.files, "entry": j.entry}
		for k, v := range j.desc {
			m[k] = v
		}
		if c != nil {
			m["build"] = *c
		}
		return m
	}
	if j.esm {
		p.runs = append(p.runs, nodeRun{Mode: "import", File: filepath.Join(dir, j.native), View: "ns"})
	} else {
		p.runs = append(p.runs, nodeRun{Mode: "require", File: filepath.Join(dir, j.native), View: "module"})
	}
	for i, c := range j.cfgs {
		out := outName(i, c)
		res := api.Build(c.options(dir, j.entry, out))
		b := builtCfg{cfg: c, run: -1}
		for _, m := range res.Errors {
			b.errs = append(b.errs, m.Text)
		}
		if len(b.errs) == 0 {
			nr := nodeRun{File: filepath.Join(dir, out)}
			switch c.Format {
			case "esm":
				nr.Mode = "import"
				nr.View = "ns"
				if !j.esm {
					nr.View = "default"
				}
			case "cjs":
				nr.Mode, nr.View = "require", "module"
			default:
				nr.Mode, nr.View, nr.Global = "script", "module", "$G"
			}
			b.run = len(p.runs)
			p.runs = append(p.runs, nr)
		}
		p.bs = append(p.bs, b)
	}
	return p
}

func (p *prepared) evaluate(res []nodeRes) []glueOutcome {
	input := p.input
	native := res[0]
	nativeLinkErr := native.err() == "SyntaxError" && len(native.Log) == 0
	var outs []glueOutcome
	for _, b := range p.bs {
		c := b.cfg
		if len(b.errs) > 0 {
			if nativeLinkErr {
				outs = append(outs, glueOutcome{kind: "ok", note: "both-reject"})
			} else {
				outs = append(outs, glueOutcome{kind: "fail", what: "glue-build-rejects-valid-graph", input: input(&c), got: b.errs, expect: map[string]interface{}{"native": native}})
			}
			continue
		}
		if nativeLinkErr {
			outs = append(outs, glueOutcome{kind: "fail", what: "glue-build-accepts-unlinkable-graph", input: input(&c), got: res[b.run], expect: map[string]interface{}{"native": native}})
			continue
		}
		got := res[b.run]
		same := got.err() == native.err() && len(got.Log) == len(native.Log)
		if same {
			for i := range got.Log {
				if got.Log[i] != native.Log[i] {
					same = false
					break
				}
			}
		}
		if !same {
			outs = append(outs, glueOutcome{kind: "fail", what: "glue-probe-log-differs", input: input(&c), got: got, expect: native})
			continue
		}
		if dyn, _ := p.job.desc["entry_dynamic_exports"].(bool); dyn && c.Format == "esm" {
			// names the entry takes from a CommonJS file by "export *" cannot be declared by an ES module
			outs = append(outs, glueOutcome{kind: "ok", note: "esm-exports-not-compared"})
			continue
		}
		ge := got.exports()
		if ge == "undefined" && native.exports() == "{}" {
			ge = "{}" // an entry without exports: the IIFE global is not assigned an object
		}
		if ge != native.exports() {
			outs = append(outs, glueOutcome{kind: "fail", what: "glue-entry-exports-differ", input: input(&c), got: ge, expect: native.exports()})
			continue
		}
		outs = append(outs, glueOutcome{kind: "ok", natLog: native.Log, bunLog: got.Log})
	}
	return outs
}

// run a set of prepared jobs in as few node processes as possible
func runPrepared(ps []*prepared) [][]glueOutcome {
	outs := make([][]glueOutcome, len(ps))
	if len(ps) == 0 {
		return outs
	}
	const procs = 4
	var wg sync.WaitGroup
	for w := 0; w < procs; w++ {
		var idx []int
		for i := w; i < len(ps); i += procs {
			idx = append(idx, i)
		}
		if len(idx) == 0 {
			continue
		}
		wg.Add(1)
		go func(idx []int) {
			defer wg.Done()
			var all []nodeRun
			for _, i := range idx {
				all = append(all, ps[i].runs...)
			}
			res, err := runNode(ps[idx[0]].dir, all)
			if err == nil {
				off := 0
				for _, i := range idx {
					outs[i] = ps[i].evaluate(res[off : off+len(ps[i].runs)])
					off += len(ps[i].runs)
				}
				return
			}
			// the batch died (crash or hang in one program): isolate job by job
			for _, i := range idx {
				r1, err1 := runNode(ps[i].dir, ps[i].runs)
				if err1 != nil {
					outs[i] = []glueOutcome{{kind: "fail", what: "glue-node-run-failed", input: ps[i].input(nil), got: err1.Error(), expect: "node completes"}}
				} else {
					outs[i] = ps[i].evaluate(r1)
				}
			}
		}(idx)
	}
	wg.Wait()
	return outs
}

func runJobs(jobs []glueJob) [][]glueOutcome {
	ps := make([]*prepared, len(jobs))
	var wg sync.WaitGroup
	sem := make(chan struct{}, 8)
	for i := range jobs {
		wg.Add(1)
		go func(i int) {
			defer wg.Done()
			sem <- struct{}{}
			defer func() { <-sem }()
			ps[i] = prepareJob(jobs[i])
		}(i)
	}
	wg.Wait()
	defer func() {
		for _, p := range ps {
			os.RemoveAll(p.dir)
		}
	}()
	return runPrepared(ps)
}

// every failing glue case is re-run before it is reported
func runJobsConfirmed(jobs []glueJob) [][]glueOutcome {
	results := runJobs(jobs)
	var again []int
	for i, outs := range results {
		for _, o := range outs {
			if o.kind == "fail" {
				again = append(again, i)
				break
			}
		}
	}
	if len(again) > 0 {
		var js []glueJob
		for _, i := range again {
			js = append(js, jobs[i])
		}
		second := runJobs(js)
		for k, i := range again {
			for x := range results[i] {
				if results[i][x].kind == "fail" && !(x < len(second[k]) && second[k][x].kind == "fail" && second[k][x].what == results[i][x].what) {
					results[i][x] = glueOutcome{kind: "skip", note: "flaky"}
				}
			}
		}
	}
	return results
}

func pickCfgs(r *Rng, k int) []buildCfg {
	// one of each format at least, random platform/minify
	var out []buildCfg
	for _, f := range []string{"esm", "cjs", "iife"} {
		out = append(out, buildCfg{f, []string{"node", "neutral", "browser"}[r.Intn(3)], r.Bool()})
	}
	for len(out) < k {
		out = append(out, allCfgs[r.Intn(len(allCfgs))])
	}
	return out[:k]
}

type glueJob struct {
	g      *ggraph // abstract graph (nil for asset jobs)
	files  map[string]string
	entry  string
	native string
	esm    bool
	cfgs   []buildCfg
	desc   map[string]interface{}
	kind   string
}

func glueStream(r *Rng, st *Stats, n int, tier string) ([]string, []string) {
	var jobs []glueJob
	for _, g := range fixedGraphs() {
		if g.shape == "known" {
			continue
		}
		jobs = append(jobs, glueJob{g, g.render(), g.mods[g.entry].path, g.mods[g.entry].path, g.isESM(g.entry), pickCfgs(r, 3), g.describe(), "glue:fixed"})
	}
	for i := 0; i < n; i++ {
		g := genGraph(r, genOpts{allESM: r.Chance(30), maxMods: 8, allowBad: r.Chance(30)})
		k := "glue:" + g.shape
		if g.invalid {
			k += ":invalid"
		}
		jobs = append(jobs, glueJob{g, g.render(), g.mods[g.entry].path, g.mods[g.entry].path, g.isESM(g.entry), pickCfgs(r, 3), g.describe(), k})
	}
	for i := 0; i < n/4+2; i++ {
		jobs = append(jobs, assetJob(r))
	}
	for i := 0; i < 2; i++ {
		jobs = append(jobs, interopJob(r))
	}
	results := runJobsConfirmed(jobs)
	for i, outs := range results {
		for _, o := range outs {
			key := fmt.Sprintf("%d/%v", i, jobs[i].desc)
			switch o.kind {
			case "ok":
				k := jobs[i].kind
				if o.note != "" {
					k += ":" + o.note
				}
				st.Note(k, key, true)
			case "skip":
				st.Note(jobs[i].kind+":skipped", key, false)
			case "fail":
				st.Note(jobs[i].kind, key, true)
				st.Fail(o.what, o.input, o.got, o.expect)
			}
		}
	}
	knownFindings(st)
	// evaluation-order cases: abstract graph + real wrap kinds + the two probe logs (first configuration)
	var evalCases []string
	for i, outs := range results {
		j := jobs[i]
		if j.g == nil || j.g.invalid || j.g.hasThrow || len(outs) == 0 || outs[0].kind != "ok" || outs[0].natLog == nil {
			continue
		}
		if c, ok := evalOrderCase(j, outs[0]); ok {
			evalCases = append(evalCases, c)
			st.Note("evalorder", c, len(j.g.mods) > 1)
		}
	}
	// interop cases: what an import from a CommonJS file evaluates to, natively and in the bundle
	var interopCases []string
	for i, outs := range results {
		if jobs[i].kind != "glue:interop" {
			continue
		}
		for _, o := range outs {
			if o.kind != "ok" || o.natLog == nil {
				continue
			}
			interopCases = append(interopCases, interopCasesOf(o.natLog, o.bunLog)...)
		}
	}
	return evalCases, interopCases
}

// ---- imports from CommonJS files: namespace-alias property accesses on __toESM(require_x(), isNodeMode) ----

var reInterop = regexp.MustCompile(`^(I:(\d):(\d):(\d):(\d):(\d)#\d+)=(\d)$`)

// interopJob: CommonJS targets with every combination of the __esModule marker (absent / assigned /
// defined non-enumerable) and an own "default" key, imported by ESM-typed files (.mjs, and .js
// under "type": "module") with import statements (default, namespace, named) and import(), and by
// files that are not ESM-typed with import() - there only targets without the marker (with it:
// recorded finding G).  Every probe line carries its own parameters:
// I:<typed>:<dynamic>:<marker>:<has default key>:<name 0 default, 1 x, 2 y (absent)>#<n>=<class>
func interopJob(r *Rng) glueJob {
	files := map[string]string{"package.json": `{}`, "sub/package.json": `{"type":"module"}`}
	const classify = "const $V = v => v === undefined ? 3 : typeof v === \"object\" ? 0 : v === \"D\" ? 1 : 2;\n"
	type target struct {
		path           string
		marker, hasDef int
	}
	var targets []target
	for marker := 0; marker < 3; marker++ {
		for hasDef := 0; hasDef < 2; hasDef++ {
			t := target{fmt.Sprintf("l%d%d.cjs", marker, hasDef), marker, hasDef}
			var sb strings.Builder
			switch marker {
			case 1:
				sb.WriteString("exports.__esModule = true;\n")
			case 2:
				sb.WriteString("Object.defineProperty(exports, \"__esModule\", { value: true });\n")
			}
			sb.WriteString("exports.x = \"X\";\n")
			if hasDef == 1 {
				sb.WriteString("exports.default = \"D\";\n")
			}
			files[t.path] = sb.String()
			targets = append(targets, t)
		}
	}
	n := 0
	tag := func(typed, dyn int, t target, name int) string {
		n++
		m := 0
		if t.marker != 0 {
			m = 1
		}
		return fmt.Sprintf("I:%d:%d:%d:%d:%d#%d", typed, dyn, m, t.hasDef, name, n)
	}
	importer := func(path string, typed bool) {
		var sb strings.Builder
		rel := "./"
		if strings.HasPrefix(path, "sub/") {
			rel = "../"
		}
		ty := 0
		if typed {
			ty = 1
		}
		var body strings.Builder
		body.WriteString(classify)
		for i, t := range targets {
			if r.Chance(25) {
				continue
			}
			if typed {
				switch r.Intn(3) {
				case 0:
					fmt.Fprintf(&sb, "import d%d from %q;\n", i, rel+t.path)
					fmt.Fprintf(&body, "$L.push(%q + $V(d%d));\n", tag(1, 0, t, 0)+"=", i)
				case 1:
					fmt.Fprintf(&sb, "import * as n%d from %q;\n", i, rel+t.path)
					fmt.Fprintf(&body, "$L.push(%q + $V(n%d.default));\n$L.push(%q + $V(n%d.x));\n$L.push(%q + $V(n%d.y));\n",
						tag(1, 0, t, 0)+"=", i, tag(1, 0, t, 1)+"=", i, tag(1, 0, t, 2)+"=", i)
				default:
					fmt.Fprintf(&sb, "import d%d, { x as x%d } from %q;\n", i, i, rel+t.path)
					fmt.Fprintf(&body, "$L.push(%q + $V(d%d));\n$L.push(%q + $V(x%d));\n", tag(1, 0, t, 0)+"=", i, tag(1, 0, t, 1)+"=", i)
				}
			}
			if !typed && t.marker != 0 {
				continue
			}
			if typed && r.Chance(30) {
				continue
			}
			fmt.Fprintf(&body, "$Q = $Q.then(() => import(%q)).then(ns => { $L.push(%q + $V(ns.default)); $L.push(%q + $V(ns.x)); $L.push(%q + $V(ns.y)); });\n",
				rel+t.path, tag(ty, 1, t, 0)+"=", tag(ty, 1, t, 1)+"=", tag(ty, 1, t, 2)+"=")
		}
		files[path] = sb.String() + body.String()
	}
	importer("t.mjs", true)
	importer("sub/t.js", true)
	importer("u.cjs", false)
	importer("v.js", false)
	files["e.mjs"] = "import \"./t.mjs\";\nimport \"./sub/t.js\";\nimport \"./u.cjs\";\nimport \"./v.js\";\n"
	return glueJob{nil, files, "e.mjs", "e.mjs", true, pickCfgs(r, 3), map[string]interface{}{"shape": "interop"}, "glue:interop"}
}

func interopCasesOf(natLog, bunLog []string) []string {
	nat := map[string]string{}
	for _, l := range natLog {
		if m := reInterop.FindStringSubmatch(l); m != nil {
			nat[m[1]] = m[7]
		}
	}
	var out []string
	for _, l := range bunLog {
		m := reInterop.FindStringSubmatch(l)
		if m == nil {
			continue
		}
		nv, ok := nat[m[1]]
		if !ok {
			nv = "9"
		}
		out = append(out, fmt.Sprintf("(%s, %s, %s, %s, %s, %s, %s)", CBool(m[2] == "1"), CBool(m[3] == "1"), CBool(m[4] == "1"), CBool(m[5] == "1"), m[6], nv, m[7]))
	}
	return out
}

var reStartEnd = regexp.MustCompile(`^(\d+):(start|end)$`)

func evalOrderCase(j glueJob, o glueOutcome) (string, bool) {
	g := j.g
	cfg := j.cfgs[0]
	fm := map[string]config.Format{"esm": config.FormatESModule, "cjs": config.FormatCommonJS, "iife": config.FormatIIFE}[cfg.Format]
	lc := linkCfg{fm, config.PlatformNode}
	d, _, linkMsgs := scanAndDump(j.files, j.entry, lc)
	if d == nil || d.HasErrors {
		return "", false
	}
	linkCase, ok := dumpToCoq(d, linkMsgs, lc)
	if !ok {
		return "", false
	}
	// everything is expressed in the linker's source indices, so that the graph the model derives
	// from the import records and its own wrap flags can be compared with this one
	wrap := map[string]bool{}
	idx := map[string]int{}
	maxIdx := 0
	// the same path can be linked twice (a JSON file imported with and without import attributes):
	// then module ids do not determine source indices and only the two traces are compared
	unique := true
	modPaths := map[string]bool{}
	for _, md := range g.mods {
		modPaths[md.path] = true
	}
	for _, f := range d.Files {
		if _, dup := idx[f.Path]; dup || (f.Index != 0 && !modPaths[f.Path]) {
			unique = false
		}
		wrap[f.Path] = f.Wrap != 0
		idx[f.Path] = int(f.Index)
		if int(f.Index) > maxIdx {
			maxIdx = int(f.Index)
		}
	}
	reach := map[int]bool{}
	for _, x := range d.Reachable {
		reach[int(x)] = true
	}
	tr := func(id int) int {
		if x, ok := idx[g.mods[id].path]; ok {
			return x
		}
		return maxIdx + 1 + id
	}
	zl := func(xs []int) string {
		var s []string
		for _, x := range xs {
			s = append(s, fmt.Sprint(tr(x)))
		}
		return "[" + strings.Join(s, ";") + "]"
	}
	mods := make([]string, maxIdx+1)
	for i := range mods {
		mods[i] = "EM false true [] [] [] false"
	}
	for _, md := range g.mods {
		x, ok := idx[md.path]
		if !ok || !reach[x] {
			continue
		}
		var static, req []int
		if md.kind == modESM {
			static = g.staticDeps(md.id)
		} else {
			req = md.requires
		}
		mods[x] = fmt.Sprintf("EM %s %s %s %s %s %s", CBool(md.kind == modESM), CBool(md.kind == modJSON), zl(static), zl(req), zl(md.dyn), CBool(wrap[md.path]))
	}
	events := func(log []string) string {
		var out []string
		for _, l := range log {
			if m := reStartEnd.FindStringSubmatch(l); m != nil {
				k := 0
				if m[2] == "end" {
					k = 1
				}
				id, _ := strconv.Atoi(m[1])
				out = append(out, fmt.Sprintf("(%d, %d)", k, tr(id)))
			}
		}
		return "[" + strings.Join(out, "; ") + "]"
	}
	return fmt.Sprintf("(%s,\n  %s, [%s], %d, %s, %s)", linkCase, CBool(unique), strings.Join(mods, "; "), tr(g.entry), events(o.natLog), events(o.bunLog)), true
}

// ---- non-JavaScript assets: the imported value is exactly the file's bytes / text / JSON value ----

func assetJob(r *Rng) glueJob {
	files := map[string]string{"package.json": `{"type":"module"}`}
	var sb strings.Builder
	expect := []string{}
	sb.WriteString("const hex = b => Array.from(b, x => x.toString(16).padStart(2, \"0\")).join(\"\");\n")
	sb.WriteString("const enc = s => hex(new TextEncoder().encode(s));\n")
	nAssets := r.Range(1, 4)
	var awaits []string
	for i := 0; i < nAssets; i++ {
		data := randAsset(r)
		kind := []string{"text", "binary", "base64", "dataurl", "json"}[r.Intn(5)]
		switch kind {
		case "text":
			if !utf8.Valid(data) {
				data = []byte(strings.ToValidUTF8(string(data), "?"))
			}
			name := fmt.Sprintf("a%d.txt", i)
			files[name] = string(data)
			fmt.Fprintf(&sb, "import t%d from \"./%s\";\n$L.push(\"%d:text=\" + enc(t%d));\n", i, name, i, i)
			expect = append(expect, fmt.Sprintf("%d:text=%s", i, hex.EncodeToString(data)))
		case "binary":
			name := fmt.Sprintf("a%d.bin", i)
			files[name] = string(data)
			fmt.Fprintf(&sb, "import t%d from \"./%s\";\n$L.push(\"%d:binary=\" + (t%d instanceof Uint8Array) + hex(t%d));\n", i, name, i, i, i)
			expect = append(expect, fmt.Sprintf("%d:binary=true%s", i, hex.EncodeToString(data)))
		case "base64":
			name := fmt.Sprintf("a%d.b64", i)
			files[name] = string(data)
			fmt.Fprintf(&sb, "import t%d from \"./%s\";\n$L.push(\"%d:base64=\" + t%d);\n", i, name, i, i)
			expect = append(expect, fmt.Sprintf("%d:base64=%s", i, base64.StdEncoding.EncodeToString(data)))
		case "dataurl":
			name := fmt.Sprintf("a%d.dat", i)
			files[name] = string(data)
			fmt.Fprintf(&sb, "import t%d from \"./%s\";\n", i, name)
			awaits = append(awaits, fmt.Sprintf("$Q = $Q.then(() => fetch(t%d)).then(x => x.arrayBuffer()).then(b => { $L.push(\"%d:dataurl=\" + hex(new Uint8Array(b))); }, e => { $L.push(\"%d:dataurl!\" + e.name); });\n", i, i, i))
			expect = append(expect, fmt.Sprintf("%d:dataurl=%s", i, hex.EncodeToString(data)))
		case "json":
			name := fmt.Sprintf("a%d.json", i)
			js := genJSON(r, 3)
			files[name] = js
			fmt.Fprintf(&sb, "import t%d from \"./%s\";\n$L.push(\"%d:json=\" + JSON.stringify(t%d) + \"|\" + $D(t%d));\n", i, name, i, i, i)
			files[fmt.Sprintf("ref%d.mjs", i)] = fmt.Sprintf("globalThis.$L.push(%q + JSON.stringify(JSON.parse(%q)) + \"|\" + $D(JSON.parse(%q)));\n", fmt.Sprintf("%d:json=", i), js, js)
			expect = append(expect, "json")
		}
	}
	for _, a := range awaits {
		sb.WriteString(a)
	}
	files["entry.mjs"] = sb.String()
	// the reference tree: the expected log computed without any loader
	var ref strings.Builder
	di := 0
	var late []string
	for i, e := range expect {
		if e == "json" {
			fmt.Fprintf(&ref, "import \"./ref%d.mjs\";\n", i)
		} else if strings.Contains(e, ":dataurl=") {
			late = append(late, e)
			di++
		} else {
			// static imports are hoisted: emit through a module to keep the order
			files[fmt.Sprintf("ref%d.mjs", i)] = fmt.Sprintf("globalThis.$L.push(%q);\n", e)
			fmt.Fprintf(&ref, "import \"./ref%d.mjs\";\n", i)
		}
	}
	for _, e := range late {
		fmt.Fprintf(&ref, "$Q = $Q.then(() => { $L.push(%q); });\n", e)
	}
	files["$native.mjs"] = ref.String()
	cfgs := pickCfgs(r, 3)
	return glueJob{nil, files, "entry.mjs", "$native.mjs", true, cfgs, map[string]interface{}{"shape": "assets"}, "glue:assets"}
}

func randAsset(r *Rng) []byte {
	switch r.Intn(6) {
	case 0:
		return []byte(durlGrid[r.Intn(len(durlGrid))])
	case 1:
		var b []byte
		for k := r.Range(0, 40); k > 0; k-- {
			b = append(b, byte(r.Intn(256)))
		}
		return b
	case 2:
		return []byte{}
	default:
		return randText(r)
	}
}
