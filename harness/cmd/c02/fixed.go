package main

// Hand-written boundary graphs (run first on every check) and the replay of
// recorded findings.

import (
	"fmt"

	. "github.com/evanw/esbuild/verifharness/hlib"
)

func esm(id int, path string) *gmod { return &gmod{id: id, kind: modESM, path: path} }

func finish(g *ggraph) *ggraph {
	for _, md := range g.mods {
		md.items = md.items[:0]
		for i := range md.imports {
			md.items = append(md.items, gitem{"import", i})
		}
		for i := range md.reexps {
			md.items = append(md.items, gitem{"reexp", i})
		}
		for i := range md.stars {
			md.items = append(md.items, gitem{"star", i})
		}
	}
	if m, _, _ := g.firstLinkProblem(); m >= 0 {
		g.invalid = true
	}
	return g
}

func fixedGraphs() []*ggraph {
	var out []*ggraph
	v := func(n string) localExport { return localExport{n, "var"} }
	f := func(n string) localExport { return localExport{n, "function"} }
	l := func(n string) localExport { return localExport{n, "let"} }

	// 1. diamond, evaluation order D B C A
	{
		a, b, c, d := esm(0, "a.mjs"), esm(1, "b.mjs"), esm(2, "c.mjs"), esm(3, "d.mjs")
		d.locals = []localExport{v("x"), f("y")}
		b.imports = []gimport{{3, "named", "x", "bx"}}
		c.imports = []gimport{{3, "ns", "", "cn"}}
		a.imports = []gimport{{1, "side", "", ""}, {2, "side", "", ""}}
		out = append(out, finish(&ggraph{mods: []*gmod{a, b, c, d}, shape: "fixed-diamond", rootType: "module", subType: "commonjs"}))
	}
	// 2. star conflict: ambiguous name is an error when imported explicitly
	{
		a, b, c, d := esm(0, "a.mjs"), esm(1, "b.mjs"), esm(2, "c.mjs"), esm(3, "d.mjs")
		c.locals = []localExport{v("x"), v("y")}
		d.locals = []localExport{v("x"), v("z")}
		b.stars = []int{2, 3}
		a.imports = []gimport{{1, "named", "x", "ax"}}
		out = append(out, finish(&ggraph{mods: []*gmod{a, b, c, d}, shape: "fixed-star-ambiguous", rootType: "module", subType: "commonjs"}))
	}
	// 3. star conflict not imported explicitly: the namespace silently omits the ambiguous name
	{
		a, b, c, d := esm(0, "a.mjs"), esm(1, "b.mjs"), esm(2, "c.mjs"), esm(3, "d.mjs")
		c.locals = []localExport{v("x"), v("y")}
		d.locals = []localExport{v("x"), v("z")}
		b.stars = []int{2, 3}
		a.imports = []gimport{{1, "ns", "", "an"}, {1, "named", "y", "ay"}}
		a.stars = []int{1}
		out = append(out, finish(&ggraph{mods: []*gmod{a, b, c, d}, shape: "fixed-star-omitted", rootType: "module", subType: "commonjs"}))
	}
	// 4. shadowing: a local export hides the star export; the same binding through two star paths is not ambiguous
	{
		a, b, c, d := esm(0, "a.mjs"), esm(1, "b.mjs"), esm(2, "c.mjs"), esm(3, "d.mjs")
		d.locals = []localExport{v("x"), v("y")}
		b.locals = []localExport{v("x")}
		b.stars = []int{3}
		c.stars = []int{3}
		a.stars = []int{1, 2}
		a.imports = []gimport{{0, "ns", "", "self"}, {1, "named", "x", "bx"}, {2, "named", "x", "cx"}, {1, "named", "y", "by"}}
		out = append(out, finish(&ggraph{mods: []*gmod{a, b, c, d}, shape: "fixed-shadow", rootType: "module", subType: "commonjs"}))
	}
	// 5. cycle with hoisted functions and live bindings; export-star cycle
	{
		a, b := esm(0, "a.mjs"), esm(1, "b.mjs")
		a.locals = []localExport{f("x"), v("y")}
		b.locals = []localExport{f("z"), l("w")}
		a.imports = []gimport{{1, "named", "z", "az"}, {1, "named", "w", "aw"}}
		b.imports = []gimport{{0, "named", "x", "bx"}, {0, "named", "y", "by"}}
		a.stars = []int{1}
		b.stars = []int{0}
		out = append(out, finish(&ggraph{mods: []*gmod{a, b}, shape: "fixed-cycle", rootType: "", subType: "module"}))
	}
	// 6. re-export chain with renames and a re-export cycle that is never imported
	{
		a, b, c := esm(0, "a.mjs"), esm(1, "b.mjs"), esm(2, "c.mjs")
		c.locals = []localExport{v("x")}
		c.hasDef = true
		b.reexps = []greexp{{2, "x", "y"}, {2, "default", "z"}, {2, "*", "ns2"}}
		a.reexps = []greexp{{1, "y", "w"}}
		a.imports = []gimport{{1, "named", "y", "ay"}, {1, "named", "z", "az"}, {1, "named", "ns2", "an"}, {2, "default", "", "cd"}}
		out = append(out, finish(&ggraph{mods: []*gmod{a, b, c}, shape: "fixed-reexport-chain", rootType: "module", subType: "module"}))
	}
	// 7. import cycle through indirect exports: unresolvable
	{
		a, b := esm(0, "a.mjs"), esm(1, "b.mjs")
		a.reexps = []greexp{{1, "y", "x"}}
		b.reexps = []greexp{{0, "x", "y"}}
		a.imports = []gimport{{1, "named", "y", "ay"}}
		out = append(out, finish(&ggraph{mods: []*gmod{a, b}, shape: "fixed-reexport-cycle", rootType: "module", subType: "module"}))
	}
	// 8. mixed: ESM entry importing CommonJS (default, named, namespace), CommonJS requiring CommonJS and JSON
	{
		a := esm(0, "a.mjs")
		b := &gmod{id: 1, kind: modCJS, path: "b.cjs", locals: []localExport{v("x"), v("y")}}
		c := &gmod{id: 2, kind: modCJS, path: "c.cjs", cjsAssign: true, locals: []localExport{v("z")}}
		d := &gmod{id: 3, kind: modJSON, path: "d.json", json: `{"a":[1,2,{"b":null}],"default":3}`}
		b.requires = []int{2, 3}
		a.imports = []gimport{{1, "default", "", "bd"}, {1, "named", "x", "bx"}, {1, "ns", "", "bn"}, {2, "default", "", "cd"}, {3, "default", "", "dd"}}
		a.dyn = []int{1}
		out = append(out, finish(&ggraph{mods: []*gmod{a, b, c, d}, shape: "fixed-mixed", rootType: "", subType: "commonjs"}))
	}
	// 9. CommonJS entry with a require cycle and a dynamic import of an ES module
	{
		a := &gmod{id: 0, kind: modCJS, path: "a.cjs", locals: []localExport{v("x"), v("y")}}
		b := &gmod{id: 1, kind: modCJS, path: "b.cjs", locals: []localExport{v("z")}}
		c := esm(2, "c.mjs")
		c.locals = []localExport{v("w")}
		c.hasDef = true
		a.requires = []int{1}
		b.requires = []int{0}
		b.dyn = []int{2}
		out = append(out, finish(&ggraph{mods: []*gmod{a, b, c}, shape: "fixed-cjs-entry", rootType: "", subType: "commonjs"}))
	}
	// 10-14. export-star cycles combined with a star to a CommonJS file: every member of the
	// cycle has dynamic exports (ExportsESMWithDynamicFallback), whichever member the linker
	// visits first; the importer reads a CommonJS-provided name through each member, as a
	// named import and through a namespace
	for _, v := range []struct {
		name   string
		cycle  int  // length of the cycle
		cjsOn  int  // index (1-based) of the cycle member that star-exports the CommonJS file
		before bool // the CommonJS star precedes the cycle edge in the source
	}{
		{"fixed-starcycle-after", 2, 1, false},
		{"fixed-starcycle-before", 2, 1, true},
		{"fixed-starcycle-on-second", 2, 2, false},
		{"fixed-starcycle-3", 3, 3, false},
		{"fixed-starcycle-3-mid", 3, 2, true},
	} {
		n := v.cycle
		mods := []*gmod{esm(0, "e.mjs")}
		for i := 1; i <= n; i++ {
			m := esm(i, []string{"", "a.mjs", "b.mjs", "d.mjs"}[i])
			m.locals = []localExport{{[]string{"", "ya", "yb", "yd"}[i], "var"}}
			mods = append(mods, m)
		}
		c := &gmod{id: n + 1, kind: modCJS, path: "c.cjs", locals: []localExport{v2("x"), v2("w")}}
		mods = append(mods, c)
		for i := 1; i <= n; i++ {
			next := i%n + 1
			if i == v.cjsOn {
				if v.before {
					mods[i].stars = []int{n + 1, next}
				} else {
					mods[i].stars = []int{next, n + 1}
				}
			} else {
				mods[i].stars = []int{next}
			}
		}
		// the importer enters the cycle at the member right after cjsOn: cjsOn is then evaluated
		// first and every other member copies the CommonJS names from an already evaluated module
		first := v.cjsOn%n + 1
		order := []int{first}
		for i := 1; i <= n; i++ {
			if i != first {
				order = append(order, i)
			}
		}
		lc := 0
		for _, t := range order {
			lc++
			mods[0].imports = append(mods[0].imports,
				gimport{t, "named", "x", fmt.Sprintf("x%d", lc)}, gimport{t, "ns", "", fmt.Sprintf("n%d", lc)}, gimport{t, "named", "w", fmt.Sprintf("w%d", lc)})
		}
		out = append(out, finish(&ggraph{mods: mods, shape: v.name, rootType: "module", subType: "module"}))
	}
	// 15-17. export * chains ending in a CommonJS leaf, starting at the ENTRY: the entry's
	// exports (importer / requirer / global name) include the leaf's names
	for _, levels := range []int{0, 1, 2} {
		mods := []*gmod{esm(0, "e.mjs")}
		mods[0].locals = []localExport{v2("own")}
		for i := 1; i <= levels; i++ {
			m := esm(i, fmt.Sprintf("mid%d.mjs", i))
			m.locals = []localExport{{fmt.Sprintf("fromMid%d", i), "var"}, {"y", "function"}}
			mods = append(mods, m)
		}
		leaf := &gmod{id: levels + 1, kind: modCJS, path: "leaf.cjs", locals: []localExport{v2("fromLeaf"), v2("answer"), v2("x")}}
		mods = append(mods, leaf)
		for i := 0; i <= levels; i++ {
			mods[i].stars = []int{i + 1}
		}
		out = append(out, finish(&ggraph{mods: mods, shape: fmt.Sprintf("fixed-starchain-%d", levels), rootType: "module", subType: "module"}))
	}
	// 19-20. import() of CommonJS files (with the __esModule marker assigned, defined, or absent) from
	// ESM-typed importers (.mjs, and .js under "type": "module"): node mode, ns.default is
	// module.exports; static default / namespace imports of the same files as controls
	for _, ep := range []string{"e.mjs", "e.js"} {
		e := esm(0, ep)
		l1 := &gmod{id: 1, kind: modCJS, path: "l1.cjs", cjsEsm: true, locals: []localExport{v2("x")}}
		l2 := &gmod{id: 2, kind: modCJS, path: "l2.cjs", cjsEsm: true, cjsEsmDefine: true, locals: []localExport{v2("x")}}
		l3 := &gmod{id: 3, kind: modCJS, path: "l3.cjs", locals: []localExport{v2("x"), v2("y")}}
		e.dyn = []int{1, 2, 3}
		e.imports = []gimport{{1, "default", "", "d1"}, {2, "default", "", "d2"}, {3, "default", "", "d3"},
			{1, "ns", "", "n1"}, {3, "ns", "", "n3"}, {2, "named", "x", "x2"}}
		out = append(out, finish(&ggraph{mods: []*gmod{e, l1, l2, l3}, shape: "fixed-dyn-cjs-" + ep, rootType: "module", subType: "module"}))
	}
	// 21-24. diamonds of export stars whose shared descendant lies two or three star levels below the
	// join, with the contested name shadowed on exactly one path: lib: export * from a; export * from b;
	// a: export * from c; export var x (the shadow); b: export * from c; c: export * from d (or through
	// one more level); d: export var x, y.  x is ambiguous in lib (a's own binding against d's through
	// b), so lib's namespace and exports have y but not x - whichever path is traversed first.  Seen
	// through an importer's namespace import and as the entry's own exports
	for _, v := range []struct {
		name           string
		shadowFirst    bool
		levels         int
		libIsEntry     bool
		shadowOnBranch int // 0: the branch module itself exports x; 1: a module between the branch and the join does
	}{{"fixed-stardiamond-shadow-first", true, 1, false, 0}, {"fixed-stardiamond-shadow-last", false, 1, false, 0},
		{"fixed-stardiamond-deep-entry", true, 2, true, 0}, {"fixed-stardiamond-mid-shadow", true, 1, false, 1}} {
		var mods []*gmod
		base := 1
		if v.libIsEntry {
			base = 0
		} else {
			mods = append(mods, esm(0, "e.mjs"))
		}
		add := func(path string) *gmod {
			m := esm(len(mods), path)
			mods = append(mods, m)
			return m
		}
		lib := add("lib.mjs")
		if v.libIsEntry {
			lib.path = "e.mjs"
		}
		a, b := add("a.mjs"), add("b.mjs")
		shadow := a
		if v.shadowOnBranch == 1 {
			a2 := add("a2.mjs")
			a.stars = []int{a2.id}
			a.locals = []localExport{v2("fromA")}
			shadow = a2
		}
		c := add("c.mjs")
		shadow.stars = []int{c.id}
		shadow.locals = append(shadow.locals, v2("x"), v2("w"))
		b.stars = []int{c.id}
		b.locals = []localExport{v2("fromB")}
		cur := c
		for i := 1; i < v.levels; i++ {
			nx := add(fmt.Sprintf("c%d.mjs", i+1))
			cur.stars = []int{nx.id}
			cur = nx
		}
		d := add("d.mjs")
		cur.stars = []int{d.id}
		d.locals = []localExport{v2("x"), v2("y"), {"z", "function"}}
		if v.shadowFirst {
			lib.stars = []int{a.id, b.id}
		} else {
			lib.stars = []int{b.id, a.id}
		}
		lib.locals = []localExport{v2("own")}
		if base == 1 {
			mods[0].imports = []gimport{{lib.id, "ns", "", "nl"}, {lib.id, "named", "y", "ly"}, {a.id, "ns", "", "na"}, {b.id, "ns", "", "nb"},
				{a.id, "named", "x", "ax"}, {b.id, "named", "x", "bx"}}
		}
		out = append(out, finish(&ggraph{mods: mods, shape: v.name, rootType: "module", subType: "module"}))
	}
	// 18. repaired finding C02-A (fix a7bd0a8), must pass: one binding exported under two names and
	// re-exported to the same name along two export-star paths is not ambiguous
	out = append(out, aliasTwoNamesGraph())
	return out
}

func v2(n string) localExport { return localExport{n, "var"} }

// (repaired, now a must-pass graph) one binding exported under two names, re-exported to the
// same name along two export-star paths (ECMA-262: same module and binding
// name, so not ambiguous; the linker compares name locations and rejects it)
func aliasTwoNamesGraph() *ggraph {
	e, m, a1, a2, b := esm(0, "e.mjs"), esm(1, "m.mjs"), esm(2, "a1.mjs"), esm(3, "a2.mjs"), esm(4, "b.mjs")
	b.locals = []localExport{{"v", "var"}}
	b.aliasTwo = true
	a1.reexps = []greexp{{4, "p2", "x"}}
	a2.reexps = []greexp{{4, "q2", "x"}}
	m.stars = []int{2, 3}
	e.imports = []gimport{{1, "named", "x", "ex"}}
	g := finish(&ggraph{mods: []*gmod{e, m, a1, a2, b}, shape: "fixed-alias-two-names", rootType: "module", subType: "module"})
	return g
}

// second known finding: a module re-exports a name from a module that
// star-exports it back (the resolve set makes that branch null in ECMA-262;
// the linker's cycle detector result is compared as a different binding)
func knownStarCycleGraph() *ggraph {
	e, m0, m3, m1 := esm(0, "e.mjs"), esm(1, "m0.mjs"), esm(2, "m3.mjs"), esm(3, "m1.mjs")
	m3.locals = []localExport{{"x", "var"}}
	m1.reexps = []greexp{{1, "x", "x"}}
	m0.stars = []int{2, 3}
	e.imports = []gimport{{1, "named", "x", "ex"}}
	g := &ggraph{mods: []*gmod{e, m0, m3, m1}, shape: "known", rootType: "module", subType: "module", allowKnown: true}
	return finish(g)
}

// fourth known finding: a named import from an ES module without any export statement is accepted
func knownExportlessGraph() *ggraph {
	e, m, x := esm(0, "e.mjs"), esm(1, "m5.mjs"), esm(2, "x.mjs")
	x.locals = []localExport{{"w", "var"}}
	m.imports = []gimport{{2, "named", "w", "mw"}}
	e.imports = []gimport{{1, "named", "z", "ez"}}
	g := &ggraph{mods: []*gmod{e, m, x}, shape: "known", rootType: "module", subType: "module", allowKnown: true}
	return finish(g)
}

// fifth known finding: with minify-syntax an unused named import of a missing export is dropped silently
func knownUnusedMissingGraph() *ggraph {
	e, m := esm(0, "e.mjs"), esm(1, "m1.mjs")
	m.locals = []localExport{{"x", "var"}}
	e.imports = []gimport{{1, "named", "z", "ez"}}
	e.unusedImports = true
	e.throws = true // no reads of the binding at all
	g := &ggraph{mods: []*gmod{e, m}, shape: "known", rootType: "module", subType: "module", allowKnown: true, hasThrow: true}
	return finish(g)
}

// sixth known finding: the names an "export *" takes from a CommonJS file are copied at run
// time when the re-exporting module's body runs; in an export-star cycle the member that is
// evaluated first copies from a namespace that has not received them yet and never sees them
func knownStaleReexportGraph() *ggraph {
	e, a, b := esm(0, "e.mjs"), esm(1, "a.mjs"), esm(2, "b.mjs")
	c := &gmod{id: 3, kind: modCJS, path: "c.cjs", locals: []localExport{v2("x")}}
	a.locals = []localExport{v2("ya")}
	b.locals = []localExport{v2("yb")}
	a.stars = []int{2, 3}
	b.stars = []int{1}
	e.imports = []gimport{{1, "ns", "", "na"}, {2, "named", "x", "bx"}, {2, "ns", "", "nb"}}
	g := &ggraph{mods: []*gmod{e, a, b, c}, shape: "known", rootType: "module", subType: "module", allowKnown: true}
	return finish(g)
}

// seventh known finding (inherent to the format): an esm-format bundle cannot declare the names its
// entry point takes from a CommonJS file through "export *"
func knownEsmRuntimeStarGraph() *ggraph {
	e, mid := esm(0, "e.mjs"), esm(1, "mid1.mjs")
	e.locals = []localExport{v2("own")}
	mid.locals = []localExport{v2("fromMid1")}
	leaf := &gmod{id: 2, kind: modCJS, path: "leaf.cjs", locals: []localExport{v2("fromLeaf")}}
	e.stars = []int{1}
	mid.stars = []int{2}
	return finish(&ggraph{mods: []*gmod{e, mid, leaf}, shape: "known", rootType: "module", subType: "module", allowKnown: true})
}

// eighth known finding (deliberate Babel interop): import() of a CommonJS file carrying the __esModule
// marker from a file that is NOT ESM-typed (.cjs / .js without "type": "module") yields
// ns.default = module.exports.default; native node always gives module.exports
func knownUntypedImportGraph() *ggraph {
	u := &gmod{id: 0, kind: modCJS, path: "e.cjs", locals: []localExport{v2("own")}}
	l1 := &gmod{id: 1, kind: modCJS, path: "l1.cjs", cjsEsm: true, locals: []localExport{v2("x")}}
	u.dyn = []int{1}
	return finish(&ggraph{mods: []*gmod{u, l1}, shape: "known", rootType: "", subType: "commonjs", allowKnown: true})
}

func knownFindings(st *Stats) {
	plain := buildCfg{"esm", "node", false}
	for _, k := range []struct {
		g        *ggraph
		scenario string
		cfg      buildCfg
	}{{knownStarCycleGraph(), "known-star-reexport-cycle-ambiguity", plain},
		{knownExportlessGraph(), "known-import-from-exportless-module-accepted", plain},
		{knownUnusedMissingGraph(), "known-minify-drops-unused-missing-import", buildCfg{"esm", "node", true}},
		{knownStaleReexportGraph(), "known-star-cycle-commonjs-reexport-copied-too-early", plain},
		{knownEsmRuntimeStarGraph(), "known-esm-format-entry-loses-runtime-star-exports", plain},
		{knownUntypedImportGraph(), "known-untyped-importer-dynamic-import-babel-interop", plain}} {
		desc := k.g.describe()
		desc["scenario"] = k.scenario
		delete(desc, "entry_dynamic_exports") // the recorded scenarios compare everything
		ep := k.g.mods[k.g.entry].path
		outs := runJobs([]glueJob{{k.g, k.g.render(), ep, ep, k.g.isESM(k.g.entry), []buildCfg{k.cfg}, desc, "known"}})
		for _, o := range outs[0] {
			if o.kind == "fail" {
				st.Note("known:"+k.scenario, "1", true)
				st.Fail(k.scenario, o.input, o.got, o.expect)
			} else {
				st.Note("known:"+k.scenario+":not-reproduced", "1", true)
			}
		}
	}
}

var _ = NewRng
